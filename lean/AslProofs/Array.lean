import AslModel.Array
namespace AslProofs.Arr
open AslModel.Arr

variable {α : Type}

/-- cells of a well-formed block: the constructed prefix, then unconstructed storage -/
def cellsOf (l : List α) (k : Nat) : Cells α := l.map some ++ List.replicate k none

theorem nones_add (a b : Nat) : (List.replicate a none : Cells α) ++ List.replicate b none = List.replicate (a + b) none := by
  simp [List.replicate_append_replicate]

theorem nones_comm (a b : Nat) : (List.replicate a none : Cells α) ++ List.replicate b none = List.replicate b none ++ List.replicate a none := by
  rw [nones_add, nones_add, Nat.add_comm]

theorem writeAt_mid (A X Y B : Cells α) (pos : Nat) (hp : pos = A.length) (hl : X.length = Y.length) :
    writeAt (A ++ X ++ B) pos Y = A ++ Y ++ B := by
  subst hp
  unfold writeAt
  have h1 : (A ++ X ++ B).take A.length = A := by rw [List.append_assoc]; exact List.take_left' rfl
  have h2 : (A ++ X ++ B).drop (A.length + Y.length) = B := by
    rw [← hl]; exact List.drop_left' (by simp)
  rw [h1, h2]

theorem slice_mid (A X B : Cells α) (pos k : Nat) (hp : pos = A.length) (hk : k = X.length) :
    ((A ++ X ++ B).drop pos).take k = X := by
  subst hp hk
  rw [List.append_assoc, List.drop_left' rfl, List.take_left' rfl]

theorem allNone_replicate (k : Nat) : allNone (List.replicate k (none : Option α)) = true := by
  induction k with
  | zero => rfl
  | succ k ih => simpa [List.replicate_succ, allNone] using ih

theorem getElem?_mid (A : Cells α) (x : Option α) (B : Cells α) (i : Nat) (hi : i = A.length) :
    (A ++ x :: B)[i]? = some x := by
  subst hi; simp

theorem set_mid (A : Cells α) (x y : Option α) (B : Cells α) (i : Nat) (hi : i = A.length) :
    (A ++ x :: B).set i y = A ++ y :: B := by
  subst hi; simp

/-! ### primitives on `A ++ [cell] ++ B` -/

theorem construct_mid (s : BS α) (A B : Cells α) (i : Nat) (v : α) (hc : s.cells = A ++ none :: B) (hi : i = A.length) :
    construct s i v = some { s with cells := A ++ some v :: B, live := s.live + 1 } := by
  unfold construct
  rw [hc, getElem?_mid A none B i hi, set_mid A none (some v) B i hi]

theorem destroy_mid (s : BS α) (A B : Cells α) (i : Nat) (x : α) (hc : s.cells = A ++ some x :: B) (hi : i = A.length) :
    destroy s i = some { s with cells := A ++ none :: B, live := s.live - 1 } := by
  unfold destroy
  rw [hc, getElem?_mid A (some x) B i hi, set_mid A (some x) none B i hi]

theorem readCell_mid (s : BS α) (A B : Cells α) (i : Nat) (x : α) (hc : s.cells = A ++ some x :: B) (hi : i = A.length) :
    readCell s i = some x := by
  unfold readCell
  rw [hc, getElem?_mid A (some x) B i hi]

theorem assignCell_mid (s : BS α) (A B : Cells α) (i : Nat) (x v : α) (hc : s.cells = A ++ some x :: B) (hi : i = A.length) :
    assignCell s i v = some { s with cells := A ++ some v :: B } := by
  unfold assignCell
  rw [hc, getElem?_mid A (some x) B i hi, set_mid A (some x) (some v) B i hi]

theorem constructN_mid (dflt : α) (k : Nat) : ∀ (s : BS α) (A B : Cells α) (i : Nat),
    s.cells = A ++ List.replicate k none ++ B → i = A.length →
    constructN dflt k s i = some { s with cells := A ++ List.replicate k (some dflt) ++ B, live := s.live + k } := by
  induction k with
  | zero => intro s A B i hc _; cases s; simp_all [constructN]
  | succ k ih =>
    intro s A B i hc hi
    have hc' : s.cells = A ++ none :: (List.replicate k none ++ B) := by
      rw [hc, List.replicate_succ]; simp
    rw [constructN, construct_mid s A _ i dflt hc' hi, Option.bind_some]
    rw [ih _ (A ++ [some dflt]) B (i + 1) (by simp) (by simp [hi])]
    simp [List.replicate_succ]
    omega

theorem destroyN_mid (k : Nat) : ∀ (s : BS α) (A B : Cells α) (M : List α) (i : Nat),
    s.cells = A ++ M.map some ++ B → M.length = k → i = A.length →
    destroyN k s i = some { s with cells := A ++ List.replicate k none ++ B, live := s.live - k } := by
  induction k with
  | zero =>
    intro s A B M i hc hM _
    have : M = [] := List.length_eq_zero_iff.mp hM
    subst this
    cases s; simp_all [destroyN]
  | succ k ih =>
    intro s A B M i hc hM hi
    match M, hM with
    | x :: M', hM =>
      have hc' : s.cells = A ++ some x :: (M'.map some ++ B) := by rw [hc]; simp
      rw [destroyN, destroy_mid s A _ i x hc' hi, Option.bind_some]
      rw [ih _ (A ++ [none]) B M' (i + 1) (by simp) (by simpa using hM) (by simp [hi])]
      simp [List.replicate_succ]
      omega

/-- left shift over a gap of dead cells: `A ++ gap ++ M ++ B  ↦  A ++ M ++ gap ++ B` -/
theorem relocate_left (s : BS α) (A M B : Cells α) (g dst src k : Nat)
    (hc : s.cells = A ++ List.replicate g none ++ M ++ B) (hd : dst = A.length) (hs : src = A.length + g) (hk : k = M.length) :
    relocate s dst src k = some { s with cells := A ++ M ++ List.replicate g none ++ B } := by
  unfold relocate
  have hlen : s.cells.length = A.length + g + M.length + B.length := by rw [hc]; simp; omega
  rw [if_pos (by omega)]
  have h1 : (s.cells.drop src).take k = M := by
    rw [hc]; exact slice_mid (A ++ List.replicate g none) M B src k (by simp [hs]) hk
  have h2 : writeAt s.cells src (List.replicate k none) = A ++ List.replicate k none ++ (List.replicate g none ++ B) := by
    rw [hc, writeAt_mid (A ++ List.replicate g none) M (List.replicate k none) B src (by simp [hs]) (by simp [hk])]
    rw [List.append_assoc A, nones_comm g k]; simp only [List.append_assoc]
  simp only [h1, h2]
  rw [slice_mid A (List.replicate k none) _ dst k hd (by simp), allNone_replicate, if_pos rfl]
  rw [writeAt_mid A (List.replicate k none) M _ dst hd (by simp [hk])]
  simp

/-- right shift by one into a dead cell: `A ++ M ++ [none] ++ B  ↦  A ++ [none] ++ M ++ B` -/
theorem relocate_right1 (s : BS α) (A M B : Cells α) (dst src k : Nat)
    (hc : s.cells = A ++ M ++ none :: B) (hd : dst = A.length + 1) (hs : src = A.length) (hk : k = M.length) :
    relocate s dst src k = some { s with cells := A ++ none :: M ++ B } := by
  unfold relocate
  have hlen : s.cells.length = A.length + M.length + 1 + B.length := by rw [hc]; simp; omega
  rw [if_pos (by omega)]
  have h1 : (s.cells.drop src).take k = M := by
    rw [hc]; exact slice_mid A M (none :: B) src k hs hk
  have h2 : writeAt s.cells src (List.replicate k none) = (A ++ [none]) ++ List.replicate k none ++ B := by
    rw [hc, writeAt_mid A M (List.replicate k none) (none :: B) src hs (by simp [hk])]
    have : (List.replicate k none : Cells α) ++ none :: B = [none] ++ List.replicate k none ++ B := by
      have := nones_comm (α := α) k 1
      simp only [List.replicate_one] at this
      rw [List.append_cons, this]
    rw [List.append_assoc A, this]; simp
  simp only [h1, h2]
  rw [slice_mid (A ++ [none]) (List.replicate k none) B dst k (by simp [hd]) (by simp), allNone_replicate, if_pos rfl]
  rw [writeAt_mid (A ++ [none]) (List.replicate k none) M B dst (by simp [hd]) (by simp [hk])]
  simp



/-! ### representation of a well-formed block and the contract of a member function -/

/-- `s` holds exactly the elements `l` (constructed prefix), followed by `k` unconstructed cells; capacity > 0 -/
def Rep (s : BS α) (l : List α) (k : Nat) : Prop :=
  s.n = l.length ∧ s.cells = cellsOf l k ∧ 0 < l.length + k

theorem cellsOf_length (l : List α) (k : Nat) : (cellsOf l k).length = l.length + k := by simp [cellsOf]

theorem cellsOf_split (l : List α) (a b : Nat) : cellsOf l (a + b) = l.map some ++ List.replicate a none ++ List.replicate b none := by
  rw [cellsOf, ← nones_add, List.append_assoc]

/-- `op` implements the list function `F` on every well-formed block: it never leaves live storage (result is
`some`), leaves a well-formed block, keeps `rc`, and changes the live-object counter by the change of length -/
def Refines (op : BS α → Option (BS α)) (F : List α → List α) : Prop :=
  ∀ s l k, Rep s l k → ∃ s' k', op s = some s' ∧ Rep s' (F l) k' ∧ s'.rc = s.rc ∧
    s'.live = s.live + (F l).length - l.length

theorem reserve_rep (E : Elem α) (s : BS α) (l : List α) (k m : Nat) (h : Rep s l k) :
    ∃ k', Rep (reserve E s m) l k' ∧ m ≤ l.length + k' ∧ (reserve E s m).rc = s.rc ∧ (reserve E s m).live = s.live := by
  obtain ⟨hn, hc, hpos⟩ := h
  have hlen : s.cells.length = l.length + k := by rw [hc, cellsOf_length]
  unfold reserve
  simp only []
  split
  · exact ⟨k, ⟨hn, hc, hpos⟩, by omega, rfl, rfl⟩
  · rename_i hm
    split
    · refine ⟨max (8 * s.cells.length / 4) m - l.length, ⟨hn, ?_, by omega⟩, by omega, rfl, rfl⟩
      simp only []
      have : min m s.n = l.length := by omega
      have ht : s.cells.take l.length = l.map some := by rw [hc, cellsOf, List.take_left' (by simp)]
      rw [this, ht]; rfl
    · refine ⟨k + (max (8 * s.cells.length / 4) m - s.cells.length), ⟨hn, ?_, by omega⟩, by omega, rfl, rfl⟩
      simp only []
      rw [hc, cellsOf, cellsOf, List.append_assoc, nones_add]

theorem take_all_append_rep (l : List α) (m : Nat) (d : α) (h : l.length ≤ m) :
    l.take m ++ List.replicate (m - l.length) d = l ++ List.replicate (m - l.length) d := by
  rw [List.take_of_length_le h]

theorem resize_refines (E : Elem α) (m : Nat) :
    Refines (fun s => resize E s m) (fun l => l.take m ++ List.replicate (m - l.length) E.dflt) := by
  intro s l k h
  obtain ⟨k1, ⟨hn1, hc1, hpos1⟩, hm1, hrc1, hlive1⟩ := reserve_rep E s l k m h
  have hn := h.1
  unfold resize
  simp only []
  rw [hn]
  split
  · rename_i hgt
    -- grow: construct the tail
    have hk : k1 = (m - l.length) + (k1 - (m - l.length)) := by omega
    have hc2 : (reserve E s m).cells = l.map some ++ List.replicate (m - l.length) none ++ List.replicate (k1 - (m - l.length)) none := by
      rw [hc1, hk, cellsOf_split]; congr 2 <;> omega
    rw [constructN_mid E.dflt (m - l.length) _ (l.map some) _ l.length hc2 (by simp)]
    refine ⟨_, k1 - (m - l.length), rfl, ⟨?_, ?_, ?_⟩, ?_, ?_⟩
    · simp; omega
    · simp [cellsOf, List.take_of_length_le (Nat.le_of_lt hgt)]
    · simp; omega
    · simpa using hrc1
    · simp [hlive1, List.take_of_length_le (Nat.le_of_lt hgt)]; omega
  · rename_i hngt
    split
    · rename_i hlt
      have hc2 : (reserve E s m).cells = (l.take m).map some ++ (l.drop m).map some ++ List.replicate k1 none := by
        rw [hc1, cellsOf, ← List.map_append, List.take_append_drop]
      rw [destroyN_mid (l.length - m) _ ((l.take m).map some) _ (l.drop m) m hc2 (by simp) (by simp; omega)]
      refine ⟨_, (l.length - m) + k1, rfl, ⟨?_, ?_, ?_⟩, ?_, ?_⟩
      · simp; omega
      · have : m - l.length = 0 := by omega
        simp [cellsOf, this, nones_add]
      · simp; omega
      · simpa using hrc1
      · simp [hlive1]; omega
    · have hme : m = l.length := by omega
      subst hme
      refine ⟨_, k1, rfl, ⟨?_, ?_, ?_⟩, ?_, ?_⟩
      · simp
      · simp [hc1]
      · simp; omega
      · simpa using hrc1
      · simp [hlive1]



/-- the value denoted by the argument of `insert` -/
def argVal (l : List α) : Arg α → Option α
  | .val v => some v
  | .own j => l[j]?

theorem insert_spec (s : BS α) (l : List α) (k0 kk : Nat) (x : Arg α) (v : α) (h : Rep s l k0)
    (hk : kk ≤ l.length) (hx : argVal l x = some v) :
    ∃ s' k', AslModel.Arr.insert s kk x = some s' ∧ Rep s' (l.take kk ++ v :: l.drop kk) k' ∧ s'.rc = s.rc ∧ s'.live = s.live + 1 := by
  obtain ⟨hn, hc, hpos⟩ := h
  have hlen : s.cells.length = l.length + k0 := by rw [hc, cellsOf_length]
  -- step 1: growth
  let s1 : BS α := if s.n < s.cells.length then s
    else { s with cells := s.cells ++ List.replicate (2 * s.cells.length - s.cells.length) none, moved := true }
  have h1 : ∃ k1, s1.cells = cellsOf l (k1 + 1) ∧ s1.rc = s.rc ∧ s1.live = s.live := by
    by_cases hlt : s.n < s.cells.length
    · refine ⟨k0 - 1, ?_, ?_, ?_⟩ <;> simp only [s1, if_pos hlt]
      rw [hc]; congr 1; omega
    · refine ⟨l.length - 1, ?_, ?_, ?_⟩ <;> simp only [s1, if_neg hlt]
      have hk0 : k0 = 0 := by omega
      subst hk0
      have hg : 2 * s.cells.length - s.cells.length = l.length - 1 + 1 := by omega
      rw [hg, hc, cellsOf, cellsOf, List.append_assoc, nones_add]; congr 2; omega
  obtain ⟨k1, hc1, hrc1, hlive1⟩ := h1
  have hc1' : s1.cells = (l.take kk).map some ++ (l.drop kk).map some ++ none :: List.replicate k1 none := by
    rw [hc1, cellsOf, List.replicate_succ, ← List.map_append, List.take_append_drop]
  -- step 2: shift
  have h2 : ∃ s2, (if kk < s.n then relocate s1 (kk + 1) kk (s.n - kk) else some s1) = some s2 ∧
      s2.cells = (l.take kk).map some ++ none :: ((l.drop kk).map some ++ List.replicate k1 none) ∧
      s2.rc = s.rc ∧ s2.live = s.live := by
    by_cases hlt : kk < s.n
    · rw [if_pos hlt, relocate_right1 s1 _ ((l.drop kk).map some) _ (kk + 1) kk (s.n - kk) hc1'
        (by simp; omega) (by simp; omega) (by simp; omega)]
      exact ⟨_, rfl, by simp, hrc1, hlive1⟩
    · rw [if_neg hlt]
      have : kk = l.length := by omega
      refine ⟨s1, rfl, ?_, hrc1, hlive1⟩
      rw [hc1', this]; simp
  obtain ⟨s2, hs2, hc2, hrc2, hlive2⟩ := h2
  -- step 3: the argument
  have hrd : ∀ j, l[j]? = some v → readCell s2 (if j ≥ kk then j + 1 else j) = some v := by
    intro j hx
    have hj : j < l.length := by
      rcases Nat.lt_or_ge j l.length with h | h
      · exact h
      · rw [List.getElem?_eq_none h] at hx; cases hx
    unfold readCell
    rw [hc2]
    by_cases hge : kk ≤ j
    · simp only [ge_iff_le, hge, if_true]
      rw [List.getElem?_append_right (by simp; omega)]
      have : j + 1 - ((l.take kk).map some).length = (j - kk) + 1 := by simp; omega
      rw [this, List.getElem?_cons_succ, List.getElem?_append_left (by simp; omega)]
      simp only [List.getElem?_map, List.getElem?_drop]
      rw [show kk + (j - kk) = j by omega, hx]; rfl
    · simp only [ge_iff_le, hge, if_false]
      rw [List.getElem?_append_left (by simp; omega)]
      simp only [List.getElem?_map, List.getElem?_take]
      rw [if_pos (by omega), hx]; rfl
  have h3' : ∀ x' : Arg α, argVal l x' = some v → (match x' with
      | .val v => some v
      | .own j => readCell s2 (if j ≥ kk then j + 1 else j)) = some v := by
    intro x' hx'
    cases x' with
    | val w => simpa [argVal] using hx'
    | own j => exact hrd j (by simpa [argVal] using hx')
  have h3 := h3' x hx
  -- assemble
  have hfin : AslModel.Arr.insert s kk x = (construct s2 kk v).map fun s' => { s' with n := s.n + 1 } := by
    unfold AslModel.Arr.insert
    simp only []
    show ((if kk < s.n then relocate s1 (kk + 1) kk (s.n - kk) else some s1).bind _) = _
    rw [hs2, Option.bind_some]
    show Option.bind (match x with
      | .val v => some v
      | .own j => readCell s2 (if j ≥ kk then j + 1 else j)) _ = _
    rw [h3, Option.bind_some]
  rw [hfin, construct_mid s2 _ _ kk v hc2 (by simp; omega)]
  refine ⟨_, k1, rfl, ⟨?_, ?_, ?_⟩, ?_, ?_⟩
  · simp; omega
  · simp [cellsOf]
  · simp; omega
  · simpa using hrc2
  · simp [hlive2]



theorem split3 (l : List α) (i c : Nat) : l = l.take i ++ (l.drop i).take c ++ l.drop (i + c) := by
  rw [List.append_assoc, ← List.drop_drop, List.take_append_drop, List.take_append_drop]

theorem remove_spec (E : Elem α) (s : BS α) (l : List α) (k i cnt : Nat) (h : Rep s l k) (hi : i + cnt ≤ l.length) :
    ∃ s' k', remove E s i cnt = some s' ∧ Rep s' (l.take i ++ l.drop (i + cnt)) k' ∧ s'.rc = s.rc ∧
      s'.live = s.live - cnt := by
  obtain ⟨hn, hc, hpos⟩ := h
  unfold remove
  simp only []
  rw [if_neg (by omega)]
  have hc0 : s.cells = (l.take i).map some ++ ((l.drop i).take cnt).map some ++
      ((l.drop (i + cnt)).map some ++ List.replicate k none) := by
    rw [hc, cellsOf]
    conv => lhs; rw [split3 l i cnt]
    simp
  rw [destroyN_mid cnt s _ _ ((l.drop i).take cnt) i hc0 (by simp; omega) (by simp; omega), Option.bind_some]
  rw [relocate_left _ ((l.take i).map some) ((l.drop (i + cnt)).map some) (List.replicate k none) cnt i (i + cnt)
    (s.n - i - cnt) (by simp) (by simp; omega) (by simp; omega) (by simp; omega), Option.bind_some]
  simp only []
  have hrep : Rep (⟨(l.take i).map some ++ (l.drop (i + cnt)).map some ++ List.replicate cnt none ++ List.replicate k none,
      s.n - cnt, s.rc, s.live - cnt, s.moved⟩ : BS α) (l.take i ++ l.drop (i + cnt)) (cnt + k) := by
    refine ⟨?_, ?_, ?_⟩
    · simp; omega
    · simp [cellsOf, nones_add]
    · simp; omega
  obtain ⟨s', k', hs', hrep', hrc', hlive'⟩ := resize_refines E (s.n - cnt) _ _ _ hrep
  have hlen : (l.take i ++ l.drop (i + cnt)).length = s.n - cnt := by simp; omega
  dsimp only at hrep' hlive' hrc' hs'
  refine ⟨s', k', hs', ?_, hrc', ?_⟩
  · have : List.take (s.n - cnt) (l.take i ++ l.drop (i + cnt)) ++ List.replicate (s.n - cnt - (l.take i ++ l.drop (i + cnt)).length) E.dflt
        = l.take i ++ l.drop (i + cnt) := by
      rw [hlen, Nat.sub_self, List.take_of_length_le (by omega)]; simp
    rw [this] at hrep'; exact hrep'
  · rw [hlive']
    have : (List.take (s.n - cnt) (l.take i ++ l.drop (i + cnt)) ++ List.replicate (s.n - cnt - (l.take i ++ l.drop (i + cnt)).length) E.dflt).length
        = (l.take i ++ l.drop (i + cnt)).length := by
      rw [hlen, Nat.sub_self, List.take_of_length_le (by omega)]; simp; omega
    rw [this]; simp

/-! ### element loops -/

theorem assignFrom_mid : ∀ (xs Y : List α) (s : BS α) (A B : Cells α) (off : Nat),
    s.cells = A ++ Y.map some ++ B → Y.length = xs.length → off = A.length →
    assignFrom xs s off = some { s with cells := A ++ xs.map some ++ B } := by
  intro xs
  induction xs with
  | nil =>
    intro Y s A B off hc hY _
    have : Y = [] := List.length_eq_zero_iff.mp hY
    subst this
    cases s; simp_all [assignFrom]
  | cons x xs ih =>
    intro Y s A B off hc hY hoff
    match Y, hY with
    | y :: Y', hY =>
      have hc' : s.cells = A ++ some y :: (Y'.map some ++ B) := by rw [hc]; simp
      rw [assignFrom, assignCell_mid s A _ off y x hc' hoff, Option.bind_some]
      rw [ih Y' _ (A ++ [some x]) B (off + 1) (by simp) (by simpa using hY) (by simp [hoff])]
      simp

/-- `a[dst+i] = a[src+i]` with the read range strictly before the written range -/
theorem assignSelf_disjoint : ∀ (k : Nat) (X Y : List α) (s : BS α) (P Q R : Cells α) (dst src : Nat),
    s.cells = P ++ X.map some ++ Q ++ Y.map some ++ R → X.length = k → Y.length = k → src = P.length →
    dst = P.length + k + Q.length →
    assignSelf k s dst src = some { s with cells := P ++ X.map some ++ Q ++ X.map some ++ R } := by
  intro k
  induction k with
  | zero =>
    intro X Y s P Q R dst src hc hX hY _ _
    have h1 : X = [] := List.length_eq_zero_iff.mp hX
    have h2 : Y = [] := List.length_eq_zero_iff.mp hY
    subst h1 h2
    cases s; simp_all [assignSelf]
  | succ k ih =>
    intro X Y s P Q R dst src hc hX hY hsrc hdst
    match X, hX, Y, hY with
    | x :: X', hX, y :: Y', hY =>
      have hc1 : s.cells = P ++ some x :: (X'.map some ++ Q ++ (y :: Y').map some ++ R) := by rw [hc]; simp
      have hc2 : s.cells = (P ++ (x :: X').map some ++ Q) ++ some y :: (Y'.map some ++ R) := by rw [hc]; simp
      rw [assignSelf, readCell_mid s P _ src x hc1 hsrc, Option.bind_some,
        assignCell_mid s _ _ dst y x hc2 (by simp; simp at hX; omega), Option.bind_some]
      rw [ih X' Y' _ (P ++ [some x]) (Q ++ [some x]) R (dst + 1) (src + 1) (by simp) (by simpa using hX)
        (by simpa using hY) (by simp [hsrc]) (by simp; simp at hX; omega)]
      simp

/-- `a[off+i] = a[off+i]` : every cell is read and written back -/
theorem assignSelf_same : ∀ (k : Nat) (X : List α) (s : BS α) (P R : Cells α) (off : Nat),
    s.cells = P ++ X.map some ++ R → X.length = k → off = P.length →
    assignSelf k s off off = some s := by
  intro k
  induction k with
  | zero => intro X s P R off _ _ _; rfl
  | succ k ih =>
    intro X s P R off hc hX hoff
    match X, hX with
    | x :: X', hX =>
      have hc1 : s.cells = P ++ some x :: (X'.map some ++ R) := by rw [hc]; simp
      rw [assignSelf, readCell_mid s P _ off x hc1 hoff, Option.bind_some,
        assignCell_mid s P _ off x x hc1 hoff, Option.bind_some]
      have : ({ s with cells := P ++ some x :: (X'.map some ++ R) } : BS α) = s := by cases s; simp_all
      rw [this]
      exact ih X' s (P ++ [some x]) R (off + 1) (by rw [hc]; simp) (by simpa using hX) (by simp [hoff])

theorem readN_cellsOf (l : List α) (k : Nat) : readN l.length (cellsOf l k) = some l := by
  induction l with
  | nil => simp [readN]
  | cons x l ih => simp [readN, cellsOf] at ih ⊢; rw [ih]

theorem elems_rep (s : BS α) (l : List α) (k : Nat) (h : Rep s l k) : elems s = some l := by
  unfold elems; rw [h.1, h.2.1]; exact readN_cellsOf l k



theorem removeIfAux_spec (f : α → Bool) : ∀ (r : Nat) (T K : List α) (g : Nat) (s : BS α) (B : Cells α) (i j n : Nat),
    s.cells = K.map some ++ List.replicate g none ++ T.map some ++ B → T.length = r → i = K.length + g → j = K.length →
    removeIfAux f r s i j n = some ({ s with
        cells := (K ++ T.filter (fun v => !f v)).map some ++ List.replicate (g + (T.filter f).length) none ++ B,
        live := s.live - (T.filter f).length }, n - (T.filter f).length) := by
  intro r
  induction r with
  | zero =>
    intro T K g s B i j n hc hT _ _
    have : T = [] := List.length_eq_zero_iff.mp hT
    subst this
    cases s; simp_all [removeIfAux]
  | succ r ih =>
    intro T K g s B i j n hc hT hi hj
    match T, hT with
    | x :: T', hT =>
      have hc1 : s.cells = (K.map some ++ List.replicate g none) ++ some x :: (T'.map some ++ B) := by rw [hc]; simp
      rw [removeIfAux, readCell_mid s _ _ i x hc1 (by simp [hi]), Option.bind_some]
      by_cases hf : f x = true
      · rw [if_pos hf, destroy_mid s _ _ i x hc1 (by simp [hi]), Option.bind_some]
        rw [ih T' K (g + 1) _ B (i + 1) j (n - 1) (by simp [List.replicate_succ']) (by simpa using hT) (by omega) hj]
        simp [hf]
        omega
      · rw [if_neg hf]
        have hc2 : s.cells = K.map some ++ List.replicate g none ++ [some x] ++ (T'.map some ++ B) := by rw [hc]; simp
        rw [relocate_left s (K.map some) [some x] (T'.map some ++ B) g j i 1 hc2 (by simp [hj]) (by simp [hi]) rfl,
          Option.bind_some]
        rw [ih T' (K ++ [x]) g _ B (i + 1) (j + 1) n (by simp) (by simpa using hT) (by simp [hi]; omega) (by simp [hj])]
        simp [hf]

theorem filter_len_split (f : α → Bool) (l : List α) :
    (l.filter fun v => !f v).length + (l.filter f).length = l.length := by
  induction l with
  | nil => rfl
  | cons x l ih => by_cases hx : f x = true <;> simp [List.filter_cons, hx] <;> omega

theorem removeIf_refines (f : α → Bool) : Refines (removeIf f) (fun l => l.filter fun v => !f v) := by
  intro s l k h
  obtain ⟨hn, hc, hpos⟩ := h
  unfold removeIf
  rw [removeIfAux_spec f s.n l [] 0 s (List.replicate k none) 0 0 s.n (by simpa [cellsOf] using hc) hn.symm rfl rfl]
  simp only [Option.map_some]
  have hlen := filter_len_split f l
  refine ⟨_, (l.filter f).length + k, rfl, ⟨?_, ?_, ?_⟩, rfl, ?_⟩
  · simp only [hn]; omega
  · simp [cellsOf, nones_add]
  · omega
  · simp only []; omega



theorem assignFrom_rep (xs P Y Q : List α) (s : BS α) (k off : Nat) (h : Rep s (P ++ Y ++ Q) k)
    (hY : Y.length = xs.length) (hoff : off = P.length) :
    ∃ s', assignFrom xs s off = some s' ∧ Rep s' (P ++ xs ++ Q) k ∧ s'.rc = s.rc ∧ s'.live = s.live ∧ s'.moved = s.moved := by
  obtain ⟨hn, hc, hpos⟩ := h
  have hc' : s.cells = P.map some ++ Y.map some ++ (Q.map some ++ List.replicate k none) := by
    rw [hc, cellsOf]; simp
  rw [assignFrom_mid xs Y s _ _ off hc' hY (by simp [hoff])]
  refine ⟨_, rfl, ⟨?_, ?_, ?_⟩, rfl, rfl, rfl⟩
  · simp [hn]; omega
  · simp [cellsOf]
  · simp at hpos ⊢; omega

theorem append_vals_refines (E : Elem α) (xs : List α) : Refines (fun s => append E s (.vals xs)) (fun l => l ++ xs) := by
  intro s l k h
  obtain ⟨s1, k1, hs1, hrep1, hrc1, hlive1⟩ := resize_refines E (s.n + xs.length) s l k h
  dsimp only at hs1 hrep1 hlive1
  have hn := h.1
  have e1 : l.take (s.n + xs.length) ++ List.replicate (s.n + xs.length - l.length) E.dflt
      = l ++ List.replicate xs.length E.dflt ++ [] := by
    rw [List.take_of_length_le (by omega), hn]; simp
  rw [e1] at hrep1 hlive1
  obtain ⟨s2, hs2, hrep2, hrc2, hlive2, _⟩ := assignFrom_rep xs l (List.replicate xs.length E.dflt) [] s1 k1 s.n hrep1 (by simp) hn
  refine ⟨s2, k1, ?_, by simpa using hrep2, by rw [hrc2, hrc1], ?_⟩
  · show (resize E s (s.n + xs.length)).bind _ = _
    rw [hs1, Option.bind_some]; exact hs2
  · rw [hlive2, hlive1]; simp

theorem append_self_refines (E : Elem α) : Refines (fun s => append E s .self) (fun l => l ++ l) := by
  intro s l k h
  dsimp only
  obtain ⟨s1, k1, hs1, hrep1, hrc1, hlive1⟩ := resize_refines E (s.n + s.n) s l k h
  dsimp only at hs1 hrep1 hlive1
  have hn := h.1
  have e1 : l.take (s.n + s.n) ++ List.replicate (s.n + s.n - l.length) E.dflt = l ++ List.replicate l.length E.dflt := by
    rw [List.take_of_length_le (by omega), hn]; simp
  rw [e1] at hrep1 hlive1
  obtain ⟨hn1, hc1, hpos1⟩ := hrep1
  have hc1' : s1.cells = [] ++ l.map some ++ [] ++ (List.replicate l.length E.dflt).map some ++ List.replicate k1 none := by
    rw [hc1, cellsOf]; simp
  have hs2 := assignSelf_disjoint l.length l (List.replicate l.length E.dflt) s1 [] [] _ s.n 0 hc1' rfl (by simp) rfl (by simp [hn])
  refine ⟨{ s1 with cells := [] ++ l.map some ++ [] ++ l.map some ++ List.replicate k1 none }, k1, ?_, ⟨?_, ?_, ?_⟩, ?_, ?_⟩
  · show (resize E s (s.n + s.n)).bind _ = _
    rw [hs1, Option.bind_some, hn]; rw [hn] at hs2; exact hs2
  · simpa using hn1
  · simp [cellsOf]
  · simp at hpos1 ⊢; omega
  · simpa using hrc1
  · simp [hlive1]

theorem copy_vals_refines (E : Elem α) (xs : List α) : Refines (fun s => copy E s (.vals xs)) (fun _ => xs) := by
  intro s l k h
  obtain ⟨s1, k1, hs1, hrep1, hrc1, hlive1⟩ := resize_refines E xs.length s l k h
  dsimp only at hs1 hrep1 hlive1
  have hlen : (l.take xs.length ++ List.replicate (xs.length - l.length) E.dflt).length = xs.length := by
    simp; omega
  have e1 : l.take xs.length ++ List.replicate (xs.length - l.length) E.dflt
      = [] ++ (l.take xs.length ++ List.replicate (xs.length - l.length) E.dflt) ++ [] := by simp
  rw [e1] at hrep1
  obtain ⟨s2, hs2, hrep2, hrc2, hlive2, _⟩ := assignFrom_rep xs [] _ [] s1 k1 0 hrep1 hlen rfl
  refine ⟨s2, k1, ?_, by simpa using hrep2, by rw [hrc2, hrc1], ?_⟩
  · show (resize E s xs.length).bind _ = _
    rw [hs1, Option.bind_some]; exact hs2
  · rw [hlive2, hlive1, hlen]

theorem copy_self_refines (E : Elem α) : Refines (fun s => copy E s .self) (fun l => l) := by
  intro s l k h
  obtain ⟨s1, k1, hs1, hrep1, hrc1, hlive1⟩ := resize_refines E s.n s l k h
  dsimp only at hs1 hrep1 hlive1
  have hn := h.1
  have e1 : l.take s.n ++ List.replicate (s.n - l.length) E.dflt = l := by
    rw [List.take_of_length_le (by omega), hn]; simp
  rw [e1] at hrep1 hlive1
  have hc1' : s1.cells = [] ++ l.map some ++ List.replicate k1 none := by rw [hrep1.2.1, cellsOf]; simp
  refine ⟨s1, k1, ?_, hrep1, hrc1, hlive1⟩
  show (resize E s s.n).bind _ = _
  rw [hs1, Option.bind_some]
  exact assignSelf_same s.n l s1 [] _ 0 hc1' hn.symm rfl

theorem pushAll_spec : ∀ (xs : List α) (s : BS α) (l : List α) (k : Nat), Rep s l k →
    ∃ s' k', pushAll xs s = some s' ∧ Rep s' (l ++ xs) k' ∧ s'.rc = s.rc ∧ s'.live = s.live + xs.length := by
  intro xs
  induction xs with
  | nil => intro s l k h; exact ⟨s, k, rfl, by simpa using h, rfl, by simp⟩
  | cons x xs ih =>
    intro s l k h
    obtain ⟨s1, k1, hs1, hrep1, hrc1, hlive1⟩ := insert_spec s l k s.n (.val x) x h (by rw [h.1]; exact Nat.le_refl _) rfl
    have e : l.take s.n ++ x :: l.drop s.n = l ++ [x] := by
      rw [h.1, List.take_of_length_le (Nat.le_refl _), List.drop_of_length_le (Nat.le_refl _)]
    rw [e] at hrep1
    obtain ⟨s2, k2, hs2, hrep2, hrc2, hlive2⟩ := ih s1 (l ++ [x]) k1 hrep1
    refine ⟨s2, k2, ?_, by simpa using hrep2, by rw [hrc2, hrc1], ?_⟩
    · rw [pushAll, hs1, Option.bind_some]; exact hs2
    · rw [hlive2, hlive1]; simp; omega

theorem alloc_spec (E : Elem α) (live : Int) (m : Nat) :
    ∃ s, alloc E live m = some s ∧ Rep s (List.replicate m E.dflt) (max m 3 - m) ∧ s.rc = 1 ∧ s.live = live + m := by
  unfold alloc
  have hc : (⟨List.replicate (max m 3) none, m, 1, live, false⟩ : BS α).cells
      = [] ++ List.replicate m none ++ List.replicate (max m 3 - m) none := by
    simp [nones_add]; omega
  rw [constructN_mid E.dflt m _ [] _ 0 hc rfl]
  refine ⟨_, rfl, ⟨?_, ?_, ?_⟩, rfl, rfl⟩
  · simp
  · simp [cellsOf]
  · simp; omega

end AslProofs.Arr
