import AslProofs.ArraySpecLemmas
/-! # C01: a clone is unaffected by every later history that does not write through its own handle (helper lemmas) -/
namespace AslProofs.Arr
open AslModel.Arr AslProofs.ArrSpec
variable {α : Type}

/-- slot `t` refers to cell `c`, the cell holds `l`, and no other handle refers to it -/
structure Iso (sp : Sp α) (t c : Nat) (l : List α) : Prop where
  slot : sp.hs[t]? = some (some c)
  cell : sp.cells[c]? = some l
  only : ∀ s, s ≠ t → sp.hs[s]? ≠ some (some c)

theorem Iso.clt {sp : Sp α} {t c : Nat} {l : List α} (h : Iso sp t c l) : c < sp.cells.length := lt_of_getElem?_some h.cell

theorem Iso.get {sp : Sp α} {t c : Nat} {l : List α} (h : Iso sp t c l) : sp.get t = l := by
  rw [get_of_slot h.slot, List.getD_eq_getElem?_getD, h.cell]; rfl

theorem Iso.occ {sp : Sp α} {t c : Nat} {l : List α} (h : Iso sp t c l) : sp.occ t = true :=
  (sp_occ_iff sp t).mpr ⟨c, h.slot⟩

theorem getElem?_set_cases {β : Type} (l : List β) (i j : Nat) (v : β) :
    (l.set i v)[j]? = l[j]? ∨ (i = j ∧ (l.set i v)[j]? = some v) := by
  by_cases h : i = j
  · subst h
    by_cases hl : i < l.length
    · right; exact ⟨rfl, List.getElem?_set_self hl⟩
    · left; rw [List.getElem?_eq_none (by simp; omega), List.getElem?_eq_none (by omega)]
  · left; exact List.getElem?_set_ne h

theorem iso_sNew {sp : Sp α} {t c : Nat} {l : List α} (hi : Iso sp t c l) {h : Nat} (hne : h ≠ t) (l' : List α) :
    Iso (sNew sp h l') t c l := by
  have hc := hi.clt
  refine ⟨?_, ?_, ?_⟩
  · show (sp.hs.set h (some sp.cells.length))[t]? = _
    rw [List.getElem?_set_ne hne]; exact hi.slot
  · show (sp.cells ++ [l'])[c]? = _
    rw [List.getElem?_append_left hc]; exact hi.cell
  · intro s hs
    show (sp.hs.set h (some sp.cells.length))[s]? ≠ _
    rcases getElem?_set_cases sp.hs h s (some sp.cells.length) with e | ⟨_, e⟩
    · rw [e]; exact hi.only s hs
    · rw [e]; intro h2; injection h2 with h2; injection h2 with h2; omega

theorem iso_sDrop {sp : Sp α} {t c : Nat} {l : List α} (hi : Iso sp t c l) {h : Nat} (hne : h ≠ t) :
    Iso (sDrop sp h) t c l := by
  refine ⟨?_, hi.cell, ?_⟩
  · show (sp.hs.set h none)[t]? = _
    rw [List.getElem?_set_ne hne]; exact hi.slot
  · intro s hs
    show (sp.hs.set h none)[s]? ≠ _
    rcases getElem?_set_cases sp.hs h s none with e | ⟨_, e⟩
    · rw [e]; exact hi.only s hs
    · rw [e]; intro h2; injection h2 with h2; cases h2

theorem getD_ne {sp : Sp α} {t c : Nat} {l : List α} (hi : Iso sp t c l) {src : Nat} (hs : src ≠ t) :
    sp.hs.getD src none ≠ some c := by
  rw [List.getD_eq_getElem?_getD]
  cases hx : sp.hs[src]? with
  | none => simp
  | some o =>
    intro e
    simp only [Option.getD_some] at e
    exact hi.only src hs (by rw [hx, e])

theorem iso_sShare {sp : Sp α} {t c : Nat} {l : List α} (hi : Iso sp t c l) {dst src : Nat} (hd : dst ≠ t) (hs : src ≠ t) :
    Iso (sShare sp dst src) t c l := by
  refine ⟨?_, hi.cell, ?_⟩
  · show (sp.hs.set dst (sp.hs.getD src none))[t]? = _
    rw [List.getElem?_set_ne hd]; exact hi.slot
  · intro s hs'
    show (sp.hs.set dst (sp.hs.getD src none))[s]? ≠ _
    rcases getElem?_set_cases sp.hs dst s (sp.hs.getD src none) with e | ⟨_, e⟩
    · rw [e]; exact hi.only s hs'
    · rw [e]; intro h2; injection h2 with h2; exact getD_ne hi hs h2

theorem iso_sMove {sp : Sp α} {t c : Nat} {l : List α} (hi : Iso sp t c l) {dst src : Nat} (hd : dst ≠ t) (hs : src ≠ t) :
    Iso (sMove sp dst src) t c l :=
  iso_sDrop (iso_sShare hi hd hs) hs

theorem iso_sAssign {sp : Sp α} {t c : Nat} {l : List α} (hi : Iso sp t c l) {dst src : Nat} (hd : dst ≠ t) (hs : src ≠ t) :
    Iso (sAssign sp dst src) t c l := by
  unfold sAssign; split
  · exact hi
  · exact iso_sShare (iso_sDrop hi hd) hd hs

theorem iso_sMut {sp : Sp α} {t c : Nat} {l : List α} (hi : Iso sp t c l) {h : Nat} (hne : h ≠ t) (F : List α → List α) :
    Iso (sMut sp h F) t c l := by
  unfold sMut
  split
  · rename_i c' hc'
    have hcc : c' ≠ c := fun e => hi.only h hne (by rw [hc', e])
    exact ⟨hi.slot, by show (sp.cells.set c' _)[c]? = _; rw [List.getElem?_set_ne hcc]; exact hi.cell, hi.only⟩
  · exact hi

theorem iso_ite {sp sp' : Sp α} {t c : Nat} {l : List α} {p : Prop} [Decidable p] (h1 : Iso sp t c l) (h2 : Iso sp' t c l) :
    Iso (if p then sp else sp') t c l := by
  split <;> assumption

theorem iso_sStoreT0 {sp : Sp α} {t c : Nat} {l : List α} (hi : Iso sp t c l) {t' : Nat} (hne : t' ≠ t) (hT : T0 ≠ t) :
    Iso (sStoreT0 sp t') t c l :=
  iso_sDrop (iso_sAssign (iso_ite hi (iso_sNew hi hne [])) hne hT) hT

theorem iso_sProduce {sp : Sp α} {t c : Nat} {l : List α} (hi : Iso sp t c l) {t' : Nat} (hne : t' ≠ t) (hT : T0 ≠ t) (xs : List α) :
    Iso (sProduce sp t' xs) t c l :=
  iso_sStoreT0 (iso_sNew hi hT xs) hne hT

/-- does `op` write through slot `t` (as the target or the mutated handle), copy handle `t`, or assign to/from it?
Reading through `t` (`get`, `==`, being the source of `clone`/`slice`/`concat`/`append`/…) is not writing. -/
def writesTo (t : Nat) : Op α → Bool
  | .new h | .newn h _ _ | .newp h _ | .drop h | .app h _ | .ins h _ _ | .appo h _ | .inso h _ _ | .insx h _ _ _
  | .rem h _ _ | .remone h _ _ | .reml h | .rsz h _ _ | .res h _ | .clr h | .sort h _ | .sortby h _ | .dup h
  | .remif h _ _ | .apnd h _ | .copy h _ | .copyp h _ | .appp h _ | .set h _ _ | .pop h | .popn h _ | .popget h
  | .qget h | .appown h _ _ | .copyown h _ _ | .remx h _ _ => h == t
  | .cp h g | .asg h g => h == t || g == t
  | .slice t' _ _ _ | .clone t' _ | .concat t' _ _ | .rev t' _ | .filt t' _ _ _ | .slicee t' _ _ => t' == t
  | .get _ _ | .idx _ _ _ | .last _ | .eq _ _ | .top _ _ | .iter _ => false

theorem specStep_iso [DecidableEq α] (E : Elem α) {sp : Sp α} {t c : Nat} {l : List α} (hi : Iso sp t c l) (hT : T0 ≠ t)
    (op : Op α) (hw : writesTo t op = false) : Iso (specStep E sp op).1 t c l := by
  cases op <;> simp only [writesTo, beq_eq_false_iff_ne, Bool.or_eq_false_iff, ne_eq] at hw <;> simp only [specStep]
  all_goals first
    | (repeat' split) <;> (try dsimp only) <;> first
        | exact hi
        | exact iso_sMut hi hw _
        | exact iso_sProduce hi hw hT _
        | exact iso_sDrop hi hw
        | exact iso_sAssign hi hw.1 hw.2
    | skip
  case new h => exact iso_sNew (iso_ite (iso_sDrop hi hw) hi) hw _
  case newn h n v => exact iso_sProduce (iso_ite (iso_sDrop hi hw) hi) hw hT _
  case newp h xs => exact iso_sProduce (iso_ite (iso_sDrop hi hw) hi) hw hT _
  case cp h g =>
    split
    · exact iso_sMove (iso_ite (iso_sDrop (iso_sShare hi hT hw.2) hw.1) (iso_sShare hi hT hw.2)) hw.1 hT
    · exact hi
  case dup h =>
    split
    · split
      · exact hi
      · exact iso_sDrop (iso_sAssign (iso_sNew hi hT _) hw hT) hT
    · exact hi
  case concat t' h g =>
    split
    · exact iso_sStoreT0 (iso_sMut (iso_sNew hi hT _) hT _) hw hT
    · exact hi

/-- the invariant is kept by every history that does not write through slot `t` — also when some operations are
left out (the driver's exclusion) -/
theorem specRunG_iso [DecidableEq α] (E : Elem α) {t c : Nat} {l : List α} (hT : T0 ≠ t) : ∀ (ops : List (Op α)) (st : St α) (sp : Sp α),
    Iso sp t c l → (∀ op ∈ ops, writesTo t (normOp op) = false) → Iso (specRunG E st sp ops).1 t c l := by
  intro ops
  induction ops with
  | nil => intro st sp hi _; exact hi
  | cons op ops ih =>
    intro st sp hi hall
    simp only [specRunG]
    apply ih
    · split
      · exact hi
      · exact specStep_iso E hi hT _ (hall op (List.mem_cons_self ..))
    · intro o ho; exact hall o (List.mem_cons_of_mem _ ho)

theorem specRun_iso [DecidableEq α] (E : Elem α) {t c : Nat} {l : List α} (hT : T0 ≠ t) : ∀ (ops : List (Op α)) (sp : Sp α),
    Iso sp t c l → (∀ op ∈ ops, writesTo t (normOp op) = false) → Iso (specRun E sp ops).1 t c l := by
  intro ops
  induction ops with
  | nil => intro sp hi _; exact hi
  | cons op ops ih =>
    intro sp hi hall
    simp only [specRun]
    exact ih _ (specStep_iso E hi hT _ (hall op (List.mem_cons_self ..))) (fun o ho => hall o (List.mem_cons_of_mem _ ho))

/-- right after `t = h.clone()` the invariant holds: the new cell is referred to by `t` only -/
theorem iso_after_clone {sp : Sp α} (hwf : SpWf sp) (hlen : sp.hs.length = 8) (hT0 : sp.hs[T0]? = some none) {t : Nat} (ht : t < NS)
    (l : List α) : Iso (sProduce sp t l) t sp.cells.length l := by
  obtain ⟨h1, h2, h3, h4, h5⟩ := sProduce_slots sp hlen t ht l
  have hne : t ≠ T0 := by unfold NS at ht; unfold T0; omega
  refine ⟨h1, ?_, ?_⟩
  · rw [List.getElem?_eq_getElem h5]
    rw [List.getD_eq_getElem?_getD, List.getElem?_eq_getElem h5] at h2
    simpa using h2
  · intro s hs
    by_cases hsT : s = T0
    · subst hsT
      -- the temporary is gone at the end of the operation
      have : (sProduce sp t l).hs[T0]? = some none := by
        unfold sProduce sStoreT0 sDrop
        simp only []
        rw [List.getElem?_set_self]
        unfold sAssign; rw [if_neg hne]
        unfold sShare sDrop; simp only [List.length_set]
        split <;> simp [sNew, hlen, T0]
      rw [this]; intro e; cases e
    · rw [h3 s hs hsT]
      intro e
      have := hwf s _ e
      omega

end AslProofs.Arr
