import AslProofs.ArrayQsortSorted
/-! # C01: the comparisons the driver sorts with are strict total orders (helper lemmas) -/
namespace AslProofs.Arr
open AslModel.Arr
variable {α : Type}

/-- the descending comparator of `sort(Less)` / `sortd` -/
theorem StrictTotal.flip {lt : α → α → Bool} (h : StrictTotal lt) : StrictTotal (fun a b => lt b a) :=
  ⟨h.irr, fun a b c h1 h2 => h.trans c b a h2 h1, fun a b => by
    rcases h.tri a b with h1 | h1 | h1
    · exact Or.inr (Or.inr h1)
    · exact Or.inr (Or.inl h1)
    · exact Or.inl h1⟩

theorem strictTotal_int (esz : Nat) : StrictTotal (intElem esz).lt :=
  ⟨fun a => by simp [intElem], fun a b c h1 h2 => by simp [intElem] at *; omega, fun a b => by simp [intElem]; omega⟩

theorem ltBytes_irr : ∀ a : List UInt8, ltBytes a a = false
  | [] => rfl
  | x :: t => by simp [ltBytes, ltBytes_irr t]

theorem u8_lt_iff (a b : UInt8) : a < b ↔ a.toNat < b.toNat := UInt8.lt_iff_toNat_lt

theorem u8_eq_of (a b : UInt8) (h1 : ¬ a < b) (h2 : ¬ b < a) : a = b := by
  rw [u8_lt_iff] at h1 h2
  exact UInt8.toNat_inj.mp (by omega)

theorem ltBytes_tri : ∀ a b : List UInt8, ltBytes a b = true ∨ a = b ∨ ltBytes b a = true
  | [], [] => Or.inr (Or.inl rfl)
  | [], _ :: _ => Or.inl rfl
  | _ :: _, [] => Or.inr (Or.inr rfl)
  | x :: s, y :: t => by
    unfold ltBytes
    by_cases h1 : x < y
    · left; simp [h1]
    · by_cases h2 : y < x
      · right; right; simp [h2]
      · have e := u8_eq_of x y h1 h2
        subst e
        simp only [h1, if_false]
        rcases ltBytes_tri s t with h | h | h
        · exact Or.inl h
        · exact Or.inr (Or.inl (by rw [h]))
        · exact Or.inr (Or.inr h)

theorem ltBytes_trans : ∀ a b c : List UInt8, ltBytes a b = true → ltBytes b c = true → ltBytes a c = true
  | [], [], _, h, _ => by simp [ltBytes] at h
  | [], _ :: _, [], _, h => by simp [ltBytes] at h
  | [], _ :: _, _ :: _, _, _ => rfl
  | _ :: _, [], _, h, _ => by simp [ltBytes] at h
  | _ :: _, _ :: _, [], _, h => by simp [ltBytes] at h
  | x :: s, y :: t, z :: u, h1, h2 => by
    unfold ltBytes at h1 h2 ⊢
    by_cases a1 : x < y
    · by_cases a2 : y < z
      · have : x < z := by rw [u8_lt_iff] at *; omega
        simp [this]
      · by_cases a3 : z < y
        · simp [a2, a3] at h2
        · have e := u8_eq_of y z a2 a3; subst e; simp [a1]
    · by_cases a1' : y < x
      · simp [a1, a1'] at h1
      · have e := u8_eq_of x y a1 a1'; subst e
        simp only [a1, if_false] at h1
        by_cases a2 : x < z
        · simp [a2]
        · by_cases a3 : z < x
          · simp [a2, a3] at h2
          · simp only [a2, a3, if_false] at h2 ⊢
            exact ltBytes_trans s t u h1 h2

theorem strictTotal_bytes : StrictTotal strElem.lt := ⟨ltBytes_irr, ltBytes_trans, ltBytes_tri⟩

end AslProofs.Arr
