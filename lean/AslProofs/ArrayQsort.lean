import AslProofs.ArrayRefine
/-! # C01: `quicksort` of foreach1.h — permutation lemmas and the reference sort (helper lemmas) -/
namespace AslProofs.Arr
open AslModel.Arr
variable {α : Type}

theorem count_set_add [DecidableEq α] (l : List α) (i : Nat) (old new v : α) (h : l[i]? = some old) :
    (l.set i new).count v + (if old = v then 1 else 0) = l.count v + (if new = v then 1 else 0) := by
  induction l generalizing i with
  | nil => simp at h
  | cons a t ih =>
    cases i with
    | zero =>
      simp at h; subst h
      simp [List.count_cons]; omega
    | succ s =>
      simp at h
      have := ih s h
      simp [List.count_cons]; omega

theorem swapAt_perm [DecidableEq α] {xs ys : List α} {i j : Nat} (h : swapAt xs i j = some ys) : ys.Perm xs := by
  unfold swapAt at h
  split at h
  · rename_i a b ha hb
    injection h with h; subst h
    rw [List.perm_iff_count]
    intro v
    have h1 := count_set_add xs i a b v ha
    have hj : (xs.set i b)[j]? = some b := by
      rw [List.getElem?_set]
      by_cases hij : i = j
      · subst hij
        have : i < xs.length := by
          rcases Nat.lt_or_ge i xs.length with h1 | h1
          · exact h1
          · rw [List.getElem?_eq_none h1] at ha; cases ha
        simp [this]
      · simp [hij, hb]
    have h2 := count_set_add (xs.set i b) j b a v hj
    omega
  · cases h

theorem partLoop_perm [DecidableEq α] (lt : α → α → Bool) (p : α) (sf : Nat) : ∀ (f : Nat) (xs : List α) (l r1 : Nat)
    (res : List α × Nat × Nat), partLoop lt p sf f xs l r1 = some res → res.1.Perm xs := by
  intro f
  induction f with
  | zero => intro xs l r1 res h; simp [partLoop] at h
  | succ f ih =>
    intro xs l r1 res h
    rw [partLoop] at h
    split at h
    · cases h1 : scanL lt p xs sf l with
      | none => rw [h1] at h; simp at h
      | some l' =>
        rw [h1, Option.bind_some] at h
        cases h2 : scanR lt p xs sf r1 with
        | none => rw [h2] at h; simp at h
        | some r1' =>
          rw [h2, Option.bind_some] at h
          split at h
          · cases h3 : swapAt xs l' (r1' - 1) with
            | none => rw [h3] at h; simp at h
            | some xs' =>
              rw [h3, Option.bind_some] at h
              exact (ih xs' _ _ res h).trans (swapAt_perm h3)
          · exact ih xs _ _ res h
    · injection h with h; subst h; exact List.Perm.refl _

theorem qsortAux_perm [DecidableEq α] (lt : α → α → Bool) : ∀ (f : Nat) (xs : List α) (a n : Nat) (ys : List α),
    qsortAux lt f xs a n = some ys → ys.Perm xs := by
  intro f
  induction f with
  | zero => intro xs a n ys h; simp [qsortAux] at h
  | succ f ih =>
    intro xs a n ys h
    rw [qsortAux] at h
    split at h
    · injection h with h; subst h; exact List.Perm.refl _
    · split at h
      · cases h
      · rename_i p _
        cases h1 : partLoop lt p (n + 2) (n + 2) xs a (a + n) with
        | none => rw [h1] at h; simp at h
        | some r =>
          rw [h1, Option.bind_some] at h
          split at h
          · cases h2 : qsortAux lt f r.1 a (r.2.2 - a) with
            | none => rw [h2] at h; simp at h
            | some xs' =>
              rw [h2, Option.bind_some] at h
              exact ((ih xs' _ _ ys h).trans (ih r.1 _ _ xs' h2)).trans (partLoop_perm lt p _ _ xs _ _ r h1)
          · cases h2 : qsortAux lt f r.1 r.2.1 (a + n - r.2.1) with
            | none => rw [h2] at h; simp at h
            | some xs' =>
              rw [h2, Option.bind_some] at h
              exact ((ih xs' _ _ ys h).trans (ih r.1 _ _ xs' h2)).trans (partLoop_perm lt p _ _ xs _ _ r h1)

theorem qsortList_perm [DecidableEq α] (lt : α → α → Bool) {xs ys : List α} (h : qsortList lt xs = some ys) : ys.Perm xs :=
  qsortAux_perm lt _ xs _ _ ys h

end AslProofs.Arr
