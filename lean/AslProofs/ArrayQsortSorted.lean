import AslProofs.ArrayQsortTotal
/-! # C01: the transcribed `quicksort` sorts (strict total order) — helper lemmas -/
namespace AslProofs.Arr
open AslModel.Arr
variable {α : Type}

/-- a strict total order given as a Boolean `<` -/
structure StrictTotal (lt : α → α → Bool) : Prop where
  irr : ∀ a, lt a a = false
  trans : ∀ a b c, lt a b = true → lt b c = true → lt a c = true
  tri : ∀ a b, lt a b = true ∨ a = b ∨ lt b a = true

theorem StrictTotal.asymm {lt : α → α → Bool} (h : StrictTotal lt) {a b : α} (hab : lt a b = true) : lt b a = false := by
  cases hba : lt b a
  · rfl
  · have := h.trans a b a hab hba; rw [h.irr] at this; cases this

/-- a strict weak order given as a Boolean `<` (the strict part of a total preorder: ties allowed; what `sortBy(key)`
compares with when two elements have the same key) -/
structure StrictWeak (lt : α → α → Bool) : Prop where
  irr : ∀ a, lt a a = false
  trans : ∀ a b c, lt a b = true → lt b c = true → lt a c = true
  ntrans : ∀ a b c, lt a b = false → lt b c = false → lt a c = false

theorem StrictWeak.asymm {lt : α → α → Bool} (h : StrictWeak lt) {a b : α} (hab : lt a b = true) : lt b a = false := by
  cases hba : lt b a
  · rfl
  · have := h.trans a b a hab hba; rw [h.irr] at this; cases this

/-- every strict total order is a strict weak order -/
theorem StrictTotal.weak {lt : α → α → Bool} (h : StrictTotal lt) : StrictWeak lt :=
  ⟨h.irr, h.trans, fun a b c hab hbc => by
    cases hac : lt a c
    · rfl
    · rcases h.tri a b with h1 | h1 | h1
      · rw [h1] at hab; cases hab
      · subst h1; rw [hac] at hbc; cases hbc
      · rw [h.trans b a c h1 hac] at hbc; cases hbc⟩

/-- the descending comparator of a strict weak order -/
theorem StrictWeak.flip {lt : α → α → Bool} (h : StrictWeak lt) : StrictWeak (fun a b => lt b a) :=
  ⟨h.irr, fun a b c h1 h2 => h.trans c b a h2 h1, fun a b c h1 h2 => h.ntrans c b a h2 h1⟩

/-- comparing by an integer key (`IsLess<T,F>` of `sortBy`) is a strict weak order, whatever the key function -/
theorem strictWeak_key (key : α → Int) : StrictWeak (fun a b => decide (key a < key b)) :=
  ⟨fun a => by simp, fun a b c h1 h2 => by simp at *; omega, fun a b c h1 h2 => by simp at *; omega⟩

/-- every element at positions `[a, b)` is `≤ p` -/
def LeP (lt : α → α → Bool) (p : α) (xs : List α) (a b : Nat) : Prop :=
  ∀ i x, a ≤ i → i < b → xs[i]? = some x → lt p x = false
/-- every element at positions `[a, b)` is `≥ p` -/
def GeP (lt : α → α → Bool) (p : α) (xs : List α) (a b : Nat) : Prop :=
  ∀ i x, a ≤ i → i < b → xs[i]? = some x → lt x p = false
/-- positions `[a, b)` are in non-decreasing order -/
def SortedR (lt : α → α → Bool) (xs : List α) (a b : Nat) : Prop :=
  ∀ i j x y, a ≤ i → i < j → j < b → xs[i]? = some x → xs[j]? = some y → lt y x = false
/-- `ys` differs from `xs` only inside `[a, b)`, and every element there comes from `[a, b)` of `xs` -/
def Sub (xs ys : List α) (a b : Nat) : Prop :=
  ys.length = xs.length ∧ (∀ i, (i < a ∨ b ≤ i) → ys[i]? = xs[i]?) ∧
    (∀ i, a ≤ i → i < b → ∃ j, a ≤ j ∧ j < b ∧ ys[i]? = xs[j]?)

theorem Sub.refl (xs : List α) (a b : Nat) : Sub xs xs a b := ⟨rfl, fun _ _ => rfl, fun i h1 h2 => ⟨i, h1, h2, rfl⟩⟩

theorem Sub.trans {xs ys zs : List α} {a b : Nat} (h1 : Sub xs ys a b) (h2 : Sub ys zs a b) : Sub xs zs a b := by
  refine ⟨h2.1.trans h1.1, fun i hi => (h2.2.1 i hi).trans (h1.2.1 i hi), ?_⟩
  intro i hi1 hi2
  obtain ⟨j, hj1, hj2, hj3⟩ := h2.2.2 i hi1 hi2
  obtain ⟨k, hk1, hk2, hk3⟩ := h1.2.2 j hj1 hj2
  exact ⟨k, hk1, hk2, hj3.trans hk3⟩

theorem Sub.mono {xs ys : List α} {a b a' b' : Nat} (h : Sub xs ys a' b') (ha : a ≤ a') (hb : b' ≤ b) : Sub xs ys a b := by
  refine ⟨h.1, fun i hi => h.2.1 i (by omega), ?_⟩
  intro i hi1 hi2
  by_cases hin : a' ≤ i ∧ i < b'
  · obtain ⟨j, hj1, hj2, hj3⟩ := h.2.2 i hin.1 hin.2
    exact ⟨j, by omega, by omega, hj3⟩
  · exact ⟨i, hi1, hi2, h.2.1 i (by omega)⟩

theorem LeP.of_sub {lt : α → α → Bool} {p : α} {xs ys : List α} {a b : Nat} (h : LeP lt p xs a b) (hs : Sub xs ys a b) :
    LeP lt p ys a b := by
  intro i x h1 h2 hx
  obtain ⟨j, hj1, hj2, hj3⟩ := hs.2.2 i h1 h2
  exact h j x hj1 hj2 (by rw [← hj3]; exact hx)

theorem GeP.of_sub {lt : α → α → Bool} {p : α} {xs ys : List α} {a b : Nat} (h : GeP lt p xs a b) (hs : Sub xs ys a b) :
    GeP lt p ys a b := by
  intro i x h1 h2 hx
  obtain ⟨j, hj1, hj2, hj3⟩ := hs.2.2 i h1 h2
  exact h j x hj1 hj2 (by rw [← hj3]; exact hx)

theorem swap_sub {xs : List α} {i j : Nat} {x y : α} {a b : Nat} (hx : xs[i]? = some x) (hy : xs[j]? = some y)
    (hai : a ≤ i) (hij : i ≤ j) (hjb : j < b) : Sub xs ((xs.set i y).set j x) a b := by
  have hil := lt_len_of_some hx
  have hjl := lt_len_of_some hy
  refine ⟨by simp, ?_, ?_⟩
  · intro k hk
    rw [List.getElem?_set_ne (by omega), List.getElem?_set_ne (by omega)]
  · intro k hk1 hk2
    by_cases hkj : k = j
    · subst hkj
      exact ⟨i, hai, by omega, by rw [List.getElem?_set_self (by simp; exact hjl), hx]⟩
    · by_cases hki : k = i
      · subst hki
        exact ⟨j, by omega, hjb, by rw [List.getElem?_set_ne (fun e => hkj e.symm), List.getElem?_set_self hil, hy]⟩
      · exact ⟨k, hk1, hk2, by rw [List.getElem?_set_ne (fun e => hkj e.symm), List.getElem?_set_ne (fun e => hki e.symm)]⟩

/-- `while (*l < p) l++;` also tells that everything it skipped is `< p` -/
theorem scanL_spec (lt : α → α → Bool) (p : α) (xs : List α) : ∀ (f l s : Nat), l ≤ s → NL lt p xs s → s - l + 1 ≤ f →
    ∃ l', scanL lt p xs f l = some l' ∧ l ≤ l' ∧ l' ≤ s ∧ NL lt p xs l' ∧
      (∀ i x, l ≤ i → i < l' → xs[i]? = some x → lt x p = true) := by
  intro f
  induction f with
  | zero => intro l s _ _ h; omega
  | succ f ih =>
    intro l s hls hs hf
    obtain ⟨xS, hxS, hltS⟩ := hs
    have hslt := lt_len_of_some hxS
    have hl : xs[l]? = some xs[l] := List.getElem?_eq_getElem (by omega)
    rw [scanL, hl]
    simp only []
    by_cases hc : lt xs[l] p = true
    · rw [if_pos hc]
      have hne : l ≠ s := by
        intro e; subst e
        rw [hl] at hxS; injection hxS with e; rw [e] at hc; rw [hc] at hltS; cases hltS
      obtain ⟨l', h1, h2, h3, h4, h5⟩ := ih (l + 1) s (by omega) ⟨xS, hxS, hltS⟩ (by omega)
      refine ⟨l', h1, by omega, h3, h4, ?_⟩
      intro i x hi1 hi2 hx
      by_cases hil : i = l
      · subst hil; rw [hl] at hx; injection hx with e; rw [← e]; exact hc
      · exact h5 i x (by omega) hi2 hx
    · rw [if_neg hc]
      exact ⟨l, rfl, Nat.le_refl _, hls, ⟨xs[l], hl, by simpa using hc⟩, fun i x h1 h2 => by omega⟩

theorem scanR_spec (lt : α → α → Bool) (p : α) (xs : List α) : ∀ (f r1 s : Nat), s < r1 → r1 ≤ xs.length → NG lt p xs s → r1 - s ≤ f →
    ∃ r1', scanR lt p xs f r1 = some r1' ∧ s < r1' ∧ r1' ≤ r1 ∧ NG lt p xs (r1' - 1) ∧
      (∀ i x, r1' ≤ i → i < r1 → xs[i]? = some x → lt p x = true) := by
  intro f
  induction f with
  | zero => intro r1 s h _ _ hf; omega
  | succ f ih =>
    intro r1 s hsr hr hs hf
    obtain ⟨xS, hxS, hltS⟩ := hs
    have hr1 : xs[r1 - 1]? = some xs[r1 - 1] := List.getElem?_eq_getElem (by omega)
    rw [scanR, if_neg (by omega), hr1]
    simp only []
    by_cases hc : lt p xs[r1 - 1] = true
    · rw [if_pos hc]
      have hne : r1 - 1 ≠ s := by
        intro e
        have h2 : xs[r1 - 1]? = some xS := by rw [e]; exact hxS
        rw [hr1] at h2; injection h2 with e'
        rw [e'] at hc; rw [hc] at hltS; cases hltS
      obtain ⟨r', h1, h2, h3, h4, h5⟩ := ih (r1 - 1) s (by omega) (by omega) ⟨xS, hxS, hltS⟩ (by omega)
      refine ⟨r', h1, h2, by omega, h4, ?_⟩
      intro i x hi1 hi2 hx
      by_cases hil : i = r1 - 1
      · subst hil; rw [hr1] at hx; injection hx with e; rw [← e]; exact hc
      · exact h5 i x hi1 (by omega) hx
    · rw [if_neg hc]
      exact ⟨r1, rfl, hsr, Nat.le_refl _, ⟨xs[r1 - 1], hr1, by simpa using hc⟩, fun i x h1 h2 => by omega⟩



theorem partLoop_spec (lt : α → α → Bool) (hst : StrictWeak lt) (p : α) (sf lo hi : Nat) (hsf : hi - lo + 1 ≤ sf) :
    ∀ (f : Nat) (xs : List α) (l r1 : Nat), lo ≤ l → l ≤ hi → lo ≤ r1 → r1 ≤ hi → hi ≤ xs.length → (r1 - l) + 2 ≤ f →
    (l + 1 ≤ r1 → (∃ sL, l ≤ sL ∧ sL < hi ∧ NL lt p xs sL) ∧ (∃ sR, lo ≤ sR ∧ sR < r1 ∧ NG lt p xs sR)) →
    LeP lt p xs lo l → GeP lt p xs r1 hi →
    ∀ res, partLoop lt p sf f xs l r1 = some res →
      Sub xs res.1 lo hi ∧ LeP lt p res.1 lo res.2.1 ∧ GeP lt p res.1 res.2.2 hi ∧ res.2.2 ≤ res.2.1 ∧
        res.2.1 ≤ hi ∧ lo ≤ res.2.2 := by
  intro f
  induction f with
  | zero => intro xs l r1 _ _ _ _ _ hf; omega
  | succ f ih =>
    intro xs l r1 hlo hlhi hlor hhi hlen hf hsent hle hge res hres
    rw [partLoop] at hres
    by_cases hc : l + 1 ≤ r1
    · rw [if_pos hc] at hres
      obtain ⟨⟨sL, hsL1, hsL2, hsL3⟩, ⟨sR, hsR1, hsR2, hsR3⟩⟩ := hsent hc
      obtain ⟨l', hl1, hl2, hl3, hl4, hl5⟩ := scanL_spec lt p xs sf l sL hsL1 hsL3 (by omega)
      obtain ⟨r', hr1, hr2, hr3, hr4, hr5⟩ := scanR_spec lt p xs sf r1 sR hsR2 (by omega) hsR3 (by omega)
      rw [hl1, Option.bind_some, hr1, Option.bind_some] at hres
      -- what the scans established
      have hleL : LeP lt p xs lo l' := by
        intro i x h1 h2 hx
        by_cases hil : i < l
        · exact hle i x h1 hil hx
        · exact hst.asymm (hl5 i x (by omega) h2 hx)
      have hgeR : GeP lt p xs r' hi := by
        intro i x h1 h2 hx
        by_cases hir : r1 ≤ i
        · exact hge i x hir h2 hx
        · exact hst.asymm (hr5 i x h1 (by omega) hx)
      by_cases hsw : l' + 1 ≤ r'
      · rw [if_pos hsw] at hres
        have q1 : lo ≤ l' + 1 := by omega
        have q2 : r' - 1 ≤ hi := by omega
        have q3 : (r' - 1) - (l' + 1) + 2 ≤ f := by
          clear hl4 hr4 hsL3 hsR3 hsent ih hl1 hr1 hl5 hr5 hleL hgeR hle hge hres
          omega
        have q4 : l' + 1 ≤ hi := by omega
        have q5 : lo ≤ r' - 1 := by omega
        obtain ⟨a, ha, hla⟩ := hl4
        obtain ⟨b, hb, hlb⟩ := hr4
        rw [swapAt_ok ha hb, Option.bind_some] at hres
        have hal := lt_len_of_some ha
        have hbl := lt_len_of_some hb
        have hlenS : ((xs.set l' b).set (r' - 1) a).length = xs.length := by simp
        have hsub := swap_sub (a := lo) (b := hi) ha hb (by omega) (by omega) (by omega)
        -- the element now at l' is ≤ p, the element now at r'-1 is ≥ p
        have hatl : ∀ x, ((xs.set l' b).set (r' - 1) a)[l']? = some x → lt p x = false := by
          intro x hx
          by_cases he : l' = r' - 1
          · have hab : a = b := by rw [he] at ha; rw [ha] at hb; injection hb
            rw [← he, List.getElem?_set_self (by simp; exact hal)] at hx
            injection hx with e; rw [← e, hab]; exact hlb
          · rw [List.getElem?_set_ne (fun e => he e.symm), List.getElem?_set_self hal] at hx
            injection hx with e; rw [← e]; exact hlb
        have hatr : ∀ x, ((xs.set l' b).set (r' - 1) a)[r' - 1]? = some x → lt x p = false := by
          intro x hx
          rw [List.getElem?_set_self (by simp; exact hbl)] at hx
          injection hx with e; rw [← e]; exact hla
        have hle' : LeP lt p ((xs.set l' b).set (r' - 1) a) lo (l' + 1) := by
          intro i x h1 h2 hx
          by_cases hil : i = l'
          · subst hil; exact hatl x hx
          · rw [List.getElem?_set_ne (by omega), List.getElem?_set_ne (by omega)] at hx
            exact hleL i x h1 (by omega) hx
        have hge' : GeP lt p ((xs.set l' b).set (r' - 1) a) (r' - 1) hi := by
          intro i x h1 h2 hx
          by_cases hir : i = r' - 1
          · subst hir; exact hatr x hx
          · rw [List.getElem?_set_ne (by omega), List.getElem?_set_ne (by omega)] at hx
            exact hgeR i x (by omega) h2 hx
        obtain ⟨g1, g2, g3, g4, g5, g6⟩ := ih ((xs.set l' b).set (r' - 1) a) (l' + 1) (r' - 1) q1 q4 q5 q2
          (by rw [hlenS]; exact hlen) q3
          (by
            intro hcont
            refine ⟨⟨r' - 1, by omega, by omega, a, ?_, hla⟩, ⟨l', by omega, by omega, b, ?_, hlb⟩⟩
            · rw [List.getElem?_set_self (by simp; omega)]
            · rw [List.getElem?_set_ne (by omega), List.getElem?_set_self hal])
          hle' hge' res hres
        exact ⟨hsub.trans g1, g2, g3, g4, g5, g6⟩
      · rw [if_neg hsw] at hres
        have hf1 : ∃ f', f = f' + 1 := ⟨f - 1, by omega⟩
        obtain ⟨f', hf'⟩ := hf1
        subst hf'
        rw [partLoop, if_neg hsw] at hres
        injection hres with hres; subst hres
        exact ⟨Sub.refl _ _ _, hleL, hgeR, (by show r' ≤ l'; omega), (by show l' ≤ hi; omega), (by show lo ≤ r'; omega)⟩
    · rw [if_neg hc] at hres
      injection hres with hres; subst hres
      exact ⟨Sub.refl _ _ _, hle, hge, (by show r1 ≤ l; omega), hlhi, hlor⟩



/-- two sorted parts `[a, R)` and `[L, b)` with `R ≤ L`, everything before `L` being `≤ p` and everything from `R` on
being `≥ p`, form a sorted range `[a, b)` -/
theorem sorted_join (lt : α → α → Bool) (hst : StrictWeak lt) {p : α} {ys : List α} {a b L R : Nat} (_hRL : R ≤ L)
    (hSA : SortedR lt ys a R) (hSB : SortedR lt ys L b) (hLe : LeP lt p ys a L) (hGe : GeP lt p ys R b) :
    SortedR lt ys a b := by
  intro i j x y h1 h2 h3 hx hy
  by_cases hjR : j < R
  · exact hSA i j x y h1 h2 hjR hx hy
  · by_cases hiL : L ≤ i
    · exact hSB i j x y hiL h2 h3 hx hy
    · have hxp := hLe i x h1 (by omega) hx
      have hyp := hGe j y (by omega) h3 hy
      exact hst.ntrans y p x hyp hxp

theorem qsortAux_sorted (lt : α → α → Bool) (hst : StrictWeak lt) : ∀ (f : Nat) (xs : List α) (a n : Nat) (ys : List α),
    qsortAux lt f xs a n = some ys → (2 ≤ n → a + n ≤ xs.length) → Sub xs ys a (a + n) ∧ SortedR lt ys a (a + n) := by
  intro f
  induction f with
  | zero => intro xs a n ys h; simp [qsortAux] at h
  | succ f ih =>
    intro xs a n ys h hb
    rw [qsortAux] at h
    by_cases hn : n < 2
    · rw [if_pos hn] at h; injection h with h; subst h
      exact ⟨Sub.refl _ _ _, fun i j x y h1 h2 h3 => by omega⟩
    · rw [if_neg hn] at h
      have hb' := hb (by omega)
      have hp : xs[a + n / 2]? = some xs[a + n / 2] := List.getElem?_eq_getElem (by omega)
      rw [hp] at h
      simp only [] at h
      have hpiv : NL lt xs[a + n / 2] xs (a + n / 2) ∧ NG lt xs[a + n / 2] xs (a + n / 2) :=
        ⟨⟨_, hp, hst.irr _⟩, ⟨_, hp, hst.irr _⟩⟩
      cases h1 : partLoop lt xs[a + n / 2] (n + 2) (n + 2) xs a (a + n) with
      | none => rw [h1] at h; simp at h
      | some res =>
        rw [h1, Option.bind_some] at h
        obtain ⟨X, L, R⟩ := res
        obtain ⟨p1, p2, p3, p4, p5, p6⟩ := partLoop_spec lt hst xs[a + n / 2] (n + 2) a (a + n) (by omega) (n + 2) xs a (a + n)
          (Nat.le_refl _) (by omega) (by omega) (Nat.le_refl _) hb' (by omega)
          (fun _ => ⟨⟨a + n / 2, by omega, by omega, hpiv.1⟩, ⟨a + n / 2, by omega, by omega, hpiv.2⟩⟩)
          (fun i x h1 h2 => by omega) (fun i x h1 h2 => by omega) (X, L, R) h1
        simp only [] at p1 p2 p3 p4 p5 p6 h
        have eR : a + (R - a) = R := by omega
        have eL : L + (a + n - L) = a + n := by omega
        split at h
        · -- smaller part on the left: quicksort(a, nl), then the loop goes on with [l, a+n)
          cases h2 : qsortAux lt f X a (R - a) with
          | none => rw [h2] at h; simp at h
          | some ys1 =>
            rw [h2, Option.bind_some] at h
            obtain ⟨s1, t1⟩ := ih X a (R - a) ys1 h2 (by intro _; rw [p1.1]; omega)
            obtain ⟨s2, t2⟩ := ih ys1 L (a + n - L) ys h (by intro _; rw [s1.1, p1.1]; omega)
            rw [eR] at s1 t1
            rw [eL] at s2 t2
            have hsub : Sub xs ys a (a + n) :=
              (p1.trans (s1.mono (Nat.le_refl _) (by omega))).trans (s2.mono (by omega) (Nat.le_refl _))
            have y_lo : ∀ i, i < L → ys[i]? = ys1[i]? := fun i hi => s2.2.1 i (Or.inl hi)
            have y1_hi : ∀ i, R ≤ i → ys1[i]? = X[i]? := fun i hi => s1.2.1 i (Or.inr hi)
            have hLe : LeP lt xs[a + n / 2] ys a L := by
              intro i x h1 h2 hx
              rw [y_lo i h2] at hx
              by_cases hiR : i < R
              · exact (LeP.of_sub (fun i x h1 h2 hx => p2 i x h1 (by omega) hx) s1) i x h1 hiR hx
              · rw [y1_hi i (by omega)] at hx; exact p2 i x h1 h2 hx
            have hGe : GeP lt xs[a + n / 2] ys R (a + n) := by
              intro i x h1 h2 hx
              by_cases hiL : i < L
              · rw [y_lo i hiL, y1_hi i h1] at hx; exact p3 i x h1 h2 hx
              · have g1 : GeP lt xs[a + n / 2] ys1 L (a + n) := by
                  intro k z k1 k2 hz
                  rw [y1_hi k (by omega)] at hz; exact p3 k z (by omega) k2 hz
                exact (GeP.of_sub g1 s2) i x (by omega) h2 hx
            have hSA : SortedR lt ys a R := by
              intro i j x y h1 h2 h3 hx hy
              rw [y_lo i (by omega)] at hx; rw [y_lo j (by omega)] at hy
              exact t1 i j x y h1 h2 h3 hx hy
            exact ⟨hsub, sorted_join lt hst p4 hSA t2 hLe hGe⟩
        · -- smaller part on the right: quicksort(l, nr), then the loop goes on with [a, a+nl)
          cases h2 : qsortAux lt f X L (a + n - L) with
          | none => rw [h2] at h; simp at h
          | some ys1 =>
            rw [h2, Option.bind_some] at h
            obtain ⟨s1, t1⟩ := ih X L (a + n - L) ys1 h2 (by intro _; rw [p1.1]; omega)
            obtain ⟨s2, t2⟩ := ih ys1 a (R - a) ys h (by intro _; rw [s1.1, p1.1]; omega)
            rw [eL] at s1 t1
            rw [eR] at s2 t2
            have hsub : Sub xs ys a (a + n) :=
              (p1.trans (s1.mono (by omega) (Nat.le_refl _))).trans (s2.mono (Nat.le_refl _) (by omega))
            have y_hi : ∀ i, R ≤ i → ys[i]? = ys1[i]? := fun i hi => s2.2.1 i (Or.inr hi)
            have y1_lo : ∀ i, i < L → ys1[i]? = X[i]? := fun i hi => s1.2.1 i (Or.inl hi)
            have hLe : LeP lt xs[a + n / 2] ys a L := by
              intro i x h1 h2 hx
              by_cases hiR : i < R
              · have g1 : LeP lt xs[a + n / 2] ys1 a R := by
                  intro k z k1 k2 hz
                  rw [y1_lo k (by omega)] at hz; exact p2 k z k1 (by omega) hz
                exact (LeP.of_sub g1 s2) i x h1 hiR hx
              · rw [y_hi i (by omega), y1_lo i h2] at hx; exact p2 i x h1 h2 hx
            have hGe : GeP lt xs[a + n / 2] ys R (a + n) := by
              intro i x h1 h2 hx
              rw [y_hi i h1] at hx
              by_cases hiL : i < L
              · rw [y1_lo i hiL] at hx; exact p3 i x h1 h2 hx
              · exact (GeP.of_sub (fun i x h1 h2 hx => p3 i x (by omega) h2 hx) s1) i x (by omega) h2 hx
            have hSB : SortedR lt ys L (a + n) := by
              intro i j x y h1 h2 h3 hx hy
              rw [y_hi i (by omega)] at hx; rw [y_hi j (by omega)] at hy
              exact t1 i j x y h1 h2 h3 hx hy
            exact ⟨hsub, sorted_join lt hst p4 t2 hSB hLe hGe⟩

/-- **`quicksort` sorts**: for a strict weak order (ties allowed) the result is in non-decreasing order -/
theorem qsortList_sorted (lt : α → α → Bool) (hst : StrictWeak lt) {xs ys : List α} (h : qsortList lt xs = some ys) :
    SortedR lt ys 0 ys.length := by
  obtain ⟨s, t⟩ := qsortAux_sorted lt hst _ xs 0 xs.length ys h (by intro _; omega)
  rw [Nat.zero_add] at s t
  rw [s.1]; exact t

end AslProofs.Arr
