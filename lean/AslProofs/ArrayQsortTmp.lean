import AslProofs.ArrayQsort
import AslProofs.ArrayQsortTotal
/-! # C01: the element temporaries of `quicksort` (pivot copy, `swap` temporary) — ledger lemmas -/
namespace AslProofs.Arr
open AslModel.Arr
variable {α : Type}

/-- the ledger relation "every temporary made since `t` has been destroyed" -/
def Tmp.Bal (t t' : Tmp) : Prop := t'.live = t.live ∧ t'.made + t.freed = t'.freed + t.made ∧ t.made ≤ t'.made ∧ t.peak ≤ t'.peak

theorem Tmp.Bal.refl (t : Tmp) : Tmp.Bal t t := ⟨rfl, Nat.add_comm _ _, Nat.le_refl _, Int.le_refl _⟩

theorem Tmp.Bal.trans {a b c : Tmp} (h1 : Tmp.Bal a b) (h2 : Tmp.Bal b c) : Tmp.Bal a c := by
  obtain ⟨p1, p2, p3, p4⟩ := h1
  obtain ⟨q1, q2, q3, q4⟩ := h2
  exact ⟨by omega, by omega, by omega, by omega⟩

theorem Tmp.bal_ctor_dtor (t : Tmp) : Tmp.Bal t t.ctor.dtor := by
  refine ⟨?_, ?_, ?_, ?_⟩ <;> simp only [Tmp.ctor, Tmp.dtor] <;> (try split) <;> omega

/-- a pass of the `while`: pivot constructed at `t`, everything in between balanced, pivot destroyed -/
theorem Tmp.bal_pass {t u : Tmp} (h : Tmp.Bal t.ctor u) : Tmp.Bal t u.dtor := by
  obtain ⟨p1, p2, p3, p4⟩ := h
  simp only [Tmp.ctor] at p1 p2 p3 p4
  refine ⟨?_, ?_, ?_, ?_⟩ <;> simp only [Tmp.dtor] <;> (try split at p4) <;> omega

theorem partLoopT_fst (lt : α → α → Bool) (p : α) (sf : Nat) : ∀ (f : Nat) (xs : List α) (l r1 : Nat) (t : Tmp),
    (partLoopT lt p sf f xs l r1 t).map (·.1) = partLoop lt p sf f xs l r1 := by
  intro f
  induction f with
  | zero => intro xs l r1 t; simp [partLoopT, partLoop]
  | succ f ih =>
    intro xs l r1 t
    rw [partLoopT, partLoop]
    split
    · cases scanL lt p xs sf l with
      | none => simp
      | some l' =>
        simp only [Option.bind_some]
        cases scanR lt p xs sf r1 with
        | none => simp
        | some r1' =>
          simp only [Option.bind_some]
          split
          · unfold swapAtT
            cases swapAt xs l' (r1' - 1) with
            | none => simp
            | some ys => simp only [Option.map_some, Option.bind_some]; exact ih _ _ _ _
          · exact ih _ _ _ _
    · simp

theorem partLoopT_bal (lt : α → α → Bool) (p : α) (sf : Nat) : ∀ (f : Nat) (xs : List α) (l r1 : Nat) (t : Tmp)
    (res : (List α × Nat × Nat) × Tmp), partLoopT lt p sf f xs l r1 t = some res → Tmp.Bal t res.2 := by
  intro f
  induction f with
  | zero => intro xs l r1 t res h; simp [partLoopT] at h
  | succ f ih =>
    intro xs l r1 t res h
    rw [partLoopT] at h
    split at h
    · cases h1 : scanL lt p xs sf l with
      | none => rw [h1] at h; simp at h
      | some l' =>
        rw [h1, Option.bind_some] at h
        cases h2 : scanR lt p xs sf r1 with
        | none => rw [h2] at h; simp at h
        | some r1' =>
          rw [h2, Option.bind_some] at h
          split at h
          · unfold swapAtT at h
            cases h3 : swapAt xs l' (r1' - 1) with
            | none => rw [h3] at h; simp at h
            | some ys =>
              rw [h3] at h
              simp only [Option.map_some, Option.bind_some] at h
              exact (Tmp.bal_ctor_dtor t).trans (ih _ _ _ _ res h)
          · exact ih _ _ _ _ res h
    · injection h with h; subst h; exact Tmp.Bal.refl _

theorem qsortAuxT_fst (lt : α → α → Bool) : ∀ (f : Nat) (xs : List α) (a n : Nat) (t : Tmp),
    (qsortAuxT lt f xs a n t).map (·.1) = qsortAux lt f xs a n := by
  intro f
  induction f with
  | zero => intro xs a n t; simp [qsortAuxT, qsortAux]
  | succ f ih =>
    intro xs a n t
    rw [qsortAuxT, qsortAux]
    split
    · simp
    · split
      · simp
      · rename_i p _
        have hp := partLoopT_fst lt p (n + 2) (n + 2) xs a (a + n) t.ctor
        cases h1 : partLoopT lt p (n + 2) (n + 2) xs a (a + n) t.ctor with
        | none => rw [h1] at hp; simp at hp; rw [← hp]; simp
        | some rt =>
          rw [h1] at hp; simp only [Option.map_some] at hp
          rw [← hp]
          simp only [Option.bind_some]
          split
          · have h2 := ih rt.1.1 a (rt.1.2.2 - a) rt.2
            cases h3 : qsortAuxT lt f rt.1.1 a (rt.1.2.2 - a) rt.2 with
            | none => rw [h3] at h2; simp at h2; rw [← h2]; simp
            | some x =>
              rw [h3] at h2; simp only [Option.map_some] at h2
              rw [← h2]; simp only [Option.bind_some]
              exact ih _ _ _ _
          · have h2 := ih rt.1.1 rt.1.2.1 (a + n - rt.1.2.1) rt.2
            cases h3 : qsortAuxT lt f rt.1.1 rt.1.2.1 (a + n - rt.1.2.1) rt.2 with
            | none => rw [h3] at h2; simp at h2; rw [← h2]; simp
            | some x =>
              rw [h3] at h2; simp only [Option.map_some] at h2
              rw [← h2]; simp only [Option.bind_some]
              exact ih _ _ _ _

theorem qsortAuxT_bal (lt : α → α → Bool) : ∀ (f : Nat) (xs : List α) (a n : Nat) (t : Tmp) (res : List α × Tmp),
    qsortAuxT lt f xs a n t = some res → Tmp.Bal t res.2 := by
  intro f
  induction f with
  | zero => intro xs a n t res h; simp [qsortAuxT] at h
  | succ f ih =>
    intro xs a n t res h
    rw [qsortAuxT] at h
    split at h
    · injection h with h; subst h; exact Tmp.Bal.refl _
    · split at h
      · cases h
      · rename_i p _
        cases h1 : partLoopT lt p (n + 2) (n + 2) xs a (a + n) t.ctor with
        | none => rw [h1] at h; simp at h
        | some rt =>
          rw [h1] at h; simp only [Option.bind_some] at h
          have b1 := partLoopT_bal lt p _ _ _ _ _ _ rt h1
          split at h
          · cases h3 : qsortAuxT lt f rt.1.1 a (rt.1.2.2 - a) rt.2 with
            | none => rw [h3] at h; simp at h
            | some x =>
              rw [h3] at h; simp only [Option.bind_some] at h
              have b2 := ih _ _ _ _ x h3
              exact (Tmp.bal_pass (b1.trans b2)).trans (ih _ _ _ _ res h)
          · cases h3 : qsortAuxT lt f rt.1.1 rt.1.2.1 (a + n - rt.1.2.1) rt.2 with
            | none => rw [h3] at h; simp at h
            | some x =>
              rw [h3] at h; simp only [Option.bind_some] at h
              have b2 := ih _ _ _ _ x h3
              exact (Tmp.bal_pass (b1.trans b2)).trans (ih _ _ _ _ res h)

theorem qsortListT_fst (lt : α → α → Bool) (xs : List α) (t : Tmp) :
    (qsortListT lt xs t).map (·.1) = qsortList lt xs := qsortAuxT_fst lt _ xs 0 xs.length t

theorem qsortListT_bal (lt : α → α → Bool) {xs : List α} {t : Tmp} {res : List α × Tmp}
    (h : qsortListT lt xs t = some res) : Tmp.Bal t res.2 := qsortAuxT_bal lt _ xs 0 xs.length t res h


/-! ### how many temporaries are alive at once -/

theorem Tmp.peak_ctor {t : Tmp} {B : Int} (h1 : t.peak ≤ B) (h2 : t.live + 1 ≤ B) : t.ctor.peak ≤ B := by
  simp only [Tmp.ctor]; split <;> omega

theorem partLoopT_peak (lt : α → α → Bool) (p : α) (sf : Nat) : ∀ (f : Nat) (xs : List α) (l r1 : Nat) (t : Tmp)
    (res : (List α × Nat × Nat) × Tmp), partLoopT lt p sf f xs l r1 t = some res →
    ∀ B : Int, t.peak ≤ B → t.live + 1 ≤ B → res.2.peak ≤ B := by
  intro f
  induction f with
  | zero => intro xs l r1 t res h; simp [partLoopT] at h
  | succ f ih =>
    intro xs l r1 t res h B hB1 hB2
    rw [partLoopT] at h
    split at h
    · cases h1 : scanL lt p xs sf l with
      | none => rw [h1] at h; simp at h
      | some l' =>
        rw [h1, Option.bind_some] at h
        cases h2 : scanR lt p xs sf r1 with
        | none => rw [h2] at h; simp at h
        | some r1' =>
          rw [h2, Option.bind_some] at h
          split at h
          · unfold swapAtT at h
            cases h3 : swapAt xs l' (r1' - 1) with
            | none => rw [h3] at h; simp at h
            | some ys =>
              rw [h3] at h
              simp only [Option.map_some, Option.bind_some] at h
              exact ih _ _ _ _ res h B (Tmp.peak_ctor hB1 hB2) (by simp only [Tmp.ctor, Tmp.dtor]; omega)
          · exact ih _ _ _ _ res h B hB1 hB2
    · injection h with h; subst h; exact hB1

/-- with `n < 2 ^ (d + 1)` elements at most `d + 1` temporaries are alive at any moment of the sort (one pivot per
nesting level — the nested call is on the smaller part — plus one `swap` temporary) -/
theorem qsortAuxT_peak (lt : α → α → Bool) : ∀ (f : Nat) (xs : List α) (a n : Nat) (t : Tmp) (res : List α × Tmp),
    qsortAuxT lt f xs a n t = some res → ∀ (d : Nat) (B : Int), n < 2 ^ (d + 1) → t.peak ≤ B → t.live + d + 1 ≤ B →
    res.2.peak ≤ B := by
  intro f
  induction f with
  | zero => intro xs a n t res h; simp [qsortAuxT] at h
  | succ f ih =>
    intro xs a n t res h d B hn hB1 hB2
    rw [qsortAuxT] at h
    split at h
    · injection h with h; subst h; exact hB1
    · rename_i hn2
      split at h
      · cases h
      · rename_i p _
        cases d with
        | zero => simp at hn; omega
        | succ d' =>
        have hpow : 2 ^ (d' + 1 + 1) = 2 * 2 ^ (d' + 1) := by rw [Nat.pow_succ]; omega
        rw [hpow] at hn
        cases h1 : partLoopT lt p (n + 2) (n + 2) xs a (a + n) t.ctor with
        | none => rw [h1] at h; simp at h
        | some rt =>
          rw [h1] at h; simp only [Option.bind_some] at h
          have hp := partLoopT_fst lt p (n + 2) (n + 2) xs a (a + n) t.ctor
          rw [h1] at hp; simp only [Option.map_some] at hp
          have hcross := partLoop_cross lt p _ _ _ _ _ rt.1 hp.symm
          have hmono := partLoop_mono lt p _ _ _ _ _ rt.1 hp.symm
          have b1 := partLoopT_bal lt p _ _ _ _ _ _ rt h1
          have hl1 : rt.2.live = t.live + 1 := by rw [b1.1]; simp [Tmp.ctor]
          have pk1 : rt.2.peak ≤ B := partLoopT_peak lt p _ _ _ _ _ _ rt h1 B (Tmp.peak_ctor hB1 (by omega))
            (by simp only [Tmp.ctor]; omega)
          split at h
          · rename_i hsm
            cases h3 : qsortAuxT lt f rt.1.1 a (rt.1.2.2 - a) rt.2 with
            | none => rw [h3] at h; simp at h
            | some x =>
              rw [h3] at h; simp only [Option.bind_some] at h
              have b2 := qsortAuxT_bal lt _ _ _ _ _ x h3
              have pk2 : x.2.peak ≤ B := ih _ _ _ _ x h3 d' B (by omega) pk1 (by omega)
              exact ih _ _ _ _ res h (d' + 1) B (by rw [hpow]; omega) (by simpa [Tmp.dtor] using pk2)
                (by simp only [Tmp.dtor]; rw [b2.1, hl1]; omega)
          · rename_i hsm
            cases h3 : qsortAuxT lt f rt.1.1 rt.1.2.1 (a + n - rt.1.2.1) rt.2 with
            | none => rw [h3] at h; simp at h
            | some x =>
              rw [h3] at h; simp only [Option.bind_some] at h
              have b2 := qsortAuxT_bal lt _ _ _ _ _ x h3
              have pk2 : x.2.peak ≤ B := ih _ _ _ _ x h3 d' B (by omega) pk1 (by omega)
              exact ih _ _ _ _ res h (d' + 1) B (by rw [hpow]; omega) (by simpa [Tmp.dtor] using pk2)
                (by simp only [Tmp.dtor]; rw [b2.1, hl1]; omega)

theorem qsortListT_peak (lt : α → α → Bool) {xs : List α} {t : Tmp} {res : List α × Tmp}
    (h : qsortListT lt xs t = some res) (d : Nat) (B : Int) (hn : xs.length < 2 ^ (d + 1)) (h1 : t.peak ≤ B)
    (h2 : t.live + d + 1 ≤ B) : res.2.peak ≤ B := qsortAuxT_peak lt _ xs 0 xs.length t res h d B hn h1 h2

end AslProofs.Arr
