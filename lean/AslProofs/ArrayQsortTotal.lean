import AslModel.Array
/-! # C01: the transcribed `quicksort` never indexes outside the sequence and ends within its fuel
(for every irreflexive comparison) — helper lemmas -/
namespace AslProofs.Arr
open AslModel.Arr
variable {α : Type}

/-- position `s` holds an element that is not `< p` (it stops `while (*l < p) l++`) -/
def NL (lt : α → α → Bool) (p : α) (xs : List α) (s : Nat) : Prop := ∃ x, xs[s]? = some x ∧ lt x p = false
/-- position `s` holds an element that is not `> p` (it stops `while (p < *r) r--`) -/
def NG (lt : α → α → Bool) (p : α) (xs : List α) (s : Nat) : Prop := ∃ x, xs[s]? = some x ∧ lt p x = false

theorem scanL_ok (lt : α → α → Bool) (p : α) (xs : List α) : ∀ (f l s : Nat), l ≤ s → NL lt p xs s → s - l + 1 ≤ f →
    ∃ l', scanL lt p xs f l = some l' ∧ l ≤ l' ∧ l' ≤ s ∧ NL lt p xs l' := by
  intro f
  induction f with
  | zero => intro l s _ _ h; omega
  | succ f ih =>
    intro l s hls hs hf
    obtain ⟨xS, hxS, hltS⟩ := hs
    have hslt : s < xs.length := by
      rcases Nat.lt_or_ge s xs.length with h | h
      · exact h
      · rw [List.getElem?_eq_none h] at hxS; cases hxS
    have hl : xs[l]? = some xs[l] := List.getElem?_eq_getElem (by omega)
    rw [scanL, hl]
    simp only []
    by_cases hc : lt xs[l] p = true
    · rw [if_pos hc]
      have hne : l ≠ s := by
        intro e; subst e
        rw [hl] at hxS; injection hxS with e; rw [e] at hc; rw [hc] at hltS; cases hltS
      obtain ⟨l', h1, h2, h3, h4⟩ := ih (l + 1) s (by omega) ⟨xS, hxS, hltS⟩ (by omega)
      exact ⟨l', h1, by omega, h3, h4⟩
    · rw [if_neg hc]
      exact ⟨l, rfl, Nat.le_refl _, hls, ⟨xs[l], hl, by simpa using hc⟩⟩

theorem scanR_ok (lt : α → α → Bool) (p : α) (xs : List α) : ∀ (f r1 s : Nat), s < r1 → r1 ≤ xs.length → NG lt p xs s → r1 - s ≤ f →
    ∃ r1', scanR lt p xs f r1 = some r1' ∧ s < r1' ∧ r1' ≤ r1 ∧ NG lt p xs (r1' - 1) := by
  intro f
  induction f with
  | zero => intro r1 s h _ _ hf; omega
  | succ f ih =>
    intro r1 s hsr hr hs hf
    obtain ⟨xS, hxS, hltS⟩ := hs
    have hr1 : xs[r1 - 1]? = some xs[r1 - 1] := List.getElem?_eq_getElem (by omega)
    rw [scanR, if_neg (by omega), hr1]
    simp only []
    by_cases hc : lt p xs[r1 - 1] = true
    · rw [if_pos hc]
      have hne : r1 - 1 ≠ s := by
        intro e
        have h2 : xs[r1 - 1]? = some xS := by rw [e]; exact hxS
        rw [hr1] at h2; injection h2 with e'
        rw [e'] at hc; rw [hc] at hltS; cases hltS
      obtain ⟨r', h1, h2, h3, h4⟩ := ih (r1 - 1) s (by omega) (by omega) ⟨xS, hxS, hltS⟩ (by omega)
      exact ⟨r', h1, h2, by omega, h4⟩
    · rw [if_neg hc]
      exact ⟨r1, rfl, hsr, Nat.le_refl _, ⟨xs[r1 - 1], hr1, by simpa using hc⟩⟩

theorem swapAt_ok {xs : List α} {i j : Nat} {a b : α} (ha : xs[i]? = some a) (hb : xs[j]? = some b) :
    swapAt xs i j = some ((xs.set i b).set j a) := by
  unfold swapAt; rw [ha, hb]

theorem lt_len_of_some {xs : List α} {i : Nat} {a : α} (h : xs[i]? = some a) : i < xs.length := by
  rcases Nat.lt_or_ge i xs.length with h1 | h1
  · exact h1
  · rw [List.getElem?_eq_none h1] at h; cases h

/-- the partition loop: with sentinels for both scans inside `[lo, hi)`, enough scan fuel `sf` and loop fuel `f`,
it ends normally; `l` only grows, `r` only shrinks, and a position that stops both scans forces a swap -/
theorem partLoop_ok (lt : α → α → Bool) (p : α) (sf lo hi : Nat) (hsf : hi - lo + 1 ≤ sf) :
    ∀ (f : Nat) (xs : List α) (l r1 : Nat), lo ≤ l → r1 ≤ hi → hi ≤ xs.length → (r1 - l) + 2 ≤ f →
    (l + 1 ≤ r1 → (∃ sL, l ≤ sL ∧ sL < hi ∧ NL lt p xs sL) ∧ (∃ sR, lo ≤ sR ∧ sR < r1 ∧ NG lt p xs sR)) →
    ∃ res, partLoop lt p sf f xs l r1 = some res ∧ l ≤ res.2.1 ∧ res.2.2 ≤ r1 ∧ res.1.length = xs.length ∧
      (∀ m, l ≤ m → m < r1 → NL lt p xs m → NG lt p xs m → l + 1 ≤ res.2.1 ∧ res.2.2 + 1 ≤ r1) := by
  intro f
  induction f with
  | zero => intro xs l r1 _ _ _ hf _; omega
  | succ f ih =>
    intro xs l r1 hlo hhi hlen hf hsent
    rw [partLoop]
    by_cases hc : l + 1 ≤ r1
    · rw [if_pos hc]
      obtain ⟨⟨sL, hsL1, hsL2, hsL3⟩, ⟨sR, hsR1, hsR2, hsR3⟩⟩ := hsent hc
      obtain ⟨l', hl1, hl2, hl3, hl4⟩ := scanL_ok lt p xs sf l sL hsL1 hsL3 (by omega)
      obtain ⟨r', hr1, hr2, hr3, hr4⟩ := scanR_ok lt p xs sf r1 sR hsR2 (by omega) hsR3 (by omega)
      rw [hl1, Option.bind_some, hr1, Option.bind_some]
      by_cases hsw : l' + 1 ≤ r'
      · rw [if_pos hsw]
        have q1 : lo ≤ l' + 1 := by omega
        have q2 : r' - 1 ≤ hi := by omega
        have q3 : (r' - 1) - (l' + 1) + 2 ≤ f := by
          clear hl4 hr4 hsL3 hsR3 hsent ih hl1 hr1
          omega
        obtain ⟨a, ha, hla⟩ := hl4
        obtain ⟨b, hb, hlb⟩ := hr4
        rw [swapAt_ok ha hb, Option.bind_some]
        have hlenS : ((xs.set l' b).set (r' - 1) a).length = xs.length := by simp
        have hal := lt_len_of_some ha
        have hbl := lt_len_of_some hb
        obtain ⟨res, h1, h2, h3, h4, _⟩ := ih ((xs.set l' b).set (r' - 1) a) (l' + 1) (r' - 1) q1 q2
          (by rw [hlenS]; exact hlen) q3
          (by
            intro hcont
            refine ⟨⟨r' - 1, by omega, by omega, a, ?_, hla⟩, ⟨l', by omega, by omega, b, ?_, hlb⟩⟩
            · rw [List.getElem?_set_self (by simp; omega)]
            · rw [List.getElem?_set_ne (by omega), List.getElem?_set_self hal])
        refine ⟨res, h1, by omega, by omega, by rw [h4, hlenS], ?_⟩
        intro m _ _ _ _; omega
      · rw [if_neg hsw]
        -- no swap: the next test of the loop condition fails
        have hf1 : ∃ f', f = f' + 1 := ⟨f - 1, by omega⟩
        obtain ⟨f', hf'⟩ := hf1
        subst hf'
        rw [partLoop, if_neg hsw]
        refine ⟨(xs, l', r'), rfl, hl2, hr3, rfl, ?_⟩
        intro m hm1 hm2 hm3 hm4
        -- a position stopping both scans lies between the two cursors: then they would not have crossed
        obtain ⟨l2, hl1', _, hl3', _⟩ := scanL_ok lt p xs sf l m hm1 hm3 (by omega)
        obtain ⟨r2, hr1', hr2', _, _⟩ := scanR_ok lt p xs sf r1 m hm2 (by omega) hm4 (by omega)
        rw [hl1] at hl1'; injection hl1' with e1
        rw [hr1] at hr1'; injection hr1' with e2
        omega
    · rw [if_neg hc]
      refine ⟨(xs, l, r1), rfl, Nat.le_refl _, Nat.le_refl _, rfl, ?_⟩
      intro m h1 h2; omega

/-- the recursion: sub-ranges are strictly smaller, so `n + 1` levels of fuel suffice; no read leaves the list -/
theorem qsortAux_ok (lt : α → α → Bool) (hirr : ∀ x, lt x x = false) : ∀ (f : Nat) (xs : List α) (a n : Nat),
    n + 1 ≤ f → (2 ≤ n → a + n ≤ xs.length) → ∃ ys, qsortAux lt f xs a n = some ys ∧ ys.length = xs.length := by
  intro f
  induction f with
  | zero => intro xs a n h; omega
  | succ f ih =>
    intro xs a n hf hb
    rw [qsortAux]
    by_cases hn : n < 2
    · rw [if_pos hn]; exact ⟨xs, rfl, rfl⟩
    · rw [if_neg hn]
      have hb' := hb (by omega)
      have hp : xs[a + n / 2]? = some xs[a + n / 2] := List.getElem?_eq_getElem (by omega)
      rw [hp]
      simp only []
      have hpiv : NL lt xs[a + n / 2] xs (a + n / 2) ∧ NG lt xs[a + n / 2] xs (a + n / 2) :=
        ⟨⟨_, hp, hirr _⟩, ⟨_, hp, hirr _⟩⟩
      obtain ⟨res, h1, h2, h3, h4, h5⟩ := partLoop_ok lt xs[a + n / 2] (n + 2) a (a + n) (by omega) (n + 2) xs a (a + n)
        (Nat.le_refl _) (Nat.le_refl _) hb' (by omega)
        (fun _ => ⟨⟨a + n / 2, by omega, by omega, hpiv.1⟩, ⟨a + n / 2, by omega, by omega, hpiv.2⟩⟩)
      obtain ⟨h6, h7⟩ := h5 (a + n / 2) (by omega) (by omega) hpiv.1 hpiv.2
      rw [h1, Option.bind_some]
      by_cases hsm : res.2.2 - a < a + n - res.2.1
      · rw [if_pos hsm]
        obtain ⟨ys1, g1, g2⟩ := ih res.1 a (res.2.2 - a) (by omega) (by intro _; rw [h4]; omega)
        rw [g1, Option.bind_some]
        obtain ⟨ys2, g3, g4⟩ := ih ys1 res.2.1 (a + n - res.2.1) (by omega) (by intro _; rw [g2, h4]; omega)
        exact ⟨ys2, g3, by rw [g4, g2, h4]⟩
      · rw [if_neg hsm]
        obtain ⟨ys1, g1, g2⟩ := ih res.1 res.2.1 (a + n - res.2.1) (by omega) (by intro _; rw [h4]; omega)
        rw [g1, Option.bind_some]
        obtain ⟨ys2, g3, g4⟩ := ih ys1 a (res.2.2 - a) (by omega) (by intro _; rw [g2, h4]; omega)
        exact ⟨ys2, g3, by rw [g4, g2, h4]⟩

/-- **`quicksort` is memory-safe and terminates**: for every irreflexive `<` and every sequence, the transcription
(every read is a checked `xs[i]?`, every loop carries fuel) returns a result -/
theorem qsortList_total (lt : α → α → Bool) (hirr : ∀ x, lt x x = false) (xs : List α) :
    (qsortList lt xs).isSome = true := by
  obtain ⟨ys, h, _⟩ := qsortAux_ok lt hirr (xs.length + 1) xs 0 xs.length (Nat.le_refl _) (by intro _; omega)
  unfold qsortList; rw [h]; rfl



/-! ### depth of the nested calls (code after dff9640) -/

theorem scanL_ge (lt : α → α → Bool) (p : α) (xs : List α) : ∀ (f l l' : Nat), scanL lt p xs f l = some l' → l ≤ l' := by
  intro f
  induction f with
  | zero => intro l l' h; simp [scanL] at h
  | succ f ih =>
    intro l l' h
    rw [scanL] at h
    split at h
    · split at h
      · have := ih _ _ h; omega
      · injection h with h; omega
    · cases h

theorem scanR_le (lt : α → α → Bool) (p : α) (xs : List α) : ∀ (f r r' : Nat), scanR lt p xs f r = some r' → r' ≤ r := by
  intro f
  induction f with
  | zero => intro r r' h; simp [scanR] at h
  | succ f ih =>
    intro r r' h
    rw [scanR] at h
    split at h
    · cases h
    · split at h
      · split at h
        · have := ih _ _ h; omega
        · injection h with h; omega
      · cases h

/-- the cursors only move inwards -/
theorem partLoop_mono (lt : α → α → Bool) (p : α) (sf : Nat) : ∀ (f : Nat) (xs : List α) (l r1 : Nat) (res : List α × Nat × Nat),
    partLoop lt p sf f xs l r1 = some res → l ≤ res.2.1 ∧ res.2.2 ≤ r1 := by
  intro f
  induction f with
  | zero => intro xs l r1 res h; simp [partLoop] at h
  | succ f ih =>
    intro xs l r1 res h
    rw [partLoop] at h
    split at h
    · cases h1 : scanL lt p xs sf l with
      | none => rw [h1] at h; simp at h
      | some l' =>
        rw [h1, Option.bind_some] at h
        cases h2 : scanR lt p xs sf r1 with
        | none => rw [h2] at h; simp at h
        | some r1' =>
          rw [h2, Option.bind_some] at h
          have a1 := scanL_ge lt p xs _ _ _ h1
          have a2 := scanR_le lt p xs _ _ _ h2
          split at h
          · cases h3 : swapAt xs l' (r1' - 1) with
            | none => rw [h3] at h; simp at h
            | some xs' => rw [h3, Option.bind_some] at h; have := ih _ _ _ res h; omega
          · have := ih _ _ _ res h; omega
    · injection h with h; subst h
      exact ⟨Nat.le_refl _, Nat.le_refl _⟩

/-- the cursors have crossed when the partition loop ends -/
theorem partLoop_cross (lt : α → α → Bool) (p : α) (sf : Nat) : ∀ (f : Nat) (xs : List α) (l r1 : Nat) (res : List α × Nat × Nat),
    partLoop lt p sf f xs l r1 = some res → res.2.2 ≤ res.2.1 := by
  intro f
  induction f with
  | zero => intro xs l r1 res h; simp [partLoop] at h
  | succ f ih =>
    intro xs l r1 res h
    rw [partLoop] at h
    split at h
    · cases h1 : scanL lt p xs sf l with
      | none => rw [h1] at h; simp at h
      | some l' =>
        rw [h1, Option.bind_some] at h
        cases h2 : scanR lt p xs sf r1 with
        | none => rw [h2] at h; simp at h
        | some r1' =>
          rw [h2, Option.bind_some] at h
          split at h
          · cases h3 : swapAt xs l' (r1' - 1) with
            | none => rw [h3] at h; simp at h
            | some xs' => rw [h3, Option.bind_some] at h; exact ih _ _ _ res h
          · exact ih _ _ _ res h
    · rename_i hc
      injection h with h; subst h
      show r1 ≤ l
      omega

/-- the run function is the first component of the depth-tracking one -/
theorem qsortAuxD_fst (lt : α → α → Bool) : ∀ (f : Nat) (xs : List α) (a n : Nat),
    (qsortAuxD lt f xs a n).map (·.1) = qsortAux lt f xs a n := by
  intro f
  induction f with
  | zero => intro xs a n; rfl
  | succ f ih =>
    intro xs a n
    rw [qsortAuxD, qsortAux]
    split
    · rfl
    · split
      · rfl
      · rename_i p _
        cases h1 : partLoop lt p (n + 2) (n + 2) xs a (a + n) with
        | none => rfl
        | some r =>
          simp only [Option.bind_some]
          split
          · rw [← ih r.1 a (r.2.2 - a)]
            cases h2 : qsortAuxD lt f r.1 a (r.2.2 - a) with
            | none => rfl
            | some x =>
              simp only [Option.bind_some, Option.map_some]
              rw [← ih x.1 r.2.1 (a + n - r.2.1)]
              cases qsortAuxD lt f x.1 r.2.1 (a + n - r.2.1) <;> rfl
          · rw [← ih r.1 r.2.1 (a + n - r.2.1)]
            cases h2 : qsortAuxD lt f r.1 r.2.1 (a + n - r.2.1) with
            | none => rfl
            | some x =>
              simp only [Option.bind_some, Option.map_some]
              rw [← ih x.1 a (r.2.2 - a)]
              cases qsortAuxD lt f x.1 a (r.2.2 - a) <;> rfl

/-- **the nested calls are at most `log2 n` deep**: `2 ^ depth ≤ n` (for `n ≥ 1`), whatever the input and the comparison -/
theorem qsortAuxD_depth (lt : α → α → Bool) : ∀ (f : Nat) (xs : List α) (a n : Nat) (r : List α × Nat),
    qsortAuxD lt f xs a n = some r → 2 ^ r.2 ≤ max 1 n := by
  intro f
  induction f with
  | zero => intro xs a n r h; simp [qsortAuxD] at h
  | succ f ih =>
    intro xs a n r h
    rw [qsortAuxD] at h
    split at h
    · injection h with h; subst h; exact Nat.le_max_left _ _
    · rename_i hn
      split at h
      · cases h
      · rename_i p _
        cases h1 : partLoop lt p (n + 2) (n + 2) xs a (a + n) with
        | none => rw [h1] at h; simp at h
        | some res =>
          rw [h1, Option.bind_some] at h
          have hcross := partLoop_cross lt p _ _ _ _ _ res h1
          have hmono := partLoop_mono lt p _ _ _ _ _ res h1
          split at h
          · rename_i hsm
            cases h2 : qsortAuxD lt f res.1 a (res.2.2 - a) with
            | none => rw [h2] at h; simp at h
            | some x =>
              rw [h2, Option.bind_some] at h
              cases h3 : qsortAuxD lt f x.1 res.2.1 (a + n - res.2.1) with
              | none => rw [h3] at h; simp at h
              | some y =>
                rw [h3, Option.map_some] at h
                injection h with h; subst h
                have hx := ih _ _ _ x h2
                have hy := ih _ _ _ y h3
                show 2 ^ max (x.2 + 1) y.2 ≤ max 1 n
                have h2x : 2 ^ (x.2 + 1) ≤ max 1 n := by rw [Nat.pow_succ]; omega
                rcases Nat.le_total (x.2 + 1) y.2 with hle | hle
                · rw [Nat.max_eq_right hle]; omega
                · rw [Nat.max_eq_left hle]; exact h2x
          · rename_i hsm
            cases h2 : qsortAuxD lt f res.1 res.2.1 (a + n - res.2.1) with
            | none => rw [h2] at h; simp at h
            | some x =>
              rw [h2, Option.bind_some] at h
              cases h3 : qsortAuxD lt f x.1 a (res.2.2 - a) with
              | none => rw [h3] at h; simp at h
              | some y =>
                rw [h3, Option.map_some] at h
                injection h with h; subst h
                have hx := ih _ _ _ x h2
                have hy := ih _ _ _ y h3
                show 2 ^ max (x.2 + 1) y.2 ≤ max 1 n
                have h2x : 2 ^ (x.2 + 1) ≤ max 1 n := by rw [Nat.pow_succ]; omega
                rcases Nat.le_total (x.2 + 1) y.2 with hle | hle
                · rw [Nat.max_eq_right hle]; omega
                · rw [Nat.max_eq_left hle]; exact h2x

end AslProofs.Arr
