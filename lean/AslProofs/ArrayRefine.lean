import AslProofs.ArrayStep
import AslProofs.ArrayQsortTotal
/-! # C01: one step of the model is one step of the reference semantics (helper lemmas) -/
namespace AslProofs.Arr
open AslModel.Arr AslProofs.ArrSpec

variable {α : Type}

/-- the relation kept between the model and the reference semantics at operation boundaries -/
structure Good (st : St α) (sp : Sp α) : Prop where
  sim : SimE st sp
  len : st.hs.length = 8
  t0 : st.hs[T0]? = some none

theorem Good.of_occv {st st' : St α} {sp sp' : Sp α} (hg : Good st sp) (hs : SimE st' sp') (hov : occv st' = occv st) :
    Good st' sp' := by
  refine ⟨hs, ?_, ?_⟩
  · have : (occv st').length = (occv st).length := by rw [hov]
    simpa [occv, hg.len] using this
  · rw [empty_iff, hov, ← empty_iff]; exact hg.t0

theorem Good.of_set {st st' : St α} {sp sp' : Sp α} (hg : Good st sp) (hs : SimE st' sp') {t : Nat} {b : Bool} (ht : t < NS)
    (hov : occv st' = (occv st).set t b) : Good st' sp' := by
  refine ⟨hs, ?_, ?_⟩
  · have : (occv st').length = (occv st).length := by rw [hov]; simp
    simpa [occv, hg.len] using this
  · rw [empty_iff, hov, List.getElem?_set_ne (by unfold NS at ht; unfold T0; omega), ← empty_iff]; exact hg.t0

theorem mut_step {st : St α} {sp : Sp α} (hg : Good st sp) {h : Nat} (hocc : st.occ h = true)
    {op : BS α → Option (BS α)} {F : List α → List α} (href : RefinesAt op F (sp.get h)) (hgd : pGuard st h op = false) :
    ∃ st', pMut st h op = some st' ∧ Good st' (sMut sp h F) := by
  obtain ⟨f, hf⟩ := hg.sim
  obtain ⟨st', f', h1, h2, h3⟩ := pMut_sim hf hocc href hgd
  exact ⟨st', h1, hg.of_occv ⟨f', h2⟩ h3⟩

theorem mut_case {st : St α} {sp : Sp α} (hg : Good st sp) (h : Nat) {op : BS α → Option (BS α)} {F : List α → List α}
    (href : st.occ h = true → RefinesAt op F (sp.get h)) (hgd : st.occ h = true → pGuard st h op = false) :
    ∃ st', (if st.occ h = true then okR (pMut st h op) else some (st, Res.skip)) =
        some (st', (if sp.occ h = true then (sMut sp h F, (Res.ok : Res α)) else (sp, Res.skip)).2) ∧
      Good st' (if sp.occ h = true then (sMut sp h F, (Res.ok : Res α)) else (sp, Res.skip)).1 := by
  rw [hg.sim.occ_eq h]
  cases ho : st.occ h
  · exact ⟨st, by simp, by simpa using hg⟩
  · obtain ⟨st', h1, h2⟩ := mut_step hg ho (href ho) (hgd ho)
    exact ⟨st', by simp [okR, h1], by simpa using h2⟩

theorem step_app [DecidableEq α] (E : Elem α) {st : St α} {sp : Sp α} (hg : Good st sp) (h : Nat) (v : α)
    (hgd : guard E st (.app h v) = false) :
    ∃ st', step E st (.app h v) = some (st', (specStep E sp (.app h v)).2) ∧ Good st' (specStep E sp (.app h v)).1 := by
  simp only [step, specStep, growingMember]
  exact mut_case hg h (fun _ => (refines_app v).at _) (fun _ => hgd)



/-- the model step succeeds, answers what the reference semantics answers, and the relation is kept -/
def StepOK [DecidableEq α] (E : Elem α) (st : St α) (sp : Sp α) (op : Op α) : Prop :=
  ∃ st', step E st op = some (st', (specStep E sp op).2) ∧ Good st' (specStep E sp op).1

section
variable [DecidableEq α] (E : Elem α) {st : St α} {sp : Sp α} (hg : Good st sp)
include hg

theorem step_ins (h k : Nat) (v : α) (hgd : guard E st (.ins h k v) = false) : StepOK E st sp (.ins h k v) := by
  simp only [StepOK, step, specStep, growingMember]
  exact mut_case hg h (fun _ => (refines_ins k v).at _) (fun _ => hgd)

theorem step_appo (h j : Nat) (hgd : guard E st (.appo h j) = false) : StepOK E st sp (.appo h j) := by
  simp only [StepOK, step, specStep, growingMember]
  exact mut_case hg h (fun _ => (refines_appo j).at _) (fun _ => hgd)

theorem step_inso (h k j : Nat) (hgd : guard E st (.inso h k j) = false) : StepOK E st sp (.inso h k j) := by
  simp only [StepOK, step, specStep, growingMember]
  exact mut_case hg h (fun _ => (refines_inso k j).at _) (fun _ => hgd)

theorem step_rsz (h m : Nat) (v : α) (hgd : guard E st (.rsz h m v) = false) : StepOK E st sp (.rsz h m v) := by
  simp only [StepOK, step, specStep, growingMember]
  exact mut_case hg h (fun _ => (refines_rsz E m v).at _) (fun _ => hgd)

theorem step_res (h m : Nat) (hgd : guard E st (.res h m) = false) : StepOK E st sp (.res h m) := by
  simp only [StepOK, step, specStep, growingMember]
  exact mut_case hg h (fun _ => (refines_res E m).at _) (fun _ => hgd)

end



/-! ### members that keep the block in place -/

theorem nomove_resize (E : Elem α) (g : Nat → Nat) (hgle : ∀ n, g n ≤ n) (l : List α) :
    NoMoveAt (fun s => resize E s (g s.n)) l :=
  fun s _ _ hr h => resize_moved E (Nat.le_trans (hgle _) (rep_n_le hr)) h

theorem nomove_remove (E : Elem α) (a b : Nat → Nat) (l : List α) : NoMoveAt (fun s => remove E s (a s.n) (b s.n)) l :=
  fun _ _ _ hr h => remove_moved E (rep_n_le hr) h

theorem nomove_reml (E : Elem α) (l : List α) :
    NoMoveAt (fun s => if s.n > 0 then remove E s (s.n - 1) 1 else some s) l := by
  intro s k s' hr h
  dsimp only at h
  split at h
  · exact remove_moved E (rep_n_le hr) h
  · injection h with h; subst h; rfl

theorem nomove_removeIf (f : α → Bool) (l : List α) : NoMoveAt (removeIf f) l := by
  intro s k s' _ h
  unfold removeIf at h
  cases h1 : removeIfAux f s.n s 0 0 s.n with
  | none => rw [h1] at h; simp at h
  | some r => rw [h1] at h; simp at h; subst h; exact removeIfAux_moved f _ _ _ _ _ _ h1

theorem nomove_set (i : Nat) (v : α) (l : List α) :
    NoMoveAt (fun s => if s.n = 0 then some s else assignCell s (i % s.n) v) l := by
  intro s k s' _ h
  dsimp only at h
  split at h
  · injection h with h; subst h; rfl
  · exact (assignCell_moved h).1

theorem nomove_sort (lt : α → α → Bool) (l : List α) : NoMoveAt (sortB lt) l := by
  intro s k s' _ h
  unfold sortB at h
  cases h1 : elems s with
  | none => rw [h1] at h; simp at h
  | some l1 =>
    rw [h1, Option.bind_some] at h
    cases h2 : qsortList lt l1 with
    | none => rw [h2] at h; simp at h
    | some l2 => rw [h2, Option.bind_some] at h; exact assignFrom_moved _ _ _ _ h

section
variable [DecidableEq α] (E : Elem α) {st : St α} {sp : Sp α} (hg : Good st sp)
include hg

theorem step_rem (h i c : Nat) : StepOK E st sp (.rem h i c) := by
  obtain ⟨f, hf⟩ := hg.sim
  simp only [StepOK, step, specStep]
  exact mut_case hg h (fun _ => (refines_rem E i c).at _)
    (fun ho => pGuard_false_of_nomove hf ho (nomove_remove E (fun n => i % (n + 1)) (fun n => c % (n - i % (n + 1) + 1)) _))

theorem step_reml (h : Nat) : StepOK E st sp (.reml h) := by
  obtain ⟨f, hf⟩ := hg.sim
  simp only [StepOK, step, specStep]
  exact mut_case hg h (fun _ => (refines_reml E).at _) (fun ho => pGuard_false_of_nomove hf ho (nomove_reml E _))

theorem step_clr (h : Nat) : StepOK E st sp (.clr h) := by
  obtain ⟨f, hf⟩ := hg.sim
  simp only [StepOK, step, specStep]
  exact mut_case hg h (fun _ => (refines_clr E).at _)
    (fun ho => pGuard_false_of_nomove hf ho (nomove_resize E (fun _ => 0) (fun _ => Nat.zero_le _) _))

theorem step_remif (h m r : Nat) : StepOK E st sp (.remif h m r) := by
  obtain ⟨f, hf⟩ := hg.sim
  simp only [StepOK, step, specStep]
  exact mut_case hg h (fun _ => (removeIf_refines (predOf E m r)).at _)
    (fun ho => pGuard_false_of_nomove hf ho (nomove_removeIf _ _))

theorem step_set (h i : Nat) (v : α) : StepOK E st sp (.set h i v) := by
  obtain ⟨f, hf⟩ := hg.sim
  simp only [StepOK, step, specStep]
  exact mut_case hg h (fun _ => (refines_set i v).at _) (fun ho => pGuard_false_of_nomove hf ho (nomove_set i v _))

theorem step_popn (h k : Nat) : StepOK E st sp (.popn h k) := by
  obtain ⟨f, hf⟩ := hg.sim
  simp only [StepOK, step, specStep]
  exact mut_case hg h (fun _ => (refines_popn E k).at _)
    (fun ho => pGuard_false_of_nomove hf ho (nomove_resize E (fun n => n - k % (n + 1)) (fun _ => Nat.sub_le _ _) _))

theorem step_sort (h : Nat) (desc : Bool)
    (hq : st.occ h = true → (qsortList (if desc then fun a b => E.lt b a else E.lt) (sp.get h)).isSome = true) :
    StepOK E st sp (.sort h desc) := by
  obtain ⟨f, hf⟩ := hg.sim
  simp only [StepOK, step, specStep]
  refine mut_case hg h (fun ho => ?_) (fun ho => pGuard_false_of_nomove hf ho (nomove_sort _ _))
  obtain ⟨l', hl'⟩ := Option.isSome_iff_exists.mp (hq ho)
  exact refinesAt_sort _ _ l' hl'

end



theorem with_occ {st : St α} {sp : Sp α} (hg : Good st sp) (h : Nat) {X : Option (St α × Res α)} {Y : Sp α × Res α}
    (hocc : st.occ h = true → ∃ st', X = some (st', Y.2) ∧ Good st' Y.1) :
    ∃ st', (if st.occ h = true then X else some (st, Res.skip)) =
        some (st', (if sp.occ h = true then Y else (sp, Res.skip)).2) ∧
      Good st' (if sp.occ h = true then Y else (sp, Res.skip)).1 := by
  rw [hg.sim.occ_eq h]
  cases ho : st.occ h
  · exact ⟨st, by simp, by simpa using hg⟩
  · obtain ⟨st', h1, h2⟩ := hocc ho
    exact ⟨st', by simpa using h1, by simpa using h2⟩

theorem with_occ2 {st : St α} {sp : Sp α} (hg : Good st sp) (h g : Nat) {X : Option (St α × Res α)} {Y : Sp α × Res α}
    (hocc : st.occ h = true → st.occ g = true → ∃ st', X = some (st', Y.2) ∧ Good st' Y.1) :
    ∃ st', (if (st.occ h && st.occ g) = true then X else some (st, Res.skip)) =
        some (st', (if (sp.occ h && sp.occ g) = true then Y else (sp, Res.skip)).2) ∧
      Good st' (if (sp.occ h && sp.occ g) = true then Y else (sp, Res.skip)).1 := by
  rw [hg.sim.occ_eq h, hg.sim.occ_eq g]
  cases ho : st.occ h <;> cases ho2 : st.occ g
  · exact ⟨st, by simp, by simpa using hg⟩
  · exact ⟨st, by simp, by simpa using hg⟩
  · exact ⟨st, by simp, by simpa using hg⟩
  · obtain ⟨st', h1, h2⟩ := hocc ho ho2
    exact ⟨st', by simpa using h1, by simpa using h2⟩

theorem length_eq_zero_iff_nil (l : List α) : l.length = 0 ↔ l = [] := List.length_eq_zero_iff

section
variable [DecidableEq α] (E : Elem α) {st : St α} {sp : Sp α} (hg : Good st sp)
include hg

theorem step_pop (h : Nat) : StepOK E st sp (.pop h) := by
  obtain ⟨f, hf⟩ := hg.sim
  simp only [StepOK, step, specStep]
  refine with_occ hg h (fun ho => ?_)
  obtain ⟨b, r, k, hb, hbo, hrep, hrc, hel⟩ := read_sim hf ho
  rw [hbo, Option.bind_some]
  simp only []
  have hn : r.n = (sp.get h).length := hrep.1
  by_cases hz : sp.get h = []
  · rw [if_pos (by rw [hn, hz]; rfl), if_pos hz]; exact ⟨st, rfl, hg⟩
  · rw [if_neg (by rw [hn]; exact fun e => hz (List.length_eq_zero_iff.mp e)), if_neg hz]
    obtain ⟨st', h1, h2⟩ := mut_step hg ho ((refines_pop E).at _)
      (pGuard_false_of_nomove hf ho (nomove_resize E (fun n => n - 1) (fun _ => Nat.sub_le _ _) _))
    exact ⟨st', by simp [okR, h1], h2⟩

theorem step_popget (h : Nat) : StepOK E st sp (.popget h) := by
  obtain ⟨f, hf⟩ := hg.sim
  simp only [StepOK, step, specStep]
  refine with_occ hg h (fun ho => ?_)
  obtain ⟨b, r, k, hb, hbo, hrep, hrc, hel⟩ := read_sim hf ho
  rw [hbo, Option.bind_some]
  simp only []
  have hn : r.n = (sp.get h).length := hrep.1
  rw [readCell_rep _ _ k _ hrep, hn, List.getLast?_eq_getElem?]
  by_cases hz : sp.get h = []
  · rw [if_pos (by rw [hz]; rfl), hz]; exact ⟨st, rfl, hg⟩
  · have hpos : 0 < (sp.get h).length := List.length_pos_iff.mpr hz
    rw [if_neg (by omega), List.getElem?_eq_getElem (by omega), Option.bind_some]
    obtain ⟨st', h1, h2⟩ := mut_step hg ho ((refines_pop E).at _)
      (pGuard_false_of_nomove hf ho (nomove_resize E (fun n => n - 1) (fun _ => Nat.sub_le _ _) _))
    exact ⟨st', by simp [h1], h2⟩

theorem step_qget (h : Nat) : StepOK E st sp (.qget h) := by
  obtain ⟨f, hf⟩ := hg.sim
  simp only [StepOK, step, specStep]
  refine with_occ hg h (fun ho => ?_)
  obtain ⟨b, r, k, hb, hbo, hrep, hrc, hel⟩ := read_sim hf ho
  rw [hbo, Option.bind_some]
  simp only []
  have hn : r.n = (sp.get h).length := hrep.1
  rw [readCell_rep _ _ k _ hrep, hn]
  cases hl : sp.get h with
  | nil => simp; exact hg
  | cons x t =>
    simp only [List.length_cons, Nat.succ_ne_zero, if_false, List.getElem?_cons_zero, Option.bind_some]
    have href : RefinesAt (fun s => remove E s 0 1) (fun l : List α => l.drop 1) (sp.get h) := by
      have := refinesAt_rem1 E 0 (sp.get h) (by rw [hl]; simp)
      intro s k hr
      obtain ⟨s', k', g1, g2, g3, g4⟩ := this s k hr
      refine ⟨s', k', g1, ?_, g3, ?_⟩
      · simpa [remAt] using g2
      · simpa [remAt] using g4
    obtain ⟨st', h1, h2⟩ := mut_step hg ho href
      (pGuard_false_of_nomove hf ho (nomove_remove E (fun _ => 0) (fun _ => 1) _))
    exact ⟨st', by simp [h1], h2⟩

end



section
variable [DecidableEq α] (E : Elem α) {st : St α} {sp : Sp α} (hg : Good st sp)
include hg

theorem step_remone (h : Nat) (v : α) (j : Nat) : StepOK E st sp (.remone h v j) := by
  obtain ⟨f, hf⟩ := hg.sim
  simp only [StepOK, step, specStep]
  refine with_occ hg h (fun ho => ?_)
  obtain ⟨b, r, k, hb, hbo, hrep, hrc, hel⟩ := read_sim hf ho
  rw [hel, Option.bind_some]
  by_cases hi : indexOf (sp.get h) v (j % ((sp.get h).length + 1)) < 0
  · rw [if_pos hi, if_pos hi]; exact ⟨st, rfl, hg⟩
  · rw [if_neg hi, if_neg hi]
    have hlt := indexOf_bounds (sp.get h) v (j % ((sp.get h).length + 1))
      (Nat.le_of_lt_succ (Nat.mod_lt _ (Nat.succ_pos _))) hi
    obtain ⟨st', h1, h2⟩ := mut_step hg ho (refinesAt_rem1 E _ (sp.get h) hlt)
      (pGuard_false_of_nomove hf ho (nomove_remove E (fun _ => _) (fun _ => 1) _))
    exact ⟨st', by simp [h1], h2⟩

theorem step_get (h i : Nat) : StepOK E st sp (.get h i) := by
  obtain ⟨f, hf⟩ := hg.sim
  simp only [StepOK, step, specStep]
  refine with_occ hg h (fun ho => ?_)
  obtain ⟨b, r, k, hb, hbo, hrep, hrc, hel⟩ := read_sim hf ho
  rw [hbo, Option.bind_some]
  simp only []
  have hn : r.n = (sp.get h).length := hrep.1
  rw [readCell_rep _ _ k _ hrep, hn]
  by_cases hz : (sp.get h).length = 0
  · rw [if_pos hz, hz, Nat.mod_zero, List.getElem?_eq_none (by omega)]; exact ⟨st, rfl, hg⟩
  · rw [if_neg hz, List.getElem?_eq_getElem (Nat.mod_lt _ (by omega))]; exact ⟨st, rfl, hg⟩

theorem step_last (h : Nat) : StepOK E st sp (.last h) := by
  obtain ⟨f, hf⟩ := hg.sim
  simp only [StepOK, step, specStep]
  refine with_occ hg h (fun ho => ?_)
  obtain ⟨b, r, k, hb, hbo, hrep, hrc, hel⟩ := read_sim hf ho
  rw [hbo, Option.bind_some]
  simp only []
  have hn : r.n = (sp.get h).length := hrep.1
  rw [readCell_rep _ _ k _ hrep, hn, List.getLast?_eq_getElem?]
  by_cases hz : (sp.get h).length = 0
  · rw [if_pos hz, hz, List.getElem?_eq_none (by omega)]; exact ⟨st, rfl, hg⟩
  · rw [if_neg hz, List.getElem?_eq_getElem (by omega)]; exact ⟨st, rfl, hg⟩

theorem step_top (h i : Nat) : StepOK E st sp (.top h i) := by
  obtain ⟨f, hf⟩ := hg.sim
  simp only [StepOK, step, specStep]
  refine with_occ hg h (fun ho => ?_)
  obtain ⟨b, r, k, hb, hbo, hrep, hrc, hel⟩ := read_sim hf ho
  rw [hbo, Option.bind_some]
  simp only []
  have hn : r.n = (sp.get h).length := hrep.1
  rw [readCell_rep _ _ k _ hrep, hn]
  by_cases hz : sp.get h = []
  · rw [if_pos (by rw [hz]; rfl), if_pos hz]; exact ⟨st, rfl, hg⟩
  · have hpos : 0 < (sp.get h).length := List.length_pos_iff.mpr hz
    have := Nat.mod_lt i hpos
    rw [if_neg (by omega), if_neg hz, List.getElem?_eq_getElem (by omega)]; exact ⟨st, rfl, hg⟩

theorem step_idx (h : Nat) (v : α) (j : Nat) : StepOK E st sp (.idx h v j) := by
  obtain ⟨f, hf⟩ := hg.sim
  simp only [StepOK, step, specStep]
  refine with_occ hg h (fun ho => ?_)
  obtain ⟨b, r, k, hb, hbo, hrep, hrc, hel⟩ := read_sim hf ho
  rw [hel]; exact ⟨st, rfl, hg⟩

theorem step_eq (h g : Nat) : StepOK E st sp (.eq h g) := by
  obtain ⟨f, hf⟩ := hg.sim
  simp only [StepOK, step, specStep]
  refine with_occ2 hg h g (fun ho ho2 => ?_)
  obtain ⟨_, _, _, _, _, _, _, hel⟩ := read_sim hf ho
  obtain ⟨_, _, _, _, _, _, _, hel2⟩ := read_sim hf ho2
  rw [hel, hel2]; exact ⟨st, rfl, hg⟩

end



theorem RefinesAt.congr {op : BS α → Option (BS α)} {F F' : List α → List α} {l : List α} (h : RefinesAt op F' l)
    (e : F l = F' l) : RefinesAt op F l := by
  intro s k hr; rw [e]; exact h s k hr

section
variable [DecidableEq α] (E : Elem α) {st : St α} {sp : Sp α} (hg : Good st sp)
include hg

theorem srcOf_sim {f : Nat → Nat} (hf : Sim st sp f) {h g : Nat} (ho : st.occ h = true) (ho2 : st.occ g = true) :
    (srcOf st h g = some Src.self ∧ sp.get g = sp.get h) ∨ srcOf st h g = some (Src.vals (sp.get g)) := by
  obtain ⟨_, _, _, _, _, _, _, hel2⟩ := read_sim hf ho2
  unfold srcOf
  by_cases hid : st.idOf h = st.idOf g
  · left; rw [if_pos hid]; exact ⟨rfl, (same_id_same_get hf ho hid).symm⟩
  · right; rw [if_neg hid, hel2]; rfl

theorem step_apnd (h g : Nat) (hgd : guard E st (.apnd h g) = false) : StepOK E st sp (.apnd h g) := by
  obtain ⟨f, hf⟩ := hg.sim
  simp only [StepOK, step, specStep, growingMember]
  refine with_occ2 hg h g (fun ho ho2 => ?_)
  rcases srcOf_sim hg hf ho ho2 with ⟨hsrc, hsame⟩ | hsrc
  · simp only [AslModel.Arr.guard, growingMember, hsrc, Option.map_some] at hgd
    rw [hsrc]; simp only [Option.map_some]
    obtain ⟨st', h1, h2⟩ := mut_step hg ho (F := fun l => l ++ sp.get g)
      ((append_self_refines E).at _ |>.congr (by simp only [hsame])) hgd
    exact ⟨st', by simp [okR, h1], h2⟩
  · simp only [AslModel.Arr.guard, growingMember, hsrc, Option.map_some] at hgd
    rw [hsrc]; simp only [Option.map_some]
    obtain ⟨st', h1, h2⟩ := mut_step hg ho ((append_vals_refines E (sp.get g)).at _) hgd
    exact ⟨st', by simp [okR, h1], h2⟩

theorem step_copy (h g : Nat) (hgd : guard E st (.copy h g) = false) : StepOK E st sp (.copy h g) := by
  obtain ⟨f, hf⟩ := hg.sim
  simp only [StepOK, step, specStep, growingMember]
  refine with_occ2 hg h g (fun ho ho2 => ?_)
  rcases srcOf_sim hg hf ho ho2 with ⟨hsrc, hsame⟩ | hsrc
  · simp only [AslModel.Arr.guard, growingMember, hsrc, Option.map_some] at hgd
    rw [hsrc]; simp only [Option.map_some]
    obtain ⟨st', h1, h2⟩ := mut_step hg ho (F := fun _ => sp.get g)
      ((copy_self_refines E).at _ |>.congr (by simp only [hsame])) hgd
    exact ⟨st', by simp [okR, h1], h2⟩
  · simp only [AslModel.Arr.guard, growingMember, hsrc, Option.map_some] at hgd
    rw [hsrc]; simp only [Option.map_some]
    obtain ⟨st', h1, h2⟩ := mut_step hg ho ((copy_vals_refines E (sp.get g)).at _) hgd
    exact ⟨st', by simp [okR, h1], h2⟩

theorem step_insx (h k g j : Nat) (hgd : guard E st (.insx h k g j) = false) : StepOK E st sp (.insx h k g j) := by
  obtain ⟨f, hf⟩ := hg.sim
  simp only [StepOK, step, specStep, growingMember]
  refine with_occ2 hg h g (fun ho ho2 => ?_)
  obtain ⟨_, _, _, _, _, _, _, hel2⟩ := read_sim hf ho2
  simp only [AslModel.Arr.guard, growingMember, hel2] at hgd
  rw [hel2]
  cases hl : sp.get g with
  | nil => simp; exact hg
  | cons x xs =>
    rw [hl] at hgd
    simp only [] at hgd ⊢
    have hlt : j % (x :: xs).length < (x :: xs).length := Nat.mod_lt _ (by simp)
    have hy : (x :: xs)[j % (x :: xs).length]? = some ((x :: xs)[j % (x :: xs).length]) := List.getElem?_eq_getElem hlt
    rw [hy]
    simp only []
    by_cases hid : st.idOf h = st.idOf g
    · rw [if_pos hid] at hgd ⊢
      simp only [] at hgd ⊢
      have hsame := same_id_same_get hf ho hid
      have href := refinesAt_ins_own k (j % (x :: xs).length) _ (sp.get h) (by rw [hsame, hl]; exact hy)
      obtain ⟨st', h1, h2⟩ := mut_step hg ho href hgd
      exact ⟨st', by rw [h1]; rfl, h2⟩
    · rw [if_neg hid] at hgd ⊢
      simp only [] at hgd ⊢
      have hv : (x :: xs).getD (j % (x :: xs).length) x = (x :: xs)[j % (x :: xs).length] := by
        rw [List.getD_eq_getElem?_getD, hy]; rfl
      rw [hv] at hgd ⊢
      obtain ⟨st', h1, h2⟩ := mut_step hg ho ((refines_ins k _).at _) hgd
      exact ⟨st', by rw [h1]; rfl, h2⟩

end



/-! ### handle operations and producing operations -/

theorem hs_len_of_occv {st' : St α} {v : List Bool} (h : occv st' = v) (hv : v.length = 8) : st'.hs.length = 8 := by
  have : (occv st').length = 8 := by rw [h]; exact hv
  simpa [occv] using this

/-- `delete H[h]` if there is an object: afterwards the slot is empty -/
theorem ensure_empty {st : St α} {sp : Sp α} (hsim : SimE st sp) (hlen : st.hs.length = 8) {h : Nat} (hh : h < 8) :
    ∃ st1, (if st.occ h = true then pDrop st h else some st) = some st1 ∧
      SimE st1 (if sp.occ h = true then sDrop sp h else sp) ∧ occv st1 = (occv st).set h false := by
  rw [hsim.occ_eq h]
  cases ho : st.occ h
  · refine ⟨st, ?_, ?_, ?_⟩
    · rw [if_neg (by simp)]
    · rw [if_neg (by simp)]; exact hsim
    have he := (empty_iff st h).mp ((occ_false_iff st h (by omega)).mp ho)
    apply List.ext_getElem?
    intro i
    rw [occv_get_set _ _ _ _ (by simp [occv, hlen]; exact hh)]
    by_cases hi : h = i
    · subst hi; rw [if_pos rfl]; exact he
    · rw [if_neg hi]
  · obtain ⟨f, hf⟩ := hsim
    obtain ⟨b, hb⟩ := (occ_iff st h).mp ho
    obtain ⟨st1, h1, h2, h3⟩ := pDrop_sim hf hb
    refine ⟨st1, ?_, ?_, ?_⟩
    · rw [if_pos rfl]; exact h1
    · rw [if_pos rfl]; exact ⟨f, h2⟩
    show st1.hs.map Option.isSome = _
    rw [h3, List.map_set]; rfl

theorem set_set_same (v : List Bool) (i : Nat) (a b : Bool) : (v.set i a).set i b = v.set i b := by
  rw [List.set_set]

section
variable [DecidableEq α] (E : Elem α) {st : St α} {sp : Sp α} (hg : Good st sp)
include hg

theorem step_drop (h : Nat) (hh : h < NS) : StepOK E st sp (.drop h) := by
  obtain ⟨f, hf⟩ := hg.sim
  simp only [StepOK, step, specStep]
  refine with_occ hg h (fun ho => ?_)
  obtain ⟨b, hb⟩ := (occ_iff st h).mp ho
  obtain ⟨st1, h1, h2, h3⟩ := pDrop_sim hf hb
  refine ⟨st1, by rw [h1]; rfl, hg.of_set ⟨f, h2⟩ hh (b := false) ?_⟩
  show st1.hs.map Option.isSome = _
  rw [h3, List.map_set]; rfl

theorem step_asg (h g : Nat) : StepOK E st sp (.asg h g) := by
  simp only [StepOK, step, specStep]
  refine with_occ2 hg h g (fun ho ho2 => ?_)
  obtain ⟨st1, h1, h2, h3⟩ := pAssign_sim hg.sim ho ho2
  exact ⟨st1, by rw [h1]; rfl, hg.of_occv h2 h3⟩

theorem step_new (h : Nat) (hh : h < NS) : StepOK E st sp (.new h) := by
  simp only [StepOK, step, specStep]
  have hh8 : h < 8 := by unfold NS at hh; omega
  obtain ⟨st1, h1, hs1, ho1⟩ := ensure_empty hg.sim hg.len hh8
  rw [h1, Option.bind_some]
  obtain ⟨f1, hf1⟩ := hs1
  have hlen1 := hs_len_of_occv ho1 (by simp [occv, hg.len])
  have hempty : st1.hs[h]? = some none := by
    rw [empty_iff, ho1, occv_get_set _ _ _ _ (by simp [occv, hg.len]; exact hh8), if_pos rfl]
  obtain ⟨st2, f2, hp, hs2, ho2⟩ := pNew_sim E hf1 (slot := h) (m := 0) (init := some) (l := []) hempty
    (by intro s k hr; exact ⟨s, k, rfl, by simpa using hr, rfl, by simp⟩)
  refine ⟨st2, by rw [hp]; rfl, hg.of_set ⟨f2, hs2⟩ hh (b := true) ?_⟩
  show occv st2 = _
  rw [show occv st2 = _ from ho2, show st1.hs.map Option.isSome = _ from ho1, List.set_set]

theorem step_newn (h n : Nat) (v : α) (hh : h < NS) : StepOK E st sp (.newn h n v) := by
  simp only [StepOK, step, specStep]
  have hh8 : h < 8 := by unfold NS at hh; omega
  obtain ⟨st1, h1, hs1, ho1⟩ := ensure_empty hg.sim hg.len hh8
  rw [h1, Option.bind_some]
  have hlen1 := hs_len_of_occv ho1 (by simp [occv, hg.len])
  have hT01 : st1.hs[T0]? = some none := by
    rw [empty_iff, ho1, List.getElem?_set_ne (by unfold NS at hh; unfold T0; omega), ← empty_iff]; exact hg.t0
  obtain ⟨st2, hp, hs2, ho2⟩ := produce_sim E hs1 hh hlen1 hT01 (List.replicate n v)
  refine ⟨st2, hp, hg.of_set hs2 hh (b := true) ?_⟩
  rw [ho2, ho1, List.set_set]

theorem step_producer (t h : Nat) (ht : t < NS) (xs : List α) :
    ∃ st', produce E st t xs = some (st', Res.ok) ∧ Good st' (sProduce sp t xs) := by
  obtain ⟨st2, hp, hs2, ho2⟩ := produce_sim E hg.sim ht hg.len hg.t0 xs
  exact ⟨st2, hp, hg.of_set hs2 ht ho2⟩

theorem step_clone (t h : Nat) (ht : t < NS) : StepOK E st sp (.clone t h) := by
  obtain ⟨f, hf⟩ := hg.sim
  simp only [StepOK, step, specStep]
  refine with_occ hg h (fun ho => ?_)
  obtain ⟨_, _, _, _, _, _, _, hel⟩ := read_sim hf ho
  rw [hel, Option.bind_some]
  exact step_producer E hg t h ht _

theorem step_rev (t h : Nat) (ht : t < NS) : StepOK E st sp (.rev t h) := by
  obtain ⟨f, hf⟩ := hg.sim
  simp only [StepOK, step, specStep]
  refine with_occ hg h (fun ho => ?_)
  obtain ⟨_, _, _, _, _, _, _, hel⟩ := read_sim hf ho
  rw [hel, Option.bind_some]
  exact step_producer E hg t h ht _

theorem step_slice (t h i j : Nat) (ht : t < NS) : StepOK E st sp (.slice t h i j) := by
  obtain ⟨f, hf⟩ := hg.sim
  simp only [StepOK, step, specStep]
  refine with_occ hg h (fun ho => ?_)
  obtain ⟨_, _, _, _, _, _, _, hel⟩ := read_sim hf ho
  rw [hel, Option.bind_some]
  exact step_producer E hg t h ht _

theorem step_slicee (t h i : Nat) (ht : t < NS) : StepOK E st sp (.slicee t h i) := by
  obtain ⟨f, hf⟩ := hg.sim
  simp only [StepOK, step, specStep]
  refine with_occ hg h (fun ho => ?_)
  obtain ⟨_, _, _, _, _, _, _, hel⟩ := read_sim hf ho
  rw [hel, Option.bind_some]
  exact step_producer E hg t h ht _

theorem step_filt (t h m r : Nat) (ht : t < NS) : StepOK E st sp (.filt t h m r) := by
  obtain ⟨f, hf⟩ := hg.sim
  simp only [StepOK, step, specStep]
  refine with_occ hg h (fun ho => ?_)
  obtain ⟨_, _, _, _, _, _, _, hel⟩ := read_sim hf ho
  rw [hel, Option.bind_some]
  simp only []
  obtain ⟨st1, f1, hp, hs1, ho1⟩ := pNew_sim E hf (slot := T0) (m := 0)
    (init := fun s => pushAll ((sp.get h).filter (predOf E m r)) (reserve E s (sp.get h).length))
    (l := (sp.get h).filter (predOf E m r)) hg.t0
    (by
      intro s k hr
      have hr0 : Rep s [] k := by simpa using hr
      obtain ⟨k1, hrep1, _, hrc1, hlive1⟩ := reserve_rep E s [] k (sp.get h).length hr0
      obtain ⟨s', k', g1, g2, g3, g4⟩ := pushAll_spec ((sp.get h).filter (predOf E m r)) _ [] k1 hrep1
      exact ⟨s', k', g1, by simpa using g2, by rw [g3, hrc1], by rw [g4, hlive1]; simp⟩)
  rw [hp, Option.bind_some]
  have hlen1 := hs_len_of_occv ho1 (by simp [hg.len])
  have hT01 : st1.occ T0 = true := by
    rw [occ_iff_occv, show occv st1 = _ from ho1, occv_get_set _ _ _ _ (by simp [hg.len, T0])]; simp
  obtain ⟨st2, hst2, hsim2, hov2⟩ := storeT0_sim E ⟨f1, hs1⟩ ht hlen1 hT01
  refine ⟨st2, by rw [hst2]; rfl, ?_⟩
  have hne : t ≠ T0 := by unfold NS at ht; unfold T0; omega
  refine ⟨hsim2, hs_len_of_occv hov2 (by simp [occv, hlen1]), ?_⟩
  rw [empty_iff, hov2, occv_get_set _ _ _ _ (by simp [occv, hlen1, T0]), if_pos rfl]

end



theorem Sim.cell_lt {st : St α} {sp : Sp α} {f : Nat → Nat} (hsim : Sim st sp f) {slot c : Nat}
    (hc : sp.hs[slot]? = some (some c)) : c < sp.cells.length := by
  rw [hsim.hs_map, List.getElem?_map] at hc
  cases hx : st.hs[slot]? with
  | none => rw [hx] at hc; simp at hc
  | some o => cases o with
    | none => rw [hx] at hc; simp at hc
    | some b =>
      rw [hx] at hc; simp at hc; subst hc
      obtain ⟨r, hr⟩ := hsim.hl slot b hx
      obtain ⟨l, k, _, _, _, h4, _, _⟩ := hsim.blk b r hr
      exact lt_of_getElem?_some h4

section
variable [DecidableEq α] (E : Elem α) {st : St α} {sp : Sp α} (hg : Good st sp)
include hg

theorem step_cp (h g : Nat) (hh : h < NS) : StepOK E st sp (.cp h g) := by
  obtain ⟨f, hf⟩ := hg.sim
  simp only [StepOK, step, specStep]
  refine with_occ hg g (fun ho => ?_)
  obtain ⟨b, hb⟩ := (occ_iff st g).mp ho
  obtain ⟨st1, h1, hs1, hhs1⟩ := pShare_sim hf hg.t0 hb
  rw [h1, Option.bind_some]
  have hh8 : h < 8 := by unfold NS at hh; omega
  have hne : h ≠ T0 := by unfold NS at hh; unfold T0; omega
  have hlen1 : st1.hs.length = 8 := by rw [hhs1]; simp [hg.len]
  obtain ⟨st2, h2, hs2, ho2⟩ := ensure_empty ⟨f, hs1⟩ hlen1 hh8
  rw [h2]
  simp only [Option.map_some, okR]
  obtain ⟨f2, hf2⟩ := hs2
  have hlen2 := hs_len_of_occv ho2 (by simp [occv, hlen1])
  have hov1 : occv st1 = (occv st).set T0 true := by
    show st1.hs.map Option.isSome = _; rw [hhs1, List.map_set]; rfl
  have hdst : st2.hs[h]? = some none := by
    rw [empty_iff, ho2, occv_get_set _ _ _ _ (by simp [occv, hlen1]; exact hh8), if_pos rfl]
  have hsrc : st2.occ T0 = true := by
    rw [occ_iff_occv, ho2, List.getElem?_set_ne hne, hov1,
      occv_get_set _ _ _ _ (by simp [occv, hg.len, T0]), if_pos rfl]
  obtain ⟨b2, hb2⟩ := (occ_iff st2 T0).mp hsrc
  have hmv := pMove_sim hf2 hdst hb2
  refine ⟨pMove st2 h T0, rfl, ⟨⟨f2, hmv⟩, ?_, ?_⟩⟩
  · show ((st2.hs.set h (st2.hs.getD T0 none)).set T0 none).length = 8
    simp [hlen2]
  · show ((st2.hs.set h (st2.hs.getD T0 none)).set T0 none)[T0]? = some none
    rw [List.getElem?_set_self (by simp [hlen2, T0])]

theorem step_dup (h : Nat) (hh : h < NS) : StepOK E st sp (.dup h) := by
  obtain ⟨f, hf⟩ := hg.sim
  simp only [StepOK, step, specStep]
  refine with_occ hg h (fun ho => ?_)
  obtain ⟨b, r, k, hb, hbo, hrep, hrc, hel⟩ := read_sim hf ho
  rw [hbo, Option.bind_some]
  simp only []
  rw [hrc]
  by_cases h1 : sp.rc h = 1
  · rw [if_pos h1, if_pos h1]; exact ⟨st, rfl, hg⟩
  · rw [if_neg h1, if_neg h1, hel, Option.bind_some]
    obtain ⟨st1, f1, hp, hs1, ho1⟩ := pNew_sim E hf (slot := T0) (m := (sp.get h).length)
      (init := fun s => assignFrom (sp.get h) s 0) (l := sp.get h) hg.t0
      (by
        intro s k hr
        have hr' : Rep s ([] ++ List.replicate (sp.get h).length E.dflt ++ []) k := by simpa using hr
        obtain ⟨s', g1, g2, g3, g4, _⟩ := assignFrom_rep (sp.get h) [] _ [] s k 0 hr' (by simp) rfl
        exact ⟨s', k, g1, by simpa using g2, g3, by rw [g4]; simp⟩)
    rw [hp, Option.bind_some]
    have hne : h ≠ T0 := by unfold NS at hh; unfold T0; omega
    have hT01 : st1.occ T0 = true := by
      rw [occ_iff_occv, show occv st1 = _ from ho1, occv_get_set _ _ _ _ (by simp [hg.len, T0])]; simp
    have hh1 : st1.occ h = true := by
      rw [occ_iff_occv, show occv st1 = _ from ho1, List.getElem?_set_ne (fun e => hne e.symm)]
      exact (occ_iff_occv st h).mp ho
    obtain ⟨st2, h2, hs2, ho2⟩ := pAssign_sim ⟨f1, hs1⟩ hh1 hT01
    rw [h2, Option.bind_some]
    obtain ⟨f2, hf2⟩ := hs2
    have hT02 : st2.occ T0 = true := by rw [occ_iff_occv, ho2, ← occ_iff_occv]; exact hT01
    obtain ⟨b2, hb2⟩ := (occ_iff st2 T0).mp hT02
    obtain ⟨st3, h3, hs3, hhs3⟩ := pDrop_sim hf2 hb2
    refine ⟨st3, by rw [h3]; rfl, hg.of_occv ⟨f2, hs3⟩ ?_⟩
    show st3.hs.map Option.isSome = _
    rw [hhs3, List.map_set]
    show (occv st2).set T0 false = _
    rw [ho2, show occv st1 = _ from ho1, List.set_set]
    apply List.ext_getElem?
    intro i
    rw [occv_get_set _ _ _ _ (by simp [hg.len, T0])]
    by_cases hi : T0 = i
    · rw [if_pos hi, ← hi]; exact ((empty_iff st T0).mp hg.t0).symm
    · rw [if_neg hi]; rfl

theorem step_concat (t h g : Nat) (ht : t < NS) : StepOK E st sp (.concat t h g) := by
  obtain ⟨f, hf⟩ := hg.sim
  simp only [StepOK, step, specStep]
  refine with_occ2 hg h g (fun ho ho2 => ?_)
  obtain ⟨_, _, _, _, _, _, _, hel⟩ := read_sim hf ho
  obtain ⟨_, _, _, _, _, _, _, hel2⟩ := read_sim hf ho2
  rw [hel, Option.bind_some, hel2, Option.bind_some]
  obtain ⟨st1, f1, hp, hs1, ho1⟩ := pNew_sim E hf (slot := T0) (m := (sp.get h).length)
    (init := fun s => assignFrom (sp.get h) s 0) (l := sp.get h) hg.t0
    (by
      intro s k hr
      have hr' : Rep s ([] ++ List.replicate (sp.get h).length E.dflt ++ []) k := by simpa using hr
      obtain ⟨s', g1, g2, g3, g4, _⟩ := assignFrom_rep (sp.get h) [] _ [] s k 0 hr' (by simp) rfl
      exact ⟨s', k, g1, by simpa using g2, g3, by rw [g4]; simp⟩)
  rw [hp, Option.bind_some]
  have hlen1 := hs_len_of_occv ho1 (by simp [hg.len])
  have hT01 : st1.occ T0 = true := by
    rw [occ_iff_occv, show occv st1 = _ from ho1, occv_get_set _ _ _ _ (by simp [hg.len, T0])]; simp
  -- the temporary is not shared: its `rc` is 1, so growing it is not guarded
  obtain ⟨b1, r1, k1, hb1, hbo1, hrep1, hrc1, _⟩ := read_sim hs1 hT01
  have hrc1' : r1.rc = 1 := by
    rw [hrc1]
    have hT0lt : T0 < sp.hs.length := by rw [hf.hs_map]; simp [hg.len, T0]
    have hslot : (sNew sp T0 (sp.get h)).hs[T0]? = some (some sp.cells.length) := by
      show (sp.hs.set T0 (some sp.cells.length))[T0]? = _
      rw [List.getElem?_set_self hT0lt]
    unfold Sp.rc; rw [hslot]; simp only []
    show (sp.hs.set T0 (some sp.cells.length)).count (some sp.cells.length) = 1
    have hT0none : sp.hs[T0]? = some none := by rw [hf.hs_map, List.getElem?_map, hg.t0]; rfl
    have hc := count_set_slot sp.hs T0 none (some sp.cells.length) (some sp.cells.length) hT0none
    have hz : sp.hs.count (some sp.cells.length) = 0 := by
      rw [List.count_eq_zero]
      intro hmem
      obtain ⟨i, hi, hget⟩ := List.getElem_of_mem hmem
      have := hf.cell_lt (slot := i) (c := sp.cells.length) (by rw [List.getElem?_eq_getElem hi, hget])
      omega
    simp at hc; omega
  have hgd : pGuard st1 T0 (fun s => append E s (.vals (sp.get g))) = false := by
    unfold pGuard; rw [hbo1]; simp only []
    cases append E (r1.toBS st1.live) (.vals (sp.get g)) with
    | none => rfl
    | some s' => simp only []; rw [hrc1']; simp
  obtain ⟨st2, f2, h2, hs2, ho2⟩ := pMut_sim hs1 hT01 ((append_vals_refines E (sp.get g)).at _) hgd
  rw [h2, Option.bind_some]
  have hlen2 : st2.hs.length = 8 := by
    have : (st2.hs.map Option.isSome).length = (st1.hs.map Option.isSome).length := by rw [ho2]
    simpa [hlen1] using this
  have hT02 : st2.occ T0 = true := by rw [occ_iff_occv, show occv st2 = occv st1 from ho2, ← occ_iff_occv]; exact hT01
  obtain ⟨st3, h3, hs3, ho3⟩ := storeT0_sim E ⟨f2, hs2⟩ ht hlen2 hT02
  refine ⟨st3, by rw [h3]; rfl, ⟨hs3, hs_len_of_occv ho3 (by simp [occv, hlen2]), ?_⟩⟩
  rw [empty_iff, ho3, occv_get_set _ _ _ _ (by simp [occv, hlen2, T0]), if_pos rfl]

end



/-! ### all operations; observations; histories -/

section
variable [DecidableEq α] (E : Elem α) {st : St α} {sp : Sp α} (hg : Good st sp)
include hg

theorem step_newp (h : Nat) (xs : List α) (hh : h < NS) : StepOK E st sp (.newp h xs) := by
  simp only [StepOK, step, specStep]
  have hh8 : h < 8 := by unfold NS at hh; omega
  obtain ⟨st1, h1, hs1, ho1⟩ := ensure_empty hg.sim hg.len hh8
  rw [h1, Option.bind_some]
  have hlen1 := hs_len_of_occv ho1 (by simp [occv, hg.len])
  have hT01 : st1.hs[T0]? = some none := by
    rw [empty_iff, ho1, List.getElem?_set_ne (by unfold NS at hh; unfold T0; omega), ← empty_iff]; exact hg.t0
  obtain ⟨st2, hp, hs2, ho2⟩ := produce_sim E hs1 hh hlen1 hT01 xs
  refine ⟨st2, hp, hg.of_set hs2 hh (b := true) ?_⟩
  rw [ho2, ho1, List.set_set]

theorem step_copyp (h : Nat) (xs : List α) (hgd : guard E st (.copyp h xs) = false) : StepOK E st sp (.copyp h xs) := by
  simp only [StepOK, step, specStep, growingMember]
  exact mut_case hg h (fun _ => (copy_vals_refines E xs).at _) (fun _ => hgd)

theorem step_appp (h : Nat) (xs : List α) (hgd : guard E st (.appp h xs) = false) : StepOK E st sp (.appp h xs) := by
  simp only [StepOK, step, specStep, growingMember]
  exact mut_case hg h (fun _ => (append_vals_refines E xs).at _) (fun _ => hgd)

theorem step_sortby (h : Nat) (asc : Bool) : StepOK E st sp (.sortby h asc) := by
  obtain ⟨f, hf⟩ := hg.sim
  simp only [StepOK, step, specStep]
  refine mut_case hg h (fun ho => ?_) (fun ho => pGuard_false_of_nomove hf ho (nomove_sort _ _))
  have hirr : ∀ x, (if asc then fun a b => decide (E.key a < E.key b) else fun a b => decide (E.key b < E.key a)) x x = false := by
    intro x; cases asc <;> simp
  obtain ⟨l', hl'⟩ := Option.isSome_iff_exists.mp (qsortList_total _ hirr (sp.get h))
  exact refinesAt_sort _ _ l' hl'

theorem step_appown (h j k : Nat) (hgd : guard E st (.appown h j k) = false) : StepOK E st sp (.appown h j k) := by
  simp only [StepOK, step, specStep, growingMember]
  exact mut_case hg h (fun _ => (refines_appown E j k).at _) (fun _ => hgd)

theorem step_copyown (h j k : Nat) : StepOK E st sp (.copyown h j k) := by
  obtain ⟨f, hf⟩ := hg.sim
  simp only [StepOK, step, specStep]
  exact mut_case hg h (fun _ => (refines_copyown E j k).at _) (fun ho => pGuard_false_of_nomove hf ho (nomove_copyown E j k _))

theorem step_remx (h i c : Nat) : StepOK E st sp (.remx h i c) := by
  obtain ⟨f, hf⟩ := hg.sim
  simp only [StepOK, step, specStep]
  exact mut_case hg h (fun _ => (refines_remx E i c).at _)
    (fun ho => pGuard_false_of_nomove hf ho (nomove_remove E (fun _ => i) (fun _ => c) _))

theorem step_iter (h : Nat) : StepOK E st sp (.iter h) := by
  obtain ⟨f, hf⟩ := hg.sim
  simp only [StepOK, step, specStep]
  refine with_occ hg h (fun ho => ?_)
  obtain ⟨b, r, k, hb, hbo, hrep, hrc, hel⟩ := read_sim hf ho
  rw [hel]; exact ⟨st, rfl, hg⟩

end

theorem mod_NS_lt (h : Nat) : h % NS < NS := Nat.mod_lt _ (by unfold NS; omega)

theorem step_sim [DecidableEq α] (E : Elem α) {st : St α} {sp : Sp α} (hg : Good st sp) (op : Op α)
    (hirr : ∀ x, E.lt x x = false) (hgd : guard E st (normOp op) = false) : StepOK E st sp (normOp op) := by
  cases op with
  | new h => exact step_new E hg _ (mod_NS_lt h)
  | newn h n v => exact step_newn E hg _ n v (mod_NS_lt h)
  | cp h g => exact step_cp E hg _ _ (mod_NS_lt h)
  | asg h g => exact step_asg E hg _ _
  | drop h => exact step_drop E hg _ (mod_NS_lt h)
  | app h v => exact step_app E hg _ v hgd
  | ins h k v => exact step_ins E hg _ k v hgd
  | appo h j => exact step_appo E hg _ j hgd
  | inso h k j => exact step_inso E hg _ k j hgd
  | insx h k g j => exact step_insx E hg _ k _ j hgd
  | rem h i c => exact step_rem E hg _ i c
  | remone h v j => exact step_remone E hg _ v j
  | reml h => exact step_reml E hg _
  | rsz h m v => exact step_rsz E hg _ m v hgd
  | res h m => exact step_res E hg _ m hgd
  | clr h => exact step_clr E hg _
  | sort h d =>
    refine step_sort E hg _ d (fun _ => qsortList_total _ ?_ _)
    cases d
    · exact hirr
    · exact fun x => hirr x
  | slice t h i j => exact step_slice E hg _ _ i j (mod_NS_lt t)
  | clone t h => exact step_clone E hg _ _ (mod_NS_lt t)
  | dup h => exact step_dup E hg _ (mod_NS_lt h)
  | concat t h g => exact step_concat E hg _ _ _ (mod_NS_lt t)
  | rev t h => exact step_rev E hg _ _ (mod_NS_lt t)
  | filt t h m r => exact step_filt E hg _ _ m r (mod_NS_lt t)
  | remif h m r => exact step_remif E hg _ m r
  | apnd h g => exact step_apnd E hg _ _ hgd
  | copy h g => exact step_copy E hg _ _ hgd
  | set h i v => exact step_set E hg _ i v
  | get h i => exact step_get E hg _ i
  | idx h v j => exact step_idx E hg _ v j
  | last h => exact step_last E hg _
  | eq h g => exact step_eq E hg _ _
  | pop h => exact step_pop E hg _
  | popn h k => exact step_popn E hg _ k
  | popget h => exact step_popget E hg _
  | top h i => exact step_top E hg _ i
  | qget h => exact step_qget E hg _
  | newp h xs => exact step_newp E hg _ xs (mod_NS_lt h)
  | copyp h xs => exact step_copyp E hg _ xs hgd
  | appp h xs => exact step_appp E hg _ xs hgd
  | sortby h a => exact step_sortby E hg _ a
  | iter h => exact step_iter E hg _
  | appown h j k => exact step_appown E hg _ j k hgd
  | copyown h j k => exact step_copyown E hg _ j k
  | remx h i c => exact step_remx E hg _ i c
  | slicee t h i => exact step_slicee E hg _ _ i (mod_NS_lt t)

theorem view_sim {st : St α} {sp : Sp α} (hg : Good st sp) (slot : Nat) : st.view slot = some (sp.view slot) := by
  obtain ⟨f, hf⟩ := hg.sim
  unfold Sp.view
  rw [hf.occ_eq slot]
  cases ho : st.occ slot
  · unfold St.view
    have : ¬ ∃ b, st.hs[slot]? = some (some b) := by rw [← occ_iff]; simp [ho]
    split
    · rename_i b hb; exact absurd ⟨b, hb⟩ this
    · simp
  · obtain ⟨b, r, k, hb, hbo, hrep, hrc, hel⟩ := read_sim hf ho
    obtain ⟨r', hr'⟩ := hf.hl slot b hb
    have : r' = r := by
      have := blockOf_eq hb hr'; rw [hbo] at this; injection this with this; injection this with _ h2; exact h2.symm
    subst this
    unfold St.view; rw [hb]; simp only []; rw [hr']; simp only []
    have hn : r'.n = (sp.get slot).length := hrep.1
    have hc : r'.cells = cellsOf (sp.get slot) k := hrep.2.1
    rw [hn, hc, readN_cellsOf, hrc]; simp

theorem viewsAux_sim {st : St α} {sp : Sp α} (hg : Good st sp) : ∀ k i, viewsAux st k i = some ((List.range' i k).map sp.view) := by
  intro k
  induction k with
  | zero => intro i; rfl
  | succ k ih => intro i; rw [viewsAux, view_sim hg i, Option.bind_some, ih (i + 1)]; simp [List.range'_succ]

theorem observe_sim {st : St α} {sp : Sp α} (hg : Good st sp) : st.observe = some sp.observe := by
  unfold St.observe Sp.observe
  rw [viewsAux_sim hg, List.range_eq_range']

theorem good_init : Good (St.init : St α) (Sp.init : Sp α) := by
  refine ⟨⟨id, ?_, ?_, ?_, ?_, rfl⟩, rfl, rfl⟩
  · rfl
  · intro b r h; simp [St.init] at h
  · intro b b' r r' h; simp [St.init] at h
  · intro slot b h
    simp only [St.init, List.getElem?_replicate] at h
    split at h <;> cases h

/-- the output of one step: the result of the call and what every user slot shows afterwards -/
abbrev Out (α : Type) := Res α × List (Option (List α × Nat))

/-- run a history on the model (unguarded `step`; slot numbers reduced mod `NS`); `none` = the model left live storage -/
def run [DecidableEq α] (E : Elem α) : St α → List (Op α) → Option (St α × List (Out α))
  | st, [] => some (st, [])
  | st, op :: ops =>
    (step E st (normOp op)).bind fun r => (r.1.observe).bind fun o =>
      (run E r.1 ops).map fun rest => (rest.1, (r.2, o) :: rest.2)

/-- the same history on the reference semantics -/
def specRun [DecidableEq α] (E : Elem α) : Sp α → List (Op α) → Sp α × List (Out α)
  | sp, [] => (sp, [])
  | sp, op :: ops =>
    let r := specStep E sp (normOp op)
    let rest := specRun E r.1 ops
    (rest.1, (r.2, r.1.observe) :: rest.2)

/-- the hypothesis of the refinement: along the model run no operation increases the capacity of a block whose
`rc > 1` (`guard`, the predicate the driver and the harness evaluate to skip exactly those operations) -/
def AllSafe [DecidableEq α] (E : Elem α) : St α → List (Op α) → Prop
  | _, [] => True
  | st, op :: ops =>
    guard E st (normOp op) = false ∧
      match step E st (normOp op) with
      | some r => AllSafe E r.1 ops
      | none => True

theorem run_sim [DecidableEq α] (E : Elem α) (hirr : ∀ x, E.lt x x = false) :
    ∀ (ops : List (Op α)) {st : St α} {sp : Sp α}, Good st sp → AllSafe E st ops →
    ∃ st', run E st ops = some (st', (specRun E sp ops).2) ∧ Good st' (specRun E sp ops).1 := by
  intro ops
  induction ops with
  | nil => intro st sp hg _; exact ⟨st, rfl, hg⟩
  | cons op ops ih =>
    intro st sp hg hsafe
    obtain ⟨hgd, hrest⟩ := hsafe
    obtain ⟨st1, h1, hg1⟩ := step_sim E hg op hirr hgd
    rw [h1] at hrest
    obtain ⟨st2, h2, hg2⟩ := ih hg1 hrest
    refine ⟨st2, ?_, hg2⟩
    rw [run, h1, Option.bind_some]
    simp only []
    rw [observe_sim hg1, Option.bind_some, h2]
    rfl



/-! ### what the driver runs: guarded steps -/

/-- the driver's loop: `stepG` (an operation that would grow a shared block is skipped) and the observation -/
def runG [DecidableEq α] (E : Elem α) : St α → List (Op α) → Option (St α × List (Out α))
  | st, [] => some (st, [])
  | st, op :: ops =>
    (stepG E st op).bind fun r => (r.1.observe).bind fun o =>
      (runG E r.1 ops).map fun rest => (rest.1, (r.2, o) :: rest.2)

/-- the model state after one driver step (unchanged when the step is skipped or faults) -/
def nextG [DecidableEq α] (E : Elem α) (st : St α) (op : Op α) : St α :=
  match stepG E st op with
  | some r => r.1
  | none => st

/-- the same history on the reference semantics, leaving out exactly the operations the driver leaves out: the
reference semantics has no capacity, so *which* operations fall under the exclusion is read from the model state
(`guard`); an excluded operation changes nothing and answers `skip` -/
def specRunG [DecidableEq α] (E : Elem α) : St α → Sp α → List (Op α) → Sp α × List (Out α)
  | _, sp, [] => (sp, [])
  | st, sp, op :: ops =>
    let r := if guard E st (normOp op) = true then (sp, Res.skip) else specStep E sp (normOp op)
    let rest := specRunG E (nextG E st op) r.1 ops
    (rest.1, (r.2, r.1.observe) :: rest.2)

/-- one driver step is one (possibly empty) step of the reference semantics -/
theorem stepG_sim [DecidableEq α] (E : Elem α) (hirr : ∀ x, E.lt x x = false) {st : St α} {sp : Sp α} (hg : Good st sp)
    (op : Op α) :
    ∃ st', stepG E st op = some (st', (if guard E st (normOp op) = true then (sp, Res.skip) else specStep E sp (normOp op)).2) ∧
      Good st' (if guard E st (normOp op) = true then (sp, Res.skip) else specStep E sp (normOp op)).1 := by
  unfold stepG
  simp only []
  cases hgd : guard E st (normOp op)
  · simp only [Bool.false_eq_true, if_false]
    exact step_sim E hg op hirr hgd
  · simp only [if_true]
    exact ⟨st, rfl, hg⟩

/-- **every history the check runs**: no hypothesis on the history -/
theorem runG_sim [DecidableEq α] (E : Elem α) (hirr : ∀ x, E.lt x x = false) :
    ∀ (ops : List (Op α)) {st : St α} {sp : Sp α}, Good st sp →
    ∃ st', runG E st ops = some (st', (specRunG E st sp ops).2) ∧ Good st' (specRunG E st sp ops).1 := by
  intro ops
  induction ops with
  | nil => intro st sp hg; exact ⟨st, rfl, hg⟩
  | cons op ops ih =>
    intro st sp hg
    obtain ⟨st1, h1, hg1⟩ := stepG_sim E hirr hg op
    have hn : nextG E st op = st1 := by unfold nextG; rw [h1]
    obtain ⟨st2, h2, hg2⟩ := ih hg1
    refine ⟨st2, ?_, ?_⟩
    · rw [runG, h1, Option.bind_some]
      simp only []
      rw [observe_sim hg1, Option.bind_some, h2]
      simp only [specRunG, hn]
      rfl
    · simp only [specRunG, hn]; exact hg2

end AslProofs.Arr
