import AslProofs.Array
import AslProofs.ArraySpec
/-! # C01: the heap-level model simulates the reference semantics (helper lemmas) -/
namespace AslProofs.Arr
open AslModel.Arr AslProofs.ArrSpec

variable {α : Type}

/-- total number of elements in the live blocks -/
def sumN : List (Option (Raw α)) → Int
  | [] => 0
  | none :: t => sumN t
  | some r :: t => r.n + sumN t

def nOf : Option (Raw α) → Int
  | none => 0
  | some r => r.n

theorem sumN_append_one (bs : List (Option (Raw α))) (x : Option (Raw α)) : sumN (bs ++ [x]) = sumN bs + nOf x := by
  induction bs with
  | nil => cases x <;> simp [sumN, nOf]
  | cons a t ih => cases a <;> simp [sumN, ih] <;> omega

theorem sumN_set (bs : List (Option (Raw α))) (b : Nat) (old new : Option (Raw α)) (h : bs[b]? = some old) :
    sumN (bs.set b new) = sumN bs - nOf old + nOf new := by
  induction bs generalizing b with
  | nil => simp at h
  | cons a t ih =>
    cases b with
    | zero =>
      simp at h; subst h
      cases a <;> cases new <;> simp [sumN, nOf] <;> omega
    | succ b =>
      simp at h
      cases a <;> simp [sumN, ih b h] <;> omega

theorem count_set_slot (hs : List (Option Nat)) (slot : Nat) (old new v : Option Nat) (h : hs[slot]? = some old) :
    (hs.set slot new).count v + (if old = v then 1 else 0) = hs.count v + (if new = v then 1 else 0) := by
  induction hs generalizing slot with
  | nil => simp at h
  | cons a t ih =>
    cases slot with
    | zero =>
      simp at h; subst h
      simp [List.count_cons]; omega
    | succ s =>
      simp at h
      have := ih s h
      simp [List.count_cons]; omega

/-- the simulation relation; `f` maps live block ids to cells of the reference semantics -/
structure Sim (st : St α) (sp : Sp α) (f : Nat → Nat) : Prop where
  hs_map : sp.hs = st.hs.map (Option.map f)
  blk : ∀ (b : Nat) (r : Raw α), st.blocks[b]? = some (some r) → ∃ l k, r.n = l.length ∧ r.cells = cellsOf l k ∧ 0 < l.length + k ∧
    sp.cells[f b]? = some l ∧ r.rc = st.hs.count (some b) ∧ 0 < r.rc
  inj : ∀ (b b' : Nat) (r r' : Raw α), st.blocks[b]? = some (some r) → st.blocks[b']? = some (some r') → f b = f b' → b = b'
  hl : ∀ (slot b : Nat), st.hs[slot]? = some (some b) → ∃ r, st.blocks[b]? = some (some r)
  sum : st.live = sumN st.blocks

theorem occ_iff (st : St α) (h : Nat) : st.occ h = true ↔ ∃ b, st.hs[h]? = some (some b) := by
  unfold St.occ
  split
  · rename_i b hb; simp [hb]
  · rename_i hx
    simp only [Bool.false_eq_true, false_iff]
    intro ⟨b, hb⟩; exact hx b hb

theorem sp_occ_iff (sp : Sp α) (h : Nat) : sp.occ h = true ↔ ∃ c, sp.hs[h]? = some (some c) := by
  unfold Sp.occ
  split
  · rename_i b hb; simp [hb]
  · rename_i hx
    simp only [Bool.false_eq_true, false_iff]
    intro ⟨b, hb⟩; exact hx b hb

theorem Sim.occ_eq {st : St α} {sp : Sp α} {f} (hs : Sim st sp f) (h : Nat) : sp.occ h = st.occ h := by
  have h1 := sp_occ_iff sp h
  have h2 := occ_iff st h
  have : (∃ c, sp.hs[h]? = some (some c)) ↔ (∃ b, st.hs[h]? = some (some b)) := by
    rw [hs.hs_map]; simp only [List.getElem?_map]
    constructor
    · intro ⟨c, hc⟩
      cases hx : st.hs[h]? with
      | none => rw [hx] at hc; simp at hc
      | some o => cases o with
        | none => rw [hx] at hc; simp at hc
        | some b => exact ⟨b, rfl⟩
    · intro ⟨b, hb⟩; exact ⟨f b, by rw [hb]; rfl⟩
  cases h3 : sp.occ h <;> cases h4 : st.occ h <;> simp_all

theorem Sim.sp_slot {st : St α} {sp : Sp α} {f} (hs : Sim st sp f) {h b : Nat} (hb : st.hs[h]? = some (some b)) :
    sp.hs[h]? = some (some (f b)) := by
  rw [hs.hs_map, List.getElem?_map, hb]; rfl

theorem blockOf_eq {st : St α} {h b : Nat} {r : Raw α} (hb : st.hs[h]? = some (some b)) (hr : st.blocks[b]? = some (some r)) :
    st.blockOf h = some (b, r) := by
  unfold St.blockOf; rw [hb]; simp only []; rw [hr]



theorem lt_of_getElem?_some {β : Type} {l : List β} {i : Nat} {v : β} (h : l[i]? = some v) : i < l.length := by
  rcases Nat.lt_or_ge i l.length with h1 | h1
  · exact h1
  · rw [List.getElem?_eq_none h1] at h; cases h

theorem getElem?_set_some_some {β : Type} (bs : List (Option β)) (b x : Nat) (v : Option β) (r : β)
    (h : (bs.set b v)[x]? = some (some r)) : (x = b ∧ v = some r) ∨ (x ≠ b ∧ bs[x]? = some (some r)) := by
  rw [List.getElem?_set] at h
  by_cases hx : b = x
  · subst hx
    simp only [if_true] at h
    split at h
    · left; exact ⟨rfl, by simpa using h⟩
    · cases h
  · simp only [if_neg hx] at h
    right; exact ⟨fun e => hx e.symm, h⟩

theorem sMut_eq {sp : Sp α} {h c : Nat} (F : List α → List α) (hc : sp.hs[h]? = some (some c)) :
    sMut sp h F = { sp with cells := sp.cells.set c (F (sp.cells.getD c [])) } := by
  unfold sMut; rw [hc]

/-- `op` implements `F` on the blocks that hold exactly `l` -/
def RefinesAt (op : BS α → Option (BS α)) (F : List α → List α) (l : List α) : Prop :=
  ∀ s k, Rep s l k → ∃ s' k', op s = some s' ∧ Rep s' (F l) k' ∧ s'.rc = s.rc ∧
    s'.live = s.live + (F l).length - l.length

theorem Refines.at {op : BS α → Option (BS α)} {F : List α → List α} (h : Refines op F) (l : List α) : RefinesAt op F l :=
  fun s k hr => h s l k hr

theorem sp_get_eq {sp : Sp α} {h c : Nat} (hc : sp.hs[h]? = some (some c)) : sp.get h = sp.cells.getD c [] := by
  unfold Sp.get; rw [hc]

/-- a member function that implements `F` on blocks, run through handle `h` without growing a shared block,
is simulated by applying `F` to the cell of `h` -/
theorem pMut_sim {st : St α} {sp : Sp α} {f : Nat → Nat} (hsim : Sim st sp f) {h : Nat} (hocc : st.occ h = true)
    {op : BS α → Option (BS α)} {F : List α → List α} (href : RefinesAt op F (sp.get h)) (hg : pGuard st h op = false) :
    ∃ st' f', pMut st h op = some st' ∧ Sim st' (sMut sp h F) f' ∧
      st'.hs.map Option.isSome = st.hs.map Option.isSome := by
  obtain ⟨b, hb⟩ := (occ_iff st h).mp hocc
  obtain ⟨r, hr⟩ := hsim.hl h b hb
  obtain ⟨l, k, hn, hcells, hpos, hcell, hrc, hrcpos⟩ := hsim.blk b r hr
  have hrep : Rep (r.toBS st.live) l k := ⟨hn, hcells, hpos⟩
  have hspslot0 := hsim.sp_slot hb
  have hgetl : sp.get h = l := by rw [sp_get_eq hspslot0, List.getD_eq_getElem?_getD, hcell]; rfl
  rw [hgetl] at href
  obtain ⟨s', k', hop, hrep', hrc', hlive'⟩ := href _ k hrep
  have hbo := blockOf_eq hb hr
  have hpm : pMut st h op = some (if s'.moved then
      { blocks := st.blocks.set b none ++ [some s'.toRaw], live := s'.live, hs := st.hs.set h (some st.blocks.length) }
    else { st with blocks := st.blocks.set b (some s'.toRaw), live := s'.live }) := by
    unfold pMut; rw [hbo, Option.bind_some]; simp only []; rw [hop]; rfl
  have hgd : s'.moved = false ∨ r.rc = 1 := by
    unfold pGuard at hg; rw [hbo] at hg; simp only [] at hg; rw [hop] at hg; simp only [] at hg
    cases hm : s'.moved
    · left; rfl
    · right; rw [hm] at hg; simp at hg; omega
  have hspslot := hsim.sp_slot hb
  have hfb : f b < sp.cells.length := by
    rcases Nat.lt_or_ge (f b) sp.cells.length with h1 | h1
    · exact h1
    · rw [List.getElem?_eq_none h1] at hcell; cases hcell
  have hgetD : sp.cells.getD (f b) [] = l := by rw [List.getD_eq_getElem?_getD, hcell]; rfl
  have hblt : b < st.blocks.length := by
    rcases Nat.lt_or_ge b st.blocks.length with h1 | h1
    · exact h1
    · rw [List.getElem?_eq_none h1] at hr; cases hr
  rw [hpm, sMut_eq F hspslot, hgetD]
  have hsum' : s'.live = sumN st.blocks - r.n + s'.n := by
    rw [hlive', hrep'.1, ← hsim.sum]; simp [Raw.toBS, hn]; omega
  by_cases hm : s'.moved = true
  · -- relocated: fresh id, only this handle follows
    have hrc1 : r.rc = 1 := by
      rcases hgd with h1 | h1
      · rw [h1] at hm; cases hm
      · exact h1
    rw [if_pos hm]
    let nb := st.blocks.length
    have hnolds : ∀ (slot x : Nat), st.hs[slot]? = some (some x) → x < nb := by
      intro slot x hx
      obtain ⟨rx, hrx⟩ := hsim.hl slot x hx
      rcases Nat.lt_or_ge x st.blocks.length with h1 | h1
      · exact h1
      · rw [List.getElem?_eq_none h1] at hrx; cases hrx
    have hothers : ∀ (slot : Nat), slot ≠ h → st.hs[slot]? ≠ some (some b) := by
      intro slot hne hx
      -- two different slots holding b would give count ≥ 2
      have hc1 := count_set_slot st.hs h (some b) none (some b) hb
      have hx' : (st.hs.set h none)[slot]? = some (some b) := by rw [List.getElem?_set_ne (fun e => hne e.symm)]; exact hx
      have hc2 := count_set_slot (st.hs.set h none) slot (some b) none (some b) hx'
      simp at hc1 hc2
      omega
    refine ⟨_, fun x => if x = nb then f b else f x, rfl, ⟨?_, ?_, ?_, ?_, ?_⟩, ?_⟩
    rotate_left 5
    · show (st.hs.set h (some nb)).map Option.isSome = st.hs.map Option.isSome
      rw [List.map_set]
      apply List.ext_getElem?
      intro i
      rw [List.getElem?_set]
      by_cases hi : h = i
      · subst hi
        have hlt := lt_of_getElem?_some hb
        have hge : st.hs[h] = some b := by
          have := List.getElem?_eq_getElem hlt
          rw [hb] at this; injection this with this; exact this.symm
        simp [hlt, hge]
      · simp [hi]
    · -- hs_map
      show sp.hs = (st.hs.set h (some nb)).map (Option.map fun x => if x = nb then f b else f x)
      apply List.ext_getElem?
      intro i
      rw [List.getElem?_map, List.getElem?_set]
      by_cases hi : h = i
      · subst hi
        have hlt : h < st.hs.length := by
          rcases Nat.lt_or_ge h st.hs.length with h1 | h1
          · exact h1
          · rw [List.getElem?_eq_none h1] at hb; cases hb
        simp [hlt, hspslot]
      · simp only [if_neg hi]
        rw [hsim.hs_map, List.getElem?_map]
        cases hx : st.hs[i]? with
        | none => rfl
        | some o => cases o with
          | none => rfl
          | some x =>
            have := hnolds i x hx
            simp [show x ≠ nb by omega]
    · -- blk
      intro x rx hx
      change (st.blocks.set b none ++ [some s'.toRaw])[x]? = some (some rx) at hx
      by_cases hxn : x = nb
      · subst hxn
        have : (st.blocks.set b none ++ [some s'.toRaw])[nb]? = some (some s'.toRaw) := by
          rw [List.getElem?_append_right (by simp [nb])]; simp [nb]
        rw [this] at hx
        have hrx : rx = s'.toRaw := by injection hx with h1; injection h1 with h2; exact h2.symm
        subst hrx
        refine ⟨F l, k', hrep'.1, hrep'.2.1, hrep'.2.2, ?_, ?_, ?_⟩
        · simp only [if_true]; rw [List.getElem?_set_self hfb]
        · show s'.rc = (st.hs.set h (some nb)).count (some nb)
          have hc1 := count_set_slot st.hs h (some b) (some nb) (some nb) hb
          have hzero : st.hs.count (some nb) = 0 := by
            rw [List.count_eq_zero]
            intro hmem
            obtain ⟨i, hi, hget⟩ := List.getElem_of_mem hmem
            have := hnolds i nb (by rw [List.getElem?_eq_getElem hi, hget])
            omega
          have hbn : b ≠ nb := by omega
          simp [hbn] at hc1
          rw [hrc', hc1, hzero]; exact hrc1
        · show 0 < s'.rc; rw [hrc']; show 0 < r.rc; omega
      · have hxlt : x < (st.blocks.set b none).length := by
          rcases Nat.lt_or_ge x (st.blocks.set b none ++ [some s'.toRaw]).length with h1 | h1
          · simp at h1; simp; omega
          · rw [List.getElem?_eq_none h1] at hx; cases hx
        rw [List.getElem?_append_left hxlt] at hx
        rcases getElem?_set_some_some _ _ _ _ _ hx with ⟨_, h2⟩ | ⟨hxb, hx0⟩
        · cases h2
        · obtain ⟨lx, kx, h1, h2, h3, h4, h5, h6⟩ := hsim.blk x rx hx0
          refine ⟨lx, kx, h1, h2, h3, ?_, ?_, h6⟩
          · simp only [if_neg hxn]
            have hne : f x ≠ f b := fun e => hxb (hsim.inj x b rx r hx0 hr e)
            rw [List.getElem?_set_ne (fun e => hne e.symm)]; exact h4
          · show rx.rc = (st.hs.set h (some nb)).count (some x)
            have hc1 := count_set_slot st.hs h (some b) (some nb) (some x) hb
            have e1 : (some b : Option Nat) ≠ some x := by intro e; injection e with e; exact hxb e.symm
            have e2 : (some nb : Option Nat) ≠ some x := by intro e; injection e with e; exact hxn e.symm
            simp [e1, e2] at hc1
            rw [hc1]; exact h5
    · -- inj
      intro x y rx ry hx hy hxy
      change (st.blocks.set b none ++ [some s'.toRaw])[x]? = some (some rx) at hx
      change (st.blocks.set b none ++ [some s'.toRaw])[y]? = some (some ry) at hy
      have old : ∀ (z : Nat) (rz : Raw α), (st.blocks.set b none ++ [some s'.toRaw])[z]? = some (some rz) → z ≠ nb →
          z ≠ b ∧ st.blocks[z]? = some (some rz) := by
        intro z rz hz hzn
        have hzlt : z < (st.blocks.set b none).length := by
          rcases Nat.lt_or_ge z (st.blocks.set b none ++ [some s'.toRaw]).length with h1 | h1
          · simp at h1; simp; omega
          · rw [List.getElem?_eq_none h1] at hz; cases hz
        rw [List.getElem?_append_left hzlt] at hz
        rcases getElem?_set_some_some _ _ _ _ _ hz with ⟨_, h2⟩ | ⟨hzb, hz0⟩
        · cases h2
        · exact ⟨hzb, hz0⟩
      by_cases hxn : x = nb <;> by_cases hyn : y = nb
      · rw [hxn, hyn]
      · obtain ⟨hyb, hy0⟩ := old y ry hy hyn
        simp only [hxn, if_true, if_neg hyn] at hxy
        exact absurd (hsim.inj b y r ry hr hy0 hxy) (fun e => hyb e.symm)
      · obtain ⟨hxb, hx0⟩ := old x rx hx hxn
        simp only [hyn, if_true, if_neg hxn] at hxy
        exact absurd (hsim.inj x b rx r hx0 hr hxy) hxb
      · obtain ⟨_, hx0⟩ := old x rx hx hxn
        obtain ⟨_, hy0⟩ := old y ry hy hyn
        simp only [if_neg hxn, if_neg hyn] at hxy
        exact hsim.inj x y rx ry hx0 hy0 hxy
    · -- hl
      intro slot x hx
      change (st.hs.set h (some nb))[slot]? = some (some x) at hx
      show ∃ rr, (st.blocks.set b none ++ [some s'.toRaw])[x]? = some (some rr)
      rw [List.getElem?_set] at hx
      by_cases hs : h = slot
      · simp only [if_pos hs] at hx
        split at hx
        · injection hx with h1; injection h1 with h2; subst h2
          exact ⟨s'.toRaw, by rw [List.getElem?_append_right (by simp [nb])]; simp [nb]⟩
        · cases hx
      · simp only [if_neg hs] at hx
        obtain ⟨rx, hrx⟩ := hsim.hl slot x hx
        have hxb : x ≠ b := fun e => hothers slot (fun e' => hs e'.symm) (by rw [← e]; exact hx)
        have hxlt := hnolds slot x hx
        refine ⟨rx, ?_⟩
        rw [List.getElem?_append_left (by simp; exact hxlt), List.getElem?_set_ne (fun e => hxb e.symm)]; exact hrx
    · -- sum
      show s'.live = sumN (st.blocks.set b none ++ [some s'.toRaw])
      rw [sumN_append_one, sumN_set _ b (some r) none hr, hsum']; simp [nOf, BS.toRaw]
  · -- in place
    have hm' : s'.moved = false := by
      cases h1 : s'.moved
      · rfl
      · exact absurd h1 hm
    rw [if_neg hm]
    refine ⟨_, f, rfl, ⟨?_, ?_, ?_, ?_, ?_⟩, rfl⟩
    · exact hsim.hs_map
    · intro x rx hx
      change (st.blocks.set b (some s'.toRaw))[x]? = some (some rx) at hx
      rcases getElem?_set_some_some _ _ _ _ _ hx with ⟨hxb, h2⟩ | ⟨hxb, hx0⟩
      · injection h2 with h2; subst h2; subst hxb
        refine ⟨F l, k', hrep'.1, hrep'.2.1, hrep'.2.2, ?_, ?_, ?_⟩
        · show (sp.cells.set (f x) (F l))[f x]? = some (F l)
          rw [List.getElem?_set_self hfb]
        · show s'.rc = st.hs.count (some x); rw [hrc']; exact hrc
        · show 0 < s'.rc; rw [hrc']; exact hrcpos
      · obtain ⟨lx, kx, h1, h2, h3, h4, h5, h6⟩ := hsim.blk x rx hx0
        refine ⟨lx, kx, h1, h2, h3, ?_, h5, h6⟩
        have hne : f x ≠ f b := fun e => hxb (hsim.inj x b rx r hx0 hr e)
        show (sp.cells.set (f b) (F l))[f x]? = some lx
        rw [List.getElem?_set_ne (fun e => hne e.symm)]; exact h4
    · intro x y rx ry hx hy hxy
      change (st.blocks.set b (some s'.toRaw))[x]? = some (some rx) at hx
      change (st.blocks.set b (some s'.toRaw))[y]? = some (some ry) at hy
      have old : ∀ (z : Nat) (rz : Raw α), (st.blocks.set b (some s'.toRaw))[z]? = some (some rz) → ∃ rz', st.blocks[z]? = some (some rz') := by
        intro z rz hz
        rcases getElem?_set_some_some _ _ _ _ _ hz with ⟨hzb, _⟩ | ⟨_, hz0⟩
        · exact ⟨r, by rw [hzb]; exact hr⟩
        · exact ⟨rz, hz0⟩
      obtain ⟨rx', hx'⟩ := old x rx hx
      obtain ⟨ry', hy'⟩ := old y ry hy
      exact hsim.inj x y rx' ry' hx' hy' hxy
    · intro slot x hx
      obtain ⟨rx, hrx⟩ := hsim.hl slot x hx
      show ∃ rr, (st.blocks.set b (some s'.toRaw))[x]? = some (some rr)
      by_cases hxb : x = b
      · exact ⟨s'.toRaw, by rw [hxb, List.getElem?_set_self hblt]⟩
      · exact ⟨rx, by rw [List.getElem?_set_ne (fun e => hxb e.symm)]; exact hrx⟩
    · show s'.live = sumN (st.blocks.set b (some s'.toRaw))
      rw [sumN_set _ b (some r) _ hr, hsum']; simp [nOf, BS.toRaw]



theorem Sim.held_lt {st : St α} {sp : Sp α} {f} (hsim : Sim st sp f) {slot x : Nat} (hx : st.hs[slot]? = some (some x)) :
    x < st.blocks.length := by
  obtain ⟨rx, hrx⟩ := hsim.hl slot x hx
  exact lt_of_getElem?_some hrx

theorem Sim.count_fresh {st : St α} {sp : Sp α} {f} (hsim : Sim st sp f) : st.hs.count (some st.blocks.length) = 0 := by
  rw [List.count_eq_zero]
  intro hmem
  obtain ⟨i, hi, hget⟩ := List.getElem_of_mem hmem
  have := hsim.held_lt (slot := i) (x := st.blocks.length) (by rw [List.getElem?_eq_getElem hi, hget])
  omega

/-- `Array()` / `Array(n)` + constructor body into an empty slot ↔ a new cell -/
theorem pNew_sim (E : Elem α) {st : St α} {sp : Sp α} {f : Nat → Nat} (hsim : Sim st sp f) {slot m : Nat}
    {init : BS α → Option (BS α)} {l : List α} (hslot : st.hs[slot]? = some none)
    (hinit : ∀ s k, Rep s (List.replicate m E.dflt) k → ∃ s' k', init s = some s' ∧ Rep s' l k' ∧ s'.rc = s.rc ∧
      s'.live = s.live + l.length - m) :
    ∃ st' f', pNew E st slot m init = some st' ∧ Sim st' (sNew sp slot l) f' ∧
      st'.hs.map Option.isSome = (st.hs.map Option.isSome).set slot true := by
  obtain ⟨s0, hs0, hrep0, hrc0, hlive0⟩ := alloc_spec E st.live m
  obtain ⟨s', k', hs', hrep', hrc', hlive'⟩ := hinit s0 _ hrep0
  let nb := st.blocks.length
  have hpn : pNew E st slot m init = some
      { blocks := st.blocks ++ [some s'.toRaw], live := s'.live, hs := st.hs.set slot (some nb) } := by
    unfold pNew; rw [hs0, Option.bind_some, hs']; rfl
  have hslt := lt_of_getElem?_some hslot
  refine ⟨_, fun x => if x = nb then sp.cells.length else f x, hpn, ⟨?_, ?_, ?_, ?_, ?_⟩, by simp [List.map_set]⟩
  · show sp.hs.set slot (some sp.cells.length) = (st.hs.set slot (some nb)).map (Option.map fun x => if x = nb then sp.cells.length else f x)
    apply List.ext_getElem?
    intro i
    rw [List.getElem?_map, List.getElem?_set, List.getElem?_set, hsim.hs_map, List.length_map]
    by_cases hi : slot = i
    · subst hi; simp [hslt]
    · simp only [if_neg hi, List.getElem?_map]
      cases hx : st.hs[i]? with
      | none => rfl
      | some o => cases o with
        | none => rfl
        | some x =>
          have := hsim.held_lt hx
          simp [show x ≠ nb by omega]
  · intro x rx hx
    change (st.blocks ++ [some s'.toRaw])[x]? = some (some rx) at hx
    by_cases hxn : x = nb
    · subst hxn
      have : (st.blocks ++ [some s'.toRaw])[nb]? = some (some s'.toRaw) := by
        rw [List.getElem?_append_right (by simp [nb])]; simp [nb]
      rw [this] at hx
      have hrx : rx = s'.toRaw := by injection hx with h1; injection h1 with h2; exact h2.symm
      subst hrx
      refine ⟨l, k', hrep'.1, hrep'.2.1, hrep'.2.2, ?_, ?_, ?_⟩
      · show (sp.cells ++ [l])[if nb = nb then sp.cells.length else f nb]? = some l
        simp
      · show s'.rc = (st.hs.set slot (some nb)).count (some nb)
        have hc1 := count_set_slot st.hs slot none (some nb) (some nb) hslot
        simp at hc1
        rw [hc1, hsim.count_fresh, hrc', hrc0]
      · show 0 < s'.rc; rw [hrc', hrc0]; omega
    · have hxlt : x < st.blocks.length := by
        have := lt_of_getElem?_some hx
        simp at this; omega
      rw [List.getElem?_append_left hxlt] at hx
      obtain ⟨lx, kx, h1, h2, h3, h4, h5, h6⟩ := hsim.blk x rx hx
      refine ⟨lx, kx, h1, h2, h3, ?_, ?_, h6⟩
      · show (sp.cells ++ [l])[if x = nb then sp.cells.length else f x]? = some lx
        rw [if_neg hxn, List.getElem?_append_left (lt_of_getElem?_some h4)]; exact h4
      · show rx.rc = (st.hs.set slot (some nb)).count (some x)
        have hc1 := count_set_slot st.hs slot none (some nb) (some x) hslot
        have e2 : (some nb : Option Nat) ≠ some x := by intro e; injection e with e; exact hxn e.symm
        simp [e2] at hc1
        rw [hc1]; exact h5
  · intro x y rx ry hx hy hxy
    change (st.blocks ++ [some s'.toRaw])[x]? = some (some rx) at hx
    change (st.blocks ++ [some s'.toRaw])[y]? = some (some ry) at hy
    have old : ∀ (z : Nat) (rz : Raw α), (st.blocks ++ [some s'.toRaw])[z]? = some (some rz) → z ≠ nb →
        st.blocks[z]? = some (some rz) ∧ f z < sp.cells.length := by
      intro z rz hz hzn
      have hzlt : z < st.blocks.length := by
        have := lt_of_getElem?_some hz
        simp at this; omega
      rw [List.getElem?_append_left hzlt] at hz
      obtain ⟨lz, kz, _, _, _, h4, _, _⟩ := hsim.blk z rz hz
      exact ⟨hz, lt_of_getElem?_some h4⟩
    by_cases hxn : x = nb <;> by_cases hyn : y = nb
    · rw [hxn, hyn]
    · obtain ⟨_, hlt⟩ := old y ry hy hyn
      simp only [hxn, if_true, if_neg hyn] at hxy; omega
    · obtain ⟨_, hlt⟩ := old x rx hx hxn
      simp only [hyn, if_true, if_neg hxn] at hxy; omega
    · obtain ⟨hx0, _⟩ := old x rx hx hxn
      obtain ⟨hy0, _⟩ := old y ry hy hyn
      simp only [if_neg hxn, if_neg hyn] at hxy
      exact hsim.inj x y rx ry hx0 hy0 hxy
  · intro sl x hx
    change (st.hs.set slot (some nb))[sl]? = some (some x) at hx
    show ∃ rr, (st.blocks ++ [some s'.toRaw])[x]? = some (some rr)
    by_cases hs : slot = sl
    · subst hs
      rw [List.getElem?_set_self hslt] at hx
      injection hx with h1; injection h1 with h2; subst h2
      exact ⟨s'.toRaw, by rw [List.getElem?_append_right (by simp [nb])]; simp [nb]⟩
    · rw [List.getElem?_set_ne hs] at hx
      obtain ⟨rx, hrx⟩ := hsim.hl sl x hx
      exact ⟨rx, by rw [List.getElem?_append_left (lt_of_getElem?_some hrx)]; exact hrx⟩
  · show s'.live = sumN (st.blocks ++ [some s'.toRaw])
    rw [sumN_append_one, hlive', hlive0, ← hsim.sum]; simp [nOf, BS.toRaw, hrep'.1]; omega



theorem getD_of_getElem? {β : Type} {l : List β} {i : Nat} {v d : β} (h : l[i]? = some v) : l.getD i d = v := by
  rw [List.getD_eq_getElem?_getD, h]; rfl

/-- copy constructor into an empty slot ↔ the slot refers to the same cell -/
theorem pShare_sim {st : St α} {sp : Sp α} {f : Nat → Nat} (hsim : Sim st sp f) {dst src b : Nat}
    (hdst : st.hs[dst]? = some none) (hsrc : st.hs[src]? = some (some b)) :
    ∃ st', pShare st dst src = some st' ∧ Sim st' (sShare sp dst src) f ∧ st'.hs = st.hs.set dst (some b) := by
  obtain ⟨r, hr⟩ := hsim.hl src b hsrc
  have hps : pShare st dst src = some
      { st with blocks := st.blocks.set b (some { r with rc := r.rc + 1 }), hs := st.hs.set dst (some b) } := by
    unfold pShare; rw [blockOf_eq hsrc hr]; rfl
  have hdlt := lt_of_getElem?_some hdst
  have hblt := lt_of_getElem?_some hr
  refine ⟨_, hps, ⟨?_, ?_, ?_, ?_, ?_⟩, rfl⟩
  · show sp.hs.set dst (sp.hs.getD src none) = (st.hs.set dst (some b)).map (Option.map f)
    rw [getD_of_getElem? (hsim.sp_slot hsrc), List.map_set, ← hsim.hs_map]; rfl
  · intro x rx hx
    change (st.blocks.set b (some { r with rc := r.rc + 1 }))[x]? = some (some rx) at hx
    rcases getElem?_set_some_some _ _ _ _ _ hx with ⟨hxb, h2⟩ | ⟨hxb, hx0⟩
    · injection h2 with h2; subst h2; subst hxb
      obtain ⟨lx, kx, h1, h2, h3, h4, h5, h6⟩ := hsim.blk x r hr
      refine ⟨lx, kx, h1, h2, h3, h4, ?_, by show 0 < r.rc + 1; omega⟩
      show r.rc + 1 = (st.hs.set dst (some x)).count (some x)
      have hc1 := count_set_slot st.hs dst none (some x) (some x) hdst
      simp at hc1; omega
    · obtain ⟨lx, kx, h1, h2, h3, h4, h5, h6⟩ := hsim.blk x rx hx0
      refine ⟨lx, kx, h1, h2, h3, h4, ?_, h6⟩
      show rx.rc = (st.hs.set dst (some b)).count (some x)
      have hc1 := count_set_slot st.hs dst none (some b) (some x) hdst
      have e2 : (some b : Option Nat) ≠ some x := by intro e; injection e with e; exact hxb e.symm
      simp [e2] at hc1; omega
  · intro x y rx ry hx hy hxy
    change (st.blocks.set b (some { r with rc := r.rc + 1 }))[x]? = some (some rx) at hx
    change (st.blocks.set b (some { r with rc := r.rc + 1 }))[y]? = some (some ry) at hy
    have old : ∀ (z : Nat) (rz : Raw α), (st.blocks.set b (some { r with rc := r.rc + 1 }))[z]? = some (some rz) →
        ∃ rz', st.blocks[z]? = some (some rz') := by
      intro z rz hz
      rcases getElem?_set_some_some _ _ _ _ _ hz with ⟨hzb, _⟩ | ⟨_, hz0⟩
      · exact ⟨r, by rw [hzb]; exact hr⟩
      · exact ⟨rz, hz0⟩
    obtain ⟨rx', hx'⟩ := old x rx hx
    obtain ⟨ry', hy'⟩ := old y ry hy
    exact hsim.inj x y rx' ry' hx' hy' hxy
  · intro sl x hx
    change (st.hs.set dst (some b))[sl]? = some (some x) at hx
    show ∃ rr, (st.blocks.set b (some { r with rc := r.rc + 1 }))[x]? = some (some rr)
    have hxl : ∃ rx, st.blocks[x]? = some (some rx) := by
      by_cases hs : dst = sl
      · subst hs
        rw [List.getElem?_set_self hdlt] at hx
        injection hx with h1; injection h1 with h2; subst h2
        exact ⟨r, hr⟩
      · rw [List.getElem?_set_ne hs] at hx; exact hsim.hl sl x hx
    obtain ⟨rx, hrx⟩ := hxl
    by_cases hxb : x = b
    · exact ⟨_, by rw [hxb, List.getElem?_set_self hblt]⟩
    · exact ⟨rx, by rw [List.getElem?_set_ne (fun e => hxb e.symm)]; exact hrx⟩
  · show st.live = sumN (st.blocks.set b (some { r with rc := r.rc + 1 }))
    rw [sumN_set _ b (some r) _ hr, hsim.sum]; simp [nOf]

/-- destructor ↔ the slot refers to nothing; the storage is released with the last handle -/
theorem pDrop_sim {st : St α} {sp : Sp α} {f : Nat → Nat} (hsim : Sim st sp f) {slot b : Nat}
    (hslot : st.hs[slot]? = some (some b)) :
    ∃ st', pDrop st slot = some st' ∧ Sim st' (sDrop sp slot) f ∧ st'.hs = st.hs.set slot none := by
  obtain ⟨r, hr⟩ := hsim.hl slot b hslot
  obtain ⟨l, k, hn, hcells, hpos, hcell, hrc, hrcpos⟩ := hsim.blk b r hr
  have hslt := lt_of_getElem?_some hslot
  have hblt := lt_of_getElem?_some hr
  have hmap : (sDrop sp slot).hs = (st.hs.set slot none).map (Option.map f) := by
    show sp.hs.set slot none = _
    rw [List.map_set, ← hsim.hs_map]; rfl
  have hcount : ∀ x : Nat, x ≠ b → (st.hs.set slot none).count (some x) = st.hs.count (some x) := by
    intro x hxb
    have hc1 := count_set_slot st.hs slot (some b) none (some x) hslot
    have e2 : (some b : Option Nat) ≠ some x := by intro e; injection e with e; exact hxb e.symm
    simp [e2] at hc1; omega
  have hcountb : (st.hs.set slot none).count (some b) + 1 = st.hs.count (some b) := by
    have hc1 := count_set_slot st.hs slot (some b) none (some b) hslot
    simp at hc1; omega
  by_cases h1 : r.rc = 1
  · -- last handle: destroy the elements, release the block
    have hc0 : (r.toBS st.live).cells = [] ++ l.map some ++ List.replicate k none := by simpa [Raw.toBS, cellsOf] using hcells
    have hd := destroyN_mid r.n (r.toBS st.live) [] _ l 0 hc0 hn.symm rfl
    have hpd : pDrop st slot = some { blocks := st.blocks.set b none, live := st.live - r.n, hs := st.hs.set slot none } := by
      unfold pDrop; rw [blockOf_eq hslot hr, Option.bind_some]; simp only []; rw [if_pos h1, hd]; rfl
    have hnone : ∀ (sl : Nat), (st.hs.set slot none)[sl]? ≠ some (some b) := by
      intro sl hx
      have hc2 := count_set_slot (st.hs.set slot none) sl (some b) none (some b) hx
      simp at hc2; omega
    refine ⟨_, hpd, ⟨hmap, ?_, ?_, ?_, ?_⟩, rfl⟩
    · intro x rx hx
      change (st.blocks.set b none)[x]? = some (some rx) at hx
      rcases getElem?_set_some_some _ _ _ _ _ hx with ⟨_, h2⟩ | ⟨hxb, hx0⟩
      · cases h2
      · obtain ⟨lx, kx, h1, h2, h3, h4, h5, h6⟩ := hsim.blk x rx hx0
        exact ⟨lx, kx, h1, h2, h3, h4, by show rx.rc = (st.hs.set slot none).count (some x); rw [hcount x hxb]; exact h5, h6⟩
    · intro x y rx ry hx hy hxy
      change (st.blocks.set b none)[x]? = some (some rx) at hx
      change (st.blocks.set b none)[y]? = some (some ry) at hy
      rcases getElem?_set_some_some _ _ _ _ _ hx with ⟨_, h2⟩ | ⟨_, hx0⟩
      · cases h2
      rcases getElem?_set_some_some _ _ _ _ _ hy with ⟨_, h2⟩ | ⟨_, hy0⟩
      · cases h2
      exact hsim.inj x y rx ry hx0 hy0 hxy
    · intro sl x hx
      change (st.hs.set slot none)[sl]? = some (some x) at hx
      show ∃ rr, (st.blocks.set b none)[x]? = some (some rr)
      have hxb : x ≠ b := fun e => hnone sl (by rw [← e]; exact hx)
      have hx0 : st.hs[sl]? = some (some x) := by
        by_cases hs : slot = sl
        · subst hs; rw [List.getElem?_set_self hslt] at hx; cases hx
        · rw [List.getElem?_set_ne hs] at hx; exact hx
      obtain ⟨rx, hrx⟩ := hsim.hl sl x hx0
      exact ⟨rx, by rw [List.getElem?_set_ne (fun e => hxb e.symm)]; exact hrx⟩
    · show st.live - r.n = sumN (st.blocks.set b none)
      rw [sumN_set _ b (some r) none hr, hsim.sum]; simp [nOf]
  · have hpd : pDrop st slot = some
        { st with blocks := st.blocks.set b (some { r with rc := r.rc - 1 }), hs := st.hs.set slot none } := by
      unfold pDrop; rw [blockOf_eq hslot hr, Option.bind_some]; simp only []; rw [if_neg h1]
    refine ⟨_, hpd, ⟨hmap, ?_, ?_, ?_, ?_⟩, rfl⟩
    · intro x rx hx
      change (st.blocks.set b (some { r with rc := r.rc - 1 }))[x]? = some (some rx) at hx
      rcases getElem?_set_some_some _ _ _ _ _ hx with ⟨hxb, h2⟩ | ⟨hxb, hx0⟩
      · injection h2 with h2; subst h2; subst hxb
        refine ⟨l, k, hn, hcells, hpos, hcell, ?_, by show 0 < r.rc - 1; omega⟩
        show r.rc - 1 = (st.hs.set slot none).count (some x)
        omega
      · obtain ⟨lx, kx, h1, h2, h3, h4, h5, h6⟩ := hsim.blk x rx hx0
        exact ⟨lx, kx, h1, h2, h3, h4, by show rx.rc = (st.hs.set slot none).count (some x); rw [hcount x hxb]; exact h5, h6⟩
    · intro x y rx ry hx hy hxy
      change (st.blocks.set b (some { r with rc := r.rc - 1 }))[x]? = some (some rx) at hx
      change (st.blocks.set b (some { r with rc := r.rc - 1 }))[y]? = some (some ry) at hy
      have old : ∀ (z : Nat) (rz : Raw α), (st.blocks.set b (some { r with rc := r.rc - 1 }))[z]? = some (some rz) →
          ∃ rz', st.blocks[z]? = some (some rz') := by
        intro z rz hz
        rcases getElem?_set_some_some _ _ _ _ _ hz with ⟨hzb, _⟩ | ⟨_, hz0⟩
        · exact ⟨r, by rw [hzb]; exact hr⟩
        · exact ⟨rz, hz0⟩
      obtain ⟨rx', hx'⟩ := old x rx hx
      obtain ⟨ry', hy'⟩ := old y ry hy
      exact hsim.inj x y rx' ry' hx' hy' hxy
    · intro sl x hx
      change (st.hs.set slot none)[sl]? = some (some x) at hx
      show ∃ rr, (st.blocks.set b (some { r with rc := r.rc - 1 }))[x]? = some (some rr)
      have hx0 : st.hs[sl]? = some (some x) := by
        by_cases hs : slot = sl
        · subst hs; rw [List.getElem?_set_self hslt] at hx; cases hx
        · rw [List.getElem?_set_ne hs] at hx; exact hx
      obtain ⟨rx, hrx⟩ := hsim.hl sl x hx0
      by_cases hxb : x = b
      · exact ⟨_, by rw [hxb, List.getElem?_set_self hblt]⟩
      · exact ⟨rx, by rw [List.getElem?_set_ne (fun e => hxb e.symm)]; exact hrx⟩
    · show st.live = sumN (st.blocks.set b (some { r with rc := r.rc - 1 }))
      rw [sumN_set _ b (some r) _ hr, hsim.sum]; simp [nOf]

/-- the harness moves a pointer from one slot to an empty one -/
theorem pMove_sim {st : St α} {sp : Sp α} {f : Nat → Nat} (hsim : Sim st sp f) {dst src b : Nat}
    (hdst : st.hs[dst]? = some none) (hsrc : st.hs[src]? = some (some b)) :
    Sim (pMove st dst src) (sMove sp dst src) f := by
  have hne : dst ≠ src := by intro e; rw [e, hsrc] at hdst; cases hdst
  have hg1 : st.hs.getD src none = some b := getD_of_getElem? hsrc
  have hsrc' : (st.hs.set dst (some b))[src]? = some (some b) := by rw [List.getElem?_set_ne hne]; exact hsrc
  have hcount : ∀ v : Option Nat, ((st.hs.set dst (some b)).set src none).count v = st.hs.count v ∨ v = none := by
    intro v
    have hc1 := count_set_slot st.hs dst none (some b) v hdst
    have hc2 := count_set_slot (st.hs.set dst (some b)) src (some b) none v hsrc'
    cases v with
    | none => right; rfl
    | some x => left; simp at hc1 hc2; omega
  refine ⟨?_, ?_, hsim.inj, ?_, hsim.sum⟩
  · show (sp.hs.set dst (sp.hs.getD src none)).set src none = ((st.hs.set dst (st.hs.getD src none)).set src none).map (Option.map f)
    rw [getD_of_getElem? (hsim.sp_slot hsrc), hg1, List.map_set, List.map_set, ← hsim.hs_map]; rfl
  · intro x rx hx
    obtain ⟨lx, kx, h1, h2, h3, h4, h5, h6⟩ := hsim.blk x rx hx
    refine ⟨lx, kx, h1, h2, h3, h4, ?_, h6⟩
    show rx.rc = ((st.hs.set dst (st.hs.getD src none)).set src none).count (some x)
    rw [hg1]
    rcases hcount (some x) with h | h
    · rw [h]; exact h5
    · cases h
  · intro sl x hx
    change ((st.hs.set dst (st.hs.getD src none)).set src none)[sl]? = some (some x) at hx
    rw [hg1] at hx
    by_cases hs : src = sl
    · subst hs
      rw [List.getElem?_set_self (by simp; exact lt_of_getElem?_some hsrc)] at hx; cases hx
    · rw [List.getElem?_set_ne hs] at hx
      by_cases hd : dst = sl
      · subst hd
        rw [List.getElem?_set_self (lt_of_getElem?_some hdst)] at hx
        injection hx with h1; injection h1 with h2; subst h2
        exact hsim.hl src b hsrc
      · rw [List.getElem?_set_ne hd] at hx; exact hsim.hl sl x hx



/-! ### composite handle operations -/

def SimE (st : St α) (sp : Sp α) : Prop := ∃ f, Sim st sp f

/-- occupancy vector of the handle slots -/
def occv (st : St α) : List Bool := st.hs.map Option.isSome

theorem empty_iff (st : St α) (x : Nat) : st.hs[x]? = some none ↔ (occv st)[x]? = some false := by
  unfold occv; rw [List.getElem?_map]
  cases h : st.hs[x]? with
  | none => simp
  | some o => cases o <;> simp

theorem occ_iff_occv (st : St α) (x : Nat) : st.occ x = true ↔ (occv st)[x]? = some true := by
  rw [occ_iff]; unfold occv; rw [List.getElem?_map]
  cases h : st.hs[x]? with
  | none => simp
  | some o => cases o <;> simp

theorem occ_false_iff (st : St α) (x : Nat) (hx : x < st.hs.length) : st.occ x = false ↔ st.hs[x]? = some none := by
  have h1 := occ_iff_occv st x
  have h2 := empty_iff st x
  have hlt : x < (occv st).length := by simpa [occv] using hx
  have := List.getElem?_eq_getElem hlt
  cases hb : (occv st)[x] <;> cases ho : st.occ x <;> simp_all

theorem SimE.occ_eq {st : St α} {sp : Sp α} (hs : SimE st sp) (h : Nat) : sp.occ h = st.occ h := by
  obtain ⟨f, hf⟩ := hs; exact hf.occ_eq h

theorem map_isSome_set_same (hs : List (Option Nat)) (i : Nat) (v o : Option Nat) (h : hs[i]? = some o)
    (hv : v.isSome = o.isSome) : (hs.set i v).map Option.isSome = hs.map Option.isSome := by
  rw [List.map_set]
  apply List.ext_getElem?
  intro j
  rw [List.getElem?_set]
  by_cases hij : i = j
  · subst hij
    have hlt := lt_of_getElem?_some h
    simp only [if_true, List.length_map, hlt, List.getElem?_map, h, Option.map_some, hv]
  · simp only [if_neg hij]

theorem pAssign_sim {st : St α} {sp : Sp α} (hsim : SimE st sp) {dst src : Nat} (hd : st.occ dst = true) (hs : st.occ src = true) :
    ∃ st', pAssign st dst src = some st' ∧ SimE st' (sAssign sp dst src) ∧ occv st' = occv st := by
  unfold pAssign sAssign
  by_cases he : dst = src
  · rw [if_pos he, if_pos he]; exact ⟨st, rfl, hsim, rfl⟩
  · rw [if_neg he, if_neg he]
    obtain ⟨f, hf⟩ := hsim
    obtain ⟨bd, hbd⟩ := (occ_iff st dst).mp hd
    obtain ⟨bs, hbs⟩ := (occ_iff st src).mp hs
    obtain ⟨st1, h1, hsim1, hhs1⟩ := pDrop_sim hf hbd
    have hdlt := lt_of_getElem?_some hbd
    have hd1 : st1.hs[dst]? = some none := by rw [hhs1, List.getElem?_set_self hdlt]
    have hs1 : st1.hs[src]? = some (some bs) := by rw [hhs1, List.getElem?_set_ne he]; exact hbs
    obtain ⟨st2, h2, hsim2, hhs2⟩ := pShare_sim hsim1 hd1 hs1
    refine ⟨st2, by rw [h1, Option.bind_some, h2], ⟨f, hsim2⟩, ?_⟩
    unfold occv
    rw [hhs2, hhs1, List.set_set]
    exact map_isSome_set_same st.hs dst (some bs) (some bd) hbd rfl

theorem occv_get_set (v : List Bool) (i j : Nat) (b : Bool) (hi : i < v.length) :
    (v.set i b)[j]? = if i = j then some b else v[j]? := by
  rw [List.getElem?_set]; by_cases h : i = j <;> simp [h, hi]
  subst h; simp [hi]

/-- `if (!H[t]) H[t] = new C(); *H[t] = r;` and the temporary `r` (slot `T0`) dies -/
theorem storeT0_sim (E : Elem α) {st : St α} {sp : Sp α} (hsim : SimE st sp) {t : Nat} (ht : t < NS) (hlen : st.hs.length = 8)
    (hT0 : st.occ T0 = true) :
    ∃ st', storeT0 E st t = some st' ∧ SimE st' (sStoreT0 sp t) ∧ occv st' = ((occv st).set t true).set T0 false := by
  unfold storeT0 sStoreT0
  have hne : t ≠ T0 := by unfold NS at ht; unfold T0; omega
  have hocc_eq := hsim.occ_eq t
  have hvlen : (occv st).length = 8 := by simp [occv, hlen]
  -- step 1: make sure slot t holds an object
  have h1 : ∃ st1, (if st.occ t then some st else pNew E st t 0 some) = some st1 ∧
      SimE st1 (if sp.occ t then sp else sNew sp t []) ∧ occv st1 = (occv st).set t true := by
    rw [hocc_eq]
    cases ho : st.occ t
    · simp only [Bool.false_eq_true, if_false]
      obtain ⟨f, hf⟩ := hsim
      have hempty : st.hs[t]? = some none := (occ_false_iff st t (by unfold NS at ht; omega)).mp ho
      obtain ⟨st1, f1, hp, hs1, ho1⟩ := pNew_sim E hf (slot := t) (m := 0) (init := some) (l := []) hempty
        (by intro s k hr; exact ⟨s, k, rfl, by simpa using hr, rfl, by simp⟩)
      exact ⟨st1, hp, ⟨f1, hs1⟩, ho1⟩
    · simp only [if_true]
      refine ⟨st, rfl, hsim, ?_⟩
      have := (occ_iff_occv st t).mp ho
      apply List.ext_getElem?
      intro i
      rw [occv_get_set _ _ _ _ (by unfold NS at ht; omega)]
      by_cases hi : t = i
      · subst hi; simp [this]
      · simp [hi]
  obtain ⟨st1, hst1, hsim1, hov1⟩ := h1
  rw [hst1, Option.bind_some]
  have ht1 : st1.occ t = true := by
    rw [occ_iff_occv, hov1, occv_get_set _ _ _ _ (by unfold NS at ht; omega)]; simp
  have hT01 : st1.occ T0 = true := by
    rw [occ_iff_occv, hov1, occv_get_set _ _ _ _ (by unfold NS at ht; omega), if_neg hne]
    exact (occ_iff_occv st T0).mp hT0
  obtain ⟨st2, hst2, hsim2, hov2⟩ := pAssign_sim hsim1 ht1 hT01
  rw [hst2, Option.bind_some]
  obtain ⟨f2, hf2⟩ := hsim2
  have hT02 : st2.occ T0 = true := by rw [occ_iff_occv, hov2, ← occ_iff_occv]; exact hT01
  obtain ⟨b2, hb2⟩ := (occ_iff st2 T0).mp hT02
  obtain ⟨st3, hst3, hsim3, hhs3⟩ := pDrop_sim hf2 hb2
  refine ⟨st3, hst3, ⟨f2, hsim3⟩, ?_⟩
  show st3.hs.map Option.isSome = _
  rw [hhs3, List.map_set]
  show (occv st2).set T0 false = _
  rw [hov2, hov1]

/-- a new array holding `xs` is built in the temporary and stored into slot `t` -/
theorem produce_sim (E : Elem α) {st : St α} {sp : Sp α} (hsim : SimE st sp) {t : Nat} (ht : t < NS) (hlen : st.hs.length = 8)
    (hT0 : st.hs[T0]? = some none) (xs : List α) :
    ∃ st', produce E st t xs = some (st', Res.ok) ∧ SimE st' (sProduce sp t xs) ∧ occv st' = (occv st).set t true := by
  unfold produce sProduce okR
  obtain ⟨f, hf⟩ := hsim
  obtain ⟨st1, f1, hp, hs1, ho1⟩ := pNew_sim E hf (slot := T0) (m := xs.length) (init := fun s => assignFrom xs s 0) (l := xs) hT0
    (by
      intro s k hr
      have hr' : Rep s ([] ++ List.replicate xs.length E.dflt ++ []) k := by simpa using hr
      obtain ⟨s', h1, h2, h3, h4, _⟩ := assignFrom_rep xs [] _ [] s k 0 hr' (by simp) rfl
      exact ⟨s', k, h1, by simpa using h2, h3, by rw [h4]; simp⟩)
  rw [hp, Option.bind_some]
  have hlen1 : st1.hs.length = 8 := by
    have : (occv st1).length = 8 := by rw [show occv st1 = _ from ho1]; simp [hlen]
    simpa [occv] using this
  have hT01 : st1.occ T0 = true := by
    rw [occ_iff_occv, show occv st1 = _ from ho1, occv_get_set _ _ _ _ (by simp [hlen, T0])]; simp
  obtain ⟨st2, hst2, hsim2, hov2⟩ := storeT0_sim E ⟨f1, hs1⟩ ht hlen1 hT01
  refine ⟨st2, by rw [hst2]; rfl, hsim2, ?_⟩
  rw [hov2, show occv st1 = _ from ho1]
  have hne : t ≠ T0 := by unfold NS at ht; unfold T0; omega
  have hvlen : (st.hs.map Option.isSome).length = 8 := by simp [hlen]
  have hT0f : (st.hs.map Option.isSome)[T0]? = some false := (empty_iff st T0).mp hT0
  show (((st.hs.map Option.isSome).set T0 true).set t true).set T0 false = (st.hs.map Option.isSome).set t true
  generalize st.hs.map Option.isSome = v at hvlen hT0f
  have h8 : T0 < 8 := by unfold T0; omega
  have ht8 : t < 8 := by unfold NS at ht; omega
  apply List.ext_getElem?
  intro i
  rw [occv_get_set _ _ _ _ (by simp [hvlen]; exact h8), occv_get_set _ _ _ _ (by simp [hvlen]; exact ht8),
    occv_get_set _ _ _ _ (by rw [hvlen]; exact h8), occv_get_set _ _ _ _ (by rw [hvlen]; exact ht8)]
  by_cases h1 : T0 = i <;> by_cases h2 : t = i
  · exact absurd (h2.trans h1.symm) hne
  · rw [if_pos h1, if_neg h2, ← h1, hT0f]
  · rw [if_neg h1, if_pos h2, if_pos h2]
  · rw [if_neg h1, if_neg h2, if_neg h1, if_neg h2]

end AslProofs.Arr
