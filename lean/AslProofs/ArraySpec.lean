import AslModel.Array
/-!
# Reference semantics for C01: handles ↦ shared sequences

Written from the abstract meaning of the API, not from the code: a *cell* is a `List α`; a handle slot refers
to a cell; copying a handle shares the cell, so a change made through one handle is seen through all handles
of the same cell; `clone`/`slice`/`concat`/`filter`/`reversed`/`dup` make a new cell.  There is no capacity,
no reference count and no storage in this semantics: `rc()` is the number of handles of the cell, the
number of live element objects is the total length of the reachable cells.  Cells are never removed
(an unreachable one is garbage of the specification, invisible to every observation).

The temporaries of one operation (`Array<T> r = a.clone(); *H[t] = r;`) are handles too (slots `T0`, `T1`),
empty again when the operation is over.
-/
namespace AslProofs.ArrSpec
open AslModel.Arr (Op Res Elem predOf NS T0 T1 indexOf qsortList)

structure Sp (α : Type) where
  cells : List (List α)
  hs : List (Option Nat)

variable {α : Type}

def Sp.init : Sp α := ⟨[], List.replicate 8 none⟩

def Sp.occ (sp : Sp α) (h : Nat) : Bool :=
  match sp.hs[h]? with
  | some (some _) => true
  | _ => false

/-- the sequence seen through a handle -/
def Sp.get (sp : Sp α) (h : Nat) : List α :=
  match sp.hs[h]? with
  | some (some c) => sp.cells.getD c []
  | _ => []

/-- number of handles that refer to the cell of `h` -/
def Sp.rc (sp : Sp α) (h : Nat) : Nat :=
  match sp.hs[h]? with
  | some (some c) => sp.hs.count (some c)
  | _ => 0

def sNew (sp : Sp α) (h : Nat) (l : List α) : Sp α := ⟨sp.cells ++ [l], sp.hs.set h (some sp.cells.length)⟩
def sShare (sp : Sp α) (dst src : Nat) : Sp α := { sp with hs := sp.hs.set dst (sp.hs.getD src none) }
def sDrop (sp : Sp α) (h : Nat) : Sp α := { sp with hs := sp.hs.set h none }
def sMove (sp : Sp α) (dst src : Nat) : Sp α := { sp with hs := (sp.hs.set dst (sp.hs.getD src none)).set src none }
/-- change the sequence of the cell of `h` (seen by every handle of that cell) -/
def sMut (sp : Sp α) (h : Nat) (F : List α → List α) : Sp α :=
  match sp.hs[h]? with
  | some (some c) => { sp with cells := sp.cells.set c (F (sp.cells.getD c [])) }
  | _ => sp
/-- `*H[dst] = *H[src]` -/
def sAssign (sp : Sp α) (dst src : Nat) : Sp α := if dst = src then sp else sShare (sDrop sp dst) dst src
/-- `if (!H[t]) H[t] = new C(); *H[t] = r;` with `r` the temporary in `T0`, which then dies -/
def sStoreT0 (sp : Sp α) (t : Nat) : Sp α :=
  sDrop (sAssign (if sp.occ t then sp else sNew sp t []) t T0) T0
/-- a new sequence `l` ends up in slot `t` -/
def sProduce (sp : Sp α) (t : Nat) (l : List α) : Sp α := sStoreT0 (sNew sp T0 l) t

/-- insert `v` before position `k` -/
def insAt (l : List α) (k : Nat) (v : α) : List α := l.take k ++ v :: l.drop k
/-- remove `c` elements from position `i` -/
def remAt (l : List α) (i c : Nat) : List α := l.take i ++ l.drop (i + c)
/-- `resize(m)` then fill the new tail with `v` -/
def resizeFill (l : List α) (m : Nat) (v : α) : List α := l.take m ++ List.replicate (m - l.length) v

def specStep [DecidableEq α] (E : Elem α) (sp : Sp α) (op : Op α) : Sp α × Res α :=
  match op with
  | .new h => (sNew (if sp.occ h then sDrop sp h else sp) h [], .ok)
  | .newn h n v => (sProduce (if sp.occ h then sDrop sp h else sp) h (List.replicate n v), .ok)
  | .cp h g =>
    if sp.occ g then
      let sp1 := sShare sp T0 g
      (sMove (if sp1.occ h then sDrop sp1 h else sp1) h T0, .ok)
    else (sp, .skip)
  | .asg h g => if sp.occ h && sp.occ g then (sAssign sp h g, .ok) else (sp, .skip)
  | .drop h => if sp.occ h then (sDrop sp h, .ok) else (sp, .skip)
  | .app h v => if sp.occ h then (sMut sp h fun l => l ++ [v], .ok) else (sp, .skip)
  | .ins h k v => if sp.occ h then (sMut sp h fun l => insAt l (k % (l.length + 1)) v, .ok) else (sp, .skip)
  | .appo h j =>
    if sp.occ h then (sMut sp h fun l => match l[j % l.length]? with | some x => l ++ [x] | none => l, .ok)
    else (sp, .skip)
  | .inso h k j =>
    if sp.occ h then
      (sMut sp h fun l => match l[j % l.length]? with | some x => insAt l (k % (l.length + 1)) x | none => l, .ok)
    else (sp, .skip)
  | .insx h k g j =>
    if sp.occ h && sp.occ g then
      match (sp.get g)[j % (sp.get g).length]? with
      | some x => (sMut sp h fun l => insAt l (k % (l.length + 1)) x, .ok)
      | none => (sp, .skip)
    else (sp, .skip)
  | .rem h i c =>
    if sp.occ h then
      (sMut sp h fun l => let i' := i % (l.length + 1); remAt l i' (c % (l.length - i' + 1)), .ok)
    else (sp, .skip)
  | .remone h v j =>
    if sp.occ h then
      let l := sp.get h
      let i := indexOf l v (j % (l.length + 1))
      if i < 0 then (sp, .flag false) else (sMut sp h fun l => remAt l i.toNat 1, .flag true)
    else (sp, .skip)
  | .reml h => if sp.occ h then (sMut sp h fun l => l.take (l.length - 1), .ok) else (sp, .skip)
  | .rsz h m v => if sp.occ h then (sMut sp h fun l => resizeFill l m v, .ok) else (sp, .skip)
  | .res h _ => if sp.occ h then (sMut sp h fun l => l, .ok) else (sp, .skip)   -- capacity is not part of the semantics
  | .clr h => if sp.occ h then (sMut sp h fun _ => [], .ok) else (sp, .skip)
  | .sort h desc =>
    -- the sorted sequence is *defined* here by the model's quicksort; that it is the sorted permutation is the
    -- separate statement `quicksort_sorted_perm` (see AslProps/C01.lean)
    if sp.occ h then
      (sMut sp h fun l => (qsortList (if desc then fun a b => E.lt b a else E.lt) l).getD l, .ok)
    else (sp, .skip)
  | .slice t h i j =>
    if sp.occ h then
      let l := sp.get h
      let i1 := i % (l.length + 1)
      let i2 := i1 + j % (l.length - i1 + 1)
      -- an explicit `i2 = 0` is the empty range (code after 4e6b3b8)
      (sProduce sp t ((l.drop i1).take (i2 - i1)), .ok)
    else (sp, .skip)
  | .slicee t h i =>
    if sp.occ h then (sProduce sp t ((sp.get h).drop (i % ((sp.get h).length + 1))), .ok) else (sp, .skip)
  | .clone t h => if sp.occ h then (sProduce sp t (sp.get h), .ok) else (sp, .skip)
  | .dup h =>
    if sp.occ h then
      if sp.rc h = 1 then (sp, .ok)
      else (sDrop (sAssign (sNew sp T0 (sp.get h)) h T0) T0, .ok)
    else (sp, .skip)
  | .concat t h g =>
    if sp.occ h && sp.occ g then
      let l2 := sp.get g
      (sStoreT0 (sMut (sNew sp T0 (sp.get h)) T0 fun l => l ++ l2) t, .ok)
    else (sp, .skip)
  | .rev t h => if sp.occ h then (sProduce sp t (sp.get h).reverse, .ok) else (sp, .skip)
  | .filt t h m r => if sp.occ h then (sProduce sp t ((sp.get h).filter (predOf E m r)), .ok) else (sp, .skip)
  | .remif h m r => if sp.occ h then (sMut sp h fun l => l.filter fun v => !predOf E m r v, .ok) else (sp, .skip)
  | .apnd h g =>
    if sp.occ h && sp.occ g then let l2 := sp.get g; (sMut sp h fun l => l ++ l2, .ok) else (sp, .skip)
  | .copy h g =>
    if sp.occ h && sp.occ g then let l2 := sp.get g; (sMut sp h fun _ => l2, .ok) else (sp, .skip)
  | .set h i v => if sp.occ h then (sMut sp h fun l => l.set (i % l.length) v, .ok) else (sp, .skip)
  | .get h i =>
    if sp.occ h then
      match (sp.get h)[i % (sp.get h).length]? with
      | some x => (sp, .val x)
      | none => (sp, .skip)
    else (sp, .skip)
  | .idx h v j =>
    if sp.occ h then
      let l := sp.get h
      (sp, .idx (indexOf l v (j % (l.length + 1))) (indexOf l v 0 ≥ 0))
    else (sp, .skip)
  | .last h =>
    if sp.occ h then
      match (sp.get h).getLast? with
      | some x => (sp, .val x)
      | none => (sp, .skip)
    else (sp, .skip)
  | .eq h g =>
    if sp.occ h && sp.occ g then (sp, .flag (decide (sp.get h = sp.get g))) else (sp, .skip)
  | .pop h =>
    if sp.occ h then
      if sp.get h = [] then (sp, .skip) else (sMut sp h fun l => l.take (l.length - 1), .ok)
    else (sp, .skip)
  | .popn h k => if sp.occ h then (sMut sp h fun l => l.take (l.length - k % (l.length + 1)), .ok) else (sp, .skip)
  | .popget h =>
    -- LIFO: the last element pushed
    if sp.occ h then
      match (sp.get h).getLast? with
      | some x => (sMut sp h fun l => l.take (l.length - 1), .val x)
      | none => (sp, .skip)
    else (sp, .skip)
  | .top h i =>
    if sp.occ h then
      let l := sp.get h
      if l = [] then (sp, .skip)
      else match l[l.length - 1 - i % l.length]? with
        | some x => (sp, .val x)
        | none => (sp, .skip)
    else (sp, .skip)
  | .qget h =>
    -- FIFO: the oldest element
    if sp.occ h then
      match sp.get h with
      | x :: _ => (sMut sp h fun l => l.drop 1, .val x)
      | [] => (sp, .skip)
    else (sp, .skip)
  | .newp h xs => (sProduce (if sp.occ h then sDrop sp h else sp) h xs, .ok)
  | .copyp h xs => if sp.occ h then (sMut sp h fun _ => xs, .ok) else (sp, .skip)
  | .appp h xs => if sp.occ h then (sMut sp h fun l => l ++ xs, .ok) else (sp, .skip)
  | .sortby h asc =>
    if sp.occ h then
      (sMut sp h fun l => (qsortList (if asc then fun a b => decide (E.key a < E.key b)
        else fun a b => decide (E.key b < E.key a)) l).getD l, .ok)
    else (sp, .skip)
  | .iter h => if sp.occ h then (sp, .ok) else (sp, .skip)
  | .appown h j k =>
    if sp.occ h then
      (sMut sp h fun l => let j' := j % (l.length + 1); l ++ (l.drop j').take (k % (l.length - j' + 1)), .ok)
    else (sp, .skip)
  | .copyown h j k =>
    if sp.occ h then
      (sMut sp h fun l => let j' := j % (l.length + 1); (l.drop j').take (k % (l.length - j' + 1)), .ok)
    else (sp, .skip)
  | .remx h i c =>
    -- a count that reaches beyond the end removes nothing (documented by the range test of `remove`)
    if sp.occ h then (sMut sp h fun l => if i + c > l.length then l else remAt l i c, .ok) else (sp, .skip)

/-- what the reference semantics shows through one slot: the sequence and the number of sharing handles -/
def Sp.view (sp : Sp α) (h : Nat) : Option (List α × Nat) :=
  if sp.occ h then some (sp.get h, sp.rc h) else none

def Sp.observe (sp : Sp α) : List (Option (List α × Nat)) := (List.range NS).map sp.view

end AslProofs.ArrSpec
