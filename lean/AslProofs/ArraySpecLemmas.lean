import AslProofs.ArrayRefine
/-! # C01: lemmas about the reference semantics itself (clone independence, LIFO/FIFO) -/
namespace AslProofs.Arr
open AslModel.Arr AslProofs.ArrSpec
variable {α : Type}
/-- well-formed state of the reference semantics: every handle refers to an existing cell -/
def SpWf (sp : Sp α) : Prop := ∀ (slot c : Nat), sp.hs[slot]? = some (some c) → c < sp.cells.length

theorem get_of_slot {sp : Sp α} {h c : Nat} (hc : sp.hs[h]? = some (some c)) : sp.get h = sp.cells.getD c [] := by
  unfold Sp.get; rw [hc]

theorem get_sMut_self {sp : Sp α} (hwf : SpWf sp) {h : Nat} (ho : sp.occ h = true) (F : List α → List α) :
    (sMut sp h F).get h = F (sp.get h) := by
  obtain ⟨c, hc⟩ := (sp_occ_iff sp h).mp ho
  have hlt := hwf h c hc
  rw [sMut_eq F hc, get_of_slot hc]
  have hc' : ({ sp with cells := sp.cells.set c (F (sp.cells.getD c [])) } : Sp α).hs[h]? = some (some c) := hc
  rw [get_of_slot hc']
  show (sp.cells.set c (F (sp.cells.getD c []))).getD c [] = _
  rw [List.getD_eq_getElem?_getD, List.getElem?_set_self hlt]; rfl


theorem get_sMut_other {sp : Sp α} {h g c d : Nat} (hc : sp.hs[h]? = some (some c)) (hd : sp.hs[g]? = some (some d))
    (hne : c ≠ d) (F : List α → List α) : (sMut sp h F).get g = sp.get g := by
  rw [sMut_eq F hc, get_of_slot hd]
  have hd' : ({ sp with cells := sp.cells.set c (F (sp.cells.getD c [])) } : Sp α).hs[g]? = some (some d) := hd
  rw [get_of_slot hd']
  show (sp.cells.set c (F (sp.cells.getD c []))).getD d [] = _
  rw [List.getD_eq_getElem?_getD, List.getElem?_set_ne hne, ← List.getD_eq_getElem?_getD]

/-- the state after `t = h.clone()`: slot `t` refers to a fresh cell holding the elements of `h`, which no
other handle refers to -/
theorem sProduce_slots (sp : Sp α) (hlen : sp.hs.length = 8) (t : Nat) (ht : t < NS) (l : List α) :
    (sProduce sp t l).hs[t]? = some (some sp.cells.length) ∧
    (sProduce sp t l).cells.getD sp.cells.length [] = l ∧
    (∀ g, g ≠ t → g ≠ T0 → (sProduce sp t l).hs[g]? = sp.hs[g]?) ∧
    (∀ c, c < sp.cells.length → (sProduce sp t l).cells.getD c [] = sp.cells.getD c []) ∧
    sp.cells.length < (sProduce sp t l).cells.length := by
  have hne : t ≠ T0 := by unfold NS at ht; unfold T0; omega
  have ht8 : t < 8 := by unfold NS at ht; omega
  have hT8 : T0 < 8 := by unfold T0; omega
  unfold sProduce sStoreT0 sAssign
  rw [if_neg hne]
  by_cases ho : (sNew sp T0 l).occ t = true
  · rw [if_pos ho]
    simp only [sNew, sDrop, sShare]
    refine ⟨?_, ?_, ?_, ?_, by simp⟩
    · rw [List.getElem?_set_ne (fun e => hne e.symm), List.getElem?_set_self (by simp [hlen]; exact ht8)]
      congr 1
      rw [List.getD_eq_getElem?_getD, List.getElem?_set_ne hne, List.getElem?_set_self (by simp [hlen]; exact hT8)]; rfl
    · rw [List.getD_eq_getElem?_getD]; simp
    · intro g h1 h2
      rw [List.getElem?_set_ne (fun e => h2 e.symm), List.getElem?_set_ne (fun e => h1 e.symm),
        List.getElem?_set_ne (fun e => h1 e.symm), List.getElem?_set_ne (fun e => h2 e.symm)]
    · intro c hc
      rw [List.getD_eq_getElem?_getD, List.getD_eq_getElem?_getD, List.getElem?_append_left hc]
  · rw [if_neg ho]
    simp only [sNew, sDrop, sShare]
    refine ⟨?_, ?_, ?_, ?_, by simp⟩
    · rw [List.getElem?_set_ne (fun e => hne e.symm), List.getElem?_set_self (by simp [hlen]; exact ht8)]
      congr 1
      rw [List.getD_eq_getElem?_getD, List.getElem?_set_ne hne, List.getElem?_set_ne hne,
        List.getElem?_set_self (by simp [hlen]; exact hT8)]; rfl
    · rw [List.getD_eq_getElem?_getD]; simp
    · intro g h1 h2
      rw [List.getElem?_set_ne (fun e => h2 e.symm), List.getElem?_set_ne (fun e => h1 e.symm),
        List.getElem?_set_ne (fun e => h1 e.symm), List.getElem?_set_ne (fun e => h1 e.symm),
        List.getElem?_set_ne (fun e => h2 e.symm)]
    · intro c hc
      rw [List.getD_eq_getElem?_getD, List.getD_eq_getElem?_getD, List.getElem?_append_left (by simp; omega),
        List.getElem?_append_left hc]


theorem Good.spwf {st : St α} {sp : Sp α} (hg : Good st sp) : SpWf sp ∧ sp.hs.length = 8 := by
  obtain ⟨f, hf⟩ := hg.sim
  exact ⟨fun slot c hc => hf.cell_lt hc, by rw [hf.hs_map]; simp [hg.len]⟩

theorem sMut_occ (sp : Sp α) (h g : Nat) (F : List α → List α) : (sMut sp h F).occ g = sp.occ g := by
  unfold sMut; split <;> rfl

theorem sMut_wf {sp : Sp α} (hwf : SpWf sp) (h : Nat) (F : List α → List α) : SpWf (sMut sp h F) := by
  unfold sMut; split
  · intro slot c hc; simp only [List.length_set]; exact hwf slot c hc
  · exact hwf

theorem sumN_eq_zero (bs : List (Option (Raw α))) (h : ∀ (b : Nat) (r : Raw α), bs[b]? ≠ some (some r)) : sumN bs = 0 := by
  induction bs with
  | nil => rfl
  | cons a t ih =>
    cases a with
    | none => exact ih (fun b r hb => h (b + 1) r (by simpa using hb))
    | some r => exact absurd (by simp) (h 0 r)


/-- what `Good` says about storage: live objects = total length of live blocks; every live block is referenced by
exactly `rc ≥ 1` handles; with no handle left there is no block and no object -/
theorem good_lifecycle {st : St α} {sp : Sp α} (hg : Good st sp) :
    st.live = sumN st.blocks ∧
      (∀ (b : Nat) (r : Raw α), st.blocks[b]? = some (some r) → r.rc = st.hs.count (some b) ∧ 0 < r.rc) ∧
      ((∀ slot, st.occ slot = false) → st.live = 0 ∧ ∀ (b : Nat) (r : Raw α), st.blocks[b]? ≠ some (some r)) := by
  obtain ⟨f, hf⟩ := hg.sim
  have hblk : ∀ (b : Nat) (r : Raw α), st.blocks[b]? = some (some r) → r.rc = st.hs.count (some b) ∧ 0 < r.rc := by
    intro b r hb
    obtain ⟨_, _, _, _, _, _, h5, h6⟩ := hf.blk b r hb
    exact ⟨h5, h6⟩
  refine ⟨hf.sum, hblk, ?_⟩
  intro hall
  have hnone : ∀ (b : Nat) (r : Raw α), st.blocks[b]? ≠ some (some r) := by
    intro b r hb
    obtain ⟨h5, h6⟩ := hblk b r hb
    have hpos : 0 < st.hs.count (some b) := by omega
    obtain ⟨i, hi, hget⟩ := List.getElem_of_mem (List.count_pos_iff.mp hpos)
    have hocc : st.occ i = true := (occ_iff st i).mpr ⟨b, by rw [List.getElem?_eq_getElem hi, hget]⟩
    rw [hall i] at hocc; cases hocc
  exact ⟨by rw [hf.sum, sumN_eq_zero _ hnone], hnone⟩

end AslProofs.Arr
