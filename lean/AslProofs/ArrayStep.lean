import AslProofs.ArraySim
/-! # C01: every operation of the line protocol is simulated by the reference semantics (helper lemmas) -/
namespace AslProofs.Arr
open AslModel.Arr AslProofs.ArrSpec

variable {α : Type}

/-! ### the member functions used by `step`, as list functions -/

theorem refines_app (v : α) : Refines (fun s => AslModel.Arr.insert s s.n (.val v)) (fun l => l ++ [v]) := by
  intro s l k h
  obtain ⟨s', k', h1, h2, h3, h4⟩ := insert_spec s l k s.n (.val v) v h (by rw [h.1]; exact Nat.le_refl _) rfl
  have e : l.take s.n ++ v :: l.drop s.n = l ++ [v] := by
    rw [h.1, List.take_of_length_le (Nat.le_refl _), List.drop_of_length_le (Nat.le_refl _)]
  rw [e] at h2
  exact ⟨s', k', h1, h2, h3, by rw [h4]; simp; omega⟩

theorem insAt_length (l : List α) (k : Nat) (v : α) (hk : k ≤ l.length) : (insAt l k v).length = l.length + 1 := by
  simp [insAt]; omega

theorem refines_ins (k : Nat) (v : α) :
    Refines (fun s => AslModel.Arr.insert s (k % (s.n + 1)) (.val v)) (fun l => insAt l (k % (l.length + 1)) v) := by
  intro s l k0 h
  have hk : k % (s.n + 1) ≤ l.length := by rw [h.1]; exact Nat.le_of_lt_succ (Nat.mod_lt _ (Nat.succ_pos _))
  obtain ⟨s', k', h1, h2, h3, h4⟩ := insert_spec s l k0 (k % (s.n + 1)) (.val v) v h hk rfl
  rw [h.1] at h1 h2 hk
  refine ⟨s', k', by simpa [h.1] using h1, h2, h3, ?_⟩
  rw [h4, insAt_length l _ v hk]; simp; omega

/-- `insert` with an element of the same block as argument, for the block that holds `l` with `l[j] = x` -/
theorem refinesAt_ins_own (k j : Nat) (x : α) (l : List α) (hx : l[j]? = some x) :
    RefinesAt (fun s => AslModel.Arr.insert s (k % (s.n + 1)) (.own j)) (fun l => insAt l (k % (l.length + 1)) x) l := by
  intro s k0 h
  have hk : k % (s.n + 1) ≤ l.length := by rw [h.1]; exact Nat.le_of_lt_succ (Nat.mod_lt _ (Nat.succ_pos _))
  obtain ⟨s', k', h1, h2, h3, h4⟩ := insert_spec s l k0 (k % (s.n + 1)) (.own j) x h hk hx
  rw [h.1] at h1 h2 hk
  refine ⟨s', k', by simpa [h.1] using h1, h2, h3, ?_⟩
  rw [h4, insAt_length l _ x hk]; simp; omega

theorem refines_appo (j : Nat) :
    Refines (fun s : BS α => if s.n = 0 then some s else AslModel.Arr.insert s s.n (.own (j % s.n)))
      (fun l : List α => match l[j % l.length]? with | some x => l ++ [x] | none => l) := by
  intro s l k h
  by_cases hn : s.n = 0
  · have hl : l = [] := List.length_eq_zero_iff.mp (by rw [← h.1]; exact hn)
    subst hl
    simp only [hn, if_true]
    exact ⟨s, k, rfl, by simpa using h, rfl, by simp⟩
  · simp only [if_neg hn]
    have hlt : j % l.length < l.length := Nat.mod_lt _ (by rw [← h.1]; omega)
    have hx : l[j % l.length]? = some l[j % l.length] := List.getElem?_eq_getElem hlt
    obtain ⟨s', k', h1, h2, h3, h4⟩ := insert_spec s l k s.n (.own (j % s.n)) l[j % l.length] h
      (by rw [h.1]; exact Nat.le_refl _) (by simpa [argVal, h.1] using hx)
    have e : l.take s.n ++ l[j % l.length] :: l.drop s.n = l ++ [l[j % l.length]] := by
      rw [h.1, List.take_of_length_le (Nat.le_refl _), List.drop_of_length_le (Nat.le_refl _)]
    rw [e] at h2
    simp only [hx]
    exact ⟨s', k', h1, h2, h3, by rw [h4]; simp; omega⟩

theorem refines_inso (k j : Nat) :
    Refines (fun s : BS α => if s.n = 0 then some s else AslModel.Arr.insert s (k % (s.n + 1)) (.own (j % s.n)))
      (fun l : List α => match l[j % l.length]? with | some x => insAt l (k % (l.length + 1)) x | none => l) := by
  intro s l k0 h
  by_cases hn : s.n = 0
  · have hl : l = [] := List.length_eq_zero_iff.mp (by rw [← h.1]; exact hn)
    subst hl
    simp only [hn, if_true]
    exact ⟨s, k0, rfl, by simpa using h, rfl, by simp⟩
  · simp only [if_neg hn]
    have hlt : j % l.length < l.length := Nat.mod_lt _ (by rw [← h.1]; omega)
    have hx : l[j % l.length]? = some l[j % l.length] := List.getElem?_eq_getElem hlt
    have := refinesAt_ins_own k (j % l.length) l[j % l.length] l hx s k0 h
    simp only [hx]
    simpa [h.1] using this

theorem refines_rsz (E : Elem α) (m : Nat) (v : α) :
    Refines (fun s => (resize E s m).bind fun s' => assignFrom (List.replicate (m - s.n) v) s' s.n)
      (fun l => resizeFill l m v) := by
  intro s l k h
  obtain ⟨s1, k1, hs1, hrep1, hrc1, hlive1⟩ := resize_refines E m s l k h
  dsimp only at hs1 hrep1 hlive1 ⊢
  have hn := h.1
  rw [hs1, Option.bind_some]
  by_cases hm : m ≤ l.length
  · have e0 : m - s.n = 0 := by omega
    have e1 : m - l.length = 0 := by omega
    rw [e0]
    simp only [List.replicate_zero, assignFrom]
    unfold resizeFill
    rw [e1] at hrep1 hlive1 ⊢
    exact ⟨s1, k1, rfl, hrep1, hrc1, hlive1⟩
  · have hrep1' : Rep s1 (l ++ List.replicate (m - l.length) E.dflt ++ []) k1 := by
      rw [List.take_of_length_le (by omega)] at hrep1; simpa using hrep1
    obtain ⟨s2, hs2, hrep2, hrc2, hlive2, _⟩ := assignFrom_rep (List.replicate (m - s.n) v) l _ [] s1 k1 s.n hrep1'
      (by simp [hn]) hn
    refine ⟨s2, k1, hs2, ?_, by rw [hrc2, hrc1], ?_⟩
    · unfold resizeFill; rw [List.take_of_length_le (by omega), ← hn]; simpa using hrep2
    · rw [hlive2, hlive1]; unfold resizeFill; simp



theorem refines_res (E : Elem α) (m : Nat) : Refines (fun s => some (reserve E s m)) (fun l : List α => l) := by
  intro s l k h
  obtain ⟨k1, hrep, _, hrc, hlive⟩ := reserve_rep E s l k m h
  exact ⟨_, k1, rfl, hrep, hrc, by rw [hlive]; simp⟩

theorem resize_take (E : Elem α) (s : BS α) (l : List α) (k m : Nat) (h : Rep s l k) (hm : m ≤ l.length) :
    ∃ s' k', resize E s m = some s' ∧ Rep s' (l.take m) k' ∧ s'.rc = s.rc ∧ s'.live = s.live + (l.take m).length - l.length := by
  obtain ⟨s1, k1, hs1, hrep1, hrc1, hlive1⟩ := resize_refines E m s l k h
  dsimp only at hs1 hrep1 hlive1
  have e1 : m - l.length = 0 := by omega
  rw [e1] at hrep1 hlive1
  simp only [List.replicate_zero, List.append_nil] at hrep1 hlive1
  exact ⟨s1, k1, hs1, hrep1, hrc1, hlive1⟩

theorem refines_clr (E : Elem α) : Refines (fun s => resize E s 0) (fun _ : List α => []) := by
  intro s l k h
  obtain ⟨s', k', h1, h2, h3, h4⟩ := resize_take E s l k 0 h (Nat.zero_le _)
  exact ⟨s', k', h1, by simpa using h2, h3, by simpa using h4⟩

theorem refines_pop (E : Elem α) : Refines (fun s => resize E s (s.n - 1)) (fun l : List α => l.take (l.length - 1)) := by
  intro s l k h
  obtain ⟨s', k', h1, h2, h3, h4⟩ := resize_take E s l k (l.length - 1) h (Nat.sub_le _ _)
  exact ⟨s', k', by simpa [h.1] using h1, h2, h3, h4⟩

theorem refines_popn (E : Elem α) (c : Nat) :
    Refines (fun s => resize E s (s.n - c % (s.n + 1))) (fun l : List α => l.take (l.length - c % (l.length + 1))) := by
  intro s l k h
  obtain ⟨s', k', h1, h2, h3, h4⟩ := resize_take E s l k (l.length - c % (l.length + 1)) h (Nat.sub_le _ _)
  exact ⟨s', k', by simpa [h.1] using h1, h2, h3, h4⟩

theorem remAt_length (l : List α) (i c : Nat) (h : i + c ≤ l.length) : ((remAt l i c).length : Int) = l.length - c := by
  simp [remAt]; omega

theorem refines_rem (E : Elem α) (i c : Nat) :
    Refines (fun s => let i' := i % (s.n + 1); remove E s i' (c % (s.n - i' + 1)))
      (fun l : List α => let i' := i % (l.length + 1); remAt l i' (c % (l.length - i' + 1))) := by
  intro s l k h
  dsimp only
  rw [h.1]
  have h1 : i % (l.length + 1) < l.length + 1 := Nat.mod_lt _ (Nat.succ_pos _)
  have h2 : c % (l.length - i % (l.length + 1) + 1) < l.length - i % (l.length + 1) + 1 := Nat.mod_lt _ (Nat.succ_pos _)
  have hle : i % (l.length + 1) + c % (l.length - i % (l.length + 1) + 1) ≤ l.length := by omega
  obtain ⟨s', k', g1, g2, g3, g4⟩ := remove_spec E s l k _ _ h hle
  exact ⟨s', k', g1, g2, g3, by rw [g4, remAt_length l _ _ hle]; omega⟩

/-- `remove(i, 1)` for a fixed in-range index (used by `removeOne`, `Queue::get`) -/
theorem refinesAt_rem1 (E : Elem α) (i : Nat) (l : List α) (hi : i < l.length) :
    RefinesAt (fun s => remove E s i 1) (fun l : List α => remAt l i 1) l := by
  intro s k h
  obtain ⟨s', k', g1, g2, g3, g4⟩ := remove_spec E s l k i 1 h (by omega)
  dsimp only
  exact ⟨s', k', g1, g2, g3, by rw [g4, remAt_length l _ _ (by omega)]; omega⟩

theorem refines_reml (E : Elem α) :
    Refines (fun s => if s.n > 0 then remove E s (s.n - 1) 1 else some s) (fun l : List α => l.take (l.length - 1)) := by
  intro s l k h
  by_cases hn : s.n > 0
  · simp only [if_pos hn]
    obtain ⟨s', k', g1, g2, g3, g4⟩ := remove_spec E s l k (s.n - 1) 1 h (by rw [h.1] at hn ⊢; omega)
    have e : l.take (s.n - 1) ++ l.drop (s.n - 1 + 1) = l.take (l.length - 1) := by
      rw [h.1, List.drop_of_length_le (by rw [h.1] at hn; omega)]; simp
    rw [e] at g2
    refine ⟨s', k', g1, g2, g3, ?_⟩
    rw [g4]; simp; rw [h.1] at hn; omega
  · simp only [if_neg hn]
    have hl : l = [] := List.length_eq_zero_iff.mp (by rw [← h.1]; omega)
    subst hl
    exact ⟨s, k, rfl, by simpa using h, rfl, by simp⟩

theorem refines_set (i : Nat) (v : α) :
    Refines (fun s => if s.n = 0 then some s else assignCell s (i % s.n) v) (fun l : List α => l.set (i % l.length) v) := by
  intro s l k h
  by_cases hn : s.n = 0
  · have hl : l = [] := List.length_eq_zero_iff.mp (by rw [← h.1]; exact hn)
    subst hl
    simp only [hn, if_true]
    exact ⟨s, k, rfl, by simpa using h, rfl, by simp⟩
  · simp only [if_neg hn]
    obtain ⟨hn', hc, hpos⟩ := h
    have hlt : i % l.length < l.length := Nat.mod_lt _ (by omega)
    rw [hn']
    have hsplit : l = l.take (i % l.length) ++ l[i % l.length] :: l.drop (i % l.length + 1) := by
      rw [List.getElem_cons_drop, List.take_append_drop]
    have hc' : s.cells = (l.take (i % l.length)).map some ++ some l[i % l.length] ::
        ((l.drop (i % l.length + 1)).map some ++ List.replicate k none) := by
      have hm : l.map some = (l.take (i % l.length) ++ l[i % l.length] :: l.drop (i % l.length + 1)).map some := by
        rw [← hsplit]
      rw [hc, cellsOf, hm]; simp only [List.map_append, List.map_cons, List.append_assoc, List.cons_append]
    rw [assignCell_mid s _ _ (i % l.length) _ v hc' (by simp; omega)]
    refine ⟨_, k, rfl, ⟨?_, ?_, ?_⟩, rfl, ?_⟩
    · simp [hn']
    · simp only [cellsOf, List.set_eq_take_append_cons_drop, if_pos hlt]; simp
    · simp; omega
    · simp



/-! ### quicksort keeps the length -/

theorem swapAt_length {xs ys : List α} {i j : Nat} (h : swapAt xs i j = some ys) : ys.length = xs.length := by
  unfold swapAt at h
  split at h
  · injection h with h; subst h; simp
  · cases h

theorem partLoop_length (lt : α → α → Bool) (p : α) (sf : Nat) : ∀ (f : Nat) (xs : List α) (l r1 : Nat) (res : List α × Nat × Nat),
    partLoop lt p sf f xs l r1 = some res → res.1.length = xs.length := by
  intro f
  induction f with
  | zero => intro xs l r1 res h; simp [partLoop] at h
  | succ f ih =>
    intro xs l r1 res h
    rw [partLoop] at h
    split at h
    · cases h1 : scanL lt p xs sf l with
      | none => rw [h1] at h; simp at h
      | some l' =>
        rw [h1, Option.bind_some] at h
        cases h2 : scanR lt p xs sf r1 with
        | none => rw [h2] at h; simp at h
        | some r1' =>
          rw [h2, Option.bind_some] at h
          split at h
          · cases h3 : swapAt xs l' (r1' - 1) with
            | none => rw [h3] at h; simp at h
            | some xs' =>
              rw [h3, Option.bind_some] at h
              rw [ih xs' _ _ res h, swapAt_length h3]
          · exact ih xs _ _ res h
    · injection h with h; subst h; rfl

theorem qsortAux_length (lt : α → α → Bool) : ∀ (f : Nat) (xs : List α) (a n : Nat) (ys : List α),
    qsortAux lt f xs a n = some ys → ys.length = xs.length := by
  intro f
  induction f with
  | zero => intro xs a n ys h; simp [qsortAux] at h
  | succ f ih =>
    intro xs a n ys h
    rw [qsortAux] at h
    split at h
    · injection h with h; subst h; rfl
    · split at h
      · cases h
      · rename_i p _
        cases h1 : partLoop lt p (n + 2) (n + 2) xs a (a + n) with
        | none => rw [h1] at h; simp at h
        | some r =>
          rw [h1, Option.bind_some] at h
          split at h
          · cases h2 : qsortAux lt f r.1 a (r.2.2 - a) with
            | none => rw [h2] at h; simp at h
            | some xs' =>
              rw [h2, Option.bind_some] at h
              rw [ih xs' _ _ ys h, ih r.1 _ _ xs' h2, partLoop_length lt p _ _ xs _ _ r h1]
          · cases h2 : qsortAux lt f r.1 r.2.1 (a + n - r.2.1) with
            | none => rw [h2] at h; simp at h
            | some xs' =>
              rw [h2, Option.bind_some] at h
              rw [ih xs' _ _ ys h, ih r.1 _ _ xs' h2, partLoop_length lt p _ _ xs _ _ r h1]

theorem qsortList_length (lt : α → α → Bool) {xs ys : List α} (h : qsortList lt xs = some ys) : ys.length = xs.length :=
  qsortAux_length lt _ xs _ _ ys h

/-- `sort` on the block that holds `l`, when the quicksort of `l` stays inside `l` -/
theorem refinesAt_sort (lt : α → α → Bool) (l l' : List α) (hq : qsortList lt l = some l') :
    RefinesAt (sortB lt) (fun l : List α => (qsortList lt l).getD l) l := by
  intro s k h
  have hlen := qsortList_length lt hq
  have hrep0 : Rep s ([] ++ l ++ []) k := by simpa using h
  obtain ⟨s', h1, h2, h3, h4, _⟩ := assignFrom_rep l' [] l [] s k 0 hrep0 hlen.symm rfl
  refine ⟨s', k, ?_, ?_, h3, ?_⟩
  · unfold sortB; rw [elems_rep s l k h, Option.bind_some, hq, Option.bind_some]; exact h1
  · simp only [hq, Option.getD_some]; simpa using h2
  · simp only [hq, Option.getD_some]; rw [h4, hlen]; simp



/-! ### what is read through a handle -/

theorem count_map_inj (hs : List (Option Nat)) (f : Nat → Nat) (b : Nat)
    (hinj : ∀ x, some x ∈ hs → f x = f b → x = b) :
    (hs.map (Option.map f)).count (some (f b)) = hs.count (some b) := by
  induction hs with
  | nil => rfl
  | cons o t ih =>
    have ih' := ih (fun x hx => hinj x (List.mem_cons_of_mem _ hx))
    rw [List.map_cons, List.count_cons, List.count_cons, ih']
    cases o with
    | none => simp
    | some x =>
      by_cases hxb : x = b
      · subst hxb; simp
      · have : f x ≠ f b := fun e => hxb (hinj x (List.mem_cons_self ..) e)
        simp [hxb, this]

/-- everything `step` reads through an occupied slot -/
theorem read_sim {st : St α} {sp : Sp α} {f : Nat → Nat} (hsim : Sim st sp f) {h : Nat} (hocc : st.occ h = true) :
    ∃ b r k, st.hs[h]? = some (some b) ∧ st.blockOf h = some (b, r) ∧ Rep (r.toBS st.live) (sp.get h) k ∧
      r.rc = sp.rc h ∧ st.elemsOf h = some (sp.get h) := by
  obtain ⟨b, hb⟩ := (occ_iff st h).mp hocc
  obtain ⟨r, hr⟩ := hsim.hl h b hb
  obtain ⟨l, k, hn, hcells, hpos, hcell, hrc, hrcpos⟩ := hsim.blk b r hr
  have hsl := hsim.sp_slot hb
  have hget : sp.get h = l := by rw [sp_get_eq hsl, List.getD_eq_getElem?_getD, hcell]; rfl
  have hbo := blockOf_eq hb hr
  refine ⟨b, r, k, hb, hbo, by rw [hget]; exact ⟨hn, hcells, hpos⟩, ?_, ?_⟩
  · unfold Sp.rc; rw [hsl]; simp only []
    rw [hrc, hsim.hs_map, count_map_inj]
    intro x hx hfx
    obtain ⟨i, hi, hget⟩ := List.getElem_of_mem hx
    obtain ⟨rx, hrx⟩ := hsim.hl i x (by rw [List.getElem?_eq_getElem hi, hget])
    exact hsim.inj x b rx r hrx hr hfx
  · unfold St.elemsOf; rw [hbo, Option.bind_some]; simp only []
    rw [hget, hn, hcells]; exact readN_cellsOf l k

theorem same_id_same_get {st : St α} {sp : Sp α} {f : Nat → Nat} (hsim : Sim st sp f) {h g : Nat}
    (hh : st.occ h = true) (he : st.idOf h = st.idOf g) : sp.get h = sp.get g := by
  obtain ⟨b, hb⟩ := (occ_iff st h).mp hh
  have h1 : st.idOf h = some b := by unfold St.idOf; rw [hb]
  have hg : st.hs[g]? = some (some b) := by
    rw [h1] at he
    unfold St.idOf at he
    split at he
    · rename_i b' hb'; injection he with he; rw [hb', ← he]
    · cases he
  rw [sp_get_eq (hsim.sp_slot hb), sp_get_eq (hsim.sp_slot hg)]

theorem readCell_rep (s : BS α) (l : List α) (k i : Nat) (h : Rep s l k) : readCell s i = l[i]? := by
  unfold readCell
  rw [h.2.1, cellsOf]
  rcases Nat.lt_or_ge i l.length with hi | hi
  · rw [List.getElem?_append_left (by simpa using hi), List.getElem?_map, List.getElem?_eq_getElem hi]; rfl
  · rw [List.getElem?_append_right (by simpa using hi), List.getElem?_replicate, List.getElem?_eq_none hi]
    by_cases hc : i - (l.map some).length < k
    · rw [if_pos hc]
    · rw [if_neg hc]

theorem indexFrom_bounds [DecidableEq α] (x : α) : ∀ (l : List α) (i : Nat), indexFrom x l i = -1 ∨
    ((i : Int) ≤ indexFrom x l i ∧ indexFrom x l i < i + l.length) := by
  intro l
  induction l with
  | nil => intro i; left; rfl
  | cons y t ih =>
    intro i
    unfold indexFrom
    split
    · right; simp; omega
    · rcases ih (i + 1) with h | ⟨h1, h2⟩
      · left; exact h
      · right; simp at h1 h2 ⊢; omega

theorem indexOf_bounds [DecidableEq α] (l : List α) (x : α) (j : Nat) (hj : j ≤ l.length) (h : ¬ indexOf l x j < 0) :
    (indexOf l x j).toNat < l.length := by
  unfold indexOf at h ⊢
  rcases indexFrom_bounds x (l.drop j) j with h1 | ⟨h1, h2⟩
  · rw [h1] at h; exact absurd (by decide) h
  · simp at h2; omega



/-! ### members that never reallocate -/

theorem construct_moved {s s' : BS α} {i : Nat} {v : α} (h : construct s i v = some s') : s'.moved = s.moved ∧ s'.cells.length = s.cells.length := by
  unfold construct at h; split at h
  · injection h with h; subst h; simp
  · cases h

theorem destroy_moved {s s' : BS α} {i : Nat} (h : destroy s i = some s') : s'.moved = s.moved ∧ s'.cells.length = s.cells.length := by
  unfold destroy at h; split at h
  · injection h with h; subst h; simp
  · cases h

theorem assignCell_moved {s s' : BS α} {i : Nat} {v : α} (h : assignCell s i v = some s') : s'.moved = s.moved ∧ s'.cells.length = s.cells.length := by
  unfold assignCell at h; split at h
  · injection h with h; subst h; simp
  · cases h

theorem relocate_moved {s s' : BS α} {d r k : Nat} (h : relocate s d r k = some s') : s'.moved = s.moved := by
  unfold relocate at h
  split at h
  · simp only [] at h; split at h
    · injection h with h; subst h; rfl
    · cases h
  · cases h

theorem constructN_moved (d : α) : ∀ (k : Nat) (s s' : BS α) (i : Nat), constructN d k s i = some s' →
    s'.moved = s.moved ∧ s'.cells.length = s.cells.length := by
  intro k; induction k with
  | zero => intro s s' i h; simp [constructN] at h; subst h; exact ⟨rfl, rfl⟩
  | succ k ih =>
    intro s s' i h
    rw [constructN] at h
    cases h1 : construct s i d with
    | none => rw [h1] at h; simp at h
    | some s1 =>
      rw [h1, Option.bind_some] at h
      have a := construct_moved h1; have b := ih s1 s' (i + 1) h
      exact ⟨b.1.trans a.1, b.2.trans a.2⟩

theorem destroyN_moved : ∀ (k : Nat) (s s' : BS α) (i : Nat), destroyN k s i = some s' →
    s'.moved = s.moved ∧ s'.cells.length = s.cells.length := by
  intro k; induction k with
  | zero => intro s s' i h; simp [destroyN] at h; subst h; exact ⟨rfl, rfl⟩
  | succ k ih =>
    intro s s' i h
    rw [destroyN] at h
    cases h1 : destroy s i with
    | none => rw [h1] at h; simp at h
    | some s1 =>
      rw [h1, Option.bind_some] at h
      have a := destroy_moved h1; have b := ih s1 s' (i + 1) h
      exact ⟨b.1.trans a.1, b.2.trans a.2⟩

theorem assignFrom_moved : ∀ (xs : List α) (s s' : BS α) (off : Nat), assignFrom xs s off = some s' → s'.moved = s.moved := by
  intro xs; induction xs with
  | nil => intro s s' off h; simp [assignFrom] at h; subst h; rfl
  | cons x xs ih =>
    intro s s' off h
    rw [assignFrom] at h
    cases h1 : assignCell s off x with
    | none => rw [h1] at h; simp at h
    | some s1 =>
      rw [h1, Option.bind_some] at h
      exact (ih s1 s' (off + 1) h).trans (assignCell_moved h1).1

theorem resize_moved (E : Elem α) {s s' : BS α} {m : Nat} (hm : m ≤ s.cells.length) (h : resize E s m = some s') :
    s'.moved = s.moved := by
  unfold resize at h
  have hr : reserve E s m = s := by unfold reserve; simp only []; rw [if_pos hm]
  simp only [hr] at h
  split at h
  · cases h1 : constructN E.dflt (m - s.n) s s.n with
    | none => rw [h1] at h; simp at h
    | some s1 => rw [h1] at h; simp at h; subst h; exact (constructN_moved _ _ _ _ _ h1).1
  · split at h
    · cases h1 : destroyN (s.n - m) s m with
      | none => rw [h1] at h; simp at h
      | some s1 => rw [h1] at h; simp at h; subst h; exact (destroyN_moved _ _ _ _ h1).1
    · injection h with h; subst h; rfl

theorem remove_moved (E : Elem α) {s s' : BS α} {i c : Nat} (hn : s.n ≤ s.cells.length) (h : remove E s i c = some s') :
    s'.moved = s.moved := by
  unfold remove at h
  simp only [] at h
  split at h
  · injection h with h; subst h; rfl
  · cases h1 : destroyN c s i with
    | none => rw [h1] at h; simp at h
    | some s1 =>
      rw [h1, Option.bind_some] at h
      have a := destroyN_moved _ _ _ _ h1
      cases h2 : relocate s1 i (i + c) (s.n - i - c) with
      | none => rw [h2] at h; simp at h
      | some s2 =>
        rw [h2, Option.bind_some] at h
        have b := relocate_moved h2
        have hlen2 : s2.cells.length = s1.cells.length := by
          unfold relocate at h2
          split at h2
          · rename_i hb
            simp only [] at h2; split at h2
            · injection h2 with h2; subst h2
              simp only [writeAt, List.length_append, List.length_take, List.length_drop, List.length_replicate]
              omega
            · cases h2
          · cases h2
        have c' := resize_moved E (s := { s2 with n := s2.n - c }) (m := s.n - c) (by simp only []; omega) h
        rw [c']; exact b.trans a.1

theorem removeIfAux_moved (f : α → Bool) : ∀ (r : Nat) (s : BS α) (i j n : Nat) (res : BS α × Nat),
    removeIfAux f r s i j n = some res → res.1.moved = s.moved := by
  intro r; induction r with
  | zero => intro s i j n res h; simp [removeIfAux] at h; subst h; rfl
  | succ r ih =>
    intro s i j n res h
    rw [removeIfAux] at h
    cases h1 : readCell s i with
    | none => rw [h1] at h; simp at h
    | some v =>
      rw [h1, Option.bind_some] at h
      split at h
      · cases h2 : destroy s i with
        | none => rw [h2] at h; simp at h
        | some s1 => rw [h2, Option.bind_some] at h; exact (ih _ _ _ _ _ h).trans (destroy_moved h2).1
      · cases h2 : relocate s j i 1 with
        | none => rw [h2] at h; simp at h
        | some s1 => rw [h2, Option.bind_some] at h; exact (ih _ _ _ _ _ h).trans (relocate_moved h2)

/-- `op` keeps the block where it is, on the blocks that hold `l` -/
def NoMoveAt (op : BS α → Option (BS α)) (l : List α) : Prop :=
  ∀ s k s', Rep s l k → op s = some s' → s'.moved = s.moved

theorem rep_n_le {s : BS α} {l : List α} {k : Nat} (h : Rep s l k) : s.n ≤ s.cells.length := by
  rw [h.1, h.2.1, cellsOf_length]; omega

theorem pGuard_false_of_nomove {st : St α} {sp : Sp α} {f : Nat → Nat} (hsim : Sim st sp f) {h : Nat}
    (hocc : st.occ h = true) {op : BS α → Option (BS α)} (hnm : NoMoveAt op (sp.get h)) : pGuard st h op = false := by
  obtain ⟨b, r, k, hb, hbo, hrep, _, _⟩ := read_sim hsim hocc
  unfold pGuard; rw [hbo]; simp only []
  cases hop : op (r.toBS st.live) with
  | none => rfl
  | some s' =>
    simp only []
    rw [hnm _ k s' hrep hop]; rfl



/-! ### pointer arguments into the same array: `a.append(a.data()+j, k)`, `a.copy(a.data()+j, k)`; raw `remove` -/

theorem refines_appown (E : Elem α) (j k : Nat) :
    Refines (fun s => let j' := j % (s.n + 1); appendOwn E s j' (k % (s.n - j' + 1)))
      (fun l : List α => let j' := j % (l.length + 1); l ++ (l.drop j').take (k % (l.length - j' + 1))) := by
  intro s l k0 h
  have hn := h.1
  dsimp only
  rw [hn]
  generalize hj : j % (l.length + 1) = j'
  generalize hk : k % (l.length - j' + 1) = k'
  have hj' : j' ≤ l.length := by rw [← hj]; exact Nat.le_of_lt_succ (Nat.mod_lt _ (Nat.succ_pos _))
  have hk' : j' + k' ≤ l.length := by
    have := Nat.mod_lt k (Nat.succ_pos (l.length - j')); rw [hk] at this; omega
  obtain ⟨s1, k1, hs1, hrep1, hrc1, hlive1⟩ := resize_refines E (s.n + k') s l k0 h
  dsimp only at hs1 hrep1 hlive1
  have e1 : l.take (s.n + k') ++ List.replicate (s.n + k' - l.length) E.dflt = l ++ List.replicate k' E.dflt := by
    rw [List.take_of_length_le (by omega), hn]; simp
  rw [e1] at hrep1 hlive1
  obtain ⟨hn1, hc1, hpos1⟩ := hrep1
  have hX : ((l.drop j').take k').length = k' := by simp; omega
  have hm : l.map some = (l.take j').map some ++ ((l.drop j').take k').map some ++ (l.drop (j' + k')).map some := by
    rw [← List.map_append, ← List.map_append, ← split3 l j' k']
  have hc1' : s1.cells = (l.take j').map some ++ ((l.drop j').take k').map some ++ (l.drop (j' + k')).map some ++
      (List.replicate k' E.dflt).map some ++ List.replicate k1 none := by
    rw [hc1, cellsOf, List.map_append, hm]
  have hs2 := assignSelf_disjoint k' ((l.drop j').take k') (List.replicate k' E.dflt) s1 ((l.take j').map some)
    ((l.drop (j' + k')).map some) (List.replicate k1 none) s.n j' hc1' hX (by simp) (by simp; omega) (by simp; omega)
  refine ⟨{ s1 with cells := (l.take j').map some ++ ((l.drop j').take k').map some ++ (l.drop (j' + k')).map some ++
      ((l.drop j').take k').map some ++ List.replicate k1 none }, k1, ?_, ⟨?_, ?_, ?_⟩, ?_, ?_⟩
  · unfold appendOwn
    simp only []
    rw [hn] at hs1 hs2 ⊢
    rw [hs1, Option.bind_some]; exact hs2
  · simp only []; rw [hn1]; simp; omega
  · simp only [cellsOf, List.map_append]
    rw [hm]
  · simp at hpos1 ⊢; omega
  · simpa using hrc1
  · simp only []; rw [hlive1]; simp; omega

theorem assignSelf_moved : ∀ (k : Nat) (s s' : BS α) (d r : Nat), assignSelf k s d r = some s' →
    s'.moved = s.moved ∧ s'.cells.length = s.cells.length ∧ s'.n = s.n := by
  intro k; induction k with
  | zero => intro s s' d r h; simp [assignSelf] at h; subst h; exact ⟨rfl, rfl, rfl⟩
  | succ k ih =>
    intro s s' d r h
    rw [assignSelf] at h
    cases h0 : readCell s r with
    | none => rw [h0] at h; simp at h
    | some v =>
      rw [h0, Option.bind_some] at h
      cases h1 : assignCell s d v with
      | none => rw [h1] at h; simp at h
      | some s1 =>
        rw [h1, Option.bind_some] at h
        have a := assignCell_moved h1
        have b := ih s1 s' _ _ h
        have hn1 : s1.n = s.n := by
          unfold assignCell at h1; split at h1
          · injection h1 with h1; subst h1; rfl
          · cases h1
        exact ⟨b.1.trans a.1, b.2.1.trans a.2, b.2.2.trans hn1⟩

/-- `a[d+i] = a[d+j+i]` ascending: the source runs ahead of the target, so every read sees the original element -/
theorem assignSelf_fwd : ∀ (k : Nat) (L : List α) (s : BS α) (P B : Cells α) (d j : Nat),
    s.cells = P ++ L.map some ++ B → d = P.length → j + k ≤ L.length →
    assignSelf k s d (d + j) = some { s with cells := P ++ ((L.drop j).take k).map some ++ (L.drop k).map some ++ B } := by
  intro k
  induction k with
  | zero => intro L s P B d j hc _ _; cases s; simp_all [assignSelf]
  | succ k ih =>
    intro L s P B d j hc hd hjk
    match L, hjk with
    | x0 :: L', hjk =>
      have hjl : j < (x0 :: L').length := by omega
      have hjl' : j ≤ L'.length := by simp at hjl; omega
      have hx : (x0 :: L')[j]? = some ((x0 :: L')[j]) := List.getElem?_eq_getElem hjl
      -- read at d + j
      have hsplit : (x0 :: L') = (x0 :: L').take j ++ (x0 :: L')[j] :: (x0 :: L').drop (j + 1) := by
        rw [List.getElem_cons_drop, List.take_append_drop]
      have hcr : s.cells = (P ++ ((x0 :: L').take j).map some) ++ some ((x0 :: L')[j]) ::
          (((x0 :: L').drop (j + 1)).map some ++ B) := by
        have hm : (x0 :: L').map some = ((x0 :: L').take j ++ (x0 :: L')[j] :: (x0 :: L').drop (j + 1)).map some := by
          rw [← hsplit]
        rw [hc, hm]; simp only [List.map_append, List.map_cons, List.append_assoc, List.cons_append]
      have hcw : s.cells = P ++ some x0 :: (L'.map some ++ B) := by rw [hc]; simp
      rw [assignSelf, readCell_mid s _ _ (d + j) _ hcr (by simp [hd, Nat.min_eq_left hjl']; omega), Option.bind_some,
        assignCell_mid s P _ d x0 _ hcw hd, Option.bind_some]
      have hjk' : j + k ≤ L'.length := by simp at hjk; omega
      have := ih L' { s with cells := P ++ some ((x0 :: L')[j]) :: (L'.map some ++ B) } (P ++ [some ((x0 :: L')[j])]) B (d + 1) j
        (by simp) (by simp [hd]) hjk'
      rw [show d + 1 + j = d + j + 1 by omega] at this
      rw [this]
      have e1 : ((x0 :: L').drop j).take (k + 1) = (x0 :: L')[j] :: (L'.drop j).take k := by
        rw [← List.getElem_cons_drop hjl]; simp
      rw [e1]; simp

theorem refines_copyown (E : Elem α) (j k : Nat) :
    Refines (fun s => let j' := j % (s.n + 1); copyOwn E s j' (k % (s.n - j' + 1)))
      (fun l : List α => let j' := j % (l.length + 1); (l.drop j').take (k % (l.length - j' + 1))) := by
  intro s l k0 h
  have hn := h.1
  dsimp only
  rw [hn]
  generalize hj : j % (l.length + 1) = j'
  generalize hk : k % (l.length - j' + 1) = k'
  have hk' : j' + k' ≤ l.length := by
    have := Nat.mod_lt k (Nat.succ_pos (l.length - j')); rw [hk] at this
    have : j' ≤ l.length := by rw [← hj]; exact Nat.le_of_lt_succ (Nat.mod_lt _ (Nat.succ_pos _))
    omega
  have hc : s.cells = [] ++ l.map some ++ List.replicate k0 none := by rw [h.2.1, cellsOf]; simp
  have hs1 := assignSelf_fwd k' l s [] _ 0 j' hc rfl hk'
  rw [Nat.zero_add] at hs1
  have hrep1 : Rep ({ s with cells := [] ++ ((l.drop j').take k').map some ++ (l.drop k').map some ++ List.replicate k0 none } : BS α)
      ((l.drop j').take k' ++ l.drop k') k0 := by
    refine ⟨?_, ?_, ?_⟩
    · simp [hn]; omega
    · simp [cellsOf]
    · have := h.2.2; simp; omega
  obtain ⟨s2, k2, hs2, hrep2, hrc2, hlive2⟩ := resize_take E _ _ k0 k' hrep1 (by simp; omega)
  have e : ((l.drop j').take k' ++ l.drop k').take k' = (l.drop j').take k' := by
    rw [List.take_append_of_le_length (by simp; omega), List.take_of_length_le (by simp; omega)]
  rw [e] at hrep2 hlive2
  refine ⟨s2, k2, ?_, hrep2, hrc2, ?_⟩
  · unfold copyOwn; rw [hs1, Option.bind_some]; exact hs2
  · rw [hlive2]; simp; omega

theorem nomove_copyown (E : Elem α) (j k : Nat) (l : List α) :
    NoMoveAt (fun s => let j' := j % (s.n + 1); copyOwn E s j' (k % (s.n - j' + 1))) l := by
  intro s k0 s' hr h
  dsimp only at h
  unfold copyOwn at h
  cases h1 : assignSelf (k % (s.n - j % (s.n + 1) + 1)) s 0 (j % (s.n + 1)) with
  | none => rw [h1] at h; simp at h
  | some s1 =>
    rw [h1, Option.bind_some] at h
    obtain ⟨a1, a2, a3⟩ := assignSelf_moved _ _ _ _ _ h1
    have hle := rep_n_le hr
    have hkm : k % (s.n - j % (s.n + 1) + 1) ≤ s.n := by
      have := Nat.mod_lt k (show 0 < s.n - j % (s.n + 1) + 1 by omega); omega
    rw [resize_moved E (by rw [a2]; omega) h, a1]

theorem refines_remx (E : Elem α) (i c : Nat) :
    Refines (fun s => remove E s i c) (fun l : List α => if i + c > l.length then l else remAt l i c) := by
  intro s l k h
  dsimp only
  by_cases hgt : i + c > l.length
  · rw [if_pos hgt]
    refine ⟨s, k, ?_, h, rfl, by simp⟩
    unfold remove; simp only []; rw [if_pos (by rw [h.1]; exact hgt)]
  · rw [if_neg hgt]
    obtain ⟨s', k', g1, g2, g3, g4⟩ := remove_spec E s l k i c h (by omega)
    exact ⟨s', k', g1, g2, g3, by rw [g4, remAt_length l _ _ (by omega)]; omega⟩

end AslProofs.Arr
