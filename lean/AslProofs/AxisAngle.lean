import AslProofs.Euler
import Gen.AxisAngleGen
/-!
# C20 — axis-angle conversions (`fromAxisAngle`, `fromAxisAngleU`, `angle`, `axisAngle`, `Matrix4::rotate(axis, angle)`)

The definitions `Gen.AA.*` are regenerated from `Quaternion.h` / `Matrix4.h` / `Vec3.h`.  `rodrigues` is the textbook
rotation matrix `I + sin θ [u]× + (1 − cos θ)[u]×²`; `TrigDouble`, `TrigAA`, `CmpStd` list what is used of the
trigonometric functions, `sqrt`, `<` and `== 0` (all true of the real functions, see the `example`s in `AslProps/C20.lean`).
-/
open AslModel AslProofs.Matrix AslProofs.Euler

set_option linter.unusedSimpArgs false
set_option linter.unusedSectionVars false

namespace AslProofs.AxisAngle

section field
variable {K : Type} [Field K]

/-- the cross-product matrix `[u]×` -/
def crossMat (u : V3 K) : Matrix (Fin 3) (Fin 3) K := !![0, -u.z, u.y; u.z, 0, -u.x; -u.y, u.x, 0]

/-- Rodrigues' rotation matrix about the unit vector `u` for an angle with cosine `c` and sine `s` -/
def rodrigues (u : V3 K) (c s : K) : Matrix (Fin 3) (Fin 3) K :=
  1 + s • crossMat u + (1 - c) • (crossMat u * crossMat u)

/-- `‖u‖² = 1` -/
def UnitVec (u : V3 K) : Prop := u.x * u.x + u.y * u.y + u.z * u.z = 1

/-- double-angle identities, in the form in which the code uses the half angle `(T)0.5 * angle` -/
structure TrigDouble (T : Trig K) : Prop where
  unit : ∀ x, T.cos x * T.cos x + T.sin x * T.sin x = 1
  cos_double : ∀ x, T.cos x = T.cos (1 / 2 * x) * T.cos (1 / 2 * x) - T.sin (1 / 2 * x) * T.sin (1 / 2 * x)
  sin_double : ∀ x, T.sin x = 2 * T.sin (1 / 2 * x) * T.cos (1 / 2 * x)

theorem half_mul (θ : K) : (fld K).mul (fld K).half θ = 1 / 2 * θ := by simp [Fld.half]
theorem half_mul' (θ : K) : (fld K).half * θ = 1 / 2 * θ := by simp [Fld.half]

theorem fromAxisAngleU_unit (T : Trig K) (hu : ∀ x, T.cos x * T.cos x + T.sin x * T.sin x = 1) (u : V3 K) (h1 : UnitVec u) (θ : K) :
    UnitQuat (Gen.AA.fromAxisAngleU (fld K) T u θ) := by
  unfold UnitVec at h1
  unfold UnitQuat
  simp only [Gen.AA.fromAxisAngleU, Gen.AA.ofScalarVec, Gen.V3.smul, half_mul, fld_mul, half_mul']
  have := hu (1 / 2 * θ)
  generalize 1 / 2 * θ = φ at *
  linear_combination this + (T.sin φ * T.sin φ) * h1

theorem fromAxisAngleU_rodrigues (T : Trig K) (hT : TrigDouble T) (u : V3 K) (θ : K) :
    toM3 (Gen.Q.matrix (fld K) (Gen.AA.fromAxisAngleU (fld K) T u θ)) = rodrigues u (T.cos θ) (T.sin θ) := by
  have hu := hT.unit (1 / 2 * θ)
  rw [hT.cos_double θ, hT.sin_double θ]
  simp only [Gen.AA.fromAxisAngleU, half_mul]
  generalize 1 / 2 * θ = φ at *
  ext i j
  fin_cases i <;> fin_cases j <;>
    simp [toM3, Gen.Q.matrix, ofRows, Gen.AA.ofScalarVec, Gen.V3.smul, rodrigues, crossMat,
      Matrix.mul_apply, Fin.sum_univ_succ] <;>
    first
      | linear_combination (-(u.y * u.y + u.z * u.z)) * hu
      | linear_combination (-(u.x * u.x + u.z * u.z)) * hu
      | linear_combination (-(u.x * u.x + u.y * u.y)) * hu
      | linear_combination (u.x * u.y) * hu
      | linear_combination (u.x * u.z) * hu
      | linear_combination (u.y * u.z) * hu

/-- the last row and column of `Quaternion_::matrix()` are those of a homogeneous rotation -/
theorem qmat_affine (p : Quat K) :
    (∀ i, i < 3 → Gen.Q.matrix (fld K) p i 3 = 0 ∧ Gen.Q.matrix (fld K) p 3 i = 0) ∧ Gen.Q.matrix (fld K) p 3 3 = 1 := by
  refine ⟨?_, by simp [Gen.Q.matrix, ofRows]⟩
  intro i hi
  interval_cases i <;> simp [Gen.Q.matrix, ofRows]

/-- `fromAxisAngle(axis, angle)` for a non-zero axis is `fromAxisAngleU` of the normalised axis -/
theorem fromAxisAngle_eq_U (C : Cmp K) (T : Trig K) (axis : V3 K) (θ : K)
    (heqz : ∀ x, C.eqz x = true ↔ x = 0) (hm : Gen.AA.length (fld K) C axis ≠ 0) :
    Gen.AA.fromAxisAngle (fld K) C T axis θ =
      Gen.AA.fromAxisAngleU (fld K) T (Gen.V3.smul (fld K) axis (1 / Gen.AA.length (fld K) C axis)) θ := by
  have hz : C.eqz (Gen.AA.length (fld K) C axis) = false := by
    rw [Bool.eq_false_iff]; intro h; exact hm ((heqz _).mp h)
  simp only [Gen.AA.fromAxisAngle, Gen.AA.fromAxisAngleU, hz, Bool.false_eq_true, if_false,
    Gen.AA.ofScalarVec, Gen.V3.smul, fld_mul, fld_div]
  congr 1 <;> ring

end field

section ordered
variable {R : Type} [Field R] [LinearOrder R] [IsStrictOrderedRing R]

/-- what the axis-angle round trip needs of the trigonometric functions (all true of the real ones): `TrigOK` and the shift by `PI` -/
structure TrigAA (T : Trig R) : Prop where
  ok : TrigOK T
  sin_sub_pi : ∀ x, T.sin (x - T.pi) = -T.sin x
  cos_sub_pi : ∀ x, T.cos (x - T.pi) = -T.cos x

/-- the quaternion rebuilt from a rotation vector `v·(a/k)` (`k = ‖v‖ ≠ 0`, `a ≠ 0`) -/
theorem fromRotVec_scaled {C : Cmp R} (hC : CmpStd C) {T : Trig R} (hT : TrigAA T) (v : V3 R) (k a : R)
    (hk : k * k = v.x * v.x + v.y * v.y + v.z * v.z) (hk0 : k ≠ 0) (ha : a ≠ 0) :
    Gen.AA.fromRotVec (fld R) C T (Gen.V3.smul (fld R) v (a / k)) =
      ⟨T.cos (1 / 2 * a), v.x * (T.sin (1 / 2 * a) / k), v.y * (T.sin (1 / 2 * a) / k), v.z * (T.sin (1 / 2 * a) / k)⟩ := by
  have hlen : Gen.AA.length (fld R) C (Gen.V3.smul (fld R) v (a / k)) = |a| := by
    have : (v.x * (a / k)) * (v.x * (a / k)) + (v.y * (a / k)) * (v.y * (a / k)) + (v.z * (a / k)) * (v.z * (a / k)) = a * a := by
      field_simp
      linear_combination -hk
    simp only [Gen.AA.length, Gen.V3.smul, fld_add, fld_mul, this]
    exact sqrt_sq hC a
  have hlen' : Gen.AA.length (fld R) C { x := v.x * (a / k), y := v.y * (a / k), z := v.z * (a / k) } = |a| := hlen
  have habs : |a| ≠ 0 := abs_ne_zero.mpr ha
  have hz : C.eqz |a| = false := by
    rw [Bool.eq_false_iff]; intro h; exact habs ((hC.eqz _).mp h)
  simp only [Gen.AA.fromRotVec, Gen.AA.fromAxisAngle, Gen.V3.smul, fld_mul, hlen', hz, Bool.false_eq_true, if_false, Gen.AA.ofScalarVec, Gen.V3.smul,
    half_mul, fld_mul, fld_div, half_mul']
  rcases le_or_gt 0 a with h | h
  · rw [abs_of_nonneg h]
    congr 1 <;> field_simp
  · rw [abs_of_neg h]
    have e : (1 : R) / 2 * -a = -(1 / 2 * a) := by ring
    rw [e, hT.ok.sin_neg, hT.ok.cos_neg]
    congr 1 <;> field_simp


/-- **axis-angle round trip**: for every unit quaternion `q`, `fromAxisAngle(q.axisAngle())` is `q` or `-q` -/
theorem axisAngle_roundtrip_quat {C : Cmp R} (hC : CmpStd C) {T : Trig R} (hT : TrigAA T) (q : Quat R) (hq : UnitQuat q) :
    Gen.AA.fromRotVec (fld R) C T (Gen.AA.axisAngle (fld R) C T q) = q ∨
    Gen.AA.fromRotVec (fld R) C T (Gen.AA.axisAngle (fld R) C T q) = Gen.Q.neg (fld R) q := by
  obtain ⟨w, x, y, z⟩ := q
  unfold UnitQuat at hq
  simp only at hq
  have hn2 : 0 ≤ x * x + y * y + z * z :=
    add_nonneg (add_nonneg (mul_self_nonneg x) (mul_self_nonneg y)) (mul_self_nonneg z)
  obtain ⟨hk0, hk2⟩ := hC.sqrt _ hn2
  set k := C.sqrt (x * x + y * y + z * z) with hkdef
  have hlen : Gen.AA.length (fld R) C ⟨x, y, z⟩ = k := by simp [Gen.AA.length, hkdef]
  by_cases hkz : k = 0
  · -- the angle-0 branch: the vector part vanishes, `w = ±1`, the result is the identity quaternion
    have hsum : x * x + y * y + z * z = 0 := by rw [← hk2, hkz]; ring
    have hx : x = 0 := by nlinarith [mul_self_nonneg x, mul_self_nonneg y, mul_self_nonneg z]
    have hy : y = 0 := by nlinarith [mul_self_nonneg x, mul_self_nonneg y, mul_self_nonneg z]
    have hz : z = 0 := by nlinarith [mul_self_nonneg x, mul_self_nonneg y, mul_self_nonneg z]
    have hw : w = 1 ∨ w = -1 := mul_self_eq_one_iff.mp (by linear_combination hq - hsum)
    have heq : C.eqz k = true := (hC.eqz k).mpr hkz
    have hs0 : C.sqrt 0 = 0 := by
      obtain ⟨_, h2⟩ := hC.sqrt 0 (le_refl _)
      exact mul_self_eq_zero.mp h2
    have hz0 : C.eqz 0 = true := (hC.eqz 0).mpr rfl
    have hres : Gen.AA.fromRotVec (fld R) C T (Gen.AA.axisAngle (fld R) C T ⟨w, x, y, z⟩) = ⟨1, 0, 0, 0⟩ := by
      simp only [Gen.AA.axisAngle, hlen, heq, if_true]
      simp [Gen.AA.fromRotVec, Gen.AA.fromAxisAngle, Gen.AA.length, Gen.AA.ofScalarVec, Gen.V3.smul, hs0, hz0, hT.ok.cos_zero]
    rw [hres]
    subst hx; subst hy; subst hz
    rcases hw with rfl | rfl
    · left; rfl
    · right; simp [Gen.Q.neg]
  · have hkpos : 0 < k := lt_of_le_of_ne hk0 (Ne.symm hkz)
    -- `angle()` = 2·atan2(k, w), reduced to (-π, π]; (k, w) is a point of the unit circle
    obtain ⟨hsk, hc⟩ := atan2_unit hT.ok k w (by linear_combination hq + hk2)
    have heq : C.eqz k = false := by
      rw [Bool.eq_false_iff]; intro h; exact hkz ((hC.eqz k).mp h)
    have hkk : k * k = x * x + y * y + z * z := hk2
    have hang : Gen.AA.angle (fld R) C T ⟨w, x, y, z⟩ = 2 * T.atan2 k w ∨
        Gen.AA.angle (fld R) C T ⟨w, x, y, z⟩ = 2 * T.atan2 k w - 2 * T.pi := by
      simp only [Gen.AA.angle, fld_lit, fld_add, fld_mul, fld_sub, Nat.cast_ofNat, ← hkdef]
      split
      · left; rfl
      · right; rfl
    have hax : Gen.AA.axisAngle (fld R) C T ⟨w, x, y, z⟩ =
        Gen.V3.smul (fld R) ⟨x, y, z⟩ (Gen.AA.angle (fld R) C T ⟨w, x, y, z⟩ / k) := by
      simp only [Gen.AA.axisAngle, hlen, heq, Bool.false_eq_true, if_false, fld_div]
    have hsinpi : T.sin T.pi = 0 := by
      have := hT.sin_sub_pi T.pi
      rw [sub_self, hT.ok.sin_zero] at this
      linarith
    rw [hax]
    rcases hang with ha | ha <;> rw [ha]
    · have ha0 : 2 * T.atan2 k w ≠ 0 := by
        intro h
        have : T.atan2 k w = 0 := by linarith
        rw [this, hT.ok.sin_zero] at hsk
        exact hkz hsk.symm
      rw [fromRotVec_scaled hC hT ⟨x, y, z⟩ k _ hkk hkz ha0]
      have e : (1 : R) / 2 * (2 * T.atan2 k w) = T.atan2 k w := by ring
      rw [e, hc, hsk]
      left
      congr 1 <;> field_simp
    · have ha0 : 2 * T.atan2 k w - 2 * T.pi ≠ 0 := by
        intro h
        have : T.atan2 k w = T.pi := by linarith
        rw [this, hsinpi] at hsk
        exact hkz hsk.symm
      rw [fromRotVec_scaled hC hT ⟨x, y, z⟩ k _ hkk hkz ha0]
      have e : (1 : R) / 2 * (2 * T.atan2 k w - 2 * T.pi) = T.atan2 k w - T.pi := by ring
      rw [e, hT.cos_sub_pi, hT.sin_sub_pi, hc, hsk]
      right
      simp only [Gen.Q.neg, fld_neg]
      congr 1 <;> field_simp

end ordered
end AslProofs.AxisAngle
