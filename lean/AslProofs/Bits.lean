/-! Bit-operation ↔ arithmetic lemmas used to read the code's `<<`, `|`, `>>`, `&` (core Lean only). -/
namespace AslProofs.Bits

theorem shl_or (a b i : Nat) (hb : b < 2 ^ i) : (a <<< i) ||| b = a * 2 ^ i + b := by
  rw [← Nat.shiftLeft_add_eq_or_of_lt hb, Nat.shiftLeft_eq]

theorem or3 (a b c : Nat) (hb : b < 256) (hc : c < 256) :
    (a <<< 16) ||| (b <<< 8) ||| c = a * 65536 + b * 256 + c := by
  have h1 : (a <<< 16) ||| (b <<< 8) = ((a <<< 8) ||| b) <<< 8 := by
    rw [Nat.shiftLeft_or_distrib, ← Nat.shiftLeft_add]
  rw [h1, shl_or a b 8 (by omega), shl_or _ c 8 (by omega)]
  omega

theorem or4 (a b c d : Nat) (hb : b < 64) (hc : c < 64) (hd : d < 64) :
    (a <<< 18) ||| (b <<< 12) ||| (c <<< 6) ||| d = a * 262144 + b * 4096 + c * 64 + d := by
  have h1 : (a <<< 18) ||| (b <<< 12) = ((a <<< 6) ||| b) <<< 12 := by
    rw [Nat.shiftLeft_or_distrib, ← Nat.shiftLeft_add]
  have h2 : ∀ x, (x <<< 12) ||| (c <<< 6) = ((x <<< 6) ||| c) <<< 6 := by
    intro x; rw [Nat.shiftLeft_or_distrib, ← Nat.shiftLeft_add]
  rw [h1, h2, shl_or a b 6 (by omega), shl_or _ c 6 (by omega), shl_or _ d 6 (by omega)]
  omega

theorem and63 (x : Nat) : x &&& 0x3f = x % 64 := Nat.and_two_pow_sub_one_eq_mod x 6
theorem and255 (x : Nat) : x &&& 0xff = x % 256 := Nat.and_two_pow_sub_one_eq_mod x 8
theorem and15 (x : Nat) : x &&& 0x0f = x % 16 := Nat.and_two_pow_sub_one_eq_mod x 4

end AslProofs.Bits
