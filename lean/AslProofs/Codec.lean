import AslModel.Codec
import AslProofs.Bits
/-! Helper lemmas for C15 (codec).  Property statements live in `AslProps/C15.lean`. -/
namespace AslProofs.Codec
open AslModel.Codec Gen.Tables AslProofs.Bits

/-- RFC 4648 §4 base64 over an alphabet lookup `al` -/
def rfcWith (al : Nat → UInt8) : List UInt8 → List UInt8
  | a :: b :: c :: t =>
    [al (a.toNat / 4), al (a.toNat % 4 * 16 + b.toNat / 16), al (b.toNat % 16 * 4 + c.toNat / 64), al (c.toNat % 64)] ++ rfcWith al t
  | [a, b] => [al (a.toNat / 4), al (a.toNat % 4 * 16 + b.toNat / 16), al (b.toNat % 16 * 4), eqSign]
  | [a] => [al (a.toNat / 4), al (a.toNat % 4 * 16), eqSign, eqSign]
  | [] => []

/-! ### facts about the regenerated tables (these are the G obligations) -/
theorem inv_chr : ∀ k, k < 64 → inv (chr k) = k := by decide
theorem chr_props : ∀ k, k < 64 → isSym (chr k) = true ∧ isSpace (chr k) = false ∧ chr k ≠ 0 ∧ chr k ≠ eqSign := by decide
theorem inv_eq : inv eqSign = 65 := by decide

theorem quad_arith (a b c : UInt8) : quad a b c =
    [chr (a.toNat / 4), chr (a.toNat % 4 * 16 + b.toNat / 16), chr (b.toNat % 16 * 4 + c.toNat / 64), chr (c.toNat % 64)] := by
  have ha := a.toNat_lt; have hb := b.toNat_lt; have hc := c.toNat_lt
  simp only [quad, or3 _ _ _ hb hc, and63, Nat.shiftRight_eq_div_pow]
  congr 1
  · congr 1; omega
  congr 1
  · congr 1; omega
  congr 1
  · congr 1; omega
  congr 1
  · congr 1; omega

def fixup (n : Nat) (out : List UInt8) : List UInt8 :=
  let len := 4 * ((n + 2) / 3)
  let out := if n % 3 > 0 then out.set (len - 1) eqSign else out
  if n % 3 = 1 then out.set (len - 2) eqSign else out

theorem encodeBase64_fixup (d : List UInt8) : encodeBase64 d = fixup d.length (encGroups d) := rfl

theorem encGroups_length (d : List UInt8) : (encGroups d).length = 4 * ((d.length + 2) / 3) := by
  fun_induction encGroups d with
  | case1 a b c t ih => simp [quad, ih]; omega
  | case2 a b => simp [quad]
  | case3 a => simp [quad]
  | case4 => simp

theorem fixup_append (m : Nat) (q out : List UInt8) (hq : q.length = 4) (ho : out.length = 4 * ((m + 2) / 3)) :
    fixup (m + 3) (q ++ out) = q ++ fixup m out := by
  unfold fixup
  have h3 : (m + 3) % 3 = m % 3 := by omega
  have hl : 4 * ((m + 3 + 2) / 3) = 4 + 4 * ((m + 2) / 3) := by omega
  simp only [h3, hl]
  by_cases h0 : m % 3 > 0
  · have hm : 4 * ((m + 2) / 3) ≥ 4 := by omega
    simp only [h0, if_true]
    have e1 : 4 + 4 * ((m + 2) / 3) - 1 = q.length + (4 * ((m + 2) / 3) - 1) := by omega
    have e2 : 4 + 4 * ((m + 2) / 3) - 2 = q.length + (4 * ((m + 2) / 3) - 2) := by omega
    rw [e1, e2]
    by_cases h1 : m % 3 = 1
    · simp [h1, List.set_append]
    · simp [h1, List.set_append]
  · have : m % 3 = 0 := by omega
    simp [this]

theorem encode_eq_rfcWith (d : List UInt8) : encodeBase64 d = rfcWith chr d := by
  rw [encodeBase64_fixup]
  fun_induction encGroups d with
  | case1 a b c t ih =>
    rw [List.length_cons, List.length_cons, List.length_cons, fixup_append _ _ _ (by simp [quad]) (encGroups_length t), ih, quad_arith]
    simp [rfcWith]
  | case2 a b => simp [fixup, quad_arith, rfcWith]
  | case3 a => simp [fixup, quad_arith, rfcWith]
  | case4 => simp [fixup, rfcWith]

/-- a full group decodes to its three bytes -/
theorem triple_full (a b c : UInt8) :
    triple (a.toNat / 4) (a.toNat % 4 * 16 + b.toNat / 16) (b.toNat % 16 * 4 + c.toNat / 64) (c.toNat % 64) = [a, b, c] := by
  have ha := a.toNat_lt; have hb := b.toNat_lt; have hc := c.toNat_lt
  simp only [triple, or4 _ _ _ _ (show a.toNat % 4 * 16 + b.toNat / 16 < 64 by omega)
    (show b.toNat % 16 * 4 + c.toNat / 64 < 64 by omega) (show c.toNat % 64 < 64 by omega), and255, Nat.shiftRight_eq_div_pow]
  have e1 : (a.toNat / 4 * 262144 + (a.toNat % 4 * 16 + b.toNat / 16) * 4096 + (b.toNat % 16 * 4 + c.toNat / 64) * 64 + c.toNat % 64) / 2 ^ 16 = a.toNat := by omega
  have e2 : (a.toNat / 4 * 262144 + (a.toNat % 4 * 16 + b.toNat / 16) * 4096 + (b.toNat % 16 * 4 + c.toNat / 64) * 64 + c.toNat % 64) / 2 ^ 8 % 256 = b.toNat := by omega
  have e3 : (a.toNat / 4 * 262144 + (a.toNat % 4 * 16 + b.toNat / 16) * 4096 + (b.toNat % 16 * 4 + c.toNat / 64) * 64 + c.toNat % 64) % 256 = c.toNat := by omega
  rw [e1, e2, e3]; simp

theorem or_shr_small (x y i : Nat) (h : y < 2 ^ i) : (x ||| y) >>> i = x >>> i := by
  rw [Nat.shiftRight_or_distrib, Nat.shiftRight_eq_div_pow y, Nat.div_eq_of_lt h, Nat.or_zero]

theorem or3' (a b c : Nat) (hb : b < 64) (hc : c < 64) :
    (a <<< 18) ||| (b <<< 12) ||| (c <<< 6) = a * 262144 + b * 4096 + c * 64 := by
  have := or4 a b c 0 hb hc (by omega)
  simpa using this

theorem or2' (a b : Nat) (hb : b < 64) :
    (a <<< 18) ||| (b <<< 12) = a * 262144 + b * 4096 := by
  have := or4 a b 0 0 hb (by omega) (by omega)
  simpa using this

theorem triple_pad1 (a b : UInt8) :
    (triple (a.toNat / 4) (a.toNat % 4 * 16 + b.toNat / 16) (b.toNat % 16 * 4) 65).take 2 = [a, b] := by
  have ha := a.toNat_lt; have hb := b.toNat_lt
  simp only [triple, List.take, and255]
  rw [or_shr_small _ 65 16 (by omega), or_shr_small _ 65 8 (by omega),
    or3' _ _ _ (show a.toNat % 4 * 16 + b.toNat / 16 < 64 by omega) (show b.toNat % 16 * 4 < 64 by omega)]
  simp only [Nat.shiftRight_eq_div_pow]
  have e1 : (a.toNat / 4 * 262144 + (a.toNat % 4 * 16 + b.toNat / 16) * 4096 + b.toNat % 16 * 4 * 64) / 2 ^ 16 = a.toNat := by omega
  have e2 : (a.toNat / 4 * 262144 + (a.toNat % 4 * 16 + b.toNat / 16) * 4096 + b.toNat % 16 * 4 * 64) / 2 ^ 8 % 256 = b.toNat := by omega
  rw [e1, e2]; simp

theorem triple_pad2 (a : UInt8) :
    (triple (a.toNat / 4) (a.toNat % 4 * 16) 65 65).take 1 = [a] := by
  have ha := a.toNat_lt
  simp only [triple, List.take]
  rw [or_shr_small _ 65 16 (by omega), or_shr_small _ (65 <<< 6) 16 (by decide),
    or2' _ _ (show a.toNat % 4 * 16 < 64 by omega)]
  simp only [Nat.shiftRight_eq_div_pow]
  have e1 : (a.toNat / 4 * 262144 + a.toNat % 4 * 16 * 4096) / 2 ^ 16 = a.toNat := by omega
  rw [e1]; simp

def padOf (n : Nat) : Nat := (3 - n % 3) % 3

theorem triple_length (a b c d : Nat) : (triple a b c d).length = 3 := by simp [triple]

theorem decGroups_rfc (d : List UInt8) :
    ∃ j, decGroups ((rfcWith chr d).map inv) = d ++ j ∧ j.length = padOf d.length := by
  fun_induction rfcWith chr d with
  | case1 a b c t ih =>
    obtain ⟨j, hj, hl⟩ := ih
    have ha := a.toNat_lt; have hb := b.toNat_lt; have hc := c.toNat_lt
    refine ⟨j, ?_, ?_⟩
    · simp only [List.map_append, List.map_cons, List.map_nil, List.cons_append, List.nil_append, decGroups]
      rw [inv_chr _ (by omega), inv_chr _ (by omega), inv_chr _ (by omega), inv_chr _ (by omega), triple_full, hj]
      simp
    · simp only [List.length_cons, padOf] at *; omega
  | case2 a b =>
    have ha := a.toNat_lt; have hb := b.toNat_lt
    simp only [List.map_cons, List.map_nil, decGroups, List.append_nil]
    rw [inv_chr _ (by omega), inv_chr _ (by omega), inv_chr _ (by omega), inv_eq]
    have h := triple_pad1 a b
    have hl := triple_length (a.toNat / 4) (a.toNat % 4 * 16 + b.toNat / 16) (b.toNat % 16 * 4) 65
    generalize triple (a.toNat / 4) (a.toNat % 4 * 16 + b.toNat / 16) (b.toNat % 16 * 4) 65 = tr at *
    match tr, hl, h with
    | [x, y, z], _, h =>
      simp at h
      exact ⟨[z], by simp [h], by simp [padOf]⟩
  | case3 a =>
    have ha := a.toNat_lt
    simp only [List.map_cons, List.map_nil, decGroups, List.append_nil]
    rw [inv_chr _ (by omega), inv_chr _ (by omega), inv_eq]
    have h := triple_pad2 a
    have hl := triple_length (a.toNat / 4) (a.toNat % 4 * 16) 65 65
    generalize triple (a.toNat / 4) (a.toNat % 4 * 16) 65 65 = tr at *
    match tr, hl, h with
    | [x, y, z], _, h =>
      simp at h
      exact ⟨[y, z], by simp [h], by simp [padOf]⟩
  | case4 => exact ⟨[], by simp [decGroups], by simp [padOf]⟩

def nonSym (c : UInt8) : Bool := !isSym c
def padCount0 (l : List UInt8) : Nat := ((l.reverse.takeWhile nonSym).filter (· == eqSign)).length

theorem takeWhile_dropLast {α} (p : α → Bool) (l : List α) (h : ∃ x ∈ l, p x = false) :
    l.dropLast.takeWhile p = l.takeWhile p := by
  induction l with
  | nil => simp
  | cons y t ih =>
    cases t with
    | nil =>
      obtain ⟨x, hx, hp⟩ := h
      simp at hx; subst hx; simp [hp]
    | cons z t' =>
      rw [List.dropLast_cons_cons]
      by_cases hy : p y = true
      · rw [List.takeWhile_cons_of_pos hy, List.takeWhile_cons_of_pos hy]
        congr 1
        apply ih
        obtain ⟨x, hx, hp⟩ := h
        simp at hx
        rcases hx with rfl | hx
        · rw [hy] at hp; cases hp
        · exact ⟨x, by simpa using hx, hp⟩
      · simp only [Bool.not_eq_true] at hy
        rw [List.takeWhile_cons_of_neg (by simp [hy]), List.takeWhile_cons_of_neg (by simp [hy])]

theorem reverse_drop_one {α} (w : List α) : (w.drop 1).reverse = w.reverse.dropLast := by
  cases w with
  | nil => simp
  | cons c t => simp

theorem padCount_eq0 (w : List UInt8) (h : ∃ x ∈ w, isSym x = true) : padCount w = padCount0 w := by
  unfold padCount padCount0
  rw [reverse_drop_one]
  have : (fun c => !isSym c) = nonSym := rfl
  rw [this, takeWhile_dropLast]
  obtain ⟨x, hx, hs⟩ := h
  exact ⟨x, by simpa using hx, by simp [nonSym, hs]⟩

theorem takeWhile_filter_skip (sp : UInt8 → Bool) (hsp : ∀ c, sp c = true → nonSym c = true ∧ c ≠ eqSign) (l : List UInt8) :
    (l.takeWhile nonSym).filter (· == eqSign) = ((l.filter (fun c => !sp c)).takeWhile nonSym).filter (· == eqSign) := by
  induction l with
  | nil => simp
  | cons c t ih =>
    by_cases hc : sp c = true
    · obtain ⟨h1, h2⟩ := hsp c hc
      simp [List.takeWhile_cons, h1, hc, h2, ih]
    · simp only [Bool.not_eq_true] at hc
      simp only [List.filter_cons, hc, Bool.not_false, if_true, List.takeWhile_cons]
      by_cases hn : nonSym c = true
      · simp only [hn, if_true, List.filter_cons]
        rw [ih]
      · simp [hn]

theorem space_skip : ∀ c, isSpace c = true → nonSym c = true ∧ c ≠ eqSign := by
  intro c h
  simp only [isSpace, Bool.or_eq_true, beq_iff_eq] at h
  rcases h with ((h | h) | h) | h <;> subst h <;> decide

theorem padCount0_filter (w : List UInt8) : padCount0 w = padCount0 (w.filter (fun c => !isSpace c)) := by
  unfold padCount0
  rw [takeWhile_filter_skip isSpace space_skip, List.filter_reverse]

theorem takeWhile_append_stop {α} (p : α → Bool) (l1 l2 : List α) (h : ∃ x ∈ l1, p x = false) :
    (l1 ++ l2).takeWhile p = l1.takeWhile p := by
  induction l1 with
  | nil => simp at h
  | cons y t ih =>
    simp only [List.cons_append, List.takeWhile_cons]
    by_cases hy : p y = true
    · simp only [hy, if_true]; congr 1; apply ih
      obtain ⟨x, hx, hp⟩ := h
      simp at hx
      rcases hx with rfl | hx
      · rw [hy] at hp; cases hp
      · exact ⟨x, hx, hp⟩
    · simp [hy]

theorem rfc_head_sym (d : List UInt8) (h : d ≠ []) : ∃ x ∈ rfcWith chr d, isSym x = true := by
  match d, h with
  | a :: b :: c :: t, _ => exact ⟨chr (a.toNat / 4), by simp [rfcWith], (chr_props _ (by have := a.toNat_lt; omega)).1⟩
  | [a, b], _ => exact ⟨chr (a.toNat / 4), by simp [rfcWith], (chr_props _ (by have := a.toNat_lt; omega)).1⟩
  | [a], _ => exact ⟨chr (a.toNat / 4), by simp [rfcWith], (chr_props _ (by have := a.toNat_lt; omega)).1⟩

theorem nonSym_eq : nonSym eqSign = true := by decide

theorem padCount0_rfc (d : List UInt8) : padCount0 (rfcWith chr d) = padOf d.length := by
  fun_induction rfcWith chr d with
  | case1 a b c t ih =>
    have ha := a.toNat_lt; have hb := b.toNat_lt; have hc := c.toNat_lt
    by_cases ht : t = []
    · subst ht
      simp [padCount0, rfcWith, nonSym, (chr_props (c.toNat % 64) (by omega)).1, padOf]
    · unfold padCount0 at *
      rw [List.reverse_append, takeWhile_append_stop, ih]
      · simp only [List.length_cons, padOf]; omega
      · obtain ⟨x, hx, hs⟩ := rfc_head_sym t ht
        exact ⟨x, by simpa using hx, by simp [nonSym, hs]⟩
  | case2 a b =>
    have hb := b.toNat_lt
    have hns : nonSym (chr (b.toNat % 16 * 4)) = false := by simp [nonSym, (chr_props (b.toNat % 16 * 4) (by omega)).1]
    simp [padCount0, List.takeWhile_cons, nonSym_eq, hns, padOf]
  | case3 a =>
    have ha := a.toNat_lt
    have hns : nonSym (chr (a.toNat % 4 * 16)) = false := by simp [nonSym, (chr_props (a.toNat % 4 * 16) (by omega)).1]
    simp [padCount0, List.takeWhile_cons, nonSym_eq, hns, padOf]
  | case4 => simp [padCount0, padOf]

-- hex
def hexSpecDigit (n : Nat) : UInt8 := [48,49,50,51,52,53,54,55,56,57,97,98,99,100,101,102].getD n 0

theorem hexDigitLower_spec : ∀ n, n < 16 → hexDigitLower n = hexSpecDigit n := by decide

theorem hex_pair_val : ∀ n, n < 256 →
    UInt8.ofNat (strtoul16 [hexDigitLower (n / 16), hexDigitLower (n % 16)]) = UInt8.ofNat n := by decide +kernel

theorem pairs_encodeHex (d : List UInt8) :
    pairs (encodeHex d) = d.map fun b => [hexDigitLower (b.toNat / 16), hexDigitLower (b.toNat % 16)] := by
  induction d with
  | nil => simp [encodeHex, pairs]
  | cons b t ih =>
    simp only [encodeHex, List.flatMap_cons, List.cons_append, List.nil_append, pairs, List.map_cons] at *
    rw [ih]

theorem hex_roundtrip (d : List UInt8) : decodeHex (encodeHex d) = d := by
  unfold decodeHex
  rw [pairs_encodeHex]
  induction d with
  | nil => simp
  | cons b t ih =>
    simp only [List.map_cons, List.filter_cons, List.length_cons, List.length_nil] at *
    simp only [show (0 + 1 + 1 == 2) = true from rfl, if_true, List.map_cons]
    rw [ih, hex_pair_val _ b.toNat_lt]; simp

theorem pairs_full_length (s : List UInt8) : ((pairs s).filter (·.length == 2)).length = s.length / 2 := by
  fun_induction pairs s with
  | case1 a b t ih => simp [ih]; omega
  | case2 a => simp
  | case3 => simp

theorem hex_total (s : List UInt8) : (decodeHex s).length = s.length / 2 := by
  simp [decodeHex, pairs_full_length]

theorem keep_no_percent : ∀ comp, (urlKeep comp).contains 37 = false := by decide

theorem nibble_val : ∀ n, n < 256 →
    UInt8.ofNat (strtoul16 [hexNibble (n >>> 4), hexNibble (n &&& 0x0f)]) = UInt8.ofNat n := by decide +kernel

theorem urlDecode_cons_ne (c : UInt8) (t : List UInt8) (h : c ≠ 37) : urlDecode (c :: t) = c :: urlDecode t := by
  rw [urlDecode.eq_def]
  split
  · rename_i heq; simp at heq; exact absurd heq.1 h
  · rename_i heq; simp at heq; exact absurd heq.1 h
  · rename_i heq; simp at heq; exact absurd heq.1 h
  · rename_i heq; simp at heq; obtain ⟨rfl, rfl⟩ := heq; rfl
  · rename_i heq; simp at heq

theorem isAlnum_37 : isAlnumC 37 = false := by decide

theorem url_roundtrip (s : List UInt8) (comp : Bool) : urlDecode (urlEncode s comp) = s := by
  induction s with
  | nil => simp [urlEncode, urlDecode]
  | cons c t ih =>
    simp only [urlEncode, List.flatMap_cons] at *
    split
    · simp only [List.cons_append, List.nil_append, urlDecode]
      rw [ih, nibble_val _ c.toNat_lt]; simp
    · rename_i h
      have hc : c ≠ 37 := by
        intro hc; subst hc
        have hk := keep_no_percent comp
        simp [isAlnum_37] at h
        rw [← List.contains_iff_mem] at h
        rw [hk] at h; cases h
      simp only [List.cons_append, List.nil_append]
      rw [urlDecode_cons_ne _ _ hc, ih]

theorem takeWhile_all {α} (p : α → Bool) (l : List α) (h : ∀ x ∈ l, p x = true) : l.takeWhile p = l := by
  induction l with
  | nil => rfl
  | cons a t ih =>
    rw [List.takeWhile_cons_of_pos (h a (by simp)), ih (fun x hx => h x (by simp [hx]))]

theorem length_takeWhile_le' {α} (p : α → Bool) (l : List α) : (l.takeWhile p).length ≤ l.length := by
  induction l with
  | nil => simp
  | cons a t ih =>
    rw [List.takeWhile_cons]; split <;> simp <;> omega

end AslProofs.Codec
