import AslModel.CodecExt
import AslProofs.Codec
/-! Helper lemmas for the C15 extension: line folding is invisible to a reader that skips white space; which bytes
`Url::encode` leaves literal.  Property statements live in `AslProps/C15.lean`. -/
namespace AslProofs.CodecExt
open AslModel.Codec AslProofs.Codec Gen.Tables

theorem wrapAux_filter (n k : Nat) (s : List UInt8) :
    (wrapAux n k s).filter (fun c => !isSpace c) = s.filter (fun c => !isSpace c) := by
  induction s generalizing k with
  | nil => simp [wrapAux]
  | cons c t ih =>
    cases k with
    | zero =>
      have h13 : isSpace 13 = true := by decide
      have h10 : isSpace 10 = true := by decide
      simp only [wrapAux, List.filter_cons, h13, h10, Bool.not_true, ih]
      simp
    | succ k => simp only [wrapAux, List.filter_cons, ih]

theorem wrapAux_mem (n k : Nat) (s : List UInt8) : ∀ c ∈ wrapAux n k s, c ∈ s ∨ c = 13 ∨ c = 10 := by
  induction s generalizing k with
  | nil => simp [wrapAux]
  | cons x t ih =>
    intro c hc
    cases k with
    | zero =>
      simp only [wrapAux, List.mem_cons] at hc
      rcases hc with rfl | rfl | rfl | hc
      · exact Or.inr (Or.inl rfl)
      · exact Or.inr (Or.inr rfl)
      · exact Or.inl (List.mem_cons_self)
      · rcases ih _ c hc with h | h
        · exact Or.inl (List.mem_cons_of_mem _ h)
        · exact Or.inr h
    | succ k =>
      simp only [wrapAux, List.mem_cons] at hc
      rcases hc with rfl | hc
      · exact Or.inl (List.mem_cons_self)
      · rcases ih _ c hc with h | h
        · exact Or.inl (List.mem_cons_of_mem _ h)
        · exact Or.inr h

/-- every character of an RFC 4648 text is a non-blank, non-NUL byte -/
theorem rfc_chars (d : List UInt8) : ∀ c ∈ rfcWith chr d, isSpace c = false ∧ c ≠ 0 := by
  have hc : ∀ k, k < 64 → isSpace (chr k) = false ∧ chr k ≠ 0 := fun k hk =>
    ⟨(chr_props k hk).2.1, (chr_props k hk).2.2.1⟩
  have he : isSpace eqSign = false ∧ eqSign ≠ 0 := by decide
  intro c
  fun_induction rfcWith chr d with
  | case1 a b c' t ih =>
    intro h
    simp only [List.cons_append, List.nil_append, List.mem_cons] at h
    have ha := a.toNat_lt; have hb := b.toNat_lt; have hc' := c'.toNat_lt
    rcases h with rfl | rfl | rfl | rfl | h
    · exact hc _ (by omega)
    · exact hc _ (by omega)
    · exact hc _ (by omega)
    · exact hc _ (by omega)
    · exact ih h
  | case2 a b =>
    intro h
    simp only [List.mem_cons, List.not_mem_nil, or_false] at h
    have ha := a.toNat_lt; have hb := b.toNat_lt
    rcases h with rfl | rfl | rfl | rfl
    · exact hc _ (by omega)
    · exact hc _ (by omega)
    · exact hc _ (by omega)
    · exact he
  | case3 a =>
    intro h
    simp only [List.mem_cons, List.not_mem_nil, or_false] at h
    have ha := a.toNat_lt
    rcases h with rfl | rfl | rfl | rfl
    · exact hc _ (by omega)
    · exact hc _ (by omega)
    · exact he
    · exact he
  | case4 => intro h; simp at h

theorem urlEncode_cons (c : UInt8) (t : List UInt8) (comp : Bool) :
    urlEncode (c :: t) comp = urlEncode [c] comp ++ urlEncode t comp := by
  simp [urlEncode]

/-- the RFC 4648 text without its `=` signs (§3.2: padding omitted) -/
def unp (d : List UInt8) : List UInt8 := (rfcWith chr d).filter (· != eqSign)

theorem chr_ne (k : Nat) (hk : k < 64) : (chr k != eqSign) = true := by
  have := (chr_props k hk).2.2.2
  simpa using this

theorem unp_cons3 (a b c : UInt8) (t : List UInt8) : unp (a :: b :: c :: t) =
    [chr (a.toNat / 4), chr (a.toNat % 4 * 16 + b.toNat / 16), chr (b.toNat % 16 * 4 + c.toNat / 64), chr (c.toNat % 64)] ++ unp t := by
  have ha := a.toNat_lt; have hb := b.toNat_lt; have hc := c.toNat_lt
  simp only [unp, rfcWith, List.cons_append, List.nil_append, List.filter_cons,
    chr_ne _ (show a.toNat / 4 < 64 by omega), chr_ne _ (show a.toNat % 4 * 16 + b.toNat / 16 < 64 by omega),
    chr_ne _ (show b.toNat % 16 * 4 + c.toNat / 64 < 64 by omega), chr_ne _ (show c.toNat % 64 < 64 by omega), if_true]

theorem unp_2 (a b : UInt8) : unp [a, b] = [chr (a.toNat / 4), chr (a.toNat % 4 * 16 + b.toNat / 16), chr (b.toNat % 16 * 4)] := by
  have ha := a.toNat_lt; have hb := b.toNat_lt
  have he : (eqSign != eqSign) = false := by decide
  simp only [unp, rfcWith, List.filter_cons, List.filter_nil, he,
    chr_ne _ (show a.toNat / 4 < 64 by omega), chr_ne _ (show a.toNat % 4 * 16 + b.toNat / 16 < 64 by omega),
    chr_ne _ (show b.toNat % 16 * 4 < 64 by omega), if_true]
  simp

theorem unp_1 (a : UInt8) : unp [a] = [chr (a.toNat / 4), chr (a.toNat % 4 * 16)] := by
  have ha := a.toNat_lt
  have he : (eqSign != eqSign) = false := by decide
  simp only [unp, rfcWith, List.filter_cons, List.filter_nil, he,
    chr_ne _ (show a.toNat / 4 < 64 by omega), chr_ne _ (show a.toNat % 4 * 16 < 64 by omega), if_true]
  simp

theorem unp_nil : unp [] = [] := rfl

/-- all characters of the unpadded text are alphabet symbols -/
theorem unp_sym : ∀ (d : List UInt8), ∀ x ∈ unp d, isSym x = true
  | a :: b :: c :: t => by
    have ha := a.toNat_lt; have hb := b.toNat_lt; have hc := c.toNat_lt
    intro x hx
    rw [unp_cons3] at hx
    simp only [List.cons_append, List.nil_append, List.mem_cons] at hx
    rcases hx with rfl | rfl | rfl | rfl | hx
    · exact (chr_props _ (by omega)).1
    · exact (chr_props _ (by omega)).1
    · exact (chr_props _ (by omega)).1
    · exact (chr_props _ (by omega)).1
    · exact unp_sym t x hx
  | [a, b] => by
    have ha := a.toNat_lt; have hb := b.toNat_lt
    intro x hx
    rw [unp_2] at hx
    simp only [List.mem_cons, List.not_mem_nil, or_false] at hx
    rcases hx with rfl | rfl | rfl
    · exact (chr_props _ (by omega)).1
    · exact (chr_props _ (by omega)).1
    · exact (chr_props _ (by omega)).1
  | [a] => by
    have ha := a.toNat_lt
    intro x hx
    rw [unp_1] at hx
    simp only [List.mem_cons, List.not_mem_nil, or_false] at hx
    rcases hx with rfl | rfl
    · exact (chr_props _ (by omega)).1
    · exact (chr_props _ (by omega)).1
  | [] => by intro x hx; simp [unp_nil] at hx

theorem unp_dec : ∀ (d : List UInt8), decGroups ((unp d).map inv) = d.take (d.length / 3 * 3)
  | a :: b :: c :: t => by
    have ha := a.toNat_lt; have hb := b.toNat_lt; have hc := c.toNat_lt
    rw [unp_cons3]
    simp only [List.map_cons, List.cons_append, List.nil_append, decGroups]
    rw [inv_chr _ (by omega), inv_chr _ (by omega), inv_chr _ (by omega), inv_chr _ (by omega), triple_full, unp_dec t]
    have : (a :: b :: c :: t).length / 3 * 3 = t.length / 3 * 3 + 3 := by simp only [List.length_cons]; omega
    rw [this]; rfl
  | [a, b] => by rw [unp_2]; simp [decGroups]
  | [a] => by rw [unp_1]; simp [decGroups]
  | [] => by simp [unp_nil, decGroups]

theorem unp_short : ∀ (d : List UInt8), (unp d).length < 4 → d.length / 3 * 3 = 0
  | a :: b :: c :: t => by rw [unp_cons3]; simp; omega
  | [a, b] => by simp
  | [a] => by simp
  | [] => by simp

theorem sym_props : ∀ n, n < 256 → isSym (UInt8.ofNat n) = true → isSpace (UInt8.ofNat n) = false ∧ UInt8.ofNat n ≠ 0 := by
  decide +kernel

theorem sym_props' (c : UInt8) (h : isSym c = true) : isSpace c = false ∧ c ≠ 0 := by
  have := sym_props c.toNat c.toNat_lt
  simp only [UInt8.ofNat_toNat] at this
  exact this h

theorem padCount_all_sym (w : List UInt8) (h : ∀ x ∈ w, isSym x = true) : padCount w = 0 := by
  unfold padCount
  have : (w.drop 1).reverse.takeWhile (fun c => !isSym c) = [] := by
    cases hr : (w.drop 1).reverse with
    | nil => rfl
    | cons x r =>
      have hx : x ∈ w := by
        have : x ∈ (w.drop 1).reverse := by rw [hr]; exact List.mem_cons_self
        exact List.mem_of_mem_drop (List.mem_reverse.mp this)
      simp [List.takeWhile, h x hx]
  rw [this]; rfl

/-- `decodeBase64` of the unpadded text: the bytes of the complete 3-byte groups; the 1 or 2 tail bytes are lost -/
theorem decode_unp (d : List UInt8) : decodeBase64 (unp d) = d.take (d.length / 3 * 3) := by
  unfold decodeBase64
  by_cases hl : (unp d).length < 4
  · simp [hl, unp_short d hl]
  · simp only [hl, if_false]
    have hs := unp_sym d
    have h1 : (unp d).takeWhile (· != 0) = unp d := by
      apply takeWhile_all; intro x hx; simpa using (sym_props' x (hs x hx)).2
    have h2 : (unp d).filter (fun c => !isSpace c) = unp d := by
      apply List.filter_eq_self.mpr; intro x hx; simp [(sym_props' x (hs x hx)).1]
    rw [padCount_all_sym _ hs]
    unfold decWritten
    rw [h1, h2, unp_dec, Nat.sub_zero, List.length_take, List.take_take]
    congr 1; omega

end AslProofs.CodecExt
