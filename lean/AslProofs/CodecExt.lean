import AslModel.CodecExt
import AslProofs.Codec
/-! Helper lemmas for the C15 extension: line folding is invisible to a reader that skips white space; which bytes
`Url::encode` leaves literal.  Property statements live in `AslProps/C15.lean`. -/
namespace AslProofs.CodecExt
open AslModel.Codec AslProofs.Codec Gen.Tables

theorem wrapAux_filter (n k : Nat) (s : List UInt8) :
    (wrapAux n k s).filter (fun c => !isSpace c) = s.filter (fun c => !isSpace c) := by
  induction s generalizing k with
  | nil => simp [wrapAux]
  | cons c t ih =>
    cases k with
    | zero =>
      have h13 : isSpace 13 = true := by decide
      have h10 : isSpace 10 = true := by decide
      simp only [wrapAux, List.filter_cons, h13, h10, Bool.not_true, ih]
      simp
    | succ k => simp only [wrapAux, List.filter_cons, ih]

theorem wrapAux_mem (n k : Nat) (s : List UInt8) : ∀ c ∈ wrapAux n k s, c ∈ s ∨ c = 13 ∨ c = 10 := by
  induction s generalizing k with
  | nil => simp [wrapAux]
  | cons x t ih =>
    intro c hc
    cases k with
    | zero =>
      simp only [wrapAux, List.mem_cons] at hc
      rcases hc with rfl | rfl | rfl | hc
      · exact Or.inr (Or.inl rfl)
      · exact Or.inr (Or.inr rfl)
      · exact Or.inl (List.mem_cons_self)
      · rcases ih _ c hc with h | h
        · exact Or.inl (List.mem_cons_of_mem _ h)
        · exact Or.inr h
    | succ k =>
      simp only [wrapAux, List.mem_cons] at hc
      rcases hc with rfl | hc
      · exact Or.inl (List.mem_cons_self)
      · rcases ih _ c hc with h | h
        · exact Or.inl (List.mem_cons_of_mem _ h)
        · exact Or.inr h

/-- every character of an RFC 4648 text is a non-blank, non-NUL byte -/
theorem rfc_chars (d : List UInt8) : ∀ c ∈ rfcWith chr d, isSpace c = false ∧ c ≠ 0 := by
  have hc : ∀ k, k < 64 → isSpace (chr k) = false ∧ chr k ≠ 0 := fun k hk =>
    ⟨(chr_props k hk).2.1, (chr_props k hk).2.2.1⟩
  have he : isSpace eqSign = false ∧ eqSign ≠ 0 := by decide
  intro c
  fun_induction rfcWith chr d with
  | case1 a b c' t ih =>
    intro h
    simp only [List.cons_append, List.nil_append, List.mem_cons] at h
    have ha := a.toNat_lt; have hb := b.toNat_lt; have hc' := c'.toNat_lt
    rcases h with rfl | rfl | rfl | rfl | h
    · exact hc _ (by omega)
    · exact hc _ (by omega)
    · exact hc _ (by omega)
    · exact hc _ (by omega)
    · exact ih h
  | case2 a b =>
    intro h
    simp only [List.mem_cons, List.not_mem_nil, or_false] at h
    have ha := a.toNat_lt; have hb := b.toNat_lt
    rcases h with rfl | rfl | rfl | rfl
    · exact hc _ (by omega)
    · exact hc _ (by omega)
    · exact hc _ (by omega)
    · exact he
  | case3 a =>
    intro h
    simp only [List.mem_cons, List.not_mem_nil, or_false] at h
    have ha := a.toNat_lt
    rcases h with rfl | rfl | rfl | rfl
    · exact hc _ (by omega)
    · exact hc _ (by omega)
    · exact he
    · exact he
  | case4 => intro h; simp at h

theorem urlEncode_cons (c : UInt8) (t : List UInt8) (comp : Bool) :
    urlEncode (c :: t) comp = urlEncode [c] comp ++ urlEncode t comp := by
  simp [urlEncode]

end AslProofs.CodecExt
