import AslModel.Csv
/-! # C18 — lemmas about the CSV row writer and parser (core Lean only) -/
namespace AslProofs.Csv
open AslModel.Csv
open AslModel.Ini (Bytes)

/-- the text a cell is expected to come back as -/
def cellText : Cell → Bytes
  | .str s => s
  | .num lex => lex

/-- a cell that a line of a C-string based file can hold: no NUL (the parser's `while ((c = *p++))` stops
    there, `fgets`/`strlen` cut the line there) and no line break (the reader never presents LF, or a CR before
    it, as part of a row); a number text moreover contains neither the quote nor the separator -/
def CellOK (sep : UInt8) : Cell → Prop
  | .str s => 0 ∉ s ∧ 10 ∉ s ∧ 13 ∉ s
  | .num lex => 34 ∉ lex ∧ sep ∉ lex ∧ 0 ∉ lex ∧ 10 ∉ lex ∧ 13 ∉ lex

theorem writeRow_cons (sep q : UInt8) (c : Cell) (t : List Cell) :
    writeRow sep q (c :: t) = writeCell sep q c ++ t.flatMap (fun x => sep :: writeCell sep q x) := by
  show t.foldl (fun acc x => acc ++ [sep] ++ writeCell sep q x) (writeCell sep q c) = _
  generalize writeCell sep q c = acc
  induction t generalizing acc with
  | nil => simp
  | cons x t ih =>
    rw [List.foldl_cons, ih, List.flatMap_cons]
    simp [List.append_assoc]

/-- unquoted text: bytes other than quote and separator are appended to the value -/
theorem parse_plain (sep : UInt8) (s rest value : Bytes) (h1 : 34 ∉ s) (h2 : sep ∉ s) :
    parseCells sep .base (s ++ rest) value = parseCells sep .base rest (value ++ s) := by
  induction s generalizing value with
  | nil => simp
  | cons c t ih =>
    have hc1 : ¬ c = 34 := fun e => h1 (by simp [e])
    have hc2 : ¬ c = sep := fun e => h2 (by simp [e])
    have ht1 : 34 ∉ t := fun e => h1 (by simp [e])
    have ht2 : sep ∉ t := fun e => h2 (by simp [e])
    simp only [List.cons_append, parseCells, hc1, hc2, if_false]
    rw [ih _ ht1 ht2]
    simp

/-- inside quotes: doubled quotes give one quote, the closing quote leads to QUOTE2 -/
theorem parse_quoted (sep : UInt8) (s rest value : Bytes) :
    parseCells sep .quote (doubleQuotes 34 s ++ 34 :: rest) value = parseCells sep .quote2 rest (value ++ s) := by
  induction s generalizing value with
  | nil => simp [doubleQuotes, parseCells]
  | cons c t ih =>
    by_cases hc : c = 34
    · subst hc
      have : doubleQuotes 34 (34 :: t) = 34 :: 34 :: doubleQuotes 34 t := by simp [doubleQuotes]
      rw [this]
      simp only [List.cons_append, parseCells, ne_eq, not_true_eq_false, if_false, if_true]
      rw [ih (value ++ [34])]; simp
    · have : doubleQuotes 34 (c :: t) = c :: doubleQuotes 34 t := by simp [doubleQuotes, hc]
      rw [this]
      simp only [List.cons_append, parseCells, ne_eq, hc, not_false_eq_true, if_true]
      rw [ih (value ++ [c])]; simp

/-- a written cell followed by the end of the line or by a separator -/
theorem parse_cell_end (sep : UInt8) (c : Cell) (hc : CellOK sep c) :
    parseCells sep .base (writeCell sep 34 c) [] = [cellText c] := by
  cases c with
  | num lex =>
    have := parse_plain sep lex [] [] hc.1 hc.2.1
    simpa [writeCell, cellText, parseCells] using this
  | str s =>
    unfold writeCell
    by_cases hq : (s.contains 34 || s.contains sep) = true
    · simp only [hq, if_true, cellText]
      have := parse_quoted sep s [] []
      simp only [List.nil_append] at this
      show parseCells sep .base (34 :: (doubleQuotes 34 s ++ [34])) [] = [s]
      simp only [parseCells, if_true]
      rw [this]; simp [parseCells]
    · have hq' : s.contains 34 = false ∧ s.contains sep = false := by simpa using hq
      have h1 : 34 ∉ s := by simpa using hq'.1
      have h2 : sep ∉ s := by simpa using hq'.2
      simp only [hq, cellText]
      have := parse_plain sep s [] [] h1 h2
      simpa [parseCells] using this

theorem parse_cell_sep (sep : UInt8) (hsep : sep ≠ 34) (c : Cell) (hc : CellOK sep c) (more : Bytes) :
    parseCells sep .base (writeCell sep 34 c ++ sep :: more) [] = cellText c :: parseCells sep .base more [] := by
  have hs34 : ¬ sep = 34 := hsep
  cases c with
  | num lex =>
    have := parse_plain sep lex (sep :: more) [] hc.1 hc.2.1
    simp only [writeCell, cellText, this, List.nil_append, parseCells, hs34, if_false, if_true]
  | str s =>
    unfold writeCell
    by_cases hq : (s.contains 34 || s.contains sep) = true
    · simp only [hq, if_true, cellText]
      have := parse_quoted sep s (sep :: more) []
      simp only [List.nil_append] at this
      show parseCells sep .base ((34 :: (doubleQuotes 34 s ++ [34])) ++ sep :: more) [] = _
      have e : (34 :: (doubleQuotes 34 s ++ [34])) ++ sep :: more = 34 :: (doubleQuotes 34 s ++ 34 :: sep :: more) := by simp
      rw [e]
      simp only [parseCells, if_true]
      rw [this]
      simp only [parseCells, hs34, if_false, if_true]
    · have hq' : s.contains 34 = false ∧ s.contains sep = false := by simpa using hq
      have h1 : 34 ∉ s := by simpa using hq'.1
      have h2 : sep ∉ s := by simpa using hq'.2
      simp only [hq, cellText]
      have := parse_plain sep s (sep :: more) [] h1 h2
      simp only [Bool.false_eq_true, if_false]
      rw [this]
      simp only [List.nil_append, parseCells, hs34, if_false, if_true]

/-- the row parser inverts the row writer -/
theorem parseRow_writeRow (sep : UInt8) (hsep : sep ≠ 34) (c : Cell) (t : List Cell)
    (hc : CellOK sep c) (ht : ∀ x ∈ t, CellOK sep x) :
    parseRow sep (writeRow sep 34 (c :: t)) = cellText c :: t.map cellText := by
  unfold parseRow
  rw [writeRow_cons]
  induction t generalizing c with
  | nil => simpa using parse_cell_end sep c hc
  | cons x t ih =>
    simp only [List.flatMap_cons, List.cons_append, List.map_cons]
    rw [parse_cell_sep sep hsep c hc]
    rw [ih x (ht x (by simp)) (fun y hy => ht y (by simp [hy]))]

end AslProofs.Csv
