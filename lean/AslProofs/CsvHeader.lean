import AslProofs.CsvTable
/-!
# C18 — `readHeader` recognises the separator of every header `TabularDataFile` writes with `,` `;` or tab
-/
namespace AslProofs.Csv
open AslModel.Csv
open AslModel.Ini (Bytes)

/-- the separators the reader can recognise -/
def SniffSep (sep : UInt8) : Prop := sep = 44 ∨ sep = 59 ∨ sep = 9

/-- the decimal symbol the reader assumes once it has recognised `sep` -/
def sniffDec (sep : UInt8) : UInt8 := if sep = 59 then 44 else 46

/-- all bytes of the header are identifier bytes or the separator -/
theorem header_bytes_sep (sep : UInt8) (cols : List Bytes) (h : ∀ n ∈ cols, ColOK n) :
    ∀ c ∈ joinSep sep cols, c = sep ∨ ((48 ≤ c ∧ c ≤ 57) ∨ (65 ≤ c ∧ c ≤ 90) ∨ (97 ≤ c ∧ c ≤ 122) ∨ c = 95) := by
  cases cols with
  | nil => simp [joinSep]
  | cons n t =>
    rw [joinSep_cons]
    intro c hc
    rcases List.mem_append.mp hc with e | e
    · exact Or.inr ((h n (by simp)).1 c e)
    · obtain ⟨x, hx, hcx⟩ := List.mem_flatMap.mp e
      rcases List.mem_cons.mp hcx with e' | e'
      · exact Or.inl e'
      · exact Or.inr ((h x (by simp [hx])).1 c e')

/-- with two columns or more the separator is in the header -/
theorem sep_mem_header (sep : UInt8) (cols : List Bytes) (h2 : 2 ≤ cols.length) : sep ∈ joinSep sep cols := by
  match cols, h2 with
  | a :: b :: t, _ =>
    rw [joinSep_cons]
    simp

/-- a byte other than the separator that is no identifier byte is not in the header -/
theorem not_mem_header (sep x : UInt8) (cols : List Bytes) (h : ∀ n ∈ cols, ColOK n) (hx : x ≠ sep)
    (hid : ¬ ((48 ≤ x ∧ x ≤ 57) ∨ (65 ≤ x ∧ x ≤ 90) ∨ (97 ≤ x ∧ x ≤ 122) ∨ x = 95)) : x ∉ joinSep sep cols := by
  intro hm
  rcases header_bytes_sep sep cols h x hm with e | e
  · exact hx e
  · exact hid e

/-- `readHeader` on a file that starts with a header of identifier column names joined by `,`, `;` or tab (two
    columns at least unless the separator is the default): separator recognised, decimal symbol as documented,
    names as written, file positioned after the header line -/
theorem readHeader_sep (sep : UInt8) (hs : SniffSep sep) (cols : List Bytes) (hne : cols ≠ [])
    (h : ∀ n ∈ cols, ColOK n) (h2 : sep = 44 ∨ 2 ≤ cols.length) (rest : Bytes) (lf : Bool) :
    readHeader (joinSep sep cols ++ (if lf then 10 :: rest else [])) =
      { sep := sep, dec := sniffDec sep, columns := cols, file := { rest := if lf then rest else [], eof := !lf } } := by
  have hsep : sep ≠ 10 ∧ sep ≠ 13 ∧ sep ≠ 0xEF := by
    rcases hs with e | e | e <;> subst e <;> decide
  have hb := header_bytes_sep sep cols h
  have hno : ∀ c ∈ joinSep sep cols, c ≠ 10 ∧ c ≠ 13 ∧ c ≠ 0xEF := by
    intro c hc
    rcases hb c hc with e | e
    · subst e; exact hsep
    · have := col_byte c e
      exact ⟨this.2.2.2.2.1, this.2.2.2.2.2.1, this.2.2.2.2.2.2.1⟩
  have hclean : Clean (joinSep sep cols) := ⟨fun hc => (hno 10 hc).1 rfl, fun hc => (hno 13 hc).2.1 rfl⟩
  have hhead : (joinSep sep cols).head? ≠ some 0xEF := fun e => (hno 0xEF (List.mem_of_mem_head? e)).2.2 rfl
  obtain ⟨c, t, hct⟩ : ∃ c t, cols = c :: t := by
    cases cols with
    | nil => exact absurd rfl hne
    | cons c t => exact ⟨c, t, rfl⟩
  have hline : takeLine (joinSep sep cols ++ (if lf then 10 :: rest else [])) [] =
      (joinSep sep cols, if lf then rest else [], lf) := by
    cases lf with
    | true =>
      simp only [if_true]
      rw [takeLine_line _ _ [] hclean.1]
      simp [stripCR_clean _ hclean]
    | false =>
      simp only [Bool.false_eq_true, if_false, List.append_nil]
      rw [takeLine_eof _ [] hclean.1]
      simp
  have hnosep : ∀ x ∈ cols, sep ∉ x := by
    intro x hx hc
    have := col_byte sep ((h x hx).1 sep hc)
    rcases hs with e | e | e <;> subst e
    · exact this.2.1 rfl
    · exact this.2.2.1 rfl
    · exact this.2.2.2.1 rfl
  have hsplit : splitSep sep (joinSep sep cols) [] = cols := by
    subst hct
    exact splitSep_join sep c t (hnosep c (by simp)) (fun x hx => hnosep x (by simp [hx]))
  -- which of `;` `,` tab the header line contains
  have hsd : (if (joinSep sep cols).contains 59 then ((59 : UInt8), (44 : UInt8))
      else if (joinSep sep cols).contains 44 then (44, 46)
      else if (joinSep sep cols).contains 9 then (9, 46) else (44, 46)) = (sep, sniffDec sep) := by
    have n59 : sep ≠ 59 → (joinSep sep cols).contains 59 = false := by
      intro hx
      simpa using not_mem_header sep 59 cols h (fun e => hx e.symm) (by decide)
    have n44 : sep ≠ 44 → (joinSep sep cols).contains 44 = false := by
      intro hx
      simpa using not_mem_header sep 44 cols h (fun e => hx e.symm) (by decide)
    have n9 : sep ≠ 9 → (joinSep sep cols).contains 9 = false := by
      intro hx
      simpa using not_mem_header sep 9 cols h (fun e => hx e.symm) (by decide)
    rcases hs with e | e | e
    · subst e
      rw [n59 (by decide)]
      simp only [Bool.false_eq_true, if_false]
      cases hc : (joinSep 44 cols).contains 44 with
      | true => simp only [if_true]; rfl
      | false =>
        rw [n9 (by decide)]
        simp only [Bool.false_eq_true, if_false]; rfl
    · subst e
      have hm : (joinSep 59 cols).contains 59 = true := by
        rcases h2 with e | e
        · exact absurd e (by decide)
        · simpa using sep_mem_header 59 cols e
      rw [hm]
      simp only [if_true]; rfl
    · subst e
      have hm : (joinSep 9 cols).contains 9 = true := by
        rcases h2 with e | e
        · exact absurd e (by decide)
        · simpa using sep_mem_header 9 cols e
      rw [n59 (by decide), n44 (by decide), hm]
      simp only [Bool.false_eq_true, if_false, if_true]; rfl
  unfold readHeader
  simp only [readLine, hline, eatBom_id _ hhead, hsd, hsplit, markNumeric_none cols h 0]

end AslProofs.Csv
