import AslProofs.Csv
import AslProofs.IniRead
import AslProps.C18Spec
/-! # C18 — `myatof` / `myisnumber` on number texts (core Lean only) -/
namespace AslProofs.Csv
open AslModel.Csv
open AslModel.Ini (Bytes charAt idxOf)
open C18Spec (Num IsDigits natVal)
open AslProofs.Ini (idxOf_append_not_mem idxOf_none takeWhile_append_stop takeWhile_all dropWhile_append_stop dropWhile_all)

theorem digit_not {c : UInt8} (h : 48 ≤ c ∧ c ≤ 57) : c ≠ 45 ∧ c ≠ 43 ∧ c ≠ 46 ∧ c ≠ 101 ∧ c ≠ 69 := by
  obtain ⟨h1, h2⟩ := h
  refine ⟨?_, ?_, ?_, ?_, ?_⟩ <;> intro e <;> subst e <;> revert h1 h2 <;> decide

theorem isDigit_of {c : UInt8} (h : 48 ≤ c ∧ c ≤ 57) : isDigit c = true := by
  simp [isDigit, h.1, h.2]

theorem digit_notE {c : UInt8} (h : 48 ≤ c ∧ c ≤ 57) : isE c = false := by
  have := digit_not h
  simp [isE, this.2.2.2.1, this.2.2.2.2]

/-- the digit fold of `myatoiz` / `myatof` over digits is the value of the digit string -/
theorem fold_digits (d : Bytes) (hd : IsDigits d) (y : Int) :
    d.foldl (fun y c => 10 * y + ((c.toNat : Int) - 48)) y
      = y * 10 ^ d.length + (natVal d : Int) := by
  unfold natVal
  suffices h : ∀ (m : Nat) (y : Int), d.foldl (fun y c => 10 * y + ((c.toNat : Int) - 48)) y
      = y * 10 ^ d.length + ((d.foldl (fun y c => 10 * y + (c.toNat - 48)) m : Nat) : Int) - (m : Int) * 10 ^ d.length by
    have := h 0 y; simpa using this
  induction d with
  | nil => intro m y; simp
  | cons c t ih =>
    intro m y
    have hc := hd c (by simp)
    have ht : IsDigits t := fun x hx => hd x (by simp [hx])
    simp only [List.foldl_cons, List.length_cons]
    rw [ih ht (10 * m + (c.toNat - 48)) (10 * y + ((c.toNat : Int) - 48))]
    have h48 : 48 ≤ c.toNat := by
      have := hc.1; exact UInt8.le_iff_toNat_le.mp this
    have : ((10 * m + (c.toNat - 48) : Nat) : Int) = 10 * (m : Int) + ((c.toNat : Int) - 48) := by omega
    rw [this, Int.pow_succ]
    generalize (10 : Int) ^ t.length = p
    generalize ((List.foldl (fun y c => 10 * y + (c.toNat - 48)) (10 * m + (c.toNat - 48)) t : Nat) : Int) = q
    have e1 : (10 * y + ((c.toNat : Int) - 48)) * p = y * (p * 10) + ((c.toNat : Int) - 48) * p := by
      rw [Int.add_mul, Int.mul_comm p 10, ← Int.mul_assoc, Int.mul_comm 10 y]
    have e2 : (10 * (m : Int) + ((c.toNat : Int) - 48)) * p = (m : Int) * (p * 10) + ((c.toNat : Int) - 48) * p := by
      rw [Int.add_mul, Int.mul_comm p 10, ← Int.mul_assoc, Int.mul_comm 10 (m : Int)]
    rw [e1, e2]
    omega

theorem atoiz_digits (d : Bytes) (hd : IsDigits d) (hne : d ≠ []) : atoiz d = (natVal d : Int) := by
  cases d with
  | nil => exact absurd rfl hne
  | cons c t =>
    have hc := digit_not (hd c (by simp))
    have h1 : ¬ c = 45 := hc.1
    have h2 : ¬ c = 43 := hc.2.1
    unfold atoiz
    split
    · rename_i heq; simp at heq; exact absurd heq.1 h1
    · rename_i heq; simp at heq; exact absurd heq.1 h2
    · have := fold_digits (c :: t) hd 0
      simpa [atoizDigits] using this

theorem atoiz_minus (d : Bytes) (hd : IsDigits d) : atoiz (45 :: d) = -(natVal d : Int) := by
  have := fold_digits d hd 0
  simp only [Int.zero_mul, Int.zero_add] at this
  simp [atoiz, atoizDigits, this]


theorem expScan_head (x y : UInt8) (r : Bytes) : expScan (x :: r) = expScan (y :: r) := by
  cases r with
  | nil => rfl
  | cons c u => simp [expScan]

theorem expScan_digits (x : UInt8) (ds r : Bytes) (hd : IsDigits ds) : expScan (x :: ds ++ r) = expScan (x :: r) := by
  induction ds generalizing x with
  | nil => rfl
  | cons y t ih =>
    have hy := digit_notE (hd y (by simp))
    have ht : IsDigits t := fun z hz => hd z (by simp [hz])
    have : expScan (x :: (y :: t) ++ r) = expScan (y :: t ++ r) := by
      show expScan (x :: y :: (t ++ r)) = _
      simp [expScan, hy]
    rw [this, ih y ht]
    exact expScan_head y x r

theorem expScan_cons2 (x c : UInt8) (u : Bytes) :
    expScan (x :: c :: u) = if isE c then expAfterE u else expScan (c :: u) := by
  simp [expScan]

theorem expScan_expText (x : UInt8) (n : Num) (h : n.WF) : expScan (x :: n.expText) = n.expVal := by
  unfold Num.expText Num.expVal
  cases he : n.exp with
  | none => simp [expScan]
  | some v =>
    obtain ⟨e, sgn, ed⟩ := v
    obtain ⟨hee, hed, hne⟩ := h.2.2.2 e sgn ed he
    have hE : isE e = true := by rcases hee with r | r <;> subst r <;> rfl
    simp only [List.cons_append]
    rw [expScan_cons2, hE, if_pos rfl]
    cases sgn with
    | none =>
      simp only [List.nil_append]
      cases ed with
      | nil => exact absurd rfl hne
      | cons c t =>
        have hc := digit_not (hed c (by simp))
        have : ¬ c = 43 := hc.2.1
        unfold expAfterE
        split
        · rename_i heq; simp at heq; exact absurd heq.1 this
        · simp [atoiz_digits (c :: t) hed hne]
    | some b =>
      cases b with
      | true => simp [expAfterE, atoiz_minus ed hed]
      | false => simp [expAfterE, atoiz_digits ed hed hne]

theorem fold_skip_dot (a b : Bytes) (ha : IsDigits a) (hb : IsDigits b) :
    (a ++ 46 :: b).foldl (fun (y : Int) c => if c = 46 then y else 10 * y + ((c.toNat : Int) - 48)) 0
      = (natVal (a ++ b) : Int) := by
  have hdig : ∀ (d : Bytes), IsDigits d → ∀ y : Int,
      d.foldl (fun (y : Int) c => if c = 46 then y else 10 * y + ((c.toNat : Int) - 48)) y
        = d.foldl (fun (y : Int) c => 10 * y + ((c.toNat : Int) - 48)) y := by
    intro d hd
    induction d with
    | nil => intro y; rfl
    | cons c t ih =>
      intro y
      have hc : ¬ c = 46 := (digit_not (hd c (by simp))).2.2.1
      simp only [List.foldl_cons, hc, if_false]
      exact ih (fun z hz => hd z (by simp [hz])) _
  rw [List.foldl_append, List.foldl_cons, hdig a ha]
  simp only [if_true]
  rw [hdig b hb, ← List.foldl_append]
  have hab : IsDigits (a ++ b) := by
    intro c hc
    rcases List.mem_append.mp hc with h | h
    · exact ha c h
    · exact hb c h
  have := fold_digits (a ++ b) hab 0
  simpa using this

theorem notE_digits (d : Bytes) (hd : IsDigits d) : ∀ x ∈ d, (!isE x) = true := by
  intro x hx; simp [digit_notE (hd x hx)]

/-- the bytes up to the exponent mark -/
theorem takeWhile_notE (m : Bytes) (n : Num) (h : n.WF) (hm : ∀ x ∈ m, (!isE x) = true) :
    (m ++ n.expText).takeWhile (fun c => !isE c) = m := by
  unfold Num.expText
  cases he : n.exp with
  | none => simpa using takeWhile_all m hm
  | some v =>
    obtain ⟨e, sgn, ed⟩ := v
    obtain ⟨hee, _, _⟩ := h.2.2.2 e sgn ed he
    have hE : (!isE e) = false := by rcases hee with r | r <;> subst r <;> rfl
    simp only
    exact takeWhile_append_stop m e _ hm hE

theorem expText_no_dot (n : Num) (h : n.WF) : 46 ∉ n.expText := by
  unfold Num.expText
  cases he : n.exp with
  | none => simp
  | some v =>
    obtain ⟨e, sgn, ed⟩ := v
    obtain ⟨hee, hed, _⟩ := h.2.2.2 e sgn ed he
    simp only
    intro hmem
    rcases List.mem_cons.mp hmem with h1 | h1
    · rcases hee with r | r <;> subst r <;> simp at h1
    · rcases List.mem_append.mp h1 with h2 | h2
      · cases sgn with
        | none => simp at h2
        | some b => cases b <;> simp at h2
      · exact (digit_not (hed 46 h2)).2.2.1 rfl

theorem digits_no_dot (d : Bytes) (hd : IsDigits d) : 46 ∉ d := fun hc => (digit_not (hd 46 hc)).2.2.1 rfl

/-- text after the sign -/
def unsignedText (n : Num) : Bytes :=
  n.ip ++ (match n.frac with | some fp => 46 :: fp | none => []) ++ n.expText

theorem drop_cons_len (x : UInt8) (l r : Bytes) : ∃ z, (x :: l ++ r).drop l.length = z :: r := by
  induction l generalizing x with
  | nil => exact ⟨x, rfl⟩
  | cons y t ih =>
    obtain ⟨z, hz⟩ := ih y
    exact ⟨z, by simpa using hz⟩

theorem atofMant_text (n : Num) (h : n.WF) : atofMant (unsignedText n) = (natVal (n.ip ++ n.fracDigits) : Int) := by
  unfold atofMant unsignedText Num.fracDigits
  obtain ⟨hip, hfp, _, _⟩ := h
  cases hf : n.frac with
  | none =>
    simp only [List.append_nil, Option.getD_none]
    rw [takeWhile_notE n.ip n ⟨hip, hfp, by assumption, by assumption⟩ (notE_digits n.ip hip)]
    have hdig : ∀ (d : Bytes), IsDigits d → ∀ y : Int,
        d.foldl (fun (y : Int) c => if c = 46 then y else 10 * y + ((c.toNat : Int) - 48)) y
          = d.foldl (fun (y : Int) c => 10 * y + ((c.toNat : Int) - 48)) y := by
      intro d hd
      induction d with
      | nil => intro y; rfl
      | cons c t ih =>
        intro y
        have hc : ¬ c = 46 := (digit_not (hd c (by simp))).2.2.1
        simp only [List.foldl_cons, hc, if_false]
        exact ih (fun z hz => hd z (by simp [hz])) _
    rw [hdig n.ip hip]
    have := fold_digits n.ip hip 0
    simpa using this
  | some fp =>
    have hfp' : IsDigits fp := by simpa [Num.fracDigits, hf] using hfp
    simp only [Option.getD_some]
    have hm : ∀ x ∈ n.ip ++ 46 :: fp, (!isE x) = true := by
      intro x hx
      rcases List.mem_append.mp hx with e | e
      · exact notE_digits n.ip hip x e
      · rcases List.mem_cons.mp e with e' | e'
        · subst e'; rfl
        · exact notE_digits fp hfp' x e'
    rw [takeWhile_notE (n.ip ++ 46 :: fp) n ⟨hip, hfp, by assumption, by assumption⟩ hm]
    exact fold_skip_dot n.ip fp hip hfp'

theorem atofExp_text (n : Num) (h : n.WF) : atofExp (unsignedText n) = n.expVal - (n.fracDigits.length : Int) := by
  unfold atofExp unsignedText Num.fracDigits
  have hwf := h
  obtain ⟨hip, hfp, hlen, _⟩ := h
  cases hf : n.frac with
  | none =>
    simp only [List.append_nil, Option.getD_none, List.length_nil]
    have hnd : 46 ∉ n.ip ++ n.expText := by
      simp only [List.mem_append, not_or]
      exact ⟨digits_no_dot n.ip hip, expText_no_dot n hwf⟩
    rw [idxOf_none 46 _ hnd]
    simp only
    -- ip is not empty here
    cases hipc : n.ip with
    | nil => simp [Num.fracDigits, hf, hipc] at hlen
    | cons c t =>
      have ht : IsDigits t := fun z hz => hip z (by simp [hipc, hz])
      rw [List.cons_append, ← List.cons_append, expScan_digits c t n.expText ht, expScan_expText c n hwf]
      simp
  | some fp =>
    have hfp' : IsDigits fp := by simpa [Num.fracDigits, hf] using hfp
    simp only [Option.getD_some]
    have e1 : n.ip ++ 46 :: fp ++ n.expText = n.ip ++ 46 :: (fp ++ n.expText) := by simp
    rw [e1, idxOf_append_not_mem 46 n.ip _ (digits_no_dot n.ip hip)]
    simp only
    have e2 : (n.ip ++ 46 :: (fp ++ n.expText)).drop (n.ip.length + 1) = fp ++ n.expText :=
      AslProofs.Ini.drop_len_succ_append n.ip 46 _
    rw [e2, takeWhile_notE fp n hwf (notE_digits fp hfp')]
    have e3 : (n.ip ++ 46 :: (fp ++ n.expText)).drop (n.ip.length + fp.length) = (46 :: fp ++ n.expText).drop fp.length := by
      rw [List.drop_append]
      simp
    obtain ⟨z, hz⟩ := drop_cons_len 46 fp n.expText
    rw [e3, hz, expScan_expText z n hwf]

theorem text_eq (n : Num) : n.text = (if n.neg then [45] else []) ++ unsignedText n := by
  unfold Num.text unsignedText
  cases n.frac <;> simp [List.append_assoc]

/-- first byte of the unsigned text is a digit or the dot -/
theorem unsigned_head (n : Num) (h : n.WF) : ∃ c r, unsignedText n = c :: r ∧ c ≠ 45 := by
  obtain ⟨hip, hfp, hlen, _⟩ := h
  unfold unsignedText
  cases hipc : n.ip with
  | cons c t => exact ⟨c, _, rfl, (digit_not (hip c (by simp [hipc]))).1⟩
  | nil =>
    cases hf : n.frac with
    | none => simp [Num.fracDigits, hf, hipc] at hlen
    | some fp => exact ⟨46, _, rfl, by decide⟩

/-- **`myatof` on a number text**: sign, all mantissa digits as one integer, exponent minus the fraction length -/
theorem atofDec_text (n : Num) (h : n.WF) :
    atofDec n.text = { neg := n.neg, mant := (natVal (n.ip ++ n.fracDigits) : Int),
                       exp := n.expVal - (n.fracDigits.length : Int) } := by
  obtain ⟨c, r, hu, hc⟩ := unsigned_head n h
  unfold atofDec
  rw [text_eq]
  cases hn : n.neg with
  | true =>
    simp only [if_true, List.cons_append, List.nil_append, charAt, List.getD_cons_zero, beq_self_eq_true,
      List.drop_succ_cons, List.drop_zero, atofMant_text n h, atofExp_text n h]
  | false =>
    have h0 : (charAt (unsignedText n) 0 == 45) = false := by
      rw [hu]; simp [charAt, hc]
    simp only [Bool.false_eq_true, if_false, List.nil_append, h0, atofMant_text n h, atofExp_text n h]

theorem all_isDigit (d : Bytes) (hd : IsDigits d) : ∀ x ∈ d, isDigit x = true := fun x hx => isDigit_of (hd x hx)

theorem isNumberExp_text (n : Num) (h : n.WF) : isNumberExp n.expText = true := by
  unfold Num.expText
  cases he : n.exp with
  | none => rfl
  | some v =>
    obtain ⟨e, sgn, ed⟩ := v
    obtain ⟨hee, hed, hne⟩ := h.2.2.2 e sgn ed he
    have hE : (e = 101 || e = 69) = true := by rcases hee with r | r <;> subst r <;> rfl
    have hall : ed.all isDigit = true := List.all_eq_true.mpr (all_isDigit ed hed)
    have hnee : ed.isEmpty = false := by cases ed <;> simp_all
    cases sgn with
    | none =>
      cases ed with
      | nil => exact absurd rfl hne
      | cons c t =>
        have hc := digit_not (hed c (by simp))
        have h1 : ¬ c = 43 := hc.2.1
        have h2 : ¬ c = 45 := hc.1
        have hm : skipSign (c :: t) = c :: t := by
          unfold skipSign
          split
          · rename_i heq; simp at heq; exact absurd heq.1 h1
          · rename_i heq; simp at heq; exact absurd heq.1 h2
          · rfl
        show isNumberExp (e :: c :: t) = true
        simp only [isNumberExp, hE, if_true, hm, hall]
        rfl
    | some b =>
      cases b with
      | true => simp only [isNumberExp, hE, if_true, List.cons_append, List.nil_append, skipSign]; simp [hnee, hall]
      | false => simp only [isNumberExp, hE, if_true, List.cons_append, List.nil_append, skipSign]; simp [hnee, hall]

theorem expText_head_not_digit (n : Num) (h : n.WF) : ∀ c r, n.expText = c :: r → isDigit c = false ∧ c ≠ 46 := by
  intro c r hcr
  unfold Num.expText at hcr
  cases he : n.exp with
  | none => simp [he] at hcr
  | some v =>
    obtain ⟨e, sgn, ed⟩ := v
    obtain ⟨hee, _, _⟩ := h.2.2.2 e sgn ed he
    simp only [he, List.cons_append, List.cons.injEq] at hcr
    rw [← hcr.1]
    rcases hee with r | r <;> subst r <;> exact ⟨by decide, by decide⟩

/-- **every number text is recognised as a number** -/
theorem isNumber_text (n : Num) (h : n.WF) : isNumber 46 n.text = true := by
  have hwf := h
  obtain ⟨hip, hfp, hlen, _⟩ := h
  obtain ⟨c, r, hu, hc⟩ := unsigned_head n hwf
  unfold isNumber
  have hs1 : skipMinus n.text = unsignedText n := by
    rw [text_eq]
    cases n.neg with
    | true => simp [skipMinus]
    | false =>
      simp only [Bool.false_eq_true, if_false, List.nil_append, hu]
      unfold skipMinus
      split
      · rename_i heq; simp at heq; exact absurd heq.1 hc
      · rfl
  simp only [hs1]
  -- split the unsigned text at the end of the integer digits
  unfold unsignedText
  cases hf : n.frac with
  | none =>
    have hipne : n.ip.length ≠ 0 := by
      simp [Num.fracDigits, hf] at hlen; omega
    simp only [List.append_nil]
    cases hx : n.expText with
    | nil =>
      simp only [List.append_nil, takeWhile_all n.ip (all_isDigit n.ip hip), dropWhile_all n.ip (all_isDigit n.ip hip)]
      simp [hipne]
    | cons e rest =>
      obtain ⟨hed, he46⟩ := expText_head_not_digit n hwf e rest hx
      rw [takeWhile_append_stop n.ip e rest (all_isDigit n.ip hip) hed,
        dropWhile_append_stop n.ip e rest (all_isDigit n.ip hip) hed]
      simp only [he46, if_false, hipne]
      rw [← hx]; exact isNumberExp_text n hwf
  | some fp =>
    have hfp' : IsDigits fp := by simpa [Num.fracDigits, hf] using hfp
    have hlen' : n.ip.length + fp.length ≠ 0 := by
      simp [Num.fracDigits, hf] at hlen; omega
    have e1 : n.ip ++ 46 :: fp ++ n.expText = n.ip ++ 46 :: (fp ++ n.expText) := by simp
    have h46 : isDigit 46 = false := by decide
    rw [e1, takeWhile_append_stop n.ip 46 _ (all_isDigit n.ip hip) h46,
      dropWhile_append_stop n.ip 46 _ (all_isDigit n.ip hip) h46]
    simp only [if_true]
    cases hx : n.expText with
    | nil =>
      simp only [List.append_nil, takeWhile_all fp (all_isDigit fp hfp'), dropWhile_all fp (all_isDigit fp hfp')]
      have : ¬ (n.ip.length + fp.length = 0) := hlen'
      simp only [this, if_false, isNumberExp]
    | cons e rest =>
      obtain ⟨hed, _⟩ := expText_head_not_digit n hwf e rest hx
      rw [takeWhile_append_stop fp e rest (all_isDigit fp hfp') hed,
        dropWhile_append_stop fp e rest (all_isDigit fp hfp') hed]
      simp only [hlen', if_false]
      rw [← hx]; exact isNumberExp_text n hwf


end AslProofs.Csv
