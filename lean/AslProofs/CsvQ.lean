import AslProofs.CsvNum
import Mathlib.Tactic.FieldSimp
import Mathlib.Tactic.Ring
import Mathlib.Algebra.Field.Rat
/-! # C18 — the rational value of `myatof`'s result (uses Mathlib's ℚ, `ring`, `field_simp`) -/
namespace AslProofs.Csv
open AslModel.Csv C18Spec

/-- the rational number a number text spells -/
def numValue (n : Num) : ℚ :=
  (if n.neg then -1 else 1) * ((natVal n.ip : ℚ) + (natVal n.fracDigits : ℚ) / 10 ^ n.fracDigits.length) * (10 : ℚ) ^ n.expVal

/-- the rational number `± y1 · 10^exp` -/
def decValue (d : Dec) : ℚ := (if d.neg then -1 else 1) * (d.mant : ℚ) * (10 : ℚ) ^ d.exp

theorem natVal_append (a b : List UInt8) : natVal (a ++ b) = natVal a * 10 ^ b.length + natVal b := by
  unfold natVal
  rw [List.foldl_append]
  generalize List.foldl (fun y c => 10 * y + (c.toNat - 48)) 0 a = y
  suffices h : ∀ (m y : Nat), List.foldl (fun y (c : UInt8) => 10 * y + (c.toNat - 48)) (y * 1 + m) b
      = y * 10 ^ b.length + List.foldl (fun y (c : UInt8) => 10 * y + (c.toNat - 48)) m b by
    have := h 0 y; simpa using this
  induction b with
  | nil => intro m y; simp
  | cons c t ih =>
    intro m y
    simp only [List.foldl_cons, List.length_cons]
    have := ih (10 * m + (c.toNat - 48)) (10 * y)
    rw [show 10 * (y * 1 + m) + (c.toNat - 48) = 10 * y * 1 + (10 * m + (c.toNat - 48)) by ring, this]
    ring

theorem number_exact (n : Num) (h : n.WF) : decValue (atofDec n.text) = numValue n := by
  rw [AslProofs.Csv.atofDec_text n h]
  unfold decValue numValue
  simp only
  rw [natVal_append]
  have h10 : (10 : ℚ) ≠ 0 := by norm_num
  rw [zpow_sub₀ h10, zpow_natCast]
  push_cast
  field_simp

end AslProofs.Csv
