import AslProofs.CsvNum
import Mathlib.Tactic.FieldSimp
import Mathlib.Tactic.Ring
import Mathlib.Algebra.Field.Rat
/-! # C18 — the rational value of `myatof`'s result (uses Mathlib's ℚ, `ring`, `field_simp`) -/
namespace AslProofs.Csv
open AslModel.Csv C18Spec

/-- the rational number a number text spells -/
def numValue (n : Num) : ℚ :=
  (if n.neg then -1 else 1) * ((natVal n.ip : ℚ) + (natVal n.fracDigits : ℚ) / 10 ^ n.fracDigits.length) * (10 : ℚ) ^ n.expVal

/-- the rational number `± y1 · 10^exp` -/
def decValue (d : Dec) : ℚ := (if d.neg then -1 else 1) * (d.mant : ℚ) * (10 : ℚ) ^ d.exp

theorem natVal_append (a b : List UInt8) : natVal (a ++ b) = natVal a * 10 ^ b.length + natVal b := by
  unfold natVal
  rw [List.foldl_append]
  generalize List.foldl (fun y c => 10 * y + (c.toNat - 48)) 0 a = y
  suffices h : ∀ (m y : Nat), List.foldl (fun y (c : UInt8) => 10 * y + (c.toNat - 48)) (y * 1 + m) b
      = y * 10 ^ b.length + List.foldl (fun y (c : UInt8) => 10 * y + (c.toNat - 48)) m b by
    have := h 0 y; simpa using this
  induction b with
  | nil => intro m y; simp
  | cons c t ih =>
    intro m y
    simp only [List.foldl_cons, List.length_cons]
    have := ih (10 * m + (c.toNat - 48)) (10 * y)
    rw [show 10 * (y * 1 + m) + (c.toNat - 48) = 10 * y * 1 + (10 * m + (c.toNat - 48)) by ring, this]
    ring

theorem number_exact (n : Num) (h : n.WF) : decValue (atofDec n.text) = numValue n := by
  rw [AslProofs.Csv.atofDec_text n h]
  unfold decValue numValue
  simp only
  rw [natVal_append]
  have h10 : (10 : ℚ) ≠ 0 := by norm_num
  rw [zpow_sub₀ h10, zpow_natCast]
  push_cast
  field_simp

theorem natVal_fold_le (d : List UInt8) (hd : IsDigits d) (y : Nat) :
    d.foldl (fun y c => 10 * y + (c.toNat - 48)) y + 1 ≤ (y + 1) * 10 ^ d.length := by
  induction d generalizing y with
  | nil => simp
  | cons c t ih =>
    have hc := hd c (by simp)
    have h57 : c.toNat ≤ 57 := UInt8.le_iff_toNat_le.mp hc.2
    have ht : IsDigits t := fun x hx => hd x (by simp [hx])
    simp only [List.foldl_cons, List.length_cons]
    have := ih ht (10 * y + (c.toNat - 48))
    calc _ ≤ (10 * y + (c.toNat - 48) + 1) * 10 ^ t.length := this
      _ ≤ (10 * y + 10) * 10 ^ t.length := Nat.mul_le_mul_right _ (by omega)
      _ = (y + 1) * 10 ^ (t.length + 1) := by ring

theorem natVal_lt (d : List UInt8) (hd : IsDigits d) : natVal d < 10 ^ d.length := by
  have := natVal_fold_le d hd 0
  unfold natVal
  omega

theorem number_in_range (n : Num) (h : n.WF) (hr : n.InRange) :
    0 ≤ (atofDec n.text).mant ∧ (atofDec n.text).mant < 2 ^ 63 ∧
    -(2 ^ 31 : Int) < (atofDec n.text).exp ∧ (atofDec n.text).exp < 2 ^ 31 := by
  rw [atofDec_text n h]
  simp only
  obtain ⟨hlen, hexp⟩ := hr
  have hdig : IsDigits (n.ip ++ n.fracDigits) := by
    intro c hc
    rcases List.mem_append.mp hc with e | e
    · exact h.1 c e
    · exact h.2.1 c e
  have hm := natVal_lt _ hdig
  have hpow : (10 : Nat) ^ (n.ip ++ n.fracDigits).length ≤ 10 ^ 18 :=
    Nat.pow_le_pow_right (by norm_num) (by simpa using hlen)
  have hf : n.fracDigits.length ≤ 18 := by omega
  have he : -(10 ^ 9 : Int) < n.expVal ∧ n.expVal < 10 ^ 9 := by
    unfold Num.expVal
    cases hx : n.exp with
    | none => simp
    | some v =>
      obtain ⟨e, sgn, ed⟩ := v
      have hed := (h.2.2.2 e sgn ed hx).2.1
      have hl := hexp e sgn ed hx
      have h1 := natVal_lt ed hed
      have h2 : (10 : Nat) ^ ed.length ≤ 10 ^ 9 := Nat.pow_le_pow_right (by norm_num) hl
      simp only
      split <;> constructor <;> omega
  refine ⟨by omega, ?_, ?_, ?_⟩
  · have : (natVal (n.ip ++ n.fracDigits) : Int) < 10 ^ 18 := by exact_mod_cast lt_of_lt_of_le hm hpow
    norm_num at this ⊢; omega
  · norm_num at he ⊢; omega
  · norm_num at he ⊢; omega


end AslProofs.Csv
