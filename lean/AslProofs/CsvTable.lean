import AslProofs.CsvNum
/-! # C18 — a table written by `TabularDataFile` and read back (core Lean only) -/
namespace AslProofs.Csv
open AslModel.Csv
open AslModel.Ini (Bytes charAt idxOf splitLF stripCR)
open C18Spec (Num IsDigits natVal)

/-- column names: identifiers not starting with a digit -/
def ColOK (n : Bytes) : Prop :=
  (∀ c ∈ n, (48 ≤ c ∧ c ≤ 57) ∨ (65 ≤ c ∧ c ≤ 90) ∨ (97 ≤ c ∧ c ≤ 122) ∨ c = 95) ∧
  ∃ c r, n = c :: r ∧ ¬ (48 ≤ c ∧ c ≤ 57)

/-- string cells: one line, not spelling a number (the file format cannot tell such a string from the
    number), not starting with the first byte of a byte-order mark -/
def StrOK (s : Bytes) : Prop := 10 ∉ s ∧ 13 ∉ s ∧ isNumber 46 s = false ∧ s.head? ≠ some 0xEF ∧ 0 ∉ s

def NumText (l : Bytes) : Prop := ∃ n : Num, n.WF ∧ l = n.text

def CellWF : Cell → Prop
  | .str s => StrOK s
  | .num l => NumText l

/-- the cell `data()` is expected to return -/
def expected : Cell → RCell
  | .str s => .str s
  | .num l => .num (atofDec l)

/-- bytes that occur in number texts -/
def numByte (c : UInt8) : Prop := (48 ≤ c ∧ c ≤ 57) ∨ c = 45 ∨ c = 43 ∨ c = 46 ∨ c = 101 ∨ c = 69

def AllNum (b : Bytes) : Prop := ∀ c ∈ b, numByte c

theorem allNum_append {a b : Bytes} (ha : AllNum a) (hb : AllNum b) : AllNum (a ++ b) := by
  intro c hc
  rcases List.mem_append.mp hc with h | h
  · exact ha c h
  · exact hb c h

theorem allNum_digits {d : Bytes} (h : IsDigits d) : AllNum d := fun c hc => Or.inl (h c hc)

theorem allNum_one (x : UInt8) (h : numByte x) : AllNum [x] := by
  intro c hc; simp at hc; subst hc; exact h

theorem allNum_nil : AllNum [] := by intro c hc; simp at hc

theorem numText_bytes (n : Num) (h : n.WF) : ∀ c ∈ n.text, numByte c := by
  obtain ⟨hip, hfp, _, hexp⟩ := h
  have h45 : numByte 45 := Or.inr (Or.inl rfl)
  have h43 : numByte 43 := Or.inr (Or.inr (Or.inl rfl))
  have h46 : numByte 46 := Or.inr (Or.inr (Or.inr (Or.inl rfl)))
  have h101 : numByte 101 := Or.inr (Or.inr (Or.inr (Or.inr (Or.inl rfl))))
  have h69 : numByte 69 := Or.inr (Or.inr (Or.inr (Or.inr (Or.inr rfl))))
  show AllNum n.text
  unfold Num.text
  refine allNum_append (allNum_append (allNum_append ?_ (allNum_digits hip)) ?_) ?_
  · cases n.neg
    · exact allNum_nil
    · exact allNum_one 45 h45
  · cases hf : n.frac with
    | none => exact allNum_nil
    | some fp =>
      have : IsDigits fp := by simpa [Num.fracDigits, hf] using hfp
      exact allNum_append (a := [46]) (allNum_one 46 h46) (allNum_digits this)
  · unfold Num.expText
    cases he : n.exp with
    | none => exact allNum_nil
    | some v =>
      obtain ⟨e, sgn, ed⟩ := v
      obtain ⟨hee, hed, _⟩ := hexp e sgn ed he
      have h1 : AllNum [e] := by
        rcases hee with r | r <;> subst r
        · exact allNum_one 101 h101
        · exact allNum_one 69 h69
      cases sgn with
      | none => exact allNum_append (a := [e]) h1 (allNum_append allNum_nil (allNum_digits hed))
      | some b =>
        cases b
        · exact allNum_append (a := [e]) h1 (allNum_append (allNum_one 43 h43) (allNum_digits hed))
        · exact allNum_append (a := [e]) h1 (allNum_append (allNum_one 45 h45) (allNum_digits hed))

theorem numByte_ne (c : UInt8) (h : numByte c) : c ≠ 10 ∧ c ≠ 13 ∧ c ≠ 34 ∧ c ≠ 44 ∧ c ≠ 0xEF ∧ c ≠ 0 := by
  unfold numByte at h
  simp only [UInt8.le_iff_toNat_le, ne_eq, ← UInt8.toNat_inj] at h ⊢
  simp at h ⊢
  omega

theorem writeCell_str (sep q : UInt8) (s : Bytes) :
    writeCell sep q (.str s) = if s.contains q || s.contains sep then [q] ++ doubleQuotes q s ++ [q] else s := rfl

theorem writeCell_num (sep q : UInt8) (l : Bytes) : writeCell sep q (.num l) = l := rfl

/-- no line break anywhere -/
def Clean (b : Bytes) : Prop := 10 ∉ b ∧ 13 ∉ b

theorem clean_append {a b : Bytes} (ha : Clean a) (hb : Clean b) : Clean (a ++ b) := by
  constructor <;> simp only [List.mem_append, not_or]
  · exact ⟨ha.1, hb.1⟩
  · exact ⟨ha.2, hb.2⟩

theorem clean_doubleQuotes (s : Bytes) (h : Clean s) : Clean (doubleQuotes 34 s) := by
  induction s with
  | nil => exact ⟨by simp [doubleQuotes], by simp [doubleQuotes]⟩
  | cons c t ih =>
    have hc1 : c ≠ 10 := fun e => h.1 (by simp [e])
    have hc2 : c ≠ 13 := fun e => h.2 (by simp [e])
    have ht : Clean t := ⟨fun e => h.1 (by simp [e]), fun e => h.2 (by simp [e])⟩
    have := ih ht
    have e : doubleQuotes 34 (c :: t) = (if c = 34 then [34, 34] else [c]) ++ doubleQuotes 34 t := by
      simp [doubleQuotes]
    rw [e]
    apply clean_append _ this
    by_cases hq : c = 34
    · subst hq; exact ⟨by decide, by decide⟩
    · simp only [hq, if_false]
      exact ⟨by simpa using fun e => hc1 e.symm, by simpa using fun e => hc2 e.symm⟩

theorem cellWF_ok (c : Cell) (h : CellWF c) : CellOK 44 c := by
  cases c with
  | str s => exact ⟨h.2.2.2.2, h.1, h.2.1⟩
  | num l =>
    obtain ⟨n, hn, rfl⟩ := h
    exact ⟨fun hc => (numByte_ne 34 (numText_bytes n hn 34 hc)).2.2.1 rfl,
           fun hc => (numByte_ne 44 (numText_bytes n hn 44 hc)).2.2.2.1 rfl,
           fun hc => (numByte_ne 0 (numText_bytes n hn 0 hc)).2.2.2.2.2 rfl,
           fun hc => (numByte_ne 10 (numText_bytes n hn 10 hc)).1 rfl,
           fun hc => (numByte_ne 13 (numText_bytes n hn 13 hc)).2.1 rfl⟩

theorem clean_writeCell (c : Cell) (h : CellWF c) : Clean (writeCell 44 34 c) := by
  cases c with
  | str s =>
    have hs : Clean s := ⟨h.1, h.2.1⟩
    have hq : Clean [34] := ⟨by decide, by decide⟩
    rw [writeCell_str]
    split
    · exact clean_append (clean_append hq (clean_doubleQuotes s hs)) hq
    · exact hs
  | num l =>
    obtain ⟨n, hn, rfl⟩ := h
    rw [writeCell_num]
    exact ⟨fun hc => (numByte_ne 10 (numText_bytes n hn 10 hc)).1 rfl,
           fun hc => (numByte_ne 13 (numText_bytes n hn 13 hc)).2.1 rfl⟩

theorem clean_writeRow (r : List Cell) (h : ∀ c ∈ r, CellWF c) : Clean (writeRow 44 34 r) := by
  cases r with
  | nil => exact ⟨by simp [writeRow], by simp [writeRow]⟩
  | cons c t =>
    rw [writeRow_cons]
    apply clean_append (clean_writeCell c (h c (by simp)))
    induction t with
    | nil => exact ⟨by simp, by simp⟩
    | cons x t ih =>
      simp only [List.flatMap_cons]
      have hx := clean_writeCell x (h x (by simp))
      have : Clean (44 :: writeCell 44 34 x) := by
        have := clean_append (a := [44]) ⟨by decide, by decide⟩ hx
        simpa using this
      exact clean_append this (ih (fun y hy => by
        rcases List.mem_cons.mp hy with e | e
        · subst e; exact h y (by simp)
        · exact h y (by simp [e])))

/-- first byte of a written row is not the first byte of a byte-order mark -/
theorem writeRow_head (r : List Cell) (h : ∀ c ∈ r, CellWF c) : (writeRow 44 34 r).head? ≠ some 0xEF := by
  cases r with
  | nil => simp [writeRow]
  | cons c t =>
    rw [writeRow_cons]
    have hcw : CellWF c := h c (by simp)
    cases c with
    | num l =>
      obtain ⟨n, hn, rfl⟩ := hcw
      rw [writeCell_num]
      obtain ⟨x, rest, hu, _⟩ := unsigned_head n hn
      cases ht : n.text with
      | nil =>
        rw [text_eq, hu] at ht
        cases n.neg <;> simp at ht
      | cons y ys =>
        simp only [List.cons_append, List.head?_cons, ne_eq, Option.some.injEq]
        have : y ∈ n.text := by rw [ht]; simp
        exact (numByte_ne y (numText_bytes n hn y this)).2.2.2.2.1
    | str s =>
      rw [writeCell_str]
      split
      · simp
      · cases s with
        | nil =>
          cases t with
          | nil => simp
          | cons x t => simp
        | cons y ys =>
          simp only [List.cons_append, List.head?_cons, ne_eq, Option.some.injEq]
          have := hcw.2.2.2.1
          simpa using this

/-! ## the writer -/

theorem cell_ne_newline (x : Cell) (h : CellWF x) : (x == Cell.str [10]) = false := by
  cases x with
  | num l => simp
  | str s =>
    have : s ≠ [10] := by
      intro e; subst e; exact h.1 (by simp)
    simpa using this

/-- the text of one row as it goes into the file -/
def rowOut (started : Bool) (r : List Cell) : Bytes :=
  (if started then [] else [10]) ++ writeRow 44 34 r ++ [10]

theorem putCells_row (w : WState) (pre r : List Cell) (hw : w.row = pre)
    (hlen : pre.length + r.length = w.ncols) (hne : r ≠ []) (hcells : ∀ c ∈ r, CellWF c) :
    r.foldl putCell w =
      { w with text := w.text ++ rowOut w.dataStarted (pre ++ r), row := [], dataStarted := true } := by
  induction r generalizing w pre with
  | nil => exact absurd rfl hne
  | cons x t ih =>
    have hx : (x == Cell.str [10]) = false := cell_ne_newline x (hcells x (by simp))
    simp only [List.foldl_cons]
    cases t with
    | nil =>
      have hl : (pre ++ [x]).length = w.ncols := by simpa using hlen
      simp only [List.foldl_nil, putCell, hx, Bool.false_and, Bool.false_eq_true, if_false, hw, hl, beq_self_eq_true,
        Bool.or_false, if_true, rowOut]
      simp [List.append_assoc]
    | cons y t' =>
      have hl : ¬ (pre ++ [x]).length = w.ncols := by
        simp only [List.length_append, List.length_cons, List.length_nil] at hlen ⊢; omega
      have hstep : putCell w x = { w with row := pre ++ [x] } := by
        simp only [putCell, hx, Bool.false_and, Bool.false_eq_true, if_false, hw, Bool.or_false]
        have : ((pre ++ [x]).length == w.ncols) = false := by simpa using hl
        rw [this]; simp
      rw [hstep]
      have := ih { w with row := pre ++ [x] } (pre ++ [x]) rfl (by simp at hlen ⊢; omega) (by simp)
        (fun c hc => hcells c (by simp [hc]))
      rw [this]
      simp [List.append_assoc]

/-- the file after `columns(cols)` and all the rows -/
def rowsOut : Bool → List (List Cell) → Bytes
  | _, [] => []
  | started, r :: t => rowOut started r ++ rowsOut true t

theorem putRows (w : WState) (rows : List (List Cell)) (hw : w.row = [])
    (hrows : ∀ r ∈ rows, r.length = w.ncols ∧ r ≠ [] ∧ ∀ c ∈ r, CellWF c) :
    (rows.flatten.foldl putCell w).text = w.text ++ rowsOut w.dataStarted rows := by
  induction rows generalizing w with
  | nil => simp [rowsOut]
  | cons r t ih =>
    obtain ⟨h1, h2, h3⟩ := hrows r (by simp)
    simp only [List.flatten_cons, List.foldl_append]
    rw [putCells_row w [] r hw (by simpa using h1) h2 h3]
    rw [ih { w with text := w.text ++ rowOut w.dataStarted ([] ++ r), row := [], dataStarted := true } rfl
      (fun r' hr' => hrows r' (by simp [hr']))]
    simp [rowsOut, List.append_assoc]


/-! ## the reader -/

theorem takeLine_line (l rest cur : Bytes) (h : 10 ∉ l) :
    takeLine (l ++ 10 :: rest) cur = (stripCR (cur ++ l), rest, true) := by
  induction l generalizing cur with
  | nil => simp [takeLine]
  | cons x t ih =>
    have hx : ¬ x = 10 := fun e => h (by simp [e])
    have ht : 10 ∉ t := fun e => h (by simp [e])
    simp [takeLine, hx, ih _ ht]

theorem takeLine_eof (l cur : Bytes) (h : 10 ∉ l) : takeLine l cur = (cur ++ l, [], false) := by
  induction l generalizing cur with
  | nil => simp [takeLine]
  | cons x t ih =>
    have hx : ¬ x = 10 := fun e => h (by simp [e])
    have ht : 10 ∉ t := fun e => h (by simp [e])
    simp [takeLine, hx, ih _ ht]

theorem stripCR_clean (l : Bytes) (h : Clean l) : stripCR l = l := by
  unfold stripCR
  have : l.getLast? ≠ some 13 := fun e => h.2 (List.mem_of_getLast? e)
  simp [this]

theorem eatBom_id (l : Bytes) (h : l.head? ≠ some 0xEF) : eatBom l = l := by
  unfold eatBom bom
  cases l with
  | nil => simp
  | cons a t =>
    have ha : ¬ a = 0xEF := by simpa using h
    cases t with
    | nil => simp
    | cons b t2 =>
      cases t2 with
      | nil => simp
      | cons c t3 => simp [ha]

theorem inferCell_expected (c : Cell) (h : CellWF c) : inferCell 46 (cellText c) = expected c := by
  cases c with
  | str s => simp [inferCell, cellText, expected, h.2.2.1]
  | num l =>
    obtain ⟨n, hn, rfl⟩ := h
    simp [inferCell, cellText, expected, isNumber_text n hn]

theorem row_read (r : List Cell) (hne : r ≠ []) (h : ∀ c ∈ r, CellWF c) :
    (parseRow 44 (writeRow 44 34 r)).map (inferCell 46) = r.map expected := by
  cases r with
  | nil => exact absurd rfl hne
  | cons c t =>
    rw [parseRow_writeRow 44 (by decide) c t (cellWF_ok c (h c (by simp))) (fun x hx => cellWF_ok x (h x (by simp [hx])))]
    simp only [List.map_cons, List.map_map]
    rw [inferCell_expected c (h c (by simp))]
    congr 1
    apply List.map_congr_left
    intro x hx
    exact inferCell_expected x (h x (by simp [hx]))

/-- the data rows of the file, after the line end that closes the header -/
def rowsText (rows : List (List Cell)) : Bytes := rows.flatMap fun r => writeRow 44 34 r ++ [10]

theorem readRows_rowsText (rows : List (List Cell)) (hrows : ∀ r ∈ rows, r ≠ [] ∧ ∀ c ∈ r, CellWF c)
    (fuel : Nat) (hf : rows.length < fuel) (started : Bool) :
    readRows 44 46 fuel { rest := rowsText rows, eof := false } started = rows.map (·.map expected) := by
  induction rows generalizing fuel started with
  | nil =>
    cases fuel with
    | zero => omega
    | succ fuel => simp [readRows, rowsText, readLineB, takeLine]
  | cons r t ih =>
    obtain ⟨hne, hc⟩ := hrows r (by simp)
    cases fuel with
    | zero => omega
    | succ fuel =>
      have hclean := clean_writeRow r hc
      have hline : takeLine (rowsText (r :: t)) [] = (writeRow 44 34 r, rowsText t, true) := by
        have e : rowsText (r :: t) = writeRow 44 34 r ++ 10 :: rowsText t := by simp [rowsText]
        rw [e, takeLine_line _ _ [] hclean.1]
        simp [stripCR_clean _ hclean]
      have hbom : (if (!started) = true then eatBom (writeRow 44 34 r) else writeRow 44 34 r) = writeRow 44 34 r := by
        split
        · exact eatBom_id _ (writeRow_head r hc)
        · rfl
      simp only [readRows, Bool.false_eq_true, if_false, readLineB, hline, Bool.not_true, hbom,
        List.map_cons, row_read r hne hc]
      rw [ih (fun r' hr' => hrows r' (by simp [hr'])) fuel (by simp at hf; omega) true]


/-! ## the header line -/

theorem col_byte (c : UInt8)
    (h : (48 ≤ c ∧ c ≤ 57) ∨ (65 ≤ c ∧ c ≤ 90) ∨ (97 ≤ c ∧ c ≤ 122) ∨ c = 95) :
    c ≠ 58 ∧ c ≠ 44 ∧ c ≠ 59 ∧ c ≠ 9 ∧ c ≠ 10 ∧ c ≠ 13 ∧ c ≠ 0xEF ∧ c ≠ 45 := by
  simp only [UInt8.le_iff_toNat_le, ne_eq, ← UInt8.toNat_inj] at h ⊢
  simp at h ⊢
  omega

theorem colName_id (n : Bytes) (h : ColOK n) : colName n = n := by
  unfold colName
  apply AslProofs.Ini.takeWhile_all
  intro x hx
  have := (col_byte x (h.1 x hx)).1
  simpa using this

theorem joinSep_cons (sep : UInt8) (c : Bytes) (t : List Bytes) :
    joinSep sep (c :: t) = c ++ t.flatMap (fun x => sep :: x) := by
  show t.foldl (fun acc x => acc ++ [sep] ++ x) c = _
  generalize c = acc
  induction t generalizing acc with
  | nil => simp
  | cons x t ih =>
    rw [List.foldl_cons, ih, List.flatMap_cons]
    simp [List.append_assoc]

theorem splitSep_plain (sep : UInt8) (s rest cur : Bytes) (h : sep ∉ s) :
    splitSep sep (s ++ rest) cur = splitSep sep rest (cur ++ s) := by
  induction s generalizing cur with
  | nil => simp
  | cons x t ih =>
    have hx : ¬ x = sep := fun e => h (by simp [e])
    have ht : sep ∉ t := fun e => h (by simp [e])
    simp only [List.cons_append, splitSep, hx, if_false]
    rw [ih _ ht]; simp

theorem splitSep_join (sep : UInt8) (c : Bytes) (t : List Bytes) (hc : sep ∉ c) (ht : ∀ x ∈ t, sep ∉ x) :
    splitSep sep (joinSep sep (c :: t)) [] = c :: t := by
  rw [joinSep_cons]
  induction t generalizing c with
  | nil =>
    have := splitSep_plain sep c [] [] hc
    simpa [splitSep] using this
  | cons x t ih =>
    simp only [List.flatMap_cons, List.cons_append]
    rw [splitSep_plain sep c _ [] hc]
    simp only [List.nil_append, splitSep, if_true]
    rw [ih x (ht x (by simp)) (fun y hy => ht y (by simp [hy]))]

theorem markNumeric_none (cols : List Bytes) (h : ∀ n ∈ cols, ColOK n) (i : Nat) : markNumeric i cols = none := by
  induction cols generalizing i with
  | nil => rfl
  | cons n t ih =>
    obtain ⟨hall, c, r, hn, hnd⟩ := h n (by simp)
    have hc := col_byte c (hall c (by simp [hn]))
    have hd : isDigit c = false := by
      unfold isDigit
      simp only [Bool.and_eq_false_iff, decide_eq_false_iff_not]
      by_cases h1 : 48 ≤ c
      · right; intro h2; exact hnd ⟨h1, h2⟩
      · left; exact h1
    have h45 : (c == 45) = false := by simpa using hc.2.2.2.2.2.2.2
    simp only [markNumeric, hn, charAt, List.getD_cons_zero, hd, h45, Bool.false_and, Bool.or_self,
      Bool.false_eq_true, if_false, ih (fun m hm => h m (by simp [hm])), Option.map_none]

/-- all bytes of the header are identifier bytes or commas -/
theorem header_bytes (cols : List Bytes) (h : ∀ n ∈ cols, ColOK n) :
    ∀ c ∈ joinSep 44 cols, c = 44 ∨ ((48 ≤ c ∧ c ≤ 57) ∨ (65 ≤ c ∧ c ≤ 90) ∨ (97 ≤ c ∧ c ≤ 122) ∨ c = 95) := by
  cases cols with
  | nil => simp [joinSep]
  | cons n t =>
    rw [joinSep_cons]
    intro c hc
    rcases List.mem_append.mp hc with e | e
    · exact Or.inr ((h n (by simp)).1 c e)
    · obtain ⟨x, hx, hcx⟩ := List.mem_flatMap.mp e
      rcases List.mem_cons.mp hcx with e' | e'
      · exact Or.inl e'
      · exact Or.inr ((h x (by simp [hx])).1 c e')

theorem header_facts (cols : List Bytes) (h : ∀ n ∈ cols, ColOK n) :
    Clean (joinSep 44 cols) ∧ (joinSep 44 cols).contains 59 = false ∧ (joinSep 44 cols).contains 9 = false ∧
    (joinSep 44 cols).head? ≠ some 0xEF := by
  have hb := header_bytes cols h
  have hne : ∀ c ∈ joinSep 44 cols, c ≠ 10 ∧ c ≠ 13 ∧ c ≠ 59 ∧ c ≠ 9 ∧ c ≠ 0xEF := by
    intro c hc
    rcases hb c hc with e | e
    · subst e; decide
    · have := col_byte c e
      exact ⟨this.2.2.2.2.1, this.2.2.2.2.2.1, this.2.2.1, this.2.2.2.1, this.2.2.2.2.2.2.1⟩
  refine ⟨⟨fun hc => (hne 10 hc).1 rfl, fun hc => (hne 13 hc).2.1 rfl⟩, ?_, ?_, ?_⟩
  · simpa using fun hc => (hne 59 hc).2.2.1 rfl
  · simpa using fun hc => (hne 9 hc).2.2.2.1 rfl
  · intro e
    exact (hne 0xEF (List.mem_of_mem_head? e)).2.2.2.2 rfl

/-- `readHeader` on a file that starts with the header line of well-formed column names -/
theorem readHeader_table (cols : List Bytes) (hne : cols ≠ []) (h : ∀ n ∈ cols, ColOK n) (rest : Bytes) (lf : Bool)
    (text : Bytes) (htext : text = joinSep 44 cols ++ (if lf then 10 :: rest else [])) :
    readHeader text = { sep := 44, dec := 46, columns := cols, file := { rest := if lf then rest else [], eof := !lf } } := by
  obtain ⟨hclean, h59, h9, hhead⟩ := header_facts cols h
  obtain ⟨c, t, hct⟩ : ∃ c t, cols = c :: t := by
    cases cols with
    | nil => exact absurd rfl hne
    | cons c t => exact ⟨c, t, rfl⟩
  have hline : takeLine text [] = (joinSep 44 cols, if lf then rest else [], lf) := by
    subst htext
    cases lf with
    | true =>
      simp only [if_true]
      rw [takeLine_line _ _ [] hclean.1]
      simp [stripCR_clean _ hclean]
    | false =>
      simp only [Bool.false_eq_true, if_false, List.append_nil]
      rw [takeLine_eof _ [] hclean.1]
      simp
  have hsplit : splitSep 44 (joinSep 44 cols) [] = cols := by
    subst hct
    apply splitSep_join 44 c t
    · exact fun hc => (col_byte 44 ((h c (by simp)).1 44 hc)).2.1 rfl
    · intro x hx hc
      exact (col_byte 44 ((h x (by simp [hx])).1 44 hc)).2.1 rfl
  unfold readHeader
  simp only [readLine, hline, eatBom_id _ hhead, h59, h9, Bool.false_eq_true, if_false, ite_self, hsplit,
    markNumeric_none cols h 0]


/-! ## write a table, read it back -/

theorem rowsOut_true (rows : List (List Cell)) : rowsOut true rows = rowsText rows := by
  induction rows with
  | nil => rfl
  | cons r t ih => simp [rowsOut, rowOut, rowsText, ih]

theorem rowsText_length (rows : List (List Cell)) : rows.length ≤ (rowsText rows).length := by
  induction rows with
  | nil => simp
  | cons r t ih =>
    have : rowsText (r :: t) = writeRow 44 34 r ++ [10] ++ rowsText t := by simp [rowsText]
    rw [this]
    simp only [List.length_append, List.length_cons, List.length_nil]
    omega

theorem map_colName (cols : List Bytes) (h : ∀ n ∈ cols, ColOK n) : cols.map colName = cols := by
  induction cols with
  | nil => rfl
  | cons n t ih =>
    simp only [List.map_cons, colName_id n (h n (by simp)), ih (fun m hm => h m (by simp [hm]))]

theorem table_roundtrip (cols : List Bytes) (hne : cols ≠ []) (hcols : ∀ n ∈ cols, ColOK n)
    (rows : List (List Cell)) (hrows : ∀ r ∈ rows, r.length = cols.length ∧ ∀ c ∈ r, CellWF c) :
    readTable (writeTable cols rows.flatten) = { columns := cols, rows := rows.map (·.map expected) } := by
  have hpos : 0 < cols.length := List.length_pos_iff.mpr hne
  have hrows' : ∀ r ∈ rows, r.length = (startTable cols).ncols ∧ r ≠ [] ∧ ∀ c ∈ r, CellWF c := by
    intro r hr
    obtain ⟨h1, h2⟩ := hrows r hr
    refine ⟨h1, ?_, h2⟩
    intro e; subst e; simp at h1; omega
  have htext : writeTable cols rows.flatten = joinSep 44 cols ++ rowsOut false rows := by
    unfold writeTable
    rw [putRows (startTable cols) rows rfl hrows']
    simp [startTable, map_colName cols hcols]
  unfold readTable
  rw [htext]
  cases rows with
  | nil =>
    have hh := readHeader_table cols hne hcols [] false (joinSep 44 cols ++ rowsOut false []) (by simp [rowsOut])
    simp only [hh, Bool.false_eq_true, if_false, Bool.not_false]
    simp [readRows]
  | cons r t =>
    have hro : rowsOut false (r :: t) = 10 :: rowsText (r :: t) := by
      simp [rowsOut, rowOut, rowsOut_true, rowsText]
    have hh := readHeader_table cols hne hcols (rowsText (r :: t)) true (joinSep 44 cols ++ rowsOut false (r :: t))
      (by rw [hro]; simp)
    simp only [hh, if_true, Bool.not_true]
    rw [readRows_rowsText (r :: t) (fun r' hr' => ⟨(hrows' r' hr').2.1, (hrows' r' hr').2.2⟩)]
    have := rowsText_length (r :: t)
    rw [hro]
    simp only [List.length_append, List.length_cons] at this ⊢
    omega


/-! ## rows handed over as array `Var`s -/

theorem writeItems_cells (cols : List Bytes) (cells : List Cell) :
    writeItems cols (cells.map WItem.cell) = writeTable cols cells := by
  unfold writeItems writeTable
  rw [List.foldl_map]
  rfl

theorem putArrays (w : WState) (rows : List (List Cell)) (hw : w.row = [])
    (hrows : ∀ r ∈ rows, r.length = w.ncols) :
    ((rows.map WItem.arr).foldl putItem w).text = w.text ++ rowsOut w.dataStarted rows := by
  induction rows generalizing w with
  | nil => simp [rowsOut]
  | cons r t ih =>
    have h1 : (r.length == w.ncols) = true := by simpa using hrows r (by simp)
    simp only [List.map_cons, List.foldl_cons, putItem, putArray, h1, if_true]
    rw [ih { w with text := (w.text ++ if w.dataStarted = true then [] else [10]) ++ writeRow 44 34 r ++ [10],
                    row := [], dataStarted := true } rfl (fun r' hr' => hrows r' (by simp [hr']))]
    simp [rowsOut, rowOut, List.append_assoc]

/-- a table written row by row as arrays is the same file as the table written cell by cell -/
theorem writeItems_arrays (cols : List Bytes) (rows : List (List Cell))
    (hrows : ∀ r ∈ rows, r.length = cols.length ∧ r ≠ [] ∧ ∀ c ∈ r, CellWF c) :
    writeItems cols (rows.map WItem.arr) = writeTable cols rows.flatten := by
  unfold writeItems writeTable
  rw [putArrays (startTable cols) rows rfl (fun r hr => (hrows r hr).1),
    putRows (startTable cols) rows rfl hrows]


/-! ## non-default separator / decimal symbol -/

theorem localize_dot (c : Cell) : localize 46 c = c := by
  cases c <;> simp [localize]

theorem map_localize_dot (r : List Cell) : r.map (localize 46) = r := by
  induction r with
  | nil => rfl
  | cons c t ih => simp [localize_dot, ih]

theorem putItemG_default (w : WState) (it : WItem) : putItemG 44 46 w it = putItem w it := by
  cases it with
  | cell c => simp [putItemG, putItem, putCellG, putCell, rowTextG, map_localize_dot]
  | arr cs => simp [putItemG, putItem, putArrayG, putArray, rowTextG, map_localize_dot]

/-- with the default separator and decimal symbol the general writer is the writer of `csv_table_roundtrip` -/
theorem writeItemsG_default (cols : List Bytes) (items : List WItem) :
    writeItemsG 44 46 cols items = writeItems cols items := by
  unfold writeItemsG writeItems
  have : startTableG 44 cols = startTable cols := rfl
  rw [this]
  generalize startTable cols = w
  induction items generalizing w with
  | nil => rfl
  | cons it t ih => simp only [List.foldl_cons, putItemG_default, ih]

theorem numByte_ne59 (c : UInt8) (h : numByte c) : c ≠ 59 := by
  unfold numByte at h
  simp only [UInt8.le_iff_toNat_le, ne_eq, ← UInt8.toNat_inj] at h ⊢
  simp at h ⊢
  omega

/-- a number text written with `.` is read as that number also under the decimal comma the reader guesses
    for `;`-separated files (the repaired type inference) -/
theorem inferCell_comma_num (n : Num) (h : n.WF) : inferCell 44 n.text = .num (atofDec n.text) := by
  have h44 : ∀ c ∈ n.text, c ≠ 44 := fun c hc => (numByte_ne c (numText_bytes n h c hc)).2.2.2.1
  have hmap : n.text.map (fun c => if c = 44 then 46 else c) = n.text := by
    have : ∀ (l : Bytes), (∀ c ∈ l, c ≠ 44) → l.map (fun c => if c = 44 then 46 else c) = l := by
      intro l hl
      induction l with
      | nil => rfl
      | cons x t ih =>
        have hx : ¬ x = 44 := hl x (by simp)
        simp [hx, ih (fun c hc => hl c (by simp [hc]))]
    exact this _ h44
  unfold inferCell
  simp [isNumber_text n h, hmap]

theorem inferCell_comma_str (s : Bytes) (h1 : isNumber 44 s = false) (h2 : isNumber 46 s = false) :
    inferCell 44 s = .str s := by
  simp [inferCell, h1, h2]

/-- cells of a `;`-separated file written with the default decimal point -/
def CellWFsemi : Cell → Prop
  | .str s => StrOK s ∧ isNumber 44 s = false
  | .num l => NumText l

theorem cellWFsemi_ok (c : Cell) (h : CellWFsemi c) : CellOK 59 c := by
  cases c with
  | str s => exact ⟨h.1.2.2.2.2, h.1.1, h.1.2.1⟩
  | num l =>
    obtain ⟨n, hn, rfl⟩ := h
    exact ⟨fun hc => (numByte_ne 34 (numText_bytes n hn 34 hc)).2.2.1 rfl,
           fun hc => numByte_ne59 59 (numText_bytes n hn 59 hc) rfl,
           fun hc => (numByte_ne 0 (numText_bytes n hn 0 hc)).2.2.2.2.2 rfl,
           fun hc => (numByte_ne 10 (numText_bytes n hn 10 hc)).1 rfl,
           fun hc => (numByte_ne 13 (numText_bytes n hn 13 hc)).2.1 rfl⟩

theorem inferCell_semi (c : Cell) (h : CellWFsemi c) : inferCell 44 (cellText c) = expected c := by
  cases c with
  | str s => exact inferCell_comma_str s h.2 h.1.2.2.1
  | num l =>
    obtain ⟨n, hn, rfl⟩ := h
    exact inferCell_comma_num n hn

/-- a row written after `setSeparator(';')` (decimal point kept) and parsed as the reader parses a file whose
    header contains `;` (separator `;`, decimal symbol `,`) -/
theorem row_read_semi (c : Cell) (t : List Cell) (hc : CellWFsemi c) (ht : ∀ x ∈ t, CellWFsemi x) :
    (parseRow 59 (rowTextG 59 46 (c :: t))).map (inferCell 44) = (c :: t).map expected := by
  unfold rowTextG
  rw [map_localize_dot, parseRow_writeRow 59 (by decide) c t (cellWFsemi_ok c hc) (fun x hx => cellWFsemi_ok x (ht x hx))]
  simp only [List.map_cons, List.map_map]
  rw [inferCell_semi c hc]
  congr 1
  apply List.map_congr_left
  intro x hx
  exact inferCell_semi x (ht x hx)


/-! ## arbitrary sequences of cells and array rows -/

/-- the rows that get written, from the documented behaviour: a cell is appended to the pending row, an array *is*
    the pending row, the row is written when it has exactly `n` cells -/
def normalise (n : Nat) : List WItem → List Cell → List (List Cell)
  | [], _ => []
  | .cell c :: t, p => if (p ++ [c]).length == n then (p ++ [c]) :: normalise n t [] else normalise n t (p ++ [c])
  | .arr cs :: t, _ => if cs.length == n then cs :: normalise n t [] else normalise n t cs

/-- every cell handed over, alone or inside an array, is well formed -/
def ItemWF : WItem → Prop
  | .cell c => CellWF c
  | .arr cs => ∀ c ∈ cs, CellWF c

theorem putItems_normalise (items : List WItem) (hi : ∀ it ∈ items, ItemWF it) (w : WState) :
    (items.foldl putItem w).text = w.text ++ rowsOut w.dataStarted (normalise w.ncols items w.row) := by
  induction items generalizing w with
  | nil => simp [normalise, rowsOut]
  | cons it t ih =>
    have ht : ∀ x ∈ t, ItemWF x := fun x hx => hi x (by simp [hx])
    simp only [List.foldl_cons]
    cases it with
    | cell c =>
      have hc : CellWF c := hi (.cell c) (by simp)
      have hx : (c == Cell.str [10]) = false := cell_ne_newline c hc
      by_cases hl : ((w.row ++ [c]).length == w.ncols) = true
      · have hstep : putItem w (.cell c) =
            { w with text := w.text ++ (if w.dataStarted then [] else [10]) ++ writeRow 44 34 (w.row ++ [c]) ++ [10],
                     row := [], dataStarted := true } := by
          simp only [putItem, putCell, hx, Bool.false_and, Bool.false_eq_true, if_false, hl, Bool.or_false, if_true]
        rw [hstep, ih ht]
        simp only [normalise, hl, if_true, rowsOut, rowOut]
        simp [List.append_assoc]
      · have hl' : ((w.row ++ [c]).length == w.ncols) = false := by simpa using hl
        have hstep : putItem w (.cell c) = { w with row := w.row ++ [c] } := by
          simp only [putItem, putCell, hx, Bool.false_and, Bool.false_eq_true, if_false, hl', Bool.or_false]
        rw [hstep, ih ht]
        simp only [normalise, hl', Bool.false_eq_true, if_false]
    | arr cs =>
      by_cases hl : (cs.length == w.ncols) = true
      · have hstep : putItem w (.arr cs) =
            { w with text := w.text ++ (if w.dataStarted then [] else [10]) ++ writeRow 44 34 cs ++ [10],
                     row := [], dataStarted := true } := by
          simp only [putItem, putArray, hl, if_true]
        rw [hstep, ih ht]
        simp only [normalise, hl, if_true, rowsOut, rowOut]
        simp [List.append_assoc]
      · have hl' : (cs.length == w.ncols) = false := by simpa using hl
        have hstep : putItem w (.arr cs) = { w with row := cs } := by
          simp only [putItem, putArray, hl', Bool.false_eq_true, if_false]
        rw [hstep, ih ht]
        simp only [normalise, hl', Bool.false_eq_true, if_false]

theorem normalise_rows (n : Nat) (items : List WItem) (hi : ∀ it ∈ items, ItemWF it) (p : List Cell)
    (hp : ∀ c ∈ p, CellWF c) : ∀ r ∈ normalise n items p, r.length = n ∧ ∀ c ∈ r, CellWF c := by
  induction items generalizing p with
  | nil => simp [normalise]
  | cons it t ih =>
    have ht : ∀ x ∈ t, ItemWF x := fun x hx => hi x (by simp [hx])
    cases it with
    | cell c =>
      have hc : CellWF c := hi (.cell c) (by simp)
      have hpc : ∀ x ∈ p ++ [c], CellWF x := by
        intro x hx
        rcases List.mem_append.mp hx with e | e
        · exact hp x e
        · simp at e; subst e; exact hc
      simp only [normalise]
      split
      · rename_i hl
        intro r hr
        rcases List.mem_cons.mp hr with e | e
        · subst e; exact ⟨by simpa using hl, hpc⟩
        · exact ih ht [] (by simp) r e
      · exact ih ht _ hpc
    | arr cs =>
      have hcs : ∀ c ∈ cs, CellWF c := hi (.arr cs) (by simp)
      simp only [normalise]
      split
      · rename_i hl
        intro r hr
        rcases List.mem_cons.mp hr with e | e
        · subst e; exact ⟨by simpa using hl, hcs⟩
        · exact ih ht [] (by simp) r e
      · exact ih ht _ hcs

/-- any sequence of cells and array rows writes the same file as its normalised rows written cell by cell -/
theorem writeItems_normalise (cols : List Bytes) (hne : cols ≠ []) (items : List WItem) (hi : ∀ it ∈ items, ItemWF it) :
    writeItems cols items = writeTable cols (normalise cols.length items []).flatten := by
  have hpos : 0 < cols.length := List.length_pos_iff.mpr hne
  have hrows := normalise_rows cols.length items hi [] (by simp)
  unfold writeItems writeTable
  rw [putItems_normalise items hi (startTable cols),
    putRows (startTable cols) (normalise cols.length items []) rfl (fun r hr => by
      obtain ⟨h1, h2⟩ := hrows r hr
      refine ⟨h1, ?_, h2⟩
      intro e; subst e; simp at h1; omega)]
  rfl


end AslProofs.Csv
