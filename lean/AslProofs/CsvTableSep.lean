import AslProofs.CsvHeader
import AslProofs.CsvTyped
/-!
# C18 — whole tables written after `setSeparator` / `setDecimal`, read (typed or not) by a fresh `TabularDataFile`
-/
namespace AslProofs.Csv
open AslModel.Csv
open AslModel.Ini (Bytes stripCR)

theorem clean_writeCell_ok (sep : UInt8) (c : Cell) (h : CellOK sep c) : Clean (writeCell sep 34 c) := by
  cases c with
  | str s =>
    have hs : Clean s := ⟨h.2.1, h.2.2⟩
    have hq : Clean [34] := ⟨by decide, by decide⟩
    rw [writeCell_str]
    split
    · exact clean_append (clean_append hq (clean_doubleQuotes s hs)) hq
    · exact hs
  | num l => rw [writeCell_num]; exact ⟨h.2.2.2.1, h.2.2.2.2⟩

theorem clean_writeRow_ok (sep : UInt8) (h10 : sep ≠ 10) (h13 : sep ≠ 13) (r : List Cell) (h : ∀ c ∈ r, CellOK sep c) :
    Clean (writeRow sep 34 r) := by
  have hsepc : Clean [sep] := ⟨by simpa using fun e => h10 e.symm, by simpa using fun e => h13 e.symm⟩
  cases r with
  | nil => exact ⟨by simp [writeRow], by simp [writeRow]⟩
  | cons c t =>
    rw [writeRow_cons]
    apply clean_append (clean_writeCell_ok sep c (h c (by simp)))
    induction t with
    | nil => exact ⟨by simp, by simp⟩
    | cons x t ih =>
      simp only [List.flatMap_cons]
      have hx := clean_writeCell_ok sep x (h x (by simp))
      have : Clean (sep :: writeCell sep 34 x) := by
        have := clean_append hsepc hx
        simpa using this
      exact clean_append this (ih (fun y hy => by
        rcases List.mem_cons.mp hy with e | e
        · subst e; exact h y (by simp)
        · exact h y (by simp [e])))

/-- the text of one row as it goes into the file -/
def rowOutG (sep dec : UInt8) (started : Bool) (r : List Cell) : Bytes :=
  (if started then [] else [10]) ++ rowTextG sep dec r ++ [10]

theorem putCellsG_row (sep dec : UInt8) (w : WState) (pre r : List Cell) (hw : w.row = pre)
    (hlen : pre.length + r.length = w.ncols) (hne : r ≠ []) (hcells : ∀ c ∈ r, (c == Cell.str [10]) = false) :
    r.foldl (putCellG sep dec) w =
      { w with text := w.text ++ rowOutG sep dec w.dataStarted (pre ++ r), row := [], dataStarted := true } := by
  induction r generalizing w pre with
  | nil => exact absurd rfl hne
  | cons x t ih =>
    have hx : (x == Cell.str [10]) = false := hcells x (by simp)
    simp only [List.foldl_cons]
    cases t with
    | nil =>
      have hl : (pre ++ [x]).length = w.ncols := by simpa using hlen
      simp only [List.foldl_nil, putCellG, hx, Bool.false_and, Bool.false_eq_true, if_false, hw, hl, beq_self_eq_true,
        Bool.or_false, if_true, rowOutG]
      simp [List.append_assoc]
    | cons y t' =>
      have hl : ¬ (pre ++ [x]).length = w.ncols := by
        simp only [List.length_append, List.length_cons, List.length_nil] at hlen ⊢; omega
      have hstep : putCellG sep dec w x = { w with row := pre ++ [x] } := by
        simp only [putCellG, hx, Bool.false_and, Bool.false_eq_true, if_false, hw, Bool.or_false]
        have : ((pre ++ [x]).length == w.ncols) = false := by simpa using hl
        rw [this]; simp
      rw [hstep]
      have := ih { w with row := pre ++ [x] } (pre ++ [x]) rfl (by simp at hlen ⊢; omega) (by simp)
        (fun c hc => hcells c (by simp [hc]))
      rw [this]
      simp [List.append_assoc]

def rowsOutG (sep dec : UInt8) : Bool → List (List Cell) → Bytes
  | _, [] => []
  | started, r :: t => rowOutG sep dec started r ++ rowsOutG sep dec true t

theorem putRowsG (sep dec : UInt8) (w : WState) (rows : List (List Cell)) (hw : w.row = [])
    (hrows : ∀ r ∈ rows, r.length = w.ncols ∧ r ≠ [] ∧ ∀ c ∈ r, (c == Cell.str [10]) = false) :
    (rows.flatten.foldl (putCellG sep dec) w).text = w.text ++ rowsOutG sep dec w.dataStarted rows := by
  induction rows generalizing w with
  | nil => simp [rowsOutG]
  | cons r t ih =>
    obtain ⟨h1, h2, h3⟩ := hrows r (by simp)
    simp only [List.flatten_cons, List.foldl_append]
    rw [putCellsG_row sep dec w [] r hw (by simpa using h1) h2 h3]
    rw [ih { w with text := w.text ++ rowOutG sep dec w.dataStarted ([] ++ r), row := [], dataStarted := true } rfl
      (fun r' hr' => hrows r' (by simp [hr']))]
    simp [rowsOutG, List.append_assoc]

/-- the data rows of the file, after the line end that closes the header -/
def rowsTextG (sep dec : UInt8) (rows : List (List Cell)) : Bytes := rows.flatMap fun r => rowTextG sep dec r ++ [10]

theorem rowsOutG_true (sep dec : UInt8) (rows : List (List Cell)) : rowsOutG sep dec true rows = rowsTextG sep dec rows := by
  induction rows with
  | nil => rfl
  | cons r t ih => simp [rowsOutG, rowOutG, rowsTextG, ih]

theorem rowsTextG_length (sep dec : UInt8) (rows : List (List Cell)) : rows.length ≤ (rowsTextG sep dec rows).length := by
  induction rows with
  | nil => simp
  | cons r t ih =>
    have : rowsTextG sep dec (r :: t) = rowTextG sep dec r ++ [10] ++ rowsTextG sep dec t := by simp [rowsTextG]
    rw [this]
    simp only [List.length_append, List.length_cons, List.length_nil]
    omega

/-- the `data()` loop over rows whose lines are clean, do not start like a byte-order mark, and each of which
    is read as `f r` -/
theorem readRowsT_rowsText (types : List ColType) (sep wdec rdec : UInt8) (f : List Cell → List RCell)
    (rows : List (List Cell))
    (hrows : ∀ r ∈ rows, Clean (rowTextG sep wdec r) ∧ (rowTextG sep wdec r).head? ≠ some 0xEF ∧
      typedRow rdec types (parseRow sep (rowTextG sep wdec r)) = f r)
    (fuel : Nat) (hf : rows.length < fuel) (started : Bool) :
    readRowsT types sep rdec fuel { rest := rowsTextG sep wdec rows, eof := false } started = rows.map f := by
  induction rows generalizing fuel started with
  | nil =>
    cases fuel with
    | zero => omega
    | succ fuel => simp [readRowsT, rowsTextG, readLineB, takeLine]
  | cons r t ih =>
    obtain ⟨hclean, hhead, hrow⟩ := hrows r (by simp)
    cases fuel with
    | zero => omega
    | succ fuel =>
      have hline : takeLine (rowsTextG sep wdec (r :: t)) [] = (rowTextG sep wdec r, rowsTextG sep wdec t, true) := by
        have e : rowsTextG sep wdec (r :: t) = rowTextG sep wdec r ++ 10 :: rowsTextG sep wdec t := by simp [rowsTextG]
        rw [e, takeLine_line _ _ [] hclean.1]
        simp [stripCR_clean _ hclean]
      have hbom : (if (!started) = true then eatBom (rowTextG sep wdec r) else rowTextG sep wdec r) = rowTextG sep wdec r := by
        split
        · exact eatBom_id _ hhead
        · rfl
      simp only [readRowsT, Bool.false_eq_true, if_false, readLineB, hline, Bool.not_true, hbom,
        List.map_cons, hrow]
      rw [ih (fun r' hr' => hrows r' (by simp [hr'])) fuel (by simp at hf; omega) true]

/-- **whole table, any recognisable separator, typed or untyped reading**, given what each row reads as -/
theorem table_roundtrip_sep (sep : UInt8) (hs : SniffSep sep) (wdec : UInt8) (types : List ColType)
    (cols : List Bytes) (hne : cols ≠ []) (hcols : ∀ n ∈ cols, ColOK n) (h2 : sep = 44 ∨ 2 ≤ cols.length)
    (f : List Cell → List RCell) (rows : List (List Cell))
    (hrows : ∀ r ∈ rows, r.length = cols.length ∧ (∀ c ∈ r, (c == Cell.str [10]) = false) ∧
      Clean (rowTextG sep wdec r) ∧ (rowTextG sep wdec r).head? ≠ some 0xEF ∧
      typedRow (sniffDec sep) types (parseRow sep (rowTextG sep wdec r)) = f r) :
    readTableT types (writeItemsG sep wdec cols (rows.flatten.map .cell)) = { columns := cols, rows := rows.map f } := by
  have hpos : 0 < cols.length := List.length_pos_iff.mpr hne
  have hrows' : ∀ r ∈ rows, r.length = (startTableG sep cols).ncols ∧ r ≠ [] ∧ ∀ c ∈ r, (c == Cell.str [10]) = false := by
    intro r hr
    obtain ⟨h1, h2, _⟩ := hrows r hr
    refine ⟨h1, ?_, h2⟩
    intro e; subst e; simp at h1; omega
  have hfold : ∀ (l : List Cell) (w : WState), (l.map WItem.cell).foldl (putItemG sep wdec) w = l.foldl (putCellG sep wdec) w := by
    intro l
    induction l with
    | nil => intro w; rfl
    | cons x t ih => intro w; simp only [List.map_cons, List.foldl_cons, putItemG, ih]
  have htext : writeItemsG sep wdec cols (rows.flatten.map .cell) = joinSep sep cols ++ rowsOutG sep wdec false rows := by
    unfold writeItemsG
    rw [hfold, putRowsG sep wdec (startTableG sep cols) rows rfl hrows']
    simp [startTableG, map_colName cols hcols]
  unfold readTableT
  rw [htext]
  cases rows with
  | nil =>
    have hh := readHeader_sep sep hs cols hne hcols h2 [] false
    simp only [Bool.false_eq_true, if_false, List.append_nil] at hh
    simp only [rowsOutG, List.append_nil, hh, Bool.not_false]
    simp [readRowsT]
  | cons r t =>
    have hro : rowsOutG sep wdec false (r :: t) = 10 :: rowsTextG sep wdec (r :: t) := by
      simp [rowsOutG, rowOutG, rowsOutG_true, rowsTextG]
    have hh := readHeader_sep sep hs cols hne hcols h2 (rowsTextG sep wdec (r :: t)) true
    simp only [if_true] at hh
    rw [hro]
    simp only [hh, Bool.not_true]
    rw [readRowsT_rowsText types sep wdec (sniffDec sep) f (r :: t)
      (fun r' hr' => (hrows r' hr').2.2)]
    have := rowsTextG_length sep wdec (r :: t)
    simp only [List.length_append, List.length_cons] at this ⊢
    omega

/-! ## rows handed over as array `Var`s, any separator -/

theorem putArraysG (sep dec : UInt8) (w : WState) (rows : List (List Cell)) (hw : w.row = [])
    (hrows : ∀ r ∈ rows, r.length = w.ncols) :
    ((rows.map WItem.arr).foldl (putItemG sep dec) w).text = w.text ++ rowsOutG sep dec w.dataStarted rows := by
  induction rows generalizing w with
  | nil => simp [rowsOutG]
  | cons r t ih =>
    have h1 : (r.length == w.ncols) = true := by simpa using hrows r (by simp)
    simp only [List.map_cons, List.foldl_cons, putItemG, putArrayG, h1, if_true]
    rw [ih { w with text := (w.text ++ if w.dataStarted = true then [] else [10]) ++ rowTextG sep dec r ++ [10],
                    row := [], dataStarted := true } rfl (fun r' hr' => hrows r' (by simp [hr']))]
    simp [rowsOutG, rowOutG, List.append_assoc]

/-- a table written row by row as arrays is the same file as the table written cell by cell, whatever the
    separator and the decimal symbol -/
theorem writeItemsG_arrays (sep dec : UInt8) (cols : List Bytes) (rows : List (List Cell))
    (hrows : ∀ r ∈ rows, r.length = cols.length ∧ r ≠ [] ∧ ∀ c ∈ r, (c == Cell.str [10]) = false) :
    writeItemsG sep dec cols (rows.map WItem.arr) = writeItemsG sep dec cols (rows.flatten.map .cell) := by
  have hfold : ∀ (l : List Cell) (w : WState), (l.map WItem.cell).foldl (putItemG sep dec) w = l.foldl (putCellG sep dec) w := by
    intro l
    induction l with
    | nil => intro w; rfl
    | cons x t ih => intro w; simp only [List.map_cons, List.foldl_cons, putItemG, ih]
  unfold writeItemsG
  rw [putArraysG sep dec (startTableG sep cols) rows rfl (fun r hr => (hrows r hr).1), hfold,
    putRowsG sep dec (startTableG sep cols) rows rfl hrows]

/-! ## the hypotheses of `table_roundtrip_sep` from conditions on the cells -/

theorem cellOK_ne_newline (sep : UInt8) (x : Cell) (h : CellOK sep x) : (x == Cell.str [10]) = false := by
  cases x with
  | num l => simp
  | str s =>
    have : s ≠ [10] := by
      intro e; subst e; exact h.2.1 (by simp)
    simpa using this

theorem localize_ne_newline (sep wdec : UInt8) (x : Cell) (h : CellOK sep (localize wdec x)) :
    (x == Cell.str [10]) = false := by
  cases x with
  | num l => simp
  | str s => exact cellOK_ne_newline sep _ h

theorem head_append_ne (a b : Bytes) (x : UInt8) (ha : a.head? ≠ some x) (hb : b.head? ≠ some x) :
    (a ++ b).head? ≠ some x := by
  cases a with
  | nil => simpa using hb
  | cons y t => simpa using ha

/-- the first byte of a written row is the first byte of its first cell, a quote, or the separator -/
theorem writeRow_head_ne (sep : UInt8) (hsep : sep ≠ 0xEF) (c : Cell) (t : List Cell)
    (hc : (cellText c).head? ≠ some 0xEF) : (writeRow sep 34 (c :: t)).head? ≠ some 0xEF := by
  rw [writeRow_cons]
  have hrest : (t.flatMap fun x => sep :: writeCell sep 34 x).head? ≠ some 0xEF := by
    cases t with
    | nil => simp
    | cons y t' => simpa using hsep
  apply head_append_ne _ _ _ _ hrest
  cases c with
  | num l => exact hc
  | str s =>
    rw [writeCell_str]
    split
    · simp
    · exact hc

theorem typedRow_nil (dec : UInt8) (vs : List Bytes) : typedRow dec [] vs = vs.map (inferCell dec) := by
  induction vs with
  | nil => rfl
  | cons v t ih => simp [typedRow, ih]

theorem sniffSep_ne (sep : UInt8) (hs : SniffSep sep) : sep ≠ 10 ∧ sep ≠ 13 ∧ sep ≠ 0xEF ∧ sep ≠ 34 := by
  rcases hs with e | e | e <;> subst e <;> decide

/-- typed reading of a whole table -/
theorem table_roundtrip_typed (sep : UInt8) (hs : SniffSep sep) (wdec : UInt8) (hd : wdec = 46 ∨ wdec = sniffDec sep)
    (types : List ColType) (cols : List Bytes) (hne : cols ≠ []) (hcols : ∀ n ∈ cols, ColOK n)
    (h2 : sep = 44 ∨ 2 ≤ cols.length) (rows : List (List Cell))
    (hrows : ∀ r ∈ rows, r.length = cols.length ∧ (∀ x ∈ r, CellOK sep (localize wdec x)) ∧
      FitsAll (sniffDec sep) types r ∧ (∀ c, r.head? = some c → (cellText (localize wdec c)).head? ≠ some 0xEF)) :
    readTableT types (writeItemsG sep wdec cols (rows.flatten.map .cell)) =
      { columns := cols, rows := rows.map fun r => (types.zip r).filterMap fun p => typedSpec p.1 p.2 } := by
  obtain ⟨s10, s13, sEF, s34⟩ := sniffSep_ne sep hs
  have hpos : 0 < cols.length := List.length_pos_iff.mpr hne
  apply table_roundtrip_sep sep hs wdec types cols hne hcols h2
  intro r hr
  obtain ⟨hl, hok, hfit, hhead⟩ := hrows r hr
  cases r with
  | nil => simp at hl; omega
  | cons c t =>
    refine ⟨hl, fun x hx => localize_ne_newline sep wdec x (hok x hx), ?_, ?_,
      typed_row_roundtrip sep s34 wdec (sniffDec sep) hd types c t hok hfit⟩
    · unfold rowTextG
      apply clean_writeRow_ok sep s10 s13
      intro x hx
      obtain ⟨y, hy, rfl⟩ := List.mem_map.mp hx
      exact hok y hy
    · unfold rowTextG
      rw [List.map_cons]
      exact writeRow_head_ne sep sEF _ _ (hhead c rfl)

theorem cellWFsemi_head (c : Cell) (h : CellWFsemi c) : (cellText c).head? ≠ some 0xEF := by
  cases c with
  | str s => exact h.1.2.2.2.1
  | num l =>
    obtain ⟨n, hn, rfl⟩ := h
    intro e
    have hm : (0xEF : UInt8) ∈ n.text := List.mem_of_mem_head? e
    exact (numByte_ne 0xEF (numText_bytes n hn 0xEF hm)).2.2.2.2.1 rfl

/-- untyped reading of a whole table written after `setSeparator(';')` -/
theorem table_roundtrip_semi (cols : List Bytes) (hcols : ∀ n ∈ cols, ColOK n) (h2 : 2 ≤ cols.length)
    (rows : List (List Cell)) (hrows : ∀ r ∈ rows, r.length = cols.length ∧ ∀ c ∈ r, CellWFsemi c) :
    readTableT [] (writeItemsG 59 46 cols (rows.flatten.map .cell)) =
      { columns := cols, rows := rows.map (·.map expected) } := by
  have hne : cols ≠ [] := by intro e; subst e; simp at h2
  apply table_roundtrip_sep 59 (Or.inr (Or.inl rfl)) 46 [] cols hne hcols (Or.inr h2)
  intro r hr
  obtain ⟨hl, hc⟩ := hrows r hr
  cases r with
  | nil => simp at hl; omega
  | cons c t =>
    have hok : ∀ x ∈ c :: t, CellOK 59 x := fun x hx => cellWFsemi_ok x (hc x hx)
    refine ⟨hl, fun x hx => cellOK_ne_newline 59 x (hok x hx), ?_, ?_, ?_⟩
    · unfold rowTextG
      rw [map_localize_dot]
      exact clean_writeRow_ok 59 (by decide) (by decide) _ hok
    · unfold rowTextG
      rw [map_localize_dot]
      exact writeRow_head_ne 59 (by decide) c t (cellWFsemi_head c (hc c (by simp)))
    · rw [typedRow_nil]
      exact row_read_semi c t (hc c (by simp)) (fun x hx => hc x (by simp [hx]))

theorem numByte_ne9 (c : UInt8) (h : numByte c) : c ≠ 9 := by
  unfold numByte at h
  simp only [UInt8.le_iff_toNat_le, ne_eq, ← UInt8.toNat_inj] at h ⊢
  simp at h ⊢
  omega

theorem cellWF_ok9 (c : Cell) (h : CellWF c) : CellOK 9 c := by
  cases c with
  | str s => exact ⟨h.2.2.2.2, h.1, h.2.1⟩
  | num l =>
    obtain ⟨n, hn, rfl⟩ := h
    exact ⟨fun hc => (numByte_ne 34 (numText_bytes n hn 34 hc)).2.2.1 rfl,
           fun hc => numByte_ne9 9 (numText_bytes n hn 9 hc) rfl,
           fun hc => (numByte_ne 0 (numText_bytes n hn 0 hc)).2.2.2.2.2 rfl,
           fun hc => (numByte_ne 10 (numText_bytes n hn 10 hc)).1 rfl,
           fun hc => (numByte_ne 13 (numText_bytes n hn 13 hc)).2.1 rfl⟩

theorem cellWF_head (c : Cell) (h : CellWF c) : (cellText c).head? ≠ some 0xEF := by
  cases c with
  | str s => exact h.2.2.2.1
  | num l =>
    obtain ⟨n, hn, rfl⟩ := h
    intro e
    have hm : (0xEF : UInt8) ∈ n.text := List.mem_of_mem_head? e
    exact (numByte_ne 0xEF (numText_bytes n hn 0xEF hm)).2.2.2.2.1 rfl

/-- untyped reading of a whole table written after `setSeparator('\t')` -/
theorem table_roundtrip_tab (cols : List Bytes) (hcols : ∀ n ∈ cols, ColOK n) (h2 : 2 ≤ cols.length)
    (rows : List (List Cell)) (hrows : ∀ r ∈ rows, r.length = cols.length ∧ ∀ c ∈ r, CellWF c) :
    readTableT [] (writeItemsG 9 46 cols (rows.flatten.map .cell)) =
      { columns := cols, rows := rows.map (·.map expected) } := by
  have hne : cols ≠ [] := by intro e; subst e; simp at h2
  apply table_roundtrip_sep 9 (Or.inr (Or.inr rfl)) 46 [] cols hne hcols (Or.inr h2)
  intro r hr
  obtain ⟨hl, hc⟩ := hrows r hr
  cases r with
  | nil => simp at hl; omega
  | cons c t =>
    have hok : ∀ x ∈ c :: t, CellOK 9 x := fun x hx => cellWF_ok9 x (hc x hx)
    refine ⟨hl, fun x hx => cellOK_ne_newline 9 x (hok x hx), ?_, ?_, ?_⟩
    · unfold rowTextG
      rw [map_localize_dot]
      exact clean_writeRow_ok 9 (by decide) (by decide) _ hok
    · unfold rowTextG
      rw [map_localize_dot]
      exact writeRow_head_ne 9 (by decide) c t (cellWF_head c (hc c (by simp)))
    · rw [typedRow_nil]
      unfold rowTextG
      rw [map_localize_dot, parseRow_writeRow 9 (by decide) c t (hok c (by simp)) (fun x hx => hok x (by simp [hx]))]
      show (cellText c :: t.map cellText).map (inferCell 46) = (c :: t).map expected
      simp only [List.map_cons, List.map_map]
      rw [inferCell_expected c (hc c (by simp))]
      congr 1
      apply List.map_congr_left
      intro x hx
      exact inferCell_expected x (hc x (by simp [hx]))

/-- exchange `.` and `,` -/
def swapDC (c : UInt8) : UInt8 := if c = 46 then 44 else if c = 44 then 46 else c

theorem isDigit_swap : (isDigit ∘ swapDC) = isDigit := by
  funext c
  simp only [Function.comp, swapDC]
  split
  · rename_i h; subst h; decide
  · split
    · rename_i h; subst h; decide
    · rfl

theorem swap_eq_iff (c x : UInt8) (hx : x ≠ 44) (hx' : x ≠ 46) : swapDC c = x ↔ c = x := by
  unfold swapDC
  split
  · rename_i h; subst h; constructor <;> intro e
    · exact absurd e.symm hx
    · exact absurd e.symm hx'
  · split
    · rename_i h; subst h; constructor <;> intro e
      · exact absurd e.symm hx'
      · exact absurd e.symm hx
    · rfl

theorem swap_eq_44 (c : UInt8) : swapDC c = 44 ↔ c = 46 := by
  unfold swapDC
  split
  · rename_i h; simp [h]
  · rename_i h
    split
    · rename_i h2; subst h2; simp
    · rename_i h2; simp [h, h2]

theorem skipMinus_swap (l : Bytes) : skipMinus (l.map swapDC) = (skipMinus l).map swapDC := by
  cases l with
  | nil => rfl
  | cons c t =>
    by_cases h : c = 45
    · subst h; rfl
    · have h' : swapDC c ≠ 45 := fun e => h ((swap_eq_iff c 45 (by decide) (by decide)).mp e)
      have e1 : skipMinus (c :: t) = c :: t := by
        unfold skipMinus; split
        · rename_i heq; simp at heq; exact absurd heq.1 h
        · rfl
      have e2 : skipMinus (swapDC c :: t.map swapDC) = swapDC c :: t.map swapDC := by
        unfold skipMinus; split
        · rename_i heq; simp at heq; exact absurd heq.1 h'
        · rfl
      rw [List.map_cons, e2, e1, List.map_cons]

theorem skipSign_swap (l : Bytes) : skipSign (l.map swapDC) = (skipSign l).map swapDC := by
  cases l with
  | nil => rfl
  | cons c t =>
    by_cases h : c = 43
    · subst h; rfl
    · by_cases g : c = 45
      · subst g; rfl
      · have h' : swapDC c ≠ 43 := fun e => h ((swap_eq_iff c 43 (by decide) (by decide)).mp e)
        have g' : swapDC c ≠ 45 := fun e => g ((swap_eq_iff c 45 (by decide) (by decide)).mp e)
        have e1 : skipSign (c :: t) = c :: t := by
          unfold skipSign; split
          · rename_i heq; simp at heq; exact absurd heq.1 h
          · rename_i heq; simp at heq; exact absurd heq.1 g
          · rfl
        have e2 : skipSign (swapDC c :: t.map swapDC) = swapDC c :: t.map swapDC := by
          unfold skipSign; split
          · rename_i heq; simp at heq; exact absurd heq.1 h'
          · rename_i heq; simp at heq; exact absurd heq.1 g'
          · rfl
        rw [List.map_cons, e2, e1, List.map_cons]

theorem isNumberExp_swap (l : Bytes) : isNumberExp (l.map swapDC) = isNumberExp l := by
  cases l with
  | nil => rfl
  | cons c t =>
    have h1 : (swapDC c = 101) = (c = 101) := propext (swap_eq_iff c 101 (by decide) (by decide))
    have h2 : (swapDC c = 69) = (c = 69) := propext (swap_eq_iff c 69 (by decide) (by decide))
    simp only [List.map_cons, isNumberExp, h1, h2, skipSign_swap, List.isEmpty_map, List.all_map, isDigit_swap]

theorem isNumber_swap (l : Bytes) : isNumber 44 (l.map swapDC) = isNumber 46 l := by
  unfold isNumber
  simp only [skipMinus_swap, List.takeWhile_map, List.dropWhile_map, isDigit_swap, List.length_map]
  cases (skipMinus l).dropWhile isDigit with
  | nil => rfl
  | cons c t =>
    have h1 : (swapDC c = 44) = (c = 46) := propext (swap_eq_44 c)
    simp only [List.map_cons, h1, List.takeWhile_map, List.dropWhile_map, isDigit_swap, List.length_map,
      isNumberExp_swap]
    rw [← List.map_cons, isNumberExp_swap]

/-- `value.replaceme('.', ',')` -/
def locComma (l : Bytes) : Bytes := l.map (fun c => if c = 46 then 44 else c)

theorem locComma_eq_swap (l : Bytes) (h : 44 ∉ l) : locComma l = l.map swapDC := by
  unfold locComma
  apply List.map_congr_left
  intro c hc
  have : c ≠ 44 := fun e => h (e ▸ hc)
  simp [swapDC, this]

theorem not_mem_locComma (l : Bytes) (x : UInt8) (hx : x ∉ l) (h44 : x ≠ 44) : x ∉ locComma l := by
  intro hm
  obtain ⟨c, hc, e⟩ := List.mem_map.mp hm
  by_cases h : c = 46
  · simp [h] at e; exact h44 e.symm
  · simp [h] at e; subst e; exact hx hc

theorem numText_no (n : C18Spec.Num) (hn : n.WF) :
    44 ∉ n.text ∧ 34 ∉ n.text ∧ 59 ∉ n.text ∧ 0 ∉ n.text ∧ 10 ∉ n.text ∧ 13 ∉ n.text ∧ 0xEF ∉ n.text :=
  ⟨fun hc => (numByte_ne 44 (numText_bytes n hn 44 hc)).2.2.2.1 rfl,
   fun hc => (numByte_ne 34 (numText_bytes n hn 34 hc)).2.2.1 rfl,
   fun hc => numByte_ne59 59 (numText_bytes n hn 59 hc) rfl,
   fun hc => (numByte_ne 0 (numText_bytes n hn 0 hc)).2.2.2.2.2 rfl,
   fun hc => (numByte_ne 10 (numText_bytes n hn 10 hc)).1 rfl,
   fun hc => (numByte_ne 13 (numText_bytes n hn 13 hc)).2.1 rfl,
   fun hc => (numByte_ne 0xEF (numText_bytes n hn 0xEF hc)).2.2.2.2.1 rfl⟩

theorem localize_comma_num (l : Bytes) : localize 44 (.num l) = .num (locComma l) := by
  simp [localize, locComma]

theorem localize_comma_str (s : Bytes) : localize 44 (.str s) = .str s := rfl

/-- a cell of a `;` table written with the decimal comma -/
theorem cellOK_comma (c : Cell) (h : CellWFsemi c) : CellOK 59 (localize 44 c) := by
  cases c with
  | str s => exact cellWFsemi_ok _ h
  | num l =>
    obtain ⟨n, hn, rfl⟩ := h
    obtain ⟨_, h34, h59, h0, h10, h13, _⟩ := numText_no n hn
    rw [localize_comma_num]
    exact ⟨not_mem_locComma _ 34 h34 (by decide), not_mem_locComma _ 59 h59 (by decide),
      not_mem_locComma _ 0 h0 (by decide), not_mem_locComma _ 10 h10 (by decide), not_mem_locComma _ 13 h13 (by decide)⟩

/-- a number written with the decimal comma is read, untyped, as the number written -/
theorem inferCell_comma (c : Cell) (h : CellWFsemi c) : inferCell 44 (cellText (localize 44 c)) = expected c := by
  cases c with
  | str s => exact inferCell_semi _ h
  | num l =>
    obtain ⟨n, hn, rfl⟩ := h
    obtain ⟨h44, _⟩ := numText_no n hn
    rw [localize_comma_num]
    have hnum : isNumber 44 (locComma n.text) = true := by
      rw [locComma_eq_swap _ h44, isNumber_swap, isNumber_text n hn]
    have hback : (locComma n.text).map (fun c => if c = 44 then 46 else c) = n.text := unloc_loc 44 n.text h44
    simp [inferCell, cellText, expected, hnum, hback]

theorem head_comma (c : Cell) (h : CellWFsemi c) : (cellText (localize 44 c)).head? ≠ some 0xEF := by
  cases c with
  | str s => exact cellWFsemi_head _ h
  | num l =>
    obtain ⟨n, hn, rfl⟩ := h
    obtain ⟨_, _, _, _, _, _, hEF⟩ := numText_no n hn
    rw [localize_comma_num]
    intro e
    exact not_mem_locComma _ 0xEF hEF (by decide) (List.mem_of_mem_head? e)

/-- untyped reading of a whole table written after `setSeparator(';')`, `setDecimal(',')` -/
theorem table_roundtrip_comma (cols : List Bytes) (hcols : ∀ n ∈ cols, ColOK n) (h2 : 2 ≤ cols.length)
    (rows : List (List Cell)) (hrows : ∀ r ∈ rows, r.length = cols.length ∧ ∀ c ∈ r, CellWFsemi c) :
    readTableT [] (writeItemsG 59 44 cols (rows.flatten.map .cell)) =
      { columns := cols, rows := rows.map (·.map expected) } := by
  have hne : cols ≠ [] := by intro e; subst e; simp at h2
  apply table_roundtrip_sep 59 (Or.inr (Or.inl rfl)) 44 [] cols hne hcols (Or.inr h2)
  intro r hr
  obtain ⟨hl, hc⟩ := hrows r hr
  cases r with
  | nil => simp at hl; omega
  | cons c t =>
    have hok : ∀ x ∈ (c :: t).map (localize 44), CellOK 59 x := by
      intro x hx
      obtain ⟨y, hy, rfl⟩ := List.mem_map.mp hx
      exact cellOK_comma y (hc y hy)
    refine ⟨hl, fun x hx => localize_ne_newline 59 44 x (cellOK_comma x (hc x hx)), ?_, ?_, ?_⟩
    · unfold rowTextG
      exact clean_writeRow_ok 59 (by decide) (by decide) _ hok
    · unfold rowTextG
      rw [List.map_cons]
      exact writeRow_head_ne 59 (by decide) _ _ (head_comma c (hc c (by simp)))
    · rw [typedRow_nil]
      unfold rowTextG
      rw [List.map_cons, parseRow_writeRow 59 (by decide) (localize 44 c) (t.map (localize 44))
        (hok _ (by simp)) (fun x hx => hok x (by simp at hx ⊢; exact Or.inr hx))]
      have hsd : sniffDec 59 = 44 := rfl
      simp only [List.map_cons, List.map_map, hsd]
      rw [inferCell_comma c (hc c (by simp))]
      congr 1
      apply List.map_congr_left
      intro x hx
      exact inferCell_comma x (hc x (by simp [hx]))

theorem readRowsT_nil (sep dec : UInt8) (fuel : Nat) (f : RFile) (started : Bool) :
    readRowsT [] sep dec fuel f started = readRows sep dec fuel f started := by
  induction fuel generalizing f started with
  | zero => rfl
  | succ n ih => simp only [readRowsT, readRows, typedRow_nil, ih]

/-- without `readAs` the typed reader is the reader -/
theorem readTableT_nil (text : Bytes) : readTableT [] text = readTable text := by
  simp only [readTableT, readTable, readRowsT_nil]

/-! ## `readAs` with fewer (or more) type characters than the row has cells -/

/-- the cells that have a type character suit it; nothing is asked here of the others -/
def FitsPrefix (rdec : UInt8) : List ColType → List Cell → Prop
  | t :: ts, c :: cs => Fits rdec t c ∧ FitsPrefix rdec ts cs
  | _, _ => True

/-- a cell beyond the type string is inferred: the three writer/reader decimal settings the untyped theorems cover -/
def InferWF (wdec rdec : UInt8) (c : Cell) : Prop :=
  (wdec = 46 ∧ rdec = 46 ∧ CellWF c) ∨ (wdec = 46 ∧ rdec = 44 ∧ CellWFsemi c) ∨ (wdec = 44 ∧ rdec = 44 ∧ CellWFsemi c)

theorem inferCell_any (wdec rdec : UInt8) (c : Cell) (h : InferWF wdec rdec c) :
    inferCell rdec (cellText (localize wdec c)) = expected c := by
  rcases h with ⟨rfl, rfl, h⟩ | ⟨rfl, rfl, h⟩ | ⟨rfl, rfl, h⟩
  · rw [localize_dot]; exact inferCell_expected c h
  · rw [localize_dot]; exact inferCell_semi c h
  · exact inferCell_comma c h

theorem typedRow_texts_prefix (wdec rdec : UInt8) (hd : wdec = 46 ∨ wdec = rdec) (types : List ColType) (row : List Cell)
    (hf : FitsPrefix rdec types row) (hw : ∀ c ∈ row.drop types.length, InferWF wdec rdec c) :
    typedRow rdec types (row.map fun c => cellText (localize wdec c)) =
      ((types.zip row).filterMap fun p => typedSpec p.1 p.2) ++ (row.drop types.length).map expected := by
  induction types generalizing row with
  | nil =>
    rw [typedRow_nil]
    simp only [List.zip_nil_left, List.filterMap_nil, List.nil_append, List.length_nil, List.drop_zero, List.map_map]
    apply List.map_congr_left
    intro c hc
    exact inferCell_any wdec rdec c (hw c (by simpa using hc))
  | cons ty ts ih =>
    cases row with
    | nil => simp [typedRow]
    | cons c cs =>
      obtain ⟨h1, h2⟩ := hf
      have hw' : ∀ x ∈ cs.drop ts.length, InferWF wdec rdec x := by
        intro x hx; exact hw x (by simpa using hx)
      simp only [List.map_cons, typedRow, List.zip_cons_cons, List.filterMap_cons, ih cs h2 hw',
        typedCell_localize wdec rdec hd _ _ h1, List.length_cons, List.drop_succ_cons]
      cases typedSpec ty c <;> rfl

/-- **row written with `setSeparator(sep)`, `setDecimal(wdec)`, read with a `readAs` string of any length** -/
theorem typed_row_roundtrip_prefix (sep : UInt8) (hsep : sep ≠ 34) (wdec rdec : UInt8) (hd : wdec = 46 ∨ wdec = rdec)
    (types : List ColType) (c : Cell) (t : List Cell)
    (hok : ∀ x ∈ c :: t, CellOK sep (localize wdec x))
    (hf : FitsPrefix rdec types (c :: t)) (hw : ∀ x ∈ (c :: t).drop types.length, InferWF wdec rdec x) :
    typedRow rdec types (parseRow sep (rowTextG sep wdec (c :: t))) =
      ((types.zip (c :: t)).filterMap fun p => typedSpec p.1 p.2) ++ ((c :: t).drop types.length).map expected := by
  unfold rowTextG
  rw [List.map_cons, parseRow_writeRow sep hsep (localize wdec c) (t.map (localize wdec))
    (hok c (by simp)) (by
      intro x hx
      obtain ⟨y, hy, rfl⟩ := List.mem_map.mp hx
      exact hok y (by simp [hy]))]
  have := typedRow_texts_prefix wdec rdec hd types (c :: t) hf hw
  simpa [List.map_map, Function.comp_def] using this

end AslProofs.Csv
