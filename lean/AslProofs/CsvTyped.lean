import AslProofs.Csv
/-!
# C18 — columns read with `readAs(types)`: what a written row comes back as
-/
namespace AslProofs.Csv
open AslModel.Csv

open AslModel.Ini (Bytes)


/-- decimal value of a digit string -/
def digitsVal (ds : Bytes) (y : Nat) : Nat := ds.foldl (fun y c => 10 * y + (c.toNat - 48)) y

theorem le_digitsVal (ds : Bytes) (y : Nat) : y ≤ digitsVal ds y := by
  induction ds generalizing y with
  | nil => exact Nat.le_refl _
  | cons c t ih =>
    have := ih (10 * y + (c.toNat - 48))
    simp only [digitsVal, List.foldl_cons] at this ⊢
    omega

theorem atoiDigits_eq (ds : Bytes) (y : Nat) (hd : ∀ c ∈ ds, isDigit c = true) (hb : digitsVal ds y < 4294967296) :
    atoiDigits ds y = digitsVal ds y := by
  induction ds generalizing y with
  | nil => rfl
  | cons c t ih =>
    have hc := hd c (by simp)
    have hle := le_digitsVal t (10 * y + (c.toNat - 48))
    have hb' : digitsVal t (10 * y + (c.toNat - 48)) < 4294967296 := hb
    have hm : (10 * y + (c.toNat - 48)) % 4294967296 = 10 * y + (c.toNat - 48) := Nat.mod_eq_of_lt (by omega)
    simp only [atoiDigits, hc, if_true, hm]
    exact ih _ (fun x hx => hd x (by simp [hx])) hb'

/-- the integer a decimal text `[-]digits` spells -/
def intValue : Bytes → Int
  | 45 :: ds => -(digitsVal ds 0 : Int)
  | ds => (digitsVal ds 0 : Int)

/-- `[-]digits` with at least one digit, magnitude below 2^31 -/
def IntText (l : Bytes) : Prop :=
  ∃ (neg : Bool) (ds : Bytes), l = (if neg then [45] else []) ++ ds ∧ ds ≠ [] ∧ (∀ c ∈ ds, isDigit c = true) ∧
    digitsVal ds 0 < 2147483648

theorem atoi32_intText (l : Bytes) (h : IntText l) : atoi32 l = intValue l := by
  obtain ⟨neg, ds, rfl, hne, hd, hb⟩ := h
  have hA := atoiDigits_eq ds 0 hd (by omega)
  cases neg with
  | true =>
    simp only [if_true, List.singleton_append, atoi32, intValue, hA, if_true]
    split <;> omega
  | false =>
    cases ds with
    | nil => exact absurd rfl hne
    | cons c t =>
      have hc := hd c (by simp)
      have h45 : c ≠ 45 := by intro e; subst e; simp [isDigit] at hc
      have h43 : c ≠ 43 := by intro e; subst e; simp [isDigit] at hc
      simp only [Bool.false_eq_true, if_false, List.nil_append]
      unfold atoi32 intValue
      split
      · rename_i heq; simp at heq; exact absurd heq.1 h45
      · rename_i heq; simp at heq; exact absurd heq.1 h43
      · rename_i t' _ _ 
        simp only [Bool.false_eq_true, if_false, hA]
        split <;> omega
theorem intText_no_point (l : Bytes) (h : IntText l) : 46 ∉ l := by
  obtain ⟨neg, ds, rfl, _, hd, _⟩ := h
  intro hm
  rcases List.mem_append.mp hm with h1 | h1
  · cases neg <;> simp at h1
  · have := hd 46 h1
    simp [isDigit] at this

theorem loc_id_of_no_point (d : UInt8) (l : Bytes) (h : 46 ∉ l) :
    l.map (fun c => if c = 46 then d else c) = l := by
  induction l with
  | nil => rfl
  | cons a t ih =>
    simp only [List.mem_cons, not_or] at h
    have : a ≠ 46 := fun e => h.1 e.symm
    simp [this, ih h.2]

/-- a cell that suits a column of type `t` when the reader's decimal symbol is `rdec`: strings in `s` columns
    (**any** string), number texts that do not already contain `rdec` in `n` columns, decimal integers below 2^31 in magnitude in `i` columns, anything in a dropped column -/
def Fits (rdec : UInt8) : ColType → Cell → Prop
  | .str, .str _ => True
  | .num, .num l => rdec ∉ l ∨ rdec = 46
  | .int, .num l => IntText l
  | .skip, _ => True
  | _, _ => False

/-- what the cell is expected to come back as -/
def typedSpec : ColType → Cell → Option RCell
  | .str, .str s => some (.str s)
  | .num, .num l => some (.num (atofDec l))
  | .int, .num l => some (.int (intValue l))
  | _, _ => none

theorem map_id_of_not_mem (d : UInt8) (l : Bytes) (h : d ∉ l) :
    l.map (fun c => if c = d then 46 else c) = l := by
  induction l with
  | nil => rfl
  | cons a t ih =>
    simp only [List.mem_cons, not_or] at h
    have : a ≠ d := fun e => h.1 e.symm
    simp [this, ih h.2]

theorem unloc_loc (d : UInt8) (l : Bytes) (h : d ∉ l) :
    (l.map (fun c => if c = 46 then d else c)).map (fun c => if c = d then 46 else c) = l := by
  induction l with
  | nil => rfl
  | cons a t ih =>
    simp only [List.mem_cons, not_or] at h
    have hne : a ≠ d := fun e => h.1 e.symm
    simp only [List.map_cons, ih h.2]
    by_cases ha : a = 46
    · simp [ha]
    · simp [ha, hne]

/-- one cell: written with decimal symbol `wdec`, read with `rdec`, where the writer kept `.` or both agree -/
theorem typedCell_localize (wdec rdec : UInt8) (hd : wdec = 46 ∨ wdec = rdec) (ty : ColType) (c : Cell)
    (hf : Fits rdec ty c) : typedCell rdec ty (cellText (localize wdec c)) = typedSpec ty c := by
  cases ty <;> cases c <;> simp only [Fits] at hf <;> try rfl
  case int.num l =>
    have e : (if wdec != 46 then l.map (fun c => if c = 46 then wdec else c) else l) = l := by
      split
      · exact loc_id_of_no_point wdec l (intText_no_point l hf)
      · rfl
    simp only [localize, cellText, typedCell, typedSpec, e, atoi32_intText l hf]
  case num.num l =>
    simp only [localize, cellText, typedCell, typedSpec]
    congr 3
    by_cases hw : wdec = 46
    · subst hw
      simp only [bne_self_eq_false, Bool.false_eq_true, if_false]
      by_cases hr : rdec = 46
      · simp [hr]
      · rcases hf with hf | hf
        · simp only [bne_iff_ne, ne_eq, hr, not_false_eq_true, if_true]
          exact map_id_of_not_mem rdec l hf
        · exact absurd hf hr
    · have e : wdec = rdec := by rcases hd with h | h; exact absurd h hw; exact h
      subst e
      rcases hf with hf | hf
      · simp only [bne_iff_ne, ne_eq, hw, not_false_eq_true, if_true]
        exact unloc_loc wdec l hf
      · exact absurd hf hw

/-- one type character per cell, each cell suiting its column -/
def FitsAll (rdec : UInt8) : List ColType → List Cell → Prop
  | [], [] => True
  | t :: ts, c :: cs => Fits rdec t c ∧ FitsAll rdec ts cs
  | _, _ => False

/-- the typed columns of a row, given the texts the parser returns -/
theorem typedRow_texts (wdec rdec : UInt8) (hd : wdec = 46 ∨ wdec = rdec) (types : List ColType) (row : List Cell)
    (hf : FitsAll rdec types row) :
    typedRow rdec types (row.map fun c => cellText (localize wdec c)) =
      (types.zip row).filterMap fun p => typedSpec p.1 p.2 := by
  induction types generalizing row with
  | nil =>
    cases row with
    | nil => rfl
    | cons _ _ => exact absurd hf (by simp [FitsAll])
  | cons ty ts ih =>
    cases row with
    | nil => exact absurd hf (by simp [FitsAll])
    | cons c cs =>
      obtain ⟨h1, h2⟩ := hf
      simp only [List.map_cons, typedRow, List.zip_cons_cons, List.filterMap_cons, ih cs h2,
        typedCell_localize wdec rdec hd _ _ h1]
      cases typedSpec ty c <;> rfl

/-- **row written with `setSeparator(sep)`, `setDecimal(wdec)`, read with `readAs(types)`** -/
theorem typed_row_roundtrip (sep : UInt8) (hsep : sep ≠ 34) (wdec rdec : UInt8) (hd : wdec = 46 ∨ wdec = rdec)
    (types : List ColType) (c : Cell) (t : List Cell)
    (hok : ∀ x ∈ c :: t, CellOK sep (localize wdec x))
    (hf : FitsAll rdec types (c :: t)) :
    typedRow rdec types (parseRow sep (rowTextG sep wdec (c :: t))) =
      (types.zip (c :: t)).filterMap fun p => typedSpec p.1 p.2 := by
  unfold rowTextG
  rw [List.map_cons, parseRow_writeRow sep hsep (localize wdec c) (t.map (localize wdec))
    (hok c (by simp)) (by
      intro x hx
      obtain ⟨y, hy, rfl⟩ := List.mem_map.mp hx
      exact hok y (by simp [hy]))]
  have := typedRow_texts wdec rdec hd types (c :: t) hf
  simpa [List.map_map, Function.comp_def] using this

end AslProofs.Csv
