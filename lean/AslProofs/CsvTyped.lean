import AslProofs.Csv
/-!
# C18 — columns read with `readAs(types)`: what a written row comes back as
-/
namespace AslProofs.Csv
open AslModel.Csv

open AslModel.Ini (Bytes)


/-- decimal value of a digit string -/
def digitsVal (ds : Bytes) (y : Nat) : Nat := ds.foldl (fun y c => 10 * y + (c.toNat - 48)) y

theorem le_digitsVal (ds : Bytes) (y : Nat) : y ≤ digitsVal ds y := by
  induction ds generalizing y with
  | nil => exact Nat.le_refl _
  | cons c t ih =>
    have := ih (10 * y + (c.toNat - 48))
    simp only [digitsVal, List.foldl_cons] at this ⊢
    omega

theorem atoiDigits_eq (ds : Bytes) (y : Nat) (hd : ∀ c ∈ ds, isDigit c = true) (hb : digitsVal ds y < 4294967296) :
    atoiDigits ds y = digitsVal ds y := by
  induction ds generalizing y with
  | nil => rfl
  | cons c t ih =>
    have hc := hd c (by simp)
    have hle := le_digitsVal t (10 * y + (c.toNat - 48))
    have hb' : digitsVal t (10 * y + (c.toNat - 48)) < 4294967296 := hb
    have hm : (10 * y + (c.toNat - 48)) % 4294967296 = 10 * y + (c.toNat - 48) := Nat.mod_eq_of_lt (by omega)
    simp only [atoiDigits, hc, if_true, hm]
    exact ih _ (fun x hx => hd x (by simp [hx])) hb'

/-- the integer a decimal text `[-]digits` spells -/
def intValue : Bytes → Int
  | 45 :: ds => -(digitsVal ds 0 : Int)
  | ds => (digitsVal ds 0 : Int)

/-- `[-]digits` with at least one digit, magnitude below 2^31 -/
def IntText (l : Bytes) : Prop :=
  ∃ (neg : Bool) (ds : Bytes), l = (if neg then [45] else []) ++ ds ∧ ds ≠ [] ∧ (∀ c ∈ ds, isDigit c = true) ∧
    digitsVal ds 0 < 2147483648

theorem atoi32_intText (l : Bytes) (h : IntText l) : atoi32 l = intValue l := by
  obtain ⟨neg, ds, rfl, hne, hd, hb⟩ := h
  have hA := atoiDigits_eq ds 0 hd (by omega)
  cases neg with
  | true =>
    simp only [if_true, List.singleton_append, atoi32, intValue, hA, if_true]
    split <;> omega
  | false =>
    cases ds with
    | nil => exact absurd rfl hne
    | cons c t =>
      have hc := hd c (by simp)
      have h45 : c ≠ 45 := by intro e; subst e; simp [isDigit] at hc
      have h43 : c ≠ 43 := by intro e; subst e; simp [isDigit] at hc
      simp only [Bool.false_eq_true, if_false, List.nil_append]
      unfold atoi32 intValue
      split
      · rename_i heq; simp at heq; exact absurd heq.1 h45
      · rename_i heq; simp at heq; exact absurd heq.1 h43
      · rename_i t' _ _ 
        simp only [Bool.false_eq_true, if_false, hA]
        split <;> omega
theorem intText_no_point (l : Bytes) (h : IntText l) : 46 ∉ l := by
  obtain ⟨neg, ds, rfl, _, hd, _⟩ := h
  intro hm
  rcases List.mem_append.mp hm with h1 | h1
  · cases neg <;> simp at h1
  · have := hd 46 h1
    simp [isDigit] at this

theorem loc_id_of_no_point (d : UInt8) (l : Bytes) (h : 46 ∉ l) :
    l.map (fun c => if c = 46 then d else c) = l := by
  induction l with
  | nil => rfl
  | cons a t ih =>
    simp only [List.mem_cons, not_or] at h
    have : a ≠ 46 := fun e => h.1 e.symm
    simp [this, ih h.2]

/-! ## `h` columns: `String::hexToInt` = `(unsigned) strtoul(text, NULL, 16)` on hex number texts -/

/-- positional value of a hex digit string -/
def hexDigitsVal (ds : Bytes) (y : Nat) : Nat := ds.foldl (fun y c => 16 * y + (hexVal c).getD 0) y

theorem hexLoop_digits (ds : Bytes) (y : Nat) (hd : ∀ c ∈ ds, (hexVal c).isSome = true) :
    hexLoop ds y = hexDigitsVal ds y := by
  induction ds generalizing y with
  | nil => rfl
  | cons c t ih =>
    have hc := hd c (by simp)
    cases e : hexVal c with
    | none => simp [e] at hc
    | some d =>
      simp only [hexLoop, e, hexDigitsVal, List.foldl_cons, Option.getD_some]
      exact ih _ (fun c hc => hd c (by simp [hc]))

theorem hexVal_facts (c : UInt8) (h : (hexVal c).isSome = true) :
    c ≠ 120 ∧ c ≠ 88 ∧ c ≠ 45 ∧ c ≠ 43 ∧ isBlankC c = false := by
  refine ⟨?_, ?_, ?_, ?_, ?_⟩
  · rintro rfl; revert h; decide
  · rintro rfl; revert h; decide
  · rintro rfl; revert h; decide
  · rintro rfl; revert h; decide
  · cases hb : isBlankC c with
    | false => rfl
    | true =>
      exfalso
      simp only [isBlankC, Bool.or_eq_true, beq_iff_eq, Bool.and_eq_true, decide_eq_true_eq] at hb
      simp only [hexVal] at h
      rcases hb with rfl | ⟨h1, h2⟩
      · revert h; decide
      · have : ¬ (48 ≤ c ∧ c ≤ 57) := fun ⟨a, _⟩ => by
          rw [UInt8.le_iff_toNat_le] at a h2; simp at a h2; omega
        have h3 : ¬ (97 ≤ c ∧ c ≤ 102) := fun ⟨a, _⟩ => by
          rw [UInt8.le_iff_toNat_le] at a h2; simp at a h2; omega
        have h4 : ¬ (65 ≤ c ∧ c ≤ 70) := fun ⟨a, _⟩ => by
          rw [UInt8.le_iff_toNat_le] at a h2; simp at a h2; omega
        simp [this, h3, h4] at h

/-- a hex number text: optional `0x` / `0X`, then 1 or more hex digits of either case, value below 2^32 -/
def HexText (s : Bytes) : Prop :=
  ∃ (pre ds : Bytes), (pre = [] ∨ pre = [48, 120] ∨ pre = [48, 88]) ∧ s = pre ++ ds ∧ ds ≠ [] ∧
    (∀ c ∈ ds, (hexVal c).isSome = true) ∧ hexDigitsVal ds 0 < 4294967296

/-- the value a hex text denotes: positional reading of what follows the optional prefix -/
def hexValue (s : Bytes) : Nat :=
  hexDigitsVal (if s.take 2 = [48, 120] ∨ s.take 2 = [48, 88] then s.drop 2 else s) 0

/-- what `Var(unsigned)` holds: an `int` below 2^31, otherwise the (exact) double -/
def hexCell (y : Nat) : RCell := if y < 2147483648 then .int y else .num ⟨false, y, 0⟩

theorem skip0x_digits (ds : Bytes) (hd : ∀ c ∈ ds, (hexVal c).isSome = true) : skip0x ds = ds := by
  unfold skip0x
  split
  · rename_i x h t
    have hx := hexVal_facts x (hd x (by simp))
    simp [hx.1, hx.2.1]
  · rfl

theorem hexU32_prefixed (x d : UInt8) (t : Bytes) (hx : x = 120 ∨ x = 88) (hd : ∀ c ∈ d :: t, (hexVal c).isSome = true)
    (hb : hexDigitsVal (d :: t) 0 < 4294967296) :
    hexU32 (48 :: x :: d :: t) = hexDigitsVal (d :: t) 0 ∧ hexValue (48 :: x :: d :: t) = hexDigitsVal (d :: t) 0 := by
  have hsome : (hexVal d).isSome = true := hd d (by simp)
  have hl := hexLoop_digits _ 0 hd
  refine ⟨?_, ?_⟩
  · have e1 : (48 :: x :: d :: t : Bytes).dropWhile isBlankC = 48 :: x :: d :: t := by
      rw [List.dropWhile_cons]; simp [show isBlankC 48 = false by decide]
    have e2 : hexSign (48 :: x :: d :: t) = (false, 48 :: x :: d :: t) := rfl
    have e3 : skip0x (48 :: x :: d :: t) = d :: t := by
      unfold skip0x
      rcases hx with rfl | rfl <;> simp [hsome]
    simp only [hexU32, e1, e2, e3, hl]
    have : ¬ hexDigitsVal (d :: t) 0 ≥ 18446744073709551616 := by omega
    simp only [this, if_false, Bool.false_eq_true]
    exact Nat.mod_eq_of_lt hb
  · rcases hx with rfl | rfl <;> simp [hexValue]

theorem hexU32_hexText (s : Bytes) (h : HexText s) : hexU32 s = hexValue s ∧ hexValue s < 4294967296 := by
  obtain ⟨pre, ds, hp, rfl, hne, hd, hb⟩ := h
  cases ds with
  | nil => exact absurd rfl hne
  | cons d t =>
    have hfd := hexVal_facts d (hd d (by simp))
    have hsome : (hexVal d).isSome = true := hd d (by simp)
    rcases hp with rfl | rfl | rfl
    · -- no prefix
      have e1 : ([] ++ d :: t : Bytes).dropWhile isBlankC = d :: t := by
        simp [hfd.2.2.2.2]
      have e2 : hexSign (d :: t) = (false, d :: t) := by
        unfold hexSign
        split
        · rename_i heq; simp only [List.cons.injEq] at heq; exact absurd heq.1 hfd.2.2.1
        · rename_i heq; simp only [List.cons.injEq] at heq; exact absurd heq.1 hfd.2.2.2.1
        · rfl
      have e3 : hexValue ([] ++ d :: t) = hexDigitsVal (d :: t) 0 := by
        unfold hexValue
        have : ¬ (([] ++ d :: t : Bytes).take 2 = [48, 120] ∨ ([] ++ d :: t : Bytes).take 2 = [48, 88]) := by
          cases t with
          | nil => simp
          | cons x t' =>
            have hx := hexVal_facts x (hd x (by simp))
            simp [hx.1, hx.2.1]
        rw [if_neg this]; rfl
      rw [e3]
      refine ⟨?_, hb⟩
      simp only [hexU32, e1, e2, skip0x_digits _ hd, hexLoop_digits _ _ hd]
      have : ¬ hexDigitsVal (d :: t) 0 ≥ 18446744073709551616 := by omega
      simp only [this, if_false, Bool.false_eq_true]
      exact Nat.mod_eq_of_lt hb
    · have := hexU32_prefixed 120 d t (Or.inl rfl) hd hb
      exact ⟨by simpa using this.1.trans this.2.symm, by simpa using this.2 ▸ hb⟩
    · have := hexU32_prefixed 88 d t (Or.inr rfl) hd hb
      exact ⟨by simpa using this.1.trans this.2.symm, by simpa using this.2 ▸ hb⟩

/-- a cell that suits a column of type `t` when the reader's decimal symbol is `rdec`: strings in `s` columns
    (**any** string), number texts that do not already contain `rdec` in `n` columns, decimal integers below 2^31 in magnitude in `i` columns, anything in a dropped column -/
def Fits (rdec : UInt8) : ColType → Cell → Prop
  | .str, .str _ => True
  | .num, .num l => rdec ∉ l ∨ rdec = 46
  | .int, .num l => IntText l
  | .skip, _ => True
  | .hex, .str s => HexText s
  | _, _ => False

/-- what the cell is expected to come back as -/
def typedSpec : ColType → Cell → Option RCell
  | .str, .str s => some (.str s)
  | .num, .num l => some (.num (atofDec l))
  | .int, .num l => some (.int (intValue l))
  | .hex, .str s => some (hexCell (hexValue s))
  | _, _ => none

theorem map_id_of_not_mem (d : UInt8) (l : Bytes) (h : d ∉ l) :
    l.map (fun c => if c = d then 46 else c) = l := by
  induction l with
  | nil => rfl
  | cons a t ih =>
    simp only [List.mem_cons, not_or] at h
    have : a ≠ d := fun e => h.1 e.symm
    simp [this, ih h.2]

theorem unloc_loc (d : UInt8) (l : Bytes) (h : d ∉ l) :
    (l.map (fun c => if c = 46 then d else c)).map (fun c => if c = d then 46 else c) = l := by
  induction l with
  | nil => rfl
  | cons a t ih =>
    simp only [List.mem_cons, not_or] at h
    have hne : a ≠ d := fun e => h.1 e.symm
    simp only [List.map_cons, ih h.2]
    by_cases ha : a = 46
    · simp [ha]
    · simp [ha, hne]

/-- one cell: written with decimal symbol `wdec`, read with `rdec`, where the writer kept `.` or both agree -/
theorem typedCell_localize (wdec rdec : UInt8) (hd : wdec = 46 ∨ wdec = rdec) (ty : ColType) (c : Cell)
    (hf : Fits rdec ty c) : typedCell rdec ty (cellText (localize wdec c)) = typedSpec ty c := by
  cases ty <;> cases c <;> simp only [Fits] at hf <;> try rfl
  case hex.str s =>
    simp only [localize, cellText, typedCell, typedSpec, hexCell, (hexU32_hexText s hf).1]
  case int.num l =>
    have e : (if wdec != 46 then l.map (fun c => if c = 46 then wdec else c) else l) = l := by
      split
      · exact loc_id_of_no_point wdec l (intText_no_point l hf)
      · rfl
    simp only [localize, cellText, typedCell, typedSpec, e, atoi32_intText l hf]
  case num.num l =>
    simp only [localize, cellText, typedCell, typedSpec]
    congr 3
    by_cases hw : wdec = 46
    · subst hw
      simp only [bne_self_eq_false, Bool.false_eq_true, if_false]
      by_cases hr : rdec = 46
      · simp [hr]
      · rcases hf with hf | hf
        · simp only [bne_iff_ne, ne_eq, hr, not_false_eq_true, if_true]
          exact map_id_of_not_mem rdec l hf
        · exact absurd hf hr
    · have e : wdec = rdec := by rcases hd with h | h; exact absurd h hw; exact h
      subst e
      rcases hf with hf | hf
      · simp only [bne_iff_ne, ne_eq, hw, not_false_eq_true, if_true]
        exact unloc_loc wdec l hf
      · exact absurd hf hw

/-- one type character per cell, each cell suiting its column -/
def FitsAll (rdec : UInt8) : List ColType → List Cell → Prop
  | [], [] => True
  | t :: ts, c :: cs => Fits rdec t c ∧ FitsAll rdec ts cs
  | _, _ => False

/-- the typed columns of a row, given the texts the parser returns -/
theorem typedRow_texts (wdec rdec : UInt8) (hd : wdec = 46 ∨ wdec = rdec) (types : List ColType) (row : List Cell)
    (hf : FitsAll rdec types row) :
    typedRow rdec types (row.map fun c => cellText (localize wdec c)) =
      (types.zip row).filterMap fun p => typedSpec p.1 p.2 := by
  induction types generalizing row with
  | nil =>
    cases row with
    | nil => rfl
    | cons _ _ => exact absurd hf (by simp [FitsAll])
  | cons ty ts ih =>
    cases row with
    | nil => exact absurd hf (by simp [FitsAll])
    | cons c cs =>
      obtain ⟨h1, h2⟩ := hf
      simp only [List.map_cons, typedRow, List.zip_cons_cons, List.filterMap_cons, ih cs h2,
        typedCell_localize wdec rdec hd _ _ h1]
      cases typedSpec ty c <;> rfl

/-- **row written with `setSeparator(sep)`, `setDecimal(wdec)`, read with `readAs(types)`** -/
theorem typed_row_roundtrip (sep : UInt8) (hsep : sep ≠ 34) (wdec rdec : UInt8) (hd : wdec = 46 ∨ wdec = rdec)
    (types : List ColType) (c : Cell) (t : List Cell)
    (hok : ∀ x ∈ c :: t, CellOK sep (localize wdec x))
    (hf : FitsAll rdec types (c :: t)) :
    typedRow rdec types (parseRow sep (rowTextG sep wdec (c :: t))) =
      (types.zip (c :: t)).filterMap fun p => typedSpec p.1 p.2 := by
  unfold rowTextG
  rw [List.map_cons, parseRow_writeRow sep hsep (localize wdec c) (t.map (localize wdec))
    (hok c (by simp)) (by
      intro x hx
      obtain ⟨y, hy, rfl⟩ := List.mem_map.mp hx
      exact hok y (by simp [hy]))]
  have := typedRow_texts wdec rdec hd types (c :: t) hf
  simpa [List.map_map, Function.comp_def] using this

end AslProofs.Csv
