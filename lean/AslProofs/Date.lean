import AslModel.Date
/-! Helper lemmas for C19 (core Lean only): the regenerated `yearFromDay` brackets the day in its year. -/
open Gen.Date

namespace AslProofs.Date

/-- days from 0000-01-01 to y-01-01 in the proleptic Gregorian calendar (year 0 is leap) -/
def start (y : Int) : Int := 365 * y + (y + 3) / 4 - (y + 99) / 100 + (y + 399) / 400

theorem j2_normal (d j3 year k3 k2 : Int) (hn : ¬ (k3 = 0 ∧ k2 ≠ 0)) (h0 : 0 ≤ d - j3) (h1 : d - j3 < 1461) :
    ∃ e, 0 ≤ e ∧ e < 4 ∧ yearFromDay_j2 d j3 year k3 k2 = year + 4 * k3 + e ∧
      (e = 0 → d - j3 < 366) ∧ (1 ≤ e → 365 * e + 1 ≤ d - j3 ∧ d - j3 < 365 * e + 366) := by
  simp only [yearFromDay_j2, if_neg hn]
  repeat' split
  · exact ⟨2, by omega⟩
  · exact ⟨3, by omega⟩
  · exact ⟨1, by omega⟩
  · exact ⟨0, by omega⟩

theorem j2_century (d j3 year k3 k2 : Int) (hc : k3 = 0 ∧ k2 ≠ 0) (h0 : 0 ≤ d - j3) (h1 : d - j3 ≤ 1460) :
    ∃ e, 0 ≤ e ∧ e ≤ 4 ∧ yearFromDay_j2 d j3 year k3 k2 = year + e ∧
      365 * e ≤ d - j3 ∧ d - j3 < 365 * e + 365 := by
  simp only [yearFromDay_j2, if_pos hc, Int.tdiv_eq_ediv_of_nonneg h0]
  exact ⟨(d - j3) / 365, by omega⟩


/-- first century of a 400-year block (k2 = 0): all 4-year blocks start with a leap year -/
theorem j1_first (year d j2 : Int) (h0 : 0 ≤ d - j2) (h1 : d - j2 ≤ 36525) :
    ∃ b e, 0 ≤ b ∧ b ≤ 25 ∧ 0 ≤ e ∧ e < 4 ∧ yearFromDay_j1 year 0 d j2 = year + 4 * b + e ∧
      1461 * b ≤ d - j2 ∧
      (e = 0 → d - j2 - 1461 * b < 366) ∧
      (1 ≤ e → 365 * e + 1 ≤ d - j2 - 1461 * b ∧ d - j2 - 1461 * b < 365 * e + 366) := by
  simp only [yearFromDay_j1, if_true, Int.tdiv_eq_ediv_of_nonneg h0]
  obtain ⟨e, he0, he4, hy, ha, hb⟩ := j2_normal (d - j2) ((d - j2) / (365 * 4 + 1) * (365 * 4 + 1)) (year + 0 * 100)
      ((d - j2) / (365 * 4 + 1)) 0 (by omega) (by omega) (by omega)
  exact ⟨(d - j2) / (365 * 4 + 1), e, by omega, by omega, he0, he4, by rw [hy]; omega, by omega, by omega, by omega⟩

/-- later centuries (k2 = 1, 2, 3): the first 4-year block has no leap year -/
theorem j1_later (year k2 d j2 : Int) (hk : k2 ≠ 0) (h0 : 0 ≤ d - j2) (h1 : d - j2 < 36524) :
    ∃ b e, 0 ≤ b ∧ b ≤ 24 ∧ 0 ≤ e ∧ e < 4 ∧ yearFromDay_j1 year k2 d j2 = year + 100 * k2 + 4 * b + e ∧
      (b = 0 → 365 * e ≤ d - j2 ∧ d - j2 < 365 * e + 365) ∧
      (1 ≤ b → 1460 + 1461 * (b - 1) ≤ d - j2 ∧
        (e = 0 → d - j2 - (1460 + 1461 * (b - 1)) < 366) ∧
        (1 ≤ e → 365 * e + 1 ≤ d - j2 - (1460 + 1461 * (b - 1)) ∧ d - j2 - (1460 + 1461 * (b - 1)) < 365 * e + 366)) := by
  simp only [yearFromDay_j1, if_neg hk]
  split
  · rename_i hgt
    have hnn : 0 ≤ d - j2 - (365 * 4 + 1) + 1 := by omega
    simp only [Int.tdiv_eq_ediv_of_nonneg hnn]
    generalize hq : (d - j2 - (365 * 4 + 1) + 1) / (365 * 4 + 1) = q
    have hq0 : 0 ≤ q := by omega
    have hq1 : q ≤ 23 := by omega
    obtain ⟨e, he0, he4, hy, ha, hb⟩ := j2_normal (d - j2) (365 * 4 + 1 - 1 + (1 + q - 1) * (365 * 4 + 1)) (year + k2 * 100)
      (1 + q) k2 (by omega) (by omega) (by omega)
    exact ⟨1 + q, e, by omega, by omega, he0, he4, by rw [hy]; omega, by omega, by omega⟩
  · rename_i hle
    obtain ⟨e, he0, he4, hy, ha, hb⟩ := j2_century (d - j2) 0 (year + k2 * 100) 0 k2 ⟨rfl, hk⟩ (by omega) (by omega)
    by_cases h4 : e = 4
    · -- d - j2 = 1460: the first day of the second 4-year block, reached through the `d / 365` branch
      exact ⟨1, 0, by omega, by omega, by omega, by omega, by rw [hy]; omega, by omega, by omega⟩
    · exact ⟨0, e, by omega, by omega, he0, by omega, by rw [hy]; omega, by omega, by omega⟩


/-- what the general (non fast-path) branch computes: a 400/100/4-year address of the day `n` (days since 0000-01-01) -/
theorem top_general (day n : Int) (hdn : n = day + 719528) (hn : 0 ≤ n) (hf : ¬ (n > 695421 ∧ n < 766645)) :
    ∃ q c b e, 0 ≤ q ∧ 0 ≤ c ∧ c ≤ 3 ∧ 0 ≤ b ∧ 0 ≤ e ∧ e < 4 ∧ yearFromDay day = 400 * q + 100 * c + 4 * b + e ∧
      0 ≤ n - 146097 * q ∧ n - 146097 * q < 146097 ∧
      (c = 0 → b ≤ 25 ∧ 1461 * b ≤ n - 146097 * q ∧ n - 146097 * q ≤ 36525 ∧
        (e = 0 → n - 146097 * q - 1461 * b < 366) ∧
        (1 ≤ e → 365 * e + 1 ≤ n - 146097 * q - 1461 * b ∧ n - 146097 * q - 1461 * b < 365 * e + 366)) ∧
      (1 ≤ c → b ≤ 24 ∧ 0 ≤ n - 146097 * q - 36525 - 36524 * (c - 1) ∧ n - 146097 * q - 36525 - 36524 * (c - 1) < 36524 ∧
        (b = 0 → 365 * e ≤ n - 146097 * q - 36525 - 36524 * (c - 1) ∧ n - 146097 * q - 36525 - 36524 * (c - 1) < 365 * e + 365) ∧
        (1 ≤ b → 1460 + 1461 * (b - 1) ≤ n - 146097 * q - 36525 - 36524 * (c - 1) ∧
          (e = 0 → n - 146097 * q - 36525 - 36524 * (c - 1) - (1460 + 1461 * (b - 1)) < 366) ∧
          (1 ≤ e → 365 * e + 1 ≤ n - 146097 * q - 36525 - 36524 * (c - 1) - (1460 + 1461 * (b - 1)) ∧
            n - 146097 * q - 36525 - 36524 * (c - 1) - (1460 + 1461 * (b - 1)) < 365 * e + 366))) := by
  unfold yearFromDay
  extract_lets +onlyGivenNames d4y d100y d400y d
  have e1 : d4y = 1461 := by simp only [d4y]; rfl
  have e2 : d100y = 36524 := by simp only [d100y, e1]; rfl
  have e3 : d400y = 146097 := by simp only [d400y, e2]; rfl
  have e4 : d = n := by simp only [d, e1, e2, e3]; omega
  clear_value d d400y d100y d4y
  subst e1 e2 e3 e4
  rw [if_neg hf]
  simp only [Int.tdiv_eq_ediv_of_nonneg hn]
  generalize hq : d / 146097 = q
  have hq0 : 0 ≤ q := by omega
  have hr0 : 0 ≤ d - q * 146097 := by omega
  have hr1 : d - q * 146097 < 146097 := by omega
  split
  · rename_i hgt
    have hnn : 0 ≤ d - q * 146097 - 36524 - 1 := by omega
    simp only [Int.tdiv_eq_ediv_of_nonneg hnn]
    generalize hc : (d - q * 146097 - 36524 - 1) / 36524 = c
    have hc0 : 0 ≤ c := by omega
    have hc1 : c ≤ 2 := by omega
    obtain ⟨b, e, hb0, hb1, he0, he4, hy, hA, hB⟩ := j1_later (q * 400) (1 + c) (d - q * 146097) (36524 + 1 + (1 + c - 1) * 36524)
      (by omega) (by omega) (by omega)
    refine ⟨q, 1 + c, b, e, hq0, by omega, by omega, hb0, he0, he4, by rw [hy]; omega, by omega, by omega, by omega, ?_⟩
    intro _
    refine ⟨hb1, by omega, by omega, ?_, ?_⟩
    · intro hb; have := hA hb; omega
    · intro hb; have := hB hb; omega
  · rename_i hle
    obtain ⟨b, e, hb0, hb1, he0, he4, hy, hA, hB, hC⟩ := j1_first (q * 400) (d - q * 146097) 0 (by omega) (by omega)
    refine ⟨q, 0, b, e, hq0, by omega, by omega, hb0, he0, he4, by rw [hy]; omega, by omega, by omega, ?_, by omega⟩
    intro _
    refine ⟨hb1, by omega, by omega, ?_, ?_⟩
    · intro he; have := hB he; omega
    · intro he; have := hC he; omega


/-- the 1904–2099 fast path -/
theorem top_fast (day n : Int) (hdn : n = day + 719528) (hf : n > 695421 ∧ n < 766645) :
    ∃ b e, 0 ≤ b ∧ b ≤ 48 ∧ 0 ≤ e ∧ e < 4 ∧ yearFromDay day = 1904 + 4 * b + e ∧
      1461 * b ≤ n - 695421 ∧
      (e = 0 → n - 695421 - 1461 * b < 366) ∧
      (1 ≤ e → 365 * e + 1 ≤ n - 695421 - 1461 * b ∧ n - 695421 - 1461 * b < 365 * e + 366) := by
  unfold yearFromDay
  extract_lets +onlyGivenNames d4y d100y d400y d
  have e1 : d4y = 1461 := by simp only [d4y]; rfl
  have e2 : d100y = 36524 := by simp only [d100y, e1]; rfl
  have e3 : d400y = 146097 := by simp only [d400y, e2]; rfl
  have e4 : d = n := by simp only [d, e1, e2, e3]; omega
  clear_value d d400y d100y d4y
  subst e1 e2 e3 e4
  rw [if_pos hf]
  have hnn : 0 ≤ d - 695421 := by omega
  simp only [Int.tdiv_eq_ediv_of_nonneg hnn]
  generalize hb : (d - 695421) / 1461 = b
  repeat' split
  · exact ⟨b, 2, by omega⟩
  · exact ⟨b, 3, by omega⟩
  · exact ⟨b, 1, by omega⟩
  · exact ⟨b, 0, by omega⟩

/-- `yearFromDay` returns the year whose interval of days contains the day (all days from 0000-01-01 on) -/
theorem year_bracket (day n : Int) (hdn : n = day + 719528) (hn : 0 ≤ n) :
    start (yearFromDay day) ≤ n ∧ n < start (yearFromDay day + 1) := by
  by_cases hf : n > 695421 ∧ n < 766645
  · obtain ⟨b, e, hb0, hb1, he0, he4, hy, h1, h2, h3⟩ := top_fast day n hdn hf
    rw [hy]; unfold start
    have he : e = 0 ∨ e = 1 ∨ e = 2 ∨ e = 3 := by omega
    by_cases hlate : 4 * b + e ≥ 97
    · rcases he with rfl | rfl | rfl | rfl <;> omega
    · rcases he with rfl | rfl | rfl | rfl <;> omega
  · obtain ⟨q, c, b, e, hq0, hc0, hc3, hb0, he0, he4, hy, hr0, hr1, hA, hB⟩ := top_general day n hdn hn hf
    rw [hy]; unfold start
    have he : e = 0 ∨ e = 1 ∨ e = 2 ∨ e = 3 := by omega
    have hc : c = 0 ∨ c = 1 ∨ c = 2 ∨ c = 3 := by omega
    by_cases hbz : b = 0
    · subst hbz
      rcases hc with rfl | rfl | rfl | rfl <;> rcases he with rfl | rfl | rfl | rfl <;> omega
    · by_cases hb25 : b = 25
      · subst hb25
        rcases hc with rfl | rfl | rfl | rfl <;> rcases he with rfl | rfl | rfl | rfl <;> omega
      · have hb24 : b ≤ 24 := by
          rcases hc with rfl | rfl | rfl | rfl
          · have := (hA rfl).1; omega
          · exact (hB (by omega)).1
          · exact (hB (by omega)).1
          · exact (hB (by omega)).1
        have f1 : (400 * q + 100 * c + 4 * b + e + 99) / 100 = 4 * q + c + 1 := by omega
        have f2 : (400 * q + 100 * c + 4 * b + e + 1 + 99) / 100 = 4 * q + c + 1 := by omega
        have f3 : (400 * q + 100 * c + 4 * b + e + 399) / 400 = q + 1 := by omega
        have f4 : (400 * q + 100 * c + 4 * b + e + 1 + 399) / 400 = q + 1 := by omega
        rw [f1, f2, f3, f4]
        rcases hc with rfl | rfl | rfl | rfl <;> rcases he with rfl | rfl | rfl | rfl <;> omega

end AslProofs.Date
