import AslModel.Date
/-! Helper lemmas for C19 (core Lean only): the regenerated `yearFromDay` brackets the day in its year. -/
open Gen.Date AslModel.Date

namespace AslProofs.Date

/-- days from 0000-01-01 to y-01-01 in the proleptic Gregorian calendar (year 0 is leap) -/
def start (y : Int) : Int := 365 * y + (y + 3) / 4 - (y + 99) / 100 + (y + 399) / 400

theorem j2_normal (d j3 year k3 k2 : Int) (hn : ¬ (k3 = 0 ∧ k2 ≠ 0)) (h0 : 0 ≤ d - j3) (h1 : d - j3 < 1461) :
    ∃ e, 0 ≤ e ∧ e < 4 ∧ yearFromDay_j2 d j3 year k3 k2 = year + 4 * k3 + e ∧
      (e = 0 → d - j3 < 366) ∧ (1 ≤ e → 365 * e + 1 ≤ d - j3 ∧ d - j3 < 365 * e + 366) := by
  simp only [yearFromDay_j2, if_neg hn]
  repeat' split
  · exact ⟨2, by omega⟩
  · exact ⟨3, by omega⟩
  · exact ⟨1, by omega⟩
  · exact ⟨0, by omega⟩

theorem j2_century (d j3 year k3 k2 : Int) (hc : k3 = 0 ∧ k2 ≠ 0) (h0 : 0 ≤ d - j3) (h1 : d - j3 ≤ 1460) :
    ∃ e, 0 ≤ e ∧ e ≤ 4 ∧ yearFromDay_j2 d j3 year k3 k2 = year + e ∧
      365 * e ≤ d - j3 ∧ d - j3 < 365 * e + 365 := by
  simp only [yearFromDay_j2, if_pos hc, Int.tdiv_eq_ediv_of_nonneg h0]
  exact ⟨(d - j3) / 365, by omega⟩


/-- first century of a 400-year block (k2 = 0): all 4-year blocks start with a leap year -/
theorem j1_first (year d j2 : Int) (h0 : 0 ≤ d - j2) (h1 : d - j2 ≤ 36525) :
    ∃ b e, 0 ≤ b ∧ b ≤ 25 ∧ 0 ≤ e ∧ e < 4 ∧ yearFromDay_j1 year 0 d j2 = year + 4 * b + e ∧
      1461 * b ≤ d - j2 ∧
      (e = 0 → d - j2 - 1461 * b < 366) ∧
      (1 ≤ e → 365 * e + 1 ≤ d - j2 - 1461 * b ∧ d - j2 - 1461 * b < 365 * e + 366) := by
  simp only [yearFromDay_j1, if_true, Int.tdiv_eq_ediv_of_nonneg h0]
  obtain ⟨e, he0, he4, hy, ha, hb⟩ := j2_normal (d - j2) ((d - j2) / (365 * 4 + 1) * (365 * 4 + 1)) (year + 0 * 100)
      ((d - j2) / (365 * 4 + 1)) 0 (by omega) (by omega) (by omega)
  exact ⟨(d - j2) / (365 * 4 + 1), e, by omega, by omega, he0, he4, by rw [hy]; omega, by omega, by omega, by omega⟩

/-- later centuries (k2 = 1, 2, 3): the first 4-year block has no leap year -/
theorem j1_later (year k2 d j2 : Int) (hk : k2 ≠ 0) (h0 : 0 ≤ d - j2) (h1 : d - j2 < 36524) :
    ∃ b e, 0 ≤ b ∧ b ≤ 24 ∧ 0 ≤ e ∧ e < 4 ∧ yearFromDay_j1 year k2 d j2 = year + 100 * k2 + 4 * b + e ∧
      (b = 0 → 365 * e ≤ d - j2 ∧ d - j2 < 365 * e + 365) ∧
      (1 ≤ b → 1460 + 1461 * (b - 1) ≤ d - j2 ∧
        (e = 0 → d - j2 - (1460 + 1461 * (b - 1)) < 366) ∧
        (1 ≤ e → 365 * e + 1 ≤ d - j2 - (1460 + 1461 * (b - 1)) ∧ d - j2 - (1460 + 1461 * (b - 1)) < 365 * e + 366)) := by
  simp only [yearFromDay_j1, if_neg hk]
  split
  · rename_i hgt
    have hnn : 0 ≤ d - j2 - (365 * 4 + 1) + 1 := by omega
    simp only [Int.tdiv_eq_ediv_of_nonneg hnn]
    generalize hq : (d - j2 - (365 * 4 + 1) + 1) / (365 * 4 + 1) = q
    have hq0 : 0 ≤ q := by omega
    have hq1 : q ≤ 23 := by omega
    obtain ⟨e, he0, he4, hy, ha, hb⟩ := j2_normal (d - j2) (365 * 4 + 1 - 1 + (1 + q - 1) * (365 * 4 + 1)) (year + k2 * 100)
      (1 + q) k2 (by omega) (by omega) (by omega)
    exact ⟨1 + q, e, by omega, by omega, he0, he4, by rw [hy]; omega, by omega, by omega⟩
  · rename_i hle
    obtain ⟨e, he0, he4, hy, ha, hb⟩ := j2_century (d - j2) 0 (year + k2 * 100) 0 k2 ⟨rfl, hk⟩ (by omega) (by omega)
    by_cases h4 : e = 4
    · -- d - j2 = 1460: the first day of the second 4-year block, reached through the `d / 365` branch
      exact ⟨1, 0, by omega, by omega, by omega, by omega, by rw [hy]; omega, by omega, by omega⟩
    · exact ⟨0, e, by omega, by omega, he0, by omega, by rw [hy]; omega, by omega, by omega⟩


/-- what the general (non fast-path) branch computes: a 400/100/4-year address of the day `n` (days since 0000-01-01) -/
theorem top_general (day n : Int) (hdn : n = day + 719528) (hn : 0 ≤ n) (hf : ¬ (n > 695421 ∧ n < 766645)) :
    ∃ q c b e, 0 ≤ q ∧ 0 ≤ c ∧ c ≤ 3 ∧ 0 ≤ b ∧ 0 ≤ e ∧ e < 4 ∧ yearFromDay day = 400 * q + 100 * c + 4 * b + e ∧
      0 ≤ n - 146097 * q ∧ n - 146097 * q < 146097 ∧
      (c = 0 → b ≤ 25 ∧ 1461 * b ≤ n - 146097 * q ∧ n - 146097 * q ≤ 36525 ∧
        (e = 0 → n - 146097 * q - 1461 * b < 366) ∧
        (1 ≤ e → 365 * e + 1 ≤ n - 146097 * q - 1461 * b ∧ n - 146097 * q - 1461 * b < 365 * e + 366)) ∧
      (1 ≤ c → b ≤ 24 ∧ 0 ≤ n - 146097 * q - 36525 - 36524 * (c - 1) ∧ n - 146097 * q - 36525 - 36524 * (c - 1) < 36524 ∧
        (b = 0 → 365 * e ≤ n - 146097 * q - 36525 - 36524 * (c - 1) ∧ n - 146097 * q - 36525 - 36524 * (c - 1) < 365 * e + 365) ∧
        (1 ≤ b → 1460 + 1461 * (b - 1) ≤ n - 146097 * q - 36525 - 36524 * (c - 1) ∧
          (e = 0 → n - 146097 * q - 36525 - 36524 * (c - 1) - (1460 + 1461 * (b - 1)) < 366) ∧
          (1 ≤ e → 365 * e + 1 ≤ n - 146097 * q - 36525 - 36524 * (c - 1) - (1460 + 1461 * (b - 1)) ∧
            n - 146097 * q - 36525 - 36524 * (c - 1) - (1460 + 1461 * (b - 1)) < 365 * e + 366))) := by
  unfold yearFromDay
  extract_lets +onlyGivenNames d4y d100y d400y d
  have e1 : d4y = 1461 := by simp only [d4y]; rfl
  have e2 : d100y = 36524 := by simp only [d100y, e1]; rfl
  have e3 : d400y = 146097 := by simp only [d400y, e2]; rfl
  have e4 : d = n := by simp only [d, e1, e2, e3]; omega
  clear_value d d400y d100y d4y
  subst e1 e2 e3 e4
  rw [if_neg hf]
  simp only [Int.tdiv_eq_ediv_of_nonneg hn]
  generalize hq : d / 146097 = q
  have hq0 : 0 ≤ q := by omega
  have hr0 : 0 ≤ d - q * 146097 := by omega
  have hr1 : d - q * 146097 < 146097 := by omega
  split
  · rename_i hgt
    have hnn : 0 ≤ d - q * 146097 - 36524 - 1 := by omega
    simp only [Int.tdiv_eq_ediv_of_nonneg hnn]
    generalize hc : (d - q * 146097 - 36524 - 1) / 36524 = c
    have hc0 : 0 ≤ c := by omega
    have hc1 : c ≤ 2 := by omega
    obtain ⟨b, e, hb0, hb1, he0, he4, hy, hA, hB⟩ := j1_later (q * 400) (1 + c) (d - q * 146097) (36524 + 1 + (1 + c - 1) * 36524)
      (by omega) (by omega) (by omega)
    refine ⟨q, 1 + c, b, e, hq0, by omega, by omega, hb0, he0, he4, by rw [hy]; omega, by omega, by omega, by omega, ?_⟩
    intro _
    refine ⟨hb1, by omega, by omega, ?_, ?_⟩
    · intro hb; have := hA hb; omega
    · intro hb; have := hB hb; omega
  · rename_i hle
    obtain ⟨b, e, hb0, hb1, he0, he4, hy, hA, hB, hC⟩ := j1_first (q * 400) (d - q * 146097) 0 (by omega) (by omega)
    refine ⟨q, 0, b, e, hq0, by omega, by omega, hb0, he0, he4, by rw [hy]; omega, by omega, by omega, ?_, by omega⟩
    intro _
    refine ⟨hb1, by omega, by omega, ?_, ?_⟩
    · intro he; have := hB he; omega
    · intro he; have := hC he; omega


/-- the 1904–2099 fast path -/
theorem top_fast (day n : Int) (hdn : n = day + 719528) (hf : n > 695421 ∧ n < 766645) :
    ∃ b e, 0 ≤ b ∧ b ≤ 48 ∧ 0 ≤ e ∧ e < 4 ∧ yearFromDay day = 1904 + 4 * b + e ∧
      1461 * b ≤ n - 695421 ∧
      (e = 0 → n - 695421 - 1461 * b < 366) ∧
      (1 ≤ e → 365 * e + 1 ≤ n - 695421 - 1461 * b ∧ n - 695421 - 1461 * b < 365 * e + 366) := by
  unfold yearFromDay
  extract_lets +onlyGivenNames d4y d100y d400y d
  have e1 : d4y = 1461 := by simp only [d4y]; rfl
  have e2 : d100y = 36524 := by simp only [d100y, e1]; rfl
  have e3 : d400y = 146097 := by simp only [d400y, e2]; rfl
  have e4 : d = n := by simp only [d, e1, e2, e3]; omega
  clear_value d d400y d100y d4y
  subst e1 e2 e3 e4
  rw [if_pos hf]
  have hnn : 0 ≤ d - 695421 := by omega
  simp only [Int.tdiv_eq_ediv_of_nonneg hnn]
  generalize hb : (d - 695421) / 1461 = b
  repeat' split
  · exact ⟨b, 2, by omega⟩
  · exact ⟨b, 3, by omega⟩
  · exact ⟨b, 1, by omega⟩
  · exact ⟨b, 0, by omega⟩

/-- `yearFromDay` returns the year whose interval of days contains the day (all days from 0000-01-01 on) -/
theorem year_bracket (day n : Int) (hdn : n = day + 719528) (hn : 0 ≤ n) :
    start (yearFromDay day) ≤ n ∧ n < start (yearFromDay day + 1) := by
  by_cases hf : n > 695421 ∧ n < 766645
  · obtain ⟨b, e, hb0, hb1, he0, he4, hy, h1, h2, h3⟩ := top_fast day n hdn hf
    rw [hy]; unfold start
    have he : e = 0 ∨ e = 1 ∨ e = 2 ∨ e = 3 := by omega
    by_cases hlate : 4 * b + e ≥ 97
    · rcases he with rfl | rfl | rfl | rfl <;> omega
    · rcases he with rfl | rfl | rfl | rfl <;> omega
  · obtain ⟨q, c, b, e, hq0, hc0, hc3, hb0, he0, he4, hy, hr0, hr1, hA, hB⟩ := top_general day n hdn hn hf
    rw [hy]; unfold start
    have he : e = 0 ∨ e = 1 ∨ e = 2 ∨ e = 3 := by omega
    have hc : c = 0 ∨ c = 1 ∨ c = 2 ∨ c = 3 := by omega
    by_cases hbz : b = 0
    · subst hbz
      rcases hc with rfl | rfl | rfl | rfl <;> rcases he with rfl | rfl | rfl | rfl <;> omega
    · by_cases hb25 : b = 25
      · subst hb25
        rcases hc with rfl | rfl | rfl | rfl <;> rcases he with rfl | rfl | rfl | rfl <;> omega
      · have hb24 : b ≤ 24 := by
          rcases hc with rfl | rfl | rfl | rfl
          · have := (hA rfl).1; omega
          · exact (hB (by omega)).1
          · exact (hB (by omega)).1
          · exact (hB (by omega)).1
        have f1 : (400 * q + 100 * c + 4 * b + e + 99) / 100 = 4 * q + c + 1 := by omega
        have f2 : (400 * q + 100 * c + 4 * b + e + 1 + 99) / 100 = 4 * q + c + 1 := by omega
        have f3 : (400 * q + 100 * c + 4 * b + e + 399) / 400 = q + 1 := by omega
        have f4 : (400 * q + 100 * c + 4 * b + e + 1 + 399) / 400 = q + 1 := by omega
        rw [f1, f2, f3, f4]
        rcases hc with rfl | rfl | rfl | rfl <;> rcases he with rfl | rfl | rfl | rfl <;> omega

theorem start_succ_bounds (y : Int) : start y + 365 ≤ start (y + 1) ∧ start (y + 1) ≤ start y + 366 := by
  unfold start; omega

theorem start_add_nat (y : Int) (k : Nat) : start y + k ≤ start (y + k) := by
  induction k with
  | zero => simp
  | succ k ih =>
    have := (start_succ_bounds (y + k)).1
    have e : y + ((k + 1 : Nat) : Int) = y + k + 1 := by omega
    rw [e]; omega

theorem start_strict_mono {y z : Int} (h : y < z) : start y < start z := by
  have := start_add_nat y (z - y).toNat
  have e : y + ((z - y).toNat : Int) = z := by omega
  rw [e] at this; omega

/-- the year bracket determines the year -/
theorem bracket_unique {y z n : Int} (hy : start y ≤ n ∧ n < start (y + 1)) (hz : start z ≤ n ∧ n < start (z + 1)) : y = z := by
  rcases Int.lt_trichotomy y z with h | h | h
  · have : start (y + 1) ≤ start z := by
      by_cases e : y + 1 = z
      · rw [e]; exact Int.le_refl _
      · exact Int.le_of_lt (start_strict_mono (by omega))
    omega
  · exact h
  · have : start (z + 1) ≤ start y := by
      by_cases e : z + 1 = y
      · rw [e]; exact Int.le_refl _
      · exact Int.le_of_lt (start_strict_mono (by omega))
    omega

theorem tfy_eq_start (y : Int) : timeFromYearAsDays y + 719528 = start y := by
  unfold timeFromYearAsDays start; omega

theorem daysInYear_eq (y : Int) (hy : 0 ≤ y) : daysInYear y = start (y + 1) - start y := by
  unfold daysInYear start
  simp only [Int.tmod_eq_emod_of_nonneg hy]
  split <;> omega

/-! ## the month search and the cumulative table -/

def monthOk (leap : Bool) (yd : Nat) : Bool :=
  let m := monthOf leap yd
  decide (1 ≤ m) && decide (m ≤ 12) && decide (mdays leap m.toNat ≤ yd) && decide ((yd : Int) < mdays leap (m.toNat + 1))

theorem monthOk_all : ∀ yd : Fin 366, (monthOk true yd.val = true) ∧ (yd.val < 365 → monthOk false yd.val = true) := by
  decide +kernel

theorem monthOf_spec (leap : Bool) (yd : Int) (h0 : 0 ≤ yd) (h1 : yd < (if leap then 366 else 365)) :
    1 ≤ monthOf leap yd ∧ monthOf leap yd ≤ 12 ∧ mdays leap (monthOf leap yd).toNat ≤ yd ∧
      yd < mdays leap ((monthOf leap yd).toNat + 1) := by
  obtain ⟨k, rfl⟩ : ∃ k : Nat, yd = k := ⟨yd.toNat, by omega⟩
  have hk : k < 366 := by
    cases leap
    · have : (k : Int) < 365 := by simpa using h1
      omega
    · have : (k : Int) < 366 := by simpa using h1
      omega
  have := monthOk_all ⟨k, hk⟩
  cases leap
  · have h := this.2 (by have : (k : Int) < 365 := by simpa using h1
                         show k < 365; omega)
    simp only [monthOk, Bool.and_eq_true, decide_eq_true_eq] at h
    exact ⟨h.1.1.1, h.1.1.2, h.1.2, h.2⟩
  · have h := this.1
    simp only [monthOk, Bool.and_eq_true, decide_eq_true_eq] at h
    exact ⟨h.1.1.1, h.1.1.2, h.1.2, h.2⟩

theorem mdays_mono : ∀ leap : Bool, ∀ i j : Fin 14, 1 ≤ i.val → i.val ≤ j.val → mdays leap i.val ≤ mdays leap j.val := by
  decide +kernel

theorem mdays_step : ∀ leap : Bool, ∀ i : Fin 13, 1 ≤ i.val →
    28 ≤ mdays leap (i.val + 1) - mdays leap i.val ∧ mdays leap (i.val + 1) - mdays leap i.val ≤ 31 := by
  decide +kernel

theorem mdays_last (leap : Bool) : mdays leap 13 = if leap then 366 else 365 := by cases leap <;> rfl
theorem mdays_first (leap : Bool) : mdays leap 1 = 0 := by cases leap <;> rfl

/-- the month is determined by the interval of the table that contains the day of the year -/
theorem month_unique (leap : Bool) (yd a b : Int) (ha : 1 ≤ a ∧ a ≤ 12) (hb : 1 ≤ b ∧ b ≤ 12)
    (h1 : mdays leap a.toNat ≤ yd ∧ yd < mdays leap (a.toNat + 1))
    (h2 : mdays leap b.toNat ≤ yd ∧ yd < mdays leap (b.toNat + 1)) : a = b := by
  rcases Int.lt_trichotomy a b with h | h | h
  · have := mdays_mono leap ⟨a.toNat + 1, by omega⟩ ⟨b.toNat, by omega⟩ (by simp) (by simp; omega)
    simp at this; omega
  · exact h
  · have := mdays_mono leap ⟨b.toNat + 1, by omega⟩ ⟨a.toNat, by omega⟩ (by simp) (by simp; omega)
    simp at this; omega

theorem wrap32_id (x : Int) (h : -2147483648 ≤ x ∧ x < 2147483648) : wrap32 x = x := by
  unfold wrap32; omega

theorem construct_of_valid (y m d h mi s : Int) (hm : 1 ≤ m ∧ m ≤ 12) (hd : 0 ≤ d ∧ d ≤ 31) (hy : -100000 ≤ y)
    (hh : 0 ≤ h ∧ h < 24) (hmi : 0 ≤ mi ∧ mi < 60) (hs : 0 ≤ s ∧ s < 60) :
    construct y m d h mi s =
      some (((timeFromYearAsDays y + mdays (isLeap y) m.toNat + d - 1) * 86400 + (h * 3600 + mi * 60 + s)) * 1000) := by
  unfold construct
  rw [if_neg (by omega)]
  simp only [wrap32_id (h * 3600) (by omega), wrap32_id (mi * 60) (by omega), wrap32_id (h * 3600 + mi * 60) (by omega),
    wrap32_id (h * 3600 + mi * 60 + s) (by omega)]

theorem start_zero : start 0 = 0 := by decide

theorem year_nonneg_of_bracket {y n : Int} (hn : 0 ≤ n) (h : n < start (y + 1)) : 0 ≤ y := by
  false_or_by_contra
  have : y + 1 ≤ 0 := by omega
  have h2 : start (y + 1) ≤ start 0 := by
    by_cases e : y + 1 = 0
    · rw [e]; exact Int.le_refl _
    · exact Int.le_of_lt (start_strict_mono (by omega))
  rw [start_zero] at h2; omega

theorem daysInYear_cases (y : Int) : daysInYear y = 365 ∨ daysInYear y = 366 := by
  unfold daysInYear; split <;> simp

/-- facts about the fields computed by `calcF` for an instant on or after 0000-01-01 -/
theorem calcF_facts (t day : Int) (hday : day = t / 1000 / 86400) (hr : 0 ≤ day + 719528) :
    0 ≤ (calcF t).year ∧ 1 ≤ (calcF t).month ∧ (calcF t).month ≤ 12 ∧ 1 ≤ (calcF t).day ∧
    (calcF t).day ≤ mdays (isLeap (calcF t).year) ((calcF t).month.toNat + 1) - mdays (isLeap (calcF t).year) (calcF t).month.toNat ∧
    timeFromYearAsDays (calcF t).year + mdays (isLeap (calcF t).year) (calcF t).month.toNat + ((calcF t).day - 1) = day ∧
    0 ≤ (calcF t).hours ∧ (calcF t).hours < 24 ∧ 0 ≤ (calcF t).minutes ∧ (calcF t).minutes < 60 ∧
    0 ≤ (calcF t).seconds ∧ (calcF t).seconds < 60 ∧
    (calcF t).hours * 3600 + (calcF t).minutes * 60 + (calcF t).seconds = t / 1000 % 86400 := by
  have hb := year_bracket day (day + 719528) rfl hr
  have hy0 : 0 ≤ yearFromDay day := year_nonneg_of_bracket hr hb.2
  have hlen := daysInYear_eq (yearFromDay day) hy0
  have htf := tfy_eq_start (yearFromDay day)
  generalize hY : yearFromDay day = Y at *
  generalize hT : timeFromYearAsDays Y = T at *
  have hyd0 : 0 ≤ day - T := by omega
  have hyd1 : day - T < (if isLeap Y then 366 else 365) := by
    unfold isLeap
    rcases daysInYear_cases Y with h | h <;> rw [h] at hlen ⊢ <;> simp <;> omega
  have hm := monthOf_spec (isLeap Y) _ hyd0 hyd1
  generalize hM : monthOf (isLeap Y) (day - T) = M at *
  generalize hA : mdays (isLeap Y) M.toNat = A at *
  generalize hB : mdays (isLeap Y) (M.toNat + 1) = B at *
  generalize hS : t / 1000 % 86400 = S
  have hS0 : 0 ≤ S ∧ S < 86400 := by omega
  have hc : calcF t = Fields.mk Y M (day - T - A + 1) (S / 3600) (S % 3600 / 60) (S % 60)
      (if Int.tmod (day - 3) 7 < 0 then Int.tmod (day - 3) 7 + 7 else Int.tmod (day - 3) 7) := by
    simp only [calcF, ← hday, hY, hT, hM, hA, hS]
  rw [hc]
  simp only [hA, hB]
  omega

theorem weekday_spec (t day : Int) (hday : day = t / 1000 / 86400) : (calcF t).weekDay = (day + 4) % 7 := by
  have hw : (calcF t).weekDay = (if Int.tmod (day - 3) 7 < 0 then Int.tmod (day - 3) 7 + 7 else Int.tmod (day - 3) 7) := by
    simp only [calcF, ← hday]
  rw [hw]
  by_cases h : 0 ≤ day - 3
  · rw [Int.tmod_eq_emod_of_nonneg h]; split <;> omega
  · have e : Int.tmod (day - 3) 7 = - (Int.tmod (-(day - 3)) 7) := by rw [Int.neg_tmod]; omega
    rw [e, Int.tmod_eq_emod_of_nonneg (by omega)]; split <;> omega

theorem construct_calc (t day : Int) (hday : day = t / 1000 / 86400) (hr : 0 ≤ day + 719528) :
    constructF (calcF t) = some (t - t % 1000) := by
  obtain ⟨hy, hm1, hm2, hd1, hd2, hdn, hh1, hh2, hmi1, hmi2, hs1, hs2, hsum⟩ := calcF_facts t day hday hr
  have hst := mdays_step (isLeap (calcF t).year) ⟨(calcF t).month.toNat, by omega⟩ (by simp; omega)
  simp only at hst
  unfold constructF
  rw [construct_of_valid _ _ _ _ _ _ ⟨hm1, hm2⟩ ⟨by omega, by omega⟩ (by omega) ⟨hh1, hh2⟩ ⟨hmi1, hmi2⟩ ⟨hs1, hs2⟩]
  congr 1
  omega

theorem calc_construct (y m d h mi s : Int) (hy : 0 ≤ y) (hm : 1 ≤ m ∧ m ≤ 12)
    (hd : 1 ≤ d ∧ d ≤ mdays (isLeap y) (m.toNat + 1) - mdays (isLeap y) m.toNat)
    (hh : 0 ≤ h ∧ h < 24) (hmi : 0 ≤ mi ∧ mi < 60) (hs : 0 ≤ s ∧ s < 60) :
    ∃ t, construct y m d h mi s = some t ∧ t % 1000 = 0 ∧
      t / 1000 / 86400 = timeFromYearAsDays y + mdays (isLeap y) m.toNat + (d - 1) ∧
      calcF t = Fields.mk y m d h mi s ((timeFromYearAsDays y + mdays (isLeap y) m.toNat + (d - 1) + 4) % 7) := by
  have hst := mdays_step (isLeap y) ⟨m.toNat, by omega⟩ (by simp; omega)
  simp only at hst
  refine ⟨_, construct_of_valid y m d h mi s hm ⟨by omega, by omega⟩ (by omega) hh hmi hs, by omega, by omega, ?_⟩
  generalize hA : mdays (isLeap y) m.toNat = A at *
  generalize hB : mdays (isLeap y) (m.toNat + 1) = B at *
  generalize ht : ((timeFromYearAsDays y + A + d - 1) * 86400 + (h * 3600 + mi * 60 + s)) * 1000 = t
  have hday : timeFromYearAsDays y + A + (d - 1) = t / 1000 / 86400 := by omega
  generalize hD : timeFromYearAsDays y + A + (d - 1) = day at *
  -- the year
  have hA0 : 0 ≤ A := by
    have := mdays_mono (isLeap y) ⟨1, by omega⟩ ⟨m.toNat, by omega⟩ (by simp) (by simp; omega)
    simp only [mdays_first] at this; rw [hA] at this; exact this
  have hB13 : B ≤ daysInYear y := by
    have := mdays_mono (isLeap y) ⟨m.toNat + 1, by omega⟩ ⟨13, by omega⟩ (by simp) (by simp; omega)
    simp only [mdays_last] at this; rw [hB] at this
    unfold isLeap at this
    rcases daysInYear_cases y with e | e <;> rw [e] at this ⊢ <;> simp at this <;> omega
  have hlen := daysInYear_eq y hy
  have htf := tfy_eq_start y
  have hr : 0 ≤ day + 719528 := by
    have hs0 : 0 ≤ start y := by
      by_cases e : y = 0
      · rw [e, start_zero]; exact Int.le_refl _
      · have := start_strict_mono (y := 0) (z := y) (by omega)
        rw [start_zero] at this; omega
    omega
  have hb := year_bracket day (day + 719528) rfl hr
  have hY : yearFromDay day = y := bracket_unique hb ⟨by omega, by omega⟩
  -- the month
  have hyd1 : day - timeFromYearAsDays y < (if isLeap y then 366 else 365) := by
    unfold isLeap
    rcases daysInYear_cases y with e | e <;> rw [e] at hB13 ⊢ <;> simp <;> omega
  have hm' := monthOf_spec (isLeap y) (day - timeFromYearAsDays y) (by omega) hyd1
  have hM : monthOf (isLeap y) (day - timeFromYearAsDays y) = m :=
    month_unique (isLeap y) (day - timeFromYearAsDays y) _ m ⟨hm'.1, hm'.2.1⟩ hm ⟨hm'.2.2.1, hm'.2.2.2⟩
      ⟨by rw [hA]; omega, by rw [hB]; omega⟩
  have hw := weekday_spec t day hday
  have hc : calcF t = Fields.mk (yearFromDay day) (monthOf (isLeap (yearFromDay day)) (day - timeFromYearAsDays (yearFromDay day)))
      (day - timeFromYearAsDays (yearFromDay day) - mdays (isLeap (yearFromDay day))
        (monthOf (isLeap (yearFromDay day)) (day - timeFromYearAsDays (yearFromDay day))).toNat + 1)
      (t / 1000 % 86400 / 3600) (t / 1000 % 86400 % 3600 / 60) (t / 1000 % 86400 % 60) (calcF t).weekDay := by
    simp only [calcF, ← hday]
  rw [hc, hY, hM, hA, hw]
  congr 1 <;> omega


theorem tmod_lit (a b : Int) : Int.tmod a b = if 0 ≤ a then a % b else -((-a) % b) := by
  by_cases h : 0 ≤ a
  · rw [if_pos h, Int.tmod_eq_emod_of_nonneg h]
  · rw [if_neg h]
    have e : Int.tmod a b = - (Int.tmod (-a) b) := by rw [Int.neg_tmod]; omega
    rw [e, Int.tmod_eq_emod_of_nonneg (by omega)]

/-! ## towards Hinnant's `days_from_civil` -/

/-- days from 0000-03-01 to `z`-03-01 -/
def marchDays (z : Int) : Int := 365 * z + z / 4 - z / 100 + z / 400

theorem hinnant_era (z : Int) :
    z / 400 * 146097 + ((z - z / 400 * 400) * 365 + (z - z / 400 * 400) / 4 - (z - z / 400 * 400) / 100) = marchDays z := by
  unfold marchDays; omega

theorem tfy_march (y : Int) : timeFromYearAsDays y = marchDays (y - 1) + 366 - 719528 := by
  unfold timeFromYearAsDays marchDays; omega

theorem march_step (y : Int) (l : Bool) (hl : l = true ↔ (y % 4 = 0 ∧ (y % 100 ≠ 0 ∨ y % 400 = 0))) :
    marchDays y = marchDays (y - 1) + (if l then 366 else 365) := by
  unfold marchDays
  cases l
  · have : ¬ (y % 4 = 0 ∧ (y % 100 ≠ 0 ∨ y % 400 = 0)) := fun h => absurd (hl.mpr h) (by simp)
    simp only [Bool.false_eq_true, if_false]; omega
  · have := hl.mp rfl
    simp only [if_true]; omega

theorem mdays_vals (l : Bool) :
    mdays l 1 = 0 ∧ mdays l 2 = 31 ∧ mdays l 3 = (if l then 60 else 59) ∧ mdays l 4 = (if l then 91 else 90) ∧
    mdays l 5 = (if l then 121 else 120) ∧ mdays l 6 = (if l then 152 else 151) ∧ mdays l 7 = (if l then 182 else 181) ∧
    mdays l 8 = (if l then 213 else 212) ∧ mdays l 9 = (if l then 244 else 243) ∧ mdays l 10 = (if l then 274 else 273) ∧
    mdays l 11 = (if l then 305 else 304) ∧ mdays l 12 = (if l then 335 else 334) := by
  cases l <;> decide

end AslProofs.Date
