import AslModel.Date
import AslProofs.DateDbl
import Mathlib.Tactic.Ring
import Mathlib.Tactic.Linarith
/-!
# C19 — arithmetic on the stored `double` (helper lemmas)

`addSecD` = `Date::operator+(double)` / `operator-(double)` for whole seconds, `ltD` = `operator<`, on the exact dyadic
model of the stored double.  Integer arithmetic only (no `Float`).
-/
namespace AslProofs.DateArith
open AslModel.Date AslProofs.DateDbl

theorem rneShift_close (N : Int) (j : Nat) :
    2 * (rneShift N j * 2 ^ j - N) ≤ 2 ^ j ∧ 2 * (N - rneShift N j * 2 ^ j) ≤ 2 ^ j := by
  unfold rneShift
  simp only
  have hp : (0 : Int) < 2 ^ j := Int.pow_pos (by decide)
  generalize (2 : Int) ^ j = p at *
  have h1 := Int.mul_ediv_add_emod N p
  have h2 := Int.emod_nonneg N (by omega : p ≠ 0)
  have h3 := Int.emod_lt_of_pos N hp
  generalize N / p = q at *
  generalize N % p = r at *
  have e1 : (q + 1) * p = p * q + p := by ring
  have e2 : q * p = p * q := by ring
  split
  · rw [e2]; omega
  · split
    · rw [e1]; omega
    · split
      · rw [e2]; omega
      · rw [e1]; omega

theorem shiftFrom_min (a j f : Nat) :
    shiftFrom a j f = j ∨ 9007199254740992 * 2 ^ (shiftFrom a j f - 1) ≤ a := by
  induction f generalizing j with
  | zero => simp [shiftFrom]
  | succ f ih =>
    unfold shiftFrom; split
    · left; rfl
    · rename_i h
      rcases ih (j + 1) with h1 | h1
      · right; rw [h1]; simpa using h
      · right; exact h1

/-- the rounded sum of a double within 500/1000 units of `ms/1000` and a whole number of seconds -/
theorem addSec_close (n ms s : Int) (k : Nat) (hk : 15 ≤ k) (h1 : 1000 * n - ms * 2 ^ k ≤ 500) (h2 : ms * 2 ^ k - 1000 * n ≤ 500)
    (hr : (ms + 1000 * s).natAbs < 274877906944000) :
    roundMsD (addSecD (n, k) s) = ms + 1000 * s := by
  unfold addSecD round53
  simp only
  generalize hN : n + s * 2 ^ k = N
  generalize hj : shiftFrom N.natAbs 0 64 = j
  have hK : (0 : Int) < 2 ^ k := Int.pow_pos (by decide)
  -- 1000 N - M 2^k = e
  have he1 : 1000 * N - (ms + 1000 * s) * 2 ^ k ≤ 500 := by rw [← hN]; linarith
  have he2 : (ms + 1000 * s) * 2 ^ k - 1000 * N ≤ 500 := by rw [← hN]; linarith
  have hjk : j + 14 ≤ k := by
    rcases shiftFrom_min N.natAbs 0 64 with h0 | h0
    · rw [hj] at h0; omega
    · rw [hj] at h0
      by_contra hc
      have hkj : k ≤ j - 1 + 14 := by omega
      have : (2:Nat) ^ k ≤ 2 ^ (j - 1 + 14) := Nat.pow_le_pow_right (by decide) hkj
      rw [Nat.pow_add] at this
      have hMabs : ((ms + 1000 * s) * 2 ^ k).natAbs = (ms + 1000 * s).natAbs * 2 ^ k := by
        rw [Int.natAbs_mul, Int.natAbs_pow]; rfl
      have hb : (ms + 1000 * s).natAbs * 2 ^ k ≤ 274877906943999 * 2 ^ k := Nat.mul_le_mul_right _ (by omega)
      have : 1000 * N.natAbs ≤ ((ms + 1000 * s) * 2 ^ k).natAbs + 500 := by omega
      have h14 : (2:Nat) ^ 14 = 16384 := by decide
      have hP : 0 < (2:Nat) ^ (j - 1) := Nat.pow_pos (by decide)
      rw [h14] at *
      generalize (2:Nat) ^ (j - 1) = P at *
      generalize (2:Nat) ^ k = Q at *
      omega
  rw [if_pos (by omega)]
  obtain ⟨c1, c2⟩ := rneShift_close N j
  generalize rneShift N j = n' at *
  have hP : (0 : Int) < 2 ^ j := Int.pow_pos (by decide)
  have hsplit : (2 : Int) ^ k = 2 ^ j * 2 ^ (k - j) := by rw [← Int.pow_add]; congr 1; omega
  have hQ : (16384 : Int) ≤ 2 ^ (k - j) := by
    obtain ⟨i, hi⟩ : ∃ i, k - j = 14 + i := ⟨k - j - 14, by omega⟩
    rw [hi, Int.pow_add]
    have : (0 : Int) < 2 ^ i := Int.pow_pos (by decide)
    have h14 : (2 : Int) ^ 14 = 16384 := by decide
    rw [h14]; nlinarith
  rw [hsplit] at he1 he2
  generalize (2 : Int) ^ j = P at *
  generalize hQe : (2 : Int) ^ (k - j) = Q at *
  -- P * x = 1000 (n' P - N) + (1000 N - M P Q)
  have hx1 : P * (1000 * n' - (ms + 1000 * s) * Q) ≤ P * 1000 := by nlinarith
  have hx2 : P * ((ms + 1000 * s) * Q - 1000 * n') ≤ P * 1000 := by nlinarith
  have hy1 : 1000 * n' - (ms + 1000 * s) * Q ≤ 1000 := le_of_mul_le_mul_left hx1 hP
  have hy2 : (ms + 1000 * s) * Q - 1000 * n' ≤ 1000 := le_of_mul_le_mul_left hx2 hP
  apply roundMsD_of_close
  · simp only; rw [hQe]; linarith
  · simp only; rw [hQe]; linarith

theorem lt_of_close (n1 n2 m1 m2 P1 P2 : Int) (hP1 : 32768 ≤ P1) (hP2 : 32768 ≤ P2)
    (a1 : 1000 * n1 - m1 * P1 ≤ 500) (b2 : m2 * P2 - 1000 * n2 ≤ 500) (h : m1 + 1 ≤ m2) : n1 * P2 < n2 * P1 := by
  have e1 : 1000 * (n1 * P2) ≤ (m1 * P1 + 500) * P2 := by nlinarith
  have e2 : (m2 * P2 - 500) * P1 ≤ 1000 * (n2 * P1) := by nlinarith
  have e3 : (m1 + 1) * P2 * P1 ≤ m2 * P2 * P1 := by
    have : 0 ≤ P2 * P1 := by nlinarith
    nlinarith
  have e4 : 500 * P2 + 500 * P1 < P1 * P2 := by nlinarith
  nlinarith

theorem ltD_toDouble (m1 m2 : Int) : ltD (toDouble m1) (toDouble m2) = decide (m1 < m2) := by
  obtain ⟨a1, b1, c1⟩ := toDouble_close m1
  obtain ⟨a2, b2, c2⟩ := toDouble_close m2
  have p1 := two_pow_ge _ c1
  have p2 := two_pow_ge _ c2
  unfold ltD
  by_cases h : m1 < m2
  · simp only [h, decide_true, decide_eq_true_eq]
    exact lt_of_close _ _ m1 m2 _ _ p1 p2 a1 b2 (by omega)
  · simp only [h, decide_false, decide_eq_false_iff_not, not_lt]
    rcases (by omega : m1 = m2 ∨ m2 + 1 ≤ m1) with rfl | h'
    · exact le_refl _
    · exact le_of_lt (lt_of_close _ _ m2 m1 _ _ p2 p1 a2 b1 h')

/-- binary64 rounding of a dyadic within `2^-15 s` of `M / 1000` (`|M| < 2^39 * 1000`) is still shown as `M` -/
theorem round53_close (N M : Int) (K : Nat) (hK : 15 ≤ K)
    (e1 : 32768 * (1000 * N - M * 2 ^ K) ≤ 1000 * 2 ^ K) (e2 : 32768 * (M * 2 ^ K - 1000 * N) ≤ 1000 * 2 ^ K)
    (hr : M.natAbs < 549755813888000) : roundMsD (round53 N K) = M := by
  unfold round53
  simp only
  generalize hj : shiftFrom N.natAbs 0 64 = j
  have hjk : j + 12 ≤ K := by
    rcases shiftFrom_min N.natAbs 0 64 with h0 | h0
    · rw [hj] at h0; omega
    · rw [hj] at h0
      by_contra hc
      have hkj : K ≤ j - 1 + 12 := by omega
      have : (2:Nat) ^ K ≤ 2 ^ (j - 1 + 12) := Nat.pow_le_pow_right (by decide) hkj
      rw [Nat.pow_add] at this
      have hMabs : (M * 2 ^ K).natAbs = M.natAbs * 2 ^ K := by
        rw [Int.natAbs_mul, Int.natAbs_pow]; rfl
      have hb : M.natAbs * 2 ^ K ≤ 549755813887999 * 2 ^ K := Nat.mul_le_mul_right _ (by omega)
      have hc' : ((2:Int) ^ K) = (((2:Nat) ^ K : Nat) : Int) := by simp
      rw [hc'] at e1 e2 hMabs
      have h12 : (2:Nat) ^ 12 = 4096 := by decide
      have hP : 0 < (2:Nat) ^ (j - 1) := Nat.pow_pos (by decide)
      rw [h12] at *
      generalize (2:Nat) ^ (j - 1) = P at *
      generalize (2:Nat) ^ K = Q at *
      omega
  rw [if_pos (by omega)]
  obtain ⟨c1, c2⟩ := rneShift_close N j
  generalize rneShift N j = n' at *
  have hP : (0 : Int) < 2 ^ j := Int.pow_pos (by decide)
  have hsplit : (2 : Int) ^ K = 2 ^ j * 2 ^ (K - j) := by rw [← Int.pow_add]; congr 1; omega
  have hQ : (4096 : Int) ≤ 2 ^ (K - j) := by
    obtain ⟨i, hi⟩ : ∃ i, K - j = 12 + i := ⟨K - j - 12, by omega⟩
    rw [hi, Int.pow_add]
    have : (0 : Int) < 2 ^ i := Int.pow_pos (by decide)
    have h12 : (2 : Int) ^ 12 = 4096 := by decide
    rw [h12]; nlinarith
  rw [hsplit] at e1 e2
  generalize (2 : Int) ^ j = P at *
  generalize hQe : (2 : Int) ^ (K - j) = Q at *
  have hx1 : P * (32768 * (1000 * n' - M * Q)) ≤ P * (16384000 + 1000 * Q) := by nlinarith
  have hx2 : P * (32768 * (M * Q - 1000 * n')) ≤ P * (16384000 + 1000 * Q) := by nlinarith
  have hy1 := le_of_mul_le_mul_left hx1 hP
  have hy2 := le_of_mul_le_mul_left hx2 hP
  apply roundMsD_of_close
  · simp only; rw [hQe]; linarith
  · simp only; rw [hQe]; linarith

theorem diff_close (n1 n2 m1 m2 : Int) (k1 k2 : Nat) (h1 : 15 ≤ k1) (h2 : 15 ≤ k2)
    (a1 : 1000 * n1 - m1 * 2 ^ k1 ≤ 500) (b1 : m1 * 2 ^ k1 - 1000 * n1 ≤ 500)
    (a2 : 1000 * n2 - m2 * 2 ^ k2 ≤ 500) (b2 : m2 * 2 ^ k2 - 1000 * n2 ≤ 500)
    (hr : (m1 - m2).natAbs < 549755813888000) : roundMsD (diffD (n1, k1) (n2, k2)) = m1 - m2 := by
  unfold diffD
  simp only
  have hk1 : k1 ≤ max k1 k2 := Nat.le_max_left _ _
  have hk2 : k2 ≤ max k1 k2 := Nat.le_max_right _ _
  generalize max k1 k2 = K at *
  have p1 := two_pow_ge _ h1
  have p2 := two_pow_ge _ h2
  have s1 : (2 : Int) ^ K = 2 ^ k1 * 2 ^ (K - k1) := by rw [← Int.pow_add]; congr 1; omega
  have s2 : (2 : Int) ^ K = 2 ^ k2 * 2 ^ (K - k2) := by rw [← Int.pow_add]; congr 1; omega
  have hA1 : (0 : Int) < 2 ^ (K - k1) := Int.pow_pos (by decide)
  have hA2 : (0 : Int) < 2 ^ (K - k2) := Int.pow_pos (by decide)
  apply round53_close _ _ _ (by omega) _ _ hr
  all_goals
    generalize (2 : Int) ^ K = T at *
    generalize (2 : Int) ^ k1 = P1 at *
    generalize (2 : Int) ^ k2 = P2 at *
    generalize (2 : Int) ^ (K - k1) = A1 at *
    generalize (2 : Int) ^ (K - k2) = A2 at *
    have f1 : A1 * (1000 * n1 - m1 * P1) ≤ A1 * 500 := mul_le_mul_of_nonneg_left a1 (le_of_lt hA1)
    have f1' : A1 * (m1 * P1 - 1000 * n1) ≤ A1 * 500 := mul_le_mul_of_nonneg_left b1 (le_of_lt hA1)
    have f2 : A2 * (1000 * n2 - m2 * P2) ≤ A2 * 500 := mul_le_mul_of_nonneg_left a2 (le_of_lt hA2)
    have f2' : A2 * (m2 * P2 - 1000 * n2) ≤ A2 * 500 := mul_le_mul_of_nonneg_left b2 (le_of_lt hA2)
    have g1 : 32768 * A1 ≤ P1 * A1 := mul_le_mul_of_nonneg_right p1 (le_of_lt hA1)
    have g2 : 32768 * A2 ≤ P2 * A2 := mul_le_mul_of_nonneg_right p2 (le_of_lt hA2)
    have t1 : m1 * T = A1 * (m1 * P1) := by rw [s1]; ring
    have t2 : m2 * T = A2 * (m2 * P2) := by rw [s2]; ring
    have e : (m1 - m2) * T = m1 * T - m2 * T := by ring
    rw [e, t1, t2]
    nlinarith

theorem shiftFrom_enough (a j f : Nat) (h : a < 9007199254740992 * 2 ^ (j + f)) :
    a < 9007199254740992 * 2 ^ (shiftFrom a j f) := by
  induction f generalizing j with
  | zero => simpa [shiftFrom] using h
  | succ f ih =>
    unfold shiftFrom; split
    · assumption
    · exact ih (j + 1) (by rw [show j + 1 + f = j + (f + 1) by omega]; exact h)

theorem shiftFrom_ge (a j f : Nat) : j ≤ shiftFrom a j f := by
  induction f generalizing j with
  | zero => simp [shiftFrom]
  | succ f ih => unfold shiftFrom; split
                 · omega
                 · have := ih (j + 1); omega

theorem rneShift_53bit (N : Int) (j : Nat) (h : N.natAbs < 9007199254740992 * 2 ^ j) :
    (rneShift N j).natAbs ≤ 9007199254740992 := by
  obtain ⟨c1, c2⟩ := rneShift_close N j
  have hP : (0 : Int) < 2 ^ j := Int.pow_pos (by decide)
  have hN : (N.natAbs : Int) < 9007199254740992 * 2 ^ j := by exact_mod_cast h
  generalize rneShift N j = n at *
  generalize (2 : Int) ^ j = P at *
  by_contra hc
  have : (9007199254740993 : Int) ≤ n ∨ n ≤ -9007199254740993 := by omega
  rcases this with h1 | h1
  · have : 9007199254740993 * P ≤ n * P := mul_le_mul_of_nonneg_right h1 (le_of_lt hP)
    omega
  · have : n * P ≤ -9007199254740993 * P := mul_le_mul_of_nonneg_right h1 (le_of_lt hP)
    omega

/-- the result of `round53` is a binary64 significand whenever `|N| < 2^117` -/
theorem round53_53bit (N : Int) (k : Nat) (h : N.natAbs < 9007199254740992 * 2 ^ 64)
    (hk : shiftFrom N.natAbs 0 64 ≤ k) : (round53 N k).1.natAbs ≤ 9007199254740992 := by
  unfold round53
  simp only
  rw [if_pos hk]
  exact rneShift_53bit N _ (shiftFrom_enough _ 0 64 (by simpa using h))

theorem round53_is_binary64 (N : Int) (k : Nat) (h : N.natAbs < 9007199254740992 * 2 ^ 64) :
    ∃ m : Int, ∃ e : Nat, m.natAbs ≤ 9007199254740992 ∧ (round53 N k).1 = m * 2 ^ e := by
  have hb := rneShift_53bit N _ (shiftFrom_enough _ 0 64 (by simpa using h))
  unfold round53
  simp only
  split
  · exact ⟨_, 0, hb, by simp⟩
  · exact ⟨_, _, hb, rfl⟩

theorem expFrom_le (a k f : Nat) : expFrom a k f ≤ k + f := by
  induction f generalizing k with
  | zero => simp [expFrom]
  | succ f ih => unfold expFrom; split
                 · omega
                 · have := ih (k + 1); omega

theorem toDouble_exp_le (ms : Int) : (toDouble ms).2 ≤ 62 := by
  unfold toDouble; simp only; exact expFrom_le _ 15 47

theorem pow_le_62 (k : Nat) (h : k ≤ 62) : (2 : Int) ^ k ≤ 4611686018427387904 := by
  have : (2 : Nat) ^ k ≤ 2 ^ 62 := Nat.pow_le_pow_right (by decide) h
  have h2 : ((2 : Nat) ^ k : Nat) = ((2 : Int) ^ k) := by simp
  have : (((2 : Nat) ^ k : Nat) : Int) ≤ ((2 ^ 62 : Nat) : Int) := by exact_mod_cast this
  rw [h2] at this; simpa using this

theorem addSec_is_binary64 (ms s : Int) (h0 : ms.natAbs < 274877906944000) (h1 : (ms + 1000 * s).natAbs < 274877906944000) :
    ∃ m : Int, ∃ e : Nat, m.natAbs ≤ 9007199254740992 ∧ (addSecD (toDouble ms) s).1 = m * 2 ^ e := by
  unfold addSecD
  apply round53_is_binary64
  have hn := toDouble_53bit ms h0
  have hk := pow_le_62 _ (toDouble_exp_le ms)
  have hp : (0 : Int) < 2 ^ (toDouble ms).2 := Int.pow_pos (by decide)
  generalize (toDouble ms).1 = n at *
  generalize (2 : Int) ^ (toDouble ms).2 = P at *
  have hs : -549755813888 ≤ s ∧ s ≤ 549755813888 := by omega
  have u1 : s * P ≤ 549755813888 * P := mul_le_mul_of_nonneg_right hs.2 (le_of_lt hp)
  have u2 : -549755813888 * P ≤ s * P := mul_le_mul_of_nonneg_right hs.1 (le_of_lt hp)
  have : (2:Nat) ^ 64 = 18446744073709551616 := by decide
  rw [this]
  omega

end AslProofs.DateArith
