import AslModel.Date
/-!
# C19 — the stored `double` (helper lemmas, core Lean only)

`toDouble ms = (n, k)` models the binary64 quotient `ms / 1000.0` as `n / 2^k`; `roundMsD` is the exact value of
`floor(t * 1000 + 0.5)`.  Integer arithmetic only.
-/
namespace AslProofs.DateDbl
open AslModel.Date

theorem rne1000_close (a : Int) : 1000 * rne1000 a - a ≤ 500 ∧ a - 1000 * rne1000 a ≤ 500 := by
  unfold rne1000; simp only; split
  · omega
  · split
    · omega
    · split <;> omega

theorem expFrom_ge (a k f : Nat) : k ≤ expFrom a k f := by
  induction f generalizing k with
  | zero => simp [expFrom]
  | succ f ih => unfold expFrom; split
                 · omega
                 · have := ih (k+1); omega

theorem expFrom_min (a k f : Nat) : expFrom a k f = k ∨ a * 2 ^ (expFrom a k f - 1) < 4503599627370496000 := by
  induction f generalizing k with
  | zero => simp [expFrom]
  | succ f ih =>
    unfold expFrom; split
    · left; rfl
    · rename_i h
      rcases ih (k+1) with h1 | h1
      · right; rw [h1]; simpa using h
      · right; exact h1

theorem roundMsD_of_close (d : Int × Nat) (ms : Int) (hl : -(2 ^ d.2 : Int) ≤ 2 * (1000 * d.1 - ms * 2 ^ d.2))
    (hu : 2 * (1000 * d.1 - ms * 2 ^ d.2) < (2 ^ d.2 : Int)) : roundMsD d = ms := by
  obtain ⟨n, k⟩ := d
  unfold roundMsD
  simp only at *
  have hp : (0 : Int) < 2 ^ k := Int.pow_pos (by decide)
  generalize hpe : (2 ^ k : Int) = p at *
  have h2 : (2 : Int) ^ (k + 1) = 2 * p := by rw [Int.pow_succ, hpe]; omega
  rw [h2]
  generalize hq : ms * p = q at *
  have : n * 2000 + p = (n * 2000 + p - 2 * q) + ms * (2 * p) := by
    have : ms * (2 * p) = 2 * q := by rw [← hq, Int.mul_left_comm]
    omega
  rw [this, Int.add_mul_ediv_right _ _ (by omega)]
  have : (n * 2000 + p - 2 * q) / (2 * p) = 0 := Int.ediv_eq_zero_of_lt (by omega) (by omega)
  omega

theorem toDouble_close (ms : Int) :
    1000 * (toDouble ms).1 - ms * 2 ^ (toDouble ms).2 ≤ 500 ∧ ms * 2 ^ (toDouble ms).2 - 1000 * (toDouble ms).1 ≤ 500
    ∧ 15 ≤ (toDouble ms).2 := by
  refine ⟨(rne1000_close _).1, (rne1000_close _).2, expFrom_ge _ _ _⟩

theorem two_pow_ge (k : Nat) (h : 15 ≤ k) : (32768 : Int) ≤ 2 ^ k := by
  obtain ⟨j, rfl⟩ : ∃ j, k = 15 + j := ⟨k - 15, by omega⟩
  rw [Int.pow_add]
  have h15 : (2 : Int) ^ 15 = 32768 := by decide
  have : (0 : Int) < 2 ^ j := Int.pow_pos (by decide)
  rw [h15]
  generalize (2 : Int) ^ j = x at *
  omega

theorem stored_double_shows_ms (ms : Int) : roundMsD (toDouble ms) = ms := by
  obtain ⟨h1, h2, h3⟩ := toDouble_close ms
  have := two_pow_ge _ h3
  exact roundMsD_of_close _ _ (by omega) (by omega)

theorem toDouble_53bit (ms : Int) (h : ms.natAbs < 274877906944000) :
    (toDouble ms).1.natAbs ≤ 9007199254740992 := by
  unfold toDouble
  simp only
  generalize hk : expFrom ms.natAbs 15 47 = k
  have hge : 15 ≤ k := hk ▸ expFrom_ge _ _ _
  have hb : ms.natAbs * 2 ^ k < 9007199254740992000 := by
    rcases expFrom_min ms.natAbs 15 47 with h1 | h1
    · rw [hk] at h1; subst h1
      have : (2 : Nat) ^ 15 = 32768 := by decide
      rw [this]; omega
    · rw [hk] at h1
      obtain ⟨j, rfl⟩ : ∃ j, k = j + 1 := ⟨k - 1, by omega⟩
      simp only [Nat.add_sub_cancel] at h1
      rw [Nat.pow_succ, ← Nat.mul_assoc]; omega
  have hc := rne1000_close (ms * 2 ^ k)
  have : (ms * 2 ^ k).natAbs = ms.natAbs * 2 ^ k := by rw [Int.natAbs_mul, Int.natAbs_pow]; rfl
  omega

end AslProofs.DateDbl
