import AslProofs.DateParse
import AslProofs.Date
open AslModel.Date Gen.Date AslProofs.DateParse AslProofs.Date

set_option linter.unusedSimpArgs false
set_option linter.unusedVariables false

namespace AslProofs.DateFmt

theorem dig_mod (n : Nat) : dig n = dig (n % 10) := by unfold dig; rw [Nat.mod_mod]

theorem dig_small : ∀ k : Fin 10, (dig k.val).toNat = 48 + k.val ∧ isDigit (dig k.val) = true ∧ isSpace (dig k.val) = false ∧
    dig k.val ≠ 45 ∧ dig k.val ≠ 84 ∧ dig k.val ≠ 58 ∧ dig k.val ≠ 46 ∧ dig k.val ≠ 90 ∧ dig k.val ≠ 43 ∧ dig k.val ≠ 0 ∧
    ¬ (65 < dig k.val ∧ dig k.val < 90) := by decide

theorem dig_props (n : Nat) : (dig n).toNat = 48 + n % 10 ∧ isDigit (dig n) = true ∧ isSpace (dig n) = false ∧
    dig n ≠ 45 ∧ dig n ≠ 84 ∧ dig n ≠ 58 ∧ dig n ≠ 46 ∧ dig n ≠ 90 ∧ dig n ≠ 43 ∧ dig n ≠ 0 ∧
    ¬ (65 < dig n ∧ dig n < 90) := by
  rw [dig_mod]; exact dig_small ⟨n % 10, Nat.mod_lt _ (by decide)⟩

@[simp] theorem isDigit_dig (n : Nat) : isDigit (dig n) = true := (dig_props n).2.1
@[simp] theorem dig_toNat (n : Nat) : (dig n).toNat = 48 + n % 10 := (dig_props n).1
@[simp] theorem dig_ne_45 (n : Nat) : (dig n = 45) = False := eq_false (dig_props n).2.2.2.1
@[simp] theorem dig_ne_84 (n : Nat) : (dig n = 84) = False := eq_false (dig_props n).2.2.2.2.1
@[simp] theorem dig_ne_58 (n : Nat) : (dig n = 58) = False := eq_false (dig_props n).2.2.2.2.2.1
@[simp] theorem dig_ne_46 (n : Nat) : (dig n = 46) = False := eq_false (dig_props n).2.2.2.2.2.2.1
@[simp] theorem dig_ne_90 (n : Nat) : (dig n = 90) = False := eq_false (dig_props n).2.2.2.2.2.2.2.1
@[simp] theorem dig_ne_43 (n : Nat) : (dig n = 43) = False := eq_false (dig_props n).2.2.2.2.2.2.2.2.1
@[simp] theorem dig_ne_0 (n : Nat) : (dig n = 0) = False := eq_false (dig_props n).2.2.2.2.2.2.2.2.2.1
@[simp] theorem dig_not_upper (n : Nat) : (65 < dig n ∧ dig n < 90) = False := eq_false (dig_props n).2.2.2.2.2.2.2.2.2.2

/-- two digits starting at `p` -/
theorem parseInt2 (t : Bytes) (p a b : Nat) (h0 : rd t p = some (dig a)) (h1 : rd t (p + 1) = some (dig b)) :
    parseInt t p 2 = some ((a % 10 : Nat) * 10 + (b % 10 : Nat) : Int) := by
  simp only [parseInt, parseIntLoop, h0, h1, isDigit_dig, if_true, Nat.add_zero, dig_toNat]
  congr 1
  unfold wrap32
  omega

theorem parseInt4 (t : Bytes) (p a b c d : Nat) (h0 : rd t p = some (dig a)) (h1 : rd t (p + 1) = some (dig b))
    (h2 : rd t (p + 2) = some (dig c)) (h3 : rd t (p + 3) = some (dig d)) :
    parseInt t p 4 = some ((a % 10 : Nat) * 1000 + (b % 10 : Nat) * 100 + (c % 10 : Nat) * 10 + (d % 10 : Nat) : Int) := by
  have k1 : wrap32 (1 * 10) = 10 := by decide
  have k2 : wrap32 (10 * 10) = 100 := by decide
  have k3 : wrap32 (100 * 10) = 1000 := by decide
  simp only [parseInt, parseIntLoop, h0, h1, h2, h3, isDigit_dig, if_true, Nat.add_zero, dig_toNat, k1, k2, k3]
  congr 1
  unfold wrap32
  omega

theorem parseInt0 (t : Bytes) (p : Nat) : parseInt t p 0 = some 0 := rfl


@[simp] theorem rd_cons_zero (a : UInt8) (l : Bytes) : rd (a :: l) 0 = some a := rfl
@[simp] theorem rd_cons_succ (a : UInt8) (l : Bytes) (i : Nat) : rd (a :: l) (i + 1) = rd l i := by
  unfold rd
  simp only [List.drop_succ_cons, List.length_cons, Nat.add_le_add_iff_right]
@[simp] theorem rd_nil_zero : rd [] 0 = some 0 := rfl

theorem digits2 (v : Nat) (h : v ≤ 99) : ((v / 10 % 10 : Nat) * 10 + (v % 10 : Nat) : Int) = v := by omega
theorem digits4 (v : Nat) (h : v ≤ 9999) :
    ((v / 1000 % 10 : Nat) * 1000 + (v / 100 % 10 : Nat) * 100 + (v / 10 % 10 : Nat) * 10 + (v % 10 : Nat) : Int) = v := by omega

/-- the LONG format of in-range fields, as an explicit byte list -/
def longList (y m d h mi s : Nat) : Bytes :=
  [dig (y / 1000), dig (y / 100), dig (y / 10), dig y, 45, dig (m / 10), dig m, 45, dig (d / 10), dig d, 84,
   dig (h / 10), dig h, 58, dig (mi / 10), dig mi, 58, dig (s / 10), dig s, 90]

theorem fracMs_zero : fracMs 0 0 = 0 := by decide

theorem parse_longList (y m d h mi s : Nat) (hy : y ≤ 9999) (hm : m ≤ 99) (hd : d ≤ 99) (hh : h ≤ 23) (hmi : mi ≤ 59) (hs : s ≤ 59) :
    parse (longList y m d h mi s) = some (construct y m d h mi s) := by
  have hY : parseInt (longList y m d h mi s) 0 4 = some (y : Int) := by
    rw [parseInt4 _ 0 (y / 1000) (y / 100) (y / 10) y (by simp [longList]) (by simp [longList]) (by simp [longList]) (by simp [longList])]
    congr 1; omega
  have hM : parseInt (longList y m d h mi s) 5 2 = some (m : Int) := by
    rw [parseInt2 _ 5 (m / 10) m (by simp [longList]) (by simp [longList])]; congr 1; omega
  have hD : parseInt (longList y m d h mi s) 8 2 = some (d : Int) := by
    rw [parseInt2 _ 8 (d / 10) d (by simp [longList]) (by simp [longList])]; congr 1; omega
  have hH : parseInt (longList y m d h mi s) 11 2 = some (h : Int) := by
    rw [parseInt2 _ 11 (h / 10) h (by simp [longList]) (by simp [longList])]; congr 1; omega
  have hMi : parseInt (longList y m d h mi s) (11 + 3) 2 = some (mi : Int) := by
    rw [parseInt2 _ 14 (mi / 10) mi (by simp [longList]) (by simp [longList])]; congr 1; omega
  have hS : parseInt (longList y m d h mi s) (11 + 6) 2 = some (s : Int) := by
    rw [parseInt2 _ 17 (s / 10) s (by simp [longList]) (by simp [longList])]; congr 1; omega
  have hExt : isoExt (longList y m d h mi s) = some true := by simp [isoExt, longList]
  have hIdx : isoTimeIndex (longList y m d h mi s) false = some 11 := by simp [isoTimeIndex, longList]
  have hClock : parseClock (longList y m d h mi s) false 11 = some (some ((h : Int), (mi : Int), (s : Int), 19)) := by
    have c2 : rd (longList y m d h mi s) (11 + 2) = some 58 := by simp [longList]
    have c5 : rd (longList y m d h mi s) (11 + 5) = some 58 := by simp [longList]
    have l20 : (longList y m d h mi s).length = 20 := rfl
    simp [parseClock, c2, c5, l20, hH, hMi, hS]
  have hFrac : parseFrac (longList y m d h mi s) 19 = some (0, 0, 19) := by simp [parseFrac, longList]
  have hZone : parseZone (longList y m d h mi s) 19 = some (some 0) := by simp [parseZone, longList]
  have h0 : rd (longList y m d h mi s) 0 = some (dig (y / 1000)) := rfl
  have l20 : (longList y m d h mi s).length = 20 := rfl
  simp only [parse, h0, Option.bind_some, dig_not_upper, if_false, parseIso, hExt, l20, Bool.not_true, Bool.false_and,
    Bool.false_eq_true, hY, hM, hD, hIdx, hClock, hFrac, hZone]
  simp [fracMs_zero]
  rw [if_neg (by omega), if_neg (by omega)]


theorem parseInt3 (t : Bytes) (p a b c : Nat) (h0 : rd t p = some (dig a)) (h1 : rd t (p + 1) = some (dig b))
    (h2 : rd t (p + 2) = some (dig c)) :
    parseInt t p 3 = some ((a % 10 : Nat) * 100 + (b % 10 : Nat) * 10 + (c % 10 : Nat) : Int) := by
  have k1 : wrap32 (1 * 10) = 10 := by decide
  have k2 : wrap32 (10 * 10) = 100 := by decide
  simp only [parseInt, parseIntLoop, h0, h1, h2, isDigit_dig, if_true, Nat.add_zero, dig_toNat, k1, k2]
  congr 1
  unfold wrap32
  omega

/-- the FULL format -/
def fullList (y m d h mi s ms : Nat) : Bytes :=
  [dig (y / 1000), dig (y / 100), dig (y / 10), dig y, 45, dig (m / 10), dig m, 45, dig (d / 10), dig d, 84,
   dig (h / 10), dig h, 58, dig (mi / 10), dig mi, 58, dig (s / 10), dig s, 46, dig (ms / 100), dig (ms / 10), dig ms, 90]

theorem fracMs_3 (ms : Nat) (h : ms ≤ 999) : fracMs (ms : Int) 3 = ms := by
  unfold fracMs; omega

theorem parse_fullList (y m d h mi s ms : Nat) (hy : y ≤ 9999) (hm : m ≤ 99) (hd : d ≤ 99) (hh : h ≤ 23) (hmi : mi ≤ 59)
    (hs : s ≤ 59) (hms : ms ≤ 999) :
    parse (fullList y m d h mi s ms) = some ((construct y m d h mi s).map fun t0 => t0 + (ms : Int)) := by
  have hY : parseInt (fullList y m d h mi s ms) 0 4 = some (y : Int) := by
    rw [parseInt4 _ 0 (y / 1000) (y / 100) (y / 10) y (by simp [fullList]) (by simp [fullList]) (by simp [fullList]) (by simp [fullList])]
    congr 1; omega
  have hM : parseInt (fullList y m d h mi s ms) 5 2 = some (m : Int) := by
    rw [parseInt2 _ 5 (m / 10) m (by simp [fullList]) (by simp [fullList])]; congr 1; omega
  have hD : parseInt (fullList y m d h mi s ms) 8 2 = some (d : Int) := by
    rw [parseInt2 _ 8 (d / 10) d (by simp [fullList]) (by simp [fullList])]; congr 1; omega
  have hH : parseInt (fullList y m d h mi s ms) 11 2 = some (h : Int) := by
    rw [parseInt2 _ 11 (h / 10) h (by simp [fullList]) (by simp [fullList])]; congr 1; omega
  have hMi : parseInt (fullList y m d h mi s ms) (11 + 3) 2 = some (mi : Int) := by
    rw [parseInt2 _ 14 (mi / 10) mi (by simp [fullList]) (by simp [fullList])]; congr 1; omega
  have hS : parseInt (fullList y m d h mi s ms) (11 + 6) 2 = some (s : Int) := by
    rw [parseInt2 _ 17 (s / 10) s (by simp [fullList]) (by simp [fullList])]; congr 1; omega
  have hF : parseInt (fullList y m d h mi s ms) (19 + 1) 3 = some (ms : Int) := by
    rw [parseInt3 _ 20 (ms / 100) (ms / 10) ms (by simp [fullList]) (by simp [fullList]) (by simp [fullList])]; congr 1; omega
  have hExt : isoExt (fullList y m d h mi s ms) = some true := by simp [isoExt, fullList]
  have hIdx : isoTimeIndex (fullList y m d h mi s ms) false = some 11 := by simp [isoTimeIndex, fullList]
  have l24 : (fullList y m d h mi s ms).length = 24 := rfl
  have hClock : parseClock (fullList y m d h mi s ms) false 11 = some (some ((h : Int), (mi : Int), (s : Int), 19)) := by
    have c2 : rd (fullList y m d h mi s ms) (11 + 2) = some 58 := by simp [fullList]
    have c5 : rd (fullList y m d h mi s ms) (11 + 5) = some 58 := by simp [fullList]
    simp [parseClock, c2, c5, l24, hH, hMi, hS]
  have hSkip : skipDigits (fullList y m d h mi s ms) (19 + 1) = some 23 := by
    have i90 : isDigit 90 = false := by decide
    simp [skipDigits, fullList, List.takeWhile, i90]
  have hFrac : parseFrac (fullList y m d h mi s ms) 19 = some ((ms : Int), 3, 23) := by
    have c : rd (fullList y m d h mi s ms) 19 = some 46 := by simp [fullList]
    simp only [parseFrac, c, Option.bind_some, if_true, hSkip]
    simp [hF]
  have hZone : parseZone (fullList y m d h mi s ms) 23 = some (some 0) := by simp [parseZone, fullList]
  have h0 : rd (fullList y m d h mi s ms) 0 = some (dig (y / 1000)) := rfl
  simp only [parse, h0, Option.bind_some, dig_not_upper, if_false, parseIso, hExt, l24, Bool.not_true, Bool.false_and,
    Bool.false_eq_true, hY, hM, hD, hIdx, hClock, hFrac, hZone]
  simp [fracMs_3 ms hms]
  rw [if_neg (by omega), if_neg (by omega)]

/-- the SHORT (basic ISO) format -/
def shortList (y m d h mi s : Nat) : Bytes :=
  [dig (y / 1000), dig (y / 100), dig (y / 10), dig y, dig (m / 10), dig m, dig (d / 10), dig d, 84,
   dig (h / 10), dig h, dig (mi / 10), dig mi, dig (s / 10), dig s, 90]

theorem parse_shortList (y m d h mi s : Nat) (hy : y ≤ 9999) (hm : m ≤ 99) (hd : d ≤ 99) (hh : h ≤ 23) (hmi : mi ≤ 59) (hs : s ≤ 59) :
    parse (shortList y m d h mi s) = some (construct y m d h mi s) := by
  have hY : parseInt (shortList y m d h mi s) 0 4 = some (y : Int) := by
    rw [parseInt4 _ 0 (y / 1000) (y / 100) (y / 10) y (by simp [shortList]) (by simp [shortList]) (by simp [shortList]) (by simp [shortList])]
    congr 1; omega
  have hM : parseInt (shortList y m d h mi s) 4 2 = some (m : Int) := by
    rw [parseInt2 _ 4 (m / 10) m (by simp [shortList]) (by simp [shortList])]; congr 1; omega
  have hD : parseInt (shortList y m d h mi s) 6 2 = some (d : Int) := by
    rw [parseInt2 _ 6 (d / 10) d (by simp [shortList]) (by simp [shortList])]; congr 1; omega
  have hH : parseInt (shortList y m d h mi s) 9 2 = some (h : Int) := by
    rw [parseInt2 _ 9 (h / 10) h (by simp [shortList]) (by simp [shortList])]; congr 1; omega
  have hMi : parseInt (shortList y m d h mi s) (9 + 2) 2 = some (mi : Int) := by
    rw [parseInt2 _ 11 (mi / 10) mi (by simp [shortList]) (by simp [shortList])]; congr 1; omega
  have hS : parseInt (shortList y m d h mi s) (9 + 4) 2 = some (s : Int) := by
    rw [parseInt2 _ 13 (s / 10) s (by simp [shortList]) (by simp [shortList])]; congr 1; omega
  have hExt : isoExt (shortList y m d h mi s) = some false := by simp [isoExt, shortList]
  have hIdx : isoTimeIndex (shortList y m d h mi s) true = some 9 := by simp [isoTimeIndex, shortList]
  have l16 : (shortList y m d h mi s).length = 16 := rfl
  have hClock : parseClock (shortList y m d h mi s) true 9 = some (some ((h : Int), (mi : Int), (s : Int), 15)) := by
    have c4 : rd (shortList y m d h mi s) (9 + 4) = some (dig (s / 10)) := by simp [shortList]
    simp [parseClock, c4, l16, hH, hMi, hS]
  have hFrac : parseFrac (shortList y m d h mi s) 15 = some (0, 0, 15) := by simp [parseFrac, shortList]
  have hZone : parseZone (shortList y m d h mi s) 15 = some (some 0) := by simp [parseZone, shortList]
  have h0 : rd (shortList y m d h mi s) 0 = some (dig (y / 1000)) := rfl
  simp [parse, h0, parseIso, hExt, l16, hY, hM, hD, hIdx, hClock, hFrac, hZone, fracMs_zero]
  rw [if_neg (by omega), if_neg (by omega)]


/-- extended format with offset `±hh:mm` -/
def zoneColonList (y m d h mi s : Nat) (plus : Bool) (hh mm : Nat) : Bytes :=
  [dig (y / 1000), dig (y / 100), dig (y / 10), dig y, 45, dig (m / 10), dig m, 45, dig (d / 10), dig d, 84,
   dig (h / 10), dig h, 58, dig (mi / 10), dig mi, 58, dig (s / 10), dig s, (if plus then 43 else 45), dig (hh / 10), dig hh, 58, dig (mm / 10), dig mm]

theorem parse_zoneColonList (y m d h mi s : Nat) (plus : Bool) (hh mm : Nat) (hy : y ≤ 9999) (hm : m ≤ 99) (hd : d ≤ 99) (hh' : h ≤ 23)
    (hmi : mi ≤ 59) (hs : s ≤ 59) (hhh : hh ≤ 99) (hmm : mm ≤ 99) :
    parse (zoneColonList y m d h mi s plus hh mm) =
      some ((construct y m d h mi s).map fun t0 => t0 + (if plus then -((hh : Int) * 60 + (mm : Int)) else (hh : Int) * 60 + (mm : Int)) * 60000) := by
  have hY : parseInt (zoneColonList y m d h mi s plus hh mm) 0 4 = some (y : Int) := by
    rw [parseInt4 _ 0 (y / 1000) (y / 100) (y / 10) y (by simp [zoneColonList]) (by simp [zoneColonList]) (by simp [zoneColonList]) (by simp [zoneColonList])]
    congr 1; omega
  have hM : parseInt (zoneColonList y m d h mi s plus hh mm) 5 2 = some (m : Int) := by
    rw [parseInt2 _ 5 (m / 10) m (by simp [zoneColonList]) (by simp [zoneColonList])]; congr 1; omega
  have hD : parseInt (zoneColonList y m d h mi s plus hh mm) 8 2 = some (d : Int) := by
    rw [parseInt2 _ 8 (d / 10) d (by simp [zoneColonList]) (by simp [zoneColonList])]; congr 1; omega
  have hH : parseInt (zoneColonList y m d h mi s plus hh mm) 11 2 = some (h : Int) := by
    rw [parseInt2 _ 11 (h / 10) h (by simp [zoneColonList]) (by simp [zoneColonList])]; congr 1; omega
  have hMi : parseInt (zoneColonList y m d h mi s plus hh mm) (11 + 3) 2 = some (mi : Int) := by
    rw [parseInt2 _ 14 (mi / 10) mi (by simp [zoneColonList]) (by simp [zoneColonList])]; congr 1; omega
  have hS : parseInt (zoneColonList y m d h mi s plus hh mm) (11 + 6) 2 = some (s : Int) := by
    rw [parseInt2 _ 17 (s / 10) s (by simp [zoneColonList]) (by simp [zoneColonList])]; congr 1; omega
  have hZh : parseInt (zoneColonList y m d h mi s plus hh mm) (19 + 1) 2 = some (hh : Int) := by
    rw [parseInt2 _ 20 (hh / 10) hh (by simp [zoneColonList]) (by simp [zoneColonList])]; congr 1; omega
  have hZm : parseInt (zoneColonList y m d h mi s plus hh mm) (19 + 4) 2 = some (mm : Int) := by
    rw [parseInt2 _ 23 (mm / 10) mm (by simp [zoneColonList]) (by simp [zoneColonList])]; congr 1; omega
  have c3 : rd (zoneColonList y m d h mi s plus hh mm) (19 + 3) = some 58 := by simp [zoneColonList]
  have hExt : isoExt (zoneColonList y m d h mi s plus hh mm) = some true := by simp [isoExt, zoneColonList]
  have hIdx : isoTimeIndex (zoneColonList y m d h mi s plus hh mm) false = some 11 := by simp [isoTimeIndex, zoneColonList]
  have lN : (zoneColonList y m d h mi s plus hh mm).length = 25 := rfl
  have hClock : parseClock (zoneColonList y m d h mi s plus hh mm) false 11 = some (some ((h : Int), (mi : Int), (s : Int), 19)) := by
    have c2 : rd (zoneColonList y m d h mi s plus hh mm) (11 + 2) = some 58 := by simp [zoneColonList]
    have c5 : rd (zoneColonList y m d h mi s plus hh mm) (11 + 5) = some 58 := by simp [zoneColonList]
    simp [parseClock, c2, c5, lN, hH, hMi, hS]
  have hFrac : parseFrac (zoneColonList y m d h mi s plus hh mm) 19 = some (0, 0, 19) := by
    have c : rd (zoneColonList y m d h mi s plus hh mm) 19 = some (if plus then 43 else 45) := by simp [zoneColonList]
    cases plus <;> simp [parseFrac, c]
  have hZone : parseZone (zoneColonList y m d h mi s plus hh mm) 19 = some (some (if plus then -((hh : Int) * 60 + (mm : Int)) else (hh : Int) * 60 + (mm : Int))) := by
    have c : rd (zoneColonList y m d h mi s plus hh mm) 19 = some (if plus then 43 else 45) := by simp [zoneColonList]
    cases plus <;> simp [parseZone, c, lN, hZh, hZm, c3] <;> omega
  have h0 : rd (zoneColonList y m d h mi s plus hh mm) 0 = some (dig (y / 1000)) := rfl
  simp [parse, h0, parseIso, hExt, lN, hY, hM, hD, hIdx, hClock, hFrac, hZone, fracMs_zero]
  rw [if_neg (by omega), if_neg (by omega)]

/-- extended format with offset `±hhmm` -/
def zoneCompactList (y m d h mi s : Nat) (plus : Bool) (hh mm : Nat) : Bytes :=
  [dig (y / 1000), dig (y / 100), dig (y / 10), dig y, 45, dig (m / 10), dig m, 45, dig (d / 10), dig d, 84,
   dig (h / 10), dig h, 58, dig (mi / 10), dig mi, 58, dig (s / 10), dig s, (if plus then 43 else 45), dig (hh / 10), dig hh, dig (mm / 10), dig mm]

theorem parse_zoneCompactList (y m d h mi s : Nat) (plus : Bool) (hh mm : Nat) (hy : y ≤ 9999) (hm : m ≤ 99) (hd : d ≤ 99) (hh' : h ≤ 23)
    (hmi : mi ≤ 59) (hs : s ≤ 59) (hhh : hh ≤ 99) (hmm : mm ≤ 99) :
    parse (zoneCompactList y m d h mi s plus hh mm) =
      some ((construct y m d h mi s).map fun t0 => t0 + (if plus then -((hh : Int) * 60 + (mm : Int)) else (hh : Int) * 60 + (mm : Int)) * 60000) := by
  have hY : parseInt (zoneCompactList y m d h mi s plus hh mm) 0 4 = some (y : Int) := by
    rw [parseInt4 _ 0 (y / 1000) (y / 100) (y / 10) y (by simp [zoneCompactList]) (by simp [zoneCompactList]) (by simp [zoneCompactList]) (by simp [zoneCompactList])]
    congr 1; omega
  have hM : parseInt (zoneCompactList y m d h mi s plus hh mm) 5 2 = some (m : Int) := by
    rw [parseInt2 _ 5 (m / 10) m (by simp [zoneCompactList]) (by simp [zoneCompactList])]; congr 1; omega
  have hD : parseInt (zoneCompactList y m d h mi s plus hh mm) 8 2 = some (d : Int) := by
    rw [parseInt2 _ 8 (d / 10) d (by simp [zoneCompactList]) (by simp [zoneCompactList])]; congr 1; omega
  have hH : parseInt (zoneCompactList y m d h mi s plus hh mm) 11 2 = some (h : Int) := by
    rw [parseInt2 _ 11 (h / 10) h (by simp [zoneCompactList]) (by simp [zoneCompactList])]; congr 1; omega
  have hMi : parseInt (zoneCompactList y m d h mi s plus hh mm) (11 + 3) 2 = some (mi : Int) := by
    rw [parseInt2 _ 14 (mi / 10) mi (by simp [zoneCompactList]) (by simp [zoneCompactList])]; congr 1; omega
  have hS : parseInt (zoneCompactList y m d h mi s plus hh mm) (11 + 6) 2 = some (s : Int) := by
    rw [parseInt2 _ 17 (s / 10) s (by simp [zoneCompactList]) (by simp [zoneCompactList])]; congr 1; omega
  have hZh : parseInt (zoneCompactList y m d h mi s plus hh mm) (19 + 1) 2 = some (hh : Int) := by
    rw [parseInt2 _ 20 (hh / 10) hh (by simp [zoneCompactList]) (by simp [zoneCompactList])]; congr 1; omega
  have hZm : parseInt (zoneCompactList y m d h mi s plus hh mm) (19 + 3) 2 = some (mm : Int) := by
    rw [parseInt2 _ 22 (mm / 10) mm (by simp [zoneCompactList]) (by simp [zoneCompactList])]; congr 1; omega
  have c3 : True := trivial
  have hExt : isoExt (zoneCompactList y m d h mi s plus hh mm) = some true := by simp [isoExt, zoneCompactList]
  have hIdx : isoTimeIndex (zoneCompactList y m d h mi s plus hh mm) false = some 11 := by simp [isoTimeIndex, zoneCompactList]
  have lN : (zoneCompactList y m d h mi s plus hh mm).length = 24 := rfl
  have hClock : parseClock (zoneCompactList y m d h mi s plus hh mm) false 11 = some (some ((h : Int), (mi : Int), (s : Int), 19)) := by
    have c2 : rd (zoneCompactList y m d h mi s plus hh mm) (11 + 2) = some 58 := by simp [zoneCompactList]
    have c5 : rd (zoneCompactList y m d h mi s plus hh mm) (11 + 5) = some 58 := by simp [zoneCompactList]
    simp [parseClock, c2, c5, lN, hH, hMi, hS]
  have hFrac : parseFrac (zoneCompactList y m d h mi s plus hh mm) 19 = some (0, 0, 19) := by
    have c : rd (zoneCompactList y m d h mi s plus hh mm) 19 = some (if plus then 43 else 45) := by simp [zoneCompactList]
    cases plus <;> simp [parseFrac, c]
  have hZone : parseZone (zoneCompactList y m d h mi s plus hh mm) 19 = some (some (if plus then -((hh : Int) * 60 + (mm : Int)) else (hh : Int) * 60 + (mm : Int))) := by
    have c : rd (zoneCompactList y m d h mi s plus hh mm) 19 = some (if plus then 43 else 45) := by simp [zoneCompactList]
    cases plus <;> simp [parseZone, c, lN, hZh, hZm, c3] <;> omega
  have h0 : rd (zoneCompactList y m d h mi s plus hh mm) 0 = some (dig (y / 1000)) := rfl
  simp [parse, h0, parseIso, hExt, lN, hY, hM, hD, hIdx, hClock, hFrac, hZone, fracMs_zero]
  rw [if_neg (by omega), if_neg (by omega)]

/-- extended format with offset `±hh` -/
def zoneHourList (y m d h mi s : Nat) (plus : Bool) (hh mm : Nat) : Bytes :=
  [dig (y / 1000), dig (y / 100), dig (y / 10), dig y, 45, dig (m / 10), dig m, 45, dig (d / 10), dig d, 84,
   dig (h / 10), dig h, 58, dig (mi / 10), dig mi, 58, dig (s / 10), dig s, (if plus then 43 else 45), dig (hh / 10), dig hh]

theorem parse_zoneHourList (y m d h mi s : Nat) (plus : Bool) (hh mm : Nat) (hy : y ≤ 9999) (hm : m ≤ 99) (hd : d ≤ 99) (hh' : h ≤ 23)
    (hmi : mi ≤ 59) (hs : s ≤ 59) (hhh : hh ≤ 99) (hmm : mm ≤ 99) :
    parse (zoneHourList y m d h mi s plus hh mm) =
      some ((construct y m d h mi s).map fun t0 => t0 + (if plus then -((hh : Int) * 60 + 0) else (hh : Int) * 60 + 0) * 60000) := by
  have hY : parseInt (zoneHourList y m d h mi s plus hh mm) 0 4 = some (y : Int) := by
    rw [parseInt4 _ 0 (y / 1000) (y / 100) (y / 10) y (by simp [zoneHourList]) (by simp [zoneHourList]) (by simp [zoneHourList]) (by simp [zoneHourList])]
    congr 1; omega
  have hM : parseInt (zoneHourList y m d h mi s plus hh mm) 5 2 = some (m : Int) := by
    rw [parseInt2 _ 5 (m / 10) m (by simp [zoneHourList]) (by simp [zoneHourList])]; congr 1; omega
  have hD : parseInt (zoneHourList y m d h mi s plus hh mm) 8 2 = some (d : Int) := by
    rw [parseInt2 _ 8 (d / 10) d (by simp [zoneHourList]) (by simp [zoneHourList])]; congr 1; omega
  have hH : parseInt (zoneHourList y m d h mi s plus hh mm) 11 2 = some (h : Int) := by
    rw [parseInt2 _ 11 (h / 10) h (by simp [zoneHourList]) (by simp [zoneHourList])]; congr 1; omega
  have hMi : parseInt (zoneHourList y m d h mi s plus hh mm) (11 + 3) 2 = some (mi : Int) := by
    rw [parseInt2 _ 14 (mi / 10) mi (by simp [zoneHourList]) (by simp [zoneHourList])]; congr 1; omega
  have hS : parseInt (zoneHourList y m d h mi s plus hh mm) (11 + 6) 2 = some (s : Int) := by
    rw [parseInt2 _ 17 (s / 10) s (by simp [zoneHourList]) (by simp [zoneHourList])]; congr 1; omega
  have hZh : parseInt (zoneHourList y m d h mi s plus hh mm) (19 + 1) 2 = some (hh : Int) := by
    rw [parseInt2 _ 20 (hh / 10) hh (by simp [zoneHourList]) (by simp [zoneHourList])]; congr 1; omega
  have hZm : True := trivial
  have c3 : True := trivial
  have hExt : isoExt (zoneHourList y m d h mi s plus hh mm) = some true := by simp [isoExt, zoneHourList]
  have hIdx : isoTimeIndex (zoneHourList y m d h mi s plus hh mm) false = some 11 := by simp [isoTimeIndex, zoneHourList]
  have lN : (zoneHourList y m d h mi s plus hh mm).length = 22 := rfl
  have hClock : parseClock (zoneHourList y m d h mi s plus hh mm) false 11 = some (some ((h : Int), (mi : Int), (s : Int), 19)) := by
    have c2 : rd (zoneHourList y m d h mi s plus hh mm) (11 + 2) = some 58 := by simp [zoneHourList]
    have c5 : rd (zoneHourList y m d h mi s plus hh mm) (11 + 5) = some 58 := by simp [zoneHourList]
    simp [parseClock, c2, c5, lN, hH, hMi, hS]
  have hFrac : parseFrac (zoneHourList y m d h mi s plus hh mm) 19 = some (0, 0, 19) := by
    have c : rd (zoneHourList y m d h mi s plus hh mm) 19 = some (if plus then 43 else 45) := by simp [zoneHourList]
    cases plus <;> simp [parseFrac, c]
  have hZone : parseZone (zoneHourList y m d h mi s plus hh mm) 19 = some (some (if plus then -((hh : Int) * 60 + 0) else (hh : Int) * 60 + 0)) := by
    have c : rd (zoneHourList y m d h mi s plus hh mm) 19 = some (if plus then 43 else 45) := by simp [zoneHourList]
    cases plus <;> simp [parseZone, c, lN, hZh, hZm, c3] <;> omega
  have h0 : rd (zoneHourList y m d h mi s plus hh mm) 0 = some (dig (y / 1000)) := rfl
  simp [parse, h0, parseIso, hExt, lN, hY, hM, hD, hIdx, hClock, hFrac, hZone, fracMs_zero]
  rw [if_neg (by omega), if_neg (by omega)]

theorem start_10000 : start 10000 = 3652425 := by decide

/-- the year of an instant up to 9999-12-31T23:59:59.999 is at most 9999 -/
theorem year_le_9999 (t day : Int) (hday : day = t / 1000 / 86400) (hr : 0 ≤ day + 719528) (hmax : t ≤ 253402300799999) :
    (calcF t).year ≤ 9999 := by
  have hb := year_bracket day (day + 719528) rfl hr
  have hy : (calcF t).year = yearFromDay day := by simp only [calcF, ← hday]
  rw [hy]
  false_or_by_contra
  have h1 : start 10000 ≤ start (yearFromDay day) := by
    by_cases e : yearFromDay day = 10000
    · rw [e]; exact Int.le_refl _
    · exact Int.le_of_lt (start_strict_mono (by omega))
  rw [start_10000] at h1
  omega

theorem fmt_long_eq (f : Fields) (ms : Nat) :
    fmtFields .long f ms = longList f.year.toNat f.month.toNat f.day.toNat f.hours.toNat f.minutes.toNat f.seconds.toNat := rfl
theorem fmt_full_eq (f : Fields) (ms : Nat) :
    fmtFields .full f ms = fullList f.year.toNat f.month.toNat f.day.toNat f.hours.toNat f.minutes.toNat f.seconds.toNat ms := rfl
theorem fmt_short_eq (f : Fields) (ms : Nat) :
    fmtFields .short f ms = shortList f.year.toNat f.month.toNat f.day.toNat f.hours.toNat f.minutes.toNat f.seconds.toNat := rfl

/-- facts needed to parse back the formatted fields of an in-range instant -/
theorem roundtrip_facts (t : Int) (h0 : -62167219200000 ≤ t) (hmax : t ≤ 253402300799999) :
    (calcF t).year.toNat ≤ 9999 ∧ (calcF t).month.toNat ≤ 99 ∧ (calcF t).day.toNat ≤ 99 ∧ (calcF t).hours.toNat ≤ 23 ∧ (calcF t).minutes.toNat ≤ 59 ∧ (calcF t).seconds.toNat ≤ 59 ∧
    construct (calcF t).year.toNat (calcF t).month.toNat (calcF t).day.toNat (calcF t).hours.toNat (calcF t).minutes.toNat (calcF t).seconds.toNat = some (t - t % 1000) := by
  have hr : 0 ≤ t / 1000 / 86400 + 719528 := by omega
  obtain ⟨hy, hm1, hm2, hd1, hd2, hdn, hh1, hh2, hmi1, hmi2, hs1, hs2, hsum⟩ := calcF_facts t _ rfl hr
  have hy9 := year_le_9999 t _ rfl hr hmax
  have hst := mdays_step (isLeap (calcF t).year) ⟨(calcF t).month.toNat, by omega⟩ (by simp; omega)
  simp only at hst
  have hc := AslProofs.Date.construct_calc t _ rfl hr
  unfold constructF at hc
  have e1 : (((calcF t).year.toNat : Nat) : Int) = (calcF t).year := Int.toNat_of_nonneg hy
  have e2 : (((calcF t).month.toNat : Nat) : Int) = (calcF t).month := Int.toNat_of_nonneg (by omega)
  have e3 : (((calcF t).day.toNat : Nat) : Int) = (calcF t).day := Int.toNat_of_nonneg (by omega)
  have e4 : (((calcF t).hours.toNat : Nat) : Int) = (calcF t).hours := Int.toNat_of_nonneg hh1
  have e5 : (((calcF t).minutes.toNat : Nat) : Int) = (calcF t).minutes := Int.toNat_of_nonneg hmi1
  have e6 : (((calcF t).seconds.toNat : Nat) : Int) = (calcF t).seconds := Int.toNat_of_nonneg hs1
  refine ⟨by omega, by omega, by omega, by omega, by omega, by omega, ?_⟩
  rw [e1, e2, e3, e4, e5, e6]; exact hc

@[simp] theorem isSpace_dig (n : Nat) : isSpace (dig n) = false := (dig_props n).2.2.1

/-- the HTTP format with abstract (3-byte) weekday and month names -/
def httpList (w0 w1 w2 x0 x1 x2 : UInt8) (y d h mi s : Nat) : Bytes :=
  [w0, w1, w2, 44, 32, dig (d / 10), dig d, 32, x0, x1, x2, 32, dig (y / 1000), dig (y / 100), dig (y / 10), dig y, 32,
   dig (h / 10), dig h, 58, dig (mi / 10), dig mi, 58, dig (s / 10), dig s, 32, 71, 77, 84]

theorem parse_httpList (w0 w1 w2 x0 x1 x2 : UInt8) (y d h mi s : Nat) (M : Int)
    (hw0 : 65 < w0 ∧ w0 < 90) (hw : isSpace w0 = false ∧ isSpace w1 = false ∧ isSpace w2 = false)
    (hx : isSpace x0 = false ∧ isSpace x1 = false ∧ isSpace x2 = false) (hM : lookupMonth [x0, x1, x2] = M) (hM0 : M ≠ 0)
    (hy : y ≤ 9999) (hd : d ≤ 99) (hh : h ≤ 99) (hmi : mi ≤ 99) (hs : s ≤ 99) :
    parse (httpList w0 w1 w2 x0 x1 x2 y d h mi s) = some (construct y M d h mi s) := by
  have i44 : isSpace 44 = false := by decide
  have i32 : isSpace 32 = true := by decide
  have i58 : isSpace 58 = false := by decide
  have i71 : isSpace 71 = false := by decide
  have i77 : isSpace 77 = false := by decide
  have i84 : isSpace 84 = false := by decide
  have hsplit : splitWs (httpList w0 w1 w2 x0 x1 x2 y d h mi s) =
      [[w0, w1, w2, 44], [dig (d / 10), dig d], [x0, x1, x2], [dig (y / 1000), dig (y / 100), dig (y / 10), dig y],
       [dig (h / 10), dig h, 58, dig (mi / 10), dig mi, 58, dig (s / 10), dig s], [71, 77, 84]] := by
    simp [splitWs, splitWsAux, httpList, hw.1, hw.2.1, hw.2.2, hx.1, hx.2.1, hx.2.2, i44, i32, i58, i71, i77, i84]
  have h0 : rd (httpList w0 w1 w2 x0 x1 x2 y d h mi s) 0 = some w0 := rfl
  have hD : parseInt [dig (d / 10), dig d] 0 2 = some (d : Int) := by
    rw [parseInt2 _ 0 (d / 10) d (by simp) (by simp)]; congr 1; omega
  have hY : parseInt [dig (y / 1000), dig (y / 100), dig (y / 10), dig y] 0 4 = some (y : Int) := by
    rw [parseInt4 _ 0 (y / 1000) (y / 100) (y / 10) y (by simp) (by simp) (by simp) (by simp)]; congr 1; omega
  have hH : parseInt [dig (h / 10), dig h, 58, dig (mi / 10), dig mi, 58, dig (s / 10), dig s] 0 2 = some (h : Int) := by
    rw [parseInt2 _ 0 (h / 10) h (by simp) (by simp)]; congr 1; omega
  have hMi : parseInt [dig (h / 10), dig h, 58, dig (mi / 10), dig mi, 58, dig (s / 10), dig s] 3 2 = some (mi : Int) := by
    rw [parseInt2 _ 3 (mi / 10) mi (by simp) (by simp)]; congr 1; omega
  have hS : parseInt [dig (h / 10), dig h, 58, dig (mi / 10), dig mi, 58, dig (s / 10), dig s] 6 2 = some (s : Int) := by
    rw [parseInt2 _ 6 (s / 10) s (by simp) (by simp)]; congr 1; omega
  simp only [parse, h0, Option.bind_some, hw0, and_self, if_true, parseHttp, hsplit]
  simp [hD, hY, hH, hMi, hS, hM, hM0]
  intro h; exfalso; omega


theorem fmt_http_eq (f : Fields) (ms : Nat) (w0 w1 w2 x0 x1 x2 : UInt8) (hw : wdNames.getD f.weekDay.toNat [] = [w0, w1, w2])
    (hx : mnNames.getD (f.month.toNat - 1) [] = [x0, x1, x2]) :
    fmtFields .http f ms = httpList w0 w1 w2 x0 x1 x2 f.year.toNat f.day.toNat f.hours.toNat f.minutes.toNat f.seconds.toNat := by
  unfold fmtFields
  simp only [hw, hx]
  rfl

def nameOk (n : Bytes) : Bool := n.length == 3 && n.all (fun c => !isSpace c)

theorem three (n : Bytes) (h : nameOk n = true) : ∃ a b c, n = [a, b, c] ∧ isSpace a = false ∧ isSpace b = false ∧ isSpace c = false := by
  match n, h with
  | [a, b, c], h =>
    simp [nameOk] at h
    exact ⟨a, b, c, rfl, h.1, h.2.1, h.2.2⟩

/-- the weekday names used by the HTTP format: three bytes without white space, the first one in 'B'..'Y' -/
theorem wd_names_ok : ∀ i : Fin 7, nameOk (wdNames.getD i.val []) = true ∧
    65 < (wdNames.getD i.val []).getD 0 0 ∧ (wdNames.getD i.val []).getD 0 0 < 90 := by decide

/-- the month names of the formatter are keys of the parser's month map, with the right month numbers -/
theorem mn_names_ok : ∀ i : Fin 12, nameOk (mnNames.getD i.val []) = true ∧ lookupMonth (mnNames.getD i.val []) = (i.val : Int) + 1 := by
  decide

theorem parse_http_roundtrip (t : Int) (h0 : -62167219200000 ≤ t) (hmax : t ≤ 253402300799999) :
    parse (toUTCString .http t) = some (some (t - t % 1000)) := by
  obtain ⟨a, b, c, d, e, f, g⟩ := roundtrip_facts t h0 hmax
  have hr : 0 ≤ t / 1000 / 86400 + 719528 := by omega
  obtain ⟨hy, hm1, hm2, hd1, hd2, hdn, hh1, hh2, hmi1, hmi2, hs1, hs2, hsum⟩ := calcF_facts t _ rfl hr
  have hwd := weekday_spec t _ rfl
  have hwd0 : 0 ≤ (calcF t).weekDay ∧ (calcF t).weekDay < 7 := by omega
  have hW := wd_names_ok ⟨(calcF t).weekDay.toNat, by omega⟩
  have hMn := mn_names_ok ⟨(calcF t).month.toNat - 1, by omega⟩
  simp only at hW hMn
  obtain ⟨w0, w1, w2, hw, hws⟩ := three _ hW.1
  obtain ⟨x0, x1, x2, hx, hxs⟩ := three _ hMn.1
  unfold toUTCString
  rw [fmt_http_eq _ _ w0 w1 w2 x0 x1 x2 hw hx]
  have hlk : lookupMonth [x0, x1, x2] = (calcF t).month := by
    rw [← hx, hMn.2]
    have : (((calcF t).month.toNat - 1 : Nat) : Int) = (calcF t).month - 1 := by omega
    omega
  have hw0 : 65 < w0 ∧ w0 < 90 := by
    have := hW.2; rw [hw] at this; simpa using this
  rw [parse_httpList w0 w1 w2 x0 x1 x2 _ _ _ _ _ (calcF t).month hw0 hws hxs hlk (by omega) a (by omega) (by omega) (by omega) (by omega)]
  have e2 : (((calcF t).month.toNat : Nat) : Int) = (calcF t).month := Int.toNat_of_nonneg (by omega)
  rw [← e2]; rw [g]

end AslProofs.DateFmt
