import AslModel.Date
/-! Helper lemmas for C19: the parsers never read beyond the terminator (no `none` at the outer `Option`). -/
open AslModel.Date Gen.Date

namespace AslProofs.DateParse

/-- "no out-of-bounds read" -/
def Ok {α : Type} (x : Option α) : Prop := ∃ r, x = some r

theorem ok_some {α : Type} (a : α) : Ok (some a) := ⟨a, rfl⟩

theorem ok_bind {α β : Type} {x : Option α} {f : α → Option β} (hx : Ok x) (hf : ∀ a, x = some a → Ok (f a)) : Ok (x.bind f) := by
  obtain ⟨a, ha⟩ := hx
  rw [ha]; exact hf a ha

theorem rd_ok (s : Bytes) (i : Nat) (h : i ≤ s.length) : Ok (rd s i) := by
  unfold rd
  split
  · exact ⟨_, rfl⟩
  · rw [if_pos h]; exact ⟨_, rfl⟩

/-- a byte read that is not the terminator value lies strictly inside the string -/
theorem rd_lt (s : Bytes) (i : Nat) (c : UInt8) (h : rd s i = some c) (hc : c ≠ 0) : i < s.length := by
  unfold rd at h
  split at h
  · rename_i c' l hd
    false_or_by_contra
    have : s.drop i = [] := List.drop_eq_nil_of_le (by omega)
    rw [this] at hd; cases hd
  · split at h
    · cases h; exact absurd rfl hc
    · cases h

theorem parseIntLoop_ok (s : Bytes) (p : Nat) : ∀ (n : Nat) (x k : Int), p + n ≤ s.length + 1 →
    Ok (parseIntLoop s p n x k) := by
  intro n
  induction n with
  | zero => intro x k _; exact ⟨x, rfl⟩
  | succ n ih =>
    intro x k h
    obtain ⟨c, hc⟩ := rd_ok s (p + n) (by omega)
    simp only [parseIntLoop, hc]
    split
    · exact ih _ _ (by omega)
    · exact ⟨_, rfl⟩

theorem parseInt_ok (s : Bytes) (p n : Nat) (h : p + n ≤ s.length + 1) : Ok (parseInt s p n) :=
  parseIntLoop_ok s p n 0 1 h

theorem skipDigits_ok (s : Bytes) (j : Nat) (h : j ≤ s.length) : ∃ e, skipDigits s j = some e ∧ j ≤ e ∧ e ≤ s.length := by
  unfold skipDigits
  rw [if_pos h]
  refine ⟨_, rfl, by omega, ?_⟩
  have := (List.takeWhile_sublist (l := s.drop j) isDigit).length_le
  simp only [List.length_drop] at this
  omega

theorem isoExt_ok (t : Bytes) : ∃ e, isoExt t = some e ∧ (e = true → 10 ≤ t.length) := by
  unfold isoExt
  split
  · rename_i h
    obtain ⟨c4, h4⟩ := rd_ok t 4 (by omega)
    simp only [h4, Option.bind_some]
    split
    · obtain ⟨c7, h7⟩ := rd_ok t 7 (by omega)
      simp only [h7, Option.bind_some]
      exact ⟨_, rfl, fun _ => h⟩
    · exact ⟨false, rfl, by simp⟩
  · exact ⟨false, rfl, by simp⟩

theorem isoTimeIndex_ok (t : Bytes) (basic : Bool) :
    ∃ i, isoTimeIndex t basic = some i ∧ (i = 0 ∨ (i = 9 ∧ basic = true ∧ 12 < t.length) ∨ (i = 11 ∧ basic = false ∧ 15 < t.length)) := by
  unfold isoTimeIndex
  split
  · rename_i h
    simp only [Bool.and_eq_true, decide_eq_true_eq] at h
    obtain ⟨c, hc⟩ := rd_ok t 8 (by omega)
    simp only [hc, Option.bind_some]
    split
    · exact ⟨9, rfl, Or.inr (Or.inl ⟨rfl, h.1, h.2⟩)⟩
    · exact ⟨0, rfl, Or.inl rfl⟩
  · split
    · rename_i h
      simp only [Bool.and_eq_true, Bool.not_eq_true', decide_eq_true_eq] at h
      obtain ⟨c, hc⟩ := rd_ok t 10 (by omega)
      simp only [hc, Option.bind_some]
      split
      · exact ⟨11, rfl, Or.inr (Or.inr ⟨rfl, h.1, h.2⟩)⟩
      · exact ⟨0, rfl, Or.inl rfl⟩
    · exact ⟨0, rfl, Or.inl rfl⟩

/-- the clock part reads inside the string and ends at an index `≤ length` -/
theorem parseClock_ok (t : Bytes) (basic : Bool) (p : Nat)
    (hp : (basic = true ∧ p + 4 ≤ t.length) ∨ (basic = false ∧ p + 5 ≤ t.length)) :
    ∃ r, parseClock t basic p = some r ∧ ∀ h mi s p1, r = some (h, mi, s, p1) → p1 ≤ t.length := by
  unfold parseClock
  rcases hp with ⟨rfl, hp⟩ | ⟨rfl, hp⟩
  · -- basic
    simp only [Bool.not_true, Bool.false_eq_true, if_false, Option.bind_some, if_true]
    split
    · rename_i h6
      obtain ⟨c, hc⟩ := rd_ok t (p + 4) (by omega)
      simp only [hc, Option.bind_some]
      obtain ⟨h, hh⟩ := parseInt_ok t p 2 (by omega)
      obtain ⟨mi, hmi⟩ := parseInt_ok t (p + 2) 2 (by omega)
      simp only [hh, hmi, Option.bind_some]
      cases hd : isDigit c
      · obtain ⟨s, hs⟩ := parseInt_ok t (p + 4) 0 (by omega)
        simp only [Bool.false_eq_true, if_false, hs, Option.bind_some]
        exact ⟨_, rfl, by intro _ _ _ _ e; cases e; omega⟩
      · obtain ⟨s, hs⟩ := parseInt_ok t (p + 4) 2 (by omega)
        simp only [if_true, hs, Option.bind_some]
        exact ⟨_, rfl, by intro _ _ _ _ e; cases e; omega⟩
    · obtain ⟨h, hh⟩ := parseInt_ok t p 2 (by omega)
      obtain ⟨mi, hmi⟩ := parseInt_ok t (p + 2) 2 (by omega)
      obtain ⟨s, hs⟩ := parseInt_ok t (p + 4) 0 (by omega)
      simp only [hh, hmi, Bool.false_eq_true, if_false, hs, Option.bind_some]
      exact ⟨_, rfl, by intro _ _ _ _ e; cases e; omega⟩
  · -- extended
    simp only [Bool.not_false, if_true, Bool.false_eq_true, if_false]
    obtain ⟨c2, h2⟩ := rd_ok t (p + 2) (by omega)
    simp only [h2, Option.bind_some]
    split
    · exact ⟨none, rfl, by intro _ _ _ _ e; cases e⟩
    · obtain ⟨h, hh⟩ := parseInt_ok t p 2 (by omega)
      obtain ⟨mi, hmi⟩ := parseInt_ok t (p + 3) 2 (by omega)
      split
      · rename_i h8
        obtain ⟨c, hc⟩ := rd_ok t (p + 5) (by omega)
        simp only [hc, hh, hmi, Option.bind_some]
        cases hd : (c == 58)
        · obtain ⟨s, hs⟩ := parseInt_ok t (p + 6) 0 (by omega)
          simp only [Bool.false_eq_true, if_false, hs, Option.bind_some]
          exact ⟨_, rfl, by intro _ _ _ _ e; cases e; omega⟩
        · obtain ⟨s, hs⟩ := parseInt_ok t (p + 6) 2 (by omega)
          simp only [if_true, hs, Option.bind_some]
          exact ⟨_, rfl, by intro _ _ _ _ e; cases e; omega⟩
      · obtain ⟨s, hs⟩ := parseInt_ok t (p + 6) 0 (by omega)
        simp only [hh, hmi, Bool.false_eq_true, if_false, hs, Option.bind_some]
        exact ⟨_, rfl, by intro _ _ _ _ e; cases e; omega⟩

theorem parseFrac_ok (t : Bytes) (p1 : Nat) (hp : p1 ≤ t.length) :
    ∃ r, parseFrac t p1 = some r ∧ r.2.2 ≤ t.length := by
  unfold parseFrac
  obtain ⟨c0, h0⟩ := rd_ok t p1 hp
  simp only [h0, Option.bind_some]
  split
  · rename_i h46
    have hlt := rd_lt t p1 c0 h0 (by rw [h46]; decide)
    obtain ⟨e, he, he1, he2⟩ := skipDigits_ok t (p1 + 1) (by omega)
    obtain ⟨x, hx⟩ := parseInt_ok t (p1 + 1) (e - (p1 + 1)) (by omega)
    simp only [he, hx, Option.bind_some]
    exact ⟨_, rfl, he2⟩
  · exact ⟨_, rfl, hp⟩

theorem parseZone_ok (t : Bytes) (p2 : Nat) (hp : p2 ≤ t.length) : Ok (parseZone t p2) := by
  unfold parseZone
  obtain ⟨z, hz⟩ := rd_ok t p2 hp
  simp only [hz, Option.bind_some]
  split
  · exact ok_some _
  · split
    · rename_i hpm
      have hlt := rd_lt t p2 z hz (by rcases hpm with h | h <;> rw [h] <;> decide)
      have e1 : Ok (if t.length - p2 ≥ 3 then (parseInt t (p2 + 1) 2).bind fun v => some (v * 60) else some 0) := by
        split
        · exact ok_bind (parseInt_ok t (p2 + 1) 2 (by omega)) (fun _ _ => ok_some _)
        · exact ok_some _
      obtain ⟨tz0, h1⟩ := e1
      have e2 : ∃ c6, (if t.length - p2 = 6 then (rd t (p2 + 3)).bind fun c => some (c == 58) else some false) = some c6 ∧
          (c6 = true → t.length - p2 = 6) := by
        split
        · rename_i h6
          obtain ⟨c, hc⟩ := rd_ok t (p2 + 3) (by omega)
          simp only [hc, Option.bind_some]
          exact ⟨_, rfl, fun _ => h6⟩
        · exact ⟨false, rfl, by simp⟩
      obtain ⟨c6, h2, h2'⟩ := e2
      simp only [h1, h2, Option.bind_some]
      have e3 : Ok (if c6 = true then (parseInt t (p2 + 4) 2).bind fun v => some (tz0 + v)
          else if t.length - p2 = 5 then (parseInt t (p2 + 3) 2).bind fun v => some (tz0 + v)
          else if t.length - p2 ≠ 3 then some (-1000000) else some tz0) := by
        split
        · rename_i hc6
          have := h2' hc6
          exact ok_bind (parseInt_ok t (p2 + 4) 2 (by omega)) (fun _ _ => ok_some _)
        · split
          · exact ok_bind (parseInt_ok t (p2 + 3) 2 (by omega)) (fun _ _ => ok_some _)
          · split <;> exact ok_some _
      obtain ⟨tz, h3⟩ := e3
      simp only [h3, Option.bind_some]
      split <;> exact ok_some _
    · split <;> exact ok_some _


theorem parseIso_ok (t : Bytes) : Ok (parseIso t) := by
  unfold parseIso
  obtain ⟨ext, hext, hext10⟩ := isoExt_ok t
  simp only [hext, Option.bind_some]
  cases ext
  all_goals
    simp only [Bool.not_false, Bool.not_true, Bool.true_and, Bool.false_and, if_true, if_false, Bool.false_eq_true, decide_eq_true_eq]
    try split
    try exact ok_some _
  all_goals
    have h8 : 8 ≤ t.length := by first | omega | (have := hext10 rfl; omega)
    have h10 : (true = true → 10 ≤ t.length) → True := fun _ => trivial
    obtain ⟨y, hy⟩ := parseInt_ok t 0 4 (by omega)
  · -- basic
    obtain ⟨m, hm⟩ := parseInt_ok t 4 2 (by omega)
    obtain ⟨d, hd⟩ := parseInt_ok t 6 2 (by omega)
    obtain ⟨iT, hiT, hcase⟩ := isoTimeIndex_ok t true
    simp only [hy, hm, hd, hiT, Option.bind_some]
    split
    · exact ok_some _
    · split
      · exact ok_some _
      · split
        · have hp : (true = true ∧ iT + 4 ≤ t.length) ∨ (true = false ∧ iT + 5 ≤ t.length) := by
            rcases hcase with h0 | ⟨h9, hb, hl⟩ | ⟨h11, hb, hl⟩
            · contradiction
            · exact Or.inl ⟨rfl, by omega⟩
            · cases hb
          obtain ⟨ck, hck, hp1⟩ := parseClock_ok t true iT hp
          simp only [hck, Option.bind_some]
          match ck, hp1 with
          | none, _ => exact ok_some _
          | some (h, mi, s, p1), hp1 =>
            have hp1' := hp1 h mi s p1 rfl
            obtain ⟨fr, hfr, hfr2⟩ := parseFrac_ok t p1 hp1'
            simp only [hfr, Option.bind_some]
            split
            · exact ok_some _
            · obtain ⟨tz, htz⟩ := parseZone_ok t fr.2.2 hfr2
              simp only [htz, Option.bind_some]
              cases tz <;> exact ok_some _
        · exact ok_some _
  · -- extended
    have h10' := hext10 rfl
    obtain ⟨m, hm⟩ := parseInt_ok t 5 2 (by omega)
    obtain ⟨d, hd⟩ := parseInt_ok t 8 2 (by omega)
    obtain ⟨iT, hiT, hcase⟩ := isoTimeIndex_ok t false
    simp only [hy, hm, hd, hiT, Option.bind_some]
    split
    · exact ok_some _
    · split
      · exact ok_some _
      · split
        · have hp : (false = true ∧ iT + 4 ≤ t.length) ∨ (false = false ∧ iT + 5 ≤ t.length) := by
            rcases hcase with h0 | ⟨h9, hb, hl⟩ | ⟨h11, hb, hl⟩
            · contradiction
            · cases hb
            · exact Or.inr ⟨rfl, by omega⟩
          obtain ⟨ck, hck, hp1⟩ := parseClock_ok t false iT hp
          simp only [hck, Option.bind_some]
          match ck, hp1 with
          | none, _ => exact ok_some _
          | some (h, mi, s, p1), hp1 =>
            have hp1' := hp1 h mi s p1 rfl
            obtain ⟨fr, hfr, hfr2⟩ := parseFrac_ok t p1 hp1'
            simp only [hfr, Option.bind_some]
            split
            · exact ok_some _
            · obtain ⟨tz, htz⟩ := parseZone_ok t fr.2.2 hfr2
              simp only [htz, Option.bind_some]
              cases tz <;> exact ok_some _
        · exact ok_some _

theorem splitWsAux_nonempty : ∀ (t cur : Bytes), ∀ x ∈ splitWsAux t cur, x ≠ [] := by
  intro t
  induction t with
  | nil =>
    intro cur x hx
    unfold splitWsAux at hx
    split at hx
    · cases hx
    · rename_i hne
      simp only [List.mem_singleton] at hx
      subst hx
      intro h
      have : cur = [] := by simpa using h
      rw [this] at hne; simp at hne
  | cons c t ih =>
    intro cur x hx
    unfold splitWsAux at hx
    split at hx
    · split at hx
      · exact ih [] x hx
      · rename_i hne
        rcases List.mem_cons.mp hx with h | h
        · subst h
          intro h
          have : cur = [] := by simpa using h
          rw [this] at hne; simp at hne
        · exact ih [] x h
    · exact ih (c :: cur) x hx

theorem parseHttp_ok (t : Bytes) : Ok (parseHttp t) := by
  simp only [parseHttp]
  split
  · exact ok_some _
  · rename_i hlen
    have hne : ∀ i, i < (splitWs t).length → 1 ≤ ((splitWs t).getD i []).length := by
      intro i hi
      have hmem : (splitWs t).getD i [] ∈ splitWs t := by
        have e : (splitWs t).getD i [] = (splitWs t)[i] := by simp [List.getD_eq_getElem?_getD, hi]
        rw [e]; exact List.getElem_mem hi
      have := splitWsAux_nonempty t [] _ hmem
      cases h : (splitWs t).getD i [] with
      | nil => exact absurd h this
      | cons a l => simp
    have h1 := hne 1 (by omega)
    obtain ⟨d, hd⟩ := parseInt_ok ((splitWs t).getD 1 []) 0 2 (by omega)
    obtain ⟨y, hy⟩ := parseInt_ok ((splitWs t).getD 3 []) 0 ((splitWs t).getD 3 []).length (by omega)
    simp only [hd, hy, Option.bind_some]
    split
    · exact ok_some _
    · split
      · exact ok_some _
      · rename_i h8
        have h8' : ((splitWs t).getD 4 []).length = 8 := by simpa using h8
        obtain ⟨c2, hc2⟩ := rd_ok ((splitWs t).getD 4 []) 2 (by omega)
        simp only [hc2, Option.bind_some]
        split
        · exact ok_some _
        · obtain ⟨c5, hc5⟩ := rd_ok ((splitWs t).getD 4 []) 5 (by omega)
          simp only [hc5, Option.bind_some]
          split
          · exact ok_some _
          · obtain ⟨h, hh⟩ := parseInt_ok ((splitWs t).getD 4 []) 0 2 (by omega)
            obtain ⟨m, hm⟩ := parseInt_ok ((splitWs t).getD 4 []) 3 2 (by omega)
            obtain ⟨s, hs⟩ := parseInt_ok ((splitWs t).getD 4 []) 6 2 (by omega)
            simp only [hh, hm, hs, Option.bind_some]
            exact ok_some _

theorem parse_ok (t : Bytes) : Ok (parse t) := by
  unfold parse
  obtain ⟨c0, h0⟩ := rd_ok t 0 (by omega)
  simp only [h0, Option.bind_some]
  split
  · exact parseHttp_ok t
  · exact parseIso_ok t


/-! ## the format-driven parser -/

theorem isCSpace_ne_zero (c : UInt8) (h : isCSpace c = true) : c ≠ 0 := by
  intro e; subst e; revert h; decide

theorem isDigit_ne_zero (c : UInt8) (h : isDigit c = true) : c ≠ 0 := by
  intro e; subst e; revert h; decide

theorem skipCSpace_ok (s : Bytes) : ∀ (fuel j : Nat), j ≤ s.length → ∃ j1, skipCSpace s fuel j = some j1 ∧ j1 ≤ s.length := by
  intro fuel
  induction fuel with
  | zero => intro j hj; exact ⟨j, rfl, hj⟩
  | succ f ih =>
    intro j hj
    obtain ⟨c, hc⟩ := rd_ok s j hj
    simp only [skipCSpace, hc, Option.bind_some]
    split
    · rename_i hsp
      exact ih (j + 1) (rd_lt s j c hc (isCSpace_ne_zero c hsp))
    · exact ⟨j, rfl, hj⟩

theorem atoiDigits_ok (s : Bytes) : ∀ (fuel j acc : Nat), j ≤ s.length → Ok (atoiDigits s fuel j acc) := by
  intro fuel
  induction fuel with
  | zero => intro j acc _; exact ok_some _
  | succ f ih =>
    intro j acc hj
    obtain ⟨c, hc⟩ := rd_ok s j hj
    simp only [atoiDigits, hc, Option.bind_some]
    split
    · rename_i hd
      exact ih (j + 1) _ (rd_lt s j c hc (isDigit_ne_zero c hd))
    · exact ok_some _

theorem atoi_ok (s : Bytes) (j : Nat) (hj : j ≤ s.length) : Ok (atoi s j) := by
  unfold atoi
  obtain ⟨j1, h1, hj1⟩ := skipCSpace_ok s (s.length + 1) j hj
  obtain ⟨c, hc⟩ := rd_ok s j1 hj1
  simp only [h1, hc, Option.bind_some]
  have hj2 : (if c = 45 ∨ c = 43 then j1 + 1 else j1) ≤ s.length := by
    split
    · rename_i h
      exact rd_lt s j1 c hc (by rcases h with h | h <;> rw [h] <;> decide)
    · exact hj1
  obtain ⟨v, hv⟩ := atoiDigits_ok s (s.length + 1) _ 0 hj2
  simp only [hv, Option.bind_some]
  exact ok_some _

theorem parseSkipNumber_ok (s : Bytes) (j : Nat) (hj : j ≤ s.length) :
    ∃ r, parseSkipNumber s j = some r ∧ r.2 ≤ s.length := by
  unfold parseSkipNumber
  obtain ⟨v, hv⟩ := atoi_ok s j hj
  obtain ⟨e, he, _, he2⟩ := skipDigits_ok s j hj
  simp only [hv, he, Option.bind_some]
  exact ⟨_, rfl, he2⟩

theorem parseFmtLoop_ok (s : Bytes) : ∀ (f : Bytes) (st : FmtState), st.pos ≤ s.length → Ok (parseFmtLoop s f st) := by
  intro f
  induction f with
  | nil => intro st _; exact ok_some _
  | cons c f ih =>
    intro st hst
    obtain ⟨r, hr, hr2⟩ := parseSkipNumber_ok s st.pos hst
    unfold parseFmtLoop
    simp only [hr, Option.bind_some]
    repeat' split
    all_goals first
      | exact ih _ hr2
      | skip
    obtain ⟨x, hx⟩ := rd_ok s st.pos hst
    simp only [hx, Option.bind_some]
    split
    · exact ok_some _
    · rename_i hne
      have hx0 : x ≠ 0 := by
        intro e; exact hne (Or.inl e)
      exact ih _ (rd_lt s st.pos x hx hx0)

/-- `Date(str, fmt)` never reads beyond the terminator of `str` (after the repair of the `?`/literal step) -/
theorem parseFmt_ok (s fmt : Bytes) : Ok (parseFmt s fmt) := by
  unfold parseFmt
  obtain ⟨r, hr⟩ := parseFmtLoop_ok s fmt { pos := 0 } (Nat.zero_le _)
  simp only [hr, Option.bind_some]
  cases r <;> exact ok_some _

end AslProofs.DateParse
