import AslProofs.EulerLemmas
/-!
# C20 — Euler angles: `rotateE` ∘ `eulerAngles` ∘ `rotateE` = `rotateE`, for all twelve axis orders

`Gen.M4.rotateX/Y/Z`, `rotateAxis`, `rotateE`, `eulerAngles` are regenerated from `Matrix4.h`; `cos`, `sin`, `atan2`,
`PI` are the law-free interface `Trig`, `sqrt` / `<` come from `Cmp`.  `TrigOK` and `CmpStd` list what is needed of them
(all true of the real functions, see the `example`s in `AslProps/C20.lean`).  The brute-force parts (the matrix entries
read by `eulerAngles`, and the composition lemmas that absorb the sign ambiguity `ε = ±1` of the extracted angles —
the triple `(α+π, π−β, γ+π)` describes the same rotation) are in `AslProofs/EulerLemmas.lean`.

`eulerAngles` computes `c = sqrt(…)` = `|cos β|` (three different axes) resp. `|sin β|` (first = third axis), takes the
middle angle from `atan2(±element, c)` resp. `atan2(c, element)`, and uses the general formulas iff `c > lim`.
-/
namespace AslProofs.Euler
open AslModel AslProofs.Matrix

set_option linter.unusedSimpArgs false
set_option linter.unusedSectionVars false

section euler
variable {R : Type} [Field R] [LinearOrder R] [IsStrictOrderedRing R]

/-- what the conversions need from the scalar type's trigonometric functions (all true of the real functions) -/
structure TrigOK (T : Trig R) : Prop where
  unit : ∀ x, T.cos x * T.cos x + T.sin x * T.sin x = 1
  atan2_spec : ∀ s c, (s ≠ 0 ∨ c ≠ 0) → ∃ ρ, 0 < ρ ∧ s = ρ * T.sin (T.atan2 s c) ∧ c = ρ * T.cos (T.atan2 s c)
  sin_zero : T.sin 0 = 0
  cos_zero : T.cos 0 = 1
  sin_neg : ∀ x, T.sin (-x) = -T.sin x
  cos_neg : ∀ x, T.cos (-x) = T.cos x

/-- what they need of `<`, `== 0`, `sqrt` -/
structure CmpStd (C : Cmp R) : Prop where
  lt : ∀ a b, C.lt a b = decide (a < b)
  eqz : ∀ x, C.eqz x = true ↔ x = 0
  sqrt : ∀ z, 0 ≤ z → 0 ≤ C.sqrt z ∧ C.sqrt z * C.sqrt z = z

theorem sqrt_sq {C : Cmp R} (hC : CmpStd C) (a : R) : C.sqrt (a * a) = |a| := by
  obtain ⟨h1, h2⟩ := hC.sqrt (a * a) (mul_self_nonneg a)
  rcases le_or_gt 0 a with h | h
  · rw [abs_of_nonneg h]
    rcases eq_or_lt_of_le h with e | e
    · rw [← e] at h2 ⊢
      have : C.sqrt (0 * 0) * C.sqrt (0 * 0) = 0 := by simpa using h2
      exact mul_self_eq_zero.mp this
    · exact pos_root_unique h1 e h2
  · rw [abs_of_neg h]
    exact pos_root_unique h1 (by linarith) (by rw [h2]; ring)

/-- `atan2` of a point of the unit circle returns an angle with exactly that sine and cosine -/
theorem atan2_unit {T : Trig R} (hT : TrigOK T) (s c : R) (h : c * c + s * s = 1) :
    T.sin (T.atan2 s c) = s ∧ T.cos (T.atan2 s c) = c := by
  have hne : s ≠ 0 ∨ c ≠ 0 := by
    by_contra hh
    push Not at hh
    rw [hh.1, hh.2] at h; norm_num at h
  obtain ⟨ρ, hρ, e1, e2⟩ := hT.atan2_spec s c hne
  have hu := hT.unit (T.atan2 s c)
  have hρ1 : ρ = 1 := by
    apply pos_root_unique (le_of_lt hρ) one_pos
    have : ρ * ρ * (T.cos (T.atan2 s c) * T.cos (T.atan2 s c) + T.sin (T.atan2 s c) * T.sin (T.atan2 s c)) = c * c + s * s := by
      linear_combination (-(ρ * T.sin (T.atan2 s c)) - s) * e1 + (-(ρ * T.cos (T.atan2 s c)) - c) * e2
    rw [hu, h] at this
    linear_combination this
  rw [hρ1, one_mul] at e1 e2
  exact ⟨e1.symm, e2.symm⟩

theorem atan2_scaled {T : Trig R} (hT : TrigOK T) (k sx cx : R) (hk : k ≠ 0) (hu : cx * cx + sx * sx = 1) :
    ∃ ρ, 0 < ρ ∧ ρ * ρ = k * k ∧ T.sin (T.atan2 (sx * k) (cx * k)) = (k / ρ) * sx ∧
      T.cos (T.atan2 (sx * k) (cx * k)) = (k / ρ) * cx := by
  have hne : sx * k ≠ 0 ∨ cx * k ≠ 0 := by
    by_contra h
    push Not at h
    obtain ⟨h1, h2⟩ := h
    have h1' : sx = 0 := by rcases mul_eq_zero.mp h1 with h | h; exact h; exact absurd h hk
    have h2' : cx = 0 := by rcases mul_eq_zero.mp h2 with h | h; exact h; exact absurd h hk
    rw [h1', h2'] at hu; norm_num at hu
  obtain ⟨ρ, hρ, e1, e2⟩ := hT.atan2_spec _ _ hne
  have hu2 := hT.unit (T.atan2 (sx * k) (cx * k))
  have hρ0 : ρ ≠ 0 := ne_of_gt hρ
  refine ⟨ρ, hρ, ?_, ?_, ?_⟩
  · have : ρ * ρ * (T.cos (T.atan2 (sx * k) (cx * k)) * T.cos (T.atan2 (sx * k) (cx * k)) + T.sin (T.atan2 (sx * k) (cx * k)) * T.sin (T.atan2 (sx * k) (cx * k))) = k * k * (cx * cx + sx * sx) := by
      linear_combination (-(ρ * T.sin (T.atan2 (sx * k) (cx * k))) - sx * k) * e1 + (-(ρ * T.cos (T.atan2 (sx * k) (cx * k))) - cx * k) * e2
    rw [hu2, hu] at this
    linear_combination this
  · rw [div_mul_eq_mul_div, eq_div_iff hρ0]
    linear_combination -e1
  · rw [div_mul_eq_mul_div, eq_div_iff hρ0]
    linear_combination -e2

/-- **Tait–Bryan orders, away from gimbal lock** (`|cos β| > lim ≥ 0`, the last angle is read from the small elements):
for every angle triple `r`, converting `rotateE(r)` to Euler angles and back gives the same rotation matrix -/
theorem euler_tb_roundtrip {T : Trig R} (hT : TrigOK T) {C : Cmp R} (hC : CmpStd C) (lim : R) (hlim : 0 ≤ lim) (r : V3 R)
    (a0 a1 a2 : Nat) (h0 : a0 < 3) (h1 : a1 < 3) (h2 : a2 < 3) (h01 : a0 ≠ a1) (h12 : a1 ≠ a2) (h02 : a0 ≠ a2)
    (hnd : lim < |T.cos r.y|) :
    toM4 (Gen.M4.rotateE (fld R) T
      (Gen.M4.eulerAngles (fld R) C T lim (Gen.M4.rotateE (fld R) T r a0 a1 a2) a0 a1 a2) a0 a1 a2) =
    toM4 (Gen.M4.rotateE (fld R) T r a0 a1 a2) := by
  obtain ⟨e1, -, -, e4, e5⟩ := tb_entries T r a0 a1 a2 h0 h1 h2 h01 h12 h02
  have hss := tbSign_sq (R := R) a0 a1
  have hs2 : (tbSign a0 a1 : R) * tbSign a0 a1 = 1 := by rcases hss with h | h <;> rw [h] <;> ring
  have hub := hT.unit r.y
  have huz := hT.unit r.z
  have hcb : T.cos r.y ≠ 0 := by
    intro h; rw [h, abs_zero] at hnd; linarith
  obtain ⟨ρ0, hρ0, hq0, hs0, hc0⟩ := atan2_scaled hT (T.cos r.y) (T.sin r.z) (T.cos r.z) hcb (hT.unit r.z)
  have hρabs : ρ0 = |T.cos r.y| :=
    pos_root_unique (le_of_lt hρ0) (abs_pos.mpr hcb) (by rw [hq0, abs_mul_abs_self])
  have hne : ρ0 ≠ 0 := ne_of_gt hρ0
  have hε : T.cos r.y / ρ0 = 1 ∨ T.cos r.y / ρ0 = -1 := by
    have : (T.cos r.y / ρ0) * (T.cos r.y / ρ0) = 1 := by
      field_simp; linear_combination -hq0
    exact mul_self_eq_one_iff.mp this
  -- the last rotation removed
  obtain ⟨hm1, hm2⟩ := tb_strip T hT.unit r (-(T.atan2 (T.sin r.z * T.cos r.y) (T.cos r.z * T.cos r.y))) (T.cos r.y / ρ0) hε
    (by rw [hT.sin_neg, hs0]) (by rw [hT.cos_neg, hc0]) a0 a1 a2 h0 h1 h2 h01 h12 h02
  set M := Gen.M4.rotateE (fld R) T r a0 a1 a2 with hM
  have hc : C.sqrt (M a0 a0 * M a0 a0 + M a0 a1 * M a0 a1) = |T.cos r.y| := by
    have : M a0 a0 * M a0 a0 + M a0 a1 * M a0 a1 = T.cos r.y * T.cos r.y := by
      have e4' : M a0 a1 * M a0 a1 = (T.sin r.z * T.cos r.y) * (T.sin r.z * T.cos r.y) := by
        rw [← e4]; linear_combination (M a0 a1 * M a0 a1) * (-hs2)
      rw [e4', e5]; linear_combination (T.cos r.y * T.cos r.y) * huz
    rw [this]; exact sqrt_sq hC _
  have hcond : C.lt lim |T.cos r.y| = true := by rw [hC.lt]; simpa using hnd
  have hE : Gen.M4.eulerAngles (fld R) C T lim M a0 a1 a2 =
      ⟨T.atan2 (T.cos r.y / ρ0 * T.sin r.x) (T.cos r.y / ρ0 * T.cos r.x), T.atan2 (T.sin r.y) |T.cos r.y|,
       T.atan2 (T.sin r.z * T.cos r.y) (T.cos r.z * T.cos r.y)⟩ := by
    unfold tbSign at e1 e4 hm1
    simp only [Gen.M4.eulerAngles, h02, ne_eq, not_false_eq_true, if_true, fld_mul, fld_add, fld_neg, fld_lit, Nat.cast_one, hc, hcond]
    simp only [e1, e4, e5, hm1, hm2]
  rw [hE]
  obtain ⟨ha1, ha2⟩ := atan2_unit hT (T.sin r.y) |T.cos r.y| (by rw [abs_mul_abs_self]; exact hub)
  obtain ⟨hx1, hx2⟩ := atan2_unit hT (T.cos r.y / ρ0 * T.sin r.x) (T.cos r.y / ρ0 * T.cos r.x) (by
    have hux := hT.unit r.x
    rcases hε with h | h <;> rw [h] <;> linear_combination hux)
  apply tb_compose T r _ (T.cos r.y / ρ0) hε ⟨hx1, hx2⟩ ⟨ha1, ?_⟩ ⟨hs0, hc0⟩ a0 a1 a2 h0 h1 h2 h01 h12 h02
  show T.cos (T.atan2 (T.sin r.y) |T.cos r.y|) = T.cos r.y / ρ0 * T.cos r.y
  rw [ha2, ← hρabs]
  field_simp
  linear_combination hq0

/-- **proper Euler orders (first axis = third axis), away from the lock** (`|sin β| > lim ≥ 0`) -/
theorem euler_pe_roundtrip {T : Trig R} (hT : TrigOK T) {C : Cmp R} (hC : CmpStd C) (lim : R) (hlim : 0 ≤ lim) (r : V3 R)
    (a0 a1 : Nat) (h0 : a0 < 3) (h1 : a1 < 3) (h01 : a0 ≠ a1) (hnd : lim < |T.sin r.y|) :
    toM4 (Gen.M4.rotateE (fld R) T
      (Gen.M4.eulerAngles (fld R) C T lim (Gen.M4.rotateE (fld R) T r a0 a1 a0) a0 a1 a0) a0 a1 a0) =
    toM4 (Gen.M4.rotateE (fld R) T r a0 a1 a0) := by
  obtain ⟨e1, e2, e3, e4, e5⟩ := pe_entries T r a0 a1 h0 h1 h01
  have hss := peSign_sq (R := R) a0 a1
  have hs2 : (peSign a0 a1 : R) * peSign a0 a1 = 1 := by rcases hss with h | h <;> rw [h] <;> ring
  have hub := hT.unit r.y
  have hux := hT.unit r.x
  have hsb : T.sin r.y ≠ 0 := by
    intro h; rw [h, abs_zero] at hnd; linarith
  obtain ⟨ρ0, hρ0, hq0, hs0, hc0⟩ := atan2_scaled hT (T.sin r.y) (T.sin r.z) (T.cos r.z) hsb (hT.unit r.z)
  have hρabs : ρ0 = |T.sin r.y| :=
    pos_root_unique (le_of_lt hρ0) (abs_pos.mpr hsb) (by rw [hq0, abs_mul_abs_self])
  have hne : ρ0 ≠ 0 := ne_of_gt hρ0
  have hε : T.sin r.y / ρ0 = 1 ∨ T.sin r.y / ρ0 = -1 := by
    have : (T.sin r.y / ρ0) * (T.sin r.y / ρ0) = 1 := by
      field_simp; linear_combination -hq0
    exact mul_self_eq_one_iff.mp this
  obtain ⟨hm1, hm2⟩ := pe_strip T hT.unit r (-(T.atan2 (T.sin r.z * T.sin r.y) (T.cos r.z * T.sin r.y))) (T.sin r.y / ρ0) hε
    (by rw [hT.sin_neg, hs0]) (by rw [hT.cos_neg, hc0]) a0 a1 h0 h1 h01
  set M := Gen.M4.rotateE (fld R) T r a0 a1 a0 with hM
  have hc : C.sqrt (M a1 a0 * M a1 a0 + M (3 - a0 - a1) a0 * M (3 - a0 - a1) a0) = |T.sin r.y| := by
    have : M a1 a0 * M a1 a0 + M (3 - a0 - a1) a0 * M (3 - a0 - a1) a0 = T.sin r.y * T.sin r.y := by
      have e3' : M (3 - a0 - a1) a0 * M (3 - a0 - a1) a0 = (T.cos r.x * T.sin r.y) * (T.cos r.x * T.sin r.y) := by
        rw [← e3]; linear_combination (M (3 - a0 - a1) a0 * M (3 - a0 - a1) a0) * (-hs2)
      rw [e3', e2]; linear_combination (T.sin r.y * T.sin r.y) * hux
    rw [this]; exact sqrt_sq hC _
  have hcond : C.lt lim |T.sin r.y| = true := by rw [hC.lt]; simpa using hnd
  have hE : Gen.M4.eulerAngles (fld R) C T lim M a0 a1 a0 =
      ⟨T.atan2 (T.sin r.y / ρ0 * T.sin r.x) (T.sin r.y / ρ0 * T.cos r.x), T.atan2 |T.sin r.y| (T.cos r.y),
       T.atan2 (T.sin r.z * T.sin r.y) (T.cos r.z * T.sin r.y)⟩ := by
    unfold peSign at e5 hm1
    simp only [Gen.M4.eulerAngles, ne_eq, not_true_eq_false, if_false, fld_mul, fld_add, fld_neg, fld_lit, Nat.cast_one,
      hc, hcond, if_true]
    simp only [e1, e4, e5, hm1, hm2]
  rw [hE]
  obtain ⟨ha1, ha2⟩ := atan2_unit hT |T.sin r.y| (T.cos r.y) (by rw [abs_mul_abs_self]; exact hub)
  obtain ⟨hx1, hx2⟩ := atan2_unit hT (T.sin r.y / ρ0 * T.sin r.x) (T.sin r.y / ρ0 * T.cos r.x) (by
    rcases hε with h | h <;> rw [h] <;> linear_combination hux)
  apply pe_compose T r _ (T.sin r.y / ρ0) hε ⟨hx1, hx2⟩ ⟨?_, ha2⟩ ⟨hs0, hc0⟩ a0 a1 h0 h1 h01
  show T.sin (T.atan2 |T.sin r.y| (T.cos r.y)) = T.sin r.y / ρ0 * T.sin r.y
  rw [ha1, ← hρabs]
  field_simp
  linear_combination hq0

/-- **Tait–Bryan orders exactly on the gimbal lock** (`cos β = 0`, last angle set to 0): the rotation is reproduced -/
theorem euler_tb_locked {T : Trig R} (hT : TrigOK T) {C : Cmp R} (hC : CmpStd C) (lim : R) (hlim : 0 ≤ lim) (r : V3 R)
    (a0 a1 a2 : Nat) (h0 : a0 < 3) (h1 : a1 < 3) (h2 : a2 < 3) (h01 : a0 ≠ a1) (h12 : a1 ≠ a2) (h02 : a0 ≠ a2)
    (hc : T.cos r.y = 0) :
    toM4 (Gen.M4.rotateE (fld R) T
      (Gen.M4.eulerAngles (fld R) C T lim (Gen.M4.rotateE (fld R) T r a0 a1 a2) a0 a1 a2) a0 a1 a2) =
    toM4 (Gen.M4.rotateE (fld R) T r a0 a1 a2) := by
  have hub := hT.unit r.y
  have hσ : T.sin r.y = 1 ∨ T.sin r.y = -1 := by
    rw [hc] at hub
    exact mul_self_eq_one_iff.mp (by linear_combination hub)
  obtain ⟨e1, -, -, e4, e5⟩ := tb_entries T r a0 a1 a2 h0 h1 h2 h01 h12 h02
  have hψs : T.sin (-(0 : R)) = 0 := by rw [neg_zero]; exact hT.sin_zero
  have hψc : T.cos (-(0 : R)) = 1 := by rw [neg_zero]; exact hT.cos_zero
  have hcirc := tb_lock2_entries T hT.unit r (T.sin r.y) (-(0 : R)) hσ rfl hc hψs hψc a0 a1 a2 h0 h1 h2 h01 h12 h02
  have hss := tbSign_sq (R := R) a0 a1
  have hs2 : (tbSign a0 a1 : R) * tbSign a0 a1 = 1 := by rcases hss with h | h <;> rw [h] <;> ring
  set M := Gen.M4.rotateE (fld R) T r a0 a1 a2 with hM
  set m := Gen.M4.mul (fld R) M (Gen.M4.rotateAxis (fld R) T a2 (-(0 : R))) with hm
  have h00 : M a0 a0 = 0 := by rw [e5, hc]; ring
  have h01' : M a0 a1 = 0 := by
    have : (tbSign a0 a1 : R) * M a0 a1 = 0 := by rw [e4, hc]; ring
    rcases hss with h | h <;> rw [h] at this <;> linarith
  have hs0 : C.sqrt 0 = 0 := by
    obtain ⟨_, h2'⟩ := hC.sqrt 0 (le_refl _)
    exact mul_self_eq_zero.mp h2'
  have hcond : C.lt lim 0 = false := by rw [hC.lt]; simpa using hlim
  obtain ⟨q1, q2⟩ := atan2_unit hT (-(tbSign a0 a1 : R) * m a2 a1) (m a1 a1) (by linear_combination hcirc + (m a2 a1 * m a2 a1) * hs2)
  obtain ⟨p1, p2⟩ := atan2_unit hT (T.sin r.y) 0 (by rcases hσ with h | h <;> rw [h] <;> ring)
  have hE : Gen.M4.eulerAngles (fld R) C T lim M a0 a1 a2 =
      ⟨T.atan2 (-(tbSign a0 a1 : R) * m a2 a1) (m a1 a1), T.atan2 (T.sin r.y) 0, 0⟩ := by
    unfold tbSign at e1 ⊢
    simp only [Gen.M4.eulerAngles, h02, ne_eq, not_false_eq_true, if_true, fld_mul, fld_add, fld_neg, fld_lit, Nat.cast_one, Nat.cast_zero,
      h00, h01', mul_zero, add_zero, hs0, hcond, Bool.false_eq_true, if_false, e1, ← hm]
  rw [hE]
  exact tb_lock2_compose T r _ (T.sin r.y) (-(0 : R)) hσ rfl hc hψs hψc a0 a1 a2 h0 h1 h2 h01 h12 h02 ⟨q1, q2⟩ ⟨p1, p2⟩
    ⟨hT.sin_zero, hT.cos_zero⟩

/-- **proper Euler orders exactly on the lock** (`sin β = 0`) -/
theorem euler_pe_locked {T : Trig R} (hT : TrigOK T) {C : Cmp R} (hC : CmpStd C) (lim : R) (hlim : 0 ≤ lim) (r : V3 R)
    (a0 a1 : Nat) (h0 : a0 < 3) (h1 : a1 < 3) (h01 : a0 ≠ a1) (hs : T.sin r.y = 0) :
    toM4 (Gen.M4.rotateE (fld R) T
      (Gen.M4.eulerAngles (fld R) C T lim (Gen.M4.rotateE (fld R) T r a0 a1 a0) a0 a1 a0) a0 a1 a0) =
    toM4 (Gen.M4.rotateE (fld R) T r a0 a1 a0) := by
  have hub := hT.unit r.y
  have hσ : T.cos r.y = 1 ∨ T.cos r.y = -1 := by
    rw [hs] at hub
    exact mul_self_eq_one_iff.mp (by linear_combination hub)
  obtain ⟨e1, e2, e3, -, -⟩ := pe_entries T r a0 a1 h0 h1 h01
  have hψs : T.sin (-(0 : R)) = 0 := by rw [neg_zero]; exact hT.sin_zero
  have hψc : T.cos (-(0 : R)) = 1 := by rw [neg_zero]; exact hT.cos_zero
  have hcirc := pe_lock2_entries T hT.unit r (T.cos r.y) (-(0 : R)) hσ hs rfl hψs hψc a0 a1 h0 h1 h01
  have hss := peSign_sq (R := R) a0 a1
  have hs2 : (peSign a0 a1 : R) * peSign a0 a1 = 1 := by rcases hss with h | h <;> rw [h] <;> ring
  set M := Gen.M4.rotateE (fld R) T r a0 a1 a0 with hM
  set m := Gen.M4.mul (fld R) M (Gen.M4.rotateAxis (fld R) T a0 (-(0 : R))) with hm
  have h10 : M a1 a0 = 0 := by rw [e2, hs]; ring
  have hk0 : M (3 - a0 - a1) a0 = 0 := by
    have : (-(peSign a0 a1 : R)) * M (3 - a0 - a1) a0 = 0 := by rw [e3, hs]; ring
    rcases hss with h | h <;> rw [h] at this <;> linarith
  have hs0 : C.sqrt 0 = 0 := by
    obtain ⟨_, h2'⟩ := hC.sqrt 0 (le_refl _)
    exact mul_self_eq_zero.mp h2'
  have hcond : C.lt lim 0 = false := by rw [hC.lt]; simpa using hlim
  obtain ⟨q1, q2⟩ := atan2_unit hT ((peSign a0 a1 : R) * m (3 - a0 - a1) a1) (m a1 a1)
    (by linear_combination hcirc + (m (3 - a0 - a1) a1 * m (3 - a0 - a1) a1) * hs2)
  obtain ⟨p1, p2⟩ := atan2_unit hT 0 (T.cos r.y) (by rcases hσ with h | h <;> rw [h] <;> ring)
  have hE : Gen.M4.eulerAngles (fld R) C T lim M a0 a1 a0 =
      ⟨T.atan2 ((peSign a0 a1 : R) * m (3 - a0 - a1) a1) (m a1 a1), T.atan2 0 (T.cos r.y), 0⟩ := by
    unfold peSign
    simp only [Gen.M4.eulerAngles, ne_eq, not_true_eq_false, if_false, fld_mul, fld_add, fld_neg, fld_lit, Nat.cast_one, Nat.cast_zero,
      h10, hk0, mul_zero, add_zero, hs0, hcond, Bool.false_eq_true, e1, ← hm]
  rw [hE]
  exact pe_lock2_compose T r _ (T.cos r.y) (-(0 : R)) hσ hs rfl hψs hψc a0 a1 h0 h1 h01 ⟨q1, q2⟩ ⟨p1, p2⟩
    ⟨hT.sin_zero, hT.cos_zero⟩

end euler

end AslProofs.Euler
