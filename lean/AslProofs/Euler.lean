import AslProofs.Matrix
import Mathlib.Tactic.IntervalCases
import Gen.EulerGen
/-!
# C20 — Euler angles: `rotateE` ∘ `eulerAngles` ∘ `rotateE` = `rotateE`, for all twelve axis orders

`Gen.M4.rotateX/Y/Z`, `rotateAxis`, `rotateE`, `eulerAngles` are regenerated from `Matrix4.h`; `cos`, `sin`, `asin`,
`acos`, `atan2`, `PI` are the law-free interface `Trig`.  `TrigOK` lists what is needed of them (all true of the real
functions, see the `example` in `AslProps/C20.lean`).  The proofs enumerate the axis orders and the 16 matrix entries
and close each entry with `ring`; the sign ambiguity `ε = ±1` of `(sin, cos)` of the extracted angles
(the triple `(α+π, π−β, γ+π)` describes the same rotation) is handled by `tb_compose` / `pe_compose`.
-/
namespace AslProofs.Euler
open AslModel AslProofs.Matrix

set_option linter.unusedSimpArgs false
set_option linter.unusedSectionVars false
set_option linter.unusedTactic false
set_option linter.unreachableTactic false

section entries
variable {R : Type} [Field R]
@[simp] theorem rotateX_00 (T : Trig R) (x : R) : Gen.M4.rotateX (fld R) T x 0 0 = 1 := by simp [Gen.M4.rotateX, ofRows]
@[simp] theorem rotateX_01 (T : Trig R) (x : R) : Gen.M4.rotateX (fld R) T x 0 1 = 0 := by simp [Gen.M4.rotateX, ofRows]
@[simp] theorem rotateX_02 (T : Trig R) (x : R) : Gen.M4.rotateX (fld R) T x 0 2 = 0 := by simp [Gen.M4.rotateX, ofRows]
@[simp] theorem rotateX_03 (T : Trig R) (x : R) : Gen.M4.rotateX (fld R) T x 0 3 = 0 := by simp [Gen.M4.rotateX, ofRows]
@[simp] theorem rotateX_10 (T : Trig R) (x : R) : Gen.M4.rotateX (fld R) T x 1 0 = 0 := by simp [Gen.M4.rotateX, ofRows]
@[simp] theorem rotateX_11 (T : Trig R) (x : R) : Gen.M4.rotateX (fld R) T x 1 1 = T.cos x := by simp [Gen.M4.rotateX, ofRows]
@[simp] theorem rotateX_12 (T : Trig R) (x : R) : Gen.M4.rotateX (fld R) T x 1 2 = -T.sin x := by simp [Gen.M4.rotateX, ofRows]
@[simp] theorem rotateX_13 (T : Trig R) (x : R) : Gen.M4.rotateX (fld R) T x 1 3 = 0 := by simp [Gen.M4.rotateX, ofRows]
@[simp] theorem rotateX_20 (T : Trig R) (x : R) : Gen.M4.rotateX (fld R) T x 2 0 = 0 := by simp [Gen.M4.rotateX, ofRows]
@[simp] theorem rotateX_21 (T : Trig R) (x : R) : Gen.M4.rotateX (fld R) T x 2 1 = T.sin x := by simp [Gen.M4.rotateX, ofRows]
@[simp] theorem rotateX_22 (T : Trig R) (x : R) : Gen.M4.rotateX (fld R) T x 2 2 = T.cos x := by simp [Gen.M4.rotateX, ofRows]
@[simp] theorem rotateX_23 (T : Trig R) (x : R) : Gen.M4.rotateX (fld R) T x 2 3 = 0 := by simp [Gen.M4.rotateX, ofRows]
@[simp] theorem rotateX_30 (T : Trig R) (x : R) : Gen.M4.rotateX (fld R) T x 3 0 = 0 := by simp [Gen.M4.rotateX, ofRows]
@[simp] theorem rotateX_31 (T : Trig R) (x : R) : Gen.M4.rotateX (fld R) T x 3 1 = 0 := by simp [Gen.M4.rotateX, ofRows]
@[simp] theorem rotateX_32 (T : Trig R) (x : R) : Gen.M4.rotateX (fld R) T x 3 2 = 0 := by simp [Gen.M4.rotateX, ofRows]
@[simp] theorem rotateX_33 (T : Trig R) (x : R) : Gen.M4.rotateX (fld R) T x 3 3 = 1 := by simp [Gen.M4.rotateX, ofRows]
@[simp] theorem rotateY_00 (T : Trig R) (x : R) : Gen.M4.rotateY (fld R) T x 0 0 = T.cos x := by simp [Gen.M4.rotateY, ofRows]
@[simp] theorem rotateY_01 (T : Trig R) (x : R) : Gen.M4.rotateY (fld R) T x 0 1 = 0 := by simp [Gen.M4.rotateY, ofRows]
@[simp] theorem rotateY_02 (T : Trig R) (x : R) : Gen.M4.rotateY (fld R) T x 0 2 = T.sin x := by simp [Gen.M4.rotateY, ofRows]
@[simp] theorem rotateY_03 (T : Trig R) (x : R) : Gen.M4.rotateY (fld R) T x 0 3 = 0 := by simp [Gen.M4.rotateY, ofRows]
@[simp] theorem rotateY_10 (T : Trig R) (x : R) : Gen.M4.rotateY (fld R) T x 1 0 = 0 := by simp [Gen.M4.rotateY, ofRows]
@[simp] theorem rotateY_11 (T : Trig R) (x : R) : Gen.M4.rotateY (fld R) T x 1 1 = 1 := by simp [Gen.M4.rotateY, ofRows]
@[simp] theorem rotateY_12 (T : Trig R) (x : R) : Gen.M4.rotateY (fld R) T x 1 2 = 0 := by simp [Gen.M4.rotateY, ofRows]
@[simp] theorem rotateY_13 (T : Trig R) (x : R) : Gen.M4.rotateY (fld R) T x 1 3 = 0 := by simp [Gen.M4.rotateY, ofRows]
@[simp] theorem rotateY_20 (T : Trig R) (x : R) : Gen.M4.rotateY (fld R) T x 2 0 = -T.sin x := by simp [Gen.M4.rotateY, ofRows]
@[simp] theorem rotateY_21 (T : Trig R) (x : R) : Gen.M4.rotateY (fld R) T x 2 1 = 0 := by simp [Gen.M4.rotateY, ofRows]
@[simp] theorem rotateY_22 (T : Trig R) (x : R) : Gen.M4.rotateY (fld R) T x 2 2 = T.cos x := by simp [Gen.M4.rotateY, ofRows]
@[simp] theorem rotateY_23 (T : Trig R) (x : R) : Gen.M4.rotateY (fld R) T x 2 3 = 0 := by simp [Gen.M4.rotateY, ofRows]
@[simp] theorem rotateY_30 (T : Trig R) (x : R) : Gen.M4.rotateY (fld R) T x 3 0 = 0 := by simp [Gen.M4.rotateY, ofRows]
@[simp] theorem rotateY_31 (T : Trig R) (x : R) : Gen.M4.rotateY (fld R) T x 3 1 = 0 := by simp [Gen.M4.rotateY, ofRows]
@[simp] theorem rotateY_32 (T : Trig R) (x : R) : Gen.M4.rotateY (fld R) T x 3 2 = 0 := by simp [Gen.M4.rotateY, ofRows]
@[simp] theorem rotateY_33 (T : Trig R) (x : R) : Gen.M4.rotateY (fld R) T x 3 3 = 1 := by simp [Gen.M4.rotateY, ofRows]
@[simp] theorem rotateZ_00 (T : Trig R) (x : R) : Gen.M4.rotateZ (fld R) T x 0 0 = T.cos x := by simp [Gen.M4.rotateZ, ofRows]
@[simp] theorem rotateZ_01 (T : Trig R) (x : R) : Gen.M4.rotateZ (fld R) T x 0 1 = -T.sin x := by simp [Gen.M4.rotateZ, ofRows]
@[simp] theorem rotateZ_02 (T : Trig R) (x : R) : Gen.M4.rotateZ (fld R) T x 0 2 = 0 := by simp [Gen.M4.rotateZ, ofRows]
@[simp] theorem rotateZ_03 (T : Trig R) (x : R) : Gen.M4.rotateZ (fld R) T x 0 3 = 0 := by simp [Gen.M4.rotateZ, ofRows]
@[simp] theorem rotateZ_10 (T : Trig R) (x : R) : Gen.M4.rotateZ (fld R) T x 1 0 = T.sin x := by simp [Gen.M4.rotateZ, ofRows]
@[simp] theorem rotateZ_11 (T : Trig R) (x : R) : Gen.M4.rotateZ (fld R) T x 1 1 = T.cos x := by simp [Gen.M4.rotateZ, ofRows]
@[simp] theorem rotateZ_12 (T : Trig R) (x : R) : Gen.M4.rotateZ (fld R) T x 1 2 = 0 := by simp [Gen.M4.rotateZ, ofRows]
@[simp] theorem rotateZ_13 (T : Trig R) (x : R) : Gen.M4.rotateZ (fld R) T x 1 3 = 0 := by simp [Gen.M4.rotateZ, ofRows]
@[simp] theorem rotateZ_20 (T : Trig R) (x : R) : Gen.M4.rotateZ (fld R) T x 2 0 = 0 := by simp [Gen.M4.rotateZ, ofRows]
@[simp] theorem rotateZ_21 (T : Trig R) (x : R) : Gen.M4.rotateZ (fld R) T x 2 1 = 0 := by simp [Gen.M4.rotateZ, ofRows]
@[simp] theorem rotateZ_22 (T : Trig R) (x : R) : Gen.M4.rotateZ (fld R) T x 2 2 = 1 := by simp [Gen.M4.rotateZ, ofRows]
@[simp] theorem rotateZ_23 (T : Trig R) (x : R) : Gen.M4.rotateZ (fld R) T x 2 3 = 0 := by simp [Gen.M4.rotateZ, ofRows]
@[simp] theorem rotateZ_30 (T : Trig R) (x : R) : Gen.M4.rotateZ (fld R) T x 3 0 = 0 := by simp [Gen.M4.rotateZ, ofRows]
@[simp] theorem rotateZ_31 (T : Trig R) (x : R) : Gen.M4.rotateZ (fld R) T x 3 1 = 0 := by simp [Gen.M4.rotateZ, ofRows]
@[simp] theorem rotateZ_32 (T : Trig R) (x : R) : Gen.M4.rotateZ (fld R) T x 3 2 = 0 := by simp [Gen.M4.rotateZ, ofRows]
@[simp] theorem rotateZ_33 (T : Trig R) (x : R) : Gen.M4.rotateZ (fld R) T x 3 3 = 1 := by simp [Gen.M4.rotateZ, ofRows]
@[simp] theorem rotateAxis_0 (T : Trig R) (x : R) : Gen.M4.rotateAxis (fld R) T 0 x = Gen.M4.rotateX (fld R) T x := by simp [Gen.M4.rotateAxis]
@[simp] theorem rotateAxis_1 (T : Trig R) (x : R) : Gen.M4.rotateAxis (fld R) T 1 x = Gen.M4.rotateY (fld R) T x := by simp [Gen.M4.rotateAxis]
@[simp] theorem rotateAxis_2 (T : Trig R) (x : R) : Gen.M4.rotateAxis (fld R) T 2 x = Gen.M4.rotateZ (fld R) T x := by simp [Gen.M4.rotateAxis]

end entries

section euler
variable {R : Type} [Field R] [LinearOrder R] [IsStrictOrderedRing R]

/-- sign used by `eulerAngles` for the Tait–Bryan orders -/
def tbSign (a0 a1 : Nat) : R := if (a1 + 3 - a0) % 3 = 1 then -1 else 1

set_option maxHeartbeats 4000000 in
theorem tb_entries (T : Trig R) (r : V3 R) (a0 a1 a2 : Nat) (h0 : a0 < 3) (h1 : a1 < 3) (h2 : a2 < 3)
    (h01 : a0 ≠ a1) (h12 : a1 ≠ a2) (h02 : a0 ≠ a2) :
    let M := Gen.M4.rotateE (fld R) T r a0 a1 a2
    (-(tbSign a0 a1 : R)) * M a0 a2 = T.sin r.y ∧
    tbSign a0 a1 * M a1 a2 = T.sin r.x * T.cos r.y ∧ M a2 a2 = T.cos r.x * T.cos r.y ∧
    tbSign a0 a1 * M a0 a1 = T.sin r.z * T.cos r.y ∧ M a0 a0 = T.cos r.z * T.cos r.y := by
  interval_cases a0 <;> interval_cases a1 <;> interval_cases a2 <;> simp at h01 h12 h02 <;>
    simp [tbSign, Gen.M4.rotateE, Gen.M4.rotateAxis, Gen.M4.rotateX, Gen.M4.rotateY, Gen.M4.rotateZ, Gen.M4.mul, Gen.M4.mulEntry, ofRows] <;>
    (split_ands <;> ring)

set_option maxHeartbeats 8000000 in
theorem tb_compose (T : Trig R) (r r' : V3 R) (ε : R) (hε : ε = 1 ∨ ε = -1)
    (hx : T.sin r'.x = ε * T.sin r.x ∧ T.cos r'.x = ε * T.cos r.x)
    (hy : T.sin r'.y = T.sin r.y ∧ T.cos r'.y = ε * T.cos r.y)
    (hz : T.sin r'.z = ε * T.sin r.z ∧ T.cos r'.z = ε * T.cos r.z)
    (a0 a1 a2 : Nat) (h0 : a0 < 3) (h1 : a1 < 3) (h2 : a2 < 3) (h01 : a0 ≠ a1) (h12 : a1 ≠ a2) (h02 : a0 ≠ a2) :
    toM4 (Gen.M4.rotateE (fld R) T r' a0 a1 a2) = toM4 (Gen.M4.rotateE (fld R) T r a0 a1 a2) := by
  obtain ⟨hx1, hx2⟩ := hx
  obtain ⟨hy1, hy2⟩ := hy
  obtain ⟨hz1, hz2⟩ := hz
  rcases hε with rfl | rfl
  · simp only [one_mul] at hx1 hx2 hy2 hz1 hz2
    simp only [Gen.M4.rotateE, Gen.M4.rotateAxis, Gen.M4.rotateX, Gen.M4.rotateY, Gen.M4.rotateZ, hx1, hx2, hy1, hy2, hz1, hz2]
  · ext i j
    interval_cases a0 <;> interval_cases a1 <;> interval_cases a2 <;> simp at h01 h12 h02 <;>
      fin_cases i <;> fin_cases j <;>
      simp [toM4, Gen.M4.rotateE, Gen.M4.mul, Gen.M4.mulEntry, hx1, hx2, hy1, hy2, hz1, hz2] <;> ring

/-- what the conversions need from the scalar type's trigonometric functions (all true of the real functions) -/
structure TrigOK (T : Trig R) : Prop where
  unit : ∀ x, T.cos x * T.cos x + T.sin x * T.sin x = 1
  asin_spec : ∀ y, -1 ≤ y → y ≤ 1 → T.sin (T.asin y) = y ∧ 0 ≤ T.cos (T.asin y)
  acos_spec : ∀ y, -1 ≤ y → y ≤ 1 → T.cos (T.acos y) = y ∧ 0 ≤ T.sin (T.acos y)
  atan2_spec : ∀ s c, (s ≠ 0 ∨ c ≠ 0) → ∃ ρ, 0 < ρ ∧ s = ρ * T.sin (T.atan2 s c) ∧ c = ρ * T.cos (T.atan2 s c)
  sin_zero : T.sin 0 = 0
  cos_zero : T.cos 0 = 1
  sin_neg : ∀ x, T.sin (-x) = -T.sin x
  cos_neg : ∀ x, T.cos (-x) = T.cos x
  sin_half_pi : T.sin (T.pi / 2) = 1
  cos_half_pi : T.cos (T.pi / 2) = 0
  sin_pi : T.sin T.pi = 0
  cos_pi : T.cos T.pi = -1

theorem pos_root_unique {a b : R} (ha : 0 ≤ a) (hb : 0 < b) (h : a * a = b * b) : a = b := by
  have : (a - b) * (a + b) = 0 := by linear_combination h
  rcases mul_eq_zero.mp this with h1 | h1
  · linarith
  · linarith

theorem atan2_scaled {T : Trig R} (hT : TrigOK T) (k sx cx : R) (hk : k ≠ 0) (hu : cx * cx + sx * sx = 1) :
    ∃ ρ, 0 < ρ ∧ ρ * ρ = k * k ∧ T.sin (T.atan2 (sx * k) (cx * k)) = (k / ρ) * sx ∧
      T.cos (T.atan2 (sx * k) (cx * k)) = (k / ρ) * cx := by
  have hne : sx * k ≠ 0 ∨ cx * k ≠ 0 := by
    by_contra h
    push Not at h
    obtain ⟨h1, h2⟩ := h
    have h1' : sx = 0 := by rcases mul_eq_zero.mp h1 with h | h; exact h; exact absurd h hk
    have h2' : cx = 0 := by rcases mul_eq_zero.mp h2 with h | h; exact h; exact absurd h hk
    rw [h1', h2'] at hu; norm_num at hu
  obtain ⟨ρ, hρ, e1, e2⟩ := hT.atan2_spec _ _ hne
  have hu2 := hT.unit (T.atan2 (sx * k) (cx * k))
  have hρ0 : ρ ≠ 0 := ne_of_gt hρ
  refine ⟨ρ, hρ, ?_, ?_, ?_⟩
  · have : ρ * ρ * (T.cos (T.atan2 (sx * k) (cx * k)) * T.cos (T.atan2 (sx * k) (cx * k)) + T.sin (T.atan2 (sx * k) (cx * k)) * T.sin (T.atan2 (sx * k) (cx * k))) = k * k * (cx * cx + sx * sx) := by
      linear_combination (-(ρ * T.sin (T.atan2 (sx * k) (cx * k))) - sx * k) * e1 + (-(ρ * T.cos (T.atan2 (sx * k) (cx * k))) - cx * k) * e2
    rw [hu2, hu] at this
    linear_combination this
  · rw [div_mul_eq_mul_div, eq_div_iff hρ0]
    linear_combination -e1
  · rw [div_mul_eq_mul_div, eq_div_iff hρ0]
    linear_combination -e2


theorem tbSign_sq (a0 a1 : Nat) : (tbSign a0 a1 : R) = 1 ∨ (tbSign a0 a1 : R) = -1 := by
  unfold tbSign; split <;> simp

/-- **Tait–Bryan orders, away from gimbal lock**: for every angle triple `r` (any values) whose middle angle is not
within the lock threshold, converting `rotateE(r)` to Euler angles and back gives the same rotation matrix -/
theorem euler_tb_roundtrip {T : Trig R} (hT : TrigOK T) (C : Cmp R) (hlt : ∀ a b, C.lt a b = decide (a < b))
    (habs : ∀ x, C.abs x = |x|) (lim : R) (hlim : lim ≤ 1) (r : V3 R)
    (a0 a1 a2 : Nat) (h0 : a0 < 3) (h1 : a1 < 3) (h2 : a2 < 3) (h01 : a0 ≠ a1) (h12 : a1 ≠ a2) (h02 : a0 ≠ a2)
    (hnd : |T.sin r.y| < lim) :
    toM4 (Gen.M4.rotateE (fld R) T
      (Gen.M4.eulerAngles (fld R) C T lim (Gen.M4.rotateE (fld R) T r a0 a1 a2) a0 a1 a2) a0 a1 a2) =
    toM4 (Gen.M4.rotateE (fld R) T r a0 a1 a2) := by
  obtain ⟨e1, e2, e3, e4, e5⟩ := tb_entries T r a0 a1 a2 h0 h1 h2 h01 h12 h02
  set M := Gen.M4.rotateE (fld R) T r a0 a1 a2 with hM
  have habsM : |M a0 a2| = |T.sin r.y| := by
    rw [← e1]
    rcases tbSign_sq (R := R) a0 a1 with h | h <;> rw [h] <;> simp
  have hcond : C.lt (C.abs (M a0 a2)) lim = true := by
    rw [hlt, habs, habsM]; simpa using hnd
  have hE : Gen.M4.eulerAngles (fld R) C T lim M a0 a1 a2 =
      ⟨T.atan2 (T.sin r.x * T.cos r.y) (T.cos r.x * T.cos r.y), T.asin (T.sin r.y),
       T.atan2 (T.sin r.z * T.cos r.y) (T.cos r.z * T.cos r.y)⟩ := by
    unfold tbSign at e1 e2 e4
    simp only [Gen.M4.eulerAngles, h02, ne_eq, not_false_eq_true, if_true, hcond, fld_mul, fld_neg, fld_lit, Nat.cast_one, e1, e2, e3, e4, e5]
  rw [hE]
  -- the trigonometric values of the extracted angles
  have hub := hT.unit r.y
  have hsb : T.sin r.y * T.sin r.y < 1 := by
    have h1 : |T.sin r.y| < 1 := lt_of_lt_of_le hnd hlim
    have := abs_lt.mp h1
    nlinarith [this.1, this.2]
  have hcb : T.cos r.y ≠ 0 := by
    intro h; rw [h] at hub; nlinarith
  have hsb' : -1 ≤ T.sin r.y ∧ T.sin r.y ≤ 1 := by
    have h1 : |T.sin r.y| < 1 := lt_of_lt_of_le hnd hlim
    have := abs_lt.mp h1
    exact ⟨le_of_lt this.1, le_of_lt this.2⟩
  obtain ⟨ha1, ha2⟩ := hT.asin_spec (T.sin r.y) hsb'.1 hsb'.2
  obtain ⟨ρ2, hρ2, hq2, hs2, hc2⟩ := atan2_scaled hT (T.cos r.y) (T.sin r.x) (T.cos r.x) hcb (hT.unit r.x)
  obtain ⟨ρ0, hρ0, hq0, hs0, hc0⟩ := atan2_scaled hT (T.cos r.y) (T.sin r.z) (T.cos r.z) hcb (hT.unit r.z)
  have hρ : ρ0 = ρ2 := pos_root_unique (le_of_lt hρ0) hρ2 (by rw [hq0, hq2])
  subst hρ
  have hu1 := hT.unit (T.asin (T.sin r.y))
  have hc1 : T.cos (T.asin (T.sin r.y)) = ρ0 := by
    apply pos_root_unique ha2 hρ0
    rw [hq0]
    rw [ha1] at hu1
    linear_combination hu1 - hub
  have hε : T.cos r.y / ρ0 = 1 ∨ T.cos r.y / ρ0 = -1 := by
    have hne : ρ0 ≠ 0 := ne_of_gt hρ0
    have : (T.cos r.y / ρ0) * (T.cos r.y / ρ0) = 1 := by
      field_simp; linear_combination -hq0
    exact mul_self_eq_one_iff.mp this
  apply tb_compose T r _ (T.cos r.y / ρ0) hε ⟨hs2, hc2⟩ ⟨ha1, ?_⟩ ⟨hs0, hc0⟩ a0 a1 a2 h0 h1 h2 h01 h12 h02
  show T.cos (T.asin (T.sin r.y)) = T.cos r.y / ρ0 * T.cos r.y
  rw [hc1]
  have hne : ρ0 ≠ 0 := ne_of_gt hρ0
  field_simp
  linear_combination hq0


/-- sign used by `eulerAngles` for the proper Euler orders (first axis = third axis) -/
def peSign (a0 a1 : Nat) : R := if (a1 + 3 - a0) % 3 = 2 then -1 else 1

theorem peSign_sq (a0 a1 : Nat) : (peSign a0 a1 : R) = 1 ∨ (peSign a0 a1 : R) = -1 := by
  unfold peSign; split <;> simp

set_option maxHeartbeats 4000000 in
theorem pe_entries (T : Trig R) (r : V3 R) (a0 a1 : Nat) (h0 : a0 < 3) (h1 : a1 < 3) (h01 : a0 ≠ a1) :
    let M := Gen.M4.rotateE (fld R) T r a0 a1 a0
    M a0 a0 = T.cos r.y ∧
    M a1 a0 = T.sin r.x * T.sin r.y ∧ (-(peSign a0 a1 : R)) * M (3 - a0 - a1) a0 = T.cos r.x * T.sin r.y ∧
    M a0 a1 = T.sin r.z * T.sin r.y ∧ peSign a0 a1 * M a0 (3 - a0 - a1) = T.cos r.z * T.sin r.y := by
  interval_cases a0 <;> interval_cases a1 <;> simp at h01 <;>
    simp [peSign, Gen.M4.rotateE, Gen.M4.mul, Gen.M4.mulEntry] <;>
    (split_ands <;> ring)

set_option maxHeartbeats 8000000 in
theorem pe_compose (T : Trig R) (r r' : V3 R) (ε : R) (hε : ε = 1 ∨ ε = -1)
    (hx : T.sin r'.x = ε * T.sin r.x ∧ T.cos r'.x = ε * T.cos r.x)
    (hy : T.sin r'.y = ε * T.sin r.y ∧ T.cos r'.y = T.cos r.y)
    (hz : T.sin r'.z = ε * T.sin r.z ∧ T.cos r'.z = ε * T.cos r.z)
    (a0 a1 : Nat) (h0 : a0 < 3) (h1 : a1 < 3) (h01 : a0 ≠ a1) :
    toM4 (Gen.M4.rotateE (fld R) T r' a0 a1 a0) = toM4 (Gen.M4.rotateE (fld R) T r a0 a1 a0) := by
  obtain ⟨hx1, hx2⟩ := hx
  obtain ⟨hy1, hy2⟩ := hy
  obtain ⟨hz1, hz2⟩ := hz
  rcases hε with rfl | rfl
  · simp only [one_mul] at hx1 hx2 hy1 hz1 hz2
    simp only [Gen.M4.rotateE, Gen.M4.rotateAxis, Gen.M4.rotateX, Gen.M4.rotateY, Gen.M4.rotateZ, hx1, hx2, hy1, hy2, hz1, hz2]
  · ext i j
    interval_cases a0 <;> interval_cases a1 <;> simp at h01 <;>
      fin_cases i <;> fin_cases j <;>
      simp [toM4, Gen.M4.rotateE, Gen.M4.mul, Gen.M4.mulEntry, hx1, hx2, hy1, hy2, hz1, hz2] <;> ring

/-- **proper Euler orders (first axis = third axis), away from the lock** -/
theorem euler_pe_roundtrip {T : Trig R} (hT : TrigOK T) (C : Cmp R) (hlt : ∀ a b, C.lt a b = decide (a < b))
    (habs : ∀ x, C.abs x = |x|) (lim : R) (hlim : lim ≤ 1) (r : V3 R)
    (a0 a1 : Nat) (h0 : a0 < 3) (h1 : a1 < 3) (h01 : a0 ≠ a1) (hnd : |T.cos r.y| < lim) :
    toM4 (Gen.M4.rotateE (fld R) T
      (Gen.M4.eulerAngles (fld R) C T lim (Gen.M4.rotateE (fld R) T r a0 a1 a0) a0 a1 a0) a0 a1 a0) =
    toM4 (Gen.M4.rotateE (fld R) T r a0 a1 a0) := by
  obtain ⟨e1, e2, e3, e4, e5⟩ := pe_entries T r a0 a1 h0 h1 h01
  set M := Gen.M4.rotateE (fld R) T r a0 a1 a0 with hM
  have hcond : C.lt (C.abs (T.cos r.y)) lim = true := by
    rw [hlt, habs]; simpa using hnd
  have hE : Gen.M4.eulerAngles (fld R) C T lim M a0 a1 a0 =
      ⟨T.atan2 (T.sin r.x * T.sin r.y) (T.cos r.x * T.sin r.y), T.acos (T.cos r.y),
       T.atan2 (T.sin r.z * T.sin r.y) (T.cos r.z * T.sin r.y)⟩ := by
    unfold peSign at e3 e5
    simp only [Gen.M4.eulerAngles, ne_eq, not_true_eq_false, if_false, hcond, if_true, fld_mul, fld_neg, fld_lit, Nat.cast_one, e1, e2, e3, e4, e5]
  rw [hE]
  have hub := hT.unit r.y
  have hcb' : -1 ≤ T.cos r.y ∧ T.cos r.y ≤ 1 := by
    have h1 : |T.cos r.y| < 1 := lt_of_lt_of_le hnd hlim
    have := abs_lt.mp h1
    exact ⟨le_of_lt this.1, le_of_lt this.2⟩
  have hcb : T.cos r.y * T.cos r.y < 1 := by
    have h1 : |T.cos r.y| < 1 := lt_of_lt_of_le hnd hlim
    have := abs_lt.mp h1
    nlinarith [this.1, this.2]
  have hsb : T.sin r.y ≠ 0 := by
    intro h; rw [h] at hub; nlinarith
  obtain ⟨ha1, ha2⟩ := hT.acos_spec (T.cos r.y) hcb'.1 hcb'.2
  obtain ⟨ρ2, hρ2, hq2, hs2, hc2⟩ := atan2_scaled hT (T.sin r.y) (T.sin r.x) (T.cos r.x) hsb (hT.unit r.x)
  obtain ⟨ρ0, hρ0, hq0, hs0, hc0⟩ := atan2_scaled hT (T.sin r.y) (T.sin r.z) (T.cos r.z) hsb (hT.unit r.z)
  have hρ : ρ0 = ρ2 := pos_root_unique (le_of_lt hρ0) hρ2 (by rw [hq0, hq2])
  subst hρ
  have hu1 := hT.unit (T.acos (T.cos r.y))
  have hs1 : T.sin (T.acos (T.cos r.y)) = ρ0 := by
    apply pos_root_unique ha2 hρ0
    rw [hq0]
    rw [ha1] at hu1
    linear_combination hu1 - hub
  have hne : ρ0 ≠ 0 := ne_of_gt hρ0
  have hε : T.sin r.y / ρ0 = 1 ∨ T.sin r.y / ρ0 = -1 := by
    have : (T.sin r.y / ρ0) * (T.sin r.y / ρ0) = 1 := by
      field_simp; linear_combination -hq0
    exact mul_self_eq_one_iff.mp this
  apply pe_compose T r _ (T.sin r.y / ρ0) hε ⟨hs2, hc2⟩ ⟨?_, ha1⟩ ⟨hs0, hc0⟩ a0 a1 h0 h1 h01
  show T.sin (T.acos (T.cos r.y)) = T.sin r.y / ρ0 * T.sin r.y
  rw [hs1]
  field_simp
  linear_combination hq0

/-! ### exactly on the gimbal lock -/

set_option maxHeartbeats 8000000 in
/-- Tait–Bryan, `cos β = 0`: the entries read by the locked branch form a point of the unit circle -/
theorem tb_lock_entries (T : Trig R) (hu : ∀ x, T.cos x * T.cos x + T.sin x * T.sin x = 1) (r : V3 R) (σ : R) (hσ : σ = 1 ∨ σ = -1)
    (hs : T.sin r.y = σ) (hc : T.cos r.y = 0)
    (a0 a1 a2 : Nat) (h0 : a0 < 3) (h1 : a1 < 3) (h2 : a2 < 3) (h01 : a0 ≠ a1) (h12 : a1 ≠ a2) (h02 : a0 ≠ a2) :
    Gen.M4.rotateE (fld R) T r a0 a1 a2 a1 a0 * Gen.M4.rotateE (fld R) T r a0 a1 a2 a1 a0 +
      Gen.M4.rotateE (fld R) T r a0 a1 a2 a1 a1 * Gen.M4.rotateE (fld R) T r a0 a1 a2 a1 a1 = 1 := by
  have hua := hu r.x
  have hug := hu r.z
  rcases hσ with rfl | rfl <;>
  interval_cases a0 <;> interval_cases a1 <;> interval_cases a2 <;> simp at h01 h12 h02 <;>
    simp [Gen.M4.rotateE, Gen.M4.mul, Gen.M4.mulEntry, hs, hc] <;>
    linear_combination (T.cos r.z * T.cos r.z + T.sin r.z * T.sin r.z) * hua + hug

set_option maxHeartbeats 8000000 in
theorem tb_lock_compose (T : Trig R) (r r' : V3 R) (σ : R) (hσ : σ = 1 ∨ σ = -1)
    (hs : T.sin r.y = σ) (hc : T.cos r.y = 0)
    (a0 a1 a2 : Nat) (h0 : a0 < 3) (h1 : a1 < 3) (h2 : a2 < 3) (h01 : a0 ≠ a1) (h12 : a1 ≠ a2) (h02 : a0 ≠ a2)
    (hx : T.sin r'.x = σ * (-(tbSign a0 a1 : R)) * (-(tbSign a0 a1 : R) * Gen.M4.rotateE (fld R) T r a0 a1 a2 a1 a0) ∧
          T.cos r'.x = Gen.M4.rotateE (fld R) T r a0 a1 a2 a1 a1)
    (hy : T.sin r'.y = σ ∧ T.cos r'.y = 0)
    (hz : T.sin r'.z = 0 ∧ T.cos r'.z = 1) :
    toM4 (Gen.M4.rotateE (fld R) T r' a0 a1 a2) = toM4 (Gen.M4.rotateE (fld R) T r a0 a1 a2) := by
  obtain ⟨hx1, hx2⟩ := hx
  obtain ⟨hy1, hy2⟩ := hy
  obtain ⟨hz1, hz2⟩ := hz
  ext i j
  rcases hσ with rfl | rfl <;>
  interval_cases a0 <;> interval_cases a1 <;> interval_cases a2 <;> simp at h01 h12 h02 <;>
    simp [tbSign, Gen.M4.rotateE, Gen.M4.mul, Gen.M4.mulEntry, hs, hc] at hx1 hx2 <;>
    fin_cases i <;> fin_cases j <;>
    simp [toM4, Gen.M4.rotateE, Gen.M4.mul, Gen.M4.mulEntry, hx1, hx2, hy1, hy2, hz1, hz2, hs, hc] <;> ring

/-- **Tait–Bryan orders exactly on the gimbal lock** (`cos β = 0`): the locked branch reproduces the rotation -/
theorem euler_tb_locked {T : Trig R} (hT : TrigOK T) (C : Cmp R) (hlt : ∀ a b, C.lt a b = decide (a < b))
    (habs : ∀ x, C.abs x = |x|) (lim : R) (hlim : lim ≤ 1) (r : V3 R)
    (a0 a1 a2 : Nat) (h0 : a0 < 3) (h1 : a1 < 3) (h2 : a2 < 3) (h01 : a0 ≠ a1) (h12 : a1 ≠ a2) (h02 : a0 ≠ a2)
    (hc : T.cos r.y = 0) :
    toM4 (Gen.M4.rotateE (fld R) T
      (Gen.M4.eulerAngles (fld R) C T lim (Gen.M4.rotateE (fld R) T r a0 a1 a2) a0 a1 a2) a0 a1 a2) =
    toM4 (Gen.M4.rotateE (fld R) T r a0 a1 a2) := by
  have hub := hT.unit r.y
  have hσ : T.sin r.y = 1 ∨ T.sin r.y = -1 := by
    rw [hc] at hub
    exact mul_self_eq_one_iff.mp (by linear_combination hub)
  obtain ⟨e1, -, -, -, -⟩ := tb_entries T r a0 a1 a2 h0 h1 h2 h01 h12 h02
  have hcirc := tb_lock_entries T hT.unit r (T.sin r.y) hσ rfl hc a0 a1 a2 h0 h1 h2 h01 h12 h02
  set M := Gen.M4.rotateE (fld R) T r a0 a1 a2 with hM
  have hss := tbSign_sq (R := R) a0 a1
  have hM02 : M a0 a2 = -(tbSign a0 a1 : R) * T.sin r.y := by
    rcases hss with h | h <;> rw [h] at e1 ⊢ <;> first | linear_combination -e1 | linear_combination e1
  have hcond : C.lt (C.abs (M a0 a2)) lim = false := by
    rw [hlt, habs, hM02]
    have : |(-(tbSign a0 a1 : R)) * T.sin r.y| = 1 := by
      rcases hss with h | h <;> rcases hσ with h' | h' <;> rw [h, h'] <;> simp
    rw [this]; simpa using hlim
  -- the angle extracted by the locked branch
  have hne : (-(tbSign a0 a1 : R)) * M a1 a0 ≠ 0 ∨ M a1 a1 ≠ 0 := by
    by_contra h
    push Not at h
    obtain ⟨h1', h2'⟩ := h
    have h3 : M a1 a0 = 0 := by
      rcases hss with h | h <;> rw [h] at h1' <;> linarith
    rw [h3, h2'] at hcirc; norm_num at hcirc
  obtain ⟨ρ, hρ, q1, q2⟩ := hT.atan2_spec _ _ hne
  have hρ1 : ρ = 1 := by
    have hu2 := hT.unit (T.atan2 (-(tbSign a0 a1 : R) * M a1 a0) (M a1 a1))
    apply pos_root_unique (le_of_lt hρ) one_pos
    have hs2 : (tbSign a0 a1 : R) * tbSign a0 a1 = 1 := by rcases hss with h | h <;> rw [h] <;> ring
    have : ρ * ρ * (T.cos (T.atan2 (-(tbSign a0 a1 : R) * M a1 a0) (M a1 a1)) * T.cos (T.atan2 (-(tbSign a0 a1 : R) * M a1 a0) (M a1 a1)) +
        T.sin (T.atan2 (-(tbSign a0 a1 : R) * M a1 a0) (M a1 a1)) * T.sin (T.atan2 (-(tbSign a0 a1 : R) * M a1 a0) (M a1 a1))) =
        tbSign a0 a1 * tbSign a0 a1 * (M a1 a0 * M a1 a0) + M a1 a1 * M a1 a1 := by
      linear_combination (-(ρ * T.sin (T.atan2 (-(tbSign a0 a1 : R) * M a1 a0) (M a1 a1))) - (-(tbSign a0 a1 : R) * M a1 a0)) * q1 +
        (-(ρ * T.cos (T.atan2 (-(tbSign a0 a1 : R) * M a1 a0) (M a1 a1))) - M a1 a1) * q2
    rw [hu2, hs2] at this
    linear_combination this + hcirc
  rw [hρ1, one_mul] at q1 q2
  have hE : Gen.M4.eulerAngles (fld R) C T lim M a0 a1 a2 =
      ⟨M a0 a2 * T.atan2 (-(tbSign a0 a1 : R) * M a1 a0) (M a1 a1), -(M a0 a2) * tbSign a0 a1 * (T.pi / 2), 0⟩ := by
    unfold tbSign
    simp only [Gen.M4.eulerAngles, h02, ne_eq, not_false_eq_true, if_true, hcond, Bool.false_eq_true, if_false, fld_mul, fld_neg, fld_div,
      fld_lit, Nat.cast_one, Nat.cast_zero, Nat.cast_ofNat]
  rw [hE]
  have hs2 : (tbSign a0 a1 : R) * tbSign a0 a1 = 1 := by rcases hss with h | h <;> rw [h] <;> ring
  have pm : ∀ m : R, (m = 1 ∨ m = -1) → ∀ x, T.sin (m * x) = m * T.sin x ∧ T.cos (m * x) = T.cos x := by
    intro m hm x
    rcases hm with h | h <;> rw [h] <;> simp [hT.sin_neg, hT.cos_neg]
  have hm : M a0 a2 = 1 ∨ M a0 a2 = -1 := by
    rw [hM02]
    rcases hss with h | h <;> rcases hσ with h' | h' <;> rw [h, h'] <;> simp
  apply tb_lock_compose T r _ (T.sin r.y) hσ rfl hc a0 a1 a2 h0 h1 h2 h01 h12 h02
  · show T.sin (M a0 a2 * T.atan2 (-(tbSign a0 a1 : R) * M a1 a0) (M a1 a1)) = _ ∧
      T.cos (M a0 a2 * T.atan2 (-(tbSign a0 a1 : R) * M a1 a0) (M a1 a1)) = _
    constructor
    · rw [(pm _ hm _).1, ← q1, hM02]; ring
    · rw [(pm _ hm _).2, ← q2]
  · show T.sin (-(M a0 a2) * tbSign a0 a1 * (T.pi / 2)) = _ ∧ T.cos (-(M a0 a2) * tbSign a0 a1 * (T.pi / 2)) = 0
    have e : -(M a0 a2) * tbSign a0 a1 * (T.pi / 2) = T.sin r.y * (T.pi / 2) := by
      rw [hM02]; linear_combination (T.sin r.y * (T.pi / 2)) * hs2
    rw [e, (pm _ hσ _).1, (pm _ hσ _).2, hT.sin_half_pi, hT.cos_half_pi]
    simp
  · exact ⟨hT.sin_zero, hT.cos_zero⟩


set_option maxHeartbeats 8000000 in
theorem pe_lock_entries (T : Trig R) (hu : ∀ x, T.cos x * T.cos x + T.sin x * T.sin x = 1) (r : V3 R) (σ : R) (hσ : σ = 1 ∨ σ = -1)
    (hs : T.sin r.y = 0) (hc : T.cos r.y = σ) (a0 a1 : Nat) (h0 : a0 < 3) (h1 : a1 < 3) (h01 : a0 ≠ a1) :
    Gen.M4.rotateE (fld R) T r a0 a1 a0 a1 (3 - a0 - a1) * Gen.M4.rotateE (fld R) T r a0 a1 a0 a1 (3 - a0 - a1) +
      Gen.M4.rotateE (fld R) T r a0 a1 a0 a1 a1 * Gen.M4.rotateE (fld R) T r a0 a1 a0 a1 a1 = 1 := by
  have hua := hu r.x
  have hug := hu r.z
  rcases hσ with rfl | rfl <;>
  interval_cases a0 <;> interval_cases a1 <;> simp at h01 <;>
    simp [Gen.M4.rotateE, Gen.M4.mul, Gen.M4.mulEntry, hs, hc] <;>
    linear_combination (T.cos r.z * T.cos r.z + T.sin r.z * T.sin r.z) * hua + hug

set_option maxHeartbeats 8000000 in
theorem pe_lock_compose (T : Trig R) (r r' : V3 R) (σ : R) (hσ : σ = 1 ∨ σ = -1)
    (hs : T.sin r.y = 0) (hc : T.cos r.y = σ) (a0 a1 : Nat) (h0 : a0 < 3) (h1 : a1 < 3) (h01 : a0 ≠ a1)
    (hx : T.sin r'.x = σ * (-(peSign a0 a1 : R) * Gen.M4.rotateE (fld R) T r a0 a1 a0 a1 (3 - a0 - a1)) ∧
          T.cos r'.x = Gen.M4.rotateE (fld R) T r a0 a1 a0 a1 a1)
    (hy : T.sin r'.y = 0 ∧ T.cos r'.y = σ)
    (hz : T.sin r'.z = 0 ∧ T.cos r'.z = 1) :
    toM4 (Gen.M4.rotateE (fld R) T r' a0 a1 a0) = toM4 (Gen.M4.rotateE (fld R) T r a0 a1 a0) := by
  obtain ⟨hx1, hx2⟩ := hx
  obtain ⟨hy1, hy2⟩ := hy
  obtain ⟨hz1, hz2⟩ := hz
  ext i j
  rcases hσ with rfl | rfl <;>
  interval_cases a0 <;> interval_cases a1 <;> simp at h01 <;>
    simp [peSign, Gen.M4.rotateE, Gen.M4.mul, Gen.M4.mulEntry, hs, hc] at hx1 hx2 <;>
    fin_cases i <;> fin_cases j <;>
    simp [toM4, Gen.M4.rotateE, Gen.M4.mul, Gen.M4.mulEntry, hx1, hx2, hy1, hy2, hz1, hz2, hs, hc] <;> ring

/-- **proper Euler orders exactly on the lock** (`sin β = 0`) -/
theorem euler_pe_locked {T : Trig R} (hT : TrigOK T) (C : Cmp R) (hlt : ∀ a b, C.lt a b = decide (a < b))
    (habs : ∀ x, C.abs x = |x|) (lim : R) (hlim : lim ≤ 1) (r : V3 R)
    (a0 a1 : Nat) (h0 : a0 < 3) (h1 : a1 < 3) (h01 : a0 ≠ a1) (hs : T.sin r.y = 0) :
    toM4 (Gen.M4.rotateE (fld R) T
      (Gen.M4.eulerAngles (fld R) C T lim (Gen.M4.rotateE (fld R) T r a0 a1 a0) a0 a1 a0) a0 a1 a0) =
    toM4 (Gen.M4.rotateE (fld R) T r a0 a1 a0) := by
  have hub := hT.unit r.y
  have hσ : T.cos r.y = 1 ∨ T.cos r.y = -1 := by
    rw [hs] at hub
    exact mul_self_eq_one_iff.mp (by linear_combination hub)
  obtain ⟨e1, -, -, -, -⟩ := pe_entries T r a0 a1 h0 h1 h01
  have hcirc := pe_lock_entries T hT.unit r (T.cos r.y) hσ hs rfl a0 a1 h0 h1 h01
  set M := Gen.M4.rotateE (fld R) T r a0 a1 a0 with hM
  have hss := peSign_sq (R := R) a0 a1
  have hs2 : (peSign a0 a1 : R) * peSign a0 a1 = 1 := by rcases hss with h | h <;> rw [h] <;> ring
  have hcond : C.lt (C.abs (T.cos r.y)) lim = false := by
    rw [hlt, habs]
    have : |T.cos r.y| = 1 := by rcases hσ with h' | h' <;> rw [h'] <;> simp
    rw [this]; simpa using hlim
  have hne : (-(peSign a0 a1 : R)) * M a1 (3 - a0 - a1) ≠ 0 ∨ M a1 a1 ≠ 0 := by
    by_contra h
    push Not at h
    obtain ⟨h1', h2'⟩ := h
    have h3 : M a1 (3 - a0 - a1) = 0 := by
      rcases hss with h | h <;> rw [h] at h1' <;> linarith
    rw [h3, h2'] at hcirc; norm_num at hcirc
  obtain ⟨ρ, hρ, q1, q2⟩ := hT.atan2_spec _ _ hne
  have hρ1 : ρ = 1 := by
    have hu2 := hT.unit (T.atan2 (-(peSign a0 a1 : R) * M a1 (3 - a0 - a1)) (M a1 a1))
    apply pos_root_unique (le_of_lt hρ) one_pos
    have : ρ * ρ * (T.cos (T.atan2 (-(peSign a0 a1 : R) * M a1 (3 - a0 - a1)) (M a1 a1)) * T.cos (T.atan2 (-(peSign a0 a1 : R) * M a1 (3 - a0 - a1)) (M a1 a1)) +
        T.sin (T.atan2 (-(peSign a0 a1 : R) * M a1 (3 - a0 - a1)) (M a1 a1)) * T.sin (T.atan2 (-(peSign a0 a1 : R) * M a1 (3 - a0 - a1)) (M a1 a1))) =
        peSign a0 a1 * peSign a0 a1 * (M a1 (3 - a0 - a1) * M a1 (3 - a0 - a1)) + M a1 a1 * M a1 a1 := by
      linear_combination (-(ρ * T.sin (T.atan2 (-(peSign a0 a1 : R) * M a1 (3 - a0 - a1)) (M a1 a1))) - (-(peSign a0 a1 : R) * M a1 (3 - a0 - a1))) * q1 +
        (-(ρ * T.cos (T.atan2 (-(peSign a0 a1 : R) * M a1 (3 - a0 - a1)) (M a1 a1))) - M a1 a1) * q2
    rw [hu2, hs2] at this
    linear_combination this + hcirc
  rw [hρ1, one_mul] at q1 q2
  have hE : Gen.M4.eulerAngles (fld R) C T lim M a0 a1 a0 =
      ⟨T.cos r.y * T.atan2 (-(peSign a0 a1 : R) * M a1 (3 - a0 - a1)) (M a1 a1), if T.cos r.y < 0 then T.pi else 0, 0⟩ := by
    unfold peSign
    simp only [Gen.M4.eulerAngles, ne_eq, not_true_eq_false, if_false, e1, hcond, Bool.false_eq_true, hlt, decide_eq_true_eq,
      fld_mul, fld_neg, fld_lit, Nat.cast_one, Nat.cast_zero]
  rw [hE]
  have pm : ∀ m : R, (m = 1 ∨ m = -1) → ∀ x, T.sin (m * x) = m * T.sin x ∧ T.cos (m * x) = T.cos x := by
    intro m hm x
    rcases hm with h | h <;> rw [h] <;> simp [hT.sin_neg, hT.cos_neg]
  apply pe_lock_compose T r _ (T.cos r.y) hσ hs rfl a0 a1 h0 h1 h01
  · show T.sin (T.cos r.y * T.atan2 (-(peSign a0 a1 : R) * M a1 (3 - a0 - a1)) (M a1 a1)) = _ ∧
      T.cos (T.cos r.y * T.atan2 (-(peSign a0 a1 : R) * M a1 (3 - a0 - a1)) (M a1 a1)) = _
    constructor
    · rw [(pm _ hσ _).1, ← q1]
    · rw [(pm _ hσ _).2, ← q2]
  · show T.sin (if T.cos r.y < 0 then T.pi else 0) = 0 ∧ T.cos (if T.cos r.y < 0 then T.pi else 0) = T.cos r.y
    rcases hσ with h' | h' <;> rw [h']
    · have : ¬ ((1 : R) < 0) := by norm_num
      rw [if_neg this]; exact ⟨hT.sin_zero, hT.cos_zero⟩
    · have : ((-1 : R) < 0) := by norm_num
      rw [if_pos this]; exact ⟨hT.sin_pi, hT.cos_pi⟩
  · exact ⟨hT.sin_zero, hT.cos_zero⟩


end euler

end AslProofs.Euler
