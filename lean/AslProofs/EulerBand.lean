import AslProofs.Euler
/-!
# C20 — `eulerAngles` in the band between the threshold and the exact gimbal lock (`0 ≤ c ≤ lim`)

In that branch the source sets the last angle to 0 and reads the middle angle from `atan2(±element, c)`.  The middle angle is
still exact up to reflection (`sin β' = sin β`, `cos β' = |cos β|`; resp. `cos β' = cos β`, `sin β' = |sin β|` when the first
and third axes coincide), so every entry of the rebuilt matrix that depends on the other two angles only through a factor
`cos β` (resp. `sin β`) — the row of the first axis and the column of the last axis, 5 of the 9 entries — differs from the
original by at most `2c ≤ 2·lim`, and the entry that holds `sin β` (resp. `cos β`) is reproduced exactly.
-/
namespace AslProofs.Euler
open AslModel AslProofs.Matrix

set_option linter.unusedSimpArgs false
set_option linter.unusedSectionVars false
set_option linter.unusedVariables false

section band
variable {R : Type} [Field R] [LinearOrder R] [IsStrictOrderedRing R]

theorem trig_abs_le_one {T : Trig R} (hT : TrigOK T) (x : R) : |T.sin x| ≤ 1 ∧ |T.cos x| ≤ 1 := by
  have hu := hT.unit x
  constructor
  · apply abs_le.mpr; constructor <;> nlinarith [mul_self_nonneg (T.cos x), mul_self_nonneg (T.sin x + 1), mul_self_nonneg (T.sin x - 1)]
  · apply abs_le.mpr; constructor <;> nlinarith [mul_self_nonneg (T.sin x), mul_self_nonneg (T.cos x + 1), mul_self_nonneg (T.cos x - 1)]

theorem abs_mul_le_of_le_one (t w : R) (ht : |t| ≤ 1) : |t * w| ≤ |w| := by
  rw [abs_mul]; exact mul_le_of_le_one_left (abs_nonneg w) ht

theorem abs_diff_le (x y c : R) (hx : |x| ≤ c) (hy : |y| ≤ c) : |x - y| ≤ 2 * c := by
  obtain ⟨h1, h2⟩ := abs_le.mp hx
  obtain ⟨h3, h4⟩ := abs_le.mp hy
  apply abs_le.mpr; constructor <;> linarith

/-- `s·x = u`, `s·y = v` with `s = ±1`, `|u| ≤ c`, `|v| ≤ c` give `|x − y| ≤ 2c` -/
theorem signed_diff_le (s x y u v c : R) (hs : s = 1 ∨ s = -1) (hx : s * x = u) (hy : s * y = v) (hu : |u| ≤ c) (hv : |v| ≤ c) :
    |x - y| ≤ 2 * c := by
  rcases hs with h | h <;> rw [h] at hx hy
  · apply abs_diff_le <;> [(have : x = u := by linarith); (have : y = v := by linarith)] <;> rw [this] <;> assumption
  · apply abs_diff_le <;> [(have : x = -u := by linarith); (have : y = -v := by linarith)] <;> rw [this, abs_neg] <;> assumption

/-- **Tait–Bryan orders in the band** `|cos β| ≤ lim` (the locked formulas are used although the lock is not exact) -/
theorem euler_tb_band {T : Trig R} (hT : TrigOK T) {C : Cmp R} (hC : CmpStd C) (lim : R) (r : V3 R)
    (a0 a1 a2 : Nat) (h0 : a0 < 3) (h1 : a1 < 3) (h2 : a2 < 3) (h01 : a0 ≠ a1) (h12 : a1 ≠ a2) (h02 : a0 ≠ a2)
    (hband : |T.cos r.y| ≤ lim)
    (M : Nat → Nat → R) (hM : M = Gen.M4.rotateE (fld R) T r a0 a1 a2)
    (E : V3 R) (hEdef : E = Gen.M4.eulerAngles (fld R) C T lim M a0 a1 a2)
    (M' : Nat → Nat → R) (hM' : M' = Gen.M4.rotateE (fld R) T E a0 a1 a2) :
    M' a0 a2 = M a0 a2 ∧ |M' a0 a1 - M a0 a1| ≤ 2 * |T.cos r.y| ∧ |M' a0 a0 - M a0 a0| ≤ 2 * |T.cos r.y| ∧
    |M' a1 a2 - M a1 a2| ≤ 2 * |T.cos r.y| ∧ |M' a2 a2 - M a2 a2| ≤ 2 * |T.cos r.y| := by
  obtain ⟨e1, e2, e3, e4, e5⟩ := tb_entries T r a0 a1 a2 h0 h1 h2 h01 h12 h02
  rw [← hM] at e1 e2 e3 e4 e5
  have hss := tbSign_sq (R := R) a0 a1
  have hs2 : (tbSign a0 a1 : R) * tbSign a0 a1 = 1 := by rcases hss with h | h <;> rw [h] <;> ring
  have hnss : -(tbSign a0 a1 : R) = 1 ∨ -(tbSign a0 a1 : R) = -1 := by rcases hss with h | h <;> rw [h] <;> simp
  have hub := hT.unit r.y
  have huz := hT.unit r.z
  have hc : C.sqrt (M a0 a0 * M a0 a0 + M a0 a1 * M a0 a1) = |T.cos r.y| := by
    have : M a0 a0 * M a0 a0 + M a0 a1 * M a0 a1 = T.cos r.y * T.cos r.y := by
      have e4' : M a0 a1 * M a0 a1 = (T.sin r.z * T.cos r.y) * (T.sin r.z * T.cos r.y) := by
        rw [← e4]; linear_combination (M a0 a1 * M a0 a1) * (-hs2)
      rw [e4', e5]; linear_combination (T.cos r.y * T.cos r.y) * huz
    rw [this]; exact sqrt_sq hC _
  have hcond : C.lt lim |T.cos r.y| = false := by rw [hC.lt]; simpa using hband
  have hE : E.y = T.atan2 (T.sin r.y) |T.cos r.y| ∧ E.z = 0 := by
    rw [hEdef]
    have e1' := e1
    unfold tbSign at e1'
    simp only [Gen.M4.eulerAngles, h02, ne_eq, not_false_eq_true, if_true, fld_mul, fld_add, fld_neg, fld_lit, Nat.cast_one, Nat.cast_zero,
      hc, hcond, Bool.false_eq_true, if_false]
    exact ⟨by rw [e1'], trivial⟩
  obtain ⟨ha1, ha2⟩ := atan2_unit hT (T.sin r.y) |T.cos r.y| (by rw [abs_mul_abs_self]; exact hub)
  obtain ⟨f1, f2, f3, f4, f5⟩ := tb_entries T E a0 a1 a2 h0 h1 h2 h01 h12 h02
  rw [← hM'] at f1 f2 f3 f4 f5
  rw [hE.1] at f1 f2 f3 f4 f5
  rw [hE.2, hT.sin_zero] at f4
  rw [hE.2, hT.cos_zero] at f5
  rw [ha1] at f1
  rw [ha2] at f2 f3 f4 f5
  have b := fun x => trig_abs_le_one hT x
  have hcabs : |(|T.cos r.y|)| ≤ |T.cos r.y| := by rw [abs_abs]
  refine ⟨?_, ?_, ?_, ?_, ?_⟩
  · rcases hss with h | h <;> rw [h] at e1 f1 <;> linarith
  · exact signed_diff_le _ _ _ _ _ _ hss f4 e4 (by rw [zero_mul, abs_zero]; exact abs_nonneg _) (abs_mul_le_of_le_one _ _ (b _).1)
  · apply abs_diff_le
    · rw [f5, one_mul, abs_abs]
    · rw [e5]; exact abs_mul_le_of_le_one _ _ (b _).2
  · exact signed_diff_le _ _ _ _ _ _ hss f2 e2 (by have := abs_mul_le_of_le_one (T.sin E.x) |T.cos r.y| (b _).1; rwa [abs_abs] at this)
      (abs_mul_le_of_le_one _ _ (b _).1)
  · apply abs_diff_le
    · rw [f3]; have := abs_mul_le_of_le_one (T.cos E.x) |T.cos r.y| (b _).2; rwa [abs_abs] at this
    · rw [e3]; exact abs_mul_le_of_le_one _ _ (b _).2

/-- **proper Euler orders (first axis = third axis) in the band** `|sin β| ≤ lim` -/
theorem euler_pe_band {T : Trig R} (hT : TrigOK T) {C : Cmp R} (hC : CmpStd C) (lim : R) (r : V3 R)
    (a0 a1 : Nat) (h0 : a0 < 3) (h1 : a1 < 3) (h01 : a0 ≠ a1)
    (hband : |T.sin r.y| ≤ lim)
    (M : Nat → Nat → R) (hM : M = Gen.M4.rotateE (fld R) T r a0 a1 a0)
    (E : V3 R) (hEdef : E = Gen.M4.eulerAngles (fld R) C T lim M a0 a1 a0)
    (M' : Nat → Nat → R) (hM' : M' = Gen.M4.rotateE (fld R) T E a0 a1 a0) :
    M' a0 a0 = M a0 a0 ∧ |M' a1 a0 - M a1 a0| ≤ 2 * |T.sin r.y| ∧ |M' (3 - a0 - a1) a0 - M (3 - a0 - a1) a0| ≤ 2 * |T.sin r.y| ∧
    |M' a0 a1 - M a0 a1| ≤ 2 * |T.sin r.y| ∧ |M' a0 (3 - a0 - a1) - M a0 (3 - a0 - a1)| ≤ 2 * |T.sin r.y| := by
  obtain ⟨e1, e2, e3, e4, e5⟩ := pe_entries T r a0 a1 h0 h1 h01
  rw [← hM] at e1 e2 e3 e4 e5
  have hss := peSign_sq (R := R) a0 a1
  have hs2 : (peSign a0 a1 : R) * peSign a0 a1 = 1 := by rcases hss with h | h <;> rw [h] <;> ring
  have hnss : -(peSign a0 a1 : R) = 1 ∨ -(peSign a0 a1 : R) = -1 := by rcases hss with h | h <;> rw [h] <;> simp
  have hub := hT.unit r.y
  have hux := hT.unit r.x
  have hc : C.sqrt (M a1 a0 * M a1 a0 + M (3 - a0 - a1) a0 * M (3 - a0 - a1) a0) = |T.sin r.y| := by
    have : M a1 a0 * M a1 a0 + M (3 - a0 - a1) a0 * M (3 - a0 - a1) a0 = T.sin r.y * T.sin r.y := by
      have e3' : M (3 - a0 - a1) a0 * M (3 - a0 - a1) a0 = (T.cos r.x * T.sin r.y) * (T.cos r.x * T.sin r.y) := by
        rw [← e3]; linear_combination (M (3 - a0 - a1) a0 * M (3 - a0 - a1) a0) * (-hs2)
      rw [e3', e2]; linear_combination (T.sin r.y * T.sin r.y) * hux
    rw [this]; exact sqrt_sq hC _
  have hcond : C.lt lim |T.sin r.y| = false := by rw [hC.lt]; simpa using hband
  have hE : E.y = T.atan2 |T.sin r.y| (T.cos r.y) ∧ E.z = 0 := by
    rw [hEdef]
    simp only [Gen.M4.eulerAngles, ne_eq, not_true_eq_false, if_false, fld_mul, fld_add, fld_neg, fld_lit, Nat.cast_one, Nat.cast_zero,
      hc, hcond, Bool.false_eq_true, if_false, e1]
    exact ⟨trivial, trivial⟩
  obtain ⟨ha1, ha2⟩ := atan2_unit hT |T.sin r.y| (T.cos r.y) (by rw [abs_mul_abs_self]; exact hub)
  obtain ⟨f1, f2, f3, f4, f5⟩ := pe_entries T E a0 a1 h0 h1 h01
  rw [← hM'] at f1 f2 f3 f4 f5
  rw [hE.1] at f1 f2 f3 f4 f5
  rw [hE.2, hT.sin_zero] at f4
  rw [hE.2, hT.cos_zero] at f5
  rw [ha2] at f1
  rw [ha1] at f2 f3 f4 f5
  have b := fun x => trig_abs_le_one hT x
  have habs : ∀ t : R, |t| ≤ 1 → |t * (|T.sin r.y|)| ≤ |T.sin r.y| := by
    intro t ht; have := abs_mul_le_of_le_one t |T.sin r.y| ht; rwa [abs_abs] at this
  refine ⟨?_, ?_, ?_, ?_, ?_⟩
  · rw [f1, e1]
  · apply abs_diff_le
    · rw [f2]; exact habs _ (b _).1
    · rw [e2]; exact abs_mul_le_of_le_one _ _ (b _).1
  · exact signed_diff_le _ _ _ _ _ _ hnss f3 e3 (habs _ (b _).2) (abs_mul_le_of_le_one _ _ (b _).2)
  · apply abs_diff_le
    · rw [f4, zero_mul, abs_zero]; exact abs_nonneg _
    · rw [e4]; exact abs_mul_le_of_le_one _ _ (b _).1
  · exact signed_diff_le _ _ _ _ _ _ hss f5 e5 (by rw [one_mul, abs_abs]) (abs_mul_le_of_le_one _ _ (b _).2)

/-- row of the first axis and column of the last axis, all entries, bound in terms of the threshold -/
theorem euler_tb_band_all {T : Trig R} (hT : TrigOK T) {C : Cmp R} (hC : CmpStd C) (lim : R) (r : V3 R)
    (a0 a1 a2 : Nat) (h0 : a0 < 3) (h1 : a1 < 3) (h2 : a2 < 3) (h01 : a0 ≠ a1) (h12 : a1 ≠ a2) (h02 : a0 ≠ a2)
    (hband : |T.cos r.y| ≤ lim)
    (M : Nat → Nat → R) (hM : M = Gen.M4.rotateE (fld R) T r a0 a1 a2)
    (E : V3 R) (hEdef : E = Gen.M4.eulerAngles (fld R) C T lim M a0 a1 a2)
    (M' : Nat → Nat → R) (hM' : M' = Gen.M4.rotateE (fld R) T E a0 a1 a2) :
    ∀ i j, i < 3 → j < 3 → (i = a0 ∨ j = a2) → |M' i j - M i j| ≤ 2 * lim := by
  obtain ⟨g1, g2, g3, g4, g5⟩ := euler_tb_band hT hC lim r a0 a1 a2 h0 h1 h2 h01 h12 h02 hband M hM E hEdef M' hM'
  have hl : 0 ≤ lim := le_trans (abs_nonneg _) hband
  have hb : 2 * |T.cos r.y| ≤ 2 * lim := by linarith
  have g1' : |M' a0 a2 - M a0 a2| ≤ 2 * lim := by rw [g1, sub_self, abs_zero]; linarith
  intro i j hi hj hij
  have hi' : i = a0 ∨ i = a1 ∨ i = a2 := by omega
  have hj' : j = a0 ∨ j = a1 ∨ j = a2 := by omega
  rcases hij with e | e <;> rw [e]
  · rcases hj' with e' | e' | e' <;> rw [e']
    · exact le_trans g3 hb
    · exact le_trans g2 hb
    · exact g1'
  · rcases hi' with e' | e' | e' <;> rw [e']
    · exact g1'
    · exact le_trans g4 hb
    · exact le_trans g5 hb

/-- first axis = third axis: row and column of that axis -/
theorem euler_pe_band_all {T : Trig R} (hT : TrigOK T) {C : Cmp R} (hC : CmpStd C) (lim : R) (r : V3 R)
    (a0 a1 : Nat) (h0 : a0 < 3) (h1 : a1 < 3) (h01 : a0 ≠ a1)
    (hband : |T.sin r.y| ≤ lim)
    (M : Nat → Nat → R) (hM : M = Gen.M4.rotateE (fld R) T r a0 a1 a0)
    (E : V3 R) (hEdef : E = Gen.M4.eulerAngles (fld R) C T lim M a0 a1 a0)
    (M' : Nat → Nat → R) (hM' : M' = Gen.M4.rotateE (fld R) T E a0 a1 a0) :
    ∀ i j, i < 3 → j < 3 → (i = a0 ∨ j = a0) → |M' i j - M i j| ≤ 2 * lim := by
  obtain ⟨g1, g2, g3, g4, g5⟩ := euler_pe_band hT hC lim r a0 a1 h0 h1 h01 hband M hM E hEdef M' hM'
  have hl : 0 ≤ lim := le_trans (abs_nonneg _) hband
  have hb : 2 * |T.sin r.y| ≤ 2 * lim := by linarith
  have g1' : |M' a0 a0 - M a0 a0| ≤ 2 * lim := by rw [g1, sub_self, abs_zero]; linarith
  intro i j hi hj hij
  have hi' : i = a0 ∨ i = a1 ∨ i = 3 - a0 - a1 := by omega
  have hj' : j = a0 ∨ j = a1 ∨ j = 3 - a0 - a1 := by omega
  rcases hij with e | e <;> rw [e]
  · rcases hj' with e' | e' | e' <;> rw [e']
    · exact g1'
    · exact le_trans g4 hb
    · exact le_trans g5 hb
  · rcases hi' with e' | e' | e' <;> rw [e']
    · exact g1'
    · exact le_trans g2 hb
    · exact le_trans g3 hb

end band

end AslProofs.Euler
