import AslProofs.Matrix
import Mathlib.Tactic.IntervalCases
import Gen.EulerGen
/-!
# C20 — Euler angles, brute-force lemmas: `rotateE` ∘ `eulerAngles` ∘ `rotateE` = `rotateE`, for all twelve axis orders

`Gen.M4.rotateX/Y/Z`, `rotateAxis`, `rotateE`, `eulerAngles` are regenerated from `Matrix4.h`; `cos`, `sin`, `asin`,
`acos`, `atan2`, `PI` are the law-free interface `Trig`.  `TrigOK` lists what is needed of them (all true of the real
functions, see the `example` in `AslProps/C20.lean`).  The proofs enumerate the axis orders and the 16 matrix entries
and close each entry with `ring`; the sign ambiguity `ε = ±1` of `(sin, cos)` of the extracted angles
(the triple `(α+π, π−β, γ+π)` describes the same rotation) is handled by `tb_compose` / `pe_compose`.
-/
namespace AslProofs.Euler
open AslModel AslProofs.Matrix

set_option linter.unusedSimpArgs false
set_option linter.unusedSectionVars false
set_option linter.unusedTactic false
set_option linter.unreachableTactic false

section entries
variable {R : Type} [Field R]
@[simp] theorem rotateX_00 (T : Trig R) (x : R) : Gen.M4.rotateX (fld R) T x 0 0 = 1 := by simp [Gen.M4.rotateX, ofRows]
@[simp] theorem rotateX_01 (T : Trig R) (x : R) : Gen.M4.rotateX (fld R) T x 0 1 = 0 := by simp [Gen.M4.rotateX, ofRows]
@[simp] theorem rotateX_02 (T : Trig R) (x : R) : Gen.M4.rotateX (fld R) T x 0 2 = 0 := by simp [Gen.M4.rotateX, ofRows]
@[simp] theorem rotateX_03 (T : Trig R) (x : R) : Gen.M4.rotateX (fld R) T x 0 3 = 0 := by simp [Gen.M4.rotateX, ofRows]
@[simp] theorem rotateX_10 (T : Trig R) (x : R) : Gen.M4.rotateX (fld R) T x 1 0 = 0 := by simp [Gen.M4.rotateX, ofRows]
@[simp] theorem rotateX_11 (T : Trig R) (x : R) : Gen.M4.rotateX (fld R) T x 1 1 = T.cos x := by simp [Gen.M4.rotateX, ofRows]
@[simp] theorem rotateX_12 (T : Trig R) (x : R) : Gen.M4.rotateX (fld R) T x 1 2 = -T.sin x := by simp [Gen.M4.rotateX, ofRows]
@[simp] theorem rotateX_13 (T : Trig R) (x : R) : Gen.M4.rotateX (fld R) T x 1 3 = 0 := by simp [Gen.M4.rotateX, ofRows]
@[simp] theorem rotateX_20 (T : Trig R) (x : R) : Gen.M4.rotateX (fld R) T x 2 0 = 0 := by simp [Gen.M4.rotateX, ofRows]
@[simp] theorem rotateX_21 (T : Trig R) (x : R) : Gen.M4.rotateX (fld R) T x 2 1 = T.sin x := by simp [Gen.M4.rotateX, ofRows]
@[simp] theorem rotateX_22 (T : Trig R) (x : R) : Gen.M4.rotateX (fld R) T x 2 2 = T.cos x := by simp [Gen.M4.rotateX, ofRows]
@[simp] theorem rotateX_23 (T : Trig R) (x : R) : Gen.M4.rotateX (fld R) T x 2 3 = 0 := by simp [Gen.M4.rotateX, ofRows]
@[simp] theorem rotateX_30 (T : Trig R) (x : R) : Gen.M4.rotateX (fld R) T x 3 0 = 0 := by simp [Gen.M4.rotateX, ofRows]
@[simp] theorem rotateX_31 (T : Trig R) (x : R) : Gen.M4.rotateX (fld R) T x 3 1 = 0 := by simp [Gen.M4.rotateX, ofRows]
@[simp] theorem rotateX_32 (T : Trig R) (x : R) : Gen.M4.rotateX (fld R) T x 3 2 = 0 := by simp [Gen.M4.rotateX, ofRows]
@[simp] theorem rotateX_33 (T : Trig R) (x : R) : Gen.M4.rotateX (fld R) T x 3 3 = 1 := by simp [Gen.M4.rotateX, ofRows]
@[simp] theorem rotateY_00 (T : Trig R) (x : R) : Gen.M4.rotateY (fld R) T x 0 0 = T.cos x := by simp [Gen.M4.rotateY, ofRows]
@[simp] theorem rotateY_01 (T : Trig R) (x : R) : Gen.M4.rotateY (fld R) T x 0 1 = 0 := by simp [Gen.M4.rotateY, ofRows]
@[simp] theorem rotateY_02 (T : Trig R) (x : R) : Gen.M4.rotateY (fld R) T x 0 2 = T.sin x := by simp [Gen.M4.rotateY, ofRows]
@[simp] theorem rotateY_03 (T : Trig R) (x : R) : Gen.M4.rotateY (fld R) T x 0 3 = 0 := by simp [Gen.M4.rotateY, ofRows]
@[simp] theorem rotateY_10 (T : Trig R) (x : R) : Gen.M4.rotateY (fld R) T x 1 0 = 0 := by simp [Gen.M4.rotateY, ofRows]
@[simp] theorem rotateY_11 (T : Trig R) (x : R) : Gen.M4.rotateY (fld R) T x 1 1 = 1 := by simp [Gen.M4.rotateY, ofRows]
@[simp] theorem rotateY_12 (T : Trig R) (x : R) : Gen.M4.rotateY (fld R) T x 1 2 = 0 := by simp [Gen.M4.rotateY, ofRows]
@[simp] theorem rotateY_13 (T : Trig R) (x : R) : Gen.M4.rotateY (fld R) T x 1 3 = 0 := by simp [Gen.M4.rotateY, ofRows]
@[simp] theorem rotateY_20 (T : Trig R) (x : R) : Gen.M4.rotateY (fld R) T x 2 0 = -T.sin x := by simp [Gen.M4.rotateY, ofRows]
@[simp] theorem rotateY_21 (T : Trig R) (x : R) : Gen.M4.rotateY (fld R) T x 2 1 = 0 := by simp [Gen.M4.rotateY, ofRows]
@[simp] theorem rotateY_22 (T : Trig R) (x : R) : Gen.M4.rotateY (fld R) T x 2 2 = T.cos x := by simp [Gen.M4.rotateY, ofRows]
@[simp] theorem rotateY_23 (T : Trig R) (x : R) : Gen.M4.rotateY (fld R) T x 2 3 = 0 := by simp [Gen.M4.rotateY, ofRows]
@[simp] theorem rotateY_30 (T : Trig R) (x : R) : Gen.M4.rotateY (fld R) T x 3 0 = 0 := by simp [Gen.M4.rotateY, ofRows]
@[simp] theorem rotateY_31 (T : Trig R) (x : R) : Gen.M4.rotateY (fld R) T x 3 1 = 0 := by simp [Gen.M4.rotateY, ofRows]
@[simp] theorem rotateY_32 (T : Trig R) (x : R) : Gen.M4.rotateY (fld R) T x 3 2 = 0 := by simp [Gen.M4.rotateY, ofRows]
@[simp] theorem rotateY_33 (T : Trig R) (x : R) : Gen.M4.rotateY (fld R) T x 3 3 = 1 := by simp [Gen.M4.rotateY, ofRows]
@[simp] theorem rotateZ_00 (T : Trig R) (x : R) : Gen.M4.rotateZ (fld R) T x 0 0 = T.cos x := by simp [Gen.M4.rotateZ, ofRows]
@[simp] theorem rotateZ_01 (T : Trig R) (x : R) : Gen.M4.rotateZ (fld R) T x 0 1 = -T.sin x := by simp [Gen.M4.rotateZ, ofRows]
@[simp] theorem rotateZ_02 (T : Trig R) (x : R) : Gen.M4.rotateZ (fld R) T x 0 2 = 0 := by simp [Gen.M4.rotateZ, ofRows]
@[simp] theorem rotateZ_03 (T : Trig R) (x : R) : Gen.M4.rotateZ (fld R) T x 0 3 = 0 := by simp [Gen.M4.rotateZ, ofRows]
@[simp] theorem rotateZ_10 (T : Trig R) (x : R) : Gen.M4.rotateZ (fld R) T x 1 0 = T.sin x := by simp [Gen.M4.rotateZ, ofRows]
@[simp] theorem rotateZ_11 (T : Trig R) (x : R) : Gen.M4.rotateZ (fld R) T x 1 1 = T.cos x := by simp [Gen.M4.rotateZ, ofRows]
@[simp] theorem rotateZ_12 (T : Trig R) (x : R) : Gen.M4.rotateZ (fld R) T x 1 2 = 0 := by simp [Gen.M4.rotateZ, ofRows]
@[simp] theorem rotateZ_13 (T : Trig R) (x : R) : Gen.M4.rotateZ (fld R) T x 1 3 = 0 := by simp [Gen.M4.rotateZ, ofRows]
@[simp] theorem rotateZ_20 (T : Trig R) (x : R) : Gen.M4.rotateZ (fld R) T x 2 0 = 0 := by simp [Gen.M4.rotateZ, ofRows]
@[simp] theorem rotateZ_21 (T : Trig R) (x : R) : Gen.M4.rotateZ (fld R) T x 2 1 = 0 := by simp [Gen.M4.rotateZ, ofRows]
@[simp] theorem rotateZ_22 (T : Trig R) (x : R) : Gen.M4.rotateZ (fld R) T x 2 2 = 1 := by simp [Gen.M4.rotateZ, ofRows]
@[simp] theorem rotateZ_23 (T : Trig R) (x : R) : Gen.M4.rotateZ (fld R) T x 2 3 = 0 := by simp [Gen.M4.rotateZ, ofRows]
@[simp] theorem rotateZ_30 (T : Trig R) (x : R) : Gen.M4.rotateZ (fld R) T x 3 0 = 0 := by simp [Gen.M4.rotateZ, ofRows]
@[simp] theorem rotateZ_31 (T : Trig R) (x : R) : Gen.M4.rotateZ (fld R) T x 3 1 = 0 := by simp [Gen.M4.rotateZ, ofRows]
@[simp] theorem rotateZ_32 (T : Trig R) (x : R) : Gen.M4.rotateZ (fld R) T x 3 2 = 0 := by simp [Gen.M4.rotateZ, ofRows]
@[simp] theorem rotateZ_33 (T : Trig R) (x : R) : Gen.M4.rotateZ (fld R) T x 3 3 = 1 := by simp [Gen.M4.rotateZ, ofRows]
@[simp] theorem rotateAxis_0 (T : Trig R) (x : R) : Gen.M4.rotateAxis (fld R) T 0 x = Gen.M4.rotateX (fld R) T x := by simp [Gen.M4.rotateAxis]
@[simp] theorem rotateAxis_1 (T : Trig R) (x : R) : Gen.M4.rotateAxis (fld R) T 1 x = Gen.M4.rotateY (fld R) T x := by simp [Gen.M4.rotateAxis]
@[simp] theorem rotateAxis_2 (T : Trig R) (x : R) : Gen.M4.rotateAxis (fld R) T 2 x = Gen.M4.rotateZ (fld R) T x := by simp [Gen.M4.rotateAxis]

end entries

section euler
variable {R : Type} [Field R] [LinearOrder R] [IsStrictOrderedRing R]

/-- sign used by `eulerAngles` for the Tait–Bryan orders -/
def tbSign (a0 a1 : Nat) : R := if (a1 + 3 - a0) % 3 = 1 then -1 else 1

set_option maxHeartbeats 4000000 in
theorem tb_entries (T : Trig R) (r : V3 R) (a0 a1 a2 : Nat) (h0 : a0 < 3) (h1 : a1 < 3) (h2 : a2 < 3)
    (h01 : a0 ≠ a1) (h12 : a1 ≠ a2) (h02 : a0 ≠ a2) :
    let M := Gen.M4.rotateE (fld R) T r a0 a1 a2
    (-(tbSign a0 a1 : R)) * M a0 a2 = T.sin r.y ∧
    tbSign a0 a1 * M a1 a2 = T.sin r.x * T.cos r.y ∧ M a2 a2 = T.cos r.x * T.cos r.y ∧
    tbSign a0 a1 * M a0 a1 = T.sin r.z * T.cos r.y ∧ M a0 a0 = T.cos r.z * T.cos r.y := by
  interval_cases a0 <;> interval_cases a1 <;> interval_cases a2 <;> simp at h01 h12 h02 <;>
    simp [tbSign, Gen.M4.rotateE, Gen.M4.rotateAxis, Gen.M4.rotateX, Gen.M4.rotateY, Gen.M4.rotateZ, Gen.M4.mul, Gen.M4.mulEntry, ofRows] <;>
    (split_ands <;> ring)

set_option maxHeartbeats 8000000 in
theorem tb_compose (T : Trig R) (r r' : V3 R) (ε : R) (hε : ε = 1 ∨ ε = -1)
    (hx : T.sin r'.x = ε * T.sin r.x ∧ T.cos r'.x = ε * T.cos r.x)
    (hy : T.sin r'.y = T.sin r.y ∧ T.cos r'.y = ε * T.cos r.y)
    (hz : T.sin r'.z = ε * T.sin r.z ∧ T.cos r'.z = ε * T.cos r.z)
    (a0 a1 a2 : Nat) (h0 : a0 < 3) (h1 : a1 < 3) (h2 : a2 < 3) (h01 : a0 ≠ a1) (h12 : a1 ≠ a2) (h02 : a0 ≠ a2) :
    toM4 (Gen.M4.rotateE (fld R) T r' a0 a1 a2) = toM4 (Gen.M4.rotateE (fld R) T r a0 a1 a2) := by
  obtain ⟨hx1, hx2⟩ := hx
  obtain ⟨hy1, hy2⟩ := hy
  obtain ⟨hz1, hz2⟩ := hz
  rcases hε with rfl | rfl
  · simp only [one_mul] at hx1 hx2 hy2 hz1 hz2
    simp only [Gen.M4.rotateE, Gen.M4.rotateAxis, Gen.M4.rotateX, Gen.M4.rotateY, Gen.M4.rotateZ, hx1, hx2, hy1, hy2, hz1, hz2]
  · ext i j
    interval_cases a0 <;> interval_cases a1 <;> interval_cases a2 <;> simp at h01 h12 h02 <;>
      fin_cases i <;> fin_cases j <;>
      simp [toM4, Gen.M4.rotateE, Gen.M4.mul, Gen.M4.mulEntry, hx1, hx2, hy1, hy2, hz1, hz2] <;> ring

theorem pos_root_unique {a b : R} (ha : 0 ≤ a) (hb : 0 < b) (h : a * a = b * b) : a = b := by
  have : (a - b) * (a + b) = 0 := by linear_combination h
  rcases mul_eq_zero.mp this with h1 | h1
  · linarith
  · linarith

theorem tbSign_sq (a0 a1 : Nat) : (tbSign a0 a1 : R) = 1 ∨ (tbSign a0 a1 : R) = -1 := by
  unfold tbSign; split <;> simp

/-- sign used by `eulerAngles` for the proper Euler orders (first axis = third axis) -/
def peSign (a0 a1 : Nat) : R := if (a1 + 3 - a0) % 3 = 2 then -1 else 1

theorem peSign_sq (a0 a1 : Nat) : (peSign a0 a1 : R) = 1 ∨ (peSign a0 a1 : R) = -1 := by
  unfold peSign; split <;> simp

set_option maxHeartbeats 4000000 in
theorem pe_entries (T : Trig R) (r : V3 R) (a0 a1 : Nat) (h0 : a0 < 3) (h1 : a1 < 3) (h01 : a0 ≠ a1) :
    let M := Gen.M4.rotateE (fld R) T r a0 a1 a0
    M a0 a0 = T.cos r.y ∧
    M a1 a0 = T.sin r.x * T.sin r.y ∧ (-(peSign a0 a1 : R)) * M (3 - a0 - a1) a0 = T.cos r.x * T.sin r.y ∧
    M a0 a1 = T.sin r.z * T.sin r.y ∧ peSign a0 a1 * M a0 (3 - a0 - a1) = T.cos r.z * T.sin r.y := by
  interval_cases a0 <;> interval_cases a1 <;> simp at h01 <;>
    simp [peSign, Gen.M4.rotateE, Gen.M4.mul, Gen.M4.mulEntry] <;>
    (split_ands <;> ring)

set_option maxHeartbeats 8000000 in
theorem pe_compose (T : Trig R) (r r' : V3 R) (ε : R) (hε : ε = 1 ∨ ε = -1)
    (hx : T.sin r'.x = ε * T.sin r.x ∧ T.cos r'.x = ε * T.cos r.x)
    (hy : T.sin r'.y = ε * T.sin r.y ∧ T.cos r'.y = T.cos r.y)
    (hz : T.sin r'.z = ε * T.sin r.z ∧ T.cos r'.z = ε * T.cos r.z)
    (a0 a1 : Nat) (h0 : a0 < 3) (h1 : a1 < 3) (h01 : a0 ≠ a1) :
    toM4 (Gen.M4.rotateE (fld R) T r' a0 a1 a0) = toM4 (Gen.M4.rotateE (fld R) T r a0 a1 a0) := by
  obtain ⟨hx1, hx2⟩ := hx
  obtain ⟨hy1, hy2⟩ := hy
  obtain ⟨hz1, hz2⟩ := hz
  rcases hε with rfl | rfl
  · simp only [one_mul] at hx1 hx2 hy1 hz1 hz2
    simp only [Gen.M4.rotateE, Gen.M4.rotateAxis, Gen.M4.rotateX, Gen.M4.rotateY, Gen.M4.rotateZ, hx1, hx2, hy1, hy2, hz1, hz2]
  · ext i j
    interval_cases a0 <;> interval_cases a1 <;> simp at h01 <;>
      fin_cases i <;> fin_cases j <;>
      simp [toM4, Gen.M4.rotateE, Gen.M4.mul, Gen.M4.mulEntry, hx1, hx2, hy1, hy2, hz1, hz2] <;> ring

/-! ### after removing the last rotation (`m = M · R[a2](-r0)`), and exactly on the gimbal lock -/

set_option maxHeartbeats 8000000 in
/-- Tait–Bryan: after removing the last rotation (`ψ = -r0`, `(sin r0, cos r0) = ε (sin γ, cos γ)`) the elements read for the
first angle are `ε (sin α, cos α)` -/
theorem tb_strip (T : Trig R) (hu : ∀ x, T.cos x * T.cos x + T.sin x * T.sin x = 1) (r : V3 R) (ψ ε : R) (hε : ε = 1 ∨ ε = -1)
    (hs : T.sin ψ = -(ε * T.sin r.z)) (hc : T.cos ψ = ε * T.cos r.z)
    (a0 a1 a2 : Nat) (h0 : a0 < 3) (h1 : a1 < 3) (h2 : a2 < 3) (h01 : a0 ≠ a1) (h12 : a1 ≠ a2) (h02 : a0 ≠ a2) :
    (-(tbSign a0 a1 : R)) * Gen.M4.mul (fld R) (Gen.M4.rotateE (fld R) T r a0 a1 a2) (Gen.M4.rotateAxis (fld R) T a2 ψ) a2 a1 = ε * T.sin r.x ∧
    Gen.M4.mul (fld R) (Gen.M4.rotateE (fld R) T r a0 a1 a2) (Gen.M4.rotateAxis (fld R) T a2 ψ) a1 a1 = ε * T.cos r.x := by
  have huz := hu r.z
  rcases hε with rfl | rfl <;>
  interval_cases a0 <;> interval_cases a1 <;> interval_cases a2 <;> simp at h01 h12 h02 <;>
    simp [tbSign, Gen.M4.rotateE, Gen.M4.mul, Gen.M4.mulEntry, hs, hc] <;>
    (constructor <;> first
      | linear_combination (T.sin r.x) * huz | linear_combination (-T.sin r.x) * huz
      | linear_combination (T.cos r.x) * huz | linear_combination (-T.cos r.x) * huz)

set_option maxHeartbeats 8000000 in
/-- proper Euler orders: the same after removing the last rotation about `a0` -/
theorem pe_strip (T : Trig R) (hu : ∀ x, T.cos x * T.cos x + T.sin x * T.sin x = 1) (r : V3 R) (ψ ε : R) (hε : ε = 1 ∨ ε = -1)
    (hs : T.sin ψ = -(ε * T.sin r.z)) (hc : T.cos ψ = ε * T.cos r.z)
    (a0 a1 : Nat) (h0 : a0 < 3) (h1 : a1 < 3) (h01 : a0 ≠ a1) :
    (peSign a0 a1 : R) * Gen.M4.mul (fld R) (Gen.M4.rotateE (fld R) T r a0 a1 a0) (Gen.M4.rotateAxis (fld R) T a0 ψ) (3 - a0 - a1) a1 = ε * T.sin r.x ∧
    Gen.M4.mul (fld R) (Gen.M4.rotateE (fld R) T r a0 a1 a0) (Gen.M4.rotateAxis (fld R) T a0 ψ) a1 a1 = ε * T.cos r.x := by
  have huz := hu r.z
  rcases hε with rfl | rfl <;>
  interval_cases a0 <;> interval_cases a1 <;> simp at h01 <;>
    simp [peSign, Gen.M4.rotateE, Gen.M4.mul, Gen.M4.mulEntry, hs, hc] <;>
    (constructor <;> first
      | linear_combination (T.sin r.x) * huz | linear_combination (-T.sin r.x) * huz
      | linear_combination (T.cos r.x) * huz | linear_combination (-T.cos r.x) * huz)

set_option maxHeartbeats 8000000 in
/-- Tait–Bryan exactly on the lock, nothing removed (`ψ` with `sin ψ = 0`, `cos ψ = 1`): the two elements read for the first
angle form a point of the unit circle -/
theorem tb_lock2_entries (T : Trig R) (hu : ∀ x, T.cos x * T.cos x + T.sin x * T.sin x = 1) (r : V3 R) (σ ψ : R) (hσ : σ = 1 ∨ σ = -1)
    (hs : T.sin r.y = σ) (hc : T.cos r.y = 0) (hs0 : T.sin ψ = 0) (hc0 : T.cos ψ = 1)
    (a0 a1 a2 : Nat) (h0 : a0 < 3) (h1 : a1 < 3) (h2 : a2 < 3) (h01 : a0 ≠ a1) (h12 : a1 ≠ a2) (h02 : a0 ≠ a2) :
    Gen.M4.mul (fld R) (Gen.M4.rotateE (fld R) T r a0 a1 a2) (Gen.M4.rotateAxis (fld R) T a2 ψ) a1 a1 *
      Gen.M4.mul (fld R) (Gen.M4.rotateE (fld R) T r a0 a1 a2) (Gen.M4.rotateAxis (fld R) T a2 ψ) a1 a1 +
    Gen.M4.mul (fld R) (Gen.M4.rotateE (fld R) T r a0 a1 a2) (Gen.M4.rotateAxis (fld R) T a2 ψ) a2 a1 *
      Gen.M4.mul (fld R) (Gen.M4.rotateE (fld R) T r a0 a1 a2) (Gen.M4.rotateAxis (fld R) T a2 ψ) a2 a1 = 1 := by
  have hua := hu r.x
  have hug := hu r.z
  rcases hσ with rfl | rfl <;>
  interval_cases a0 <;> interval_cases a1 <;> interval_cases a2 <;> simp at h01 h12 h02 <;>
    simp [Gen.M4.rotateE, Gen.M4.mul, Gen.M4.mulEntry, hs, hc, hs0, hc0] <;>
    linear_combination (T.cos r.z * T.cos r.z + T.sin r.z * T.sin r.z) * hua + hug

set_option maxHeartbeats 8000000 in
theorem tb_lock2_compose (T : Trig R) (r r' : V3 R) (σ ψ : R) (hσ : σ = 1 ∨ σ = -1)
    (hs : T.sin r.y = σ) (hc : T.cos r.y = 0) (hs0 : T.sin ψ = 0) (hc0 : T.cos ψ = 1)
    (a0 a1 a2 : Nat) (h0 : a0 < 3) (h1 : a1 < 3) (h2 : a2 < 3) (h01 : a0 ≠ a1) (h12 : a1 ≠ a2) (h02 : a0 ≠ a2)
    (hx : T.sin r'.x = -(tbSign a0 a1 : R) * Gen.M4.mul (fld R) (Gen.M4.rotateE (fld R) T r a0 a1 a2) (Gen.M4.rotateAxis (fld R) T a2 ψ) a2 a1 ∧
          T.cos r'.x = Gen.M4.mul (fld R) (Gen.M4.rotateE (fld R) T r a0 a1 a2) (Gen.M4.rotateAxis (fld R) T a2 ψ) a1 a1)
    (hy : T.sin r'.y = σ ∧ T.cos r'.y = 0)
    (hz : T.sin r'.z = 0 ∧ T.cos r'.z = 1) :
    toM4 (Gen.M4.rotateE (fld R) T r' a0 a1 a2) = toM4 (Gen.M4.rotateE (fld R) T r a0 a1 a2) := by
  obtain ⟨hx1, hx2⟩ := hx
  obtain ⟨hy1, hy2⟩ := hy
  obtain ⟨hz1, hz2⟩ := hz
  ext i j
  rcases hσ with rfl | rfl <;>
  interval_cases a0 <;> interval_cases a1 <;> interval_cases a2 <;> simp at h01 h12 h02 <;>
    simp [tbSign, Gen.M4.rotateE, Gen.M4.mul, Gen.M4.mulEntry, hs, hc, hs0, hc0] at hx1 hx2 <;>
    fin_cases i <;> fin_cases j <;>
    simp [toM4, Gen.M4.rotateE, Gen.M4.mul, Gen.M4.mulEntry, hx1, hx2, hy1, hy2, hz1, hz2, hs, hc] <;> ring

set_option maxHeartbeats 8000000 in
theorem pe_lock2_entries (T : Trig R) (hu : ∀ x, T.cos x * T.cos x + T.sin x * T.sin x = 1) (r : V3 R) (σ ψ : R) (hσ : σ = 1 ∨ σ = -1)
    (hs : T.sin r.y = 0) (hc : T.cos r.y = σ) (hs0 : T.sin ψ = 0) (hc0 : T.cos ψ = 1)
    (a0 a1 : Nat) (h0 : a0 < 3) (h1 : a1 < 3) (h01 : a0 ≠ a1) :
    Gen.M4.mul (fld R) (Gen.M4.rotateE (fld R) T r a0 a1 a0) (Gen.M4.rotateAxis (fld R) T a0 ψ) a1 a1 *
      Gen.M4.mul (fld R) (Gen.M4.rotateE (fld R) T r a0 a1 a0) (Gen.M4.rotateAxis (fld R) T a0 ψ) a1 a1 +
    Gen.M4.mul (fld R) (Gen.M4.rotateE (fld R) T r a0 a1 a0) (Gen.M4.rotateAxis (fld R) T a0 ψ) (3 - a0 - a1) a1 *
      Gen.M4.mul (fld R) (Gen.M4.rotateE (fld R) T r a0 a1 a0) (Gen.M4.rotateAxis (fld R) T a0 ψ) (3 - a0 - a1) a1 = 1 := by
  have hua := hu r.x
  have hug := hu r.z
  rcases hσ with rfl | rfl <;>
  interval_cases a0 <;> interval_cases a1 <;> simp at h01 <;>
    simp [Gen.M4.rotateE, Gen.M4.mul, Gen.M4.mulEntry, hs, hc, hs0, hc0] <;>
    linear_combination (T.cos r.z * T.cos r.z + T.sin r.z * T.sin r.z) * hua + hug

set_option maxHeartbeats 8000000 in
theorem pe_lock2_compose (T : Trig R) (r r' : V3 R) (σ ψ : R) (hσ : σ = 1 ∨ σ = -1)
    (hs : T.sin r.y = 0) (hc : T.cos r.y = σ) (hs0 : T.sin ψ = 0) (hc0 : T.cos ψ = 1)
    (a0 a1 : Nat) (h0 : a0 < 3) (h1 : a1 < 3) (h01 : a0 ≠ a1)
    (hx : T.sin r'.x = (peSign a0 a1 : R) * Gen.M4.mul (fld R) (Gen.M4.rotateE (fld R) T r a0 a1 a0) (Gen.M4.rotateAxis (fld R) T a0 ψ) (3 - a0 - a1) a1 ∧
          T.cos r'.x = Gen.M4.mul (fld R) (Gen.M4.rotateE (fld R) T r a0 a1 a0) (Gen.M4.rotateAxis (fld R) T a0 ψ) a1 a1)
    (hy : T.sin r'.y = 0 ∧ T.cos r'.y = σ)
    (hz : T.sin r'.z = 0 ∧ T.cos r'.z = 1) :
    toM4 (Gen.M4.rotateE (fld R) T r' a0 a1 a0) = toM4 (Gen.M4.rotateE (fld R) T r a0 a1 a0) := by
  obtain ⟨hx1, hx2⟩ := hx
  obtain ⟨hy1, hy2⟩ := hy
  obtain ⟨hz1, hz2⟩ := hz
  ext i j
  rcases hσ with rfl | rfl <;>
  interval_cases a0 <;> interval_cases a1 <;> simp at h01 <;>
    simp [peSign, Gen.M4.rotateE, Gen.M4.mul, Gen.M4.mulEntry, hs, hc, hs0, hc0] at hx1 hx2 <;>
    fin_cases i <;> fin_cases j <;>
    simp [toM4, Gen.M4.rotateE, Gen.M4.mul, Gen.M4.mulEntry, hx1, hx2, hy1, hy2, hz1, hz2, hs, hc] <;> ring

end euler

end AslProofs.Euler
