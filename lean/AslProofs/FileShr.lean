import AslModel.FileText

/-! helper lemmas for C17: the read loop of `File::operator>>(String&)` (`AslModel.FileText.shrLoop`) -/
namespace AslProofs.FileShr
open AslModel.FileText

/-- at least `n` bytes left: exactly the next `n` bytes, whatever the buffer size; the end-of-file indicator is untouched -/
theorem shrLoop_take (blk : Nat) (hb : 1 ≤ blk) (n : Nat) : ∀ (rest : Bytes) (e : Bool) (acc : Bytes), n ≤ rest.length →
    shrLoop blk { rest := rest, eof := e } n acc = (acc ++ rest.take n, { rest := rest.drop n, eof := e }) := by
  induction n using Nat.strongRecOn with
  | _ n ih =>
    intro rest e acc hn
    rw [shrLoop]
    by_cases h0 : n = 0
    · subst h0; simp
    · have hk : min n blk ≤ rest.length := by omega
      have hk1 : 1 ≤ min n blk := by omega
      have hlen : (rest.take (min n blk)).length = min n blk := by simp [List.length_take]; omega
      have hd : decide (rest.length < min n blk) = false := by simp; omega
      simp only [h0, dite_false, fread, hlen, hd, Bool.or_false]
      have hne : ¬ (min n blk = 0) := by omega
      simp only [hne, dite_false]
      rw [ih (n - min n blk) (by omega) (rest.drop (min n blk)) e _ (by simp [List.length_drop]; omega)]
      have hsplit : n = min n blk + (n - min n blk) := by omega
      simp only [List.drop_drop, List.append_assoc]
      congr 1
      · congr 1
        conv => rhs; rw [hsplit, List.take_add]
      · congr 1
        congr 1
        omega

/-- fewer bytes than announced: the bytes that are there, end-of-file set -/
theorem shrLoop_short (blk : Nat) (hb : 1 ≤ blk) (n : Nat) : ∀ (rest : Bytes) (e : Bool) (acc : Bytes), rest.length < n →
    shrLoop blk { rest := rest, eof := e } n acc = (acc ++ rest, { rest := [], eof := true }) := by
  induction n using Nat.strongRecOn with
  | _ n ih =>
    intro rest e acc hn
    rw [shrLoop]
    have h0 : ¬ (n = 0) := by omega
    have hf : fread (min n blk) { rest := rest, eof := e } =
        (rest.take (min n blk), { rest := rest.drop (min n blk), eof := e || decide (rest.length < min n blk) }) := rfl
    rw [hf]
    simp only [h0, dite_false]
    by_cases hr : rest = []
    · subst hr
      have : 0 < min n blk := by omega
      simp [this]
    · have hpos : 0 < rest.length := List.length_pos_iff.mpr hr
      have hlen : (rest.take (min n blk)).length = min (min n blk) rest.length := by simp [List.length_take]
      have hne : ¬ ((rest.take (min n blk)).length = 0) := by rw [hlen]; omega
      simp only [hne, dite_false]
      rw [ih (n - (rest.take (min n blk)).length) (by rw [hlen]; omega) (rest.drop (min n blk)) _ _
        (by rw [hlen]; simp only [List.length_drop]; omega)]
      simp only [List.append_assoc, List.take_append_drop]

end AslProofs.FileShr
