import AslModel.FileText
import AslProofs.Bits
import AslProofs.FileTextUtf
/-!
# C17 — helper lemmas for the File/TextFile model (core Lean only)

`rlSpec` / `linesRef` describe `readLine` / `lines()` byte by byte, without chunks; `readLineLoop_eq` and
`lines_eq` show that the chunk loops of the model compute them for every chunk size.  The property file
then relates the byte-by-byte descriptions to the independent split-at-LF specification.
-/
namespace AslProofs.FileText
open AslModel.FileText Gen.File

/-- one `readLine` call described byte by byte (no chunks): `racc` is the line so far, reversed -/
def rlSpec : Bytes → Bytes → Bool → (Bytes × Bool) × RStream
  | racc, [], _ => ((racc.reverse, false), ⟨[], true⟩)
  | racc, c :: t, e => if c = 10 then (((dropCR racc).reverse, true), ⟨t, e⟩) else rlSpec (c :: racc) t e

theorem rlSpec_nil (racc : Bytes) (e e' : Bool) : rlSpec racc [] e = rlSpec racc [] e' := by
  simp [rlSpec]

theorem getLast?_cons_ne {c : UInt8} {l : Bytes} (hc : c ≠ 10) :
    (c :: l).getLast? = some 10 ↔ l.getLast? = some 10 := by
  cases l with
  | nil => simp [hc]
  | cons a t => simp [List.getLast?_cons_cons]

/-- what one `fgets` does, in terms of the byte-by-byte description -/
theorem fgets_rlSpec (k : Nat) (racc rest : Bytes) (e : Bool) :
    ((fgetsAux k rest).1.getLast? = some 10 →
      rlSpec racc rest e = (((dropCR ((fgetsAux k rest).1.dropLast.reverse ++ racc)).reverse, true), ⟨(fgetsAux k rest).2.1, e⟩)
      ∧ (fgetsAux k rest).2.2 = false) ∧
    ((fgetsAux k rest).1.getLast? ≠ some 10 →
      rlSpec racc rest e = rlSpec ((fgetsAux k rest).1.reverse ++ racc) (fgetsAux k rest).2.1 e
      ∧ ((fgetsAux k rest).2.2 = true → (fgetsAux k rest).2.1 = [])) := by
  induction k generalizing racc rest with
  | zero => simp [fgetsAux]
  | succ k ih =>
    cases rest with
    | nil => simp [fgetsAux]
    | cons c t =>
      by_cases hc : c = 10
      · subst hc
        simp [fgetsAux, rlSpec]
      · have ih' := ih (c :: racc) t
        simp only [fgetsAux, hc, if_false]
        constructor
        · intro h
          rw [getLast?_cons_ne hc] at h
          have hne : (fgetsAux k t).1 ≠ [] := by
            intro h0; rw [h0] at h; simp at h
          obtain ⟨h1, h2⟩ := ih'.1 h
          refine ⟨?_, h2⟩
          rw [rlSpec, if_neg hc, h1]
          rw [List.dropLast_cons_of_ne_nil hne]
          simp
        · intro h
          rw [Ne, getLast?_cons_ne hc] at h
          obtain ⟨h1, h2⟩ := ih'.2 h
          refine ⟨?_, h2⟩
          rw [rlSpec, if_neg hc, h1]
          simp


theorem rev_cases (l : Bytes) (h : l ≠ []) :
    ∃ y ys, l.reverse = y :: ys ∧ l.getLast? = some y ∧ l.dropLast = ys.reverse := by
  cases hrev : l.reverse with
  | nil => simp at hrev; exact absurd hrev h
  | cons y ys =>
    have hl : l = ys.reverse ++ [y] := by
      have := congrArg List.reverse hrev
      simpa using this
    refine ⟨y, ys, rfl, ?_, ?_⟩
    · rw [hl]; simp
    · rw [hl]; simp

theorem fgetsAux_append (k : Nat) (rest : Bytes) : (fgetsAux k rest).1 ++ (fgetsAux k rest).2.1 = rest := by
  induction k generalizing rest with
  | zero => simp [fgetsAux]
  | succ k ih =>
    cases rest with
    | nil => simp [fgetsAux]
    | cons c t =>
      simp only [fgetsAux]
      split
      · simp
      · simp [ih t]

theorem takeWhile_nulfree (l : Bytes) (h : ∀ b ∈ l, b ≠ 0) : l.takeWhile (· != 0) = l := by
  induction l with
  | nil => rfl
  | cons a t ih =>
    have ha : a ≠ 0 := h a (by simp)
    simp only [List.takeWhile_cons, bne_iff_ne, ne_eq, ha, not_false_eq_true, if_true]
    rw [ih (fun b hb => h b (by simp [hb]))]

theorem fgetsAux_lf_last (k : Nat) (rest : Bytes) : ∀ b ∈ (fgetsAux k rest).1.dropLast, b ≠ 10 := by
  induction k generalizing rest with
  | zero => simp [fgetsAux]
  | succ k ih =>
    cases rest with
    | nil => simp [fgetsAux]
    | cons c t =>
      simp only [fgetsAux]
      split
      · simp
      · rename_i hc
        intro b hb
        cases hch : (fgetsAux k t).1 with
        | nil => simp [hch] at hb
        | cons y ys =>
          rw [hch] at hb
          rw [List.dropLast_cons_of_ne_nil (by simp)] at hb
          rcases List.mem_cons.mp hb with rfl | hb
          · exact hc
          · exact ih t b (by rw [hch]; exact hb)

theorem mem_takeWhile_or (ch r : Bytes) (hdl : ∀ b ∈ ch.dropLast, b ≠ 10) :
    ∀ b ∈ ch, b ∈ (ch ++ r).takeWhile (· != 10) ∨ b = 10 := by
  induction ch with
  | nil => simp
  | cons x t ih =>
    cases t with
    | nil =>
      intro b hb
      simp only [List.mem_singleton] at hb
      subst hb
      by_cases h10 : b = 10
      · right; exact h10
      · left; simp [h10]
    | cons y ys =>
      have hx : x ≠ 10 := hdl x (by simp [List.dropLast_cons_cons])
      have ih' := ih (fun b hb => hdl b (by simp only [List.dropLast_cons_cons]; exact List.mem_cons_of_mem _ hb))
      intro b hb
      rcases List.mem_cons.mp hb with rfl | hb
      · left; simp [List.takeWhile_cons, hx]
      · rcases ih' b hb with h | h
        · left
          rw [show (x :: y :: ys) ++ r = x :: ((y :: ys) ++ r) from rfl,
            List.takeWhile_cons_of_pos (by simpa using hx)]
          exact List.mem_cons_of_mem _ h
        · right; exact h

theorem takeWhile_append_nolf (ch r : Bytes) (h : ∀ b ∈ ch, b ≠ 10) :
    (ch ++ r).takeWhile (· != 10) = ch ++ r.takeWhile (· != 10) := by
  induction ch with
  | nil => rfl
  | cons x t ih =>
    have hx : x ≠ 10 := h x (by simp)
    simp only [List.cons_append, List.takeWhile_cons, bne_iff_ne, ne_eq, hx, not_false_eq_true, if_true]
    rw [ih (fun b hb => h b (by simp [hb]))]

/-- the chunk loop computes the byte-by-byte description, for every chunk size `k + 2`, as soon as the bytes *before
    the next LF* are NUL-free (nothing behind that LF is looked at) -/
theorem readLineLoop_eq_toLF (k : Nat) (racc : Bytes) (s : RStream) (hz : ∀ b ∈ s.rest.takeWhile (· != 10), b ≠ 0) :
    readLineLoop k racc s = rlSpec racc s.rest s.eof := by
  fun_induction readLineLoop k racc s with
  | case1 racc s r out h =>
    cases hs : s.rest with
    | nil =>
      rw [hs] at h
      simp only [fgetsAux, Prod.mk.injEq] at h
      obtain ⟨-, rfl, rfl⟩ := h
      simp [rlSpec]
    | cons c t =>
      rw [hs] at h
      simp only [fgetsAux] at h
      split at h <;> simp at h
  | case2 racc s c ch r out h vis rall s' hr ih =>
    exfalso
    have hap := fgetsAux_append (k + 1) s.rest
    have hdl := fgetsAux_lf_last (k + 1) s.rest
    rw [h] at hap hdl
    have hc : c ≠ 0 := by
      rcases mem_takeWhile_or (c :: ch) r hdl c (by simp) with hm | hm
      · exact hz c (by rw [← hap]; exact hm)
      · rw [hm]; decide
    have : rall = [] := hr
    simp [rall, vis, hc] at this
  | case3 racc s c ch r out h vis rall s' t hr =>
    have hap := fgetsAux_append (k + 1) s.rest
    have hdl := fgetsAux_lf_last (k + 1) s.rest
    rw [h] at hap hdl
    have hnz : ∀ b ∈ c :: ch, b ≠ 0 := by
      intro b hb
      rcases mem_takeWhile_or (c :: ch) r hdl b hb with hm | hm
      · exact hz b (by rw [← hap]; exact hm)
      · rw [hm]; decide
    have hvis : vis = c :: ch := takeWhile_nulfree _ hnz
    have hf := (fgets_rlSpec (k + 1) racc s.rest s.eof).1
    rw [h] at hf
    obtain ⟨y, ys, hrev, hlast, hdrop⟩ := rev_cases (c :: ch) (by simp)
    have hr' : y :: (ys ++ racc) = 10 :: t := by
      have : rall = 10 :: t := hr
      simp only [rall, hvis, hrev, List.cons_append] at this
      exact this
    obtain ⟨rfl, rfl⟩ := List.cons.inj hr'
    obtain ⟨h1, h2⟩ := hf hlast
    simp only at h1 h2
    subst h2
    rw [h1, hdrop]
    simp [s']
  | case4 racc s c ch r out h vis rall s' x t hr hx ih =>
    have hap := fgetsAux_append (k + 1) s.rest
    have hdl := fgetsAux_lf_last (k + 1) s.rest
    rw [h] at hap hdl
    have hnz : ∀ b ∈ c :: ch, b ≠ 0 := by
      intro b hb
      rcases mem_takeWhile_or (c :: ch) r hdl b hb with hm | hm
      · exact hz b (by rw [← hap]; exact hm)
      · rw [hm]; decide
    have hvis : vis = c :: ch := takeWhile_nulfree _ hnz
    have hf := (fgets_rlSpec (k + 1) racc s.rest s.eof).2
    rw [h] at hf
    obtain ⟨y, ys, hrev, hlast, hdrop⟩ := rev_cases (c :: ch) (by simp)
    have hr' : y :: (ys ++ racc) = x :: t := by
      have : rall = x :: t := hr
      simp only [rall, hvis, hrev, List.cons_append] at this
      exact this
    obtain ⟨rfl, rfl⟩ := List.cons.inj hr'
    have hl : (c :: ch).getLast? ≠ some 10 := by
      rw [hlast]; intro h'; exact hx (Option.some.inj h')
    -- the chunk holds no LF at all, so the bytes before the next LF of what is left are among those of `s.rest`
    have hnolf : ∀ b ∈ c :: ch, b ≠ 10 := by
      intro b hb
      have e : c :: ch = (c :: ch).dropLast ++ [y] := by
        obtain ⟨zs, hzs⟩ := List.getLast?_eq_some_iff.mp hlast
        rw [hzs]; simp
      rw [e] at hb
      rcases List.mem_append.mp hb with hb | hb
      · exact hdl b hb
      · simp only [List.mem_singleton] at hb; rw [hb]; exact hx
    have hzr : ∀ b ∈ s'.rest.takeWhile (· != 10), b ≠ 0 := by
      intro b hb
      apply hz b
      rw [← hap, takeWhile_append_nolf _ _ hnolf]
      exact List.mem_append_right _ hb
    obtain ⟨h1, h2⟩ := hf hl
    simp only at h1 h2
    rw [ih hzr, h1]
    simp only [s']
    cases out with
    | false => simp [rall, hvis]
    | true =>
      rw [h2 rfl]
      simp only [rall, hvis]
      exact rlSpec_nil _ _ _

/-- on NUL-free content the chunk loop computes the byte-by-byte description -/
theorem readLineLoop_eq (k : Nat) (racc : Bytes) (s : RStream) (hz : ∀ b ∈ s.rest, b ≠ 0) :
    readLineLoop k racc s = rlSpec racc s.rest s.eof :=
  readLineLoop_eq_toLF k racc s (fun b hb => hz b (List.takeWhile_subset _ hb))

/-! ## `lines()` -/

/-- all lines, byte by byte: `racc` is the current line reversed -/
def linesRef : Bytes → Bytes → List Bytes
  | racc, [] => [racc.reverse]
  | racc, c :: t => if c = 10 then (dropCR racc).reverse :: linesRef [] t else linesRef (c :: racc) t

theorem rlSpec_inv (racc rest : Bytes) (e : Bool) (h : e = true → rest = []) :
    (rlSpec racc rest e).2.eof = true → (rlSpec racc rest e).2.rest = [] := by
  induction rest generalizing racc with
  | nil => simp [rlSpec]
  | cons c t ih =>
    have he : e = false := by cases e <;> simp_all
    subst he
    by_cases hc : c = 10
    · simp [rlSpec, hc]
    · simp only [rlSpec, hc, if_false]
      exact ih (c :: racc) (by simp)

theorem rlSpec_rest_mem (racc rest : Bytes) (e : Bool) : ∀ b ∈ (rlSpec racc rest e).2.rest, b ∈ rest := by
  induction rest generalizing racc with
  | nil => simp [rlSpec]
  | cons c t ih =>
    by_cases hc : c = 10
    · simp only [rlSpec, hc, if_true]
      intro b hb; exact List.mem_cons_of_mem _ hb
    · simp only [rlSpec, hc, if_false]
      intro b hb; exact List.mem_cons_of_mem _ (ih (c :: racc) b hb)

theorem rlSpec_lines (racc rest : Bytes) :
    (rlSpec racc rest false).1.1 ::
      (if (rlSpec racc rest false).2.eof = true then [] else linesRef [] (rlSpec racc rest false).2.rest)
    = linesRef racc rest := by
  induction rest generalizing racc with
  | nil => simp [rlSpec, linesRef]
  | cons c t ih =>
    by_cases hc : c = 10
    · simp [rlSpec, linesRef, hc]
    · simp only [rlSpec, linesRef, hc, if_false]
      exact ih (c :: racc)

theorem linesLoop_eq (k : Nat) (s : RStream) (acc : List Bytes) (hinv : s.eof = true → s.rest = [])
    (hz : ∀ b ∈ s.rest, b ≠ 0) :
    linesLoop k s acc = acc.reverse ++ (if s.eof = true then [] else linesRef [] s.rest) := by
  fun_induction linesLoop k s acc with
  | case1 s acc h => simp [h]
  | case2 s acc h r ih =>
    have he : s.eof = false := by cases hh : s.eof <;> simp_all
    have hr : r = rlSpec [] s.rest false := by
      simp only [r]; rw [readLineLoop_eq _ _ _ hz, he]
    rw [ih (by rw [hr]; exact rlSpec_inv [] s.rest false (by simp))
      (by rw [hr]; exact fun b hb => hz b (rlSpec_rest_mem _ _ _ b hb))]
    simp only [he, Bool.false_eq_true, if_false, List.reverse_cons, List.append_assoc, List.singleton_append]
    rw [hr, rlSpec_lines]

/-- `lines()` of NUL-free content, for every chunk size ≥ 2, is the byte-by-byte description -/
theorem lines_eq (chunk : Nat) (content : Bytes) (hz : ∀ b ∈ content, b ≠ 0) : lines chunk content = linesRef [] content := by
  unfold lines
  rw [linesLoop_eq _ _ _ (by simp) hz]
  simp

/-! ## the loop `while (readLine(s))` -/

/-- one byte-by-byte call against all lines: a `true` call delivers the first line and leaves the rest; a `false` call
    leaves the only (last) piece and the stream at its end -/
theorem rlSpec_while (racc rest : Bytes) (e : Bool) :
    ((rlSpec racc rest e).1.2 = true →
        linesRef racc rest = (rlSpec racc rest e).1.1 :: linesRef [] (rlSpec racc rest e).2.rest) ∧
    ((rlSpec racc rest e).1.2 = false →
        linesRef racc rest = [(rlSpec racc rest e).1.1] ∧ (rlSpec racc rest e).2 = ⟨[], true⟩) := by
  induction rest generalizing racc with
  | nil => simp [rlSpec, linesRef]
  | cons c t ih =>
    by_cases hc : c = 10
    · simp [rlSpec, linesRef, hc]
    · simp only [rlSpec, linesRef, hc, if_false]
      exact ih (c :: racc)

theorem readWhileLoop_eq (k : Nat) (s : RStream) (acc : List Bytes) (hz : ∀ b ∈ s.rest, b ≠ 0) :
    (readWhileLoop k s acc).1.1 ++ [(readWhileLoop k s acc).1.2] = acc.reverse ++ linesRef [] s.rest ∧
    (readWhileLoop k s acc).2 = ⟨[], true⟩ := by
  fun_induction readWhileLoop k s acc with
  | case1 s acc r h ih =>
    have hr : r = rlSpec [] s.rest s.eof := by simp only [r]; rw [readLineLoop_eq _ _ _ hz]
    have hw := (rlSpec_while [] s.rest s.eof).1 (by rw [← hr]; exact h)
    have ih' := ih (by rw [hr]; exact fun b hb => hz b (rlSpec_rest_mem _ _ _ b hb))
    refine ⟨?_, ih'.2⟩
    rw [ih'.1, hw, ← hr]
    simp
  | case2 s acc r h =>
    have hr : r = rlSpec [] s.rest s.eof := by simp only [r]; rw [readLineLoop_eq _ _ _ hz]
    have hf : r.1.2 = false := by cases hh : r.1.2 <;> simp_all
    have hw := (rlSpec_while [] s.rest s.eof).2 (by rw [← hr]; exact hf)
    rw [← hr] at hw
    exact ⟨by rw [hw.1], hw.2⟩

/-! ## `text()`: the UTF-16 unit loops -/

/-- little-endian / big-endian bytes of 16-bit units -/
def le16 (us : List Nat) : Bytes := us.flatMap fun u => [UInt8.ofNat (u % 256), UInt8.ofNat (u / 256)]
def be16 (us : List Nat) : Bytes := us.flatMap fun u => [UInt8.ofNat (u / 256), UInt8.ofNat (u % 256)]

theorem unit_join (u : Nat) (h : u < 65536) :
    (UInt8.ofNat (u % 256)).toNat ||| ((UInt8.ofNat (u / 256)).toNat <<< 8) = u := by
  rw [UInt8.toNat_ofNat', UInt8.toNat_ofNat']
  have h1 : u % 256 % 2 ^ 8 = u % 256 := by omega
  have h2 : u / 256 % 2 ^ 8 = u / 256 := by omega
  rw [h1, h2, Nat.or_comm, AslProofs.Bits.shl_or _ _ 8 (by omega)]
  omega

theorem units_le16 (us : List Nat) (h : ∀ u ∈ us, u < 65536) : units 0 (le16 us) = us := by
  induction us with
  | nil => simp [le16, units]
  | cons u t ih =>
    have hu := h u (by simp)
    have ht := ih (fun v hv => h v (by simp [hv]))
    simp only [le16, List.flatMap_cons, List.cons_append, List.nil_append] at *
    rw [units]
    simp only [if_true, ht, unit_join u hu]

theorem units_be16 (us : List Nat) (h : ∀ u ∈ us, u < 65536) : units 1 (be16 us) = us := by
  induction us with
  | nil => simp [be16, units]
  | cons u t ih =>
    have hu := h u (by simp)
    have ht := ih (fun v hv => h v (by simp [hv]))
    simp only [be16, List.flatMap_cons, List.cons_append, List.nil_append] at *
    rw [units]
    simp only [Nat.one_ne_zero, if_false, ht, unit_join u hu]

/-- CR LF → LF on a sequence of units, looking ahead (the code looks back: it pops the CR when the LF arrives) -/
def foldU : List Nat → List Nat
  | [] => []
  | [a] => [a]
  | a :: b :: t => if a = 13 ∧ b = 10 then foldU (b :: t) else a :: foldU (b :: t)

theorem foldU_cons_ne (x : Nat) (l : List Nat) (h : x ≠ 13) : foldU (x :: l) = x :: foldU l := by
  cases l with
  | nil => simp [foldU]
  | cons y r => simp [foldU, h]

/-- the pop-on-LF loop of `text()` is the look-ahead folding, whatever was stored before -/
theorem fold16_eq (us : List Nat) (c0 : Nat) (ra : List Nat) :
    fold16 us c0 ra = (if c0 = 13 ∧ us.head? = some 10 then ra.tail else ra).reverse ++ foldU us := by
  induction us generalizing c0 ra with
  | nil => simp [fold16, foldU]
  | cons c t ih =>
    rw [fold16, ih]
    simp only [List.head?_cons, Option.some.injEq, List.tail_cons]
    have hcond : (c = 10 ∧ c0 = 13) ↔ (c0 = 13 ∧ c = 10) := And.comm
    cases t with
    | nil =>
      simp only [List.head?_nil, reduceCtorEq, and_false, if_false, List.reverse_cons, foldU, List.append_nil, hcond]
    | cons b r =>
      simp only [List.head?_cons, Option.some.injEq, foldU, hcond]
      by_cases h1 : c = 13 ∧ b = 10
      · simp [h1]
      · simp [h1]

theorem fold16_start (us : List Nat) : fold16 us 0 [] = foldU us := by
  rw [fold16_eq]; simp

/-! ## closed forms of one `readLine` -/

theorem rlSpec_lf (racc pre post : Bytes) (e : Bool) (h : ∀ b ∈ pre, b ≠ 10) :
    rlSpec racc (pre ++ 10 :: post) e = (((dropCR (pre.reverse ++ racc)).reverse, true), ⟨post, e⟩) := by
  induction pre generalizing racc with
  | nil => simp [rlSpec]
  | cons c t ih =>
    have hc : c ≠ 10 := h c (by simp)
    simp only [List.cons_append, rlSpec, hc, if_false]
    rw [ih (c :: racc) (fun b hb => h b (by simp [hb]))]
    simp

theorem rlSpec_nolf (racc rest : Bytes) (e : Bool) (h : ∀ b ∈ rest, b ≠ 10) :
    rlSpec racc rest e = (((rest.reverse ++ racc).reverse, false), ⟨[], true⟩) := by
  induction rest generalizing racc with
  | nil => simp [rlSpec]
  | cons c t ih =>
    have hc : c ≠ 10 := h c (by simp)
    simp only [rlSpec, hc, if_false]
    rw [ih (c :: racc) (fun b hb => h b (by simp [hb]))]
    simp

/-! ## `Directory::copy` block loop -/

theorem copyLoop_id (b : Nat) (src : Bytes) : copyLoop b src = src := by
  fun_induction copyLoop b src with
  | case1 src blk h ih => rw [ih]; exact List.take_append_drop _ _
  | case2 src blk h =>
    simp only [blk] at *
    rw [List.take_of_length_le]
    simp only [List.length_take] at h
    omega

/-! ## what `File::open` / `TextFile::open` do, from the regenerated `fopen` mode strings -/

def smRead : StdioMode := { canRead := true, canWrite := false, trunc := false, create := false, append := false }
def smWrite : StdioMode := { canRead := false, canWrite := true, trunc := true, create := true, append := false }
def smAppend : StdioMode := { canRead := false, canWrite := true, trunc := false, create := true, append := true }
def smUpdate : StdioMode := { canRead := true, canWrite := true, trunc := false, create := false, append := false }

/-- **open_modes**: the mode strings the current source passes to `fopen` mean read / create-truncate /
    create-append / update-existing, with and without the `TEXT` flag (regenerated: a changed string breaks this) -/
theorem open_modes (t : Bool) :
    stdioMode (if t then fopenText .read else fopenBin .read) = some smRead ∧
    stdioMode (if t then fopenText .write else fopenBin .write) = some smWrite ∧
    stdioMode (if t then fopenText .append else fopenBin .append) = some smAppend ∧
    stdioMode (if t then fopenText .rw else fopenBin .rw) = some smUpdate := by
  cases t <;> decide

theorem openH_read (d : Disk) (p : Nat) (t : Bool) (c : Bytes) (h : d p = some c) :
    openH d p t .read = (some { path := p, isText := t, mode := .read, sm := smRead, all := c, rs := ⟨c, false⟩, pos := 0 }, d) := by
  simp only [openH, fopen, (open_modes t).1, h, smRead, Bool.false_eq_true, if_false, Option.getD_some]

theorem openH_read_missing (d : Disk) (p : Nat) (t : Bool) (h : d p = none) : openH d p t .read = (none, d) := by
  simp only [openH, fopen, (open_modes t).1, h, smRead, Bool.false_eq_true, if_false]

theorem openH_write (d : Disk) (p : Nat) (t : Bool) :
    openH d p t .write = (some { path := p, isText := t, mode := .write, sm := smWrite, all := [], rs := ⟨[], false⟩, pos := 0 },
      d.set p (some [])) := by
  cases h : d p <;>
    simp [openH, fopen, (open_modes t).2.1, h, smWrite, Disk.set]


/-! ## `text()` -/

theorem size_mask (n : Nat) (h : n < 2147483648) : n &&& sizeMask = n := by
  have : sizeMask = 2 ^ 31 - 1 := by decide
  rw [this, Nat.and_two_pow_sub_one_eq_mod]
  omega


theorem char_eq_of_toNat {c : Char} {n : Nat} (h : c.toNat = n) (hn : n < 0xD800) : c = Char.ofNat n := by
  apply Char.ext
  have hv : n.isValidChar := Or.inl hn
  simp only [Char.ofNat, hv, dite_true, Char.ofNatAux]
  apply UInt32.toNat_inj.mp
  simp only [Char.toNat] at h
  rw [h]
  simp [UInt32.toNat_ofNatLT]


theorem text_utf16le_aux (us : List Nat) (hlt : ∀ u ∈ us, u < 65536)
    (hlen : 2 + (le16 us).length < 2147483648) :
    text ([0xFF, 0xFE] ++ le16 us) = wideToString (foldU us) := by
  unfold text textN
  have hl : ([0xFF, 0xFE] ++ le16 us : Bytes).length < 2147483648 := by simp only [List.length_append, List.length_cons, List.length_nil]; omega
  simp only [size_mask _ hl]
  have h2 : 2 ≤ ([0xFF, 0xFE] ++ le16 us : Bytes).length := by simp only [List.length_append, List.length_cons, List.length_nil]; omega
  have e1 : (0xFF : UInt8) = bom1.1 ∧ (0xFE : UInt8) = bom1.2 := by decide
  have hlo : lowIndex1 = 0 := by decide
  simp only [List.cons_append, List.nil_append] at *
  simp only [if_pos h2, if_pos e1, hlo, units_le16 us hlt, fold16_start]

theorem text_utf16be_aux (us : List Nat) (hlt : ∀ u ∈ us, u < 65536)
    (hlen : 2 + (be16 us).length < 2147483648) :
    text ([0xFE, 0xFF] ++ be16 us) = wideToString (foldU us) := by
  unfold text textN
  have hl : ([0xFE, 0xFF] ++ be16 us : Bytes).length < 2147483648 := by simp only [List.length_append, List.length_cons, List.length_nil]; omega
  simp only [size_mask _ hl]
  have h2 : 2 ≤ ([0xFE, 0xFF] ++ be16 us : Bytes).length := by simp only [List.length_append, List.length_cons, List.length_nil]; omega
  have e0 : ¬ ((0xFE : UInt8) = bom1.1 ∧ (0xFF : UInt8) = bom1.2) := by decide
  have e1 : (0xFE : UInt8) = bom2.1 ∧ (0xFF : UInt8) = bom2.2 := by decide
  have hlo : lowIndex2 = 1 := by decide
  simp only [List.cons_append, List.nil_append] at *
  simp only [if_pos h2, if_neg e0, if_pos e1, hlo, units_be16 us hlt, fold16_start]


/-! ## writers -/

theorem set_same (d : Disk) (p : Nat) (v : Option Bytes) : (d.set p v) p = v := by simp [Disk.set]
theorem set_other (d : Disk) (p q : Nat) (v : Option Bytes) (h : q ≠ p) : (d.set p v) q = d q := by simp [Disk.set, h]

theorem overwrite_seq (w c bs : Bytes) :
    overwrite (w ++ c.drop w.length) w.length bs = (w ++ bs) ++ c.drop (w ++ bs).length := by
  unfold overwrite
  rw [List.take_left', List.drop_append, List.drop_drop, List.length_append]
  · simp [List.append_assoc]
  · rfl

theorem writeAll_seq (chunks : List Bytes) (d : Disk) (h : Handle) (c w : Bytes)
    (hw : h.sm.canWrite = true) (ha : h.sm.append = false)
    (hd : d h.path = some (w ++ c.drop w.length)) (hp : h.pos = w.length) :
    (writeAll d h chunks).1 h.path = some ((w ++ chunks.flatten) ++ c.drop (w ++ chunks.flatten).length) ∧
    ∀ q, q ≠ h.path → (writeAll d h chunks).1 q = d q := by
  induction chunks generalizing d h w with
  | nil => simp [writeAll, hd]
  | cons bs t ih =>
    have hf : fwrite d h bs = (bs.length, d.set h.path (some (overwrite (w ++ c.drop w.length) w.length bs)),
        { h with pos := w.length + bs.length }) := by
      simp [fwrite, hw, ha, hd, hp]
    simp only [writeAll, hf]
    have := ih (d.set h.path (some (overwrite (w ++ c.drop w.length) w.length bs))) { h with pos := w.length + bs.length } (w ++ bs)
      hw ha (by rw [set_same, overwrite_seq]) (by simp)
    simp only [List.flatten_cons, ← List.append_assoc] at *
    refine ⟨this.1, fun q hq => ?_⟩
    rw [this.2 q hq, set_other _ _ _ _ hq]

theorem writeAll_append (chunks : List Bytes) (d : Disk) (h : Handle) (c : Bytes)
    (hw : h.sm.canWrite = true) (ha : h.sm.append = true) (hd : d h.path = some c) :
    (writeAll d h chunks).1 h.path = some (c ++ chunks.flatten) ∧
    ∀ q, q ≠ h.path → (writeAll d h chunks).1 q = d q := by
  induction chunks generalizing d h c with
  | nil => simp [writeAll, hd]
  | cons bs t ih =>
    have hf : fwrite d h bs = (bs.length, d.set h.path (some (c ++ bs)), h) := by
      simp [fwrite, hw, ha, hd]
    simp only [writeAll, hf]
    have := ih (d.set h.path (some (c ++ bs))) h (c ++ bs) hw ha (by rw [set_same])
    simp only [List.flatten_cons, ← List.append_assoc] at *
    refine ⟨this.1, fun q hq => ?_⟩
    rw [this.2 q hq, set_other _ _ _ _ hq]

theorem writeAll_reader (chunks : List Bytes) (d : Disk) (h : Handle) (hw : h.sm.canWrite = false) :
    (writeAll d h chunks).1 = d := by
  induction chunks generalizing d h with
  | nil => rfl
  | cons bs t ih =>
    have hf : fwrite d h bs = (0, d, h) := by simp [fwrite, hw]
    simp only [writeAll, hf]
    exact ih d h hw

theorem openH_append (d : Disk) (p : Nat) (t : Bool) :
    ∃ h d', openH d p t .append = (some h, d') ∧ h.path = p ∧ h.sm = smAppend ∧
      d' p = some ((d p).getD []) ∧ ∀ q, q ≠ p → d' q = d q := by
  cases hp : d p with
  | none =>
    refine ⟨_, _, by simp only [openH, fopen, (open_modes t).2.2.1, hp, smAppend, if_true]; rfl, rfl, rfl, ?_, ?_⟩
    · simp [set_same]
    · intro q hq; exact set_other _ _ _ _ hq
  | some c =>
    refine ⟨_, _, by simp only [openH, fopen, (open_modes t).2.2.1, hp, smAppend, Bool.false_eq_true, if_false]; rfl, rfl, rfl, ?_, ?_⟩
    · simp [hp]
    · intro q _; rfl

theorem openH_rw (d : Disk) (p : Nat) (t : Bool) (c : Bytes) (hp : d p = some c) :
    ∃ h, openH d p t .rw = (some h, d) ∧ h.path = p ∧ h.sm = smUpdate ∧ h.pos = 0 := by
  refine ⟨_, by simp only [openH, fopen, (open_modes t).2.2.2, hp, smUpdate, Bool.false_eq_true, if_false]; rfl, rfl, rfl, rfl⟩

theorem openH_rw_missing (d : Disk) (p : Nat) (t : Bool) (hp : d p = none) : openH d p t .rw = (none, d) := by
  simp only [openH, fopen, (open_modes t).2.2.2, hp, smUpdate, Bool.false_eq_true, if_false]


/-! ## UTF-16 → UTF-8 through `String(const wchar_t*)`

The specifications are those of `AslProps/C08.lean` (`C08.Std`): a scalar value is Lean's `Char`, UTF-8 is Lean
core's encoder, UTF-16 is Unicode D91.  The statement `fromWide_std` is C08's `utf16_utf8_std`, re-proved here
from the same helper lemmas (copied into `AslProofs/FileTextUtf.lean`) so that this property does not depend on C08's table obligations. -/
namespace Std
/-- UTF-8 of a sequence of scalar values (Lean core's encoder) -/
def utf8 (cs : List Char) : List UInt8 := cs.flatMap String.utf8EncodeChar
/-- UTF-16 of one scalar value (Unicode standard §3.9 D91) -/
def utf16Char (v : Nat) : List Nat :=
  if v < 0x10000 then [v] else [(v - 0x10000) / 0x400 + 0xD800, (v - 0x10000) % 0x400 + 0xDC00]
def utf16 (cs : List Char) : List Nat := cs.flatMap fun c => utf16Char c.toNat
/-- NUL terminates every C string of the library: text is a sequence of non-NUL scalar values -/
def NoNul (cs : List Char) : Prop := ∀ c ∈ cs, c.toNat ≠ 0
end Std

open AslModel.Utf AslProofs.FileTextUtf in
theorem utf16toUtf8_std (cs : List Char) (h : Std.NoNul cs) (junk : List Int) (n : Int)
    (hn : n ≤ 0 ∨ (cs.length : Int) < n) :
    utf16toUtf8 ((Std.utf16 cs).map Int.ofNat ++ 0 :: junk) n = some (Std.utf8 cs) := by
  induction cs generalizing n with
  | nil => rw [utf16toUtf8.eq_def]; simp [Std.utf16, Std.utf8]
  | cons ch t ih =>
    have h0 : ch.toNat ≠ 0 := h ch (by simp)
    have ht : Std.NoNul t := fun c hc => h c (by simp [hc])
    simp only [Std.utf16, Std.utf8, List.flatMap_cons, List.map_append, List.append_assoc] at *
    have hne : ¬ (n - 1 = 0) := by simp only [List.length_cons] at hn; omega
    have hrec := ih ht (n - 1) (by simp only [List.length_cons] at hn; omega)
    by_cases hb : ch.toNat < 65536
    · have hu : Std.utf16Char ch.toNat = [ch.toNat] := by simp [Std.utf16Char, hb]
      rw [hu]
      simp only [List.map_cons, List.map_nil, List.cons_append, List.nil_append]
      rw [show Int.ofNat ch.toNat = (ch.toNat : Int) from rfl, e16_bmp ch h0 hb, hrec]
      simp [contB, hne]
    · have hu : Std.utf16Char ch.toNat = [(ch.toNat - 0x10000) / 0x400 + 0xD800, (ch.toNat - 0x10000) % 0x400 + 0xDC00] := by
        simp [Std.utf16Char, hb]
      rw [hu]
      simp only [List.map_cons, List.map_nil, List.cons_append, List.nil_append]
      have := e16_pair ch (by omega) (List.map Int.ofNat (List.flatMap (fun c => Std.utf16Char c.toNat) t) ++ 0 :: junk) n
      simp only [Int.ofNat_eq_natCast] at *
      rw [this, hrec]
      simp [contB, hne]

theorem utf16_ne_zero (cs : List Char) (h : Std.NoNul cs) : ∀ u ∈ Std.utf16 cs, u ≠ 0 := by
  intro u hu
  simp only [Std.utf16, List.mem_flatMap] at hu
  obtain ⟨c, hc, hu⟩ := hu
  have h0 := h c hc
  unfold Std.utf16Char at hu
  split at hu <;> simp at hu <;> omega

theorem utf16_length_ge (cs : List Char) : cs.length ≤ (Std.utf16 cs).length := by
  induction cs with
  | nil => simp [Std.utf16]
  | cons ch t ih =>
    simp only [Std.utf16, List.flatMap_cons, List.length_append, List.length_cons] at *
    have : 1 ≤ (Std.utf16Char ch.toNat).length := by unfold Std.utf16Char; split <;> simp
    omega

theorem takeWhile_int_units (l : List Nat) (h : ∀ u ∈ l, u ≠ 0) :
    (l.map Int.ofNat ++ [0]).takeWhile (· != 0) = l.map Int.ofNat := by
  induction l with
  | nil => simp
  | cons a t ih =>
    have ha : ¬ (Int.ofNat a = 0) := by have := h a (by simp); simp only [Int.ofNat_eq_natCast]; omega
    simp only [List.map_cons, List.cons_append, List.takeWhile_cons, bne_iff_ne, ne_eq, ha,
      not_false_eq_true, if_true]
    rw [ih (fun u hu => h u (by simp [hu]))]

/-- `String(const wchar_t*)` on standard UTF-16 is the standard UTF-8 -/
theorem fromWide_std (cs : List Char) (h : Std.NoNul cs) :
    AslModel.Utf.fromWide ((Std.utf16 cs).map Int.ofNat ++ [0]) = some (Std.utf8 cs) := by
  unfold AslModel.Utf.fromWide
  rw [takeWhile_int_units _ (utf16_ne_zero cs h)]
  apply utf16toUtf8_std cs h []
  right
  have := utf16_length_ge cs
  simp only [List.length_map, AslModel.Utf.capAfterInit]
  split <;> omega

/-- `String(const wchar_t*)` never reads outside a zero-terminated array, whatever the units -/
theorem wideToString_some (a : List Nat) : ∃ t, wideToString a = some t := by
  have := AslProofs.FileTextUtf.e16_some (a.map Int.ofNat ++ [0])
    (AslModel.Utf.capAfterInit (4 * ((a.map Int.ofNat ++ [0]).takeWhile (· != 0)).length)) (by simp [AslProofs.FileTextUtf.hasZero])
  unfold wideToString AslModel.Utf.fromWide
  cases hr : AslModel.Utf.utf16toUtf8 _ _ with
  | none => simp [hr] at this
  | some o => exact ⟨o, rfl⟩

end AslProofs.FileText
