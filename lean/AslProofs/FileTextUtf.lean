import AslModel.Utf
import AslProofs.Bits
/-!
# C17 — the lemmas about C08's `utf16toUtf8` model that `TextFile::text()` needs

Copied verbatim from `AslProofs/Utf.lean` (C08's helper file: the statements and proofs are C08's) so that
property C17 does not depend on C08's case-table obligations: that file also fixes the regenerated case-mapping
cut-over constants, which have nothing to do with files.  Core Lean only.
-/
namespace AslProofs.FileTextUtf
open AslModel.Utf AslProofs.Bits

theorem or_c0 : ∀ a, a < 64 → a ||| 0xc0 = a + 0xc0 := by decide +kernel
theorem or_80 : ∀ a, a < 64 → a ||| 0x80 = a + 0x80 := by decide +kernel
theorem or_e0 : ∀ a, a < 16 → a ||| 0xe0 = a + 0xe0 := by decide +kernel
theorem or_f0 : ∀ a, a < 8 → a ||| 0xf0 = a + 0xf0 := by decide +kernel

theorem shr6 (c : Nat) : c >>> 6 = c / 64 := Nat.shiftRight_eq_div_pow c 6
theorem shr12 (c : Nat) : c >>> 12 = c / 4096 := Nat.shiftRight_eq_div_pow c 12
theorem shr18 (c : Nat) : c >>> 18 = c / 262144 := Nat.shiftRight_eq_div_pow c 18
theorem shr10 (c : Nat) : c >>> 10 = c / 1024 := Nat.shiftRight_eq_div_pow c 10
theorem and31 (x : Nat) : x &&& 0x1f = x % 32 := Nat.and_two_pow_sub_one_eq_mod x 5
theorem and7 (x : Nat) : x &&& 0x07 = x % 8 := Nat.and_two_pow_sub_one_eq_mod x 3
theorem and3 (x : Nat) : x &&& 0x03 = x % 4 := Nat.and_two_pow_sub_one_eq_mod x 2
theorem and1023 (x : Nat) : x &&& 0x3ff = x % 1024 := Nat.and_two_pow_sub_one_eq_mod x 10

/-- the 2-, 3-, 4-byte forms in arithmetic -/
theorem enc2_arith (c : Nat) (h : c < 0x800) :
    enc2 c = [UInt8.ofNat (c / 64 + 192), UInt8.ofNat (c % 64 + 128)] := by
  unfold enc2 lo8
  rw [shr6, and63, or_c0 _ (by omega), or_80 _ (by omega)]

theorem enc3_arith (c : Nat) (h : c < 0x10000) :
    enc3 c = [UInt8.ofNat (c / 4096 + 224), UInt8.ofNat (c / 64 % 64 + 128), UInt8.ofNat (c % 64 + 128)] := by
  unfold enc3 lo8
  rw [shr12, shr6, and63, and63, or_e0 _ (by omega), or_80 _ (by omega), or_80 _ (by omega)]

theorem enc4_arith (c : Nat) (h : c < 0x200000) :
    enc4 c = [UInt8.ofNat (c / 262144 + 240), UInt8.ofNat (c / 4096 % 64 + 128), UInt8.ofNat (c / 64 % 64 + 128),
      UInt8.ofNat (c % 64 + 128)] := by
  unfold enc4 lo8
  rw [shr18, shr12, shr6, and63, and63, and63, or_f0 _ (by omega), or_80 _ (by omega), or_80 _ (by omega),
    or_80 _ (by omega)]

theorem lowByte_nat (n : Nat) (h : n < 256) : lowByte (n : Int) = UInt8.ofNat n := by
  unfold lowByte
  have : ((n : Int) % 256).toNat = n := by omega
  rw [this]

/-- the model's single-code step is Lean core's UTF-8 encoder on every scalar value -/
theorem enc32_char (ch : Char) : enc32 (ch.toNat : Int) = String.utf8EncodeChar ch := by
  have hv : ch.toNat < 0x110000 := by
    have := ch.valid
    simp only [Char.toNat, UInt32.isValidChar, Nat.isValidChar] at *
    omega
  unfold enc32 String.utf8EncodeChar
  simp only [Char.toNat] at *
  generalize ch.val.toNat = v at *
  by_cases h1 : v ≤ 127
  · have : (v : Int) < 0x80 := by omega
    simp only [this, h1, if_true]
    rw [lowByte_nat v (by omega)]
  · by_cases h2 : v ≤ 2047
    · have a1 : ¬ (v : Int) < 0x80 := by omega
      have a2 : (v : Int) < 0x800 := by omega
      simp only [a1, a2, h1, h2, if_true, if_false, Int.toNat_natCast]
      rw [enc2_arith v (by omega)]
      have : v / 64 % 32 = v / 64 := Nat.mod_eq_of_lt (by omega)
      rw [this]
    · by_cases h3 : v ≤ 65535
      · have a1 : ¬ (v : Int) < 0x80 := by omega
        have a2 : ¬ (v : Int) < 0x800 := by omega
        have a3 : (v : Int) < 0x10000 := by omega
        simp only [a1, a2, a3, h1, h2, h3, if_true, if_false, Int.toNat_natCast]
        rw [enc3_arith v (by omega)]
        have : v / 4096 % 16 = v / 4096 := Nat.mod_eq_of_lt (by omega)
        rw [this]
      · have a1 : ¬ (v : Int) < 0x80 := by omega
        have a2 : ¬ (v : Int) < 0x800 := by omega
        have a3 : ¬ (v : Int) < 0x10000 := by omega
        simp only [a1, a2, a3, h1, h2, h3, if_false, Int.toNat_natCast]
        rw [enc4_arith v (by omega)]
        have : v / 262144 % 8 = v / 262144 := Nat.mod_eq_of_lt (by omega)
        rw [this]

theorem char_lt (ch : Char) : ch.toNat < 0x110000 := by
  have := ch.valid
  simp only [Char.toNat, UInt32.isValidChar, Nat.isValidChar] at *
  omega

theorem pairCode_std (v : Nat) (h1 : 0x10000 ≤ v) (h2 : v < 0x110000) :
    pairCode ((v - 0x10000) / 1024 + 0xd800) ((v - 0x10000) % 1024 + 0xdc00) = v := by
  unfold pairCode
  have e1 : (v - 0x10000) / 1024 + 0xd800 - 0xd800 = (v - 0x10000) / 1024 := Nat.add_sub_cancel _ _
  have e2 : (v - 0x10000) % 1024 + 0xdc00 - 0xdc00 = (v - 0x10000) % 1024 := Nat.add_sub_cancel _ _
  rw [e1, e2, shl_or _ _ 10 (by omega)]
  omega

/-- a scalar value below 0x10000 as one UTF-16 unit -/
theorem e16_bmp (ch : Char) (h0 : ch.toNat ≠ 0) (hb : ch.toNat < 0x10000) (p : List Int) (n : Int) :
    utf16toUtf8 ((ch.toNat : Int) :: p) n = contB (String.utf8EncodeChar ch) n (utf16toUtf8 p (n - 1)) := by
  have hs : ch.toNat < 0xd800 ∨ 0xdfff < ch.toNat := by
    have := ch.valid
    simp only [Char.toNat, UInt32.isValidChar, Nat.isValidChar] at *
    omega
  rw [← enc32_char]
  conv => lhs; rw [utf16toUtf8.eq_def]
  unfold enc32
  generalize ch.toNat = v at *
  have z : ¬ ((v : Int) = 0) := by omega
  simp only [z, if_false]
  by_cases h1 : (v : Int) < 0x80
  · simp only [h1, if_true]
  · by_cases h2 : (v : Int) < 0x800
    · simp only [h1, h2, if_true, if_false]
    · have h3 : (v : Int) < 0xd800 ∨ (v : Int) > 0xdfff := by omega
      have h4 : (v : Int) < 0x10000 := by omega
      simp only [h1, h2, h3, h4, if_true, if_false]

/-- a scalar value from 0x10000 as a surrogate pair -/
theorem e16_pair (ch : Char) (hb : 0x10000 ≤ ch.toNat) (p : List Int) (n : Int) :
    utf16toUtf8 ((((ch.toNat - 0x10000) / 1024 + 0xd800 : Nat) : Int) ::
        (((ch.toNat - 0x10000) % 1024 + 0xdc00 : Nat) : Int) :: p) n
      = contB (String.utf8EncodeChar ch) n (utf16toUtf8 p (n - 1)) := by
  have hv := char_lt ch
  rw [← enc32_char]
  conv => lhs; rw [utf16toUtf8.eq_def]
  unfold enc32
  generalize ch.toNat = v at *
  have hq : (v - 0x10000) / 1024 < 1024 := by omega
  have hr : (v - 0x10000) % 1024 < 1024 := by omega
  generalize hqd : (v - 0x10000) / 1024 = q at *
  generalize hrd : (v - 0x10000) % 1024 = r at *
  have a0 : ¬ (((q + 0xd800 : Nat) : Int) = 0) := by omega
  have a1 : ¬ (((q + 0xd800 : Nat) : Int) < 0x80) := by omega
  have a2 : ¬ (((q + 0xd800 : Nat) : Int) < 0x800) := by omega
  have a3 : ¬ ((((q + 0xd800 : Nat) : Int) < 0xd800) ∨ (((q + 0xd800 : Nat) : Int) > 0xdfff)) := by omega
  have a4 : (((q + 0xd800 : Nat) : Int) < 0xdc00) := by omega
  have a5 : ¬ ((((r + 0xdc00 : Nat) : Int) < 0xdc00) ∨ (((r + 0xdc00 : Nat) : Int) > 0xdfff)) := by omega
  have b1 : ¬ ((v : Int) < 0x80) := by omega
  have b2 : ¬ ((v : Int) < 0x800) := by omega
  have b3 : ¬ ((v : Int) < 0x10000) := by omega
  simp only [a0, a1, a2, a3, a4, a5, b1, b2, b3, if_true, if_false, Int.toNat_natCast]
  have := pairCode_std v hb hv
  rw [hqd, hrd] at this
  rw [this]

/-- number of units before the first zero unit (`wcslen`) -/
theorem contB_isSome (out : List UInt8) (n : Int) (r : Option (List UInt8)) (h : r.isSome = true) :
    (contB out n r).isSome = true := by
  unfold contB; split <;> simp [h]

def ilen (p : List Int) : Nat := (p.takeWhile (· != 0)).length
def hasZero (p : List Int) : Bool := p.any (· == 0)

theorem e16_some (p : List Int) (n : Int) (h : hasZero p = true) : (utf16toUtf8 p n).isSome = true := by
  fun_induction utf16toUtf8 p n <;> simp_all [hasZero, contB_isSome]
  rename_i ih
  apply contB_isSome; apply ih
  rcases h with h | h
  · omega
  · exact h

end AslProofs.FileTextUtf
