import AslProofs.FmtDigits
import AslModel.Strtod
import Mathlib.Tactic.Ring
set_option linter.unusedSimpArgs false
set_option linter.unusedVariables false
namespace AslProofs.Fmt
open AslModel AslModel.Dtoa Rfc8259

/-- value of a digit string, as `Strtod.parseDec` reads it -/
abbrev dv (ds : Bytes) : ℕ := Strtod.digitsVal ds

theorem dv_fold (ds : Bytes) (a : ℕ) :
    ds.foldl (fun y c => 10 * y + (c.toNat - 48)) a = a * 10 ^ ds.length + dv ds := by
  induction ds generalizing a with
  | nil => simp [dv, Strtod.digitsVal]
  | cons c t ih =>
    simp only [List.foldl_cons, List.length_cons, dv, Strtod.digitsVal]
    rw [ih, ih (10 * 0 + (c.toNat - 48))]
    simp only [dv, Strtod.digitsVal]
    ring

theorem dv_append (a b : Bytes) : dv (a ++ b) = dv a * 10 ^ b.length + dv b := by
  simp only [dv, Strtod.digitsVal, List.foldl_append]
  rw [dv_fold]
  rfl

theorem dv_zeros (k : ℕ) : dv (List.replicate k 48) = 0 := by
  induction k with
  | zero => rfl
  | succ k ih =>
    rw [List.replicate_succ, show (48 : UInt8) :: List.replicate k 48 = [48] ++ List.replicate k 48 by rfl, dv_append, ih]
    simp [dv, Strtod.digitsVal]

theorem dv_decDigits (n : ℕ) : dv (decDigits n) = n := by
  have h := Nat.ofDigitChars_ten_toDigits (n := n)
  have hdig : ∀ c ∈ Nat.toDigits 10 n, c.isDigit = true :=
    fun c hc => Nat.isDigit_of_mem_toDigits (by omega) (by omega) hc
  have key : ∀ (l : List Char) (a : ℕ), (∀ c ∈ l, c.isDigit = true) →
      (l.map fun c => UInt8.ofNat c.toNat).foldl (fun y c => 10 * y + (c.toNat - 48)) a = Nat.ofDigitChars 10 l a := by
    intro l
    induction l with
    | nil => intro a _; rfl
    | cons c t ih =>
      intro a hc
      have hcd := hc c (by simp)
      have hr : 48 ≤ c.toNat ∧ c.toNat ≤ 57 := by
        simp only [Char.isDigit, Bool.and_eq_true, decide_eq_true_eq] at hcd
        have h1 := hcd.1; have h2 := hcd.2
        simp only [Char.le_def, UInt32.le_iff_toNat_le] at h1 h2
        exact ⟨h1, h2⟩
      simp only [List.map_cons, List.foldl_cons, Nat.ofDigitChars_cons]
      have e : (UInt8.ofNat c.toNat).toNat = c.toNat := by simp only [UInt8.toNat_ofNat']; omega
      rw [e, ih _ (fun x hx => hc x (by simp [hx]))]
      rfl
  have := key (Nat.toDigits 10 n) 0 hdig
  simp only [dv, Strtod.digitsVal, decDigits]
  rw [this, h]

/-- removing trailing zeros: `ds = stripZeros ds ++ 0…0` -/
theorem stripZeros_decomp (ds : Bytes) : ∃ z : ℕ, ds = stripZeros ds ++ List.replicate z 48 := by
  have key : ∀ l : Bytes, ∃ z : ℕ, l = List.replicate z 48 ++ l.dropWhile (· = 48) := by
    intro l
    induction l with
    | nil => exact ⟨0, rfl⟩
    | cons c t ih =>
      by_cases hc : c = 48
      · obtain ⟨z, hz⟩ := ih
        refine ⟨z + 1, ?_⟩
        subst hc
        simp only [List.dropWhile_cons, decide_true, if_true, List.replicate_succ, List.cons_append]
        rw [← hz]
      · exact ⟨0, by simp [List.dropWhile_cons, hc]⟩
  obtain ⟨z, hz⟩ := key ds.reverse
  refine ⟨z, ?_⟩
  have := congrArg List.reverse hz
  simp only [List.reverse_reverse, List.reverse_append, List.reverse_replicate] at this
  simpa [stripZeros] using this

end AslProofs.Fmt
