import AslModel.Dtoa
import AslProofs.XdlEnc
import Mathlib.Tactic.Linarith
import Mathlib.Tactic.NormNum
import Mathlib.Tactic.Positivity
set_option linter.unusedSimpArgs false
set_option linter.unusedVariables false
namespace AslProofs.Fmt
open AslModel AslModel.Dtoa Rfc8259

/-! ## digit strings -/

theorem digitChar_byte (c : Char) (h : c.isDigit = true) : isDig (UInt8.ofNat c.toNat) := by
  have : 48 ≤ c.toNat ∧ c.toNat ≤ 57 := by
    simp only [Char.isDigit, Bool.and_eq_true, decide_eq_true_eq] at h
    have h1 := h.1; have h2 := h.2
    simp only [Char.le_def, UInt32.le_iff_toNat_le] at h1 h2
    exact ⟨h1, h2⟩
  simp only [isDig, UInt8.le_iff_toNat_le, UInt8.toNat_ofNat', UInt8.reduceToNat]
  omega

theorem decDigits_digits (n : Nat) : Digits (decDigits n) := by
  intro c hc
  simp only [decDigits, List.mem_map] at hc
  obtain ⟨ch, hch, rfl⟩ := hc
  exact digitChar_byte ch (Nat.isDigit_of_mem_toDigits (by omega) (by omega) hch)

theorem decDigits_length (n : Nat) : (decDigits n).length = (Nat.toDigits 10 n).length := by simp [decDigits]

theorem decDigits_length_eq (P n : Nat) (hP : 1 ≤ P) (h1 : 10 ^ (P - 1) ≤ n) (h2 : n < 10 ^ P) : (decDigits n).length = P := by
  rw [decDigits_length]
  have hle : (Nat.toDigits 10 n).length ≤ P := (Nat.length_toDigits_le_iff (b := 10) (by omega) (by omega)).mpr h2
  by_cases hP1 : P = 1
  · have := Nat.length_toDigits_pos (b := 10) (n := n); omega
  · have hnot : ¬ (Nat.toDigits 10 n).length ≤ P - 1 := by
      rw [Nat.length_toDigits_le_iff (b := 10) (by omega) (by omega)]; omega
    omega


theorem toDigits_head (n : Nat) (h : 0 < n) : ∃ c t, Nat.toDigits 10 n = c :: t ∧ c ≠ '0' := by
  induction n using Nat.strongRecOn with
  | _ n ih =>
    by_cases hlt : n < 10
    · rw [Nat.toDigits_of_lt_base hlt]
      refine ⟨_, [], rfl, ?_⟩
      have : n = 1 ∨ n = 2 ∨ n = 3 ∨ n = 4 ∨ n = 5 ∨ n = 6 ∨ n = 7 ∨ n = 8 ∨ n = 9 := by omega
      rcases this with h | h | h | h | h | h | h | h | h <;> subst h <;> decide
    · have hge : 10 ≤ n := by omega
      rw [Nat.toDigits_of_base_le (by omega) hge]
      obtain ⟨c, t, hct, hc⟩ := ih (n / 10) (by omega) (by omega)
      exact ⟨c, t ++ [Nat.digitChar (n % 10)], by simp [hct], hc⟩

theorem decDigits_head (n : Nat) (h : 0 < n) : ∃ d t, decDigits n = d :: t ∧ 49 ≤ d ∧ d ≤ 57 := by
  obtain ⟨c, t, hct, hc⟩ := toDigits_head n h
  have hdig : c.isDigit = true := Nat.isDigit_of_mem_toDigits (b := 10) (n := n) (by omega) (by omega) (by simp [hct])
  have hb := digitChar_byte c hdig
  refine ⟨UInt8.ofNat c.toNat, t.map fun c => UInt8.ofNat c.toNat, by simp [decDigits, hct], ?_, hb.2⟩
  have h48 : UInt8.ofNat c.toNat ≠ 48 := by
    intro h0
    apply hc
    have hr : 48 ≤ c.toNat ∧ c.toNat ≤ 57 := by
      simp only [Char.isDigit, Bool.and_eq_true, decide_eq_true_eq] at hdig
      have h1 := hdig.1; have h2 := hdig.2
      simp only [Char.le_def, UInt32.le_iff_toNat_le] at h1 h2
      exact ⟨h1, h2⟩
    have : (UInt8.ofNat c.toNat).toNat = 48 := by rw [h0]; rfl
    simp only [UInt8.toNat_ofNat'] at this
    have hc48 : c.toNat = 48 := by omega
    apply Char.ext
    apply UInt32.toNat_inj.mp
    exact hc48
  have := hb.1
  simp only [UInt8.le_iff_toNat_le, UInt8.reduceToNat] at this ⊢
  have hne : (UInt8.ofNat c.toNat).toNat ≠ 48 := fun h => h48 (UInt8.toNat_inj.mp (by simpa using h))
  omega

theorem padLeft_id (P : Nat) (ds : Bytes) (h : ds.length = P) : padLeft P ds = ds := by
  simp [padLeft, h]

theorem padLeft_digits (P : Nat) (ds : Bytes) (h : Digits ds) : Digits (padLeft P ds) := by
  intro c hc
  simp only [padLeft, List.mem_append, List.mem_replicate] at hc
  rcases hc with ⟨_, rfl⟩ | hc
  · unfold isDig; decide
  · exact h c hc

theorem stripZeros_digits (ds : Bytes) (h : Digits ds) : Digits (stripZeros ds) := by
  intro c hc
  simp only [stripZeros, List.mem_reverse] at hc
  have hsub : (ds.reverse.dropWhile (· = 48)).Sublist ds.reverse := List.dropWhile_sublist _
  exact h c (List.mem_reverse.mp (hsub.subset hc))

end AslProofs.Fmt
