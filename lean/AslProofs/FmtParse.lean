import AslProofs.FmtDigitVal
import AslProofs.StrtodParse
set_option linter.unusedSimpArgs false
set_option linter.unusedVariables false
namespace AslProofs.Fmt
open AslModel AslModel.Dtoa Rfc8259 AslProofs.Num

theorem takeWhile_digits_append (ds rest : Bytes) (h : Digits ds)
    (hr : rest = [] ∨ ∃ c t, rest = c :: t ∧ Strtod.isDigit c = false) :
    (ds ++ rest).takeWhile Strtod.isDigit = ds ∧ (ds ++ rest).dropWhile Strtod.isDigit = rest := by
  induction ds with
  | nil =>
    rcases hr with rfl | ⟨c, t, rfl, hc⟩
    · simp
    · simp [List.takeWhile_cons, List.dropWhile_cons, hc]
  | cons c t ih =>
    have hc := sdigit_of_isDig (h c (by simp))
    have := ih (fun x hx => h x (by simp [hx]))
    simp [List.takeWhile_cons, List.dropWhile_cons, hc, this.1, this.2]

/-- the exponent part `e±dd` as `fmtG` writes it -/
def expText (neg : Bool) (ed : Bytes) : Bytes := 101 :: (if neg then 45 else 43) :: ed

def fracTextOf : Option Bytes → Bytes
  | some f => 46 :: f
  | none => []
def expTextOf : Option (Bool × Bytes) → Bytes
  | some e => expText e.1 e.2
  | none => []
def expNegOf : Option (Bool × Bytes) → Bool
  | some e => e.1
  | none => false
def expDigitsOf : Option (Bool × Bytes) → Bytes
  | some e => e.2
  | none => []

/-- `parseDec` on `[-] digits [. digits] [e± digits]` -/
theorem parseDec_struct (sneg : Bool) (ip : Bytes) (hip : Digits ip) (hne : ip ≠ []) (fd : Option Bytes)
    (hfd : ∀ f, fd = some f → Digits f) (ex : Option (Bool × Bytes)) (hex : ∀ e, ex = some e → Digits e.2) :
    Strtod.parseDec ((if sneg then [45] else []) ++ ip ++ fracTextOf fd ++ expTextOf ex) =
      { neg := sneg, mant := dv (ip ++ fd.getD []), fracLen := (fd.getD []).length,
        expNeg := expNegOf ex, exp := dv (expDigitsOf ex) } := by
  have htail : expTextOf ex = [] ∨ ∃ c t, expTextOf ex = c :: t ∧ Strtod.isDigit c = false := by
    cases ex with
    | none => exact Or.inl rfl
    | some e => exact Or.inr ⟨101, _, rfl, by decide⟩
  have hrest : fracTextOf fd ++ expTextOf ex = [] ∨
      ∃ c t, fracTextOf fd ++ expTextOf ex = c :: t ∧ Strtod.isDigit c = false := by
    cases fd with
    | none => simpa [fracTextOf] using htail
    | some f => exact Or.inr ⟨46, _, rfl, by decide⟩
  have hfirst : ∃ c t, ip = c :: t ∧ c ≠ 45 ∧ c ≠ 43 := by
    cases ip with
    | nil => exact absurd rfl hne
    | cons c t =>
      have := hip c (by simp)
      refine ⟨c, t, rfl, ?_, ?_⟩ <;> (intro h; subst h; simp [isDig] at this)
  obtain ⟨c0, t0, hct, h45, h43⟩ := hfirst
  have hsplit : Strtod.splitSign ((if sneg then [45] else []) ++ ip ++ fracTextOf fd ++ expTextOf ex) =
      (sneg, ip ++ (fracTextOf fd ++ expTextOf ex)) := by
    cases sneg
    · simp only [Bool.false_eq_true, if_false, List.nil_append, List.append_assoc]
      rw [hct]; unfold Strtod.splitSign; split
      · rename_i heq; simp at heq; exact absurd heq.1 h45
      · rename_i heq; simp at heq; exact absurd heq.1 h43
      · rfl
    · simp [Strtod.splitSign]
  obtain ⟨ht, hdr⟩ := takeWhile_digits_append ip _ hip hrest
  unfold Strtod.parseDec
  simp only [hsplit, ht, hdr]
  cases fd with
  | none =>
    simp only [fracTextOf, List.nil_append, Option.getD_none, List.append_nil, List.length_nil]
    cases ex with
    | none => simp [Strtod.splitFrac, Strtod.splitExp, Strtod.digitsVal, expTextOf, expNegOf, expDigitsOf]
    | some e =>
      obtain ⟨en, ed⟩ := e
      obtain ⟨hte, _⟩ := takeWhile_digits ed (hex _ rfl)
      cases en <;> simp [Strtod.splitFrac, Strtod.splitExp, expText, expTextOf, expNegOf, expDigitsOf, hte]
  | some f =>
    obtain ⟨htf, hdf⟩ := takeWhile_digits_append f _ (hfd f rfl) htail
    simp only [fracTextOf, Option.getD_some, List.cons_append, Strtod.splitFrac, htf, hdf]
    cases ex with
    | none => simp [Strtod.splitExp, Strtod.digitsVal, expTextOf, expNegOf, expDigitsOf]
    | some e =>
      obtain ⟨en, ed⟩ := e
      obtain ⟨hte, _⟩ := takeWhile_digits ed (hex _ rfl)
      cases en <;> simp [Strtod.splitExp, expText, expTextOf, expNegOf, expDigitsOf, hte]

end AslProofs.Fmt
