import AslModel.Dtoa
import Mathlib.Tactic.Linarith
import Mathlib.Tactic.NormNum
import Mathlib.Tactic.Positivity
import Mathlib.Tactic.FieldSimp
import Mathlib.Tactic.Ring
import Mathlib.Algebra.Order.Field.Power
set_option linter.unusedSimpArgs false
set_option linter.unusedVariables false
namespace AslProofs.Fmt
open AslModel AslModel.Dtoa

theorem geRatio_iff (num den : ℕ) (hd : 0 < den) (x : ℤ) :
    geRatio num den x = true ↔ (10 : ℚ) ^ x ≤ (num : ℚ) / den := by
  have hdq : (0 : ℚ) < den := by exact_mod_cast hd
  unfold geRatio
  by_cases hx : x ≥ 0
  · obtain ⟨k, rfl⟩ := Int.eq_ofNat_of_zero_le hx
    simp only [hx, if_true, Int.toNat_natCast, decide_eq_true_eq, zpow_natCast, ge_iff_le]
    rw [le_div_iff₀ hdq]
    constructor
    · intro h
      have : ((den * 10 ^ k : ℕ) : ℚ) ≤ num := by exact_mod_cast h
      push_cast at this; linarith
    · intro h
      have : ((den * 10 ^ k : ℕ) : ℚ) ≤ num := by push_cast; linarith
      exact_mod_cast this
  · have hneg : x < 0 := by omega
    obtain ⟨k, hk⟩ : ∃ k : ℕ, x = -(k : ℤ) := ⟨(-x).toNat, by omega⟩
    subst hk
    simp only [hx, if_false, neg_neg, Int.toNat_natCast, decide_eq_true_eq, zpow_neg, zpow_natCast, ge_iff_le]
    have hp : (0 : ℚ) < 10 ^ k := by positivity
    rw [le_div_iff₀ hdq, inv_mul_le_iff₀ hp]
    constructor
    · intro h
      have : ((den : ℕ) : ℚ) ≤ ((num * 10 ^ k : ℕ) : ℚ) := by exact_mod_cast h
      push_cast at this; linarith
    · intro h
      have : ((den : ℕ) : ℚ) ≤ ((num * 10 ^ k : ℕ) : ℚ) := by push_cast; linarith
      exact_mod_cast this


theorem decLen_bounds (n : ℕ) (h : 0 < n) : 1 ≤ decLen n ∧ 10 ^ (decLen n - 1) ≤ n ∧ n < 10 ^ decLen n := by
  have hn : n ≠ 0 := by omega
  have hpos := Nat.length_toDigits_pos (b := 10) (n := n)
  simp only [decLen, hn, if_false]
  refine ⟨hpos, ?_, ?_⟩
  · by_cases h1 : (Nat.toDigits 10 n).length = 1
    · rw [h1]; simp; omega
    · have hnot : ¬ (Nat.toDigits 10 n).length ≤ (Nat.toDigits 10 n).length - 1 := by omega
      rw [Nat.length_toDigits_le_iff (b := 10) (by omega) (by omega)] at hnot
      omega
  · exact (Nat.length_toDigits_le_iff (b := 10) (by omega) hpos).mp (le_refl _)

/-- `log10Floor` returns the decimal exponent: `10^X ≤ num/den < 10^(X+1)` -/
theorem log10Floor_spec (num den : ℕ) (hn : 0 < num) (hd : 0 < den) :
    (10 : ℚ) ^ (log10Floor num den) ≤ (num : ℚ) / den ∧ (num : ℚ) / den < (10 : ℚ) ^ (log10Floor num den + 1) := by
  obtain ⟨ha1, hal, hau⟩ := decLen_bounds num hn
  obtain ⟨hb1, hbl, hbu⟩ := decLen_bounds den hd
  simp only [log10Floor]
  generalize decLen num = a at *
  generalize decLen den = b at *
  have hdq : (0 : ℚ) < den := by exact_mod_cast hd
  have hnq : (0 : ℚ) < num := by exact_mod_cast hn
  have hal' : (10 : ℚ) ^ (a - 1 : ℕ) ≤ num := by exact_mod_cast hal
  have hau' : (num : ℚ) < 10 ^ a := by exact_mod_cast hau
  have hbl' : (10 : ℚ) ^ (b - 1 : ℕ) ≤ den := by exact_mod_cast hbl
  have hbu' : (den : ℚ) < 10 ^ b := by exact_mod_cast hbu
  -- r < 10^(a-b+1)
  have hup : (num : ℚ) / den < (10 : ℚ) ^ ((a : ℤ) - b + 1) := by
    rw [div_lt_iff₀ hdq]
    have e : (10 : ℚ) ^ ((a : ℤ) - b + 1) = 10 ^ a / 10 ^ (b - 1 : ℕ) := by
      rw [eq_div_iff (by positivity), ← zpow_natCast, ← zpow_natCast, ← zpow_add₀ (by norm_num)]
      congr 1; omega
    rw [e]
    have hp : (0 : ℚ) < 10 ^ (b - 1 : ℕ) := by positivity
    calc (num : ℚ) < 10 ^ a := hau'
      _ = 10 ^ a / 10 ^ (b - 1 : ℕ) * 10 ^ (b - 1 : ℕ) := by field_simp
      _ ≤ 10 ^ a / 10 ^ (b - 1 : ℕ) * den := by
        apply mul_le_mul_of_nonneg_left hbl'; positivity
  -- 10^(a-b-1) ≤ r
  have hlo : (10 : ℚ) ^ ((a : ℤ) - b - 1) ≤ (num : ℚ) / den := by
    rw [le_div_iff₀ hdq]
    have e : (10 : ℚ) ^ ((a : ℤ) - b - 1) = 10 ^ (a - 1 : ℕ) / 10 ^ b := by
      rw [eq_div_iff (by positivity), ← zpow_natCast, ← zpow_natCast, ← zpow_add₀ (by norm_num)]
      congr 1; omega
    rw [e]
    have hp : (0 : ℚ) < 10 ^ b := by positivity
    calc 10 ^ (a - 1 : ℕ) / 10 ^ b * (den : ℚ) ≤ 10 ^ (a - 1 : ℕ) / 10 ^ b * 10 ^ b := by
          apply mul_le_mul_of_nonneg_left (le_of_lt hbu'); positivity
      _ = 10 ^ (a - 1 : ℕ) := by field_simp
      _ ≤ num := hal'
  have g1 : geRatio num den ((a : ℤ) - b + 1) = false := by
    rw [Bool.eq_false_iff]; intro h
    have := (geRatio_iff num den hd _).mp h
    linarith
  have g3 : geRatio num den ((a : ℤ) - b - 1) = true := (geRatio_iff num den hd _).mpr hlo
  simp only [g1, Bool.false_eq_true, if_false]
  by_cases g2 : geRatio num den ((a : ℤ) - b) = true
  · simp only [g2, if_true]
    exact ⟨(geRatio_iff num den hd _).mp g2, hup⟩
  · have g2' : geRatio num den ((a : ℤ) - b) = false := by simpa using g2
    simp only [g2', Bool.false_eq_true, if_false, g3, if_true]
    refine ⟨hlo, ?_⟩
    have : ¬ (10 : ℚ) ^ ((a : ℤ) - b) ≤ (num : ℚ) / den := fun h => g2 ((geRatio_iff num den hd _).mpr h)
    have e : (a : ℤ) - b - 1 + 1 = (a : ℤ) - b := by omega
    rw [e]
    exact lt_of_not_ge this


theorem roundDiv_spec (a b : ℕ) (hb : 0 < b) : |((roundDiv a b : ℕ) : ℚ) - (a : ℚ) / b| ≤ 1 / 2 := by
  have hbq : (0 : ℚ) < b := by exact_mod_cast hb
  have hdiv : (a : ℚ) = b * (a / b : ℕ) + (a % b : ℕ) := by exact_mod_cast (Nat.div_add_mod a b).symm
  have hrem : a % b < b := Nat.mod_lt _ hb
  have hremq : ((a % b : ℕ) : ℚ) < b := by exact_mod_cast hrem
  have hrem0 : (0 : ℚ) ≤ ((a % b : ℕ) : ℚ) := by positivity
  have hfrac : (a : ℚ) / b = (a / b : ℕ) + ((a % b : ℕ) : ℚ) / b := by
    rw [hdiv]; field_simp
  unfold roundDiv
  simp only []
  split
  · rename_i h
    have h2 : (b : ℚ) ≤ 2 * ((a % b : ℕ) : ℚ) := by
      rcases h with h | ⟨h, _⟩
      · have : b ≤ 2 * (a % b) := by omega
        exact_mod_cast this
      · have : b ≤ 2 * (a % b) := by omega
        exact_mod_cast this
    rw [hfrac]
    push_cast
    have : ((a % b : ℕ) : ℚ) / b ≥ 1 / 2 := by rw [ge_iff_le, div_le_div_iff₀ (by norm_num) hbq]; linarith
    have hle : ((a % b : ℕ) : ℚ) / b ≤ 1 := by rw [div_le_one hbq]; linarith
    rw [abs_le]; constructor <;> linarith
  · rename_i h
    have h2 : 2 * ((a % b : ℕ) : ℚ) ≤ b := by
      have : 2 * (a % b) ≤ b := by
        by_contra hc
        exact h (Or.inl (by omega))
      exact_mod_cast this
    rw [hfrac]
    have : ((a % b : ℕ) : ℚ) / b ≤ 1 / 2 := by rw [div_le_div_iff₀ hbq (by norm_num)]; linarith
    have h0 : 0 ≤ ((a % b : ℕ) : ℚ) / b := by positivity
    rw [abs_le]; constructor <;> linarith

/-- the digits `sigDigits` returns: exactly `P` of them, and their value is the ratio rounded to nearest -/
theorem sigDigits_spec (P num den : ℕ) (hP : 1 ≤ P) (hn : 0 < num) (hd : 0 < den) :
    10 ^ (P - 1) ≤ (sigDigits P num den).1 ∧ (sigDigits P num den).1 < 10 ^ P ∧
    ∃ X : ℤ, (10 : ℚ) ^ X ≤ (num : ℚ) / den ∧ (num : ℚ) / den < (10 : ℚ) ^ (X + 1) ∧
      |((sigDigits P num den).1 : ℚ) * (10 : ℚ) ^ ((sigDigits P num den).2 - P + 1) - (num : ℚ) / den|
        ≤ (10 : ℚ) ^ (X - P + 1) / 2 := by
  obtain ⟨hlo, hup⟩ := log10Floor_spec num den hn hd
  have hdq : (0 : ℚ) < den := by exact_mod_cast hd
  simp only [sigDigits]
  generalize log10Floor num den = X at *
  set r : ℚ := (num : ℚ) / den with hr
  -- the scaled value t = r·10^s and its rounding n0
  have key : ∃ n0 : ℕ, (if (P : ℤ) - 1 - X ≥ 0 then roundDiv (num * 10 ^ ((P : ℤ) - 1 - X).toNat) den
        else roundDiv num (den * 10 ^ (-((P : ℤ) - 1 - X)).toNat)) = n0 ∧
      |(n0 : ℚ) - r * (10 : ℚ) ^ ((P : ℤ) - 1 - X)| ≤ 1 / 2 := by
    by_cases hs : (P : ℤ) - 1 - X ≥ 0
    · obtain ⟨k, hk⟩ := Int.eq_ofNat_of_zero_le hs
      simp only [hs, if_true, hk, Int.toNat_natCast, zpow_natCast]
      refine ⟨_, rfl, ?_⟩
      have := roundDiv_spec (num * 10 ^ k) den hd
      have e : ((num * 10 ^ k : ℕ) : ℚ) / den = r * 10 ^ k := by rw [hr]; push_cast; ring
      rwa [e] at this
    · have hneg : (P : ℤ) - 1 - X < 0 := by omega
      obtain ⟨k, hk⟩ : ∃ k : ℕ, (P : ℤ) - 1 - X = -(k : ℤ) := ⟨(-((P : ℤ) - 1 - X)).toNat, by omega⟩
      refine ⟨roundDiv num (den * 10 ^ (-((P : ℤ) - 1 - X)).toNat), by rw [if_neg hs], ?_⟩
      rw [hk]
      simp only [neg_neg, Int.toNat_natCast, zpow_neg, zpow_natCast]
      have := roundDiv_spec num (den * 10 ^ k) (by positivity)
      have e : (num : ℚ) / ((den * 10 ^ k : ℕ) : ℚ) = r * (10 ^ k)⁻¹ := by rw [hr]; push_cast; field_simp
      rwa [e] at this
  obtain ⟨n0, hn0, herr⟩ := key
  rw [hn0]
  -- t lies in [10^(P-1), 10^P)
  have ht1 : (10 : ℚ) ^ (P - 1 : ℕ) ≤ r * (10 : ℚ) ^ ((P : ℤ) - 1 - X) := by
    have : (10 : ℚ) ^ (P - 1 : ℕ) = (10 : ℚ) ^ X * (10 : ℚ) ^ ((P : ℤ) - 1 - X) := by
      rw [← zpow_natCast, ← zpow_add₀ (by norm_num)]; congr 1; omega
    rw [this]
    exact mul_le_mul_of_nonneg_right hlo (by positivity)
  have ht2 : r * (10 : ℚ) ^ ((P : ℤ) - 1 - X) < (10 : ℚ) ^ P := by
    have : (10 : ℚ) ^ P = (10 : ℚ) ^ (X + 1) * (10 : ℚ) ^ ((P : ℤ) - 1 - X) := by
      rw [← zpow_natCast, ← zpow_add₀ (by norm_num)]; congr 1; omega
    rw [this]
    exact mul_lt_mul_of_pos_right hup (by positivity)
  have hb := abs_le.mp herr
  have hn0lo : 10 ^ (P - 1) ≤ n0 := by
    have : ((10 ^ (P - 1) : ℕ) : ℚ) - 1 / 2 ≤ n0 := by push_cast; linarith [hb.1]
    by_contra hc
    have : (n0 : ℚ) + 1 ≤ ((10 ^ (P - 1) : ℕ) : ℚ) := by exact_mod_cast (by omega : n0 + 1 ≤ 10 ^ (P - 1))
    linarith
  have hn0hi : n0 ≤ 10 ^ P := by
    have : (n0 : ℚ) < ((10 ^ P : ℕ) : ℚ) + 1 / 2 := by push_cast; linarith [hb.2]
    by_contra hc
    have : ((10 ^ P : ℕ) : ℚ) + 1 ≤ n0 := by exact_mod_cast (by omega : 10 ^ P + 1 ≤ n0)
    linarith
  have hpow : 10 ^ P = 10 * 10 ^ (P - 1) := by
    conv => lhs; rw [show P = (P - 1) + 1 by omega]
    rw [Nat.pow_succ]; ring
  -- the error in units of 10^(X-P+1)
  have hval : ∀ v : ℚ, v = (n0 : ℚ) * (10 : ℚ) ^ (X - P + 1) → |v - r| ≤ (10 : ℚ) ^ (X - P + 1) / 2 := by
    intro v hv
    have hu : (0 : ℚ) < (10 : ℚ) ^ (X - P + 1) := by positivity
    have e : r = r * (10 : ℚ) ^ ((P : ℤ) - 1 - X) * (10 : ℚ) ^ (X - P + 1) := by
      rw [mul_assoc, ← zpow_add₀ (by norm_num)]
      have : (P : ℤ) - 1 - X + (X - P + 1) = 0 := by omega
      rw [this]; simp
    rw [hv, e, ← sub_mul, abs_mul, abs_of_pos hu]
    calc |(n0 : ℚ) - r * (10 : ℚ) ^ ((P : ℤ) - 1 - X)| * (10 : ℚ) ^ (X - P + 1)
        ≤ 1 / 2 * (10 : ℚ) ^ (X - P + 1) := mul_le_mul_of_nonneg_right herr (le_of_lt hu)
      _ = (10 : ℚ) ^ (X - P + 1) / 2 := by ring
  by_cases hc : n0 ≥ 10 ^ P
  · have hn0e : n0 = 10 ^ P := by omega
    simp only [hc, if_true]
    refine ⟨?_, ?_, X, hlo, hup, ?_⟩
    · rw [hn0e]
      show 10 ^ (P - 1) ≤ 10 ^ P / 10
      rw [hpow]; simp
    · have hpos : 0 < 10 ^ (P - 1) := Nat.pow_pos (by omega)
      have : (10 * 10 ^ (P - 1)) / 10 = 10 ^ (P - 1) := by simp
      rw [hn0e]
      show 10 ^ P / 10 < 10 ^ P
      rw [hpow, this]; omega
    · apply hval
      rw [hn0e, hpow]
      have : (10 * 10 ^ (P - 1) / 10 : ℕ) = 10 ^ (P - 1) := by simp
      rw [this]
      push_cast
      have e1 : (10 : ℚ) ^ (X + 1 - (P : ℤ) + 1) = 10 * (10 : ℚ) ^ (X - P + 1) := by
        rw [show X + 1 - (P : ℤ) + 1 = 1 + (X - P + 1) by omega, zpow_add₀ (by norm_num)]; simp
      rw [e1]; ring
  · simp only [hc, if_false]
    exact ⟨hn0lo, by omega, X, hlo, hup, hval _ rfl⟩

end AslProofs.Fmt
