import AslProofs.FmtDigits
import AslProofs.FmtRound
set_option linter.unusedSimpArgs false
set_option linter.unusedVariables false
namespace AslProofs.Fmt
open AslModel AslModel.Dtoa Rfc8259

theorem decompose_pos (b : UInt64) (neg : Bool) (num den : ℕ) (h : decompose b = (neg, some (num, den))) :
    0 < num ∧ 0 < den := by
  unfold decompose at h
  dsimp only at h
  generalize (if b.toNat / 2 ^ 52 % 2048 = 0 then b.toNat % 2 ^ 52 else b.toNat % 2 ^ 52 + 2 ^ 52) = m at h
  generalize ((if b.toNat / 2 ^ 52 % 2048 = 0 then (1 : ℤ) else ((b.toNat / 2 ^ 52 % 2048 : ℕ) : ℤ)) - 1075) = e at h
  by_cases h0 : m = 0
  · simp [h0] at h
  · have hmpos : 0 < m := Nat.pos_of_ne_zero h0
    by_cases hge : e ≥ 0
    · simp only [h0, if_false, hge, if_true, Prod.mk.injEq, Option.some.injEq] at h
      obtain ⟨_, rfl, rfl⟩ := h
      exact ⟨Nat.mul_pos hmpos (Nat.pow_pos (by omega)), by omega⟩
    · simp only [h0, if_false, hge, Prod.mk.injEq, Option.some.injEq] at h
      obtain ⟨_, rfl, rfl⟩ := h
      exact ⟨hmpos, Nat.pow_pos (by omega)⟩

theorem padLeft_ne_nil (k : ℕ) (ds : Bytes) (h : ds ≠ []) : padLeft k ds ≠ [] := by
  simp [padLeft, h]

theorem decDigits_ne_nil (n : ℕ) : decDigits n ≠ [] := by
  intro h
  have := congrArg List.length h
  rw [decDigits_length] at this
  have := Nat.length_toDigits_pos (b := 10) (n := n)
  simp at *

theorem frac_of_digits (ds : Bytes) (h : Digits ds) : Frac (if ds = [] then [] else 46 :: ds) := by
  cases ds with
  | nil => exact Frac.none
  | cons d t =>
    simp only [List.cons_ne_nil, if_false]
    exact Frac.some d t (h d (by simp)) (fun c hc => h c (by simp [hc]))

theorem intpart_single (d : UInt8) (h : isDig d) : IntPart [d] := by
  by_cases h0 : d = 48
  · subst h0; exact IntPart.zero
  · refine IntPart.nz d [] ?_ h.2 (by intro c hc; simp at hc)
    have := h.1
    simp only [UInt8.le_iff_toNat_le, UInt8.reduceToNat] at this ⊢
    have : d.toNat ≠ 48 := fun hh => h0 (UInt8.toNat_inj.mp (by simpa using hh))
    omega

/-- `%.Pg` of any bit pattern has the shape of an RFC 8259 number: H1 for the formatter the driver runs -/
theorem fmtG_number (P : ℕ) (b : UInt64) : Number (fmtG P b) := by
  unfold fmtG
  simp only []
  generalize hP' : (if P = 0 then 1 else P) = P'
  have hP1 : 1 ≤ P' := by subst hP'; split <;> omega
  have hsign : ∀ neg : Bool, (if neg = true then [45] else ([] : Bytes)) = [] ∨ (if neg = true then [45] else ([] : Bytes)) = [45] := by
    intro neg; cases neg <;> simp
  cases hdec : decompose b with
  | mk neg o =>
    cases o with
    | none =>
      simp only []
      have := Number.mk (if neg = true then [45] else []) [48] [] [] (hsign neg) IntPart.zero Frac.none Exp.none
      simpa using this
    | some nd =>
      obtain ⟨num, den⟩ := nd
      obtain ⟨hn, hd⟩ := decompose_pos b neg num den hdec
      obtain ⟨h1, h2, _⟩ := sigDigits_spec P' num den hP1 hn hd
      simp only []
      generalize sigDigits P' num den = nx at *
      obtain ⟨n, x⟩ := nx
      simp only [] at h1 h2 ⊢
      have hnpos : 0 < n := lt_of_lt_of_le (Nat.pow_pos (by omega)) h1
      have hlen := decDigits_length_eq P' n hP1 h1 h2
      rw [padLeft_id P' _ hlen]
      have hdig := decDigits_digits n
      obtain ⟨d0, t, hdt, hd0a, hd0b⟩ := decDigits_head n hnpos
      rw [hdt] at hdig hlen ⊢
      have hd0 : isDig d0 := hdig d0 (by simp)
      have htd : Digits t := fun c hc => hdig c (by simp [hc])
      split
      · -- exponent style
        have hfrac := frac_of_digits _ (stripZeros_digits t htd)
        have hexd : ∃ e0 et, padLeft 2 (decDigits x.natAbs) = e0 :: et ∧ isDig e0 ∧ Digits et := by
          have hd2 := padLeft_digits 2 _ (decDigits_digits x.natAbs)
          cases hpl : padLeft 2 (decDigits x.natAbs) with
          | nil => exact absurd hpl (padLeft_ne_nil 2 _ (decDigits_ne_nil _))
          | cons e0 et =>
            rw [hpl] at hd2
            exact ⟨e0, et, rfl, hd2 e0 (by simp), fun c hc => hd2 c (by simp [hc])⟩
        obtain ⟨e0, et, hpe, he0, het⟩ := hexd
        have hexp := Exp.some 101 [if x < 0 then 45 else 43] e0 et (Or.inl rfl)
          (by split <;> simp) he0 het
        have := Number.mk (if neg = true then [45] else []) [d0] _ _ (hsign neg) (intpart_single d0 hd0) hfrac hexp
        simp only [List.take_succ_cons, List.take_zero, List.drop_succ_cons, List.drop_zero, hpe]
        simpa [List.append_assoc] using this
      · split
        · -- fixed style, integer part of x+1 digits
          rename_i hx1 hx0
          have hfrac := frac_of_digits _ (stripZeros_digits _ (fun c hc => hdig c (List.mem_of_mem_drop hc)) :
            Digits (stripZeros ((d0 :: t).drop (x.toNat + 1))))
          have hip : IntPart ((d0 :: t).take (x.toNat + 1)) := by
            simp only [List.take_succ_cons]
            exact IntPart.nz d0 _ hd0a hd0b (fun c hc => htd c (List.mem_of_mem_take hc))
          have := Number.mk (if neg = true then [45] else []) _ _ [] (hsign neg) hip hfrac Exp.none
          simpa [List.append_assoc] using this
        · -- 0.000ddd
          have hz : Digits (List.replicate ((-x).toNat - 1) 48 ++ d0 :: t) := by
            intro c hc
            simp only [List.mem_append, List.mem_replicate] at hc
            rcases hc with ⟨_, rfl⟩ | hc
            · unfold isDig; decide
            · exact hdig c hc
          have hfrac := frac_of_digits _ (stripZeros_digits _ hz)
          have := Number.mk (if neg = true then [45] else []) [48] _ [] (hsign neg) IntPart.zero hfrac Exp.none
          simpa [List.append_assoc] using this

end AslProofs.Fmt
