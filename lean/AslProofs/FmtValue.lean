import AslProofs.FmtParse
import AslProofs.FmtShape
import AslProofs.NumValDefs
import AslProofs.XdlNum
set_option linter.unusedSimpArgs false
set_option linter.unusedVariables false
namespace AslProofs.Fmt
open AslModel AslModel.Dtoa Rfc8259 NumVal

theorem pow10_zpow (e : ℤ) : NumVal.pow10 e = (10 : ℚ) ^ e := by
  unfold NumVal.pow10
  by_cases h : e ≥ 0
  · obtain ⟨k, rfl⟩ := Int.eq_ofNat_of_zero_le h
    simp [h]
  · obtain ⟨k, hk⟩ : ∃ k : ℕ, e = -(k : ℤ) := ⟨(-e).toNat, by omega⟩
    subst hk
    simp [h]
    intro h0; subst h0; simp

theorem pow2_zpow (e : ℤ) : NumVal.pow2 e = (2 : ℚ) ^ e := by
  unfold NumVal.pow2
  by_cases h : e ≥ 0
  · obtain ⟨k, rfl⟩ := Int.eq_ofNat_of_zero_le h
    simp [h]
  · obtain ⟨k, hk⟩ : ∃ k : ℕ, e = -(k : ℤ) := ⟨(-e).toNat, by omega⟩
    subst hk
    simp [h]
    intro h0; subst h0; simp

theorem rabs_abs (x : ℚ) : NumVal.rabs x = |x| := by
  unfold NumVal.rabs
  split
  · rename_i h; rw [abs_of_neg h]
  · rename_i h; rw [abs_of_nonneg (le_of_not_gt h)]

/-- the value of digits `A ++ F` read with `|F|` fraction digits and exponent `E`, when `A ++ F ++ 0…0` spells `n` -/
theorem value_core (A F : Bytes) (z n : ℕ) (E : ℤ) (h : dv (A ++ F ++ List.replicate z 48) = n) :
    ((dv (A ++ F) : ℕ) : ℚ) * (10 : ℚ) ^ (E - (F.length : ℤ)) = (n : ℚ) * (10 : ℚ) ^ (E - F.length - z) := by
  rw [dv_append, dv_zeros] at h
  simp only [List.length_replicate, Nat.add_zero] at h
  rw [← h]
  push_cast
  rw [mul_assoc, ← zpow_natCast, ← zpow_add₀ (by norm_num)]
  congr 2
  omega


theorem lexVal_struct (sneg : Bool) (ip : Bytes) (hip : Digits ip) (hne : ip ≠ []) (fd : Option Bytes)
    (hfd : ∀ f, fd = some f → Digits f) (ex : Option (Bool × Bytes)) (hex : ∀ e, ex = some e → Digits e.2) :
    NumVal.lexVal ((if sneg then [45] else []) ++ ip ++ fracTextOf fd ++ expTextOf ex) =
      (if sneg then -1 else 1) * ((dv (ip ++ fd.getD []) : ℕ) : ℚ) *
        (10 : ℚ) ^ ((if expNegOf ex then -((dv (expDigitsOf ex) : ℕ) : ℤ) else ((dv (expDigitsOf ex) : ℕ) : ℤ)) - ((fd.getD []).length : ℤ)) := by
  unfold NumVal.lexVal
  rw [parseDec_struct sneg ip hip hne fd hfd ex hex]
  simp only [pow10_zpow]

theorem lexVal_struct0 (sneg : Bool) (ip : Bytes) (hip : Digits ip) (hne : ip ≠ []) (fd : Option Bytes)
    (hfd : ∀ f, fd = some f → Digits f) :
    NumVal.lexVal ((if sneg then [45] else []) ++ ip ++ fracTextOf fd) =
      (if sneg then -1 else 1) * ((dv (ip ++ fd.getD []) : ℕ) : ℚ) * (10 : ℚ) ^ ((0 : ℤ) - ((fd.getD []).length : ℤ)) := by
  have := lexVal_struct sneg ip hip hne fd hfd none (by intro e he; simp at he)
  simpa [expTextOf, expNegOf, expDigitsOf, dv, Strtod.digitsVal] using this

theorem fracText_if (frac : Bytes) : (if frac = [] then ([] : Bytes) else 46 :: frac) = fracTextOf (if frac = [] then none else some frac) := by
  split <;> rfl

theorem getD_if (frac : Bytes) : (if frac = [] then (none : Option Bytes) else some frac).getD [] = frac := by
  split
  · rename_i h; simp [h]
  · rfl

/-- the decimal value of the text `fmtG` writes is `±n·10^(x-P+1)` for the digits `(n, x)` it computed -/
theorem fmtG_lexVal (P : ℕ) (b : UInt64) (neg : Bool) (num den : ℕ) (hdec : decompose b = (neg, some (num, den))) :
    NumVal.lexVal (fmtG P b) = (if neg then -1 else 1) *
      (((sigDigits (if P = 0 then 1 else P) num den).1 : ℕ) : ℚ) *
      (10 : ℚ) ^ ((sigDigits (if P = 0 then 1 else P) num den).2 - ((if P = 0 then 1 else P : ℕ) : ℤ) + 1) := by
  unfold fmtG
  simp only [hdec]
  generalize hP' : (if P = 0 then 1 else P) = P'
  have hP1 : 1 ≤ P' := by subst hP'; split <;> omega
  obtain ⟨hn, hd⟩ := decompose_pos b neg num den hdec
  obtain ⟨h1, h2, _⟩ := sigDigits_spec P' num den hP1 hn hd
  generalize sigDigits P' num den = nx at *
  obtain ⟨n, x⟩ := nx
  simp only [] at h1 h2 ⊢
  have hnpos : 0 < n := lt_of_lt_of_le (Nat.pow_pos (by omega)) h1
  have hlen := decDigits_length_eq P' n hP1 h1 h2
  rw [padLeft_id P' _ hlen]
  have hdig := decDigits_digits n
  have hdv := dv_decDigits n
  obtain ⟨d0, t, hdt, hd0a, hd0b⟩ := decDigits_head n hnpos
  rw [hdt] at hdig hlen hdv ⊢
  have hd0 : isDig d0 := hdig d0 (by simp)
  have htd : Digits t := fun c hc => hdig c (by simp [hc])
  have htlen : t.length = P' - 1 := by simp at hlen; omega
  split
  · -- exponent style: d0 . frac e± exd
    obtain ⟨z, hz⟩ := stripZeros_decomp t
    have hfd : Digits (stripZeros t) := stripZeros_digits t htd
    have hexd : Digits (padLeft 2 (decDigits x.natAbs)) := padLeft_digits 2 _ (decDigits_digits _)
    have hdvexd : dv (padLeft 2 (decDigits x.natAbs)) = x.natAbs := by
      unfold padLeft; rw [dv_append, dv_zeros, dv_decDigits]; simp
    have hform : (if neg = true then [45] else []) ++
        ((d0 :: t).take 1 ++ if stripZeros ((d0 :: t).drop 1) = [] then [] else 46 :: stripZeros ((d0 :: t).drop 1)) ++
        [101, if x < 0 then 45 else 43] ++ padLeft 2 (decDigits x.natAbs) =
        (if neg = true then [45] else []) ++ [d0] ++ fracTextOf (if stripZeros t = [] then none else some (stripZeros t)) ++
          expTextOf (some (decide (x < 0), padLeft 2 (decDigits x.natAbs))) := by
      simp only [List.take_succ_cons, List.take_zero, List.drop_succ_cons, List.drop_zero, fracText_if, expTextOf, expText,
        List.append_assoc]
      by_cases hx : x < 0 <;> simp [hx]
    rw [hform, lexVal_struct neg [d0] (fun c hc => by simp at hc; subst hc; exact hd0) (by simp) _
      (by intro f hf; split at hf <;> simp at hf; subst hf; exact hfd) _ (by intro e he; simp at he; subst he; exact hexd)]
    simp only [getD_if, expNegOf, expDigitsOf, hdvexd]
    have hE : (if decide (x < 0) = true then -((x.natAbs : ℕ) : ℤ) else ((x.natAbs : ℕ) : ℤ)) = x := by
      by_cases hx : x < 0
      · rw [if_pos (by simpa using hx)]; omega
      · rw [if_neg (by simpa using hx)]; omega
    rw [hE]
    have hcore := value_core [d0] (stripZeros t) z n x (by
      have : [d0] ++ stripZeros t ++ List.replicate z 48 = d0 :: t := by rw [List.append_assoc, ← hz]; rfl
      rw [this]; exact hdv)
    rw [mul_assoc, hcore, mul_assoc]
    congr 2
    have : (stripZeros t).length + z = P' - 1 := by
      have := congrArg List.length hz
      simp at this; omega
    congr 1; omega
  · split
    · -- fixed style
      rename_i hx1 hx0
      have hxP : x.toNat + 1 ≤ P' := by omega
      obtain ⟨z, hz⟩ := stripZeros_decomp ((d0 :: t).drop (x.toNat + 1))
      have hdd : Digits ((d0 :: t).drop (x.toNat + 1)) := fun c hc => hdig c (List.mem_of_mem_drop hc)
      have hfd := stripZeros_digits _ hdd
      have hipd : Digits ((d0 :: t).take (x.toNat + 1)) := fun c hc => hdig c (List.mem_of_mem_take hc)
      have hform : (if neg = true then [45] else []) ++ (d0 :: t).take (x.toNat + 1) ++
          (if stripZeros ((d0 :: t).drop (x.toNat + 1)) = [] then [] else 46 :: stripZeros ((d0 :: t).drop (x.toNat + 1))) =
          (if neg = true then [45] else []) ++ (d0 :: t).take (x.toNat + 1) ++
            fracTextOf (if stripZeros ((d0 :: t).drop (x.toNat + 1)) = [] then none else some (stripZeros ((d0 :: t).drop (x.toNat + 1)))) := by
        simp [fracText_if]
      rw [hform, lexVal_struct0 neg _ hipd (by simp) _
        (by intro f hf; split at hf <;> simp at hf; subst hf; exact hfd)]
      simp only [getD_if]
      have hcore := value_core ((d0 :: t).take (x.toNat + 1)) (stripZeros ((d0 :: t).drop (x.toNat + 1))) z n 0 (by
        rw [List.append_assoc, ← hz, List.take_append_drop]; exact hdv)
      rw [mul_assoc, hcore, mul_assoc]
      congr 2
      have : (stripZeros ((d0 :: t).drop (x.toNat + 1))).length + z = P' - (x.toNat + 1) := by
        have hl1 : ((d0 :: t).drop (x.toNat + 1)).length = P' - (x.toNat + 1) := by rw [List.length_drop, hlen]
        have hl2 := congrArg List.length hz
        rw [List.length_append, List.length_replicate, hl1] at hl2
        omega
      congr 1; omega
    · -- 0.000ddd
      rename_i hx1 hx0
      have hxneg : x < 0 := by omega
      have hz0 : Digits (List.replicate ((-x).toNat - 1) 48 ++ d0 :: t) := by
        intro c hc
        simp only [List.mem_append, List.mem_replicate] at hc
        rcases hc with ⟨_, rfl⟩ | hc
        · unfold isDig; decide
        · exact hdig c hc
      obtain ⟨z, hz⟩ := stripZeros_decomp (List.replicate ((-x).toNat - 1) 48 ++ d0 :: t)
      have hfd := stripZeros_digits _ hz0
      have hform : (if neg = true then [45] else []) ++ [48] ++
          (if stripZeros (List.replicate ((-x).toNat - 1) 48 ++ d0 :: t) = [] then [] else
            46 :: stripZeros (List.replicate ((-x).toNat - 1) 48 ++ d0 :: t)) =
          (if neg = true then [45] else []) ++ [48] ++
            fracTextOf (if stripZeros (List.replicate ((-x).toNat - 1) 48 ++ d0 :: t) = [] then none else
              some (stripZeros (List.replicate ((-x).toNat - 1) 48 ++ d0 :: t))) := by
        simp [fracText_if]
      rw [hform, lexVal_struct0 neg [48] (by intro c hc; simp at hc; subst hc; unfold isDig; decide) (by simp) _
        (by intro f hf; split at hf <;> simp at hf; subst hf; exact hfd)]
      simp only [getD_if]
      have hcore := value_core [48] (stripZeros (List.replicate ((-x).toNat - 1) 48 ++ d0 :: t)) z n 0 (by
        rw [List.append_assoc, ← hz]
        have : [48] ++ (List.replicate ((-x).toNat - 1) 48 ++ d0 :: t) = List.replicate ((-x).toNat - 1 + 1) 48 ++ d0 :: t := by
          rw [List.replicate_succ]; rfl
        rw [this, dv_append, dv_zeros, hdv]; simp)
      rw [mul_assoc, hcore, mul_assoc]
      congr 2
      have : (stripZeros (List.replicate ((-x).toNat - 1) 48 ++ d0 :: t)).length + z = ((-x).toNat - 1) + P' := by
        have hl2 := congrArg List.length hz
        rw [List.length_append, List.length_append, List.length_replicate, List.length_replicate, hlen] at hl2
        omega
      congr 1; omega


/-- `Dtoa.decompose` and the IEEE value `NumVal.dval` agree -/
theorem decompose_value (b : UInt64) :
    (∀ neg, decompose b = (neg, none) → NumVal.dval b = 0) ∧
    (∀ neg num den, decompose b = (neg, some (num, den)) →
      NumVal.dval b = (if neg then -1 else 1) * ((num : ℚ) / den)) := by
  unfold decompose NumVal.dval
  dsimp only
  generalize b.toNat / 2 ^ 52 % 2048 = be
  generalize b.toNat % 2 ^ 52 = fr
  generalize b.toNat / 2 ^ 63 = sg
  simp only [pow2_zpow]
  by_cases hbe : be = 0
  · subst hbe
    simp only [if_true]
    have he : ¬ ((1 : ℤ) - 1075 ≥ 0) := by omega
    simp only [he, if_false]
    constructor
    · intro neg h
      split at h
      · rename_i hf; simp [hf]
      · simp at h
    · intro neg num den h
      split at h
      · simp at h
      · simp only [Prod.mk.injEq, Option.some.injEq] at h
        obtain ⟨rfl, rfl, rfl⟩ := h
        have e1 : (-((1 : ℤ) - 1075)).toNat = 1074 := by omega
        rw [e1]
        by_cases hs : sg = 1 <;> simp [hs, zpow_neg] <;> ring
  · simp only [hbe, if_false]
    have hm : ¬ (fr + 2 ^ 52 = 0) := by positivity
    simp only [hm, if_false]
    constructor
    · intro neg h
      split at h <;> simp at h
    · intro neg num den h
      by_cases hge : ((be : ℕ) : ℤ) - 1075 ≥ 0
      · simp only [hge, if_true, Prod.mk.injEq, Option.some.injEq] at h
        obtain ⟨rfl, rfl, rfl⟩ := h
        obtain ⟨k, hk⟩ := Int.eq_ofNat_of_zero_le hge
        rw [hk]
        by_cases hs : sg = 1 <;> simp [hs]
      · simp only [hge, if_false, Prod.mk.injEq, Option.some.injEq] at h
        obtain ⟨rfl, rfl, rfl⟩ := h
        obtain ⟨k, hk⟩ : ∃ k : ℕ, ((be : ℕ) : ℤ) - 1075 = -(k : ℤ) := ⟨(-(((be : ℕ) : ℤ) - 1075)).toNat, by omega⟩
        rw [hk]
        by_cases hs : sg = 1 <;> simp [hs, zpow_neg] <;> ring


/-- **H1v for the formatter the driver runs**: `Dtoa.fmtG P b` is an RFC 8259 number lexeme whose decimal value
    is the value of the double `b` correctly rounded (half-even) to `P` significant digits -/
theorem fmtG_H1v : AslProofs.XdlEnc.H1v fmtG := by
  intro P b _
  refine ⟨fmtG_number P b, ?_⟩
  obtain ⟨hnone, hsome⟩ := decompose_value b
  generalize hP' : (if P = 0 then 1 else P) = P'
  have hP1 : 1 ≤ P' := by subst hP'; split <;> omega
  cases hdec : decompose b with
  | mk neg o =>
    cases o with
    | none =>
      have hx : NumVal.dval b = 0 := hnone neg hdec
      have hv : NumVal.lexVal (fmtG P b) = 0 := by
        have hf : fmtG P b = (if neg = true then [45] else []) ++ [48] ++ fracTextOf none := by
          unfold fmtG; simp [hdec, fracTextOf]
        rw [hf, lexVal_struct0 neg [48] (by intro c hc; simp at hc; subst hc; unfold isDig; decide) (by simp) none
          (by intro f hf; simp at hf)]
        simp [dv, Strtod.digitsVal]
      exact ⟨fun _ => hv, fun h => absurd hx h⟩
    | some nd =>
      obtain ⟨num, den⟩ := nd
      obtain ⟨hn, hd⟩ := decompose_pos b neg num den hdec
      have hx := hsome neg num den hdec
      have hv := fmtG_lexVal P b neg num den hdec
      rw [hP'] at hv
      obtain ⟨_, _, X, hX1, hX2, herr⟩ := sigDigits_spec P' num den hP1 hn hd
      have hr : (0 : ℚ) < (num : ℚ) / den := by positivity
      have hs : |(if neg = true then (-1 : ℚ) else 1)| = 1 := by cases neg <;> simp
      have habs : |NumVal.dval b| = (num : ℚ) / den := by
        rw [hx, abs_mul, hs, one_mul, abs_of_pos hr]
      refine ⟨fun h0 => ?_, fun _ => ⟨X, ?_, ?_, ?_⟩⟩
      · exfalso
        rw [hx] at h0
        cases neg <;> simp at h0 <;> omega
      · rw [rabs_abs, pow10_zpow, habs]; exact hX1
      · rw [rabs_abs, pow10_zpow, habs]; exact hX2
      · rw [rabs_abs, pow10_zpow, hx, hv]
        have : (if neg = true then (-1 : ℚ) else 1) * ((sigDigits P' num den).1 : ℚ) * (10 : ℚ) ^ ((sigDigits P' num den).2 - (P' : ℤ) + 1) -
            (if neg = true then (-1 : ℚ) else 1) * ((num : ℚ) / den) =
            (if neg = true then (-1 : ℚ) else 1) *
              (((sigDigits P' num den).1 : ℚ) * (10 : ℚ) ^ ((sigDigits P' num den).2 - (P' : ℤ) + 1) - (num : ℚ) / den) := by ring
        rw [this, abs_mul, hs, one_mul]
        exact herr

end AslProofs.Fmt
