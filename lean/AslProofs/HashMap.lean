import AslModel.HashMap
import AslProofs.Map
import Batteries.Data.List.Perm
/-!
# Helper lemmas for the hash map / set model (`AslModel/HashMap.lean`)

The abstract map of a table is the linear `lookup` (from `AslProofs/Map.lean`) over its *enumeration*; the
representation invariant `WF` says every chain lives in the bucket `binOf` sends its keys to and has no
repeated key.  Nothing here depends on what the hash function `h` is.
-/
namespace AslProofs.HashMap
open AslModel.HashMap
open AslProofs.Map (lookup KeysNodup lookup_append lookup_none lookup_mem lookup_of_mem lookup_isSome_iff)

set_option linter.unusedSectionVars false
variable {K V : Type} [DecidableEq K]

/-! ## chains -/

theorem chainFind_eq_lookup (k : K) (c : List (K × V)) : chainFind k c = lookup k c := by
  induction c with
  | nil => rfl
  | cons x t ih => obtain ⟨a, b⟩ := x; simp only [chainFind, lookup, ih]

theorem chainHas_eq_lookup (k : K) (c : List (K × V)) : chainHas k c = (lookup k c).isSome := by
  induction c with
  | nil => rfl
  | cons x t ih =>
    obtain ⟨a, b⟩ := x
    simp only [chainHas, lookup, ih]
    by_cases h : a = k <;> simp [h]

theorem chainIndex_eq (k : K) (d : V) (c : List (K × V)) :
    chainIndex k d c = if (lookup k c).isSome then (c, false) else (c ++ [(k, d)], true) := by
  induction c with
  | nil => simp [chainIndex, lookup]
  | cons x t ih =>
    obtain ⟨a, b⟩ := x
    simp only [chainIndex, lookup]
    by_cases h : a = k
    · simp [h]
    · simp only [h, if_false, ih]
      by_cases h2 : (lookup k t).isSome <;> simp [h2]

theorem chainSetVal_keys (k : K) (v : V) (c : List (K × V)) : (chainSetVal k v c).map (·.1) = c.map (·.1) := by
  induction c with
  | nil => rfl
  | cons x t ih =>
    obtain ⟨a, b⟩ := x
    simp only [chainSetVal]
    by_cases h : a = k <;> simp [h, ih]

theorem lookup_chainSetVal (k : K) (v : V) (c : List (K × V)) (k' : K) :
    lookup k' (chainSetVal k v c) = if k' = k ∧ (lookup k c).isSome then some v else lookup k' c := by
  induction c with
  | nil => simp [chainSetVal, lookup]
  | cons x t ih =>
    obtain ⟨a, b⟩ := x
    simp only [chainSetVal]
    by_cases h : a = k
    · subst h
      simp only [if_true, lookup]
      by_cases h2 : a = k'
      · subst h2; simp
      · have : ¬ k' = a := fun e => h2 e.symm
        simp [h2, this]
    · simp only [h, if_false, lookup, ih]
      by_cases h2 : a = k'
      · subst h2
        have : ¬ a = k := h
        simp [this]
      · simp [h2]

theorem chainRemove_fst_sublist (k : K) (c : List (K × V)) : (chainRemove k c).1.Sublist c := by
  induction c with
  | nil => simp [chainRemove]
  | cons x t ih =>
    obtain ⟨a, b⟩ := x
    simp only [chainRemove]
    by_cases h : a = k
    · simp [h]
    · simp only [h, if_false]
      exact List.Sublist.cons_cons _ ih

theorem chainRemove_snd (k : K) (c : List (K × V)) : (chainRemove k c).2 = (lookup k c).isSome := by
  induction c with
  | nil => rfl
  | cons x t ih =>
    obtain ⟨a, b⟩ := x
    simp only [chainRemove, lookup]
    by_cases h : a = k <;> simp [h, ih]

theorem chainRemove_length (k : K) (c : List (K × V)) :
    (chainRemove k c).1.length + (if (lookup k c).isSome then 1 else 0) = c.length := by
  induction c with
  | nil => rfl
  | cons x t ih =>
    obtain ⟨a, b⟩ := x
    simp only [chainRemove, lookup]
    by_cases h : a = k
    · simp [h]
    · simp only [h, if_false, List.length_cons]
      omega

theorem lookup_chainRemove (k : K) {c : List (K × V)} (hn : KeysNodup c) (k' : K) :
    lookup k' (chainRemove k c).1 = if k' = k then none else lookup k' c := by
  induction c with
  | nil => simp [chainRemove, lookup]
  | cons x t ih =>
    obtain ⟨a, b⟩ := x
    have hn' := List.pairwise_cons.mp hn
    simp only [chainRemove]
    by_cases h : a = k
    · subst h
      simp only [if_true, lookup]
      by_cases h2 : k' = a
      · subst h2
        simp only [if_true]
        exact lookup_none (fun y hy => (hn'.1 y hy).symm)
      · have : ¬ a = k' := fun e => h2 e.symm
        simp [h2, this]
    · simp only [h, if_false, lookup, ih hn'.2]
      by_cases h2 : a = k'
      · subst h2
        have : ¬ a = k := h
        simp [this]
      · simp [h2]

theorem keysNodup_iff (c : List (K × V)) : KeysNodup c ↔ (c.map (·.1)).Pairwise (· ≠ ·) := by
  unfold KeysNodup; rw [List.pairwise_map]

theorem keysNodup_append_new {c : List (K × V)} (hn : KeysNodup c) {k : K} (d : V) (h : lookup k c = none) :
    KeysNodup (c ++ [(k, d)]) := by
  unfold KeysNodup at *
  refine List.pairwise_append.mpr ⟨hn, by simp, ?_⟩
  intro x hx y hy
  have : y = (k, d) := by simpa using hy
  subst this
  intro e
  have hm : (lookup x.1 c).isSome := lookup_isSome_iff.mpr (List.mem_map.mpr ⟨x, hx, rfl⟩)
  rw [e] at hm
  simp [h] at hm

end AslProofs.HashMap

namespace AslProofs.HashMap
open AslModel.HashMap
open AslProofs.Map (lookup KeysNodup lookup_append lookup_none lookup_mem lookup_of_mem lookup_isSome_iff)
set_option linter.unusedSectionVars false
variable {K V : Type} [DecidableEq K]

/-! ## tables -/

/-- representation invariant of the bucket array (for *any* hash function `h`) -/
structure WF (h : K → Nat) (B : List (List (K × V))) : Prop where
  nb_pos : 0 < B.length
  bin : ∀ i (hi : i < B.length), ∀ x ∈ B[i], binOf h B.length x.1 = i
  nodup : ∀ i (hi : i < B.length), KeysNodup B[i]

/-- full invariant: well-formed buckets and the stored count equals the number of enumerated entries -/
structure Inv (h : K → Nat) (m : HM K V) : Prop where
  wf : WF h m.buckets
  count : m.n = (enum m).length

/-- the abstract finite map of a table: linear lookup over its enumeration -/
def abs (m : HM K V) (k : K) : Option V := lookup k (enum m)

theorem binOf_lt (h : K → Nat) {nb : Nat} (hnb : 0 < nb) (k : K) : binOf h nb k < nb := by
  unfold binOf
  have : h k &&& (nb - 1) ≤ nb - 1 := Nat.and_le_right
  omega

theorem getD_eq {B : List (List (K × V))} {i : Nat} (hi : i < B.length) : B.getD i [] = B[i] := by
  simp [List.getD_eq_getElem?_getD, List.getElem?_eq_getElem hi]

theorem mem_flatten_get {B : List (List (K × V))} {x : K × V} :
    x ∈ B.flatten ↔ ∃ i, ∃ hi : i < B.length, x ∈ B[i] := by
  rw [List.mem_flatten]
  constructor
  · rintro ⟨c, hc, hx⟩
    obtain ⟨i, hi, e⟩ := List.getElem_of_mem hc
    exact ⟨i, hi, by rw [e]; exact hx⟩
  · rintro ⟨i, hi, hx⟩
    exact ⟨B[i], List.getElem_mem hi, hx⟩

theorem WF.keysNodup {h : K → Nat} {B : List (List (K × V))} (w : WF h B) : KeysNodup B.flatten := by
  unfold KeysNodup
  rw [List.pairwise_flatten]
  refine ⟨?_, ?_⟩
  · intro c hc
    obtain ⟨i, hi, e⟩ := List.getElem_of_mem hc
    rw [← e]; exact w.nodup i hi
  · rw [List.pairwise_iff_getElem]
    intro i j hi hj hij x hx y hy e
    have h1 := w.bin i hi x hx
    have h2 := w.bin j hj y hy
    rw [e] at h1
    omega

/-- the central fact about hashing: the linear lookup over the whole enumeration is found by looking
only at the chain of bucket `binOf key` -/
theorem WF.lookup_bucket {h : K → Nat} {B : List (List (K × V))} (w : WF h B) (k : K) :
    lookup k B.flatten = lookup k (B[binOf h B.length k]'(binOf_lt h w.nb_pos k)) := by
  apply Option.ext
  intro v
  constructor
  · intro hl
    have hm := lookup_mem hl
    obtain ⟨i, hi, hx⟩ := mem_flatten_get.mp hm
    have hb := w.bin i hi _ hx
    simp only at hb
    subst hb
    exact lookup_of_mem (w.nodup _ _) hx
  · intro hl
    have hm := lookup_mem hl
    exact lookup_of_mem w.keysNodup (mem_flatten_get.mpr ⟨_, _, hm⟩)

theorem find_eq_abs {h : K → Nat} {m : HM K V} (w : WF h m.buckets) (k : K) : find h m k = abs m k := by
  unfold find abs enum
  rw [getD_eq (binOf_lt h w.nb_pos k), chainFind_eq_lookup, w.lookup_bucket k]

theorem has_eq_abs {h : K → Nat} {m : HM K V} (w : WF h m.buckets) (k : K) : has h m k = (abs m k).isSome := by
  unfold has abs enum
  rw [getD_eq (binOf_lt h w.nb_pos k), chainHas_eq_lookup, w.lookup_bucket k]

/-- replacing the chain of bucket `i` by a chain whose keys all hash to `i` and are distinct -/
theorem WF.set_bucket {h : K → Nat} {B : List (List (K × V))} (w : WF h B) (i : Nat) (hi : i < B.length)
    (c : List (K × V)) (hb : ∀ x ∈ c, binOf h B.length x.1 = i) (hn : KeysNodup c) : WF h (B.set i c) := by
  refine ⟨by simpa using w.nb_pos, ?_, ?_⟩
  · intro j hj x hx
    rw [List.getElem_set] at hx
    simp only [List.length_set] at hj ⊢
    by_cases e : i = j
    · simp only [e, if_true] at hx
      rw [← e]; exact hb x hx
    · simp only [e, if_false] at hx
      exact w.bin j hj x hx
  · intro j hj
    rw [List.getElem_set]
    simp only [List.length_set] at hj
    by_cases e : i = j
    · simp only [e, if_true]; exact hn
    · simp only [e, if_false]; exact w.nodup j hj

theorem lookup_set_bucket {h : K → Nat} {B : List (List (K × V))} (w : WF h B) (i : Nat) (hi : i < B.length)
    (c : List (K × V)) (hb : ∀ x ∈ c, binOf h B.length x.1 = i) (hn : KeysNodup c) (k : K) :
    lookup k (B.set i c).flatten = if binOf h B.length k = i then lookup k c else lookup k B.flatten := by
  have w' := w.set_bucket i hi c hb hn
  rw [w'.lookup_bucket k, w.lookup_bucket k]
  simp only [List.length_set, List.getElem_set]
  by_cases e : i = binOf h B.length k
  · simp [e]
  · have : ¬ binOf h B.length k = i := fun x => e x.symm
    simp [e, this]

theorem length_set_bucket {B : List (List (K × V))} (i : Nat) (hi : i < B.length) (c : List (K × V)) :
    (B.set i c).flatten.length + B[i].length = B.flatten.length + c.length := by
  have h1 : B.set i c = B.take i ++ c :: B.drop (i + 1) := by
    rw [List.set_eq_take_append_cons_drop]; simp [hi]
  have h2 : B = B.take i ++ B[i] :: B.drop (i + 1) := by
    rw [List.getElem_cons_drop, List.take_append_drop]
  rw [h1]
  conv => rhs; rw [h2]
  simp only [List.flatten_append, List.flatten_cons, List.length_append]
  omega

end AslProofs.HashMap

namespace AslProofs.HashMap
open AslModel.HashMap
open AslProofs.Map (lookup KeysNodup lookup_append lookup_none lookup_mem lookup_of_mem lookup_isSome_iff)
set_option linter.unusedSectionVars false
variable {K V : Type} [DecidableEq K]

/-! ## operations (no growth) -/

/-- the chain an operation on `key` walks -/
def chainOf (h : K → Nat) (m : HM K V) (key : K) : List (K × V) :=
  m.buckets.getD (binOf h m.buckets.length key) []

theorem abs_eq_chain {h : K → Nat} {m : HM K V} (w : WF h m.buckets) (k : K) :
    abs m k = lookup k (chainOf h m k) := by
  unfold chainOf
  rw [getD_eq (binOf_lt h w.nb_pos k)]
  exact w.lookup_bucket k

theorem chainOf_congr {h : K → Nat} {m : HM K V} {k key : K}
    (e : binOf h m.buckets.length k = binOf h m.buckets.length key) : chainOf h m k = chainOf h m key := by
  unfold chainOf; rw [e]

/-- replace the chain of `key`'s bucket by `c'` (keys hash to the same bucket, no repeated key) and the count
by `n'` (consistent with the change of chain length) -/
theorem replace_bucket {h : K → Nat} {m : HM K V} (inv : Inv h m) (key : K) (c' : List (K × V)) (n' : Nat)
    (hb : ∀ x ∈ c', binOf h m.buckets.length x.1 = binOf h m.buckets.length key) (hn : KeysNodup c')
    (hcount : n' + (chainOf h m key).length = m.n + c'.length) :
    Inv h ⟨m.buckets.set (binOf h m.buckets.length key) c', n', m.rc⟩ ∧
    ∀ k, abs (⟨m.buckets.set (binOf h m.buckets.length key) c', n', m.rc⟩ : HM K V) k =
      if binOf h m.buckets.length k = binOf h m.buckets.length key then lookup k c' else abs m k := by
  have w := inv.wf
  have hi := binOf_lt h w.nb_pos key
  have w' := w.set_bucket _ hi c' hb hn
  refine ⟨⟨w', ?_⟩, ?_⟩
  · have := length_set_bucket (B := m.buckets) _ hi c'
    have hc := inv.count
    unfold chainOf at hcount
    rw [getD_eq hi] at hcount
    simp only [enum] at hc ⊢
    omega
  · intro k
    simp only [abs, enum]
    exact lookup_set_bucket w _ hi c' hb hn k

/-- `operator[]` without the `rehash()` call -/
def indexCore (h : K → Nat) (dflt : V) (m : HM K V) (key : K) : HM K V :=
  let r := chainIndex key dflt (chainOf h m key)
  ⟨m.buckets.set (binOf h m.buckets.length key) r.1, if r.2 then m.n + 1 else m.n, m.rc⟩

theorem index_eq (h : K → Nat) (dflt : V) (m : HM K V) (key : K) :
    index h dflt m key = indexCore h dflt (rehash h m) key := rfl

theorem chain_bin {h : K → Nat} {m : HM K V} (w : WF h m.buckets) (key : K) :
    ∀ x ∈ chainOf h m key, binOf h m.buckets.length x.1 = binOf h m.buckets.length key := by
  have hi := binOf_lt h w.nb_pos key
  unfold chainOf; rw [getD_eq hi]
  exact w.bin _ hi

theorem chain_nodup {h : K → Nat} {m : HM K V} (w : WF h m.buckets) (key : K) : KeysNodup (chainOf h m key) := by
  have hi := binOf_lt h w.nb_pos key
  unfold chainOf; rw [getD_eq hi]
  exact w.nodup _ hi

theorem indexCore_spec {h : K → Nat} {m : HM K V} (inv : Inv h m) (dflt : V) (key : K) :
    Inv h (indexCore h dflt m key) ∧ (indexCore h dflt m key).buckets.length = m.buckets.length ∧
    ∀ k, abs (indexCore h dflt m key) k = if k = key then some ((abs m key).getD dflt) else abs m k := by
  have w := inv.wf
  have hak := abs_eq_chain w key
  have hlen : (indexCore h dflt m key).buckets.length = m.buckets.length := by simp [indexCore]
  refine ⟨?_, hlen, ?_⟩ <;> unfold indexCore <;> rw [chainIndex_eq]
  all_goals by_cases hp : (lookup key (chainOf h m key)).isSome
  all_goals simp only [hp, if_true, if_false, Bool.false_eq_true]
  · exact (replace_bucket inv key (chainOf h m key) m.n (chain_bin w key) (chain_nodup w key) rfl).1
  · have hnone : lookup key (chainOf h m key) = none := by simpa using hp
    refine (replace_bucket inv key _ (m.n + 1) ?_ (keysNodup_append_new (chain_nodup w key) dflt hnone) (by simp; omega)).1
    intro x hx
    rcases List.mem_append.mp hx with hx | hx
    · exact chain_bin w key x hx
    · have : x = (key, dflt) := by simpa using hx
      subst this; rfl
  · intro k
    rw [(replace_bucket inv key (chainOf h m key) m.n (chain_bin w key) (chain_nodup w key) rfl).2 k]
    obtain ⟨v, hv⟩ := Option.isSome_iff_exists.mp hp
    by_cases hk : k = key
    · subst hk; simp [hak, hv]
    · simp only [hk, if_false]
      by_cases e : binOf h m.buckets.length k = binOf h m.buckets.length key
      · simp only [e, if_true]; rw [abs_eq_chain w k, chainOf_congr e]
      · simp [e]
  · intro k
    have hnone : lookup key (chainOf h m key) = none := by simpa using hp
    have hb : ∀ x ∈ chainOf h m key ++ [(key, dflt)], binOf h m.buckets.length x.1 = binOf h m.buckets.length key := by
      intro x hx
      rcases List.mem_append.mp hx with hx | hx
      · exact chain_bin w key x hx
      · have : x = (key, dflt) := by simpa using hx
        subst this; rfl
    rw [(replace_bucket inv key _ (m.n + 1) hb (keysNodup_append_new (chain_nodup w key) dflt hnone) (by simp; omega)).2 k]
    rw [lookup_append]
    by_cases hk : k = key
    · subst hk; simp [hak, hnone, lookup]
    · have hne : ¬ key = k := fun x => hk x.symm
      simp only [hk, if_false, lookup, hne, Option.or_none]
      by_cases e : binOf h m.buckets.length k = binOf h m.buckets.length key
      · simp only [e, if_true]; rw [abs_eq_chain w k, chainOf_congr e]
      · simp [e]

theorem setVal_spec {h : K → Nat} {m : HM K V} (inv : Inv h m) (key : K) (v : V) :
    Inv h (setVal h m key v) ∧ (setVal h m key v).buckets.length = m.buckets.length ∧
    ∀ k, abs (setVal h m key v) k = if k = key ∧ (abs m key).isSome then some v else abs m k := by
  have w := inv.wf
  have hak := abs_eq_chain w key
  have hkeys := chainSetVal_keys key v (chainOf h m key)
  have hbin : ∀ x ∈ chainSetVal key v (chainOf h m key),
      binOf h m.buckets.length x.1 = binOf h m.buckets.length key := by
    intro x hx
    have : x.1 ∈ (chainSetVal key v (chainOf h m key)).map (·.1) := List.mem_map.mpr ⟨x, hx, rfl⟩
    rw [hkeys] at this
    obtain ⟨y, hy, e⟩ := List.mem_map.mp this
    rw [← e]; exact chain_bin w key y hy
  have hnd : KeysNodup (chainSetVal key v (chainOf h m key)) := by
    rw [keysNodup_iff, hkeys, ← keysNodup_iff]; exact chain_nodup w key
  have hl : (chainSetVal key v (chainOf h m key)).length = (chainOf h m key).length := by
    have := congrArg List.length hkeys; simpa using this
  have R := replace_bucket inv key _ m.n hbin hnd (by omega)
  refine ⟨R.1, by simp [setVal], ?_⟩
  intro k
  have := R.2 k
  unfold setVal
  simp only [chainOf] at this ⊢
  rw [this, lookup_chainSetVal]
  have hak' : abs m key = lookup key (m.buckets.getD (binOf h m.buckets.length key) []) := hak
  rw [← hak']
  by_cases e : binOf h m.buckets.length k = binOf h m.buckets.length key
  · simp only [e, if_true]
    have h2 := abs_eq_chain w k
    rw [chainOf_congr e] at h2
    simp only [chainOf] at h2
    rw [← h2]
  · have : ¬ k = key := fun x => e (by rw [x])
    simp [e, this]

theorem remove_spec {h : K → Nat} {m : HM K V} (inv : Inv h m) (key : K) :
    Inv h (remove h m key) ∧ (remove h m key).buckets.length = m.buckets.length ∧
    ∀ k, abs (remove h m key) k = if k = key then none else abs m k := by
  have w := inv.wf
  have hak := abs_eq_chain w key
  have hsub := chainRemove_fst_sublist key (chainOf h m key)
  have hbin : ∀ x ∈ (chainRemove key (chainOf h m key)).1,
      binOf h m.buckets.length x.1 = binOf h m.buckets.length key :=
    fun x hx => chain_bin w key x (hsub.subset hx)
  have hnd : KeysNodup (chainRemove key (chainOf h m key)).1 :=
    List.Pairwise.sublist hsub (chain_nodup w key)
  have hl := chainRemove_length key (chainOf h m key)
  have hpos : (lookup key (chainOf h m key)).isSome = true → 0 < m.n := by
    intro hp
    have hm := lookup_mem (Option.isSome_iff_exists.mp hp).choose_spec
    have hlen : 0 < (chainOf h m key).length := List.length_pos_of_mem hm
    have hi := binOf_lt h w.nb_pos key
    have := length_set_bucket (B := m.buckets) _ hi ([] : List (K × V))
    have hc := inv.count
    unfold chainOf at hlen
    rw [getD_eq hi] at hlen
    simp only [enum] at hc
    simp only [List.length_nil] at this
    omega
  have R := replace_bucket inv key (chainRemove key (chainOf h m key)).1
    (if (chainRemove key (chainOf h m key)).2 then m.n - 1 else m.n) hbin hnd (by
      rw [chainRemove_snd]
      by_cases hp : (lookup key (chainOf h m key)).isSome
      · have := hpos hp
        simp only [hp, if_true] at hl ⊢
        omega
      · simp only [hp] at hl ⊢
        simp at hl ⊢
        omega)
  refine ⟨R.1, by simp [remove], ?_⟩
  intro k
  have := R.2 k
  unfold remove
  simp only [chainOf] at this ⊢
  refine this.trans ?_
  have hnd' := chain_nodup w key
  simp only [chainOf] at hnd'
  rw [lookup_chainRemove key hnd']
  by_cases e : binOf h m.buckets.length k = binOf h m.buckets.length key
  · simp only [e, if_true]
    have h2 := abs_eq_chain w k
    rw [chainOf_congr e] at h2
    simp only [chainOf] at h2
    rw [← h2]
  · have : ¬ k = key := fun x => e (by rw [x])
    simp [e, this]

theorem flatten_replicate_nil (n : Nat) : (List.replicate n ([] : List (K × V))).flatten = [] := by
  induction n with
  | zero => rfl
  | succ n ih => simp [List.replicate_succ, ih]

theorem empty_inv (h : K → Nat) {nb : Nat} (hnb : 0 < nb) : Inv h (empty nb : HM K V) ∧ ∀ k, abs (empty nb : HM K V) k = none := by
  refine ⟨⟨⟨by simpa [empty] using hnb, ?_, ?_⟩, ?_⟩, ?_⟩
  · intro i hi x hx; simp [empty] at hx
  · intro i hi; simp [empty, KeysNodup]
  · simp [empty, enum]
  · intro k; simp [abs, empty, enum, lookup]

theorem clear_spec {h : K → Nat} {m : HM K V} (inv : Inv h m) :
    Inv h (clear m) ∧ (clear m).buckets.length = m.buckets.length ∧ ∀ k, abs (clear m) k = none := by
  have hb : (clear m).buckets = (empty m.buckets.length : HM K V).buckets := by
    unfold clear empty
    apply List.ext_getElem (by simp)
    intro i h1 h2; simp
  have E := empty_inv (V := V) h inv.wf.nb_pos
  refine ⟨⟨by rw [hb]; exact E.1.wf, ?_⟩, by simp [clear], ?_⟩
  · have := E.1.count
    simp only [enum] at this ⊢
    rw [hb, ← this]; rfl
  · intro k
    have := E.2 k
    simp only [abs, enum] at this ⊢
    rw [hb]; exact this

end AslProofs.HashMap

namespace AslProofs.HashMap
open AslModel.HashMap
open AslProofs.Map (lookup KeysNodup lookup_append lookup_none lookup_mem lookup_of_mem lookup_isSome_iff)
set_option linter.unusedSectionVars false
variable {K V : Type} [DecidableEq K]

/-! ## obligations on the regenerated constants (`Gen/HashMapGen.lean`) -/

/-- `HashMap()` allocates at least one bucket -/
theorem defaultBuckets_pos : 0 < Gen.HashMap.defaultBuckets := by decide
/-- `rehash()` never shrinks the table to nothing -/
theorem growFactor_pos : 0 < Gen.HashMap.growFactor := by decide

/-! ## growth: `rehash()` -/

/-- one step of the `rehash()` loop -/
def rstep (h : K → Nat) (nb : Nat) (b : List (List (K × V))) (kv : K × V) : List (List (K × V)) :=
  b.set (binOf h nb kv.1) (b.getD (binOf h nb kv.1) [] ++ [kv])

theorem rehashInto_eq (h : K → Nat) (nb : Nat) (es : List (K × V)) :
    rehashInto h nb es = es.foldl (rstep h nb) (List.replicate nb []) := rfl

theorem inv_of_wf {h : K → Nat} {B : List (List (K × V))} (w : WF h B) : Inv h ⟨B, B.flatten.length, 1⟩ := ⟨w, rfl⟩

theorem rstep_eq_indexCore {h : K → Nat} {B : List (List (K × V))} (w : WF h B) (x : K × V)
    (habs : lookup x.1 B.flatten = none) :
    rstep h B.length B x = (indexCore h x.2 ⟨B, B.flatten.length, 1⟩ x.1).buckets := by
  have hc := abs_eq_chain (m := ⟨B, B.flatten.length, 1⟩) w x.1
  simp only [abs, enum] at hc
  rw [habs] at hc
  unfold indexCore
  rw [chainIndex_eq, ← hc]
  simp [rstep, chainOf]

theorem indexCore_n_absent (h : K → Nat) (dflt : V) (m : HM K V) (key : K)
    (hn : lookup key (chainOf h m key) = none) : (indexCore h dflt m key).n = m.n + 1 := by
  unfold indexCore
  rw [chainIndex_eq, hn]
  simp

theorem foldl_rstep_spec {h : K → Nat} : ∀ (es : List (K × V)), KeysNodup es →
    ∀ (B : List (List (K × V))), WF h B → (∀ x ∈ es, lookup x.1 B.flatten = none) →
    WF h (es.foldl (rstep h B.length) B) ∧ (es.foldl (rstep h B.length) B).length = B.length ∧
    (es.foldl (rstep h B.length) B).flatten.length = B.flatten.length + es.length ∧
    ∀ k, lookup k (es.foldl (rstep h B.length) B).flatten = (lookup k B.flatten).or (lookup k es) := by
  intro es
  induction es with
  | nil => intro _ B w _; exact ⟨w, rfl, rfl, by intro k; simp [lookup]⟩
  | cons x t ih =>
    intro hn B w habs
    have hn' := List.pairwise_cons.mp hn
    have hx : lookup x.1 B.flatten = none := habs x (by simp)
    have hstep := rstep_eq_indexCore w x hx
    obtain ⟨inv1, hlen1, habs1⟩ := indexCore_spec (inv_of_wf w) x.2 x.1
    rw [← hstep] at hlen1
    have w1 : WF h (rstep h B.length B x) := by rw [hstep]; exact inv1.wf
    have hcount1 : (rstep h B.length B x).flatten.length = B.flatten.length + 1 := by
      have := inv1.count
      simp only [enum] at this
      rw [hstep, ← this]
      have hc := abs_eq_chain (m := ⟨B, B.flatten.length, 1⟩) w x.1
      simp only [abs, enum] at hc
      rw [hx] at hc
      exact indexCore_n_absent h x.2 ⟨B, B.flatten.length, 1⟩ x.1 hc.symm
    have habs1' : ∀ k, lookup k (rstep h B.length B x).flatten = if k = x.1 then some x.2 else lookup k B.flatten := by
      intro k
      have := habs1 k
      simp only [abs, enum] at this
      rw [hstep, this, hx]; rfl
    have hrest : ∀ y ∈ t, lookup y.1 (rstep h B.length B x).flatten = none := by
      intro y hy
      rw [habs1']
      have : ¬ y.1 = x.1 := fun e => hn'.1 y hy e.symm
      simp only [this, if_false]
      exact habs y (List.mem_cons_of_mem _ hy)
    have IH := ih hn'.2 (rstep h B.length B x) w1 hrest
    rw [hlen1] at IH
    simp only [List.foldl_cons]
    refine ⟨IH.1, IH.2.1, by rw [IH.2.2.1, hcount1, List.length_cons]; omega, ?_⟩
    intro k
    rw [IH.2.2.2 k, habs1']
    obtain ⟨a, b⟩ := x
    simp only [lookup]
    by_cases hk : k = a
    · subst hk; simp [hx]
    · have : ¬ a = k := fun e => hk e.symm
      simp [hk, this]

theorem rehash_spec {h : K → Nat} {m : HM K V} (inv : Inv h m) :
    Inv h (rehash h m) ∧ ∀ k, abs (rehash h m) k = abs m k := by
  unfold rehash
  simp only []
  split
  · exact ⟨inv, fun _ => rfl⟩
  · have hnb : 0 < m.buckets.length * Gen.HashMap.growFactor := Nat.mul_pos inv.wf.nb_pos growFactor_pos
    have E := empty_inv (V := V) h hnb
    have hlenE : (List.replicate (m.buckets.length * Gen.HashMap.growFactor) ([] : List (K × V))).length = m.buckets.length * Gen.HashMap.growFactor := by simp
    have S := foldl_rstep_spec (enum m) inv.wf.keysNodup (List.replicate (m.buckets.length * Gen.HashMap.growFactor) []) E.1.wf
      (by intro x _; have := E.2 x.1; simpa [abs, enum, empty] using this)
    rw [hlenE] at S
    rw [rehashInto_eq]
    refine ⟨⟨S.1, ?_⟩, ?_⟩
    · simp only [enum] at S ⊢
      rw [S.2.2.1, flatten_replicate_nil]
      have := inv.count
      simp only [enum] at this
      simp [this]
    · intro k
      simp only [abs, enum] at S ⊢
      rw [S.2.2.2 k, flatten_replicate_nil]
      simp [lookup]

/-! ## the public operations -/

theorem index_spec {h : K → Nat} {m : HM K V} (inv : Inv h m) (dflt : V) (key : K) :
    Inv h (index h dflt m key) ∧
    ∀ k, abs (index h dflt m key) k = if k = key then some ((abs m key).getD dflt) else abs m k := by
  rw [index_eq]
  obtain ⟨i1, a1⟩ := rehash_spec inv
  obtain ⟨i2, _, a2⟩ := indexCore_spec i1 dflt key
  refine ⟨i2, ?_⟩
  intro k
  rw [a2 k, a1 k, a1 key]

theorem assign_spec {h : K → Nat} {m : HM K V} (inv : Inv h m) (dflt : V) (key : K) (v : V) :
    Inv h (assign h dflt m key v) ∧
    ∀ k, abs (assign h dflt m key v) k = if k = key then some v else abs m k := by
  unfold assign
  obtain ⟨i1, a1⟩ := index_spec inv dflt key
  obtain ⟨i2, _, a2⟩ := setVal_spec i1 key v
  refine ⟨i2, ?_⟩
  intro k
  rw [a2 k, a1 k, a1 key]
  by_cases hk : k = key <;> simp [hk]

theorem foldl_assign_spec {h : K → Nat} (dflt : V) : ∀ (es : List (K × V)), KeysNodup es →
    ∀ (b : HM K V), Inv h b →
    Inv h (es.foldl (fun b kv => assign h dflt b kv.1 kv.2) b) ∧
    ∀ k, abs (es.foldl (fun b kv => assign h dflt b kv.1 kv.2) b) k = (lookup k es).or (abs b k) := by
  intro es
  induction es with
  | nil => intro _ b inv; exact ⟨inv, by intro k; simp [lookup]⟩
  | cons x t ih =>
    intro hn b inv
    have hn' := List.pairwise_cons.mp hn
    obtain ⟨a, v⟩ := x
    obtain ⟨i1, a1⟩ := assign_spec inv dflt a v
    obtain ⟨i2, a2⟩ := ih hn'.2 _ i1
    simp only [List.foldl_cons]
    refine ⟨i2, ?_⟩
    intro k
    rw [a2 k, a1 k]
    simp only [lookup]
    by_cases hk : k = a
    · subst hk
      have : lookup k t = none := lookup_none (fun y hy => (hn'.1 y hy).symm)
      simp [this]
    · have : ¬ a = k := fun e => hk e.symm
      simp [hk, this]

theorem nextPoT_pos (n : Nat) : 0 < nextPoT n := by unfold nextPoT; simp

theorem dup_spec {h : K → Nat} {m : HM K V} (inv : Inv h m) (dflt : V) :
    Inv h (dup h dflt m) ∧ ∀ k, abs (dup h dflt m) k = abs m k := by
  unfold dup
  have E := empty_inv (V := V) h (nextPoT_pos m.buckets.length)
  obtain ⟨i, a⟩ := foldl_assign_spec dflt (enum m) inv.wf.keysNodup _ E.1
  refine ⟨i, ?_⟩
  intro k
  rw [a k, E.2 k]
  simp [abs]

/-! ## equality depends only on contents -/

theorem mem_enum_iff {h : K → Nat} {m : HM K V} (inv : Inv h m) (k : K) (v : V) : (k, v) ∈ enum m ↔ abs m k = some v :=
  ⟨fun hm => lookup_of_mem inv.wf.keysNodup hm, fun hl => lookup_mem hl⟩

theorem entries_nodup {l : List (K × V)} (hn : KeysNodup l) : l.Nodup :=
  List.Pairwise.imp (fun hne e => hne (by rw [e])) hn

/-- two tables (any sizes, any histories) whose abstract maps agree enumerate permutations of one list -/
theorem enum_perm_of_abs_eq {h : K → Nat} {a b : HM K V} (ia : Inv h a) (ib : Inv h b) (e : ∀ k, abs a k = abs b k) :
    (enum a).Perm (enum b) := by
  have s1 : enum a ⊆ enum b := by
    intro x hx; obtain ⟨k, v⟩ := x
    exact (mem_enum_iff ib k v).mpr ((e k) ▸ (mem_enum_iff ia k v).mp hx)
  have s2 : enum b ⊆ enum a := by
    intro x hx; obtain ⟨k, v⟩ := x
    exact (mem_enum_iff ia k v).mpr ((e k).symm ▸ (mem_enum_iff ib k v).mp hx)
  exact List.Subperm.antisymm (List.subperm_of_subset (entries_nodup ia.wf.keysNodup) s1)
    (List.subperm_of_subset (entries_nodup ib.wf.keysNodup) s2)

theorem eq_iff [DecidableEq V] {h : K → Nat} {a b : HM K V} (ia : Inv h a) (ib : Inv h b) :
    AslModel.HashMap.eq h a b = true ↔ ∀ k, abs a k = abs b k := by
  unfold AslModel.HashMap.eq
  constructor
  · intro hh
    by_cases hn : a.n = b.n
    · simp only [hn, ne_eq, not_true_eq_false, if_false] at hh
      have hall := List.all_eq_true.mp hh
      have s1 : enum a ⊆ enum b := by
        intro x hx; obtain ⟨k, v⟩ := x
        have := hall (k, v) hx
        simp only [find_eq_abs ib.wf] at this
        cases hb : abs b k with
        | none => simp [hb] at this
        | some v' =>
          simp only [hb, decide_eq_true_eq] at this
          subst this
          exact (mem_enum_iff ib k v).mpr hb
      have hp : (enum a).Perm (enum b) :=
        List.Subperm.perm_of_length_le (List.subperm_of_subset (entries_nodup ia.wf.keysNodup) s1)
          (by rw [← ia.count, ← ib.count, hn]; exact Nat.le_refl _)
      intro k
      apply Option.ext
      intro v
      rw [← mem_enum_iff ia, ← mem_enum_iff ib]
      exact hp.mem_iff
    · simp [hn] at hh
  · intro e
    have hp := enum_perm_of_abs_eq ia ib e
    have hn : a.n = b.n := by rw [ia.count, ib.count]; exact hp.length_eq
    simp only [hn, ne_eq, not_true_eq_false, if_false]
    apply List.all_eq_true.mpr
    intro x hx; obtain ⟨k, v⟩ := x
    have h1 := (mem_enum_iff ia k v).mp hx
    simp only [find_eq_abs ib.wf, ← e k, h1, decide_true]

end AslProofs.HashMap

namespace AslProofs.HashMap
open AslModel.HashMap
open AslProofs.Map (lookup KeysNodup lookup_append lookup_none lookup_mem lookup_of_mem lookup_isSome_iff)
set_option linter.unusedSectionVars false
variable {K : Type} [DecidableEq K]

/-! ## `Set<T>` -/

theorem keys_nodup {V : Type} {h : K → Nat} {m : HM K V} (inv : Inv h m) : ((enum m).map (·.1)).Nodup :=
  (keysNodup_iff _).mp inv.wf.keysNodup

theorem mem_keys_iff {V : Type} {h : K → Nat} {m : HM K V} (inv : Inv h m) (k : K) :
    k ∈ (enum m).map (·.1) ↔ has h m k = true := by
  rw [has_eq_abs inv.wf, abs, lookup_isSome_iff]

theorem sIns_spec {h : K → Nat} {s : HSet K} (inv : Inv h s) (x : K) :
    Inv h (sIns h s x) ∧ ∀ y, has h (sIns h s x) y = (decide (y = x) || has h s y) := by
  obtain ⟨i, a⟩ := assign_spec inv (0 : Int) x 1
  refine ⟨i, ?_⟩
  intro y
  unfold sIns
  rw [has_eq_abs i.wf, has_eq_abs inv.wf, a y]
  by_cases hy : y = x <;> simp [hy]

/-- conditional insertion of the keys of a list (the loop shape of `<<`, `in`, `notIn`) -/
theorem foldl_cond_ins {h : K → Nat} (p : K → Bool) : ∀ (es : List (K × Int)) (b : HSet K), Inv h b →
    Inv h (es.foldl (fun b kv => if p kv.1 then sIns h b kv.1 else b) b) ∧
    ∀ y, has h (es.foldl (fun b kv => if p kv.1 then sIns h b kv.1 else b) b) y = true ↔
      (has h b y = true ∨ (y ∈ es.map (·.1) ∧ p y = true)) := by
  intro es
  induction es with
  | nil => intro b inv; exact ⟨inv, by intro y; simp⟩
  | cons x t ih =>
    intro b inv
    simp only [List.foldl_cons]
    by_cases hp : p x.1 = true
    · simp only [hp, if_true]
      obtain ⟨i1, a1⟩ := sIns_spec inv x.1
      obtain ⟨i2, a2⟩ := ih _ i1
      refine ⟨i2, ?_⟩
      intro y
      rw [a2 y, a1 y]
      simp only [Bool.or_eq_true, decide_eq_true_eq, List.map_cons, List.mem_cons]
      constructor
      · rintro ((e | hb) | ⟨hm, hpy⟩)
        · exact Or.inr ⟨Or.inl e, by rw [e]; exact hp⟩
        · exact Or.inl hb
        · exact Or.inr ⟨Or.inr hm, hpy⟩
      · rintro (hb | ⟨e | hm, hpy⟩)
        · exact Or.inl (Or.inr hb)
        · exact Or.inl (Or.inl e)
        · exact Or.inr ⟨hm, hpy⟩
    · have hpf : p x.1 = false := by simpa using hp
      simp only [hpf, Bool.false_eq_true, if_false]
      obtain ⟨i2, a2⟩ := ih _ inv
      refine ⟨i2, ?_⟩
      intro y
      rw [a2 y]
      simp only [List.map_cons, List.mem_cons]
      constructor
      · rintro (hb | ⟨hm, hpy⟩)
        · exact Or.inl hb
        · exact Or.inr ⟨Or.inr hm, hpy⟩
      · rintro (hb | ⟨e | hm, hpy⟩)
        · exact Or.inl hb
        · rw [e] at hpy; exact absurd hpy hp
        · exact Or.inr ⟨hm, hpy⟩

theorem has_empty (h : K → Nat) {nb : Nat} (hnb : 0 < nb) (y : K) : has h (empty nb : HSet K) y = false := by
  have E := empty_inv (V := Int) h hnb
  rw [has_eq_abs E.1.wf, E.2 y]; rfl

theorem sAddAll_spec {h : K → Nat} {s o : HSet K} (is : Inv h s) (io : Inv h o) :
    Inv h (sAddAll h s o) ∧ ∀ y, has h (sAddAll h s o) y = (has h s y || has h o y) := by
  have F := foldl_cond_ins (h := h) (fun _ => true) (enum o) s is
  simp only [if_true] at F
  refine ⟨F.1, ?_⟩
  intro y
  have := F.2 y
  unfold sAddAll
  rw [Bool.eq_iff_iff, this, mem_keys_iff io]
  simp

theorem sUnion_spec {h : K → Nat} {a s : HSet K} (ia : Inv h a) (is : Inv h s) :
    Inv h (sUnion h a s) ∧ ∀ y, has h (sUnion h a s) y = (has h a y || has h s y) := by
  unfold sUnion
  have E := empty_inv (V := Int) h defaultBuckets_pos
  obtain ⟨i1, a1⟩ := sAddAll_spec E.1 ia
  obtain ⟨i2, a2⟩ := sAddAll_spec i1 is
  refine ⟨i2, ?_⟩
  intro y
  rw [a2 y, a1 y, has_empty h defaultBuckets_pos]
  simp

theorem sIn_spec {h : K → Nat} {a s : HSet K} (ia : Inv h a) :
    Inv h (sIn h a s) ∧ ∀ y, has h (sIn h a s) y = (has h a y && has h s y) := by
  have E := empty_inv (V := Int) h defaultBuckets_pos
  have F := foldl_cond_ins (h := h) (fun k => has h s k) (enum a) _ E.1
  refine ⟨F.1, ?_⟩
  intro y
  have := F.2 y
  unfold sIn
  rw [Bool.eq_iff_iff, this, mem_keys_iff ia, has_empty h defaultBuckets_pos]
  simp

theorem sNotIn_spec {h : K → Nat} {a s : HSet K} (ia : Inv h a) :
    Inv h (sNotIn h a s) ∧ ∀ y, has h (sNotIn h a s) y = (has h a y && !has h s y) := by
  have E := empty_inv (V := Int) h defaultBuckets_pos
  have F := foldl_cond_ins (h := h) (fun k => !has h s k) (enum a) _ E.1
  have hfold : ∀ (es : List (K × Int)) (b : HSet K),
      es.foldl (fun b kv => if has h s kv.1 then b else sIns h b kv.1) b =
      es.foldl (fun b kv => if (!has h s kv.1) = true then sIns h b kv.1 else b) b := by
    intro es
    induction es with
    | nil => intro b; rfl
    | cons x t ih =>
      intro b
      simp only [List.foldl_cons]
      by_cases hx : has h s x.1 = true <;> simp [hx, ih]
  unfold sNotIn
  rw [hfold]
  refine ⟨F.1, ?_⟩
  intro y
  have := F.2 y
  rw [Bool.eq_iff_iff, this, mem_keys_iff ia, has_empty h defaultBuckets_pos]
  simp

theorem sFromList_spec {h : K → Nat} (xs : List K) :
    Inv h (sFromList h xs) ∧ ∀ y, has h (sFromList h xs) y = true ↔ y ∈ xs := by
  have E := empty_inv (V := Int) h defaultBuckets_pos
  have gen : ∀ (xs : List K) (b : HSet K), Inv h b →
      Inv h (xs.foldl (sIns h) b) ∧ ∀ y, has h (xs.foldl (sIns h) b) y = true ↔ (has h b y = true ∨ y ∈ xs) := by
    intro xs
    induction xs with
    | nil => intro b inv; exact ⟨inv, by intro y; simp⟩
    | cons x t ih =>
      intro b inv
      obtain ⟨i1, a1⟩ := sIns_spec inv x
      obtain ⟨i2, a2⟩ := ih _ i1
      refine ⟨i2, ?_⟩
      intro y
      simp only [List.foldl_cons]
      rw [a2 y, a1 y]
      simp only [Bool.or_eq_true, decide_eq_true_eq, List.mem_cons]
      constructor
      · rintro ((e | hb) | hm)
        · exact Or.inr (Or.inl e)
        · exact Or.inl hb
        · exact Or.inr (Or.inr hm)
      · rintro (hb | e | hm)
        · exact Or.inl (Or.inr hb)
        · exact Or.inl (Or.inl e)
        · exact Or.inr hm
  obtain ⟨i, a⟩ := gen xs _ E.1
  refine ⟨i, ?_⟩
  intro y
  unfold sFromList
  rw [a y, has_empty h defaultBuckets_pos]
  simp

theorem sContainsAll_spec {h : K → Nat} {a s : HSet K} (is : Inv h s) :
    sContainsAll h a s = true ↔ ∀ y, has h s y = true → has h a y = true := by
  unfold sContainsAll
  rw [List.all_eq_true]
  constructor
  · intro hh y hy
    obtain ⟨x, hx, e⟩ := List.mem_map.mp ((mem_keys_iff is y).mpr hy)
    rw [← e]; exact hh x hx
  · intro hh x hx
    exact hh x.1 ((mem_keys_iff is x.1).mp (List.mem_map.mpr ⟨x, hx, rfl⟩))

theorem sContainsAny_spec {h : K → Nat} {a s : HSet K} (is : Inv h s) :
    sContainsAny h a s = true ↔ ∃ y, has h s y = true ∧ has h a y = true := by
  unfold sContainsAny
  rw [List.any_eq_true]
  constructor
  · rintro ⟨x, hx, hh⟩
    exact ⟨x.1, (mem_keys_iff is x.1).mp (List.mem_map.mpr ⟨x, hx, rfl⟩), hh⟩
  · rintro ⟨y, hy, hh⟩
    obtain ⟨x, hx, e⟩ := List.mem_map.mp ((mem_keys_iff is y).mpr hy)
    exact ⟨x, hx, by rw [e]; exact hh⟩

theorem sEq_iff {h : K → Nat} {a s : HSet K} (ia : Inv h a) (is : Inv h s) :
    sEq h a s = true ↔ ∀ y, has h a y = has h s y := by
  unfold sEq
  rw [Bool.and_eq_true, decide_eq_true_eq, sContainsAll_spec is]
  have hna : a.n = ((enum a).map (·.1)).length := by rw [ia.count]; simp
  have hns : s.n = ((enum s).map (·.1)).length := by rw [is.count]; simp
  constructor
  · rintro ⟨hn, hsub⟩
    have ss : (enum s).map (·.1) ⊆ (enum a).map (·.1) := by
      intro y hy; exact (mem_keys_iff ia y).mpr (hsub y ((mem_keys_iff is y).mp hy))
    have hp := List.Subperm.perm_of_length_le (List.subperm_of_subset (keys_nodup is) ss)
      (by rw [← hna, ← hns, hn]; exact Nat.le_refl _)
    intro y
    rw [Bool.eq_iff_iff, ← mem_keys_iff ia, ← mem_keys_iff is]
    exact hp.mem_iff.symm
  · intro e
    have s1 : (enum s).map (·.1) ⊆ (enum a).map (·.1) := by
      intro y hy; exact (mem_keys_iff ia y).mpr (by rw [e y]; exact (mem_keys_iff is y).mp hy)
    have s2 : (enum a).map (·.1) ⊆ (enum s).map (·.1) := by
      intro y hy; exact (mem_keys_iff is y).mpr (by rw [← e y]; exact (mem_keys_iff ia y).mp hy)
    have hp := List.Subperm.antisymm (List.subperm_of_subset (keys_nodup ia) s2) (List.subperm_of_subset (keys_nodup is) s1)
    refine ⟨by rw [hna, hns]; exact hp.length_eq, ?_⟩
    intro y hy; rw [e y]; exact hy

end AslProofs.HashMap
