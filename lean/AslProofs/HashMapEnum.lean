import AslModel.HashMap
import AslModel.Map
import AslProofs.HashMap
/-!
# `nextPoT`, table sizes, load bound and the `Enumerator` walks (`AslModel/HashMap.lean`, `AslModel/Map.lean`)
-/
namespace AslProofs.HashMapEnum
open AslModel.HashMap
set_option linter.unusedSectionVars false
variable {K V : Type} [DecidableEq K]

/-! ## `nextPoT` for every argument -/

/-- bits `e-r … e-1` of `x` are set -/
def Ones (x e r : Nat) : Prop := ∀ i, e - r ≤ i → i < e → x.testBit i = true
/-- no bit at or above `e` is set -/
def Below (x e : Nat) : Prop := ∀ i, e ≤ i → x.testBit i = false

/-- one `n |= n >> k` step doubles the run of ones below the top bit (`k ≤ r`) and sets nothing above it -/
theorem smear_step {x e r k : Nat} (hk : k ≤ r) (hb : Below x e) (ho : Ones x e r) :
    Below (x ||| (x >>> k)) e ∧ Ones (x ||| (x >>> k)) e (r + k) := by
  constructor
  · intro i hi
    rw [Nat.testBit_or, Nat.testBit_shiftRight, hb i hi, hb (k + i) (by omega)]; rfl
  · intro i h1 h2
    rw [Nat.testBit_or, Nat.testBit_shiftRight]
    by_cases h : e - r ≤ i
    · rw [ho i h h2]; rfl
    · rw [ho (k + i) (by omega) (by omega)]; simp

/-- the five smearing steps of `nextPoT` turn a number whose top bit is `e-1` (`e ≤ 32`) into `2^e - 1` -/
theorem smear_all {x e : Nat} (he : e ≤ 32) (hb : Below x e) (ho : Ones x e 1) :
    Gen.HashMap.potShifts.foldl (fun n k => n ||| (n >>> k)) x = 2 ^ e - 1 := by
  show ([1, 2, 4, 8, 16] : List Nat).foldl (fun n k => n ||| (n >>> k)) x = 2 ^ e - 1
  simp only [List.foldl_cons, List.foldl_nil]
  obtain ⟨b1, o1⟩ := smear_step (k := 1) (by omega) hb ho
  obtain ⟨b2, o2⟩ := smear_step (k := 2) (by omega) b1 o1
  obtain ⟨b3, o3⟩ := smear_step (k := 4) (by omega) b2 o2
  obtain ⟨b4, o4⟩ := smear_step (k := 8) (by omega) b3 o3
  obtain ⟨b5, o5⟩ := smear_step (k := 16) (by omega) b4 o4
  apply Nat.eq_of_testBit_eq
  intro i
  rw [Nat.testBit_two_pow_sub_one]
  by_cases h : i < e
  · rw [o5 i (by omega) h]; simp [h]
  · rw [b5 i (by omega)]; simp [h]

/-- `nextPoT n` for `2 ≤ n ≤ 2^32`: `2^e` where `2^(e-1) < n ≤ 2^e` -/
theorem nextPoT_ge_two {n : Nat} (h2 : 2 ≤ n) (hn : n ≤ 2 ^ 32) :
    ∃ e, 1 ≤ e ∧ e ≤ 32 ∧ nextPoT n = 2 ^ e ∧ 2 ^ (e - 1) < n ∧ n ≤ 2 ^ e := by
  have hx : n - 1 ≠ 0 := by omega
  have hlt : n - 1 < 2 ^ ((n - 1).log2 + 1) := Nat.lt_log2_self
  have hle : 2 ^ (n - 1).log2 ≤ n - 1 := Nat.log2_self_le hx
  have he : (n - 1).log2 + 1 ≤ 32 := by
    have : 2 ^ (n - 1).log2 < 2 ^ 32 := by omega
    have := (Nat.pow_lt_pow_iff_right (a := 2) (by omega)).mp this
    omega
  refine ⟨(n - 1).log2 + 1, by omega, he, ?_, by simpa using (by omega : 2 ^ (n - 1).log2 < n), by omega⟩
  unfold nextPoT
  rw [smear_all he]
  · have : 0 < 2 ^ ((n - 1).log2 + 1) := Nat.two_pow_pos _
    omega
  · intro i hi
    apply Nat.testBit_lt_two_pow
    exact Nat.lt_of_lt_of_le hlt (Nat.pow_le_pow_right (by omega) hi)
  · intro i h1 h2
    have : i = (n - 1).log2 := by omega
    subst this
    exact Nat.testBit_log2 hx

theorem nextPoT_zero : nextPoT 0 = 1 := by decide
theorem nextPoT_one : nextPoT 1 = 1 := by decide

/-- **`nextPoT` is the least power of two `≥ n`** for every `n ≤ 2^32` (`0` and `1` give `1 = 2^0`) -/
theorem nextPoT_spec {n : Nat} (hn : n ≤ 2 ^ 32) :
    ∃ e, e ≤ 32 ∧ nextPoT n = 2 ^ e ∧ n ≤ 2 ^ e ∧ (2 ≤ n → 2 ^ e < 2 * n) := by
  by_cases h2 : 2 ≤ n
  · obtain ⟨e, h1, he, hp, hl, hu⟩ := nextPoT_ge_two h2 hn
    refine ⟨e, he, hp, hu, fun _ => ?_⟩
    have : 2 ^ e = 2 * 2 ^ (e - 1) := by
      conv => lhs; rw [show e = (e - 1) + 1 by omega]
      rw [Nat.pow_succ]; omega
    omega
  · have : n = 0 ∨ n = 1 := by omega
    rcases this with rfl | rfl
    · exact ⟨0, by omega, by decide, by omega, by omega⟩
    · exact ⟨0, by omega, by decide, by omega, by omega⟩

/-! ## table size and load, operation by operation -/

/-- the bucket count is a power of two between `1` and `2^30` -/
def SizeOK (m : HM K V) : Prop := ∃ e, e ≤ 30 ∧ m.buckets.length = 2 ^ e

/-- the load the code intends: at most `growNum/growDen` of the array length, unless the table has reached the size
at which `rehash()` stops growing -/
def LoadOK (m : HM K V) : Prop :=
  m.n ≤ (m.buckets.length + Gen.HashMap.skip) * Gen.HashMap.growNum / Gen.HashMap.growDen ∨
  m.buckets.length + Gen.HashMap.skip > Gen.HashMap.maxSlots

theorem SizeOK.pos {m : HM K V} (s : SizeOK m) : 0 < m.buckets.length := by
  obtain ⟨e, _, h⟩ := s; rw [h]; exact Nat.two_pow_pos e

theorem rehashInto_length (h : K → Nat) (nb : Nat) (es : List (K × V)) : (rehashInto h nb es).length = nb := by
  unfold rehashInto
  suffices ∀ b : List (List (K × V)), (es.foldl (fun b kv => let bin := binOf h nb kv.1; b.set bin (b.getD bin [] ++ [kv])) b).length = b.length by
    rw [this]; simp
  induction es with
  | nil => intro b; rfl
  | cons x t ih => intro b; simp only [List.foldl_cons]; rw [ih]; simp

theorem rehash_cases (h : K → Nat) (m : HM K V) :
    (rehash h m = m ∧ (m.n < (m.buckets.length + 2) * 7 / 8 ∨ m.buckets.length + 2 > 280000 ∨ m.rc > 1)) ∨
    ((rehash h m).buckets.length = m.buckets.length * 8 ∧ (rehash h m).n = m.n ∧ (rehash h m).rc = m.rc ∧
      m.buckets.length + 2 ≤ 280000 ∧ m.rc ≤ 1) := by
  by_cases c : m.n < (m.buckets.length + 2) * 7 / 8 ∨ m.buckets.length + 2 > 280000 ∨ m.rc > 1
  · left; refine ⟨?_, c⟩; unfold rehash; exact if_pos c
  · right
    have e : rehash h m = ⟨rehashInto h (m.buckets.length * 8) (enum m), m.n, m.rc⟩ := by unfold rehash; exact if_neg c
    rw [e]
    exact ⟨rehashInto_length _ _ _, rfl, rfl, by omega, by omega⟩

theorem rehash_size (h : K → Nat) {m : HM K V} (s : SizeOK m) : SizeOK (rehash h m) := by
  rcases rehash_cases h m with ⟨e, _⟩ | ⟨hl, _, _, hs, _⟩
  · rw [e]; exact s
  · obtain ⟨e, he, hp⟩ := s
    refine ⟨e + 3, ?_, by rw [hl, hp, Nat.pow_add]⟩
    have h18 : (2 : Nat) ^ 18 = 262144 := by decide
    by_cases h : e + 3 ≤ 30
    · exact h
    · have : 2 ^ 28 ≤ 2 ^ e := Nat.pow_le_pow_right (by omega) (by omega)
      have h28 : (2 : Nat) ^ 28 = 268435456 := by decide
      omega

theorem index_size (h : K → Nat) (dflt : V) {m : HM K V} (s : SizeOK m) (k : K) : SizeOK (index h dflt m k) := by
  obtain ⟨e, he, hp⟩ := rehash_size h s
  exact ⟨e, he, by simp [index, hp]⟩

theorem setVal_size (h : K → Nat) {m : HM K V} (s : SizeOK m) (k : K) (v : V) : SizeOK (setVal h m k v) := by
  obtain ⟨e, he, hp⟩ := s
  exact ⟨e, he, by simp [setVal, hp]⟩

theorem assign_size (h : K → Nat) (dflt : V) {m : HM K V} (s : SizeOK m) (k : K) (v : V) : SizeOK (assign h dflt m k v) :=
  setVal_size h (index_size h dflt s k) k v

theorem remove_size (h : K → Nat) {m : HM K V} (s : SizeOK m) (k : K) : SizeOK (remove h m k) := by
  obtain ⟨e, he, hp⟩ := s
  exact ⟨e, he, by simp [remove, hp]⟩

theorem clear_size {m : HM K V} (s : SizeOK m) : SizeOK (clear m) := by
  obtain ⟨e, he, hp⟩ := s
  exact ⟨e, he, by simp [clear, hp]⟩

theorem foldl_assign_size (h : K → Nat) (dflt : V) (es : List (K × V)) :
    ∀ {b : HM K V}, SizeOK b → SizeOK (es.foldl (fun b kv => assign h dflt b kv.1 kv.2) b) := by
  induction es with
  | nil => intro b s; exact s
  | cons x t ih => intro b s; exact ih (assign_size h dflt s x.1 x.2)

/-- `nextPoT` of a power of two is that power of two -/
theorem nextPoT_pow {e : Nat} (he : e ≤ 30) : nextPoT (2 ^ e) = 2 ^ e := by
  have hle : (2 : Nat) ^ e ≤ 2 ^ 32 := Nat.pow_le_pow_right (by omega) (by omega)
  obtain ⟨e', _, hp, hge, hlt⟩ := nextPoT_spec hle
  by_cases h0 : e = 0
  · subst h0; decide
  · have h2 : 2 ≤ 2 ^ e := by
      have : 2 ^ 1 ≤ 2 ^ e := Nat.pow_le_pow_right (by omega) (by omega)
      simpa using this
    have hlt := hlt h2
    have h1 : e ≤ e' := (Nat.pow_le_pow_iff_right (a := 2) (by omega)).mp hge
    have h3 : e' < e + 1 := by
      apply (Nat.pow_lt_pow_iff_right (a := 2) (by omega)).mp
      rw [Nat.pow_succ]; omega
    have : e' = e := by omega
    rw [hp, this]

theorem empty_size {e : Nat} (he : e ≤ 30) : SizeOK (empty (2 ^ e) : HM K V) := ⟨e, he, by simp [empty]⟩

theorem dup_size (h : K → Nat) (dflt : V) {m : HM K V} (s : SizeOK m) : SizeOK (dup h dflt m) := by
  obtain ⟨e, he, hp⟩ := s
  unfold dup
  apply foldl_assign_size
  rw [hp, nextPoT_pow he]
  exact empty_size he

/-- `HashMap(int n)` for every `n ≤ 2^30` (zero and negative hints included) -/
theorem ofSize_size {n : Int} (hn : n ≤ 2 ^ 30) : SizeOK (ofSize n : HM K V) := by
  unfold ofSize
  have hb : (if n < 1 then 1 else n.toNat) ≤ 2 ^ 30 := by split <;> omega
  generalize (if n < 1 then 1 else n.toNat) = k at hb
  by_cases h2 : 2 ≤ k
  · obtain ⟨e, _, hp, hge, hlt⟩ := nextPoT_spec (n := k) (by omega)
    rw [hp]
    apply empty_size
    have := hlt h2
    have : 2 ^ e < 2 ^ 31 := by omega
    have := (Nat.pow_lt_pow_iff_right (a := 2) (by omega)).mp this
    omega
  · have : nextPoT k = 1 := by rcases (by omega : k = 0 ∨ k = 1) with rfl | rfl <;> decide
    rw [this]
    exact empty_size (e := 0) (by omega)

theorem default_size : SizeOK (empty Gen.HashMap.defaultBuckets : HM K V) := ⟨8, by omega, by simp [empty]; decide⟩

/-! ### load -/

theorem loadOK_iff (m : HM K V) :
    LoadOK m ↔ (m.n ≤ (m.buckets.length + 2) * 7 / 8 ∨ m.buckets.length + 2 > 280000) := Iff.rfl

theorem index_load (h : K → Nat) (dflt : V) {m : HM K V} (s : SizeOK m) (hrc : m.rc ≤ 1) (l : LoadOK m) (k : K) :
    LoadOK (index h dflt m k) ∧ (index h dflt m k).rc ≤ 1 := by
  have hpos := s.pos
  have hn : (index h dflt m k).n ≤ (rehash h m).n + 1 := by simp only [index]; split <;> omega
  have hl : (index h dflt m k).buckets.length = (rehash h m).buckets.length := by simp [index]
  have hr : (index h dflt m k).rc = (rehash h m).rc := rfl
  rw [loadOK_iff] at *
  rw [hl, hr]
  rcases rehash_cases h m with ⟨e, c⟩ | ⟨e1, e2, e3, c1, c2⟩
  · rw [e] at hn ⊢
    refine ⟨?_, hrc⟩
    rcases c with c | c | c
    · left; omega
    · right; omega
    · omega
  · rw [e1, e3]
    refine ⟨?_, hrc⟩
    left
    rw [e2] at hn
    omega

theorem setVal_load (h : K → Nat) {m : HM K V} (l : LoadOK m) (k : K) (v : V) : LoadOK (setVal h m k v) := by
  rw [loadOK_iff] at *; simpa [setVal] using l

theorem assign_load (h : K → Nat) (dflt : V) {m : HM K V} (s : SizeOK m) (hrc : m.rc ≤ 1) (l : LoadOK m) (k : K) (v : V) :
    LoadOK (assign h dflt m k v) ∧ (assign h dflt m k v).rc ≤ 1 :=
  ⟨setVal_load h (index_load h dflt s hrc l k).1 k v, (index_load h dflt s hrc l k).2⟩

theorem remove_load (h : K → Nat) {m : HM K V} (l : LoadOK m) (k : K) : LoadOK (remove h m k) := by
  have hn : (remove h m k).n ≤ m.n := by simp only [remove]; split <;> omega
  have hl : (remove h m k).buckets.length = m.buckets.length := by simp [remove]
  rw [loadOK_iff] at *
  rw [hl]; omega

theorem clear_load {m : HM K V} : LoadOK (clear m) := by
  unfold LoadOK; left; simp [clear]

theorem empty_load (nb : Nat) : LoadOK (empty nb : HM K V) := by unfold LoadOK; left; simp [empty]

theorem foldl_assign_load (h : K → Nat) (dflt : V) (es : List (K × V)) :
    ∀ {b : HM K V}, SizeOK b → b.rc ≤ 1 → LoadOK b →
      LoadOK (es.foldl (fun b kv => assign h dflt b kv.1 kv.2) b) ∧ (es.foldl (fun b kv => assign h dflt b kv.1 kv.2) b).rc ≤ 1 := by
  induction es with
  | nil => intro b _ r l; exact ⟨l, r⟩
  | cons x t ih =>
    intro b s r l
    obtain ⟨l', r'⟩ := assign_load h dflt s r l x.1 x.2
    exact ih (assign_size h dflt s x.1 x.2) r' l'

theorem dup_load (h : K → Nat) (dflt : V) {m : HM K V} (s : SizeOK m) : LoadOK (dup h dflt m) ∧ (dup h dflt m).rc ≤ 1 := by
  obtain ⟨e, he, hp⟩ := s
  unfold dup
  apply foldl_assign_load
  · rw [hp, nextPoT_pow he]; exact empty_size he
  · simp [empty]
  · exact empty_load _

/-! ## the `Enumerator` walk -/

/-- what is still to be enumerated in state `(j, p)` -/
def rest (B : List (List (K × V))) (j : Nat) (p : List (K × V)) : List (K × V) := p ++ (B.drop (j + 1)).flatten

/-- a state the enumerator can be in between two steps: a node is pending inside the table, or the table is exhausted -/
def Settled (B : List (List (K × V))) (j : Nat) (p : List (K × V)) : Prop :=
  (p ≠ [] → j < B.length) ∧ (p = [] → B.length ≤ j)

theorem settle_spec (B : List (List (K × V))) :
    ∀ (f j : Nat) (p : List (K × V)), j < B.length → B.length - j < f →
      ∃ j' p', settle B f j p = some (j', p') ∧ rest B j' p' = rest B j p ∧ Settled B j' p' := by
  intro f
  induction f with
  | zero => intro j p _ hf; omega
  | succ f ih =>
    intro j p hj hf
    cases p with
    | cons kv t =>
      exact ⟨j, kv :: t, rfl, rfl, fun _ => hj, fun h => by cases h⟩
    | nil =>
      simp only [settle, hj, if_true]
      by_cases h1 : j + 1 < B.length
      · simp only [h1, if_true, List.getElem?_eq_getElem h1]
        obtain ⟨j', p', e, r, st⟩ := ih (j + 1) B[j + 1] h1 (by omega)
        refine ⟨j', p', e, ?_, st⟩
        rw [r]
        simp only [rest, List.nil_append]
        rw [← List.getElem_cons_drop (h := h1), List.flatten_cons]
      · simp only [h1, if_false]
        refine ⟨j + 1, [], rfl, ?_, fun h => absurd rfl h, fun _ => by omega⟩
        simp only [rest, List.nil_append]
        rw [List.drop_eq_nil_of_le (by omega), List.drop_eq_nil_of_le (by omega)]

theorem walkLoop_spec (B : List (List (K × V))) :
    ∀ (f j : Nat) (p : List (K × V)), Settled B j p → (rest B j p).length < f →
      walkLoop B f j p = some (rest B j p) := by
  intro f
  induction f with
  | zero => intro j p _ hf; omega
  | succ f ih =>
    intro j p st hf
    cases p with
    | nil =>
      have hj := st.2 rfl
      simp only [walkLoop, rest, List.nil_append]
      rw [if_neg (by omega), List.drop_eq_nil_of_le (by omega)]
      rfl
    | cons kv t =>
      have hj := st.1 (by simp)
      obtain ⟨j', p', e, r, st'⟩ := settle_spec B (B.length + 1) j t hj (by omega)
      simp only [walkLoop, e]
      have hr : rest B j (kv :: t) = kv :: rest B j t := rfl
      rw [hr] at hf ⊢
      rw [ih j' p' st' (by rw [r]; simpa using hf), r]
      rfl

/-- **the enumerator, run to completion on a table with at least one bucket, reads only inside the table and yields
the buckets in index order, each chain in link order** -/
theorem walk_eq_enum {m : HM K V} (hpos : 0 < m.buckets.length) : walk m = some (enum m) := by
  unfold walk
  rw [List.getElem?_eq_getElem hpos]
  obtain ⟨j', p', e, r, st⟩ := settle_spec m.buckets (m.buckets.length + 1) 0 m.buckets[0] hpos (by omega)
  simp only [e]
  have hall : rest m.buckets 0 m.buckets[0] = m.buckets.flatten := by
    simp only [rest]
    rw [← List.flatten_cons, List.getElem_cons_drop, List.drop_zero]
  rw [walkLoop_spec m.buckets _ j' p' st (by rw [r, hall]; omega), r, hall]
  rfl

/-- a table without buckets (what `nextPoT(0)` would give) makes the constructor read outside the array -/
theorem walk_no_buckets {m : HM K V} (h0 : m.buckets.length = 0) : walk m = none := by
  have : m.buckets = [] := List.length_eq_zero_iff.mp h0
  simp [walk, this]

/-! ## `Map::Enumerator` -/

theorem map_walkFrom (l : List (K × V)) : ∀ (f i : Nat), l.length - i < f → i ≤ l.length →
    AslModel.Map.walkFrom l f i = some (l.drop i) := by
  intro f
  induction f with
  | zero => intro i h; omega
  | succ f ih =>
    intro i hf hi
    by_cases h : i < l.length
    · simp only [AslModel.Map.walkFrom, h, if_true, List.getElem?_eq_getElem h]
      rw [ih (i + 1) (by omega) (by omega)]
      simp
    · simp only [AslModel.Map.walkFrom, h, if_false]
      rw [List.drop_eq_nil_of_le (by omega)]

theorem map_walk (l : List (K × V)) : AslModel.Map.walk l = some l := by
  unfold AslModel.Map.walk
  rw [map_walkFrom l _ 0 (by omega) (by omega)]; simp

/-! ## sets: the same size invariant -/

theorem foldl_cond_sIns_size (h : K → Nat) (c : K → Bool) (es : List (K × Int)) :
    ∀ {b : HSet K}, SizeOK b → SizeOK (es.foldl (fun b kv => if c kv.1 then sIns h b kv.1 else b) b) := by
  induction es with
  | nil => intro b s; exact s
  | cons x t ih =>
    intro b s
    simp only [List.foldl_cons]
    split
    · exact ih (assign_size h 0 s x.1 1)
    · exact ih s

theorem sAddAll_size (h : K → Nat) {a : HSet K} (s : SizeOK a) (o : HSet K) : SizeOK (sAddAll h a o) := by
  have := foldl_cond_sIns_size h (fun _ => true) (enum o) s
  simpa [sAddAll] using this

theorem sFromList_size (h : K → Nat) (xs : List K) : SizeOK (sFromList h xs) := by
  unfold sFromList
  suffices ∀ b : HSet K, SizeOK b → SizeOK (xs.foldl (sIns h) b) from this _ default_size
  induction xs with
  | nil => intro b s; exact s
  | cons x t ih => intro b s; exact ih _ (assign_size h 0 s x 1)

theorem sIn_size (h : K → Nat) (a o : HSet K) : SizeOK (sIn h a o) :=
  foldl_cond_sIns_size h (fun k => has h o k) (enum a) default_size

theorem sNotIn_size (h : K → Nat) (a o : HSet K) : SizeOK (sNotIn h a o) := by
  unfold sNotIn
  suffices ∀ (es : List (K × Int)) (b : HSet K), SizeOK b →
      SizeOK (es.foldl (fun b kv => if has h o kv.1 then b else sIns h b kv.1) b) from this _ _ default_size
  intro es
  induction es with
  | nil => intro b s; exact s
  | cons x t ih =>
    intro b s
    simp only [List.foldl_cons]
    split
    · exact ih _ s
    · exact ih _ (assign_size h 0 s x.1 1)

theorem sUnion_size (h : K → Nat) (a o : HSet K) : SizeOK (sUnion h a o) :=
  sAddAll_size h (sAddAll_size h default_size a) o

end AslProofs.HashMapEnum
