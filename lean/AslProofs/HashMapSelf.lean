import AslModel.HashMap
import AslProofs.HashMap
import AslProofs.HashMapEnum
/-!
# `s << s` as coded (`AslModel.HashMap.selfMerge`): the enumeration of a table whose body inserts into the same table
-/
namespace AslProofs.HashMapSelf
open AslModel.HashMap AslProofs.HashMap AslProofs.HashMapEnum
open AslProofs.Map (lookup KeysNodup lookup_of_mem)
set_option linter.unusedSectionVars false
variable {K V : Type} [DecidableEq K]

/-- the key-level settle loop follows the list-level one (same array, end = its length) -/
theorem settleK_of_settle (B : List (List (K × V))) :
    ∀ (f j : Nat) (p : List (K × V)) (j' : Nat) (p' : List (K × V)),
      settle B f j p = some (j', p') → settleK B B.length f j (headKey p) = some (j', headKey p') := by
  intro f
  induction f with
  | zero =>
    intro j p j' p' e
    cases p with
    | nil => simp [settle] at e
    | cons kv t =>
      simp only [settle, Option.some.injEq, Prod.mk.injEq] at e
      obtain ⟨rfl, rfl⟩ := e
      simp [headKey, settleK]
  | succ f ih =>
    intro j p j' p' e
    cases p with
    | cons kv t =>
      simp only [settle, Option.some.injEq, Prod.mk.injEq] at e
      obtain ⟨rfl, rfl⟩ := e
      simp [headKey, settleK]
    | nil =>
      simp only [settle] at e
      simp only [headKey, List.head?_nil, Option.map_none, settleK]
      by_cases hj : j < B.length
      · simp only [hj, if_true] at e ⊢
        by_cases h1 : j + 1 < B.length
        · simp only [h1, if_true, List.getElem?_eq_getElem h1] at e ⊢
          exact ih _ _ _ _ e
        · simp only [h1, if_false, Option.some.injEq, Prod.mk.injEq] at e ⊢
          obtain ⟨rfl, rfl⟩ := e
          simp
      · simp only [hj, if_false, Option.some.injEq, Prod.mk.injEq] at e ⊢
        obtain ⟨rfl, rfl⟩ := e
        simp

/-- the node pointer of the enumerator always points into the chain of the slot it is at -/
theorem settle_suffix (B : List (List (K × V))) :
    ∀ (f j : Nat) (p : List (K × V)) (j' : Nat) (p' : List (K × V)),
      settle B f j p = some (j', p') → p <:+ B.getD j [] → p' <:+ B.getD j' [] := by
  intro f
  induction f with
  | zero =>
    intro j p j' p' e hs
    cases p with
    | nil => simp [settle] at e
    | cons kv t =>
      simp only [settle, Option.some.injEq, Prod.mk.injEq] at e
      obtain ⟨rfl, rfl⟩ := e
      exact hs
  | succ f ih =>
    intro j p j' p' e hs
    cases p with
    | cons kv t =>
      simp only [settle, Option.some.injEq, Prod.mk.injEq] at e
      obtain ⟨rfl, rfl⟩ := e
      exact hs
    | nil =>
      simp only [settle] at e
      by_cases hj : j < B.length
      · simp only [hj, if_true] at e
        by_cases h1 : j + 1 < B.length
        · simp only [h1, if_true, List.getElem?_eq_getElem h1] at e
          exact ih _ _ _ _ e (by rw [getD_eq h1]; exact List.suffix_refl _)
        · simp only [h1, if_false, Option.some.injEq, Prod.mk.injEq] at e
          obtain ⟨rfl, rfl⟩ := e
          exact List.nil_suffix
      · simp only [hj, if_false, Option.some.injEq, Prod.mk.injEq] at e
        obtain ⟨rfl, rfl⟩ := e
        exact List.nil_suffix

/-- while the body leaves the table as it is, the interleaved loop is the plain enumerator walk -/
theorem selfLoop_fix (h : K → Nat) (m : HSet K)
    (hfix : ∀ kv ∈ m.buckets.flatten, sIns h m kv.1 = m)
    (hnext : ∀ j pre kv t, m.buckets.getD j [] = pre ++ kv :: t → nextOf h m kv.1 = some (headKey t)) :
    ∀ (f j : Nat) (p es : List (K × Int)), p <:+ m.buckets.getD j [] → walkLoop m.buckets f j p = some es →
      selfMergeLoop h m.buckets.length f m j (headKey p) = some m := by
  intro f
  induction f with
  | zero => intro j p es _ e; simp [walkLoop] at e
  | succ f ih =>
    intro j p es hs e
    cases p with
    | nil =>
      simp only [walkLoop] at e
      simp only [headKey, List.head?_nil, Option.map_none, selfMergeLoop]
      by_cases hj : j < m.buckets.length
      · simp [hj] at e
      · simp [hj]
    | cons kv t =>
      obtain ⟨pre, hpre⟩ := hs
      have hmem : kv ∈ m.buckets.flatten := by
        by_cases hj : j < m.buckets.length
        · rw [getD_eq hj] at hpre
          exact mem_flatten_get.mpr ⟨j, hj, by rw [← hpre]; simp⟩
        · have : m.buckets.getD j [] = [] := by
            simp [List.getD_eq_getElem?_getD, List.getElem?_eq_none (Nat.le_of_not_lt hj)]
          rw [this] at hpre
          simp at hpre
      simp only [walkLoop] at e
      cases hst : settle m.buckets (m.buckets.length + 1) j t with
      | none => simp [hst] at e
      | some r =>
        obtain ⟨j', p'⟩ := r
        simp only [hst, Option.map_eq_some_iff] at e
        obtain ⟨es', e', _⟩ := e
        have hk := settleK_of_settle m.buckets _ _ _ _ _ hst
        have hs' : p' <:+ m.buckets.getD j' [] :=
          settle_suffix m.buckets _ _ _ _ _ hst ⟨pre ++ [kv], by rw [← hpre]; simp⟩
        have hn := hnext j pre kv t hpre.symm
        have hrec := ih j' p' es' hs' e'
        simp only [headKey, List.head?_cons, Option.map_some, selfMergeLoop, hfix kv hmem, hn]
        simp only [headKey] at hk hrec
        simp only [hk, hrec]

/-- `(*this)[x] = 1` on a member of a set whose table is not due to grow changes nothing -/
theorem sIns_member_fix {h : K → Nat} {m : HSet K} (inv : Inv h m) (hr : rehash h m = m)
    {k : K} (hk : (k, (1 : Int)) ∈ enum m) : sIns h m k = m := by
  have hb := binOf_lt h inv.wf.nb_pos k
  have hl : lookup k (m.buckets.getD (binOf h m.buckets.length k) []) = some 1 := by
    rw [getD_eq hb, ← inv.wf.lookup_bucket k]
    exact lookup_of_mem inv.wf.keysNodup hk
  have hset : ∀ (c : List (K × Int)), lookup k c = some 1 → chainSetVal k 1 c = c := by
    intro c
    induction c with
    | nil => intro _; rfl
    | cons x t ih =>
      obtain ⟨a, b⟩ := x
      intro hc
      simp only [lookup] at hc
      simp only [chainSetVal]
      by_cases ha : a = k
      · simp only [ha, if_true, Option.some.injEq] at hc ⊢
        rw [hc]
      · simp only [ha, if_false] at hc ⊢
        rw [ih hc]
  have hself : m.buckets.set (binOf h m.buckets.length k) (m.buckets.getD (binOf h m.buckets.length k) []) = m.buckets := by
    rw [getD_eq hb]; exact List.set_getElem_self hb
  unfold sIns assign
  have hi : index h (0 : Int) m k = m := by
    simp only [index, hr, chainIndex_eq, hl, Option.isSome_some, if_true, hself]
    cases m; simp
  rw [hi]
  simp only [setVal, hset _ hl, hself]

/-- `p->next` read in a well-formed table: the node after `kv` in the chain it sits in -/
theorem nextOf_in_chain {h : K → Nat} {m : HM K V} (w : WF h m.buckets)
    (j : Nat) (pre : List (K × V)) (kv : K × V) (t : List (K × V))
    (hc : m.buckets.getD j [] = pre ++ kv :: t) : nextOf h m kv.1 = some (headKey t) := by
  have hj : j < m.buckets.length := by
    apply Classical.byContradiction
    intro hn
    have : m.buckets.getD j [] = [] := by
      simp [List.getD_eq_getElem?_getD, List.getElem?_eq_none (Nat.le_of_not_lt hn)]
    rw [this] at hc
    simp at hc
  rw [getD_eq hj] at hc
  have hbin : binOf h m.buckets.length kv.1 = j := w.bin j hj kv (by rw [hc]; simp)
  have hnd : KeysNodup (pre ++ kv :: t) := hc ▸ w.nodup j hj
  have hpre : ∀ x ∈ pre, x.1 ≠ kv.1 := by
    intro x hx
    exact (List.pairwise_append.mp hnd).2.2 x hx kv (by simp)
  unfold nextOf
  rw [hbin, getD_eq hj, hc, List.dropWhile_append_of_pos (by intro x hx; simpa using hpre x hx)]
  simp

/-- **`s << s` as coded, when the table is not due to grow**: in bounds, no null or dangling node, table unchanged -/
theorem selfMerge_no_growth {h : K → Nat} {m : HSet K} (inv : Inv h m) (hr : rehash h m = m)
    (ones : ∀ kv ∈ enum m, kv.2 = 1) : selfMerge h m = some m := by
  have hpos := inv.wf.nb_pos
  unfold selfMerge
  rw [List.getElem?_eq_getElem hpos]
  obtain ⟨j', p', e, r, st⟩ := settle_spec m.buckets (m.buckets.length + 1) 0 m.buckets[0] hpos (by omega)
  have hk := settleK_of_settle m.buckets _ _ _ _ _ e
  simp only [hk]
  have hall : rest m.buckets 0 m.buckets[0] = m.buckets.flatten := by
    simp only [rest]
    rw [← List.flatten_cons, List.getElem_cons_drop, List.drop_zero]
  have hw := walkLoop_spec m.buckets (2 * m.buckets.flatten.length + 2) j' p' st (by rw [r, hall]; omega)
  refine selfLoop_fix h m ?_ (fun j pre kv t hc => nextOf_in_chain inv.wf j pre kv t hc) _ j' p' _ ?_ hw
  · intro kv hkv
    have h1 : kv.2 = 1 := ones kv hkv
    exact sIns_member_fix inv hr (by rw [← h1]; exact hkv)
  · exact settle_suffix m.buckets _ _ _ _ _ e (by rw [getD_eq hpos]; exact List.suffix_refl _)

/-- the enumerate-then-insert reading of `s << s` (`sAddAll h s s`) when every insertion is a no-op -/
theorem foldl_sIns_fix (h : K → Nat) (s : HSet K) :
    ∀ (l : List (K × Int)), (∀ kv ∈ l, sIns h s kv.1 = s) → l.foldl (fun b kv => sIns h b kv.1) s = s := by
  intro l
  induction l with
  | nil => intro _; rfl
  | cons x t ih =>
    intro hx
    rw [List.foldl_cons, hx x (by simp)]
    exact ih (fun kv hkv => hx kv (by simp [hkv]))

theorem sAddAll_self_no_growth {h : K → Nat} {m : HSet K} (inv : Inv h m) (hr : rehash h m = m)
    (ones : ∀ kv ∈ enum m, kv.2 = 1) : sAddAll h m m = m := by
  unfold sAddAll
  apply foldl_sIns_fix
  intro kv hkv
  have h1 : kv.2 = 1 := ones kv hkv
  exact sIns_member_fix inv hr (by rw [← h1]; exact hkv)

/-! ## growth inside the enumeration -/

/-- the settle loop only reads slots below the end fixed at construction -/
theorem settleK_take (B : List (List (K × V))) (jEnd : Nat) :
    ∀ (f i : Nat) (p : Option K), settleK B jEnd f i p = settleK (B.take jEnd) jEnd f i p := by
  intro f
  induction f with
  | zero => intro i p; cases p <;> simp [settleK]
  | succ f ih =>
    intro i p
    cases p with
    | some k => simp [settleK]
    | none =>
      simp only [settleK]
      by_cases hi : i < jEnd
      · simp only [hi, if_true]
        by_cases h1 : i + 1 < jEnd
        · simp only [h1, if_true, List.getElem?_take]
          cases B[i + 1]? with
          | none => rfl
          | some c => exact ih _ _
        · simp only [h1, if_false]
      · simp only [hi, if_false]

/-- on the truncated array the node pointer still points into a chain of the whole table -/
theorem settle_suffix_take (B : List (List (K × V))) (jEnd : Nat) :
    ∀ (f j : Nat) (p : List (K × V)) (j' : Nat) (p' : List (K × V)),
      settle (B.take jEnd) f j p = some (j', p') → (∃ b, p <:+ B.getD b []) → ∃ b, p' <:+ B.getD b [] := by
  intro f
  induction f with
  | zero =>
    intro j p j' p' e hs
    cases p with
    | nil => simp [settle] at e
    | cons kv t =>
      simp only [settle, Option.some.injEq, Prod.mk.injEq] at e
      obtain ⟨rfl, rfl⟩ := e
      exact hs
  | succ f ih =>
    intro j p j' p' e hs
    cases p with
    | cons kv t =>
      simp only [settle, Option.some.injEq, Prod.mk.injEq] at e
      obtain ⟨rfl, rfl⟩ := e
      exact hs
    | nil =>
      simp only [settle] at e
      by_cases hj : j < (B.take jEnd).length
      · simp only [hj, if_true] at e
        by_cases h1 : j + 1 < (B.take jEnd).length
        · simp only [h1, if_true, List.getElem?_eq_getElem h1] at e
          refine ih _ _ _ _ e ⟨j + 1, ?_⟩
          have h2 : j + 1 < B.length := by
            have := List.length_take (i := jEnd) (l := B); omega
          rw [getD_eq h2, List.getElem_take]
          exact List.suffix_refl _
        · simp only [h1, if_false, Option.some.injEq, Prod.mk.injEq] at e
          obtain ⟨rfl, rfl⟩ := e
          exact ⟨0, List.nil_suffix⟩
      · simp only [hj, if_false, Option.some.injEq, Prod.mk.injEq] at e
        obtain ⟨rfl, rfl⟩ := e
        exact ⟨0, List.nil_suffix⟩

/-- the interleaved loop on a table its body no longer changes, with the end `jEnd` of an EARLIER, smaller array and the
node pointer anywhere in a chain: it is the plain walk over the first `jEnd` slots -/
theorem selfLoop_fix_take (h : K → Nat) (m : HSet K) (jEnd : Nat) (B' : List (List (K × Int)))
    (hlen : B'.length = jEnd)
    (hK : ∀ (f i : Nat) (p : Option K), settleK m.buckets jEnd f i p = settleK B' jEnd f i p)
    (hsuf : ∀ (f j : Nat) (p : List (K × Int)) (j' : Nat) (p' : List (K × Int)),
      settle B' f j p = some (j', p') → (∃ b, p <:+ m.buckets.getD b []) → ∃ b, p' <:+ m.buckets.getD b [])
    (hfix : ∀ kv ∈ m.buckets.flatten, sIns h m kv.1 = m)
    (hnext : ∀ j pre kv t, m.buckets.getD j [] = pre ++ kv :: t → nextOf h m kv.1 = some (headKey t)) :
    ∀ (f j : Nat) (p es : List (K × Int)), (∃ b, p <:+ m.buckets.getD b []) →
      walkLoop B' f j p = some es →
      selfMergeLoop h jEnd f m j (headKey p) = some m := by
  intro f
  induction f with
  | zero => intro j p es _ e; simp [walkLoop] at e
  | succ f ih =>
    intro j p es hs e
    cases p with
    | nil =>
      simp only [walkLoop, hlen] at e
      simp only [headKey, List.head?_nil, Option.map_none, selfMergeLoop]
      by_cases hj : j < jEnd
      · simp [hj] at e
      · simp [hj]
    | cons kv t =>
      obtain ⟨b, pre, hpre⟩ := hs
      have hmem : kv ∈ m.buckets.flatten := by
        by_cases hb : b < m.buckets.length
        · rw [getD_eq hb] at hpre
          exact mem_flatten_get.mpr ⟨b, hb, by rw [← hpre]; simp⟩
        · have : m.buckets.getD b [] = [] := by
            simp [List.getD_eq_getElem?_getD, List.getElem?_eq_none (Nat.le_of_not_lt hb)]
          rw [this] at hpre
          simp at hpre
      simp only [walkLoop] at e
      cases hst : settle B' (B'.length + 1) j t with
      | none => simp [hst] at e
      | some r =>
        obtain ⟨j', p'⟩ := r
        simp only [hst, Option.map_eq_some_iff] at e
        obtain ⟨es', e', _⟩ := e
        have hk := settleK_of_settle B' _ _ _ _ _ hst
        rw [hlen, ← hK] at hk
        have hs' : ∃ b, p' <:+ m.buckets.getD b [] :=
          hsuf _ _ _ _ _ hst ⟨b, pre ++ [kv], by rw [← hpre]; simp⟩
        have hn := hnext b pre kv t hpre.symm
        have hrec := ih j' p' es' hs' e'
        simp only [headKey, List.head?_cons, Option.map_some, selfMergeLoop, hfix kv hmem, hn]
        simp only [headKey] at hk hrec
        simp only [hk, hrec]

theorem flatten_length_sublist {α : Type} {L1 L2 : List (List α)} (hs : L1.Sublist L2) :
    L1.flatten.length ≤ L2.flatten.length := by
  induction hs with
  | slnil => simp
  | cons a _ ih => simp only [List.flatten_cons, List.length_append]; omega
  | cons_cons a _ ih => simp only [List.flatten_cons, List.length_append]; omega

/-- `operator[]` rehashes first: on a table that needs one growth it acts as on the grown table -/
theorem sIns_via_rehash (h : K → Nat) (m : HSet K) (k : K) (hr1 : rehash h (rehash h m) = rehash h m) :
    sIns h m k = sIns h (rehash h m) k := by
  unfold sIns assign
  have hi : index h (0 : Int) m k = index h 0 (rehash h m) k := by simp only [index, hr1]
  rw [hi]

/-- **`s << s` as coded when the first `(*this)[x]` grows the table** (and one growth is enough): the enumerator goes on
in the NEW array with its OLD end and the re-linked node; every read is inside, the result is the grown table -/
theorem selfMerge_one_growth {h : K → Nat} {m : HSet K} (inv : Inv h m) (ones : ∀ kv ∈ enum m, kv.2 = 1)
    (hr1 : rehash h (rehash h m) = rehash h m) (hne : enum m ≠ []) : selfMerge h m = some (rehash h m) := by
  have hpos := inv.wf.nb_pos
  obtain ⟨inv1, habs⟩ := rehash_spec inv
  have hmemiff : ∀ kv, kv ∈ enum (rehash h m) ↔ kv ∈ enum m := by
    intro ⟨k, v⟩; rw [mem_enum_iff inv1, mem_enum_iff inv, habs]
  have ones1 : ∀ kv ∈ enum (rehash h m), kv.2 = 1 := fun kv hkv => ones kv ((hmemiff kv).mp hkv)
  have hfix1 : ∀ kv ∈ (rehash h m).buckets.flatten, sIns h (rehash h m) kv.1 = rehash h m := by
    intro kv hkv
    have h1 : kv.2 = 1 := ones1 kv hkv
    exact sIns_member_fix inv1 hr1 (by rw [← h1]; exact hkv)
  have hle : m.buckets.length ≤ (rehash h m).buckets.length := by
    rcases rehash_cases h m with ⟨e, _⟩ | ⟨e, _⟩
    · rw [e]; exact Nat.le_refl _
    · rw [e]; omega
  have hflen : (rehash h m).buckets.flatten.length = m.buckets.flatten.length := by
    have c1 := inv1.count
    have c := inv.count
    simp only [enum] at c1 c
    rcases rehash_cases h m with ⟨e, _⟩ | ⟨_, e, _⟩
    · rw [e]
    · omega
  unfold selfMerge
  rw [List.getElem?_eq_getElem hpos]
  obtain ⟨j0, p0, e0, r0, st0⟩ := settle_spec m.buckets (m.buckets.length + 1) 0 m.buckets[0] hpos (by omega)
  have hk0 := settleK_of_settle m.buckets _ _ _ _ _ e0
  simp only [hk0]
  have hall : rest m.buckets 0 m.buckets[0] = m.buckets.flatten := by
    simp only [rest]
    rw [← List.flatten_cons, List.getElem_cons_drop, List.drop_zero]
  cases p0 with
  | nil =>
    exfalso
    apply hne
    have hj := st0.2 rfl
    simp only [enum]
    rw [← hall, ← r0]
    simp only [rest, List.nil_append]
    rw [List.drop_eq_nil_of_le (by omega)]
    rfl
  | cons kv t =>
    have hj0 : j0 < m.buckets.length := st0.1 (by simp)
    have hkv : kv ∈ enum m := by
      simp only [enum]; rw [← hall, ← r0]; simp [rest]
    have hkv1 : kv ∈ (rehash h m).buckets.flatten := (hmemiff kv).mpr hkv
    obtain ⟨b, hb, hin⟩ := mem_flatten_get.mp hkv1
    obtain ⟨pre, t1, hc⟩ := List.append_of_mem hin
    have hcD : (rehash h m).buckets.getD b [] = pre ++ kv :: t1 := by rw [getD_eq hb]; exact hc
    have hn := nextOf_in_chain inv1.wf b pre kv t1 hcD
    have hs1 : sIns h m kv.1 = rehash h m := by rw [sIns_via_rehash h m kv.1 hr1]; exact hfix1 kv hkv1
    have hfuel : 2 * m.buckets.flatten.length + 2 = (2 * m.buckets.flatten.length + 1) + 1 := by omega
    rw [hfuel]
    simp only [headKey, List.head?_cons, Option.map_some, selfMergeLoop, hs1, hn]
    have hlen : ((rehash h m).buckets.take m.buckets.length).length = m.buckets.length := by
      rw [List.length_take]; exact Nat.min_eq_left hle
    obtain ⟨j1, p1, e1, r1, st1⟩ := settle_spec ((rehash h m).buckets.take m.buckets.length)
      (((rehash h m).buckets.take m.buckets.length).length + 1) j0 t1 (by omega) (by omega)
    have hk1 := settleK_of_settle _ _ _ _ _ _ e1
    rw [hlen, ← settleK_take] at hk1
    simp only [headKey] at hk1
    simp only [hk1]
    have ht1 : t1.length < m.buckets.flatten.length := by
      have h1 : ((rehash h m).buckets[b]).length ≤ (rehash h m).buckets.flatten.length :=
        (List.sublist_flatten_of_mem (List.getElem_mem hb)).length_le
      rw [hc] at h1
      simp only [List.length_append, List.length_cons] at h1
      omega
    have hd : ((((rehash h m).buckets.take m.buckets.length).drop (j0 + 1)).flatten).length ≤ m.buckets.flatten.length := by
      rw [← hflen]
      exact flatten_length_sublist ((List.drop_sublist _ _).trans (List.take_sublist _ _))
    have hw := walkLoop_spec ((rehash h m).buckets.take m.buckets.length) (2 * m.buckets.flatten.length + 1) j1 p1 st1
      (by rw [r1]; simp only [rest, List.length_append]; omega)
    exact selfLoop_fix_take h (rehash h m) m.buckets.length _ hlen (settleK_take _ _) (settle_suffix_take _ _) hfix1
      (fun j pre kv t hc => nextOf_in_chain inv1.wf j pre kv t hc) _ j1 p1 _
      (settle_suffix_take _ _ _ _ _ _ _ e1 ⟨b, pre ++ [kv], by rw [hcD]; simp⟩) hw

theorem rehash_fix_of_lt (h : K → Nat) (m : HM K V) (c : m.n < (m.buckets.length + 2) * 7 / 8) : rehash h m = m := by
  have c' : m.n < (m.buckets.length + 2) * 7 / 8 ∨ m.buckets.length + 2 > 280000 ∨ m.rc > 1 := Or.inl c
  unfold rehash; exact if_pos c'

/-- a table within the intended load (what every history without shared handles gives) needs at most one growth -/
theorem one_growth_of_load (h : K → Nat) {m : HM K V} (hpos : 0 < m.buckets.length) (l : LoadOK m) :
    rehash h (rehash h m) = rehash h m := by
  rcases rehash_cases h m with ⟨e, _⟩ | ⟨e1, e2, _, e4, _⟩
  · rw [e, e]
  · apply rehash_fix_of_lt
    rw [e1, e2]
    rcases (loadOK_iff m).mp l with l | l
    · omega
    · omega

/-- **`s << s` as coded, for every set table within the intended load** (growth inside the enumeration included) -/
theorem selfMerge_loaded {h : K → Nat} {m : HSet K} (inv : Inv h m) (ones : ∀ kv ∈ enum m, kv.2 = 1)
    (l : LoadOK m) : selfMerge h m = some (rehash h m) := by
  by_cases hne : enum m = []
  · have h0 : m.n = 0 := by rw [inv.count, hne]; rfl
    have hr : rehash h m = m := rehash_fix_of_lt h m (by have := inv.wf.nb_pos; omega)
    rw [hr]
    exact selfMerge_no_growth inv hr ones
  · exact selfMerge_one_growth inv ones (one_growth_of_load h inv.wf.nb_pos l) hne

end AslProofs.HashMapSelf
