import AslModel.HashMap
import AslProofs.HashMap
import AslProofs.HashMapEnum
/-!
# `s << s` as coded (`AslModel.HashMap.selfMerge`): the enumeration of a table whose body inserts into the same table
-/
namespace AslProofs.HashMapSelf
open AslModel.HashMap AslProofs.HashMap AslProofs.HashMapEnum
open AslProofs.Map (lookup KeysNodup lookup_of_mem)
set_option linter.unusedSectionVars false
variable {K V : Type} [DecidableEq K]

/-- the key-level settle loop follows the list-level one (same array, end = its length) -/
theorem settleK_of_settle (B : List (List (K × V))) :
    ∀ (f j : Nat) (p : List (K × V)) (j' : Nat) (p' : List (K × V)),
      settle B f j p = some (j', p') → settleK B B.length f j (headKey p) = some (j', headKey p') := by
  intro f
  induction f with
  | zero =>
    intro j p j' p' e
    cases p with
    | nil => simp [settle] at e
    | cons kv t =>
      simp only [settle, Option.some.injEq, Prod.mk.injEq] at e
      obtain ⟨rfl, rfl⟩ := e
      simp [headKey, settleK]
  | succ f ih =>
    intro j p j' p' e
    cases p with
    | cons kv t =>
      simp only [settle, Option.some.injEq, Prod.mk.injEq] at e
      obtain ⟨rfl, rfl⟩ := e
      simp [headKey, settleK]
    | nil =>
      simp only [settle] at e
      simp only [headKey, List.head?_nil, Option.map_none, settleK]
      by_cases hj : j < B.length
      · simp only [hj, if_true] at e ⊢
        by_cases h1 : j + 1 < B.length
        · simp only [h1, if_true, List.getElem?_eq_getElem h1] at e ⊢
          exact ih _ _ _ _ e
        · simp only [h1, if_false, Option.some.injEq, Prod.mk.injEq] at e ⊢
          obtain ⟨rfl, rfl⟩ := e
          simp
      · simp only [hj, if_false, Option.some.injEq, Prod.mk.injEq] at e ⊢
        obtain ⟨rfl, rfl⟩ := e
        simp

/-- the node pointer of the enumerator always points into the chain of the slot it is at -/
theorem settle_suffix (B : List (List (K × V))) :
    ∀ (f j : Nat) (p : List (K × V)) (j' : Nat) (p' : List (K × V)),
      settle B f j p = some (j', p') → p <:+ B.getD j [] → p' <:+ B.getD j' [] := by
  intro f
  induction f with
  | zero =>
    intro j p j' p' e hs
    cases p with
    | nil => simp [settle] at e
    | cons kv t =>
      simp only [settle, Option.some.injEq, Prod.mk.injEq] at e
      obtain ⟨rfl, rfl⟩ := e
      exact hs
  | succ f ih =>
    intro j p j' p' e hs
    cases p with
    | cons kv t =>
      simp only [settle, Option.some.injEq, Prod.mk.injEq] at e
      obtain ⟨rfl, rfl⟩ := e
      exact hs
    | nil =>
      simp only [settle] at e
      by_cases hj : j < B.length
      · simp only [hj, if_true] at e
        by_cases h1 : j + 1 < B.length
        · simp only [h1, if_true, List.getElem?_eq_getElem h1] at e
          exact ih _ _ _ _ e (by rw [getD_eq h1]; exact List.suffix_refl _)
        · simp only [h1, if_false, Option.some.injEq, Prod.mk.injEq] at e
          obtain ⟨rfl, rfl⟩ := e
          exact List.nil_suffix
      · simp only [hj, if_false, Option.some.injEq, Prod.mk.injEq] at e
        obtain ⟨rfl, rfl⟩ := e
        exact List.nil_suffix

/-- while the body leaves the table as it is, the interleaved loop is the plain enumerator walk -/
theorem selfLoop_fix (h : K → Nat) (m : HSet K)
    (hfix : ∀ kv ∈ m.buckets.flatten, sIns h m kv.1 = m)
    (hnext : ∀ j pre kv t, m.buckets.getD j [] = pre ++ kv :: t → nextOf h m kv.1 = some (headKey t)) :
    ∀ (f j : Nat) (p es : List (K × Int)), p <:+ m.buckets.getD j [] → walkLoop m.buckets f j p = some es →
      selfMergeLoop h m.buckets.length f m j (headKey p) = some m := by
  intro f
  induction f with
  | zero => intro j p es _ e; simp [walkLoop] at e
  | succ f ih =>
    intro j p es hs e
    cases p with
    | nil =>
      simp only [walkLoop] at e
      simp only [headKey, List.head?_nil, Option.map_none, selfMergeLoop]
      by_cases hj : j < m.buckets.length
      · simp [hj] at e
      · simp [hj]
    | cons kv t =>
      obtain ⟨pre, hpre⟩ := hs
      have hmem : kv ∈ m.buckets.flatten := by
        by_cases hj : j < m.buckets.length
        · rw [getD_eq hj] at hpre
          exact mem_flatten_get.mpr ⟨j, hj, by rw [← hpre]; simp⟩
        · have : m.buckets.getD j [] = [] := by
            simp [List.getD_eq_getElem?_getD, List.getElem?_eq_none (Nat.le_of_not_lt hj)]
          rw [this] at hpre
          simp at hpre
      simp only [walkLoop] at e
      cases hst : settle m.buckets (m.buckets.length + 1) j t with
      | none => simp [hst] at e
      | some r =>
        obtain ⟨j', p'⟩ := r
        simp only [hst, Option.map_eq_some_iff] at e
        obtain ⟨es', e', _⟩ := e
        have hk := settleK_of_settle m.buckets _ _ _ _ _ hst
        have hs' : p' <:+ m.buckets.getD j' [] :=
          settle_suffix m.buckets _ _ _ _ _ hst ⟨pre ++ [kv], by rw [← hpre]; simp⟩
        have hn := hnext j pre kv t hpre.symm
        have hrec := ih j' p' es' hs' e'
        simp only [headKey, List.head?_cons, Option.map_some, selfMergeLoop, hfix kv hmem, hn]
        simp only [headKey] at hk hrec
        simp only [hk, hrec]

/-- `(*this)[x] = 1` on a member of a set whose table is not due to grow changes nothing -/
theorem sIns_member_fix {h : K → Nat} {m : HSet K} (inv : Inv h m) (hr : rehash h m = m)
    {k : K} (hk : (k, (1 : Int)) ∈ enum m) : sIns h m k = m := by
  have hb := binOf_lt h inv.wf.nb_pos k
  have hl : lookup k (m.buckets.getD (binOf h m.buckets.length k) []) = some 1 := by
    rw [getD_eq hb, ← inv.wf.lookup_bucket k]
    exact lookup_of_mem inv.wf.keysNodup hk
  have hset : ∀ (c : List (K × Int)), lookup k c = some 1 → chainSetVal k 1 c = c := by
    intro c
    induction c with
    | nil => intro _; rfl
    | cons x t ih =>
      obtain ⟨a, b⟩ := x
      intro hc
      simp only [lookup] at hc
      simp only [chainSetVal]
      by_cases ha : a = k
      · simp only [ha, if_true, Option.some.injEq] at hc ⊢
        rw [hc]
      · simp only [ha, if_false] at hc ⊢
        rw [ih hc]
  have hself : m.buckets.set (binOf h m.buckets.length k) (m.buckets.getD (binOf h m.buckets.length k) []) = m.buckets := by
    rw [getD_eq hb]; exact List.set_getElem_self hb
  unfold sIns assign
  have hi : index h (0 : Int) m k = m := by
    simp only [index, hr, chainIndex_eq, hl, Option.isSome_some, if_true, hself]
    cases m; simp
  rw [hi]
  simp only [setVal, hset _ hl, hself]

/-- `p->next` read in a well-formed table: the node after `kv` in the chain it sits in -/
theorem nextOf_in_chain {h : K → Nat} {m : HM K V} (w : WF h m.buckets)
    (j : Nat) (pre : List (K × V)) (kv : K × V) (t : List (K × V))
    (hc : m.buckets.getD j [] = pre ++ kv :: t) : nextOf h m kv.1 = some (headKey t) := by
  have hj : j < m.buckets.length := by
    apply Classical.byContradiction
    intro hn
    have : m.buckets.getD j [] = [] := by
      simp [List.getD_eq_getElem?_getD, List.getElem?_eq_none (Nat.le_of_not_lt hn)]
    rw [this] at hc
    simp at hc
  rw [getD_eq hj] at hc
  have hbin : binOf h m.buckets.length kv.1 = j := w.bin j hj kv (by rw [hc]; simp)
  have hnd : KeysNodup (pre ++ kv :: t) := hc ▸ w.nodup j hj
  have hpre : ∀ x ∈ pre, x.1 ≠ kv.1 := by
    intro x hx
    exact (List.pairwise_append.mp hnd).2.2 x hx kv (by simp)
  unfold nextOf
  rw [hbin, getD_eq hj, hc, List.dropWhile_append_of_pos (by intro x hx; simpa using hpre x hx)]
  simp

/-- **`s << s` as coded, when the table is not due to grow**: in bounds, no null or dangling node, table unchanged -/
theorem selfMerge_no_growth {h : K → Nat} {m : HSet K} (inv : Inv h m) (hr : rehash h m = m)
    (ones : ∀ kv ∈ enum m, kv.2 = 1) : selfMerge h m = some m := by
  have hpos := inv.wf.nb_pos
  unfold selfMerge
  rw [List.getElem?_eq_getElem hpos]
  obtain ⟨j', p', e, r, st⟩ := settle_spec m.buckets (m.buckets.length + 1) 0 m.buckets[0] hpos (by omega)
  have hk := settleK_of_settle m.buckets _ _ _ _ _ e
  simp only [hk]
  have hall : rest m.buckets 0 m.buckets[0] = m.buckets.flatten := by
    simp only [rest]
    rw [← List.flatten_cons, List.getElem_cons_drop, List.drop_zero]
  have hw := walkLoop_spec m.buckets (m.buckets.flatten.length + 1) j' p' st (by rw [r, hall]; omega)
  refine selfLoop_fix h m ?_ (fun j pre kv t hc => nextOf_in_chain inv.wf j pre kv t hc) _ j' p' _ ?_ hw
  · intro kv hkv
    have h1 : kv.2 = 1 := ones kv hkv
    exact sIns_member_fix inv hr (by rw [← h1]; exact hkv)
  · exact settle_suffix m.buckets _ _ _ _ _ e (by rw [getD_eq hpos]; exact List.suffix_refl _)

/-- the enumerate-then-insert reading of `s << s` (`sAddAll h s s`) when every insertion is a no-op -/
theorem foldl_sIns_fix (h : K → Nat) (s : HSet K) :
    ∀ (l : List (K × Int)), (∀ kv ∈ l, sIns h s kv.1 = s) → l.foldl (fun b kv => sIns h b kv.1) s = s := by
  intro l
  induction l with
  | nil => intro _; rfl
  | cons x t ih =>
    intro hx
    rw [List.foldl_cons, hx x (by simp)]
    exact ih (fun kv hkv => hx kv (by simp [hkv]))

theorem sAddAll_self_no_growth {h : K → Nat} {m : HSet K} (inv : Inv h m) (hr : rehash h m = m)
    (ones : ∀ kv ∈ enum m, kv.2 = 1) : sAddAll h m m = m := by
  unfold sAddAll
  apply foldl_sIns_fix
  intro kv hkv
  have h1 : kv.2 = 1 := ones kv hkv
  exact sIns_member_fix inv hr (by rw [← h1]; exact hkv)

end AslProofs.HashMapSelf
