import AslProofs.HttpParse
/-!
# C09 — inversion lemmas: a request is only dispatched when the stream holds a complete framed request
(model: `AslModel/HttpParse.lean`).  Core Lean only.
-/
set_option linter.unusedVariables false
namespace AslProofs.HttpDispatch
open AslModel.HttpParse AslProofs.HttpParse

/-- no error recorded and the handle still open -/
def Healthy (s : Sock) : Prop := s.err = 0 ∧ s.closed = false

/-! ## lines -/

theorem readLineLoop_inv (inp : Bytes) : ∀ (acc : Bytes) (n : Nat),
    (readLineLoop inp acc n).2.2 = 0 →
    ∃ line, inp = line ++ 10 :: (readLineLoop inp acc n).2.1 ∧ (∀ c ∈ line, c ≠ 10) ∧
      (readLineLoop inp acc n).1 = acc.reverse ++ line := by
  induction inp with
  | nil => intro acc n h; simp [readLineLoop] at h
  | cons c t ih =>
    intro acc n h
    unfold readLineLoop at h ⊢
    by_cases h1 : (c == 10) = true
    · simp only [h1, if_true] at h ⊢
      have : c = 10 := by simpa using h1
      exact ⟨[], by simp [this], by simp, by simp⟩
    · simp only [h1, Bool.false_eq_true, if_false] at h ⊢
      by_cases h2 : n > 16000
      · simp [h2] at h
      · simp only [h2, if_false] at h ⊢
        obtain ⟨line, e1, e2, e3⟩ := ih (c :: acc) (n + 1) h
        refine ⟨c :: line, ?_, ?_, ?_⟩
        · simp only [List.cons_append]; rw [← e1]
        · intro x hx
          rcases List.mem_cons.mp hx with rfl | hx
          · simpa using h1
          · exact e2 x hx
        · rw [e3]; simp

/-- a line returned without error on a healthy socket was a complete line: its bytes, then LF, were at the head of
    the stream, and exactly they were consumed -/
theorem readLine_inv (s : Sock) (hs : Healthy s) (h : (s.readLine).2.err = 0) :
    s.inp = (s.readLine).1 ++ 10 :: (s.readLine).2.inp ∧ (∀ c ∈ (s.readLine).1, c ≠ 10) ∧
    (s.readLine).2.closed = false ∧ (s.readLine).2.out = s.out := by
  obtain ⟨he, hc⟩ := hs
  revert h
  unfold Sock.readLine Sock.available Sock.waitInput Sock.readLineBody
  cases hi : s.inp with
  | nil => simp [he, hc, hi, readLineLoop]
  | cons c t =>
    have hpos : ((List.length (c :: t) : Nat) : Int) > 0 := by simp
    simp only [he, hc, bne_self_eq_false, Bool.or_self, Bool.false_eq_true, if_false, hpos, if_true]
    intro h
    have he0 : (readLineLoop (c :: t) [] 0).2.2 = 0 := by
      by_cases hz : (readLineLoop (c :: t) [] 0).2.2 = 0
      · exact hz
      · have : ((readLineLoop (c :: t) [] 0).2.2 != 0) = true := by simpa using hz
        simp only [this, if_true] at h
        exact absurd h hz
    obtain ⟨line, e1, e2, e3⟩ := readLineLoop_inv (c :: t) [] 0 he0
    simp only [List.reverse_nil, List.nil_append] at e3
    refine ⟨?_, ?_, trivial, trivial⟩
    · rw [e3]; exact e1
    · rw [e3]; exact e2

theorem readLine_flags (s : Sock) : (s.readLine).2.closed = s.closed ∧ ((s.readLine).2.err = 0 → s.err = 0) := by
  refine ⟨readLine_closed s, ?_⟩
  unfold Sock.readLine Sock.available Sock.waitInput Sock.readLineBody
  by_cases hc : s.closed = true
  · simp [hc]
  · have hc' : s.closed = false := by simpa using hc
    by_cases he : s.err = 0
    · intro _; exact he
    · have he' : (s.err != 0) = true := by simpa using he
      cases hi : s.inp <;> simp [hc', he, he', hi]

/-! ## the header block -/

/-- **field name, stated here and not taken from the model**: a non-empty run of visible bytes — 0x21..0x7e, or a byte
    >= 0x80 (obs-text; the library stores such names as they are).  This is RFC 7230's `token` widened by the delimiters
    `"(),/;<=>?@[\]{}` and by bytes >= 0x80, which the library does not refuse (recorded in LEVEL_NOTE); what it excludes
    is exactly what hides a framing header from `header()`: blanks, tabs, every other control character, DEL, the empty
    name.  `:` cannot occur: the name is what precedes the first colon of the line (`fieldName_no_colon`). -/
def isFieldName (n : Bytes) : Bool := !n.isEmpty && n.all (fun c => (33 ≤ c && c ≤ 126) || 128 ≤ c)

theorem isFieldName_iff (n : Bytes) :
    isFieldName n = true ↔ n ≠ [] ∧ ∀ c ∈ n, (33 ≤ c ∧ c ≤ 126) ∨ 128 ≤ c := by
  unfold isFieldName
  cases n with
  | nil => simp
  | cons a t => simp [List.all_eq_true]

theorem fieldByte_eq : ∀ c : UInt8, (c > 32 && c != 127) = ((33 ≤ c && c ≤ 126) || 128 ≤ c) := by
  apply byte_cases
  decide +kernel

/-- the model's `validName` (the transcription of the loop in `readHeaders`) is this notion of field name -/
theorem validName_eq_isFieldName (n : Bytes) : validName n = isFieldName n := by
  unfold validName isFieldName
  cases n with
  | nil => rfl
  | cons a t =>
    have hall : ∀ l : Bytes, l.all (fun c => c > 32 && c != 127) = l.all (fun c => (33 ≤ c && c ≤ 126) || 128 ≤ c) := by
      intro l
      induction l with
      | nil => rfl
      | cons x xs ih => simp only [List.all_cons, ih, fieldByte_eq x]
    rw [hall]
    simp

/-- the bytes before the first `:` of a line hold no `:` -/
theorem fieldName_no_colon (l : Bytes) (i : Nat) (h : findByte 58 (cstr l) = some i) : ∀ c ∈ l.take i, c ≠ 58 := by
  obtain ⟨hlt, _, hall⟩ := findByte_some h
  have hpre : (cstr l).take i = l.take i := by
    have hp : cstr l <+: l := by unfold cstr; exact List.takeWhile_prefix _
    have he := List.prefix_iff_eq_take.mp hp
    rw [he, List.take_take, Nat.min_eq_left (Nat.le_of_lt hlt)]
  rw [hpre] at hall
  intro c hc
  have := List.all_eq_true.mp hall c hc
  simpa using this

/-- what one line of the header block does to (dictionary, current field name, current field value): a line that
    starts with white space continues the current field, which must exist (c2e6d14) (its trimmed text, when not empty, is joined to the value
    accumulated so far with one space); otherwise the trimmed line is `name ":" value`, the name a non-empty run of bytes
    above the blank other than DEL (no blank or tab before the colon: 9bf376e), and stores the trimmed value
    (possibly empty) under the canonical name; `none`: neither -/
def foldHeaderLine (st : Dic × Bytes × Bytes) (line : Bytes) : Option (Dic × Bytes × Bytes) :=
  if cIsSpace (line.getD 0 0) then
    (if st.2.1.length == 0 then none
     else if (trimmed line).length == 0 then some st
     else
       let v := if st.2.2.length == 0 then trimmed line else st.2.2 ++ 32 :: trimmed line
       some (storeHeader st.1 st.2.1 v, st.2.1, v))
  else
    match findByte 58 (cstr (trimmed line)) with
    | none => none
    | some i =>
      if isFieldName ((trimmed line).take i) then
        some (storeHeader st.1 ((trimmed line).take i) (trimmed ((trimmed line).drop (i + 1))),
              (trimmed line).take i, trimmed ((trimmed line).drop (i + 1)))
      else none

/-- a complete header block at the head of a stream, and the dictionary it denotes: LF-terminated lines, each
    folded into the state by `foldHeaderLine`, up to the empty line (`"\r"` as the code compares it: a C string);
    `HeaderBlockD tail rest st h`: `tail` = block ++ `rest`, and starting from `st` the block yields `h` -/
inductive HeaderBlockD : Bytes → Bytes → (Dic × Bytes × Bytes) → Dic → Prop
  | empty (last rest : Bytes) (st : Dic × Bytes × Bytes) : (∀ c ∈ last, c ≠ 10) → cstr last = [13] →
      HeaderBlockD (last ++ 10 :: rest) rest st st.1
  | line (l tail rest : Bytes) (st st' : Dic × Bytes × Bytes) (h : Dic) : (∀ c ∈ l, c ≠ 10) → cstr l ≠ [13] →
      foldHeaderLine st l = some st' → HeaderBlockD tail rest st' h → HeaderBlockD (l ++ 10 :: tail) rest st h

theorem headersStep_cases (x : HSt) :
    (headersStep x = .ok (.done ((x.s.readLine).2, x.h)) ∧ cstr (x.s.readLine).1 = [13]) ∨
    (∃ h', headersStep x = .ok (.done ({ (x.s.readLine).2 with closed := true }, h'))) ∨
    (∃ y, headersStep x = .ok (.next y) ∧ y.s = (x.s.readLine).2 ∧ cstr (x.s.readLine).1 ≠ [13] ∧ (x.s.readLine).1 ≠ [] ∧
      foldHeaderLine (x.h, x.name, x.value) (x.s.readLine).1 = some (y.h, y.name, y.value)) := by
  unfold headersStep foldHeaderLine
  simp only []
  by_cases h13 : (cstr x.s.readLine.1 == [13]) = true
  · left
    simp only [h13, if_true]
    exact ⟨rfl, by simpa using h13⟩
  · right
    have hne : cstr x.s.readLine.1 ≠ [13] := by simpa using h13
    simp only [h13, Bool.false_eq_true, if_false]
    rw [at?_zero]
    simp only [bind, Except.bind]
    by_cases hsp : cIsSpace (x.s.readLine.1.getD 0 0) = true
    · simp only [hsp, if_true]
      have hnn : x.s.readLine.1 ≠ [] := by
        intro hnil
        rw [hnil] at hsp
        exact absurd hsp (by decide)
      split
      · left; exact ⟨_, rfl⟩
      · right
        split
        · exact ⟨_, rfl, rfl, hne, hnn, rfl⟩
        · exact ⟨_, rfl, rfl, hne, hnn, rfl⟩
    · simp only [hsp, Bool.false_eq_true, if_false]
      cases hf : findByte 58 (cstr (trimmed x.s.readLine.1)) with
      | none => left; exact ⟨_, rfl⟩
      | some i =>
        simp only []
        have hi := (findByte_some hf).1
        have hcl := cstr_length_le (trimmed x.s.readLine.1)
        rw [substring?_ok _ _ _ (Nat.zero_le _) (by omega)]
        simp only [List.drop_zero, Nat.sub_zero]
        by_cases hvn : validName ((trimmed x.s.readLine.1).take i) = true
        · right
          have hfn := hvn
          rw [validName_eq_isFieldName] at hfn
          simp only [hvn, hfn, Bool.not_true, Bool.false_eq_true, if_false, if_true]
          rw [substring?_ok _ _ _ (by omega) (Nat.le_refl _)]
          simp only []
          have e : ((trimmed x.s.readLine.1).drop (i + 1)).take ((trimmed x.s.readLine.1).length - (i + 1)) =
              (trimmed x.s.readLine.1).drop (i + 1) := by
            apply List.take_of_length_le; simp
          rw [e]
          refine ⟨_, rfl, rfl, hne, ?_, rfl⟩
          intro hnil
          rw [hnil] at hf
          have : findByte 58 (cstr (trimmed ([] : Bytes))) = none := by decide
          rw [this] at hf
          exact absurd hf (by simp)
        · left
          have hvn' : validName ((trimmed x.s.readLine.1).take i) = false := by simpa using hvn
          simp only [hvn', Bool.not_false, if_true]
          exact ⟨_, rfl⟩

/-- once the socket is in error or closed, the header reader ends with a socket in error or closed -/
theorem iterate_headers_unhealthy : ∀ (fuel : Nat) (x : HSt) (r : Sock × Dic),
    ¬ Healthy x.s → iterate headersStep fuel x = .ok r → ¬ Healthy r.1 := by
  intro fuel
  induction fuel with
  | zero => intro x r _ h; simp [iterate, throw, throwThe, MonadExceptOf.throw] at h
  | succ fuel ih =>
    intro x r hu h
    have hnl : ¬ Live x.s := fun hl => hu ⟨hl.1, hl.2.1⟩
    have hline := (readLine_facts x.s).2.2 hnl
    obtain ⟨hcl, herr⟩ := readLine_flags x.s
    have hu2 : ¬ Healthy (x.s.readLine).2 := by
      intro hh
      exact hu ⟨herr hh.1, by rw [← hcl]; exact hh.2⟩
    simp only [iterate] at h
    rcases headersStep_cases x with ⟨h1, _⟩ | ⟨h', h1⟩ | ⟨y, h1, hy, _, hne, _⟩
    · rw [h1] at h
      simp only [pure, Except.pure, Except.ok.injEq] at h
      rw [← h]; exact hu2
    · rw [h1] at h
      simp only [pure, Except.pure, Except.ok.injEq] at h
      rw [← h]
      intro hh; simp [Healthy] at hh
    · exact absurd hline hne

/-- if the header reader ends on a healthy socket, it consumed a complete header block, and the dictionary it
    returns is the one that block denotes -/
theorem iterate_headers_inv : ∀ (fuel : Nat) (x : HSt) (r : Sock × Dic),
    Healthy x.s → iterate headersStep fuel x = .ok r → Healthy r.1 →
    HeaderBlockD x.s.inp r.1.inp (x.h, x.name, x.value) r.2 := by
  intro fuel
  induction fuel with
  | zero => intro x r _ h; simp [iterate, throw, throwThe, MonadExceptOf.throw] at h
  | succ fuel ih =>
    intro x r hx h hr
    simp only [iterate] at h
    rcases headersStep_cases x with ⟨h1, h13⟩ | ⟨h', h1⟩ | ⟨y, h1, hy, h13, _, hfold⟩
    · rw [h1] at h
      simp only [pure, Except.pure, Except.ok.injEq] at h
      subst h
      obtain ⟨e1, e2, _, _⟩ := readLine_inv x.s hx hr.1
      rw [e1]
      exact HeaderBlockD.empty _ _ (x.h, x.name, x.value) e2 h13
    · rw [h1] at h
      simp only [pure, Except.pure, Except.ok.injEq] at h
      subst h
      simp [Healthy] at hr
    · rw [h1] at h
      simp only [] at h
      have hyh : Healthy y.s := by
        by_cases hh : Healthy y.s
        · exact hh
        · exact absurd hr (iterate_headers_unhealthy fuel y r hh h)
      rw [hy] at hyh
      obtain ⟨e1, e2, _, _⟩ := readLine_inv x.s hx hyh.1
      rw [e1]
      have := ih y r (by rw [hy]; exact hyh) h hr
      rw [hy] at this
      exact HeaderBlockD.line _ _ _ _ _ _ e2 h13 hfold this

/-! ## the body -/

/-- `Socket_::read(n)`: what was got came off the head of the stream; flags only get worse; a read that leaves the
    socket without error delivered all `n` bytes -/
theorem rawRead_inv (s : Sock) (n : Nat) :
    s.inp = (s.rawRead n).1 ++ (s.rawRead n).2.inp ∧ (s.rawRead n).1.length ≤ n ∧
    (s.rawRead n).2.closed = s.closed ∧ (s.rawRead n).2.out = s.out ∧
    ((s.rawRead n).2.err = 0 → s.err = 0 ∧ (s.rawRead n).1.length = n ∧ n ≠ 0 ∧ s.closed = false) := by
  unfold Sock.rawRead
  by_cases h : (s.closed || n == 0) = true
  · simp [h]
  · simp only [h, Bool.false_eq_true, if_false]
    have hc : s.closed = false ∧ n ≠ 0 := by
      simp only [Bool.or_eq_true, beq_iff_eq, not_or, Bool.not_eq_true] at h
      exact h
    refine ⟨?_, ?_, ?_, ?_, ?_⟩
    · split <;> simp
    · simp only [List.length_take]; omega
    · split <;> rfl
    · split <;> rfl
    · split
      · intro h5; simp at h5
      · rename_i h2
        intro he
        simp only [List.length_take] at h2 ⊢
        exact ⟨he, by omega, hc.2, hc.1⟩

/-- what the inner `while (maxToRead > 0)` loop did, whatever its arguments -/
structure BlocksInv (y : BSt) (b : Blk) : Prop where
  got : ∃ g, y.s.inp = g ++ b.s.inp ∧ b.body = y.body ++ g ∧ (g.length : Int) ≤ max y.mx 0 ∧
      (y.size = 0 → b.size = 0) ∧ (y.size ≠ 0 → b.size = y.size - (g.length : Int)) ∧
      (b.ret = false → (g.length : Int) = max y.mx 0)
  closed : b.s.closed = y.s.closed
  err : b.s.err = 0 → y.s.err = 0
  ret_ok : b.ret = true → b.s.err = 0 → y.size ≠ 0 ∧ b.size ≤ 0
  noret : b.ret = false → y.size ≠ 0 → b.size = y.size ∨ b.size > 0

theorem iterate_blocks_inv : ∀ (fuel : Nat) (y : BSt) (b : Blk), iterate blocksStep fuel y = .ok b → BlocksInv y b := by
  intro fuel
  induction fuel with
  | zero => intro y b h; simp [iterate, throw, throwThe, MonadExceptOf.throw] at h
  | succ fuel ih =>
    intro y b h
    simp only [iterate] at h
    unfold blocksStep at h
    obtain ⟨r1, r2, r3, r4, r5⟩ := rawRead_inv y.s (min y.mx 16000).toNat
    by_cases h1 : y.mx ≤ 0
    · simp only [h1, if_true, pure, Except.pure, Except.ok.injEq] at h
      subst h
      exact ⟨⟨[], by simp, by simp, by simp only [List.length_nil]; omega, fun h => h, fun _ => by simp,
        fun _ => by simp only [List.length_nil]; omega⟩, rfl, fun h => h, fun h => by simp at h, fun _ _ => Or.inl rfl⟩
    · simp only [h1, if_false] at h
      by_cases h2 : ((y.s.rawRead (min y.mx 16000).toNat).1.length == 0) = true
      · simp only [h2, if_true, pure, Except.pure, Except.ok.injEq] at h
        subst h
        have hg : (y.s.rawRead (min y.mx 16000).toNat).1 = [] := by
          have : (y.s.rawRead (min y.mx 16000).toNat).1.length = 0 := by simpa using h2
          exact List.eq_nil_of_length_eq_zero this
        refine ⟨⟨[], by rw [hg] at r1; simpa using r1, by simp, by simp only [List.length_nil]; omega, fun h => h,
          fun _ => by simp, fun h => by simp at h⟩, r3, fun he => (r5 he).1, ?_, fun h => by simp at h⟩
        intro _ he
        have := (r5 he).2.1
        rw [hg] at this
        simp only [List.length_nil] at this
        omega
      · simp only [h2, Bool.false_eq_true, if_false] at h
        have hpos : 0 < (y.s.rawRead (min y.mx 16000).toNat).1.length := by
          have : (y.s.rawRead (min y.mx 16000).toNat).1.length ≠ 0 := by simpa using h2
          omega
        by_cases h3 : (y.size != 0) = true
        · have hs0 : y.size ≠ 0 := by simpa using h3
          simp only [h3, if_true] at h
          by_cases h4 : y.size - ((y.s.rawRead (min y.mx 16000).toNat).1.length : Int) ≤ 0
          · simp only [h4, if_true, pure, Except.pure, Except.ok.injEq] at h
            subst h
            exact ⟨⟨_, r1, rfl, by omega, fun h => absurd h hs0, fun _ => rfl, fun h => by simp at h⟩, r3,
              fun he => (r5 he).1, fun _ _ => ⟨hs0, h4⟩, fun h => by simp at h⟩
          · simp only [h4, if_false] at h
            have := ih _ b h
            obtain ⟨⟨g, g1, g2, g3, g4, g5, g6⟩, c1, c2, c3, c4⟩ := this
            simp only at g1 g2 g3 g4 g5 g6 c1 c2 c3 c4
            have hsz : y.size - ((y.s.rawRead (min y.mx 16000).toNat).1.length : Int) ≠ 0 := by omega
            refine ⟨⟨(y.s.rawRead (min y.mx 16000).toNat).1 ++ g, ?_, ?_, ?_, fun h => absurd h hs0, ?_, ?_⟩, ?_, ?_, ?_, ?_⟩
            · rw [List.append_assoc, ← g1]; exact r1
            · rw [g2, List.append_assoc]
            · simp only [List.length_append, Int.natCast_add]; omega
            · intro _; rw [g5 hsz]; simp only [List.length_append, Int.natCast_add]; omega
            · intro hr; have := g6 hr; simp only [List.length_append, Int.natCast_add]; omega
            · rw [c1]; exact r3
            · intro he; exact (r5 (c2 he)).1
            · intro hr he; exact ⟨hs0, (c3 hr he).2⟩
            · intro hr _
              rcases c4 hr hsz with h | h
              · right; rw [h]; omega
              · right; exact h
        · have hs0 : y.size = 0 := by simpa using h3
          simp only [h3, Bool.false_eq_true, if_false] at h
          have := ih _ b h
          obtain ⟨⟨g, g1, g2, g3, g4, g5, g6⟩, c1, c2, c3, c4⟩ := this
          simp only at g1 g2 g3 g4 g5 g6 c1 c2 c3 c4
          refine ⟨⟨(y.s.rawRead (min y.mx 16000).toNat).1 ++ g, ?_, ?_, ?_, fun _ => g4 hs0, fun h => absurd hs0 h, ?_⟩, ?_, ?_, ?_, fun _ h => absurd hs0 h⟩
          · rw [List.append_assoc, ← g1]; exact r1
          · rw [g2, List.append_assoc]
          · simp only [List.length_append, Int.natCast_add]; omega
          · intro hr; have := g6 hr; simp only [List.length_append, Int.natCast_add]; omega
          · rw [c1]; exact r3
          · intro he; exact (r5 (c2 he)).1
          · intro hr he; exact absurd hs0 (c3 hr he).1


theorem healthy_of_available {s : Sock} (h : ¬ s.available < 0) : Healthy s := available_nonneg h

theorem available_of_healthy {s : Sock} (h : Healthy s) : s.available = (s.inp.length : Int) := by
  unfold Sock.available; simp [h.1, h.2]

/-- Content-Length framing: if the body loop ends on a healthy socket, what it appended to the body is exactly
    what it took off the stream, and with a positive announced length it is exactly that many bytes -/
theorem iterate_body_plain_inv : ∀ (fuel : Nat) (x : BodySt) (r : Sock × Bytes),
    iterate (bodyStep false) fuel x = .ok r → Healthy r.1 →
    ∃ g, x.s.inp = g ++ r.1.inp ∧ r.2 = x.body ++ g ∧ (0 < x.size → (g.length : Int) = x.size) ∧
      (x.size = 0 → False) := by
  intro fuel
  induction fuel with
  | zero => intro x r h; simp [iterate, throw, throwThe, MonadExceptOf.throw] at h
  | succ fuel ih =>
    intro x r h hr
    simp only [iterate] at h
    unfold bodyStep at h
    simp only [] at h
    by_cases hav : x.s.available < 0
    · simp only [hav, if_true, pure, Except.pure, Except.ok.injEq] at h
      subst h
      have : ¬ x.s.available < 0 := by rw [available_of_healthy hr]; omega
      exact absurd hav this
    · simp only [hav, if_false, Bool.false_eq_true] at h
      have hx := healthy_of_available hav
      have hav' := available_of_healthy hx
      -- the block size asked for
      generalize hmx : (if (decide (x.size > 0) && decide ((if x.s.available ≤ 0 then (1 : Int) else x.s.available) > x.size)) = true
          then x.size else (if x.s.available ≤ 0 then (1 : Int) else x.s.available)) = mx at h
      have hmx1 : mx ≥ 1 ∧ (0 < x.size → mx ≤ x.size) := by
        rw [← hmx]
        by_cases ha : x.s.available ≤ 0
        · simp only [ha, if_true]
          split
          · rename_i hh; simp only [Bool.and_eq_true, decide_eq_true_eq] at hh; omega
          · rename_i hh; simp only [Bool.and_eq_true, decide_eq_true_eq, not_and] at hh
            refine ⟨by omega, fun hp => ?_⟩
            have := hh hp; omega
        · simp only [ha, if_false]
          split
          · rename_i hh; simp only [Bool.and_eq_true, decide_eq_true_eq] at hh; omega
          · rename_i hh; simp only [Bool.and_eq_true, decide_eq_true_eq, not_and] at hh
            refine ⟨by omega, fun hp => ?_⟩
            have := hh hp; omega
      cases hb : readBlocks x.s mx x.size x.body with
      | error e => rw [hb] at h; simp [bind, Except.bind] at h
      | ok b =>
        rw [hb] at h
        simp only [bind, Except.bind] at h
        unfold readBlocks at hb
        obtain ⟨⟨g, g1, g2, g3, g4, g5, g6⟩, c1, c2, c3, c4⟩ := iterate_blocks_inv _ _ _ hb
        simp only at g1 g2 g3 g4 g5 g6 c1 c2 c3 c4
        by_cases hret : b.ret = true
        · simp only [hret, if_true, pure, Except.pure, Except.ok.injEq] at h
          subst h
          obtain ⟨hs0, hle⟩ := c3 hret hr.1
          refine ⟨g, g1, g2, ?_, fun h0 => hs0 h0⟩
          intro hp
          have := g5 hs0
          have := hmx1.2 hp
          omega
        · have hret' : b.ret = false := by simpa using hret
          simp only [hret', Bool.false_eq_true, if_false] at h
          obtain ⟨g', e1, e2, e3, e4⟩ := ih _ r h hr
          simp only at e1 e2 e3 e4
          have hgl := g6 hret'
          have hs0 : x.size ≠ 0 := by
            intro h0
            exact e4 (g4 h0)
          refine ⟨g ++ g', by rw [List.append_assoc, ← e1]; exact g1, by rw [e2, g2, List.append_assoc], ?_, fun h0 => hs0 h0⟩
          intro hp
          have hb5 := g5 hs0
          have hle := hmx1.2 hp
          rcases c4 hret' hs0 with h | h
          · -- nothing was read: impossible, a positive block size was asked for
            omega
          · have := e3 h
            simp only [List.length_append, Int.natCast_add]
            omega


/-- a complete chunked body at the head of a stream (RFC 7230 4.1): chunks — a valid size line (`chunkLineOk`:
    1 to 8 hex digits, optional blanks, `;extension` or the line end), LF, exactly as many data bytes as the size
    line says, CR LF — then a valid size line that says 0, LF, CR LF; `data` is the concatenation of the chunk data -/
inductive ChunkedWire : Bytes → Bytes → Bytes → Prop
  | last (szl rest : Bytes) : (∀ c ∈ szl, c ≠ 10) → chunkLineOk szl = true → hexToInt szl = 0 →
      ChunkedWire (szl ++ 10 :: (13 :: 10 :: rest)) [] rest
  | chunk (szl data tail body rest : Bytes) : (∀ c ∈ szl, c ≠ 10) → chunkLineOk szl = true → hexToInt szl ≠ 0 →
      (data.length : Int) = hexToInt szl → ChunkedWire tail body rest →
      ChunkedWire (szl ++ 10 :: (data ++ (13 :: 10 :: tail))) (data ++ body) rest

/-- on a socket in error or closed the body loop leaves at once -/
theorem iterate_body_unhealthy (ch : Bool) (fuel : Nat) (x : BodySt) (r : Sock × Bytes)
    (hu : ¬ Healthy x.s) (h : iterate (bodyStep ch) fuel x = .ok r) : r.1 = x.s := by
  cases fuel with
  | zero => simp [iterate, throw, throwThe, MonadExceptOf.throw] at h
  | succ f =>
    simp only [iterate] at h
    unfold bodyStep at h
    simp only [] at h
    have hneg : x.s.available < 0 := by
      unfold Sock.available
      by_cases hc : (x.s.err != 0 || x.s.closed) = true
      · simp [hc]
      · exfalso
        simp only [Bool.or_eq_true, bne_iff_ne, ne_eq, not_or, Decidable.not_not, Bool.not_eq_true] at hc
        exact hu hc
    simp only [hneg, if_true, pure, Except.pure, Except.ok.injEq] at h
    rw [← h]

/-- one chunked pass, inverted: what a pass that ends / continues on a healthy socket has consumed -/
theorem bodyStep_chunked_inv (x : BodySt) (st : Step BodySt (Sock × Bytes)) (h : bodyStep true x = .ok st)
    (hs0 : x.size = 0) :
    (∃ r, st = .done r ∧ (Healthy r.1 → r.2 = x.body ∧ ∃ szl, x.s.inp = szl ++ 10 :: (13 :: 10 :: r.1.inp) ∧
        (∀ c ∈ szl, c ≠ 10) ∧ chunkLineOk szl = true ∧ hexToInt szl = 0)) ∨
    (∃ y, st = .next y ∧ y.size = 0 ∧ (Healthy y.s → ∃ szl data, x.s.inp = szl ++ 10 :: (data ++ (13 :: 10 :: y.s.inp)) ∧
        y.body = x.body ++ data ∧ (∀ c ∈ szl, c ≠ 10) ∧ chunkLineOk szl = true ∧ hexToInt szl ≠ 0 ∧
        (data.length : Int) = hexToInt szl)) := by
  unfold bodyStep at h
  simp only [] at h
  by_cases hav : x.s.available < 0
  · simp only [hav, if_true, pure, Except.pure, Except.ok.injEq] at h
    subst h
    left
    refine ⟨_, rfl, fun hr => ?_⟩
    have : ¬ x.s.available < 0 := by rw [available_of_healthy hr]; omega
    exact absurd hav this
  · simp only [hav, if_false, if_true] at h
    have hx := healthy_of_available hav
    by_cases hok : (!chunkLineOk x.s.readLine.1) = true
    · simp only [hok, if_true, pure, Except.pure, Except.ok.injEq] at h
      subst h
      left
      exact ⟨_, rfl, fun hr => by simp [Healthy] at hr⟩
    · simp only [hok, Bool.false_eq_true, if_false] at h
      have hok' : chunkLineOk x.s.readLine.1 = true := by simpa using hok
      -- a valid size line: its value is not negative
      have hnn : 0 ≤ hexToInt x.s.readLine.1 := by
        unfold chunkLineOk at hok'
        simp only [Bool.and_eq_true, decide_eq_true_eq] at hok'
        have hle := hok'.2
        unfold hexToInt wrap
        have e1 : (2 : Int) ^ (32 - 1) = 2147483648 := by decide
        have e2 : (2 : Int) ^ 32 = 4294967296 := by decide
        have e3 : (2 : Nat) ^ 32 = 4294967296 := by decide
        rw [e1, e2, e3]
        rw [e3] at hle
        omega
      cases hb : readBlocks x.s.readLine.2 (hexToInt x.s.readLine.1) x.size x.body with
      | error e => rw [hb] at h; simp [bind, Except.bind] at h
      | ok b =>
        rw [hb] at h
        simp only [bind, Except.bind] at h
        unfold readBlocks at hb
        obtain ⟨⟨g, g1, g2, g3, g4, g5, g6⟩, c1, c2, c3, c4⟩ := iterate_blocks_inv _ _ _ hb
        simp only at g1 g2 g3 g4 g5 g6 c1 c2 c3 c4
        obtain ⟨q1, q2, q3, q4, q5⟩ := rawRead_inv b.s 2
        by_cases hret : b.ret = true
        · simp only [hret, if_true, pure, Except.pure, Except.ok.injEq] at h
          subst h
          left
          exact ⟨_, rfl, fun hr => absurd hs0 (c3 hret hr.1).1⟩
        · have hret' : b.ret = false := by simpa using hret
          simp only [hret', Bool.false_eq_true, if_false] at h
          have hgl : (g.length : Int) = hexToInt x.s.readLine.1 := by
            have := g6 hret'; omega
          by_cases hshort : (b.s.rawRead 2).1.length < 2
          · simp only [hshort, if_true, pure, Except.pure, Except.ok.injEq] at h
            subst h
            left
            refine ⟨_, rfl, fun hr => ?_⟩
            have := (q5 hr.1).2.1
            omega
          · simp only [hshort, if_false] at h
            by_cases hcr : ((b.s.rawRead 2).1 != [13, 10]) = true
            · simp only [hcr, if_true, pure, Except.pure, Except.ok.injEq] at h
              subst h
              left
              exact ⟨_, rfl, fun hr => by simp [Healthy] at hr⟩
            · simp only [hcr, Bool.false_eq_true, if_false] at h
              have hcr' : (b.s.rawRead 2).1 = [13, 10] := by simpa using hcr
              by_cases hz : (hexToInt x.s.readLine.1 == 0) = true
              · simp only [hz, if_true, pure, Except.pure, Except.ok.injEq] at h
                subst h
                left
                refine ⟨_, rfl, fun hr => ?_⟩
                have hz' : hexToInt x.s.readLine.1 = 0 := by simpa using hz
                have hbe : b.s.err = 0 := (q5 hr.1).1
                obtain ⟨l1, l2, _, _⟩ := readLine_inv x.s hx (c2 hbe)
                have hg0 : g = [] := by
                  have : (g.length : Int) = 0 := by rw [hgl, hz']
                  exact List.eq_nil_of_length_eq_zero (by omega)
                refine ⟨by rw [g2, hg0, List.append_nil], x.s.readLine.1, ?_, l2, hok', hz'⟩
                have e : b.s.inp = 13 :: 10 :: (b.s.rawRead 2).2.inp := by rw [q1, hcr']; rfl
                have : x.s.readLine.2.inp = b.s.inp := by rw [g1, hg0, List.nil_append]
                rw [← e, ← this]; exact l1
              · have hz' : hexToInt x.s.readLine.1 ≠ 0 := by simpa using hz
                simp only [hz, Bool.false_eq_true, if_false, pure, Except.pure, Except.ok.injEq] at h
                subst h
                right
                refine ⟨_, rfl, g4 hs0, fun hy => ?_⟩
                have hbe : b.s.err = 0 := (q5 hy.1).1
                obtain ⟨l1, l2, _, _⟩ := readLine_inv x.s hx (c2 hbe)
                refine ⟨x.s.readLine.1, g, ?_, g2, l2, hok', hz', hgl⟩
                have e : b.s.inp = 13 :: 10 :: (b.s.rawRead 2).2.inp := by rw [q1, hcr']; rfl
                rw [← e, ← g1]; exact l1

theorem iterate_body_chunked_inv : ∀ (fuel : Nat) (x : BodySt) (r : Sock × Bytes),
    iterate (bodyStep true) fuel x = .ok r → Healthy r.1 → x.size = 0 →
    ∃ d, r.2 = x.body ++ d ∧ ChunkedWire x.s.inp d r.1.inp := by
  intro fuel
  induction fuel with
  | zero => intro x r h; simp [iterate, throw, throwThe, MonadExceptOf.throw] at h
  | succ fuel ih =>
    intro x r h hr hs0
    simp only [iterate] at h
    cases hstep : bodyStep true x with
    | error e => rw [hstep] at h; simp at h
    | ok st =>
      rw [hstep] at h
      rcases bodyStep_chunked_inv x st hstep hs0 with ⟨r', rfl, hdone⟩ | ⟨y, rfl, hy0, hnext⟩
      · simp only [pure, Except.pure, Except.ok.injEq] at h
        subst h
        obtain ⟨hb, szl, e1, e2, e3, e4⟩ := hdone hr
        refine ⟨[], by rw [hb, List.append_nil], ?_⟩
        rw [e1]
        exact ChunkedWire.last _ _ e2 e3 e4
      · simp only [] at h
        have hyh : Healthy y.s := by
          by_cases hh : Healthy y.s
          · exact hh
          · have := iterate_body_unhealthy true fuel y r hh h
            rw [this] at hr
            exact absurd hr hh
        obtain ⟨szl, data, e1, e2, e3, e4, e5, e6⟩ := hnext hyh
        obtain ⟨d, f1, f2⟩ := ih y r h hr hy0
        refine ⟨data ++ d, by rw [f1, e2, List.append_assoc], ?_⟩
        rw [e1]
        exact ChunkedWire.chunk _ _ _ _ _ e3 e4 e5 e6 f2


/-! ## `readBody`, `read`, one pass of `serve` -/

/-! ### Content-Length values -/

/-- the number written by a string of decimal digits (no wrap-around, unbounded) -/
def decFold : Bytes → Nat → Nat
  | [], acc => acc
  | c :: t, acc => decFold t (acc * 10 + (c.toNat - 48))

/-- `some n` for a non-empty string of decimal digits writing `n`, `none` for anything else -/
def decimalValue (v : Bytes) : Option Nat :=
  if v.length ≥ 1 ∧ v.all (fun c => decide (48 ≤ c) && decide (c ≤ 57)) = true then some (decFold v 0) else none

theorem decFold_ge (v : Bytes) : ∀ acc, acc ≤ decFold v acc := by
  induction v with
  | nil => intro acc; exact Nat.le_refl _
  | cons c t ih => intro acc; have := ih (acc * 10 + (c.toNat - 48)); simp only [decFold]; omega

theorem decFold_lt (v : Bytes) (hd : v.all (fun c => decide (48 ≤ c) && decide (c ≤ 57)) = true) :
    ∀ acc, decFold v acc < (acc + 1) * 10 ^ v.length := by
  induction v with
  | nil => intro acc; simp [decFold]
  | cons c t ih =>
    intro acc
    simp only [List.all_cons, Bool.and_eq_true, decide_eq_true_eq] at hd
    have hc : c.toNat - 48 ≤ 9 := by
      have h2 : c.toNat ≤ 57 := by
        have := hd.1.2
        exact UInt8.le_iff_toNat_le.mp this
      omega
    have := ih (by simpa using hd.2) (acc * 10 + (c.toNat - 48))
    simp only [decFold, List.length_cons, Nat.pow_succ]
    calc decFold t (acc * 10 + (c.toNat - 48)) < (acc * 10 + (c.toNat - 48) + 1) * 10 ^ t.length := this
      _ ≤ ((acc + 1) * 10) * 10 ^ t.length := Nat.mul_le_mul_right _ (by omega)
      _ = (acc + 1) * (10 ^ t.length * 10) := by rw [Nat.mul_assoc, Nat.mul_comm 10]

/-- on decimal digits `myatoi`'s loop computes the number written, as long as that number fits -/
theorem atoiDigits_dec (bits : Nat) (hb : 1 ≤ bits) (v : Bytes)
    (hd : v.all (fun c => decide (48 ≤ c) && decide (c ≤ 57)) = true) :
    ∀ acc : Nat, decFold v acc < 2 ^ (bits - 1) → atoiDigits bits v (acc : Int) = (decFold v acc : Int) := by
  induction v with
  | nil => intro acc _; rfl
  | cons c t ih =>
    intro acc hlt
    simp only [List.all_cons, Bool.and_eq_true, decide_eq_true_eq] at hd
    have hdig : 48 ≤ c ∧ c ≤ 57 := hd.1
    simp only [atoiDigits, hdig, and_self, if_true, decFold] at hlt ⊢
    have hge := decFold_ge t (acc * 10 + (c.toNat - 48))
    have hsmall : acc * 10 + (c.toNat - 48) < 2 ^ (bits - 1) := by omega
    have hw : wrap bits (10 * (acc : Int) + ((c.toNat - 48 : Nat) : Int)) = ((acc * 10 + (c.toNat - 48) : Nat) : Int) := by
      unfold wrap
      have hp : (2 : Int) ^ bits = 2 * 2 ^ (bits - 1) := by
        have : bits = (bits - 1) + 1 := by omega
        conv => lhs; rw [this, Int.pow_succ]
        omega
      have hpos : (0 : Int) < 2 ^ (bits - 1) := Int.pow_pos (by decide)
      have hcast : ((2 : Int) ^ (bits - 1)) = ((2 ^ (bits - 1) : Nat) : Int) := by simp
      rw [hp]
      have hx : (0 : Int) ≤ 10 * (acc : Int) + ((c.toNat - 48 : Nat) : Int) := by omega
      have hx2 : 10 * (acc : Int) + ((c.toNat - 48 : Nat) : Int) < 2 ^ (bits - 1) := by rw [hcast]; omega
      rw [Int.emod_eq_of_lt (by omega) (by omega)]
      omega
    rw [hw]
    exact ih (by simpa using hd.2) _ hlt

theorem digits_no_nul (v : Bytes) (hd : v.all (fun c => decide (48 ≤ c) && decide (c ≤ 57)) = true) : cstr v = v := by
  apply cstr_of_no_nul
  intro c hc h0
  have := (List.all_eq_true.mp hd) c hc
  rw [h0] at this
  exact absurd this (by decide)

/-- what the reader's Content-Length check guarantees: the value is a decimal number below 2^31, and both of the
    code's conversions (`(int)`, `(Long)`) read exactly that number -/
theorem validLength_spec (v : Bytes) (h : validLength v = true) :
    ∃ n, decimalValue v = some n ∧ n < 2 ^ 31 ∧ myatoi 32 (cstr v) = (n : Int) := by
  unfold validLength at h
  simp only [Bool.and_eq_true, decide_eq_true_eq] at h
  obtain ⟨⟨⟨h1, h10⟩, hd⟩, h64⟩ := h
  have hc := digits_no_nul v hd
  rw [hc] at h64
  -- myatoi on a digit string is the digit loop
  have hhead : ∀ bits, myatoi bits v = atoiDigits bits v 0 := by
    intro bits
    cases v with
    | nil => simp at h1
    | cons a t =>
      have ha := (List.all_eq_true.mp hd) a (by simp)
      simp only [Bool.and_eq_true, decide_eq_true_eq] at ha
      unfold myatoi
      split
      · rename_i heq; simp only [List.cons.injEq] at heq; rw [heq.1] at ha; exact absurd ha.1 (by decide)
      · rename_i heq; simp only [List.cons.injEq] at heq; rw [heq.1] at ha; exact absurd ha.1 (by decide)
      · rfl
  have hbound : decFold v 0 < 2 ^ 63 := by
    have := decFold_lt v hd 0
    have hp : 10 ^ v.length ≤ 10 ^ 10 := Nat.pow_le_pow_right (by decide) h10
    have : (10 : Nat) ^ 10 < 2 ^ 63 := by decide
    omega
  have h64' := atoiDigits_dec 64 (by decide) v hd 0 (by simpa using hbound)
  rw [hhead 64] at h64
  simp only [Int.natCast_zero] at h64'
  rw [h64'] at h64
  have hn : decFold v 0 < 2 ^ 31 := by
    have : (2 : Nat) ^ 31 = 2147483648 := by decide
    omega
  refine ⟨decFold v 0, ?_, hn, ?_⟩
  · unfold decimalValue; simp [h1, hd]
  · rw [hc, hhead 32]
    have := atoiDigits_dec 32 (by decide) v hd 0 (by simpa using hn)
    simpa using this

/-- a complete body on the wire, as the header dictionary frames it: the chunk sequence for
    `Transfer-Encoding: chunked` (whatever Content-Length says); else, with Content-Length, exactly the decimal
    number of bytes written there; else nothing -/
def BodyFramed (h : Dic) (wire body rest : Bytes) : Prop :=
  if isChunked (header h sTransferEncoding) = true then ChunkedWire wire body rest
  else if hasHeader h sContentLength = true then
    ∃ n, decimalValue (header h sContentLength) = some n ∧ n < 2 ^ 31 ∧ body.length = n ∧ wire = body ++ rest
  else body = [] ∧ wire = rest

theorem readBody_inv (s : Sock) (h : Dic) (r : Sock × Bytes) (hr : readBody s h = .ok r) (hh : Healthy r.1) :
    BodyFramed h s.inp r.2 r.1.inp ∧ Healthy s ∧
    (hasHeader h sContentLength = true → validLength (header h sContentLength) = true) := by
  unfold readBody at hr
  simp only [] at hr
  by_cases h0 : (hasHeader h sContentLength && !validLength (header h sContentLength)) = true
  · simp only [h0, if_true, pure, Except.pure, Except.ok.injEq] at hr
    subst hr
    simp [Healthy] at hh
  · simp only [h0, Bool.false_eq_true, if_false] at hr
    have hvalid : hasHeader h sContentLength = true → validLength (header h sContentLength) = true := by
      intro hc
      simp only [hc, Bool.true_and, Bool.not_eq_true', Bool.not_eq_false] at h0
      exact h0
    have hsock : ∀ ch fuel x, iterate (bodyStep ch) fuel x = .ok r → Healthy x.s := by
      intro ch fuel x hit
      by_cases hs : Healthy x.s
      · exact hs
      · have := iterate_body_unhealthy ch fuel x r hs hit
        rw [this] at hh
        exact absurd hh hs
    have key : BodyFramed h s.inp r.2 r.1.inp ∧ Healthy s := by
      unfold BodyFramed
      by_cases hc : isChunked (header h sTransferEncoding) = true
      · simp only [hc, if_true] at hr ⊢
        obtain ⟨d, e1, e2⟩ := iterate_body_chunked_inv _ _ r hr hh rfl
        simp only [List.nil_append] at e1 e2
        refine ⟨?_, hsock _ _ _ hr⟩
        rw [e1]; exact e2
      · simp only [hc, Bool.false_eq_true, if_false] at hr ⊢
        by_cases hcl : hasHeader h sContentLength = true
        · simp only [hcl, if_true] at hr ⊢
          obtain ⟨n, hn1, hn2, hn3⟩ := validLength_spec _ (hvalid hcl)
          by_cases hz : (myatoi 32 (cstr (header h sContentLength)) == 0) = true
          · simp only [hz, if_true, pure, Except.pure, Except.ok.injEq] at hr
            subst hr
            have hz' : myatoi 32 (cstr (header h sContentLength)) = 0 := by simpa using hz
            rw [hz'] at hn3
            have : n = 0 := by omega
            subst this
            exact ⟨⟨0, hn1, hn2, rfl, rfl⟩, hh⟩
          · simp only [hz, Bool.false_eq_true, if_false] at hr
            obtain ⟨g, e1, e2, e3, e4⟩ := iterate_body_plain_inv _ _ r hr hh
            simp only [List.nil_append] at e1 e2 e3 e4
            have hnpos : 0 < n := by
              rcases Nat.eq_zero_or_pos n with h0n | hp
              · exfalso; apply e4; rw [hn3, h0n]; rfl
              · exact hp
            have hlen := e3 (by rw [hn3]; omega)
            refine ⟨⟨n, hn1, hn2, ?_, ?_⟩, hsock _ _ _ hr⟩
            · rw [e2]; rw [hn3] at hlen; omega
            · rw [e2]; exact e1
        · simp only [hcl, Bool.false_eq_true, if_false, pure, Except.pure, Except.ok.injEq] at hr ⊢
          subst hr
          exact ⟨⟨rfl, rfl⟩, hh⟩
    exact ⟨key.1, key.2, hvalid⟩

theorem expectContinue_healthy (s : Sock) (h : Dic) (hh : Healthy (expectContinue s h)) : Healthy s := by
  have hw : ∀ b : Bytes, Healthy (s.write b) → Healthy s := by
    intro b hb
    unfold Sock.write at hb
    by_cases h1 : b.isEmpty = true
    · simpa [h1] using hb
    · by_cases h2 : s.closed = true
      · simp [h1, h2, Healthy] at hb
      · simp only [h1, h2, Bool.false_eq_true, if_false] at hb
        exact ⟨hb.1, by simpa using h2⟩
  unfold expectContinue at hh
  split at hh
  · split at hh <;> exact hw _ hh
  · exact hh

/-- **the core of the dispatch clause**: if `HttpRequest::read` on a healthy connection returns a request with a
    method and leaves the connection healthy (the only case in which `HttpServer::serve` hands it to the
    application), then the unread stream began with a complete framed request — a full request line with its LF,
    which splits into exactly the method, target and protocol handed over; a complete header block up to the empty
    line; and the complete body that the handed-over headers announce, which is the body handed over — and what is
    left unread is what follows that request -/
theorem read_complete (s : Sock) (r : Req) (s' : Sock) (hs : Healthy s)
    (h : AslModel.HttpParse.read s = .ok (r, s')) (hd : Healthy s') (hm : r.method ≠ []) :
    ∃ line tail wire, s.inp = line ++ 10 :: tail ∧ (∀ c ∈ line, c ≠ 10) ∧
      parseRequestLine line = .ok (some ⟨r.method, r.res, r.proto⟩) ∧
      HeaderBlockD tail wire ([], [], []) r.headers ∧ BodyFramed r.headers wire r.body s'.inp := by
  unfold AslModel.HttpParse.read at h
  simp only [] at h
  split at h
  · simp only [pure, Except.pure, Except.ok.injEq, Prod.mk.injEq] at h
    rw [← h.1] at hm
    exact absurd rfl hm
  · rename_i hcond
    have hle : (s.readLine).2.err = 0 := by
      simp only [Bool.or_eq_true, bne_iff_ne, ne_eq, not_or, Decidable.not_not] at hcond
      exact hcond.1
    obtain ⟨l1, l2, l3, _⟩ := readLine_inv s hs hle
    cases hrl : parseRequestLine s.readLine.1 with
    | error e => rw [hrl] at h; simp [bind, Except.bind] at h
    | ok rl? =>
      rw [hrl] at h
      simp only [bind, Except.bind] at h
      cases rl? with
      | none =>
        simp only [pure, Except.pure, Except.ok.injEq, Prod.mk.injEq] at h
        rw [← h.1] at hm
        exact absurd rfl hm
      | some rl =>
        simp only [] at h
        cases hhs : readHeaders s.readLine.2 with
        | error e => rw [hhs] at h; simp at h
        | ok hs' =>
          rw [hhs] at h
          simp only [] at h
          by_cases hte : (hasHeader hs'.2 sTransferEncoding && !isChunked (header hs'.2 sTransferEncoding)) = true
          · simp only [hte, if_true, pure, Except.pure, Except.ok.injEq, Prod.mk.injEq] at h
            obtain ⟨_, hsock⟩ := h
            rw [← hsock] at hd
            simp [Healthy] at hd
          simp only [hte, Bool.false_eq_true, if_false] at h
          cases hb : readBody (expectContinue hs'.1 hs'.2) hs'.2 with
          | error e => rw [hb] at h; simp at h
          | ok b =>
            rw [hb] at h
            simp only [] at h
            cases ht : parseTarget rl.res with
            | error e => rw [ht] at h; simp at h
            | ok t =>
              rw [ht] at h
              simp only [pure, Except.pure, Except.ok.injEq, Prod.mk.injEq] at h
              obtain ⟨hreq, hsock⟩ := h
              subst hsock
              obtain ⟨hbf, hE, _⟩ := readBody_inv _ _ b hb hd
              have hH := expectContinue_healthy _ _ hE
              rw [expectContinue_inp] at hbf
              unfold readHeaders at hhs
              have hblk := iterate_headers_inv _ _ hs' ⟨hle, l3⟩ hhs hH
              simp only at hblk
              refine ⟨s.readLine.1, s.readLine.2.inp, hs'.1.inp, l1, l2, ?_, ?_, ?_⟩
              · rw [hrl, ← hreq]
              · rw [← hreq]; exact hblk
              · rw [← hreq]; exact hbf

/-- a request that comes out of `read` on a connection left healthy either has no Transfer-Encoding or its last
    coding is chunked (anything else closes the connection) -/
theorem read_transfer_encoding (s : Sock) (r : Req) (s' : Sock)
    (h : AslModel.HttpParse.read s = .ok (r, s')) (hd : Healthy s') (hm : r.method ≠ []) :
    hasHeader r.headers sTransferEncoding = false ∨ isChunked (header r.headers sTransferEncoding) = true := by
  unfold AslModel.HttpParse.read at h
  simp only [] at h
  split at h
  · simp only [pure, Except.pure, Except.ok.injEq, Prod.mk.injEq] at h
    rw [← h.1] at hm; exact absurd rfl hm
  · cases hrl : parseRequestLine s.readLine.1 with
    | error e => rw [hrl] at h; simp [bind, Except.bind] at h
    | ok rl? =>
      rw [hrl] at h
      simp only [bind, Except.bind] at h
      cases rl? with
      | none =>
        simp only [pure, Except.pure, Except.ok.injEq, Prod.mk.injEq] at h
        rw [← h.1] at hm; exact absurd rfl hm
      | some rl =>
        simp only [] at h
        cases hhs : readHeaders s.readLine.2 with
        | error e => rw [hhs] at h; simp at h
        | ok hs' =>
          rw [hhs] at h
          simp only [] at h
          by_cases hte : (hasHeader hs'.2 sTransferEncoding && !isChunked (header hs'.2 sTransferEncoding)) = true
          · simp only [hte, if_true, pure, Except.pure, Except.ok.injEq, Prod.mk.injEq] at h
            obtain ⟨_, hsock⟩ := h
            rw [← hsock] at hd
            simp [Healthy] at hd
          simp only [hte, Bool.false_eq_true, if_false] at h
          cases hb : readBody (expectContinue hs'.1 hs'.2) hs'.2 with
          | error e => rw [hb] at h; simp at h
          | ok b =>
            rw [hb] at h
            simp only [] at h
            cases ht : parseTarget rl.res with
            | error e => rw [ht] at h; simp at h
            | ok t =>
              rw [ht] at h
              simp only [pure, Except.pure, Except.ok.injEq, Prod.mk.injEq] at h
              obtain ⟨hreq, _⟩ := h
              rw [← hreq]
              simp only []
              cases hh : hasHeader hs'.2 sTransferEncoding with
              | false => exact Or.inl rfl
              | true =>
                right
                simp only [hh, Bool.true_and, Bool.not_eq_true', Bool.not_eq_false] at hte
                exact hte

/-- one pass of the `serve` loop hands a request to the application only if `read` returned it, with a method, on
    a connection that was healthy before and after -/
theorem serveStep_dispatch_inv (x : SrvSt) (st : Step SrvSt (Sock × List Req)) (h : serveStep x = .ok st) :
    (match st with | .done r => r.2.reverse | .next y => y.acc) = x.acc ∨
    ∃ q s', (match st with | .done r => r.2.reverse | .next y => y.acc) = q :: x.acc ∧ Healthy x.s ∧
      AslModel.HttpParse.read x.s = .ok (q, s') ∧ Healthy s' ∧ q.method ≠ [] := by
  unfold serveStep at h
  by_cases h0 : (x.s.closed || x.s.err != 0 || x.s.inp.isEmpty) = true
  · simp only [h0, if_true, pure, Except.pure, Except.ok.injEq] at h
    subst h
    left; simp
  · simp only [h0, Bool.false_eq_true, if_false] at h
    have hx : Healthy x.s := by
      simp only [Bool.or_eq_true, bne_iff_ne, ne_eq, List.isEmpty_iff, not_or, Decidable.not_not, Bool.not_eq_true] at h0
      exact ⟨h0.1.2, h0.1.1⟩
    cases hrd : AslModel.HttpParse.read x.s with
    | error e => rw [hrd] at h; simp [bind, Except.bind] at h
    | ok rs =>
      rw [hrd] at h
      simp only [bind, Except.bind] at h
      by_cases hdrop : (rs.2.err != 0 || rs.2.closed || rs.1.method.length == 0 || rs.1.path.length == 0 || rs.1.proto.length == 0) = true
      · simp only [hdrop, if_true, pure, Except.pure, Except.ok.injEq] at h
        subst h
        left; simp
      · simp only [hdrop, Bool.false_eq_true, if_false] at h
        have hok : Healthy rs.2 ∧ rs.1.method ≠ [] := by
          simp only [Bool.or_eq_true, bne_iff_ne, ne_eq, beq_iff_eq, List.length_eq_zero_iff, not_or, Decidable.not_not,
            Bool.not_eq_true] at hdrop
          exact ⟨⟨hdrop.1.1.1.1, hdrop.1.1.1.2⟩, hdrop.1.1.2⟩
        by_cases hopt : (cstr rs.1.method == sOptions) = true
        · simp only [hopt, if_true] at h
          left
          split at h <;> (simp only [pure, Except.pure, Except.ok.injEq] at h; subst h; simp)
        · simp only [hopt, Bool.false_eq_true, if_false] at h
          right
          refine ⟨rs.1, rs.2, ?_, hx, rfl, hok.1, hok.2⟩
          split at h <;> (simp only [pure, Except.pure, Except.ok.injEq] at h; subst h; simp)


/-! ## the whole connection: every dispatched request is a complete framed segment of the stream -/

theorem readLineLoop_suffix (inp : Bytes) : ∀ (acc : Bytes) (n : Nat), ∃ w, inp = w ++ (readLineLoop inp acc n).2.1 := by
  induction inp with
  | nil => intro acc n; exact ⟨[], by simp [readLineLoop]⟩
  | cons c t ih =>
    intro acc n
    unfold readLineLoop
    by_cases h1 : (c == 10) = true
    · simp only [h1, if_true]; exact ⟨[c], rfl⟩
    · simp only [h1, Bool.false_eq_true, if_false]
      by_cases h2 : n > 16000
      · simp only [h2, if_true]; exact ⟨[c], rfl⟩
      · simp only [h2, if_false]
        obtain ⟨w, hw⟩ := ih (c :: acc) (n + 1)
        exact ⟨c :: w, by rw [List.cons_append, ← hw]⟩

theorem readLine_suffix (s : Sock) : ∃ w, s.inp = w ++ (s.readLine).2.inp := by
  unfold Sock.readLine Sock.available Sock.waitInput Sock.readLineBody
  by_cases hc : s.closed = true
  · simp only [hc, Bool.or_true, if_true]
    exact ⟨[], by simp⟩
  · have hc' : s.closed = false := by simpa using hc
    by_cases he : (s.err != 0) = true
    · cases hi : s.inp with
      | nil => simp only [hc', he, hi, Bool.or_false, if_true]; exact ⟨[], by simp⟩
      | cons c t => simp only [hc', he, hi, Bool.or_false, if_true]; exact ⟨[c], by simp⟩
    · have he' : (s.err != 0) = false := by simpa using he
      obtain ⟨w, hw⟩ := readLineLoop_suffix s.inp [] 0
      simp only [hc', he', Bool.or_self, Bool.false_eq_true, if_false]
      split <;> exact ⟨w, hw⟩

theorem bodyStep_suffix (ch : Bool) (x : BodySt) (st : Step BodySt (Sock × Bytes)) (h : bodyStep ch x = .ok st) :
    ∃ w, x.s.inp = w ++ (match st with | .done r => r.1.inp | .next y => y.s.inp) := by
  unfold bodyStep at h
  simp only [] at h
  by_cases hav : x.s.available < 0
  · simp only [hav, if_true, pure, Except.pure, Except.ok.injEq] at h
    subst h; exact ⟨[], by simp⟩
  · simp only [hav, if_false] at h
    cases ch with
    | true =>
      simp only [if_true] at h
      obtain ⟨w1, hw1⟩ := readLine_suffix x.s
      split at h
      · simp only [pure, Except.pure, Except.ok.injEq] at h; subst h; exact ⟨w1, hw1⟩
      · cases hb : readBlocks x.s.readLine.2 (hexToInt x.s.readLine.1) x.size x.body with
        | error e => rw [hb] at h; simp [bind, Except.bind] at h
        | ok b =>
          rw [hb] at h
          simp only [bind, Except.bind] at h
          unfold readBlocks at hb
          obtain ⟨⟨g, g1, _⟩, _⟩ := iterate_blocks_inv _ _ _ hb
          simp only at g1
          obtain ⟨q1, _⟩ := rawRead_inv b.s 2
          have e1 : x.s.inp = (w1 ++ g) ++ b.s.inp := by rw [List.append_assoc, ← g1]; exact hw1
          have e2 : x.s.inp = (w1 ++ g ++ (b.s.rawRead 2).1) ++ (b.s.rawRead 2).2.inp := by
            rw [List.append_assoc, ← q1]; exact e1
          split at h
          · simp only [pure, Except.pure, Except.ok.injEq] at h; subst h; exact ⟨_, e1⟩
          · split at h
            · simp only [pure, Except.pure, Except.ok.injEq] at h; subst h; exact ⟨_, e2⟩
            · split at h
              · simp only [pure, Except.pure, Except.ok.injEq] at h; subst h; exact ⟨_, e2⟩
              · split at h <;> (simp only [pure, Except.pure, Except.ok.injEq] at h; subst h; exact ⟨_, e2⟩)
    | false =>
      simp only [Bool.false_eq_true, if_false] at h
      generalize (if (decide (x.size > 0) && decide ((if x.s.available ≤ 0 then (1 : Int) else x.s.available) > x.size)) = true
          then x.size else (if x.s.available ≤ 0 then (1 : Int) else x.s.available)) = mx at h
      cases hb : readBlocks x.s mx x.size x.body with
      | error e => rw [hb] at h; simp [bind, Except.bind] at h
      | ok b =>
        rw [hb] at h
        simp only [bind, Except.bind] at h
        unfold readBlocks at hb
        obtain ⟨⟨g, g1, _⟩, _⟩ := iterate_blocks_inv _ _ _ hb
        simp only at g1
        split at h <;> (simp only [pure, Except.pure, Except.ok.injEq] at h; subst h; exact ⟨_, g1⟩)

theorem iterate_body_suffix (ch : Bool) : ∀ (fuel : Nat) (x : BodySt) (r : Sock × Bytes),
    iterate (bodyStep ch) fuel x = .ok r → ∃ w, x.s.inp = w ++ r.1.inp := by
  intro fuel
  induction fuel with
  | zero => intro x r h; simp [iterate, throw, throwThe, MonadExceptOf.throw] at h
  | succ fuel ih =>
    intro x r h
    simp only [iterate] at h
    cases hstep : bodyStep ch x with
    | error e => rw [hstep] at h; simp at h
    | ok st =>
      rw [hstep] at h
      obtain ⟨w, hw⟩ := bodyStep_suffix ch x st hstep
      cases st with
      | done r' =>
        simp only [pure, Except.pure, Except.ok.injEq] at h
        subst h; exact ⟨w, hw⟩
      | next y =>
        simp only [] at h hw
        obtain ⟨w2, hw2⟩ := ih y r h
        exact ⟨w ++ w2, by rw [List.append_assoc, ← hw2]; exact hw⟩

theorem readBody_suffix (s : Sock) (h : Dic) (r : Sock × Bytes) (hr : readBody s h = .ok r) :
    ∃ w, s.inp = w ++ r.1.inp := by
  unfold readBody at hr
  simp only [] at hr
  split at hr
  · simp only [pure, Except.pure, Except.ok.injEq] at hr; subst hr; exact ⟨[], by simp⟩
  · split at hr
    · exact iterate_body_suffix _ _ _ r hr
    · split at hr
      · split at hr
        · simp only [pure, Except.pure, Except.ok.injEq] at hr; subst hr; exact ⟨[], by simp⟩
        · exact iterate_body_suffix _ _ _ r hr
      · simp only [pure, Except.pure, Except.ok.injEq] at hr; subst hr; exact ⟨[], by simp⟩

theorem headerBlock_suffix {tail wire : Bytes} {st : Dic × Bytes × Bytes} {h : Dic} (hb : HeaderBlockD tail wire st h) :
    ∃ blk, tail = blk ++ wire := by
  induction hb with
  | empty last rest st _ _ => exact ⟨last ++ [10], by simp⟩
  | line l tail rest st st' h _ _ _ _ ih =>
    obtain ⟨blk, hb⟩ := ih
    exact ⟨l ++ 10 :: blk, by rw [hb]; simp⟩

/-- a complete framed request occupying a segment of the stream, with the fields `q` -/
def FramedIn (stream : Bytes) (q : Req) : Prop :=
  ∃ pre line tail wire post, stream = pre ++ (line ++ 10 :: tail) ∧ (∀ c ∈ line, c ≠ 10) ∧
    parseRequestLine line = .ok (some ⟨q.method, q.res, q.proto⟩) ∧
    HeaderBlockD tail wire ([], [], []) q.headers ∧ BodyFramed q.headers wire q.body post

/-- `read_complete` with the position bookkeeping: the framed request and where reading continues -/
theorem read_complete_at (stream pre : Bytes) (s : Sock) (r : Req) (s' : Sock) (hp : stream = pre ++ s.inp)
    (hs : Healthy s) (h : AslModel.HttpParse.read s = .ok (r, s')) (hd : Healthy s') (hm : r.method ≠ []) :
    FramedIn stream r ∧ ∃ pre', stream = pre' ++ s'.inp := by
  obtain ⟨line, tail, wire, e1, e2, e3, e4, e5⟩ := read_complete s r s' hs h hd hm
  refine ⟨⟨pre, line, tail, wire, s'.inp, by rw [hp, e1], e2, e3, e4, e5⟩, ?_⟩
  -- where the body reader stopped is a suffix of the wire
  obtain ⟨blk, hblk⟩ := headerBlock_suffix e4
  -- re-run the stages to get the suffix from the body reader
  unfold AslModel.HttpParse.read at h
  simp only [] at h
  split at h
  · simp only [pure, Except.pure, Except.ok.injEq, Prod.mk.injEq] at h
    rw [← h.1] at hm; exact absurd rfl hm
  · rename_i hcond
    cases hrl : parseRequestLine s.readLine.1 with
    | error e => rw [hrl] at h; simp [bind, Except.bind] at h
    | ok rl? =>
      rw [hrl] at h
      simp only [bind, Except.bind] at h
      cases rl? with
      | none =>
        simp only [pure, Except.pure, Except.ok.injEq, Prod.mk.injEq] at h
        rw [← h.1] at hm; exact absurd rfl hm
      | some rl =>
        simp only [] at h
        cases hhs : readHeaders s.readLine.2 with
        | error e => rw [hhs] at h; simp at h
        | ok hs' =>
          rw [hhs] at h
          simp only [] at h
          by_cases hte : (hasHeader hs'.2 sTransferEncoding && !isChunked (header hs'.2 sTransferEncoding)) = true
          · simp only [hte, if_true, pure, Except.pure, Except.ok.injEq, Prod.mk.injEq] at h
            obtain ⟨_, hsock⟩ := h
            rw [← hsock] at hd
            simp [Healthy] at hd
          simp only [hte, Bool.false_eq_true, if_false] at h
          cases hb : readBody (expectContinue hs'.1 hs'.2) hs'.2 with
          | error e => rw [hb] at h; simp at h
          | ok b =>
            rw [hb] at h
            simp only [] at h
            cases ht : parseTarget rl.res with
            | error e => rw [ht] at h; simp at h
            | ok t =>
              rw [ht] at h
              simp only [pure, Except.pure, Except.ok.injEq, Prod.mk.injEq] at h
              obtain ⟨_, hsock⟩ := h
              subst hsock
              obtain ⟨w, hw⟩ := readBody_suffix _ _ b hb
              rw [expectContinue_inp] at hw
              obtain ⟨w1, hw1⟩ := readLine_suffix s
              obtain ⟨_, hE, _⟩ := readBody_inv _ _ b hb hd
              have hH := expectContinue_healthy _ _ hE
              have hle : (s.readLine).2.err = 0 := by
                simp only [Bool.or_eq_true, bne_iff_ne, ne_eq, not_or, Decidable.not_not] at hcond
                exact hcond.1
              unfold readHeaders at hhs
              have hblk2 := iterate_headers_inv _ _ hs' ⟨hle, by rw [(readLine_flags s).1]; exact hs.2⟩ hhs hH
              simp only at hblk2
              obtain ⟨blk2, hb2⟩ := headerBlock_suffix hblk2
              exact ⟨pre ++ w1 ++ blk2 ++ w, by
                rw [hp, hw1, hb2, hw]; simp only [List.append_assoc]⟩


theorem serveStep_inv (x : SrvSt) (st : Step SrvSt (Sock × List Req)) (h : serveStep x = .ok st) :
    match st with
    | .done r => r.2 = x.acc.reverse ∨ ∃ q s', r.2 = (q :: x.acc).reverse ∧ Healthy x.s ∧
        AslModel.HttpParse.read x.s = .ok (q, s') ∧ Healthy s' ∧ q.method ≠ []
    | .next y => ∃ q s', Healthy x.s ∧ AslModel.HttpParse.read x.s = .ok (q, s') ∧ Healthy s' ∧ q.method ≠ [] ∧
        y.s.inp = s'.inp ∧ (y.acc = x.acc ∨ y.acc = q :: x.acc) := by
  unfold serveStep at h
  by_cases h0 : (x.s.closed || x.s.err != 0 || x.s.inp.isEmpty) = true
  · simp only [h0, if_true, pure, Except.pure, Except.ok.injEq] at h
    subst h
    left; rfl
  · simp only [h0, Bool.false_eq_true, if_false] at h
    have hx : Healthy x.s := by
      simp only [Bool.or_eq_true, bne_iff_ne, ne_eq, List.isEmpty_iff, not_or, Decidable.not_not, Bool.not_eq_true] at h0
      exact ⟨h0.1.2, h0.1.1⟩
    cases hrd : AslModel.HttpParse.read x.s with
    | error e => rw [hrd] at h; simp [bind, Except.bind] at h
    | ok rs =>
      rw [hrd] at h
      simp only [bind, Except.bind] at h
      by_cases hdrop : (rs.2.err != 0 || rs.2.closed || rs.1.method.length == 0 || rs.1.path.length == 0 || rs.1.proto.length == 0) = true
      · simp only [hdrop, if_true, pure, Except.pure, Except.ok.injEq] at h
        subst h
        left; rfl
      · simp only [hdrop, Bool.false_eq_true, if_false] at h
        have hok : Healthy rs.2 ∧ rs.1.method ≠ [] := by
          simp only [Bool.or_eq_true, bne_iff_ne, ne_eq, beq_iff_eq, List.length_eq_zero_iff, not_or, Decidable.not_not,
            Bool.not_eq_true] at hdrop
          exact ⟨⟨hdrop.1.1.1.1, hdrop.1.1.1.2⟩, hdrop.1.1.2⟩
        have hinp := respond_inp rs.1 rs.2
        by_cases hopt : (cstr rs.1.method == sOptions) = true
        · simp only [hopt, if_true] at h
          split at h
          · simp only [pure, Except.pure, Except.ok.injEq] at h; subst h; left; rfl
          · simp only [pure, Except.pure, Except.ok.injEq] at h; subst h
            exact ⟨rs.1, rs.2, hx, rfl, hok.1, hok.2, hinp, Or.inl rfl⟩
        · simp only [hopt, Bool.false_eq_true, if_false] at h
          split at h
          · simp only [pure, Except.pure, Except.ok.injEq] at h; subst h
            right; exact ⟨rs.1, rs.2, rfl, hx, rfl, hok.1, hok.2⟩
          · simp only [pure, Except.pure, Except.ok.injEq] at h; subst h
            exact ⟨rs.1, rs.2, hx, rfl, hok.1, hok.2, hinp, Or.inr rfl⟩

theorem iterate_serve_framed (stream : Bytes) : ∀ (fuel : Nat) (x : SrvSt) (res : Sock × List Req),
    (∃ pre, stream = pre ++ x.s.inp) → (∀ q ∈ x.acc, FramedIn stream q) →
    iterate serveStep fuel x = .ok res → ∀ q ∈ res.2, FramedIn stream q := by
  intro fuel
  induction fuel with
  | zero => intro x res _ _ h; simp [iterate, throw, throwThe, MonadExceptOf.throw] at h
  | succ fuel ih =>
    intro x res hpre hacc h
    simp only [iterate] at h
    obtain ⟨pre, hp⟩ := hpre
    cases hstep : serveStep x with
    | error e => rw [hstep] at h; simp at h
    | ok st =>
      rw [hstep] at h
      have hinv := serveStep_inv x st hstep
      cases st with
      | done r =>
        simp only [pure, Except.pure, Except.ok.injEq] at h
        subst h
        simp only at hinv
        rcases hinv with hr | ⟨q, s', hr, hx, hrd, hs', hm⟩
        · intro q hq; rw [hr] at hq; exact hacc q (List.mem_reverse.mp hq)
        · intro q' hq'
          rw [hr] at hq'
          rcases List.mem_cons.mp (List.mem_reverse.mp hq') with rfl | hq'
          · exact (read_complete_at stream pre x.s _ s' hp hx hrd hs' hm).1
          · exact hacc q' hq'
      | next y =>
        simp only at hinv h
        obtain ⟨q, s', hx, hrd, hs', hm, hyi, hya⟩ := hinv
        obtain ⟨hfr, pre', hp'⟩ := read_complete_at stream pre x.s q s' hp hx hrd hs' hm
        apply ih y res ⟨pre', by rw [hyi]; exact hp'⟩ _ h
        intro q' hq'
        rcases hya with hya | hya
        · rw [hya] at hq'; exact hacc q' hq'
        · rw [hya] at hq'
          rcases List.mem_cons.mp hq' with rfl | hq'
          · exact hfr
          · exact hacc q' hq'

/-- every request `HttpServer::serve` hands to the application on a connection is a complete framed request
    occupying a segment of the stream the peer sent -/
theorem serve_framed (stream : Bytes) (res : Sock × List Req) (h : serve { inp := stream } = .ok res) :
    ∀ q ∈ res.2, FramedIn stream q := by
  obtain ⟨r, hl, rfl⟩ := serve_eq _ _ h
  unfold serveLoop at hl
  exact iterate_serve_framed stream _ _ r ⟨[], rfl⟩ (by simp) hl


/-- every request handed to the application has a path without `..` and without NUL -/
theorem serve_paths (s : Sock) (res : Sock × List Req) (h : serve s = .ok res) :
    ∀ q ∈ res.2, hasDD q.path = false ∧ ∀ c ∈ q.path, c ≠ 0 := by
  obtain ⟨r0, hl, rfl⟩ := serve_eq _ _ h
  clear h
  have h := hl
  unfold serveLoop at h
  have key : ∀ (fuel : Nat) (x : SrvSt) (res : Sock × List Req),
      (∀ q ∈ x.acc, hasDD q.path = false ∧ ∀ c ∈ q.path, c ≠ 0) → iterate serveStep fuel x = .ok res →
      ∀ q ∈ res.2, hasDD q.path = false ∧ ∀ c ∈ q.path, c ≠ 0 := by
    intro fuel
    induction fuel with
    | zero => intro x res _ h; simp [iterate, throw, throwThe, MonadExceptOf.throw] at h
    | succ fuel ih =>
      intro x res hacc h
      simp only [iterate] at h
      have hread : ∀ q s', AslModel.HttpParse.read x.s = .ok (q, s') → hasDD q.path = false ∧ ∀ c ∈ q.path, c ≠ 0 := by
        intro q s' hrd
        obtain ⟨r0, hr0, _, _, h1, h2⟩ := read_ok x.s
        rw [hrd] at hr0
        simp only [Except.ok.injEq] at hr0
        rw [← hr0] at h1 h2
        exact ⟨h1, h2⟩
      cases hstep : serveStep x with
      | error e => rw [hstep] at h; simp at h
      | ok st =>
        rw [hstep] at h
        have hinv := serveStep_inv x st hstep
        cases st with
        | done r =>
          simp only [pure, Except.pure, Except.ok.injEq] at h
          subst h
          simp only at hinv
          rcases hinv with hr | ⟨q, s', hr, _, hrd, _, _⟩
          · intro q hq; rw [hr] at hq; exact hacc q (List.mem_reverse.mp hq)
          · intro q' hq'
            rw [hr] at hq'
            rcases List.mem_cons.mp (List.mem_reverse.mp hq') with rfl | hq'
            · exact hread _ s' hrd
            · exact hacc q' hq'
        | next y =>
          simp only at hinv h
          obtain ⟨q, s', _, hrd, _, _, _, hya⟩ := hinv
          apply ih y res _ h
          intro q' hq'
          rcases hya with hya | hya
          · rw [hya] at hq'; exact hacc q' hq'
          · rw [hya] at hq'
            rcases List.mem_cons.mp hq' with rfl | hq'
            · exact hread _ s' hrd
            · exact hacc q' hq'
  exact key _ _ r0 (by simp) h

/-! ## input is consumed from the front only: what is left is a suffix of what was there -/

theorem iterate_headers_suffix : ∀ (fuel : Nat) (x : HSt) (r : Sock × Dic),
    iterate headersStep fuel x = .ok r → ∃ w, x.s.inp = w ++ r.1.inp := by
  intro fuel
  induction fuel with
  | zero => intro x r h; simp [iterate, throw, throwThe, MonadExceptOf.throw] at h
  | succ fuel ih =>
    intro x r h
    simp only [iterate] at h
    obtain ⟨w, hw⟩ := readLine_suffix x.s
    rcases headersStep_cases x with ⟨h1, _⟩ | ⟨h', h1⟩ | ⟨y, h1, hy, _, _, _⟩
    · rw [h1] at h
      simp only [pure, Except.pure, Except.ok.injEq] at h
      subst h; exact ⟨w, hw⟩
    · rw [h1] at h
      simp only [pure, Except.pure, Except.ok.injEq] at h
      subst h; exact ⟨w, hw⟩
    · rw [h1] at h
      simp only [] at h
      obtain ⟨w2, hw2⟩ := ih y r h
      rw [hy] at hw2
      exact ⟨w ++ w2, by rw [List.append_assoc, ← hw2]; exact hw⟩

theorem read_suffix (s : Sock) (r : Req × Sock) (h : AslModel.HttpParse.read s = .ok r) : ∃ w, s.inp = w ++ r.2.inp := by
  unfold AslModel.HttpParse.read at h
  simp only [] at h
  obtain ⟨w1, hw1⟩ := readLine_suffix s
  split at h
  · simp only [pure, Except.pure, Except.ok.injEq] at h; subst h; exact ⟨w1, hw1⟩
  · cases hrl : parseRequestLine s.readLine.1 with
    | error e => rw [hrl] at h; simp [bind, Except.bind] at h
    | ok rl? =>
      rw [hrl] at h
      simp only [bind, Except.bind] at h
      cases rl? with
      | none => simp only [pure, Except.pure, Except.ok.injEq] at h; subst h; exact ⟨w1, hw1⟩
      | some rl =>
        simp only [] at h
        cases hhs : readHeaders s.readLine.2 with
        | error e => rw [hhs] at h; simp at h
        | ok hs' =>
          rw [hhs] at h
          simp only [] at h
          by_cases hte : (hasHeader hs'.2 sTransferEncoding && !isChunked (header hs'.2 sTransferEncoding)) = true
          · simp only [hte, if_true, pure, Except.pure, Except.ok.injEq] at h
            subst h
            unfold readHeaders at hhs
            obtain ⟨w2, hw2⟩ := iterate_headers_suffix _ _ hs' hhs
            simp only at hw2
            exact ⟨w1 ++ w2, by rw [hw1, hw2]; simp only [List.append_assoc]⟩
          simp only [hte, Bool.false_eq_true, if_false] at h
          cases hb : readBody (expectContinue hs'.1 hs'.2) hs'.2 with
          | error e => rw [hb] at h; simp at h
          | ok b =>
            rw [hb] at h
            simp only [] at h
            cases ht : parseTarget rl.res with
            | error e => rw [ht] at h; simp at h
            | ok t =>
              rw [ht] at h
              simp only [pure, Except.pure, Except.ok.injEq] at h
              subst h
              unfold readHeaders at hhs
              obtain ⟨w2, hw2⟩ := iterate_headers_suffix _ _ hs' hhs
              obtain ⟨w3, hw3⟩ := readBody_suffix _ _ b hb
              rw [expectContinue_inp] at hw3
              simp only at hw2
              exact ⟨w1 ++ w2 ++ w3, by rw [hw1, hw2, hw3]; simp only [List.append_assoc]⟩

theorem serveStep_suffix (x : SrvSt) (st : Step SrvSt (Sock × List Req)) (h : serveStep x = .ok st) :
    ∃ w, x.s.inp = w ++ (match st with | .done r => r.1.inp | .next y => y.s.inp) := by
  unfold serveStep at h
  split at h
  · simp only [pure, Except.pure, Except.ok.injEq] at h; subst h; exact ⟨[], by simp⟩
  · cases hrd : AslModel.HttpParse.read x.s with
    | error e => rw [hrd] at h; simp [bind, Except.bind] at h
    | ok rs =>
      rw [hrd] at h
      simp only [bind, Except.bind] at h
      obtain ⟨w, hw⟩ := read_suffix x.s rs hrd
      have hinp := respond_inp rs.1 rs.2
      split at h
      · simp only [pure, Except.pure, Except.ok.injEq] at h; subst h; exact ⟨w, hw⟩
      · split at h <;> (simp only [pure, Except.pure, Except.ok.injEq] at h; subst h; exact ⟨w, by simp only [hinp]; exact hw⟩)

/-- what the keep-alive loop leaves unread (before `closeBehind` drops it) is a suffix of what was there -/
theorem serveLoop_suffix (s : Sock) (r0 : Sock × List Req) (h : serveLoop s = .ok r0) : ∃ w, s.inp = w ++ r0.1.inp := by
  unfold serveLoop at h
  have : ∀ (fuel : Nat) (x : SrvSt) (r : Sock × List Req), iterate serveStep fuel x = .ok r → ∃ w, x.s.inp = w ++ r.1.inp := by
    intro fuel
    induction fuel with
    | zero => intro x r h; simp [iterate, throw, throwThe, MonadExceptOf.throw] at h
    | succ fuel ih =>
      intro x r h
      simp only [iterate] at h
      cases hstep : serveStep x with
      | error e => rw [hstep] at h; simp at h
      | ok st =>
        rw [hstep] at h
        obtain ⟨w, hw⟩ := serveStep_suffix x st hstep
        cases st with
        | done r' => simp only [pure, Except.pure, Except.ok.injEq] at h; subst h; exact ⟨w, hw⟩
        | next y =>
          simp only [] at h hw
          obtain ⟨w2, hw2⟩ := ih y r h
          exact ⟨w ++ w2, by rw [List.append_assoc, ← hw2]; exact hw⟩
  exact this _ _ r0 h

theorem serve_suffix (s : Sock) (r : Sock × List Req) (h : serve s = .ok r) : ∃ w, s.inp = w ++ r.1.inp := by
  obtain ⟨r0, hl, rfl⟩ := serve_eq _ _ h
  obtain ⟨w2, hw2⟩ := closeBehind_suffix r0.1
  obtain ⟨w, hw⟩ := serveLoop_suffix s r0 hl
  exact ⟨w ++ w2, by rw [hw, List.append_assoc, ← hw2]⟩

/-- the recording loop `serveLoopAt` (the `at=` observable of the correspondence check) is the loop `serveLoop` with
    one more component: same socket, same requests -/
theorem serveLoopAt_loop (s : Sock) : (serveLoopAt s).map (fun r => (r.1, r.2.1)) = serveLoop s := by
  unfold serveLoopAt serveLoop
  have key : ∀ (fuel : Nat) (x : SrvSt) (l : List Nat),
      (iterate serveStepAt fuel (x, l)).map (fun r => (r.1, r.2.1)) = iterate serveStep fuel x := by
    intro fuel
    induction fuel with
    | zero => intro x l; rfl
    | succ fuel ih =>
      intro x l
      simp only [iterate]
      unfold serveStepAt
      simp only [bind, Except.bind]
      cases hstep : serveStep x with
      | error e => rfl
      | ok st =>
        cases st with
        | done r => rfl
        | next y => simp only [pure, Except.pure]; exact ih y _
  exact key _ _ _

/-! ## the decoded path is the path sent; the file opened lies under the root -/

theorem hexDigit_facts : ∀ n, n < 256 → ∀ x, hexVal (UInt8.ofNat n) = some x →
    x < 16 ∧ UInt8.ofNat n ≠ 0 ∧ cIsSpace (UInt8.ofNat n) = false ∧ UInt8.ofNat n ≠ 45 ∧ UInt8.ofNat n ≠ 43 := by
  decide +kernel

/-- `%xy` with two hexadecimal digits (either letter case) decodes to the byte `16·x + y` -/
theorem hexByte_spec (a b : UInt8) (x y : Nat) (ha : hexVal a = some x) (hb : hexVal b = some y) :
    hexByte a b = UInt8.ofNat (16 * x + y) := by
  have fa := byte_cases (fun c => ∀ x, hexVal c = some x → x < 16 ∧ c ≠ 0 ∧ cIsSpace c = false ∧ c ≠ 45 ∧ c ≠ 43)
    hexDigit_facts a x ha
  have fb := byte_cases (fun c => ∀ x, hexVal c = some x → x < 16 ∧ c ≠ 0 ∧ cIsSpace c = false ∧ c ≠ 45 ∧ c ≠ 43)
    hexDigit_facts b y hb
  unfold hexByte
  have hc : cstr [a, b] = [a, b] := cstr_of_no_nul _ (by
    intro c hc
    simp only [List.mem_cons, List.not_mem_nil, or_false] at hc
    rcases hc with rfl | rfl
    · exact fa.2.1
    · exact fb.2.1)
  rw [hc]
  unfold strtoul16
  have hdw : [a, b].dropWhile cIsSpace = [a, b] := dropWhile_head_false _ _ _ fa.2.2.1
  have hsign : stripSign [a, b] = (false, [a, b]) := by
    unfold stripSign
    split
    · rename_i t heq; simp only [List.cons.injEq] at heq; exact absurd heq.1 fa.2.2.2.1
    · rename_i t heq; simp only [List.cons.injEq] at heq; exact absurd heq.1 fa.2.2.2.2
    · rfl
  have hpre : strip0x [a, b] = [a, b] := by
    unfold strip0x
    split
    · rename_i x' h' t heq; simp at heq
    · rfl
  simp only [hdw, hsign, hpre, hexDigits, ha, hb]
  have : ¬ ((0 * 16 + x) * 16 + y ≥ 2 ^ 64) := by
    have := fa.1; have := fb.1
    have : (2 : Nat) ^ 64 > 256 := by decide
    omega
  simp only [this, if_false, Bool.false_eq_true]
  congr 1
  omega

theorem urlDecodeSpec_plain (s : Bytes) (h : ∀ c ∈ s, c ≠ 37) : urlDecodeSpec s = s := by
  induction s with
  | nil => rfl
  | cons c t ih =>
    have hc : (c == 37) = false := by simpa using h c (by simp)
    rw [urlDecodeSpec_ne _ _ hc, ih (fun x hx => h x (by simp [hx]))]

/-- for a target without `?` and `#`: the path handed over is the percent-decoded target (cut at a decoded NUL),
    unchanged whenever that contains no `..`; query and fragment are empty -/
theorem parseTarget_plain (raw : Bytes) (hq : ∀ c ∈ raw, c ≠ 35 ∧ c ≠ 63)
    (hdd : hasDD (cstr (urlDecodeSpec raw)) = false) :
    ∃ t, parseTarget raw = .ok t ∧ t.path = cstr (urlDecodeSpec raw) ∧ t.query = [] ∧ t.fragment = [] := by
  have hnone : ∀ c : UInt8, (c = 35 ∨ c = 63) → findByte c (cstr raw) = none := by
    intro c hc
    cases hf : findByte c (cstr raw) with
    | none => rfl
    | some k =>
      exfalso
      obtain ⟨hk, hg, _⟩ := findByte_some hf
      obtain ⟨r, hr⟩ := cstr_prefix raw
      have hmem : c ∈ raw := by
        rw [hr]
        apply List.mem_append_left
        rw [← hg]
        simp only [List.getD_eq_getElem?_getD, List.getElem?_eq_getElem hk, Option.getD_some]
        exact List.getElem_mem hk
      rcases hc with rfl | rfl
      · exact (hq _ hmem).1 rfl
      · exact (hq _ hmem).2 rfl
  unfold parseTarget splitTarget indexOfByteFrom?
  simp only [Nat.zero_le, if_true, List.drop_zero, hnone 35 (Or.inl rfl), hnone 63 (Or.inr rfl), Option.map_none,
    pure, Except.pure, bind, Except.bind, splitFragment, splitQuery]
  rw [substring?_ok _ _ _ (Nat.zero_le _) (Nat.le_refl _)]
  simp only [List.drop_zero, Nat.sub_zero, List.take_length]
  unfold sanitize
  rw [urlDecode_eq_spec]
  simp only [bind, Except.bind, pure, Except.pure, hdd, Bool.false_eq_true, if_false]
  exact ⟨_, rfl, rfl, rfl, rfl⟩

/-- `localRel` always starts with `/`, and adds no `..` and no NUL to a path that has none -/
theorem localRel_spec (path : Bytes) (hdd : hasDD path = false) (hn : ∀ c ∈ path, c ≠ 0) :
    ∃ rel, localRel path = 47 :: rel ∧ hasDD (47 :: rel) = false ∧ ∀ c ∈ rel, c ≠ 0 := by
  have happ : ∀ (p : Bytes), hasDD p = false → p.getLast? = some 47 → hasDD (p ++ sIndexHtml) = false := by
    intro p
    induction p with
    | nil => intro _ h; simp at h
    | cons a t ih =>
      intro hp hl
      cases t with
      | nil =>
        simp only [List.getLast?_singleton, Option.some.injEq] at hl
        subst hl; decide
      | cons b t' =>
        simp only [hasDD, Bool.or_eq_false_iff] at hp
        have := ih hp.2 (by simpa [List.getLast?_cons_cons] using hl)
        simp only [List.cons_append, hasDD, Bool.or_eq_false_iff]
        exact ⟨hp.1, this⟩
  have hidx : ∀ c ∈ sIndexHtml, c ≠ 0 := by decide
  unfold localRel
  simp only []
  by_cases hh : (path.head? == some 47) = true
  · obtain ⟨t, rfl⟩ : ∃ t, path = 47 :: t := by
      cases path with
      | nil => simp at hh
      | cons a t => simp at hh; exact ⟨t, by rw [hh]⟩
    simp only [hh, if_true]
    have hnt : ∀ c ∈ t, c ≠ 0 := fun c hc => hn c (by simp [hc])
    split
    · rename_i hl
      refine ⟨t ++ sIndexHtml, rfl, ?_, ?_⟩
      · have := happ (47 :: t) hdd (by simpa using hl)
        simpa using this
      · intro c hc
        rcases List.mem_append.mp hc with hc | hc
        · exact hnt c hc
        · exact hidx c hc
    · exact ⟨t, rfl, hdd, hnt⟩
  · simp only [hh, Bool.false_eq_true, if_false]
    have h47 : hasDD (47 :: path) = false := by
      cases path with
      | nil => rfl
      | cons a t => simp only [hasDD, Bool.or_eq_false_iff]; exact ⟨by simp [dot], hdd⟩
    split
    · rename_i hl
      refine ⟨path ++ sIndexHtml, rfl, ?_, ?_⟩
      · have := happ (47 :: path) h47 (by simpa using hl)
        simpa using this
      · intro c hc
        rcases List.mem_append.mp hc with hc | hc
        · exact hn c hc
        · exact hidx c hc
    · exact ⟨path, rfl, h47, hn⟩

end AslProofs.HttpDispatch
