import AslProofs.HttpParse
import AslProofs.HttpDispatch
/-! Lemmas for C09: `Expect: 100-continue` in `HttpRequest::read` (the interim answer is written, the request is read as sent). -/
namespace AslProofs.HttpExpect
open AslModel.HttpParse AslProofs.HttpParse AslProofs.HttpDispatch

/-- `WellFormed` without the clause that excludes `Expect: 100-continue` -/
structure WellFormedX (q : WfReq) : Prop where
  method_ne : q.method ≠ []
  method_ok : ∀ c ∈ q.method, c ≠ 32 ∧ c ≠ 0 ∧ c ≠ 10
  target_ok : ∀ c ∈ q.target, c ≠ 32 ∧ c ≠ 0 ∧ c ≠ 10
  proto_ok : ValueOk q.proto
  line_len : q.method.length + q.target.length + q.proto.length + 3 ≤ 16001
  headers_ok : HeadersOk q.headers
  no_te : hasHeader (hdrDic q.headers) sTransferEncoding = false
  framing : (q.body = [] ∧ hasHeader (hdrDic q.headers) sContentLength = false) ∨
            (0 < q.body.length ∧ hasHeader (hdrDic q.headers) sContentLength = true ∧
              validLength (header (hdrDic q.headers) sContentLength) = true ∧
              myatoi 32 (cstr (header (hdrDic q.headers) sContentLength)) = (q.body.length : Int))

/-- the interim answer `read` writes before the body: nothing without `Expect: 100-continue`, else
    `100 Continue` for an announced length below 128000000 and `417 Too big` from there on -/
def interim (h : Dic) : Bytes :=
  if cstr (header h sExpect) == s100continue then
    (if myatoi 64 (cstr (header h sContentLength)) < 128000000 then sContinue else sTooBig)
  else []

theorem expectContinue_open (s : Sock) (h : Dic) (hc : s.closed = false) :
    expectContinue s h = { s with out := s.out ++ interim h } := by
  unfold expectContinue interim Sock.write
  by_cases h1 : (cstr (header h sExpect) == s100continue) = true
  · by_cases h2 : myatoi 64 (cstr (header h sContentLength)) < 128000000
    · simp [h1, h2, hc, sContinue]
    · simp [h1, h2, hc, sTooBig]
  · simp [h1]

/-- on a Content-Length value that passes the reader's check, `(Long)` and `(int)` read the same number -/
theorem validLength_long (v : Bytes) (h : validLength v = true) : myatoi 64 (cstr v) = myatoi 32 (cstr v) := by
  obtain ⟨n, _, hn, h32⟩ := validLength_spec v h
  unfold validLength at h
  simp only [Bool.and_eq_true, decide_eq_true_eq] at h
  obtain ⟨⟨⟨h1, h10⟩, hd⟩, h64⟩ := h
  have hc := digits_no_nul v hd
  rw [hc] at h64 h32 ⊢
  have hhead : ∀ bits, myatoi bits v = atoiDigits bits v 0 := by
    intro bits
    cases v with
    | nil => simp at h1
    | cons a t =>
      have ha := (List.all_eq_true.mp hd) a (by simp)
      simp only [Bool.and_eq_true, decide_eq_true_eq] at ha
      unfold myatoi
      split
      · rename_i heq; simp only [List.cons.injEq] at heq; rw [heq.1] at ha; exact absurd ha.1 (by decide)
      · rename_i heq; simp only [List.cons.injEq] at heq; rw [heq.1] at ha; exact absurd ha.1 (by decide)
      · rfl
  have hbound : decFold v 0 < 2 ^ 63 := by
    have := decFold_lt v hd 0
    have hp : 10 ^ v.length ≤ 10 ^ 10 := Nat.pow_le_pow_right (by decide) h10
    have : (10 : Nat) ^ 10 < 2 ^ 63 := by decide
    omega
  have h64' := atoiDigits_dec 64 (by decide) v hd 0 (by simpa using hbound)
  simp only [Int.natCast_zero] at h64'
  rw [hhead 64] at h64 ⊢
  rw [h64'] at h64 ⊢
  have hn' : decFold v 0 < 2 ^ 31 := by
    have : (2 : Nat) ^ 31 = 2147483648 := by decide
    omega
  have h32' := atoiDigits_dec 32 (by decide) v hd 0 (by simpa using hn')
  simp only [Int.natCast_zero] at h32'
  rw [hhead 32, h32']

/-- `read_faithful_sock` without the `no_expect` clause: the request is read as sent, `rest` stays unread and the
    interim answer (if any) has been written -/
theorem read_faithful_expect_sock (s : Sock) (q : WfReq) (rest : Bytes) (hw : WellFormedX q) (he : s.err = 0)
    (hc : s.closed = false) (hi : s.inp = serialize q ++ rest) :
    ∃ t, parseTarget q.target = .ok t ∧
      AslModel.HttpParse.read s =
        .ok ({ method := q.method, res := q.target, proto := q.proto, path := t.path, query := t.query,
               fragment := t.fragment, parts := t.parts, headers := hdrDic q.headers, body := q.body },
             { s with inp := rest, out := s.out ++ interim (hdrDic q.headers) }) := by
  obtain ⟨t, ht, _, _⟩ := parseTarget_ok q.target
  refine ⟨t, ht, ?_⟩
  obtain ⟨hp0, hp1, hp2, hp3⟩ := hw.proto_ok
  have hline : s.readLine =
      (q.method ++ 32 :: (q.target ++ 32 :: (q.proto ++ [13])),
       { s with inp := hdrBlock q.headers ++ 13 :: 10 :: (q.body ++ rest) }) := by
    apply readLine_line _ _ _ he hc
    · rw [hi]; simp [serialize]
    · intro c hcm
      simp only [List.mem_append, List.mem_cons, List.not_mem_nil, or_false] at hcm
      rcases hcm with h | rfl | h | rfl | h | rfl
      · exact (hw.method_ok c h).2.2
      · decide
      · exact (hw.target_ok c h).2.2
      · decide
      · exact hp1 c h
      · decide
    · have := hw.line_len
      simp only [List.length_append, List.length_cons, List.length_nil]; omega
  unfold AslModel.HttpParse.read
  simp only [hline]
  have hne : ((q.method ++ 32 :: (q.target ++ 32 :: (q.proto ++ [13]))).length == 0) = false := by simp
  have he' : (s.err != 0) = false := by simp [he]
  simp only [he', hne, Bool.or_self, Bool.false_eq_true, if_false]
  rw [parseRequestLine_faithful q.method q.target (q.proto ++ [13])
    (fun c hc => ⟨(hw.method_ok c hc).1, (hw.method_ok c hc).2.1⟩)
    (fun c hc => ⟨(hw.target_ok c hc).1, (hw.target_ok c hc).2.1⟩)]
  simp only [bind, Except.bind]
  have hproto : trimmed (q.proto ++ [13]) = q.proto := by
    have := trimmed_core [] q.proto [13] (by simp) (by decide) hp0 hp2 hp3
    simpa using this
  rw [hproto]
  unfold readHeaders
  rw [iterate_headers q.headers (q.body ++ rest) hw.headers_ok _
    { s with inp := hdrBlock q.headers ++ 13 :: 10 :: (q.body ++ rest) } [] [] [] he hc rfl
    (by have := hdrBlock_length q.headers; simp only [List.length_append, List.length_cons]; omega)]
  simp only []
  have hfold : List.foldl (fun d nv => storeHeader d nv.fst nv.snd) [] q.headers = hdrDic q.headers := rfl
  simp only [hfold]
  simp only [hw.no_te, Bool.false_and, Bool.false_eq_true, if_false]
  rw [expectContinue_open _ _ (show ({ s with inp := q.body ++ rest } : Sock).closed = false from hc)]
  rcases hw.framing with ⟨hb, hcl⟩ | ⟨hb, hcl, hvalid, hval⟩
  · rw [readBody_none _ _ hcl (not_chunked_of_no_te _ hw.no_te)]
    simp only [ht, hb, List.nil_append]
    rfl
  · rw [readBody_content_length _ _ q.body rest (show ({ s with inp := q.body ++ rest, out := s.out ++ interim (hdrDic q.headers) } : Sock).err = 0 from he)
      (show ({ s with inp := q.body ++ rest, out := s.out ++ interim (hdrDic q.headers) } : Sock).closed = false from hc) rfl hb hcl hvalid hval (not_chunked_of_no_te _ hw.no_te)]
    simp only [ht]
    rfl

/-! ### chunked framing -/

/-- `HeadOk` without the clause that excludes `Expect: 100-continue` -/
structure HeadOkX (m t p : Bytes) (hs : List (Bytes × Bytes)) : Prop where
  method_ne : m ≠ []
  method_ok : ∀ c ∈ m, c ≠ 32 ∧ c ≠ 0 ∧ c ≠ 10
  target_ok : ∀ c ∈ t, c ≠ 32 ∧ c ≠ 0 ∧ c ≠ 10
  proto_ok : ValueOk p
  line_len : m.length + t.length + p.length + 3 ≤ 16001
  headers_ok : HeadersOk hs

/-- `read_head` for any `Expect` field: the interim answer is written, then the body is read from what follows -/
theorem read_head_x (s : Sock) (m t p : Bytes) (hs : List (Bytes × Bytes)) (tail : Bytes) (hw : HeadOkX m t p hs)
    (hte : (hasHeader (hdrDic hs) sTransferEncoding && !isChunked (header (hdrDic hs) sTransferEncoding)) = false)
    (he : s.err = 0) (hc : s.closed = false)
    (hi : s.inp = m ++ 32 :: (t ++ 32 :: (p ++ 13 :: 10 :: (hdrBlock hs ++ 13 :: 10 :: tail)))) :
    AslModel.HttpParse.read s =
      (match readBody { s with inp := tail, out := s.out ++ interim (hdrDic hs) } (hdrDic hs) with
       | .error e => .error e
       | .ok b => match parseTarget t with
         | .error e => .error e
         | .ok tg => .ok (mkReq m t p tg (hdrDic hs) b.2, b.1)) := by
  obtain ⟨hp0, hp1, hp2, hp3⟩ := hw.proto_ok
  have hline : s.readLine =
      (m ++ 32 :: (t ++ 32 :: (p ++ [13])), { s with inp := hdrBlock hs ++ 13 :: 10 :: tail }) := by
    apply readLine_line _ _ _ he hc
    · rw [hi]; simp
    · intro c hcm
      simp only [List.mem_append, List.mem_cons, List.not_mem_nil, or_false] at hcm
      rcases hcm with h | rfl | h | rfl | h | rfl
      · exact (hw.method_ok c h).2.2
      · decide
      · exact (hw.target_ok c h).2.2
      · decide
      · exact hp1 c h
      · decide
    · have := hw.line_len
      simp only [List.length_append, List.length_cons, List.length_nil]; omega
  unfold AslModel.HttpParse.read
  simp only [hline]
  have hne : ((m ++ 32 :: (t ++ 32 :: (p ++ [13]))).length == 0) = false := by simp
  have he' : (s.err != 0) = false := by simp [he]
  simp only [he', hne, Bool.or_self, Bool.false_eq_true, if_false]
  rw [parseRequestLine_faithful m t (p ++ [13])
    (fun c hc => ⟨(hw.method_ok c hc).1, (hw.method_ok c hc).2.1⟩)
    (fun c hc => ⟨(hw.target_ok c hc).1, (hw.target_ok c hc).2.1⟩)]
  simp only [bind, Except.bind]
  have hproto : trimmed (p ++ [13]) = p := by
    have := trimmed_core [] p [13] (by simp) (by decide) hp0 hp2 hp3
    simpa using this
  rw [hproto]
  unfold readHeaders
  rw [iterate_headers hs tail hw.headers_ok _ { s with inp := hdrBlock hs ++ 13 :: 10 :: tail } [] [] [] he hc rfl
    (by have := hdrBlock_length hs; simp only [List.length_append, List.length_cons]; omega)]
  simp only []
  have hfold : List.foldl (fun d nv => storeHeader d nv.fst nv.snd) [] hs = hdrDic hs := rfl
  simp only [hfold]
  rw [expectContinue_open _ _ (show ({ s with inp := tail } : Sock).closed = false from hc)]
  simp only [hte, Bool.false_eq_true, if_false]
  cases readBody { s with inp := tail, out := s.out ++ interim (hdrDic hs) } (hdrDic hs) with
  | error e => rfl
  | ok b =>
    cases parseTarget t with
    | error e => rfl
    | ok tg => rfl

/-- without a Content-Length field, `Expect: 100-continue` is always answered `100 Continue` -/
theorem interim_no_length (h : Dic) (hcl : hasHeader h sContentLength = false) :
    interim h = if cstr (header h sExpect) = s100continue then sContinue else [] := by
  unfold interim
  rw [header_of_not_has _ _ hcl]
  by_cases hx : cstr (header h sExpect) = s100continue
  · simp only [hx, if_true]; decide
  · have hb : (cstr (header h sExpect) == s100continue) = false := by simp [hx]
    simp only [hb, hx, if_false, Bool.false_eq_true]

/-- chunked framing with any `Expect` field (`read_faithful_chunked_aux` without `no_expect`) -/
theorem read_faithful_chunked_x (s : Sock) (m t p : Bytes) (hs : List (Bytes × Bytes)) (cs : List Chunk)
    (sizeLine rest : Bytes) (hw : HeadOkX m t p hs) (hcs : ∀ c ∈ cs, ChunkOk c)
    (hlf : ∀ b ∈ sizeLine, b ≠ 10) (hshort : sizeLine.length ≤ 16000) (hok : chunkLineOk (sizeLine ++ [13]) = true)
    (hz : hexToInt (sizeLine ++ [13]) = 0)
    (hcl : hasHeader (hdrDic hs) sContentLength = false)
    (hte : isChunked (header (hdrDic hs) sTransferEncoding) = true)
    (he : s.err = 0) (hc : s.closed = false)
    (hi : s.inp = m ++ 32 :: (t ++ 32 :: (p ++ 13 :: 10 :: (hdrBlock hs ++ 13 :: 10 ::
            (cs.flatMap Chunk.bytes ++ (sizeLine ++ 13 :: 10 :: 13 :: 10 :: rest)))))) :
    ∃ tg, parseTarget t = .ok tg ∧
      AslModel.HttpParse.read s = .ok (mkReq m t p tg (hdrDic hs) (cs.map Chunk.data).flatten,
        { s with inp := rest, out := s.out ++ interim (hdrDic hs) }) := by
  obtain ⟨tg, htg, _, _⟩ := parseTarget_ok t
  refine ⟨tg, htg, ?_⟩
  rw [read_head_x s m t p hs _ hw (by simp [hte]) he hc hi]
  rw [readBody_chunked { s with inp := cs.flatMap Chunk.bytes ++ (sizeLine ++ 13 :: 10 :: 13 :: 10 :: rest),
                                 out := s.out ++ interim (hdrDic hs) } (hdrDic hs) cs sizeLine rest hcs hlf hshort hok hz
        he hc rfl hcl hte]
  simp only [htg]

/-! ### the keep-alive loop -/

theorem read_faithful_expect_reqOf (s : Sock) (q : WfReq) (rest : Bytes) (hw : WellFormedX q) (he : s.err = 0)
    (hc : s.closed = false) (hi : s.inp = serialize q ++ rest) :
    AslModel.HttpParse.read s = .ok (reqOf q, { s with inp := rest, out := s.out ++ interim (hdrDic q.headers) }) ∧
    (reqOf q).method = q.method ∧ (reqOf q).proto = q.proto := by
  obtain ⟨tg, htg, hread⟩ := read_faithful_expect_sock s q rest hw he hc hi
  unfold reqOf
  rw [htg]
  exact ⟨hread, rfl, rfl⟩

theorem serveStep_dispatch_x (s : Sock) (acc : List Req) (q : WfReq) (rest : Bytes) (hw : WellFormedX q)
    (hd : Dispatched q) (he : s.err = 0) (hc : s.closed = false) (hi : s.inp = serialize q ++ rest) :
    serveStep ⟨s, acc⟩ =
      .ok (.next ⟨(respond (reqOf q) { s with inp := rest, out := s.out ++ interim (hdrDic q.headers) }).1, reqOf q :: acc⟩) := by
  obtain ⟨inp, err, closed, out⟩ := s
  simp only at he hc hi
  subst he hc
  unfold serveStep
  have hne : inp.isEmpty = false := by
    have := serialize_length_pos q
    cases hs : inp with
    | nil => rw [hs] at hi; have := congrArg List.length hi; simp at this; omega
    | cons a b => rfl
  have he' : ((0 : Nat) != 0) = false := rfl
  simp only [he', hne, Bool.or_self, Bool.false_eq_true, if_false]
  obtain ⟨hread, hrm, hrp⟩ := read_faithful_expect_reqOf ⟨inp, 0, false, out⟩ q rest hw rfl rfl hi
  rw [hread]
  simp only [bind, Except.bind]
  have hm : ((reqOf q).method.length == 0) = false := by
    rw [hrm]
    have := hw.method_ne
    cases hmm : q.method with
    | nil => exact absurd hmm this
    | cons a b => rfl
  have hp : ((reqOf q).path.length == 0) = false := by simpa using hd.path_ne
  have hpr : ((reqOf q).proto.length == 0) = false := by
    rw [hrp]
    have := hw.proto_ok.1
    cases hmm : q.proto with
    | nil => exact absurd hmm this
    | cons a b => rfl
  simp only [he', hm, hp, hpr, Bool.or_self, Bool.false_eq_true, if_false]
  have hstop : (respond (reqOf q) ⟨rest, 0, false, out ++ interim (hdrDic q.headers)⟩).2 = false := by
    rw [respond_stop]
    exact hd.keeps
  have hopt : (cstr (reqOf q).method == sOptions) = false := by rw [hrm]; exact hd.not_options
  simp only [hstop, hopt, Bool.false_eq_true, if_false, pure, Except.pure]

theorem iterate_serve_pipelined_x (qs : List WfReq) (hq : ∀ q ∈ qs, WellFormedX q ∧ Dispatched q) :
    ∀ (fuel : Nat) (s : Sock) (acc : List Req), s.err = 0 → s.closed = false → s.inp = qs.flatMap serialize →
      qs.length < fuel →
      ∃ s', iterate serveStep fuel ⟨s, acc⟩ = .ok (s', acc.reverse ++ qs.map reqOf) ∧ s'.inp = [] ∧ s'.err = 0 := by
  induction qs with
  | nil =>
    intro fuel s acc he hc hi hf
    obtain ⟨f, rfl⟩ : ∃ f, fuel = f + 1 := ⟨fuel - 1, by omega⟩
    simp only [iterate]
    rw [serveStep_eof s acc (by simpa using hi)]
    exact ⟨s, by simp [pure, Except.pure], by simpa using hi, he⟩
  | cons q t ih =>
    intro fuel s acc he hc hi hf
    obtain ⟨f, rfl⟩ : ∃ f, fuel = f + 1 := ⟨fuel - 1, by simp at hf; omega⟩
    obtain ⟨hw, hd⟩ := hq q (by simp)
    simp only [iterate]
    rw [serveStep_dispatch_x s acc q (t.flatMap serialize) hw hd he hc (by rw [hi]; simp)]
    simp only []
    obtain ⟨h1, h2, h3⟩ := respond_open (reqOf q)
      { s with inp := t.flatMap serialize, out := s.out ++ interim (hdrDic q.headers) } hc
    obtain ⟨s', hs', hinp, herr⟩ := ih (fun x hx => hq x (by simp [hx])) f
      (respond (reqOf q) { s with inp := t.flatMap serialize, out := s.out ++ interim (hdrDic q.headers) }).1
      (reqOf q :: acc) (h1.trans he) h2 h3 (by simp at hf; omega)
    refine ⟨s', ?_, hinp, herr⟩
    rw [hs']
    simp

end AslProofs.HttpExpect
