import AslModel.HttpFrame
/-! Helper lemmas for C10 (HTTP framing): sender identities, the reader's loops on well-formed input, decimal and
hexadecimal text.  Core Lean only. -/
open AslModel.HttpFrame
namespace AslProofs.HttpFrame


/-! ### sender: plain framing is the identity, for every block size -/

theorem writeLoop_plain (blk : Nat) (hb : 0 < blk) : ∀ (f : Nat) (b : Bytes), b.length ≤ f → writeLoop false blk f b = b := by
  intro f
  induction f with
  | zero => intro b h; have : b = [] := List.eq_nil_of_length_eq_zero (by omega); subst this; rfl
  | succ f ih =>
    intro b h
    unfold writeLoop
    by_cases he : b.isEmpty = true
    · simp only [he, if_true]; exact (List.isEmpty_iff.mp he).symm
    · simp only [he]
      have hne : b ≠ [] := by intro h0; subst h0; simp at he
      have hl : 0 < b.length := List.length_pos_iff.mpr hne
      have : (List.drop (min b.length blk) b).length ≤ f := by
        rw [List.length_drop]; omega
      simp only [frameBlock, Bool.false_eq_true, if_false]
      rw [ih _ this, List.take_append_drop]

theorem writeBody_plain (blk : Nat) (hb : 0 < blk) (b : Bytes) : writeBody false blk b = b :=
  writeLoop_plain blk hb b.length b (Nat.le_refl _)



/-! ### the reader's connection -/

/-- no error flag, not closed -/
def Live (i : Inp) : Prop := i.closed = false ∧ i.err = false

theorem live_dead {i : Inp} (h : Live i) : i.dead = false := by
  simp [Inp.dead, h.1, h.2]

theorem live_advance {i : Inp} (h : Live i) (k : Nat) : Live (i.advance k) := h

theorem advance_advance (i : Inp) (a b : Nat) : (i.advance a).advance b = i.advance (a + b) := by
  simp [Inp.advance, List.drop_drop, Nat.add_assoc]

@[simp] theorem advance_data (i : Inp) (k : Nat) : (i.advance k).data = i.data.drop k := rfl

theorem advance_zero (i : Inp) : i.advance 0 = i := by
  simp [Inp.advance]

theorem readLineLoop_line (l : Bytes) (hl : ∀ c ∈ l, c ≠ 10) (rest : Bytes) :
    ∀ (n : Nat) (acc : Bytes), n + l.length ≤ 16001 →
      readLineLoop n acc (l ++ 10 :: rest) = (some (acc.reverse ++ l), rest, n + l.length + 1, false) := by
  induction l with
  | nil => intro n acc _; simp [readLineLoop]
  | cons c l ih =>
    intro n acc hn
    have hc : c ≠ 10 := hl c (List.mem_cons_self)
    have hl' : ∀ c ∈ l, c ≠ 10 := fun c hc => hl c (List.mem_cons_of_mem _ hc)
    simp only [List.length_cons] at hn
    have h1 : (c == 10) = false := by simpa using hc
    have h2 : ¬ n > 16000 := by omega
    simp only [List.cons_append, readLineLoop, h1, h2, if_false, Bool.false_eq_true]
    rw [ih hl' (n + 1) (c :: acc) (by omega)]
    simp only [List.reverse_cons, List.append_assoc, List.singleton_append, List.length_cons]
    congr 3
    omega

/-- reading one LF-terminated line from a live connection -/
theorem readLine_line {i : Inp} (hi : Live i) (l rest : Bytes) (hl : ∀ c ∈ l, c ≠ 10) (hlen : l.length ≤ 16001)
    (hd : i.data = l ++ 10 :: rest) :
    readLine i = (some l, i.advance (l.length + 1)) ∧ (i.advance (l.length + 1)).data = rest := by
  have hr := readLineLoop_line l hl rest 0 [] (by omega)
  constructor
  · unfold readLine
    rw [live_dead hi, hd, hr]
    simp only [Bool.false_eq_true, if_false, List.reverse_nil, List.nil_append, Nat.zero_add]
    have : i.err = false := hi.2
    simp [Inp.advance, hd, this]
  · simp [hd]

/-- the block read inside `readInner` when enough bytes are there -/
theorem inner_step_eq {i : Inp} (hi : Live i) (k : Nat) (hk : k ≤ i.data.length) :
    ({ (i.advance (i.data.take k).length) with err := decide ((i.data.take k).length < k) } : Inp) = i.advance k := by
  have h1 : (i.data.take k).length = k := by simp [List.length_take, Nat.min_eq_left hk]
  rw [h1]
  have : i.err = false := hi.2
  simp [Inp.advance, this]

/-- `readInner` under a Content-Length countdown: `m ≤ size ≤ bytes left` -/
theorem readInner_len (rblk : Nat) (hr : 0 < rblk) :
    ∀ (f : Nat) (i : Inp) (m size : Nat) (acc : List Bytes), Live i → m ≤ f → m ≤ size → 0 < size → size ≤ i.data.length →
      ∃ bl : List Bytes, bl.reverse.flatten = i.data.take m ∧
        readInner rblk f i m size acc = (bl ++ acc, i.advance m, size - m, decide (m = size)) := by
  intro f
  induction f with
  | zero =>
    intro i m size acc hi hm hms hs hd
    have : m = 0 := by omega
    subst this
    refine ⟨[], by simp, ?_⟩
    have : ¬ (0 = size) := by omega
    simp [readInner, advance_zero, this]
  | succ f ih =>
    intro i m size acc hi hm hms hs hd
    unfold readInner
    by_cases hm0 : m = 0
    · subst hm0
      refine ⟨[], by simp, ?_⟩
      have : ¬ (0 = size) := by omega
      simp [advance_zero, this]
    · simp only [hm0, if_false]
      have hk : min m rblk ≤ i.data.length := by omega
      have hk1 : 0 < min m rblk := by omega
      have hgl : (i.data.take (min m rblk)).length = min m rblk := by simp [List.length_take, Nat.min_eq_left hk]
      have hne : (i.data.take (min m rblk)).isEmpty = false := by
        cases hx : i.data.take (min m rblk) with
        | nil => rw [hx] at hgl; simp at hgl; omega
        | cons a t => rfl
      simp only [hne, Bool.false_eq_true, if_false]
      rw [inner_step_eq hi _ hk, hgl]
      simp only [hs, if_true]
      by_cases hle : size ≤ min m rblk
      · -- the last block of the body
        have hmk : min m rblk = m := by omega
        have hms' : m = size := by omega
        simp only [hle, if_true]
        refine ⟨[i.data.take (min m rblk)], ?_, ?_⟩
        · simp [hmk]
        · rw [hmk]; simp [hms']
      · simp only [hle, if_false]
        have hi' : Live (i.advance (min m rblk)) := hi
        obtain ⟨bl, hbl, heq⟩ := ih (i.advance (min m rblk)) (m - min m rblk) (size - min m rblk)
          (i.data.take (min m rblk) :: acc) hi' (by omega) (by omega) (by omega)
          (by simp only [advance_data, List.length_drop]; omega)
        refine ⟨bl ++ [i.data.take (min m rblk)], ?_, ?_⟩
        · simp only [List.reverse_append, List.reverse_cons, List.reverse_nil, List.nil_append, List.flatten_append,
            List.flatten_cons, List.flatten_nil, List.append_nil, List.singleton_append]
          rw [hbl, advance_data]
          have : m = min m rblk + (m - min m rblk) := by omega
          conv => rhs; rw [this, List.take_add]
        · rw [heq, advance_advance]
          have e1 : min m rblk + (m - min m rblk) = m := by omega
          have e2 : size - min m rblk - (m - min m rblk) = size - m := by omega
          have e3 : decide (m - min m rblk = size - min m rblk) = decide (m = size) := by
            apply decide_eq_decide.mpr; omega
          simp [e1, e2, e3]


/-- `available()` never exceeds what is left -/
theorem available_le (i : Inp) : i.available ≤ i.data.length := by
  unfold Inp.available
  split
  · exact Nat.min_le_right _ _
  · exact Nat.le_refl _

/-- the `while (!end)` loop with a Content-Length: exactly `size` bytes are taken, whatever `available()` reports -/
theorem readLenLoop_exact (rblk : Nat) (hr : 0 < rblk) :
    ∀ (f : Nat) (i : Inp) (size : Nat) (acc : List Bytes), Live i → size ≤ f → 0 < size → size ≤ i.data.length →
      ∃ bl : List Bytes, bl.reverse.flatten = i.data.take size ∧
        readLenLoop rblk f i size acc = (bl ++ acc, i.advance size) := by
  intro f
  induction f with
  | zero => intro i size acc _ h1 h2; omega
  | succ f ih =>
    intro i size acc hi hf hs hd
    unfold readLenLoop
    simp only [live_dead hi, Bool.false_eq_true, if_false]
    -- the amount asked from the inner loop
    generalize ha : (if i.available = 0 then 1 else i.available) = a
    have ha1 : 1 ≤ a := by rw [← ha]; split <;> omega
    generalize hm : (if size > 0 ∧ a > size then size else a) = m
    have hm1 : 1 ≤ m ∧ m ≤ size := by
      rw [← hm]; split <;> omega
    obtain ⟨bl, hbl, heq⟩ := readInner_len rblk hr (m + 1) i m size acc hi (by omega) hm1.2 hs hd
    rw [heq]
    by_cases hms : m = size
    · subst hms
      simp only [decide_true]
      exact ⟨bl, hbl, rfl⟩
    · simp only [hms, decide_false]
      obtain ⟨bl2, hbl2, heq2⟩ := ih (i.advance m) (size - m) (bl ++ acc) hi (by omega) (by omega)
        (by simp only [advance_data, List.length_drop]; omega)
      refine ⟨bl2 ++ bl, ?_, ?_⟩
      · simp only [List.reverse_append, List.flatten_append]
        rw [hbl, hbl2, advance_data]
        have : size = m + (size - m) := by omega
        conv => rhs; rw [this, List.take_add]
      · rw [heq2, advance_advance]
        have : m + (size - m) = size := by omega
        simp [this]



/-! ### decimal and hexadecimal text -/

theorem dec_digit : ∀ d, d < 10 →
    ((48 : UInt8) ≤ UInt8.ofNat (48 + d) ∧ UInt8.ofNat (48 + d) ≤ (57 : UInt8)) ∧ (UInt8.ofNat (48 + d)).toNat - 48 = d := by decide

def IsDigit (c : UInt8) : Prop := (48 : UInt8) ≤ c ∧ c ≤ (57 : UInt8)

theorem digitLoop_append (xs ys : Bytes) (hx : ∀ c ∈ xs, IsDigit c) : ∀ y, digitLoop (xs ++ ys) y = digitLoop ys (digitLoop xs y) := by
  induction xs with
  | nil => intro y; rfl
  | cons c t ih =>
    intro y
    have hc : (48 : UInt8) ≤ c ∧ c ≤ (57 : UInt8) := hx c List.mem_cons_self
    simp only [List.cons_append, digitLoop, hc, and_self, if_true]
    exact ih (fun c h => hx c (List.mem_cons_of_mem _ h)) _

theorem digitsRev_digits : ∀ f n, ∀ c ∈ digitsRev f n, IsDigit c := by
  intro f
  induction f with
  | zero => intro n c h; simp [digitsRev] at h
  | succ f ih =>
    intro n c h
    unfold digitsRev at h
    split at h
    · rename_i hn
      simp only [List.mem_singleton] at h
      subst h
      exact (dec_digit n hn).1
    · simp only [List.mem_cons] at h
      rcases h with h | h
      · subst h; exact (dec_digit (n % 10) (Nat.mod_lt _ (by decide))).1
      · exact ih _ _ h

theorem digitLoop_digitsRev : ∀ f n, n < f → digitLoop (digitsRev f n).reverse 0 = n := by
  intro f
  induction f with
  | zero => intro n h; omega
  | succ f ih =>
    intro n h
    unfold digitsRev
    split
    · rename_i hn
      have := dec_digit n hn
      simp only [List.reverse_cons, List.reverse_nil, List.nil_append, digitLoop, this.1, and_self, if_true]
      omega
    · rename_i hn
      have hd := dec_digit (n % 10) (Nat.mod_lt _ (by decide))
      simp only [List.reverse_cons]
      rw [digitLoop_append _ _ (fun c hc => digitsRev_digits f (n / 10) c (List.mem_reverse.mp hc))]
      rw [ih (n / 10) (by omega)]
      simp only [digitLoop, hd.1, and_self, if_true]
      omega

theorem utoa_digits (n : Nat) : ∀ c ∈ utoa n, IsDigit c := by
  intro c h
  exact digitsRev_digits _ _ c (List.mem_reverse.mp h)

theorem utoa_ne_nil (n : Nat) : utoa n ≠ [] := by
  unfold utoa digitsRev
  split <;> simp

/-- `myatoi(String(n)) = n` -/
theorem atoi_utoa (n : Nat) : atoi (utoa n) = n := by
  have h := digitLoop_digitsRev (n + 1) n (by omega)
  unfold atoi
  split
  · rename_i t heq
    have : IsDigit 43 := by
      have := utoa_digits n 43 (by rw [heq]; exact List.mem_cons_self)
      exact this
    exact absurd this (by unfold IsDigit; decide)
  · exact h



def blank (c : UInt8) : Bool := c == 32 || (9 ≤ c && c ≤ 13)

theorem hex_digit : ∀ d, d < 16 →
    hexVal (hexDigit d) = some d ∧ blank (hexDigit d) = false ∧ hexDigit d ≠ 43 ∧ hexDigit d ≠ 120 ∧ hexDigit d ≠ 88 ∧ hexDigit d ≠ 10
      ∧ hexDigit d ≠ 13 := by decide

def IsHexD (c : UInt8) : Prop := ∃ d, d < 16 ∧ c = hexDigit d

theorem hexRev_mem : ∀ f n, ∀ c ∈ hexRev f n, IsHexD c := by
  intro f
  induction f with
  | zero => intro n c h; simp [hexRev] at h
  | succ f ih =>
    intro n c h
    unfold hexRev at h
    split at h
    · rename_i hn
      simp only [List.mem_singleton] at h
      exact ⟨n, hn, h⟩
    · simp only [List.mem_cons] at h
      rcases h with h | h
      · exact ⟨n % 16, Nat.mod_lt _ (by decide), h⟩
      · exact ih _ _ h

theorem hexLoop_append (xs ys : Bytes) (hx : ∀ c ∈ xs, IsHexD c) : ∀ y, hexLoop (xs ++ ys) y = hexLoop ys (hexLoop xs y) := by
  induction xs with
  | nil => intro y; rfl
  | cons c t ih =>
    intro y
    obtain ⟨d, hd, hc⟩ := hx c List.mem_cons_self
    subst hc
    simp only [List.cons_append, hexLoop, (hex_digit d hd).1]
    exact ih (fun c h => hx c (List.mem_cons_of_mem _ h)) _

theorem hexLoop_hexRev : ∀ f n, n < f → hexLoop (hexRev f n).reverse 0 = n := by
  intro f
  induction f with
  | zero => intro n h; omega
  | succ f ih =>
    intro n h
    unfold hexRev
    split
    · rename_i hn
      simp only [List.reverse_cons, List.reverse_nil, List.nil_append, hexLoop, (hex_digit n hn).1]
      omega
    · rename_i hn
      have hd := hex_digit (n % 16) (Nat.mod_lt _ (by decide))
      simp only [List.reverse_cons]
      rw [hexLoop_append _ _ (fun c hc => hexRev_mem f (n / 16) c (List.mem_reverse.mp hc))]
      rw [ih (n / 16) (by omega)]
      simp only [hexLoop, hd.1]
      omega

theorem hexLower_mem (n : Nat) : ∀ c ∈ hexLower n, IsHexD c :=
  fun c h => hexRev_mem _ _ c (List.mem_reverse.mp h)

theorem hexLower_ne_nil (n : Nat) : hexLower n ≠ [] := by
  unfold hexLower hexRev
  split <;> simp

theorem hexVal_cr : hexVal 13 = none := by decide

/-- `hexToInt` reads back a `%x` chunk-size line (with its CR) -/
theorem hexToInt_hexLower (n : Nat) (hn : n < 4294967296) : hexToInt (hexLower n ++ [13]) = n := by
  have hmem := hexLower_mem n
  obtain ⟨c, t, hct⟩ := List.exists_cons_of_ne_nil (hexLower_ne_nil n)
  have hloop : hexLoop (hexLower n ++ [13]) 0 = n := by
    rw [hexLoop_append _ _ hmem]
    have := hexLoop_hexRev (n + 1) n (by omega)
    unfold hexLower
    rw [this]
    simp [hexLoop, hexVal_cr]
  obtain ⟨d, hd, hc⟩ := hmem c (by rw [hct]; exact List.mem_cons_self)
  have hfacts := hex_digit d hd
  unfold hexToInt
  have hb : isBlank c = false := by
    have := hfacts.2.1; unfold blank at this; unfold isBlank; rw [hc]; exact this
  have h1 : List.dropWhile isBlank (hexLower n ++ [13]) = hexLower n ++ [13] := by
    rw [hct]; simp only [List.cons_append]; rw [List.dropWhile_cons_of_neg (by simp [hb])]
  rw [h1]
  have h2 : skipPlus (hexLower n ++ [13]) = hexLower n ++ [13] := by
    rw [hct]; simp only [List.cons_append]
    unfold skipPlus
    split
    · rename_i heq; simp only [List.cons.injEq] at heq; exact absurd (hc ▸ heq.1) hfacts.2.2.1
    · rfl
  rw [h2]
  have h3 : skip0x (hexLower n ++ [13]) = hexLower n ++ [13] := by
    unfold skip0x
    split
    · rename_i x h t heq
      have hx : x ∈ hexLower n ++ [13] := by rw [heq]; simp
      have hx2 : x ≠ 120 ∧ x ≠ 88 := by
        rcases List.mem_append.mp hx with hx | hx
        · obtain ⟨d', hd', hxc⟩ := hmem x hx
          have := hex_digit d' hd'
          rw [hxc]; exact ⟨this.2.2.2.1, this.2.2.2.2.1⟩
        · simp only [List.mem_singleton] at hx; subst hx; decide
      have : (x == 120 || x == 88) = false := by simp [hx2.1, hx2.2]
      simp [this, heq]
    · rfl
  rw [h3, hloop]
  exact Nat.mod_eq_of_lt hn



theorem hexRev_length : ∀ (f n k : Nat), 0 < k → n < 16 ^ k → (hexRev f n).length ≤ k := by
  intro f
  induction f with
  | zero => intro n k hk _; simp [hexRev]
  | succ f ih =>
    intro n k hk hn
    unfold hexRev
    split
    · simp; omega
    · rename_i h16
      simp only [List.length_cons]
      cases k with
      | zero => omega
      | succ k =>
        cases k with
        | zero => simp at hn; omega
        | succ k =>
          have : n / 16 < 16 ^ (k + 1) := by
            rw [Nat.div_lt_iff_lt_mul (by decide)]
            calc n < 16 ^ (k + 1 + 1) := hn
              _ = 16 ^ (k + 1) * 16 := by rw [Nat.pow_succ]
          have := ih (n / 16) (k + 1) (by omega) this
          omega

theorem hexLower_length (n : Nat) (hn : n < 4294967296) : (hexLower n).length ≤ 8 := by
  unfold hexLower
  rw [List.length_reverse]
  exact hexRev_length _ n 8 (by decide) (by simpa using hn)

theorem digitsRev_length : ∀ (f n k : Nat), 0 < k → n < 10 ^ k → (digitsRev f n).length ≤ k := by
  intro f
  induction f with
  | zero => intro n k hk _; simp [digitsRev]
  | succ f ih =>
    intro n k hk hn
    unfold digitsRev
    split
    · simp; omega
    · rename_i h10
      simp only [List.length_cons]
      cases k with
      | zero => omega
      | succ k =>
        cases k with
        | zero => simp at hn; omega
        | succ k =>
          have : n / 10 < 10 ^ (k + 1) := by
            rw [Nat.div_lt_iff_lt_mul (by decide)]
            calc n < 10 ^ (k + 1 + 1) := hn
              _ = 10 ^ (k + 1) * 10 := by rw [Nat.pow_succ]
          have := ih (n / 10) (k + 1) (by omega) this
          omega

/-- a length that fits in an `int` prints in at most 10 digits -/
theorem utoa_length (n : Nat) (hn : n < 2147483648) : (utoa n).length ≤ 10 := by
  unfold utoa
  rw [List.length_reverse]
  exact digitsRev_length _ n 10 (by decide) (by omega)




/-- `readInner` without a Content-Length countdown (`size = 0`): `m` bytes when they are there -/
theorem readInner_chunk (rblk : Nat) (hr : 0 < rblk) :
    ∀ (f : Nat) (i : Inp) (m : Nat) (acc : List Bytes), Live i → m ≤ f → m ≤ i.data.length →
      ∃ bl : List Bytes, bl.reverse.flatten = i.data.take m ∧
        readInner rblk f i m 0 acc = (bl ++ acc, i.advance m, 0, false) := by
  intro f
  induction f with
  | zero =>
    intro i m acc hi hm hd
    have : m = 0 := by omega
    subst this
    exact ⟨[], by simp, by simp [readInner, advance_zero]⟩
  | succ f ih =>
    intro i m acc hi hm hd
    unfold readInner
    by_cases hm0 : m = 0
    · subst hm0
      exact ⟨[], by simp, by simp [advance_zero]⟩
    · simp only [hm0, if_false]
      have hk : min m rblk ≤ i.data.length := by omega
      have hk1 : 0 < min m rblk := by omega
      have hgl : (i.data.take (min m rblk)).length = min m rblk := by simp [List.length_take, Nat.min_eq_left hk]
      have hne : (i.data.take (min m rblk)).isEmpty = false := by
        cases hx : i.data.take (min m rblk) with
        | nil => rw [hx] at hgl; simp at hgl; omega
        | cons a t => rfl
      simp only [hne, Bool.false_eq_true, if_false]
      rw [inner_step_eq hi _ hk, hgl]
      simp only [Nat.lt_irrefl, gt_iff_lt, if_false]
      obtain ⟨bl, hbl, heq⟩ := ih (i.advance (min m rblk)) (m - min m rblk) (i.data.take (min m rblk) :: acc) hi (by omega)
        (by simp only [advance_data, List.length_drop]; omega)
      refine ⟨bl ++ [i.data.take (min m rblk)], ?_, ?_⟩
      · simp only [List.reverse_append, List.reverse_cons, List.reverse_nil, List.nil_append, List.flatten_cons,
          List.flatten_nil, List.append_nil, List.singleton_append]
        rw [hbl, advance_data]
        have : m = min m rblk + (m - min m rblk) := by omega
        conv => rhs; rw [this, List.take_add]
      · rw [heq, advance_advance]
        have e1 : min m rblk + (m - min m rblk) = m := by omega
        simp [e1]

theorem takeWhile_hex_append (sz : Bytes) (h : ∀ c ∈ sz, (hexVal c).isSome = true) (t : Bytes) (ht : ∀ c, t.head? = some c → (hexVal c).isSome = false) :
    (sz ++ t).takeWhile (fun c => (hexVal c).isSome) = sz := by
  induction sz with
  | nil =>
    cases t with
    | nil => rfl
    | cons a u => simp [List.takeWhile, ht a rfl]
  | cons a u ih =>
    have ha := h a List.mem_cons_self
    simp only [List.cons_append, List.takeWhile_cons, ha, if_true]
    rw [ih (fun c hc => h c (List.mem_cons_of_mem _ hc))]

/-- a chunk-size line of 1 to 8 hex digits followed by CR, with a value that fits an int, passes the check of `readBody` -/
theorem chunkLineValid_hex (sz : Bytes) (h : ∀ c ∈ sz, (hexVal c).isSome = true) (h1 : 1 ≤ sz.length) (h8 : sz.length ≤ 8)
    (hv : hexToInt (sz ++ [13]) ≤ 2147483647) : chunkLineValid (sz ++ [13]) = true := by
  unfold chunkLineValid
  have htw := takeWhile_hex_append sz h [13] (by intro c hc; simp at hc; subst hc; decide)
  simp only [htw]
  have hdrop : (sz ++ [13]).drop sz.length = [13] := by simp
  rw [hdrop]
  have : List.dropWhile (fun c => c == 32 || c == 9) ([13] : Bytes) = [13] := by decide
  rw [this]
  simp [h1, h8, hv]

theorem hexLower_hex (n : Nat) : ∀ c ∈ hexLower n, (hexVal c).isSome = true := by
  intro c hc
  obtain ⟨d, hd, hcd⟩ := hexLower_mem n c hc
  rw [hcd, (hex_digit d hd).1]; rfl

theorem chunkLineValid_hexLower (n : Nat) (hn : n < 2147483648) : chunkLineValid (hexLower n ++ [13]) = true := by
  apply chunkLineValid_hex _ (hexLower_hex n)
  · exact List.length_pos_iff.mpr (hexLower_ne_nil n)
  · exact hexLower_length n (by omega)
  · rw [hexToInt_hexLower n (by omega)]; omega

theorem hexLower_no_lf (n : Nat) : ∀ c ∈ hexLower n ++ [13], c ≠ 10 := by
  intro c hc
  rcases List.mem_append.mp hc with h | h
  · obtain ⟨d, hd, hcd⟩ := hexLower_mem n c h
    rw [hcd]; exact (hex_digit d hd).2.2.2.2.2.1
  · simp only [List.mem_singleton] at h; subst h; decide

/-- one chunk `%x CRLF data CRLF` is consumed by one turn of the chunked loop -/
theorem readChunked_step (rblk : Nat) (hr : 0 < rblk) (f : Nat) (i : Inp) (acc : List Bytes) (p tail : Bytes)
    (hi : Live i) (hp0 : 0 < p.length) (hp : p.length < 2147483648)
    (hd : i.data = hexLower p.length ++ crlf ++ p ++ crlf ++ tail) :
    ∃ bl : List Bytes, bl.reverse.flatten = p ∧
      readChunkedLoop rblk (f + 1) i 0 acc =
        readChunkedLoop rblk f (i.advance ((hexLower p.length).length + 2 + p.length + 2)) 0 (bl ++ acc) := by
  have hd' : i.data = (hexLower p.length ++ [13]) ++ 10 :: (p ++ crlf ++ tail) := by
    rw [hd]; simp [crlf, List.append_assoc]
  have hlen : (hexLower p.length ++ [13]).length ≤ 16001 := by
    have := hexLower_length p.length (by omega)
    simp only [List.length_append, List.length_cons, List.length_nil]; omega
  obtain ⟨hrl, hrest⟩ := readLine_line hi (hexLower p.length ++ [13]) (p ++ crlf ++ tail) (hexLower_no_lf _) hlen hd'
  have hll : (hexLower p.length ++ [13]).length + 1 = (hexLower p.length).length + 2 := by
    simp only [List.length_append, List.length_cons, List.length_nil]
  have hi1 : Live (i.advance ((hexLower p.length ++ [13]).length + 1)) := hi
  obtain ⟨bl, hbl, heq⟩ := readInner_chunk rblk hr (p.length + 1) _ p.length acc hi1 (by omega)
    (by rw [hrest]; simp only [List.length_append]; omega)
  refine ⟨bl, ?_, ?_⟩
  · rw [hbl, hrest]; simp [List.append_assoc]
  · rw [readChunkedLoop]
    simp only [live_dead hi, Bool.false_eq_true, if_false]
    rw [hrl]
    simp only []
    simp only [chunkLineValid_hexLower _ hp, Bool.not_true, Bool.false_eq_true, if_false]
    rw [hexToInt_hexLower _ (by omega)]
    rw [heq]
    simp only []
    rw [advance_advance]
    have hdat : ((i.advance ((hexLower p.length ++ [13]).length + 1 + p.length)).data) = crlf ++ tail := by
      rw [← advance_advance, advance_data, hrest]; simp [List.append_assoc]
    have htwo : List.take 2 (crlf ++ tail) = crlf := by simp [crlf]
    rw [hdat, htwo]
    have hi2 : Live (i.advance ((hexLower p.length ++ [13]).length + 1 + p.length)) := hi
    have hne : ¬ p.length = 0 := by omega
    have herr : (i.advance ((hexLower p.length ++ [13]).length + 1 + p.length)).err = false := hi2.2
    simp only [crlf, List.length_cons, List.length_nil, Nat.lt_irrefl, decide_false, Bool.or_false, if_false, hne, herr]
    rw [advance_advance]
    have hN : (hexLower p.length ++ [13]).length + 1 + p.length + (0 + 1 + 1) = (hexLower p.length).length + 2 + p.length + 2 := by
      omega
    rw [hN]
    congr 1
    simp [Inp.advance, hi.2]


theorem hexToInt_zero_cr : hexToInt [48, 13] = 0 := by decide

/-- the final `0 CRLF CRLF` ends the chunked loop -/
theorem readChunked_end (rblk : Nat) (f : Nat) (i : Inp) (acc : List Bytes) (rest : Bytes) (hi : Live i)
    (hd : i.data = lastChunk ++ rest) :
    readChunkedLoop rblk (f + 1) i 0 acc = (acc, i.advance 5) ∧ (i.advance 5).data = rest := by
  have hd' : i.data = [48, 13] ++ 10 :: ([13, 10] ++ rest) := by rw [hd]; simp [lastChunk]
  obtain ⟨hrl, hrest⟩ := readLine_line hi [48, 13] ([13, 10] ++ rest) (by decide) (by decide) hd'
  constructor
  · rw [readChunkedLoop]
    simp only [live_dead hi, Bool.false_eq_true, if_false]
    rw [hrl]
    have hi2 : (i.advance ([48, 13].length + 1)).err = false := hi.2
    have hlen : i.data.length = 5 + rest.length := by rw [hd]; simp [lastChunk]; omega
    have hv0 : chunkLineValid [48, 13] = true := by decide
    simp [hv0, hexToInt_zero_cr, readInner, hrest, hi2, advance_advance]
    have hmin : min 2 (i.data.length - 3) = 2 := by omega
    have htk : List.take 2 (List.drop 3 i.data) = [13, 10] := by rw [hd]; simp [lastChunk]
    have herr3 : (i.advance 3).err = false := hi.2
    simp only [hmin, htk, herr3, Nat.lt_irrefl, if_false, if_true, decide_false, Bool.or_false]
    simp [Inp.advance, hi.2]
  · simp [hd, lastChunk]

theorem writeLoop_chunked_length (blk : Nat) (hb : 0 < blk) :
    ∀ (wf : Nat) (b : Bytes), b.length ≤ wf → b.length ≤ (writeLoop true blk wf b).length := by
  intro wf
  induction wf with
  | zero => intro b h; have : b = [] := List.eq_nil_of_length_eq_zero (by omega); subst this; simp
  | succ wf ih =>
    intro b h
    unfold writeLoop
    by_cases he : b.isEmpty = true
    · simp only [he, if_true]; have := List.isEmpty_iff.mp he; subst this; simp
    · have hf : b.isEmpty = false := by simpa using he
      simp only [hf, Bool.false_eq_true, if_false]
      have hne : b ≠ [] := by intro h0; subst h0; simp at he
      have hl : 0 < b.length := List.length_pos_iff.mpr hne
      have h2 := ih (b.drop (min b.length blk)) (by rw [List.length_drop]; omega)
      simp only [frameBlock, if_true, List.length_append, List.length_take, List.length_drop] at h2 ⊢
      omega


/-- all the chunks written by one `write(buffer, n)` are consumed and their data collected -/
theorem readChunked_writeLoop (blk rblk : Nat) (hb : 0 < blk) (hb2 : blk < 2147483648) (hr : 0 < rblk) :
    ∀ (wf : Nat) (b : Bytes) (f : Nat) (i : Inp) (acc : List Bytes) (tail : Bytes), Live i → b.length ≤ wf → wf ≤ f →
      i.data = writeLoop true blk wf b ++ tail →
      ∃ (bl : List Bytes) (f' : Nat), f - wf ≤ f' ∧ bl.reverse.flatten = b ∧
        readChunkedLoop rblk f i 0 acc = readChunkedLoop rblk f' (i.advance (writeLoop true blk wf b).length) 0 (bl ++ acc) := by
  intro wf
  induction wf with
  | zero =>
    intro b f i acc tail hi hbl hf hd
    have : b = [] := List.eq_nil_of_length_eq_zero (by omega)
    subst this
    exact ⟨[], f, by omega, by simp, by simp [writeLoop, advance_zero]⟩
  | succ wf ih =>
    intro b f i acc tail hi hbl hf hd
    by_cases he : b.isEmpty = true
    · have := List.isEmpty_iff.mp he; subst this
      exact ⟨[], f, by omega, by simp, by simp [writeLoop, advance_zero]⟩
    · have hf0 : b.isEmpty = false := by simpa using he
      have hne : b ≠ [] := by intro h0; subst h0; simp at he
      have hl : 0 < b.length := List.length_pos_iff.mpr hne
      have hw : writeLoop true blk (wf + 1) b =
          hexLower (b.take (min b.length blk)).length ++ crlf ++ b.take (min b.length blk) ++ crlf ++
            writeLoop true blk wf (b.drop (min b.length blk)) := by
        rw [writeLoop]; simp only [hf0, Bool.false_eq_true, if_false, frameBlock, if_true]
      have hpl : (b.take (min b.length blk)).length = min b.length blk := by
        rw [List.length_take]; omega
      obtain ⟨f0, hf0'⟩ : ∃ f0, f = f0 + 1 := ⟨f - 1, by omega⟩
      subst hf0'
      have hd2 : i.data = hexLower (b.take (min b.length blk)).length ++ crlf ++ b.take (min b.length blk) ++ crlf ++
            (writeLoop true blk wf (b.drop (min b.length blk)) ++ tail) := by
        rw [hd, hw]; simp [List.append_assoc]
      obtain ⟨bl1, hbl1, heq1⟩ := readChunked_step rblk hr f0 i acc (b.take (min b.length blk))
        (writeLoop true blk wf (b.drop (min b.length blk)) ++ tail) hi (by omega) (by omega) hd2
      have hi' : Live (i.advance ((hexLower (b.take (min b.length blk)).length).length + 2 + (b.take (min b.length blk)).length + 2)) := hi
      have hd3 : (i.advance ((hexLower (b.take (min b.length blk)).length).length + 2 + (b.take (min b.length blk)).length + 2)).data =
          writeLoop true blk wf (b.drop (min b.length blk)) ++ tail := by
        rw [advance_data, hd2]
        have : (hexLower (b.take (min b.length blk)).length).length + 2 + (b.take (min b.length blk)).length + 2 =
            (hexLower (b.take (min b.length blk)).length ++ crlf ++ b.take (min b.length blk) ++ crlf).length := by
          simp [crlf]; omega
        rw [this, List.drop_left]
      obtain ⟨bl2, f', hf', hbl2, heq2⟩ := ih (b.drop (min b.length blk)) f0 _ (bl1 ++ acc) tail hi'
        (by rw [List.length_drop]; omega) (by omega) hd3
      refine ⟨bl2 ++ bl1, f', by omega, ?_, ?_⟩
      · simp only [List.reverse_append, List.flatten_append]
        rw [hbl1, hbl2, List.take_append_drop]
      · rw [heq1, heq2, advance_advance, hw]
        simp only [List.length_append, List.append_assoc]
        congr 2
        simp [crlf]
        omega


def sumLen (parts : List Bytes) : Nat := (parts.map List.length).sum

theorem wire_parts_length (blk : Nat) (hb : 0 < blk) : ∀ parts : List Bytes,
    sumLen parts ≤ ((parts.map (writeBody true blk)).flatten).length := by
  intro parts
  induction parts with
  | nil => simp [sumLen]
  | cons p t ih =>
    have := writeLoop_chunked_length blk hb p.length p (Nat.le_refl _)
    simp only [sumLen, List.map_cons, List.sum_cons, List.flatten_cons, List.length_append, writeBody] at ih ⊢
    omega

/-- a body streamed through several `write(part)` calls is collected part after part -/
theorem readChunked_parts (blk rblk : Nat) (hb : 0 < blk) (hb2 : blk < 2147483648) (hr : 0 < rblk) :
    ∀ (parts : List Bytes) (f : Nat) (i : Inp) (acc : List Bytes) (tail : Bytes), Live i → sumLen parts ≤ f →
      i.data = (parts.map (writeBody true blk)).flatten ++ tail →
      ∃ (bl : List Bytes) (f' : Nat), f - sumLen parts ≤ f' ∧ bl.reverse.flatten = parts.flatten ∧
        readChunkedLoop rblk f i 0 acc =
          readChunkedLoop rblk f' (i.advance ((parts.map (writeBody true blk)).flatten).length) 0 (bl ++ acc) := by
  intro parts
  induction parts with
  | nil =>
    intro f i acc tail hi hf hd
    exact ⟨[], f, by simp [sumLen], by simp, by simp [advance_zero]⟩
  | cons p t ih =>
    intro f i acc tail hi hf hd
    have hs : sumLen (p :: t) = p.length + sumLen t := by simp [sumLen]
    have hd1 : i.data = writeLoop true blk p.length p ++ ((t.map (writeBody true blk)).flatten ++ tail) := by
      rw [hd]; simp [writeBody, List.append_assoc]
    obtain ⟨bl1, f1, hf1, hbl1, heq1⟩ := readChunked_writeLoop blk rblk hb hb2 hr p.length p f i acc _ hi (Nat.le_refl _) (by omega) hd1
    have hi' : Live (i.advance (writeLoop true blk p.length p).length) := hi
    have hd2 : (i.advance (writeLoop true blk p.length p).length).data = (t.map (writeBody true blk)).flatten ++ tail := by
      rw [advance_data, hd1, List.drop_left]
    obtain ⟨bl2, f2, hf2, hbl2, heq2⟩ := ih f1 _ (bl1 ++ acc) tail hi' (by omega) hd2
    refine ⟨bl2 ++ bl1, f2, by omega, ?_, ?_⟩
    · simp only [List.reverse_append, List.flatten_append, List.flatten_cons]
      rw [hbl1, hbl2]
    · rw [heq1, heq2, advance_advance]
      simp [writeBody, List.append_assoc]

theorem header_absent {h : Dic} {name : Bytes} (hh : hasHeader h name = false) : header h name = [] := by
  unfold hasHeader at hh
  unfold header
  cases hg : dicGet h (capitalized name) with
  | none => rfl
  | some v => rw [hg] at hh; simp at hh

/-- `readBody` on a chunk-framed body followed by the final chunk: the parts' data, the connection just after -/
theorem readBody_chunked (blk rblk : Nat) (hb : 0 < blk) (hb2 : blk < 2147483648) (hr : 0 < rblk) (h : Dic) (parts : List Bytes)
    (rest : Bytes) (i : Inp) (hi : Live i)
    (hcl : hasHeader h sContentLength = false) (hte : teChunked (header h sTransferEncoding) = true)
    (hd : i.data = (parts.map (writeBody true blk)).flatten ++ lastChunk ++ rest) :
    readBodyWith rblk h i = (parts.flatten, i.advance (((parts.map (writeBody true blk)).flatten).length + 5)) ∧
      (i.advance (((parts.map (writeBody true blk)).flatten).length + 5)).data = rest := by
  have hw := wire_parts_length blk hb parts
  have hdl : i.data.length = ((parts.map (writeBody true blk)).flatten).length + 5 + rest.length := by
    rw [hd]; simp [lastChunk]; omega
  obtain ⟨bl, f', hf', hbl, heq⟩ := readChunked_parts blk rblk hb hb2 hr parts (i.data.length + 1) i [] (lastChunk ++ rest) hi
    (by omega) (by rw [hd]; simp [List.append_assoc])
  obtain ⟨f0, hf0⟩ : ∃ f0, f' = f0 + 1 := ⟨f' - 1, by omega⟩
  subst hf0
  have hi' : Live (i.advance ((parts.map (writeBody true blk)).flatten).length) := hi
  have hd2 : (i.advance ((parts.map (writeBody true blk)).flatten).length).data = lastChunk ++ rest := by
    rw [advance_data, hd, List.append_assoc, List.drop_left]
  obtain ⟨hend, hrest⟩ := readChunked_end rblk f0 _ (bl ++ []) rest hi' hd2
  constructor
  · unfold readBodyWith
    have hcl' : header h sContentLength = [] := header_absent hcl
    simp only [hcl, hcl', hte, Bool.false_eq_true, false_and, if_false, beq_self_eq_true, not_true_eq_false, and_false,
      if_true, atoi, digitLoop]
    rw [heq, hend, advance_advance]
    simp [hbl]
  · rw [← advance_advance]; exact hrest

theorem utoa_pos_ne_zero {n : Nat} (hn : 0 < n) : utoa n ≠ [48] := by
  intro h
  have := atoi_utoa n
  rw [h] at this
  have h0 : atoi [48] = 0 := by decide
  omega

/-- the text `String(n)` of a length that fits an `int` passes the Content-Length check -/
theorem clValid_utoa (n : Nat) (hn : n < 2147483648) : clValid (utoa n) = true := by
  have h1 := utoa_length n hn
  have h2 : 1 ≤ (utoa n).length := List.length_pos_iff.mpr (utoa_ne_nil n)
  have h3 : (utoa n).all (fun c => decide (48 ≤ c ∧ c ≤ 57)) = true := by
    rw [List.all_eq_true]; intro c hc; simpa [IsDigit] using utoa_digits n c hc
  have h4 : digitLoop (utoa n) 0 = n := digitLoop_digitsRev (n + 1) n (by omega)
  unfold clValid
  rw [h3, h4]
  simp only [Bool.and_true, Bool.and_eq_true, decide_eq_true_eq]
  omega

/-- `readBody` with `Content-Length: n`: exactly the next `n` bytes, for every fragmentation (`i.cuts` is arbitrary) -/
theorem readBody_len (rblk : Nat) (hr : 0 < rblk) (h : Dic) (body rest : Bytes) (i : Inp) (hi : Live i)
    (hcl : hasHeader h sContentLength = true) (hv : header h sContentLength = utoa body.length)
    (hte : teChunked (header h sTransferEncoding) = false) (hfits : body.length < 2147483648)
    (hd : i.data = body ++ rest) :
    readBodyWith rblk h i = (body, i.advance body.length) ∧ (i.advance body.length).data = rest := by
  have hval := clValid_utoa body.length hfits
  constructor
  · unfold readBodyWith
    by_cases hn : body.length = 0
    · have : body = [] := List.eq_nil_of_length_eq_zero hn
      subst this
      have hu : utoa 0 = [48] := by decide
      have hte' := hte
      have hv0 : clValid [48] = true := by decide
      have ha0 : atoi [48] = 0 := by decide
      simp [hcl, hv, hu, hte', hv0, ha0, advance_zero]
    · have hne : utoa body.length ≠ [48] := utoa_pos_ne_zero (by omega)
      have hte' := hte
      simp only [hcl, hv, hn, hte', hval, and_false, if_false, if_true, Bool.false_eq_true, not_true_eq_false, false_and, atoi_utoa]
      obtain ⟨bl, hbl, heq⟩ := readLenLoop_exact rblk hr (i.data.length + 1) i body.length [] hi
        (by rw [hd]; simp; omega) (by omega) (by rw [hd]; simp)
      rw [heq]
      simp [hbl, hd]
  · simp [hd]




/-! ### `Dic` lookups -/

theorem dicGet_dicSet_same (d : Dic) (k v : Bytes) : dicGet (dicSet d k v) k = some v := by
  induction d with
  | nil => simp [dicSet, dicGet]
  | cons kv t ih =>
    obtain ⟨k', v'⟩ := kv
    unfold dicSet
    by_cases h1 : k' = k
    · simp [h1, dicGet]
    · simp only [h1, if_false]
      by_cases h2 : ltBytes k k' = true
      · simp [h2, dicGet]
      · simp only [h2, Bool.false_eq_true, if_false, dicGet, h1]
        exact ih

theorem dicGet_dicSet_other (d : Dic) (k v k2 : Bytes) (hne : k2 ≠ k) : dicGet (dicSet d k v) k2 = dicGet d k2 := by
  induction d with
  | nil =>
    have : ¬ k = k2 := fun h => hne h.symm
    simp [dicSet, dicGet, this]
  | cons kv t ih =>
    obtain ⟨k', v'⟩ := kv
    have hk : ¬ k = k2 := fun h => hne h.symm
    unfold dicSet
    by_cases h1 : k' = k
    · subst h1
      simp [dicGet, hk]
    · simp only [h1, if_false]
      by_cases h2 : ltBytes k k' = true
      · simp [h2, dicGet, hk]
      · simp only [h2, Bool.false_eq_true, if_false, dicGet]
        by_cases h3 : k' = k2
        · simp [h3]
        · simp only [h3, if_false]; exact ih

theorem setHeader_of_value {h : Dic} {n v : Bytes} (hv : v ≠ []) : setHeader h n v = dicSet h (capitalized n) v := by
  unfold setHeader
  have : v.isEmpty = false := by cases v <;> simp_all
  simp [this]

/-- headers whose capitalized name differs from `K` do not change what is stored under `K` -/
theorem foldl_setHeader_preserve (K : Bytes) : ∀ (l : List (Bytes × Bytes)) (d : Dic),
    (∀ x ∈ l, x.2 ≠ [] ∧ capitalized x.1 ≠ K) → dicGet (l.foldl (fun d nv => setHeader d nv.1 nv.2) d) K = dicGet d K := by
  intro l
  induction l with
  | nil => intro d _; rfl
  | cons x t ih =>
    intro d hx
    have h0 := hx x List.mem_cons_self
    simp only [List.foldl_cons]
    rw [ih _ (fun y hy => hx y (List.mem_cons_of_mem _ hy)), setHeader_of_value h0.1]
    exact dicGet_dicSet_other d _ _ K (fun h => h0.2 h.symm)

/-- the last header line whose capitalized name is `K` is the one that is kept -/
theorem foldl_setHeader_found (K : Bytes) (l1 l2 : List (Bytes × Bytes)) (n v : Bytes) (d : Dic)
    (hv : v ≠ []) (hn : capitalized n = K) (h2 : ∀ x ∈ l2, x.2 ≠ [] ∧ capitalized x.1 ≠ K) :
    dicGet ((l1 ++ (n, v) :: l2).foldl (fun d nv => setHeader d nv.1 nv.2) d) K = some v := by
  rw [List.foldl_append, List.foldl_cons, foldl_setHeader_preserve K l2 _ h2, setHeader_of_value hv, hn]
  exact dicGet_dicSet_same _ _ _

theorem dicSet_split (d : Dic) (k v : Bytes) : ∃ l1 l2, dicSet d k v = l1 ++ (k, v) :: l2 ∧ (∀ x ∈ l1, x ∈ d) ∧ (∀ x ∈ l2, x ∈ d) := by
  induction d with
  | nil => exact ⟨[], [], by simp [dicSet], by simp, by simp⟩
  | cons kv t ih =>
    obtain ⟨k', v'⟩ := kv
    unfold dicSet
    by_cases h1 : k' = k
    · exact ⟨[], t, by simp [h1], by simp, fun x hx => List.mem_cons_of_mem _ hx⟩
    · simp only [h1, if_false]
      by_cases h2 : ltBytes k k' = true
      · exact ⟨[], (k', v') :: t, by simp [h2], by simp, fun x hx => hx⟩
      · obtain ⟨l1, l2, he, ha, hb⟩ := ih
        refine ⟨(k', v') :: l1, l2, by simp [h2, he], ?_, fun x hx => List.mem_cons_of_mem _ (hb x hx)⟩
        intro x hx
        rcases List.mem_cons.mp hx with h | h
        · rw [h]; exact List.mem_cons_self
        · exact List.mem_cons_of_mem _ (ha x h)


/-! ### one header line -/

/-- a field name: not empty, no colon, no white space (so also no CR / LF) -/
def WFName (n : Bytes) : Prop := n ≠ [] ∧ ∀ c ∈ n, c ≠ 58 ∧ cIsSpace c = false ∧ 32 < c ∧ c ≠ 127

/-- a well-formed name passes the token test of `readHeaders` (9bf376e) -/
theorem wfname_token {n : Bytes} (hn : WFName n) :
    ¬ (n.length = 0 ∨ (n.all fun c => decide (32 < c) && c != 127) = false) := by
  intro h
  rcases h with h | h
  · exact hn.1 (List.eq_nil_of_length_eq_zero h)
  · have : (n.all fun c => decide (32 < c) && c != 127) = true := by
      rw [List.all_eq_true]
      intro c hc
      obtain ⟨_, _, h3, h4⟩ := hn.2 c hc
      simp [h3, h4]
    rw [this] at h; cases h

/-- a field value: not empty, no LF, no white space at either end -/
def WFValue (v : Bytes) : Prop :=
  v ≠ [] ∧ (∀ c ∈ v, c ≠ 10) ∧ (∀ c, v.head? = some c → isSpace c = false) ∧ (∀ c, v.getLast? = some c → isSpace c = false)

theorem cIsSpace_isSpace {c : UInt8} (h : cIsSpace c = false) : isSpace c = false ∧ c ≠ 10 ∧ c ≠ 13 := by
  unfold cIsSpace at h
  simp only [Bool.or_eq_false_iff, Bool.and_eq_false_iff, beq_eq_false_iff_ne, decide_eq_false_iff_not] at h
  obtain ⟨h32, h2⟩ := h
  have hx : ∀ k : UInt8, 9 ≤ k → k ≤ 13 → c ≠ k := by
    intro k hk1 hk2 hck; subst hck
    rcases h2 with h | h
    · exact h hk1
    · exact h hk2
  refine ⟨?_, hx 10 (by decide) (by decide), hx 13 (by decide) (by decide)⟩
  unfold isSpace
  simp [h32, hx 10 (by decide) (by decide), hx 13 (by decide) (by decide), hx 9 (by decide) (by decide)]

theorem trimStart_id {s : Bytes} (h : ∀ c, s.head? = some c → isSpace c = false) : trimStart s = s := by
  unfold trimStart
  cases s with
  | nil => rfl
  | cons a t =>
    have := h a rfl
    rw [List.dropWhile_cons_of_neg (by simp [this])]

theorem trimEnd_id {s : Bytes} (h : ∀ c, s.getLast? = some c → isSpace c = false) : trimEnd s = s := by
  unfold trimEnd
  have : s.reverse.dropWhile isSpace = s.reverse := by
    cases hr : s.reverse with
    | nil => rfl
    | cons a t =>
      have hl : s.getLast? = some a := by
        rw [← List.head?_reverse, hr]; rfl
      have := h a hl
      rw [List.dropWhile_cons_of_neg (by simp [this])]
  rw [this, List.reverse_reverse]

theorem trimEnd_cr (s : Bytes) : trimEnd (s ++ [13]) = trimEnd s := by
  unfold trimEnd
  rw [List.reverse_append]
  simp only [List.reverse_cons, List.reverse_nil, List.nil_append, List.singleton_append]
  rw [List.dropWhile_cons_of_pos (by decide)]

theorem indexOfByte_append (c : UInt8) (n t : Bytes) (hn : ∀ x ∈ n, x ≠ c) : indexOfByte c (n ++ c :: t) = some n.length := by
  induction n with
  | nil => simp [indexOfByte]
  | cons a n ih =>
    have ha : (a == c) = false := by simpa using hn a List.mem_cons_self
    simp only [List.cons_append, indexOfByte, ha, Bool.false_eq_true, if_false, List.length_cons]
    rw [ih (fun x hx => hn x (List.mem_cons_of_mem _ hx))]
    rfl

theorem getLast?_append_ne {a b : Bytes} (hb : b ≠ []) : (a ++ b).getLast? = b.getLast? := by
  cases b with
  | nil => exact absurd rfl hb
  | cons x t =>
    rw [List.getLast?_append]
    have : (x :: t).getLast? = some ((x :: t).getLast (by simp)) := List.getLast?_eq_some_getLast (by simp)
    rw [this]; rfl

/-- the text of a header line (without its LF) parses back into its name and value -/
theorem header_line_parse {n v : Bytes} (hn : WFName n) (hv : WFValue v) :
    let line := n ++ [58, 32] ++ v ++ [13]
    line ≠ [13] ∧ cIsSpace (line.headD 0) = false ∧
      indexOfByte 58 (trimmed line) = some n.length ∧
      (trimmed line).take n.length = n ∧ trimmed ((trimmed line).drop (n.length + 1)) = v := by
  obtain ⟨hn0, hnc⟩ := hn
  obtain ⟨hv0, _, hvh, hvl⟩ := hv
  obtain ⟨a, n', hna⟩ := List.exists_cons_of_ne_nil hn0
  have ha := hnc a (by rw [hna]; exact List.mem_cons_self)
  intro line
  have hline : line = n ++ [58, 32] ++ v ++ [13] := rfl
  -- trimmed line = n ++ ": " ++ v
  have ht : trimmed line = n ++ 58 :: ([32] ++ v) := by
    unfold trimmed
    have h1 : trimStart line = line := by
      apply trimStart_id
      intro c hc
      rw [hline, hna] at hc
      simp only [List.cons_append, List.head?_cons, Option.some.injEq] at hc
      subst hc
      exact (cIsSpace_isSpace ha.2.1).1
    rw [h1, hline, trimEnd_cr]
    have h2 : trimEnd (n ++ [58, 32] ++ v) = n ++ [58, 32] ++ v := by
      apply trimEnd_id
      intro c hc
      rw [getLast?_append_ne hv0] at hc
      exact hvl c hc
    rw [h2]; simp
  refine ⟨?_, ?_, ?_, ?_, ?_⟩
  · rw [hline, hna]; simp
  · rw [hline, hna]; simp only [List.cons_append, List.headD_cons]; exact ha.2.1
  · rw [ht]; exact indexOfByte_append 58 n _ (fun x hx => (hnc x hx).1)
  · rw [ht]; simp
  · rw [ht]
    have : (n ++ 58 :: ([32] ++ v)).drop (n.length + 1) = [32] ++ v := by
      rw [show n ++ 58 :: ([32] ++ v) = (n ++ [58]) ++ ([32] ++ v) by simp]
      rw [show n.length + 1 = (n ++ [58]).length by simp, List.drop_left]
    rw [this]
    unfold trimmed
    have h1 : trimStart ([32] ++ v) = v := by
      unfold trimStart
      simp only [List.singleton_append]
      rw [List.dropWhile_cons_of_pos (by decide)]
      exact trimStart_id hvh
    rw [h1]
    exact trimEnd_id hvl


/-! ### the header block -/

/-- a header line fits into `readLine`'s 16001-byte limit -/
def FitsLine (n v : Bytes) : Prop := n.length + v.length + 3 ≤ 16001

theorem storeHeader_of_value {h : Dic} {n v : Bytes} (hv : v ≠ []) : storeHeader h n v = setHeader h n v := by
  rw [setHeader_of_value hv]; rfl

theorem readHeaders_step (f : Nat) (i : Inp) (h : Dic) (ln lv n v tail : Bytes) (hi : Live i)
    (hn : WFName n) (hv : WFValue v) (hfit : FitsLine n v)
    (hd : i.data = n ++ [58, 32] ++ v ++ crlf ++ tail) :
    readHeadersLoop (f + 1) i h ln lv =
      readHeadersLoop f (i.advance (n.length + 2 + v.length + 2)) (setHeader h n v) n v ∧
    (i.advance (n.length + 2 + v.length + 2)).data = tail := by
  have hd' : i.data = (n ++ [58, 32] ++ v ++ [13]) ++ 10 :: tail := by rw [hd]; simp [crlf]
  have hnolf : ∀ c ∈ n ++ [58, 32] ++ v ++ [13], c ≠ 10 := by
    intro c hc
    simp only [List.mem_append, List.mem_cons, List.mem_singleton, List.not_mem_nil, or_false] at hc
    rcases hc with ((h1 | h1) | h1) | h1
    · exact (cIsSpace_isSpace (hn.2 c h1).2.1).2.1
    · rcases h1 with h1 | h1 <;> subst h1 <;> decide
    · exact hv.2.1 c h1
    · subst h1; decide
  have hll : (n ++ [58, 32] ++ v ++ [13]).length = n.length + 2 + v.length + 1 := by simp; omega
  obtain ⟨hrl, hrest⟩ := readLine_line hi _ tail hnolf (by rw [hll]; unfold FitsLine at hfit; omega) hd'
  obtain ⟨p1, p2, p3, p4, p5⟩ := header_line_parse hn hv
  constructor
  · rw [readHeadersLoop, hrl]
    simp only [p1, if_false, p2, Bool.false_eq_true, p3, p4, p5]
    rw [if_neg (wfname_token hn), hll, storeHeader_of_value hv.1]
  · rw [hll] at hrest; exact hrest

theorem readHeaders_end (f : Nat) (i : Inp) (h : Dic) (ln lv rest : Bytes) (hi : Live i) (hd : i.data = crlf ++ rest) :
    readHeadersLoop (f + 1) i h ln lv = (h, i.advance 2) ∧ (i.advance 2).data = rest := by
  have hd' : i.data = [13] ++ 10 :: rest := by rw [hd]; simp [crlf]
  obtain ⟨hrl, hrest⟩ := readLine_line hi [13] rest (by decide) (by decide) hd'
  constructor
  · rw [readHeadersLoop, hrl]; simp
  · exact hrest

/-- every line of a header list is well formed -/
def WFHeaders (hs : List (Bytes × Bytes)) : Prop := ∀ nv ∈ hs, WFName nv.1 ∧ WFValue nv.2 ∧ FitsLine nv.1 nv.2

theorem headerLines_length (hs : Dic) : hs.length ≤ (headerLines hs).length := by
  induction hs with
  | nil => simp [headerLines]
  | cons nv t ih => obtain ⟨n, v⟩ := nv; simp [headerLines, crlf]; omega

/-- reading the header lines the sender wrote applies `setHeader` to each, in order, and stops after the blank line -/
theorem readHeaders_lines : ∀ (hs : List (Bytes × Bytes)) (f : Nat) (i : Inp) (h : Dic) (ln lv rest : Bytes), Live i →
    WFHeaders hs → hs.length < f → i.data = headerLines hs ++ crlf ++ rest →
    readHeadersLoop f i h ln lv =
      (hs.foldl (fun d nv => setHeader d nv.1 nv.2) h, i.advance ((headerLines hs).length + 2)) ∧
    (i.advance ((headerLines hs).length + 2)).data = rest := by
  intro hs
  induction hs with
  | nil =>
    intro f i h ln lv rest hi _ hf hd
    obtain ⟨f0, rfl⟩ : ∃ f0, f = f0 + 1 := ⟨f - 1, by simp at hf; omega⟩
    have := readHeaders_end f0 i h ln lv rest hi (by simpa [headerLines] using hd)
    simpa [headerLines] using this
  | cons nv t ih =>
    intro f i h ln lv rest hi hwf hf hd
    obtain ⟨n, v⟩ := nv
    obtain ⟨f0, rfl⟩ : ∃ f0, f = f0 + 1 := ⟨f - 1, by simp at hf; omega⟩
    have h0 := hwf (n, v) List.mem_cons_self
    have hd1 : i.data = n ++ [58, 32] ++ v ++ crlf ++ (headerLines t ++ crlf ++ rest) := by
      rw [hd]; simp [headerLines, List.append_assoc]
    obtain ⟨hstep, hdat⟩ := readHeaders_step f0 i h ln lv n v _ hi h0.1 h0.2.1 h0.2.2 hd1
    have hi' : Live (i.advance (n.length + 2 + v.length + 2)) := hi
    obtain ⟨hrec, hdat2⟩ := ih f0 _ (setHeader h n v) n v rest hi' (fun x hx => hwf x (List.mem_cons_of_mem _ hx))
      (by simp at hf; omega) hdat
    have hlen : (headerLines ((n, v) :: t)).length + 2 = n.length + 2 + v.length + 2 + ((headerLines t).length + 2) := by
      simp [headerLines, crlf]; omega
    constructor
    · rw [hstep, hrec, advance_advance, hlen]; rfl
    · rw [hlen, ← advance_advance]; exact hdat2




/-! ### request line and status line -/

/-- a word of the first line: not empty, no blank, no LF -/
def WFWord (w : Bytes) : Prop := w ≠ [] ∧ ∀ c ∈ w, c ≠ 32 ∧ c ≠ 10

theorem indexOfFrom_eq (c : UInt8) (s : Bytes) (k : Nat) (n : Nat) (h : indexOfByte c (s.drop k) = some n) :
    indexOfFrom c s k = some (n + k) := by
  unfold indexOfFrom; rw [h]; rfl

/-- the two protocol texts of HTTP/1.x messages -/
def IsProto (p : Bytes) : Prop := p = sHttp11 ∨ p = sHttp10

theorem proto_ok {p : Bytes} (h : IsProto p) : p ≠ [] ∧ (∀ c ∈ p, isSpace c = false) ∧ p.length = 8 := by
  rcases h with h | h <;> subst h <;> exact ⟨by decide, by decide, by decide⟩

theorem proto_trim {p : Bytes} (h : IsProto p) : trimmed (p ++ [13]) = p ∧ (∀ c ∈ p, c ≠ 10) := by
  rcases h with h | h <;> subst h <;> exact ⟨by decide, by decide⟩

theorem request_line_parse {method target proto : Bytes} (hm : WFWord method) (ht : WFWord target)
    (hp : trimmed (proto ++ [13]) = proto) :
    let cmd := method ++ [32] ++ target ++ [32] ++ proto ++ [13]
    cmd.isEmpty = false ∧
    indexOfByte 32 cmd = some method.length ∧
    indexOfFrom 32 cmd (method.length + 1) = some (target.length + (method.length + 1)) ∧
    cmd.take method.length = method ∧
    (cmd.drop (method.length + 1)).take (target.length + (method.length + 1) - (method.length + 1)) = target ∧
    trimmed (cmd.drop (target.length + (method.length + 1) + 1)) = proto := by
  intro cmd
  have hcmd : cmd = method ++ 32 :: (target ++ 32 :: (proto ++ [13])) := by simp [cmd]
  obtain ⟨a, m', hma⟩ := List.exists_cons_of_ne_nil hm.1
  have hd1 : cmd.drop (method.length + 1) = target ++ 32 :: (proto ++ [13]) := by
    rw [hcmd, show method ++ 32 :: (target ++ 32 :: (proto ++ [13])) = (method ++ [32]) ++ (target ++ 32 :: (proto ++ [13])) by simp,
      show method.length + 1 = (method ++ [32]).length by simp, List.drop_left]
  refine ⟨?_, ?_, ?_, ?_, ?_, ?_⟩
  · rw [hcmd, hma]; rfl
  · rw [hcmd]; exact indexOfByte_append 32 method _ (fun x hx => (hm.2 x hx).1)
  · apply indexOfFrom_eq
    rw [hd1]; exact indexOfByte_append 32 target _ (fun x hx => (ht.2 x hx).1)
  · rw [hcmd]; simp
  · rw [hd1]; simp
  · have : cmd.drop (target.length + (method.length + 1) + 1) = proto ++ [13] := by
      rw [show target.length + (method.length + 1) + 1 = (method.length + 1) + (target.length + 1) by omega, ← List.drop_drop, hd1,
        show target ++ 32 :: (proto ++ [13]) = (target ++ [32]) ++ (proto ++ [13]) by simp,
        show target.length + 1 = (target ++ [32]).length by simp, List.drop_left]
    rw [this]; exact hp

/-- `String::split()` peels off a leading word -/
theorem splitWs_word (w t : Bytes) (hw0 : w ≠ []) (hw : ∀ c ∈ w, isSpace c = false) : splitWs (w ++ 32 :: t) = w :: splitWs t := by
  unfold splitWs
  rw [List.foldr_append]
  simp only [List.foldr_cons]
  have h32 : isSpace 32 = true := by decide
  simp only [h32, if_true]
  generalize hr : List.foldr (fun c (acc : Bytes × List Bytes) =>
      if isSpace c = true then ([], if acc.1.isEmpty = true then acc.2 else acc.1 :: acc.2) else (c :: acc.1, acc.2)) ([], []) t = r
  -- folding the non-blank letters of `w` just conses them
  have hfold : ∀ (w : Bytes), (∀ c ∈ w, isSpace c = false) → ∀ (cur : Bytes) (ws : List Bytes),
      List.foldr (fun c (acc : Bytes × List Bytes) =>
        if isSpace c = true then ([], if acc.1.isEmpty = true then acc.2 else acc.1 :: acc.2) else (c :: acc.1, acc.2)) (cur, ws) w
        = (w ++ cur, ws) := by
    intro w
    induction w with
    | nil => intro _ cur ws; rfl
    | cons a w ih =>
      intro hw cur ws
      have ha := hw a List.mem_cons_self
      simp only [List.foldr_cons, ih (fun c hc => hw c (List.mem_cons_of_mem _ hc)), ha, Bool.false_eq_true, if_false, List.cons_append]
  rw [hfold w hw]
  simp [hw0]


/-! ### whole messages -/

/-- what the reader stores for a list of header lines -/
def norm (hs : List (Bytes × Bytes)) : Dic := hs.foldl (fun d nv => setHeader d nv.1 nv.2) []

/-- how the body follows the header block, as the stored headers `H` announce it: `Framed blk H wire body` -/
inductive Framed (blk : Nat) (H : Dic) : Bytes → Bytes → Prop
  | len (body : Bytes) : hasHeader H sContentLength = true → header H sContentLength = utoa body.length →
      teChunked (header H sTransferEncoding) = false → body.length < 2147483648 → Framed blk H body body
  | chunked (parts : List Bytes) : hasHeader H sContentLength = false → teChunked (header H sTransferEncoding) = true →
      Framed blk H ((parts.map (writeBody true blk)).flatten ++ lastChunk) parts.flatten
  | none : hasHeader H sContentLength = false → teChunked (header H sTransferEncoding) = false → Framed blk H [] []

theorem readBody_framed (blk rblk : Nat) (hb : 0 < blk) (hb2 : blk < 2147483648) (hr : 0 < rblk) (H : Dic) (w body rest : Bytes)
    (hf : Framed blk H w body) (i : Inp) (hi : Live i) (hd : i.data = w ++ rest) :
    readBodyWith rblk H i = (body, i.advance w.length) ∧ (i.advance w.length).data = rest := by
  cases hf with
  | len _ hcl hv hte hfits => exact readBody_len rblk hr H _ rest i hi hcl hv hte hfits hd
  | chunked parts hcl hte =>
    have := readBody_chunked blk rblk hb hb2 hr H parts rest i hi hcl hte (by rw [hd])
    simpa [lastChunk] using this
  | none hcl hte =>
    have hte' := hte
    constructor
    · unfold readBodyWith; simp [hcl, hte', advance_zero]
    · simpa using hd

theorem recvBlock_pos : 0 < recvBlock := by decide
theorem sendBlock_pos : 0 < sendBlock := by decide
theorem sendBlock_lt : sendBlock < 2147483648 := by decide

/-- `BodyReads H w body`: after the stored headers `H`, `readBody` takes exactly the bytes `w` off any live connection
(whatever follows, whatever the fragmentation) and yields `body` -/
def BodyReads (H : Dic) (w body : Bytes) : Prop :=
  ∀ (i : Inp) (rest : Bytes), Live i → i.data = w ++ rest →
    ∃ i' : Inp, readBody H i = (body, i') ∧ i'.data = rest ∧ Live i'

theorem framed_reads (blk : Nat) (hb : 0 < blk) (hb2 : blk < 2147483648) {H : Dic} {w body : Bytes}
    (hf : Framed blk H w body) : BodyReads H w body := by
  intro i rest hi hd
  obtain ⟨h1, h2⟩ := readBody_framed blk recvBlock hb hb2 recvBlock_pos H w body rest hf i hi hd
  exact ⟨_, h1, h2, hi⟩

/-- the transfer coding of a request, if one is named, ends in `chunked`: anything else is refused by `HttpRequest::read`
(4dff910: the length of such a message cannot be known) -/
def CodingOk (H : Dic) : Prop := hasHeader H sTransferEncoding = true → teChunked (header H sTransferEncoding) = true

theorem codingOk_of_framed {blk : Nat} {H : Dic} {w body : Bytes} (hf : Framed blk H w body)
    (hno : teChunked (header H sTransferEncoding) = false → hasHeader H sTransferEncoding = false) : CodingOk H := by
  intro hh
  cases hte : teChunked (header H sTransferEncoding) with
  | true => rfl
  | false => rw [hno hte] at hh; cases hh

theorem codingOk_of_chunked {H : Dic} (h : teChunked (header H sTransferEncoding) = true) : CodingOk H := fun _ => h

/-- `HttpRequest::read` on the bytes of a request: first line, header lines, body; then whatever follows -/
theorem readRequest_wire (method target proto : Bytes) (hs : List (Bytes × Bytes))
    (w body rest : Bytes) (hm : WFWord method) (ht : WFWord target) (hp : IsProto proto)
    (hfit : method.length + target.length + 11 ≤ 16001)
    (hwf : WFHeaders hs) (hco : CodingOk (norm hs)) (hf : BodyReads (norm hs) w body) (i : Inp) (hi : Live i)
    (hd : i.data = method ++ [32] ++ target ++ [32] ++ proto ++ crlf ++ headerLines hs ++ crlf ++ w ++ rest) :
    ∃ i' : Inp, readRequest i =
      ({ method := method, resource := target, proto := proto, headers := norm hs, body := body,
         path := (splitTarget target).1, querystring := (splitTarget target).2.1, fragment := (splitTarget target).2.2 }, i') ∧
      i'.data = rest ∧ Live i' := by
  obtain ⟨hp1, hp2⟩ := proto_trim hp
  obtain ⟨_, _, hplen⟩ := proto_ok hp
  have hd' : i.data = (method ++ [32] ++ target ++ [32] ++ proto ++ [13]) ++ 10 :: (headerLines hs ++ crlf ++ (w ++ rest)) := by
    rw [hd]; simp [crlf, List.append_assoc]
  have hnolf : ∀ c ∈ method ++ [32] ++ target ++ [32] ++ proto ++ [13], c ≠ 10 := by
    intro c hc
    simp only [List.mem_append, List.mem_cons, List.not_mem_nil, or_false] at hc
    rcases hc with ((((h1 | h1) | h1) | h1) | h1) | h1
    · exact (hm.2 c h1).2
    · subst h1; decide
    · exact (ht.2 c h1).2
    · subst h1; decide
    · exact hp2 c h1
    · subst h1; decide
  have hll : (method ++ [32] ++ target ++ [32] ++ proto ++ [13]).length = method.length + target.length + 11 := by
    simp [hplen]; omega
  obtain ⟨hrl, hrest⟩ := readLine_line hi _ _ hnolf (by rw [hll]; omega) hd'
  obtain ⟨q1, q2, q3, q4, q5, q6⟩ := request_line_parse (proto := proto) hm ht hp1
  have hi1 : Live (i.advance ((method ++ [32] ++ target ++ [32] ++ proto ++ [13]).length + 1)) := hi
  obtain ⟨hrh, hdat⟩ := readHeaders_lines hs ((i.advance ((method ++ [32] ++ target ++ [32] ++ proto ++ [13]).length + 1)).data.length + 1)
    _ [] [] [] (w ++ rest) hi1 hwf
    (by rw [hrest]; have := headerLines_length hs; simp only [List.length_append]; omega) hrest
  have hi2 : Live ((i.advance ((method ++ [32] ++ target ++ [32] ++ proto ++ [13]).length + 1)).advance ((headerLines hs).length + 2)) := hi
  obtain ⟨i', hrb, hdat2, hlive2⟩ := hf _ rest hi2 hdat
  refine ⟨i', ?_, hdat2, hlive2⟩
  unfold readRequest
  rw [hrl]
  have herr : (i.advance ((method ++ [32] ++ target ++ [32] ++ proto ++ [13]).length + 1)).err = false := hi.2
  simp only [q1, herr, Bool.false_eq_true, or_self, if_false, q2, q3, q4, q5, q6]
  unfold readHeaders
  rw [hrh]
  simp only []
  have hnot : ¬ (hasHeader (norm hs) sTransferEncoding = true ∧ teChunked (header (norm hs) sTransferEncoding) = false) := by
    intro ⟨a, b⟩; rw [hco a] at b; cases b
  unfold norm at hrb hnot
  rw [if_neg hnot, hrb]
  rfl

theorem digit_not_space {c : UInt8} (h : IsDigit c) : isSpace c = false ∧ c ≠ 10 := by
  have hx : ∀ k : UInt8, k < 48 → c ≠ k := by
    intro k hk hck; subst hck
    exact absurd h.1 (by simpa using hk)
  refine ⟨?_, hx 10 (by decide)⟩
  unfold isSpace
  simp [hx 32 (by decide), hx 10 (by decide), hx 13 (by decide), hx 9 (by decide)]

theorem skipContinue_final (f : Nat) (code : Nat) (proto : Bytes) (h : Dic) (i : Inp) (hc : code ≠ 100) :
    skipContinue f (code, proto, h, i) = some (code, proto, h, i) := by
  cases f with
  | zero => rfl
  | succ f => simp [skipContinue, hc]

/-- the status line and what follows it, as `Http::request` reads them (a final status, i.e. not the interim 100) -/
theorem readResponse_wire (proto msg : Bytes) (code : Nat)
    (hs : List (Bytes × Bytes)) (w body rest : Bytes)
    (hp0 : proto ≠ []) (hp : ∀ c ∈ proto, isSpace c = false) (hmsg : ∀ c ∈ msg, c ≠ 10) (hfinal : code ≠ 100)
    (hfit : proto.length + (utoa code).length + msg.length + 3 ≤ 16001)
    (hwf : WFHeaders hs) (hf : BodyReads (norm hs) w body) (i : Inp) (hi : Live i)
    (hd : i.data = proto ++ [32] ++ utoa code ++ [32] ++ msg ++ crlf ++ headerLines hs ++ crlf ++ w ++ rest) :
    ∃ i' : Inp, readResponse i = ({ code := code, proto := proto, headers := norm hs, body := body, sockError := [] }, i') ∧
      i'.data = rest ∧ Live i' := by
  have hd' : i.data = (proto ++ [32] ++ utoa code ++ [32] ++ msg ++ [13]) ++ 10 :: (headerLines hs ++ crlf ++ (w ++ rest)) := by
    rw [hd]; simp [crlf, List.append_assoc]
  have hnolf : ∀ c ∈ proto ++ [32] ++ utoa code ++ [32] ++ msg ++ [13], c ≠ 10 := by
    intro c hc
    simp only [List.mem_append, List.mem_cons, List.not_mem_nil, or_false] at hc
    rcases hc with ((((h1 | h1) | h1) | h1) | h1) | h1
    · intro h10; subst h10; have := hp 10 h1; revert this; decide
    · subst h1; decide
    · exact (digit_not_space (utoa_digits code c h1)).2
    · subst h1; decide
    · exact hmsg c h1
    · subst h1; decide
  have hll : (proto ++ [32] ++ utoa code ++ [32] ++ msg ++ [13]).length = proto.length + (utoa code).length + msg.length + 3 := by
    simp; omega
  obtain ⟨hrl, hrest⟩ := readLine_line hi _ _ hnolf (by rw [hll]; omega) hd'
  have hi1 : Live (i.advance ((proto ++ [32] ++ utoa code ++ [32] ++ msg ++ [13]).length + 1)) := hi
  obtain ⟨hrh, hdat⟩ := readHeaders_lines hs ((i.advance ((proto ++ [32] ++ utoa code ++ [32] ++ msg ++ [13]).length + 1)).data.length + 1)
    _ [] [] [] (w ++ rest) hi1 hwf
    (by rw [hrest]; have := headerLines_length hs; simp only [List.length_append]; omega) hrest
  have hi2 : Live ((i.advance ((proto ++ [32] ++ utoa code ++ [32] ++ msg ++ [13]).length + 1)).advance ((headerLines hs).length + 2)) := hi
  obtain ⟨i', hrb, hdat2, hlive2⟩ := hf _ rest hi2 hdat
  have hsplit : splitWs (proto ++ [32] ++ utoa code ++ [32] ++ msg ++ [13]) = proto :: utoa code :: splitWs (msg ++ [13]) := by
    rw [show proto ++ [32] ++ utoa code ++ [32] ++ msg ++ [13] = proto ++ 32 :: (utoa code ++ 32 :: (msg ++ [13])) by simp]
    rw [splitWs_word proto _ hp0 hp, splitWs_word (utoa code) _ (utoa_ne_nil code)
      (fun c hc => (digit_not_space (utoa_digits code c hc)).1)]
  have hne : (proto ++ [32] ++ utoa code ++ [32] ++ msg ++ [13]).isEmpty = false := by
    cases proto with
    | nil => exact absurd rfl hp0
    | cons a t => rfl
  refine ⟨i', ?_, hdat2, hlive2⟩
  unfold readResponse readResponseHead
  rw [hrl]
  simp only [hne, Bool.false_eq_true, if_false, hsplit]
  unfold readHeaders
  rw [hrh]
  simp only [atoi_utoa]
  have hcl := hi2.1
  simp only [hcl, Bool.false_eq_true, if_false]
  rw [skipContinue_final _ _ _ _ _ hfinal]
  simp only [hcl, Bool.false_eq_true, if_false]
  unfold norm at hrb
  rw [hrb]
  rfl

/-! ### what `Http::request` and the server put on the wire, in the shape the reader lemmas need -/

def sHostName : Bytes := [72, 111, 115, 116]

theorem mem_dicSet {d : Dic} {k v : Bytes} {x : Bytes × Bytes} (h : x ∈ dicSet d k v) : x = (k, v) ∨ x ∈ d := by
  obtain ⟨l1, l2, he, h1, h2⟩ := dicSet_split d k v
  rw [he] at h
  rcases List.mem_append.mp h with h | h
  · exact Or.inr (h1 x h)
  · rcases List.mem_cons.mp h with h | h
    · exact Or.inl h
    · exact Or.inr (h2 x h)

theorem wf_digits_value (n : Nat) : WFValue (utoa n) := by
  refine ⟨utoa_ne_nil n, fun c hc => (digit_not_space (utoa_digits n c hc)).2, ?_, ?_⟩
  · intro c hc
    exact (digit_not_space (utoa_digits n c (List.mem_of_mem_head? hc))).1
  · intro c hc
    exact (digit_not_space (utoa_digits n c (List.mem_of_getLast? hc))).1

theorem wf_name_cl : WFName sContentLength := by
  refine ⟨by decide, ?_⟩
  decide

theorem wf_name_host : WFName sHostName := by
  refine ⟨by decide, ?_⟩
  decide

theorem cap_cl : capitalized sContentLength = sContentLength := by decide
theorem cap_host_ne : capitalized sHostName ≠ sContentLength ∧ capitalized sHostName ≠ sTransferEncoding := by decide
theorem cap_cl_ne_te : capitalized sContentLength ≠ sTransferEncoding := by decide

/-- user headers that do not name the two framing headers -/
def NoFraming (hs : List (Bytes × Bytes)) : Prop :=
  ∀ nv ∈ hs, capitalized nv.1 ≠ sContentLength ∧ capitalized nv.1 ≠ sTransferEncoding

theorem header_norm_absent (K : Bytes) (hK : capitalized K = K) (hs : List (Bytes × Bytes))
    (h : ∀ x ∈ hs, x.2 ≠ [] ∧ capitalized x.1 ≠ K) : hasHeader (norm hs) K = false ∧ header (norm hs) K = [] := by
  have := foldl_setHeader_preserve K hs [] h
  unfold norm hasHeader header
  rw [hK, this]
  simp [dicGet]

theorem header_norm_found (K : Bytes) (hK : capitalized K = K) (l1 l2 : List (Bytes × Bytes)) (n v : Bytes)
    (hv : v ≠ []) (hn : capitalized n = K) (h2 : ∀ x ∈ l2, x.2 ≠ [] ∧ capitalized x.1 ≠ K) :
    hasHeader (norm (l1 ++ (n, v) :: l2)) K = true ∧ header (norm (l1 ++ (n, v) :: l2)) K = v := by
  have := foldl_setHeader_found K l1 l2 n v [] hv hn h2
  unfold norm hasHeader header
  rw [hK, this]
  simp

theorem writeBody_nil (c : Bool) (blk : Nat) : writeBody c blk [] = [] := rfl

/-- the framing of the message `Http::request` builds (`Content-Length` exactly when the body is not empty) -/
theorem client_framed (blk : Nat) (hostport : Bytes) (hs : Dic) (body : Bytes) (hb : 0 < blk)
    (hwf : WFHeaders hs) (hres : NoFraming hs) (hhp : hostport ≠ []) (hfits : body.length < 2147483648) :
    let h' := if body.length ≠ 0 then setHeader hs sContentLength (utoa body.length) else hs
    Framed blk (norm ((sHostName, hostport) :: h')) (writeBody (isChunked h') blk body) body ∧
      (∀ x ∈ h', x = (sContentLength, utoa body.length) ∨ x ∈ hs) := by
  intro h'
  by_cases hb0 : body.length = 0
  · have hbody : body = [] := List.eq_nil_of_length_eq_zero hb0
    have hh : h' = hs := by simp [h', hb0]
    rw [hh, hbody, writeBody_nil]
    have hall : ∀ K, (∀ nv ∈ hs, capitalized nv.1 ≠ K) → capitalized sHostName ≠ K →
        ∀ x ∈ (sHostName, hostport) :: hs, x.2 ≠ [] ∧ capitalized x.1 ≠ K := by
      intro K h1 h2 x hx
      rcases List.mem_cons.mp hx with h | h
      · subst h; exact ⟨hhp, h2⟩
      · exact ⟨(hwf x h).2.1.1, h1 x h⟩
    have a1 := header_norm_absent sContentLength cap_cl _ (hall _ (fun nv h => (hres nv h).1) cap_host_ne.1)
    have a2 := header_norm_absent sTransferEncoding (by decide) _ (hall _ (fun nv h => (hres nv h).2) cap_host_ne.2)
    refine ⟨Framed.none a1.1 ?_, fun x hx => Or.inr hx⟩
    rw [a2.2]; decide
  · have hh : h' = dicSet hs sContentLength (utoa body.length) := by
      simp only [h', hb0, ne_eq, not_false_eq_true, if_true]
      rw [setHeader_of_value (utoa_ne_nil _), cap_cl]
    obtain ⟨l1, l2, he, hl1, hl2⟩ := dicSet_split hs sContentLength (utoa body.length)
    have hchunk : isChunked h' = false := by
      unfold isChunked header
      rw [cap_cl, hh, dicGet_dicSet_same]
      have := utoa_ne_nil body.length
      cases hu : utoa body.length with
      | nil => exact absurd hu this
      | cons a t => rfl
    rw [hchunk, writeBody_plain blk hb]
    have hmem : ∀ x ∈ h', x = (sContentLength, utoa body.length) ∨ x ∈ hs := by
      intro x hx; rw [hh] at hx; exact mem_dicSet hx
    refine ⟨?_, hmem⟩
    have hlist : (sHostName, hostport) :: h' = ((sHostName, hostport) :: l1) ++ (sContentLength, utoa body.length) :: l2 := by
      rw [hh, he]; rfl
    rw [hlist]
    have f1 := header_norm_found sContentLength cap_cl ((sHostName, hostport) :: l1) l2 sContentLength (utoa body.length)
      (utoa_ne_nil _) cap_cl (fun x hx => ⟨(hwf x (hl2 x hx)).2.1.1, (hres x (hl2 x hx)).1⟩)
    have f2 := header_norm_absent sTransferEncoding (by decide) (((sHostName, hostport) :: l1) ++ (sContentLength, utoa body.length) :: l2) (by
      intro x hx
      rcases List.mem_append.mp hx with h | h
      · rcases List.mem_cons.mp h with h | h
        · subst h; exact ⟨hhp, cap_host_ne.2⟩
        · exact ⟨(hwf x (hl1 x h)).2.1.1, (hres x (hl1 x h)).2⟩
      · rcases List.mem_cons.mp h with h | h
        · subst h; exact ⟨utoa_ne_nil _, cap_cl_ne_te⟩
        · exact ⟨(hwf x (hl2 x h)).2.1.1, (hres x (hl2 x h)).2⟩)
    exact Framed.len body f1.1 f1.2 (by rw [f2.2]; decide) hfits




theorem dicGet_mem {d : Dic} {k v : Bytes} (h : dicGet d k = some v) : (k, v) ∈ d := by
  induction d with
  | nil => simp [dicGet] at h
  | cons kv t ih =>
    obtain ⟨k', v'⟩ := kv
    unfold dicGet at h
    by_cases h1 : k' = k
    · simp only [h1, if_true, Option.some.injEq] at h
      subst h1; subst h; exact List.mem_cons_self
    · simp only [h1, if_false] at h
      exact List.mem_cons_of_mem _ (ih h)

theorem cap_te : capitalized sTransferEncoding = sTransferEncoding := by decide
theorem wf_name_te : WFName sTransferEncoding := by
  refine ⟨by decide, ?_⟩
  decide
theorem wf_value_chunked : WFValue sChunked := by
  refine ⟨by decide, by decide, ?_, ?_⟩ <;> decide

/-- the framing of a message whose body was `put()` (Content-Length always set, also "0") -/
theorem put_framed (blk : Nat) (hs : Dic) (body : Bytes) (hb : 0 < blk) (hwf : WFHeaders hs) (hres : NoFraming hs)
    (hfits : body.length < 2147483648) :
    let h' := setHeader hs sContentLength (utoa body.length)
    Framed blk (norm h') (writeBody (isChunked h') blk body) body ∧
      (∀ x ∈ h', x = (sContentLength, utoa body.length) ∨ x ∈ hs) := by
  intro h'
  have hh : h' = dicSet hs sContentLength (utoa body.length) := by
    simp only [h']; rw [setHeader_of_value (utoa_ne_nil _), cap_cl]
  obtain ⟨l1, l2, he, hl1, hl2⟩ := dicSet_split hs sContentLength (utoa body.length)
  have hchunk : isChunked h' = false := by
    unfold isChunked header
    rw [cap_cl, hh, dicGet_dicSet_same]
    have := utoa_ne_nil body.length
    cases hu : utoa body.length with
    | nil => exact absurd hu this
    | cons a t => rfl
  rw [hchunk, writeBody_plain blk hb]
  have hmem : ∀ x ∈ h', x = (sContentLength, utoa body.length) ∨ x ∈ hs := by
    intro x hx; rw [hh] at hx; exact mem_dicSet hx
  refine ⟨?_, hmem⟩
  rw [hh, he]
  have f1 := header_norm_found sContentLength cap_cl l1 l2 sContentLength (utoa body.length)
    (utoa_ne_nil _) cap_cl (fun x hx => ⟨(hwf x (hl2 x hx)).2.1.1, (hres x (hl2 x hx)).1⟩)
  have f2 := header_norm_absent sTransferEncoding cap_te (l1 ++ (sContentLength, utoa body.length) :: l2) (by
    intro x hx
    rcases List.mem_append.mp hx with h | h
    · exact ⟨(hwf x (hl1 x h)).2.1.1, (hres x (hl1 x h)).2⟩
    · rcases List.mem_cons.mp h with h | h
      · subst h; exact ⟨utoa_ne_nil _, cap_cl_ne_te⟩
      · exact ⟨(hwf x (hl2 x h)).2.1.1, (hres x (hl2 x h)).2⟩)
  exact Framed.len body f1.1 f1.2 (by rw [f2.2]; decide) hfits

/-- the framing of a response streamed with `write(part)` under `Transfer-Encoding: chunked`, ended by the last chunk -/
theorem stream_framed (blk : Nat) (hs : Dic) (parts : List Bytes) (hwf : WFHeaders hs) (hres : NoFraming hs) :
    let h' := setHeader hs sTransferEncoding sChunked
    Framed blk (norm h') ((parts.map (writeBody (isChunked h') blk)).flatten ++ lastChunk) parts.flatten ∧
      (∀ x ∈ h', x = (sTransferEncoding, sChunked) ∨ x ∈ hs) := by
  intro h'
  have hh : h' = dicSet hs sTransferEncoding sChunked := by
    simp only [h']; rw [setHeader_of_value (by decide), cap_te]
  obtain ⟨l1, l2, he, hl1, hl2⟩ := dicSet_split hs sTransferEncoding sChunked
  have hmem : ∀ x ∈ h', x = (sTransferEncoding, sChunked) ∨ x ∈ hs := by
    intro x hx; rw [hh] at hx; exact mem_dicSet hx
  have hchunk : isChunked h' = true := by
    unfold isChunked header
    rw [cap_cl, hh, dicGet_dicSet_other _ _ _ _ (by decide)]
    cases hg : dicGet hs sContentLength with
    | none => rfl
    | some v => exact absurd cap_cl (hres _ (dicGet_mem hg)).1
  rw [hchunk]
  refine ⟨?_, hmem⟩
  rw [hh, he]
  have f1 := header_norm_found sTransferEncoding cap_te l1 l2 sTransferEncoding sChunked (by decide) cap_te
    (fun x hx => ⟨(hwf x (hl2 x hx)).2.1.1, (hres x (hl2 x hx)).2⟩)
  have f2 := header_norm_absent sContentLength cap_cl (l1 ++ (sTransferEncoding, sChunked) :: l2) (by
    intro x hx
    rcases List.mem_append.mp hx with h | h
    · exact ⟨(hwf x (hl1 x h)).2.1.1, (hres x (hl1 x h)).1⟩
    · rcases List.mem_cons.mp h with h | h
      · subst h; exact ⟨by decide, by decide⟩
      · exact ⟨(hwf x (hl2 x h)).2.1.1, (hres x (hl2 x h)).1⟩)
  exact Framed.chunked parts f2.1 (by rw [f1.2]; decide)









theorem clampXfer_bounds (w : Option Nat) (limit : Nat) (h : 0 < limit) : 1 ≤ clampXfer w limit ∧ clampXfer w limit ≤ limit := by
  unfold clampXfer
  cases w with
  | none => simp; omega
  | some w => simp only []; omega

theorem sockWriteLoop_all : ∀ (f : Nat) (sched : List Nat) (data out : Bytes) (s : Nat), data.length ≤ f → data ≠ [] →
    sockWriteLoop f sched data (out, s) = (out ++ data, s + data.length) := by
  intro f
  induction f with
  | zero => intro sched data out s h hne; exact absurd (List.eq_nil_of_length_eq_zero (by omega)) hne
  | succ f ih =>
    intro sched data out s h hne
    have hl : 0 < data.length := List.length_pos_iff.mpr hne
    have he : data.isEmpty = false := by cases data <;> simp_all
    obtain ⟨h1, h2⟩ := clampXfer_bounds sched.head? data.length hl
    unfold sockWriteLoop
    simp only [he, Bool.false_eq_true, if_false]
    by_cases hd : (data.drop (clampXfer sched.head? data.length)).isEmpty = true
    · simp only [hd, if_true]
      have hdl : (data.drop (clampXfer sched.head? data.length)).length = 0 := by
        rw [List.isEmpty_iff.mp hd]; rfl
      rw [List.length_drop] at hdl
      have hn : clampXfer sched.head? data.length = data.length := by omega
      rw [hn, List.take_length]
    · have hd' : (data.drop (clampXfer sched.head? data.length)).isEmpty = false := by simpa using hd
      simp only [hd', Bool.false_eq_true, if_false]
      have hne' : data.drop (clampXfer sched.head? data.length) ≠ [] := by
        intro h0; rw [h0] at hd'; simp at hd'
      rw [ih sched.tail _ _ _ (by rw [List.length_drop]; omega) hne']
      rw [List.append_assoc, List.take_append_drop, List.length_drop]
      congr 1
      omega

theorem sockReadLoop_all : ∀ (f : Nat) (sched : List Nat) (inc out : Bytes) (size : Nat), size ≤ f → 0 < size → size ≤ inc.length →
    sockReadLoop f sched inc size out = (out ++ inc.take size, false) := by
  intro f
  induction f with
  | zero => intro sched inc out size h1 h2; omega
  | succ f ih =>
    intro sched inc out size h1 h2 h3
    have he : inc.isEmpty = false := by cases inc <;> simp_all
    have hmin : min size inc.length = size := by omega
    obtain ⟨c1, c2⟩ := clampXfer_bounds sched.head? (min size inc.length) (by omega)
    unfold sockReadLoop
    simp only [he, Bool.false_eq_true, if_false]
    rw [hmin] at c1 c2 ⊢
    by_cases hz : size - clampXfer sched.head? size = 0
    · simp only [hz, if_true]
      have : clampXfer sched.head? size = size := by omega
      rw [this]
    · simp only [hz, if_false]
      rw [ih sched.tail _ _ _ (by omega) (by omega) (by rw [List.length_drop]; omega)]
      rw [List.append_assoc]
      congr 2
      have : size = clampXfer sched.head? size + (size - clampXfer sched.head? size) := by omega
      conv => rhs; rw [this, List.take_add]



/-! ### lemmas used by the property theorems -/

theorem writeFileLoop_plain (blk rblk : Nat) (hb : 0 < blk) (hr : 0 < rblk) :
    ∀ (f : Nat) (b : Bytes), b.length ≤ f → writeFileLoop false blk rblk f b = b := by
  intro f
  induction f with
  | zero => intro b h; have : b = [] := List.eq_nil_of_length_eq_zero (by omega); subst this; rfl
  | succ f ih =>
    intro b h
    unfold writeFileLoop
    by_cases he : b.isEmpty = true
    · simp only [he, if_true]; exact (List.isEmpty_iff.mp he).symm
    · have hf : b.isEmpty = false := by simpa using he
      have hne : b ≠ [] := by intro h0; subst h0; simp at he
      have hl : 0 < b.length := List.length_pos_iff.mpr hne
      simp only [hf, Bool.false_eq_true, if_false]
      rw [writeBody_plain blk hb, ih _ (by rw [List.length_drop]; omega), List.take_append_drop]

theorem norm_lookup : ∀ (hs : List (Bytes × Bytes)) (d : Dic) (nv : Bytes × Bytes), (∀ x ∈ hs, x.2 ≠ []) → nv ∈ hs →
    (∀ other ∈ hs, capitalized other.1 = capitalized nv.1 → other = nv) →
    dicGet (hs.foldl (fun d x => setHeader d x.1 x.2) d) (capitalized nv.1) = some nv.2 := by
  intro hs
  induction hs with
  | nil => intro d nv _ h; exact absurd h (by simp)
  | cons x t ih =>
    intro d nv hne hmem huniq
    simp only [List.foldl_cons]
    by_cases hin : nv ∈ t
    · exact ih _ nv (fun y hy => hne y (List.mem_cons_of_mem _ hy)) hin (fun o ho => huniq o (List.mem_cons_of_mem _ ho))
    · have hx : nv = x := by
        rcases List.mem_cons.mp hmem with h | h
        · exact h
        · exact absurd h hin
      subst hx
      rw [foldl_setHeader_preserve (capitalized nv.1) t _ (fun y hy => ⟨hne y (List.mem_cons_of_mem _ hy), fun hc => by
        have := huniq y (List.mem_cons_of_mem _ hy) hc
        subst this; exact hin hy⟩)]
      rw [setHeader_of_value (hne nv List.mem_cons_self)]
      exact dicGet_dicSet_same _ _ _

theorem codeMsg_ok (code : Nat) : (∀ c ∈ codeMsg code, c ≠ 10) ∧ (codeMsg code).length ≤ 15 := by
  unfold codeMsg
  repeat' split
  all_goals exact ⟨by decide, by decide⟩

theorem statusLine_eq (proto : Bytes) (code : Nat) : statusLine proto code = proto ++ [32] ++ utoa code ++ [32] ++ codeMsg code := rfl






theorem byte_case_facts : ∀ n, n < 256 →
    toUpper (toLower (UInt8.ofNat n)) = toUpper (UInt8.ofNat n) ∧ toLower (toLower (UInt8.ofNat n)) = toLower (UInt8.ofNat n) ∧
    toUpper (toUpper (UInt8.ofNat n)) = toUpper (UInt8.ofNat n) ∧ toLower (toUpper (UInt8.ofNat n)) = toLower (UInt8.ofNat n) := by
  decide +kernel

theorem byte_case (c : UInt8) :
    toUpper (toLower c) = toUpper c ∧ toLower (toLower c) = toLower c ∧ toUpper (toUpper c) = toUpper c ∧ toLower (toUpper c) = toLower c := by
  have := byte_case_facts c.toNat (UInt8.toNat_lt c)
  simpa using this

theorem capLoop_lower (b : Bool) (n : Bytes) : capLoop b (lowerAscii n) = capLoop b n := by
  induction n generalizing b with
  | nil => rfl
  | cons c t ih =>
    have h := byte_case c
    cases b <;> simp [lowerAscii, capLoop, h.1, h.2.1] <;> exact ih _

/-- header names are matched without regard to case -/
theorem capitalized_lower (n : Bytes) : capitalized (lowerAscii n) = capitalized n := capLoop_lower true n



/-! ### many connections -/


theorem runSched_conn (opt : Bool) (base : Bytes) : ∀ (sched : List Nat) (s : Server) (k : Nat),
    runSched opt base sched s k = iterStep opt base (sched.count k) (s k) := by
  intro sched
  induction sched with
  | nil => intro s k; rfl
  | cons j t ih =>
    intro s k
    simp only [runSched]
    rw [ih]
    by_cases h : j = k
    · subst h
      simp [Server.turn, iterStep]
    · have h' : ¬ k = j := fun e => h e.symm
      simp [Server.turn, h, h', List.count_cons]

/-- a live connection that takes all its turns produces exactly `serveConn` of its own bytes -/
theorem iterStep_serveConn (opt : Bool) (base : Bytes) : ∀ (plans : List Plan) (c : Conn), c.plans = plans →
    (iterStep opt base plans.length c).out =
      c.out ++ (if c.alive then serveConn opt base plans c.inp else plans.map (fun _ => (none, []))) := by
  intro plans
  induction plans with
  | nil => intro c _; simp [iterStep, serveConn]
  | cons p ps ih =>
    intro c hc
    simp only [List.length_cons, iterStep]
    by_cases ha : c.alive = true
    · have hstep : c.step opt base = Conn.mk ps (serveStep opt base p c.inp).2.2.2
          (c.out ++ [((serveStep opt base p c.inp).1, (serveStep opt base p c.inp).2.1)]) (serveStep opt base p c.inp).2.2.1 := by
        unfold Conn.step; rw [hc]; simp [ha]
      rw [ih (c.step opt base) (by rw [hstep])]
      rw [hstep]
      simp only [ha, if_true, serveConn, List.append_assoc, List.singleton_append]
    · have ha' : c.alive = false := by simpa using ha
      have hstep : c.step opt base = { c with plans := ps, out := c.out ++ [(none, [])] } := by
        unfold Conn.step; rw [hc]; simp [ha']
      rw [ih (c.step opt base) (by rw [hstep])]
      rw [hstep]
      simp [ha']



/-! ### the order of `Dic` -/


theorem u8_lt_irrefl (a : UInt8) : ¬ a < a := by
  intro h; have := UInt8.lt_iff_toNat_lt.mp h; omega
theorem u8_lt_asymm {a b : UInt8} (h : a < b) : ¬ b < a := by
  intro h2; have := UInt8.lt_iff_toNat_lt.mp h; have := UInt8.lt_iff_toNat_lt.mp h2; omega
theorem u8_lt_trans {a b c : UInt8} (h : a < b) (h2 : b < c) : a < c := by
  apply UInt8.lt_iff_toNat_lt.mpr; have := UInt8.lt_iff_toNat_lt.mp h; have := UInt8.lt_iff_toNat_lt.mp h2; omega
theorem u8_eq_of_not_lt {a b : UInt8} (h : ¬ a < b) (h2 : ¬ b < a) : a = b := by
  apply UInt8.toNat_inj.mp
  have h' : ¬ a.toNat < b.toNat := fun x => h (UInt8.lt_iff_toNat_lt.mpr x)
  have h2' : ¬ b.toNat < a.toNat := fun x => h2 (UInt8.lt_iff_toNat_lt.mpr x)
  omega

theorem ltBytes_irrefl : ∀ a : Bytes, ltBytes a a = false := by
  intro a; induction a with
  | nil => rfl
  | cons x t ih => simp [ltBytes, u8_lt_irrefl x, ih]

theorem ltBytes_asymm : ∀ a b : Bytes, ltBytes a b = true → ltBytes b a = false := by
  intro a
  induction a with
  | nil => intro b h; cases b <;> simp_all [ltBytes]
  | cons x s ih =>
    intro b h
    cases b with
    | nil => simp [ltBytes] at h
    | cons y t =>
      unfold ltBytes at h ⊢
      by_cases h1 : x < y
      · simp [u8_lt_asymm h1, h1]
      · by_cases h2 : y < x
        · simp [h1, h2] at h
        · simp only [h1, h2, if_false] at h ⊢
          exact ih t h

theorem ltBytes_trans : ∀ a b c : Bytes, ltBytes a b = true → ltBytes b c = true → ltBytes a c = true := by
  intro a
  induction a with
  | nil =>
    intro b c h1 h2
    cases b with
    | nil => simp [ltBytes] at h1
    | cons y t => cases c with
      | nil => simp [ltBytes] at h2
      | cons z u => rfl
  | cons x s ih =>
    intro b c h1 h2
    cases b with
    | nil => simp [ltBytes] at h1
    | cons y t =>
      cases c with
      | nil => simp [ltBytes] at h2
      | cons z u =>
        unfold ltBytes at h1 h2 ⊢
        by_cases hxy : x < y
        · by_cases hyz : y < z
          · simp [u8_lt_trans hxy hyz]
          · by_cases hzy : z < y
            · simp [hyz, hzy] at h2
            · have : y = z := u8_eq_of_not_lt hyz hzy
              subst this; simp [hxy]
        · by_cases hyx : y < x
          · simp [hxy, hyx] at h1
          · have hxy' : x = y := u8_eq_of_not_lt hxy hyx
            subst hxy'
            simp only [hxy, if_false] at h1
            by_cases hyz : x < z
            · simp [hyz]
            · by_cases hzy : z < x
              · simp [hyz, hzy] at h2
              · simp only [hyz, hzy, if_false] at h2 ⊢
                exact ih t u h1 h2

theorem ltBytes_total : ∀ a b : Bytes, ltBytes a b = false → ltBytes b a = false → a = b := by
  intro a
  induction a with
  | nil => intro b h1 h2; cases b with
    | nil => rfl
    | cons y t => simp [ltBytes] at h1
  | cons x s ih =>
    intro b h1 h2
    cases b with
    | nil => simp [ltBytes] at h2
    | cons y t =>
      unfold ltBytes at h1 h2
      by_cases hxy : x < y
      · simp [hxy] at h1
      · by_cases hyx : y < x
        · simp [hyx] at h2
        · have : x = y := u8_eq_of_not_lt hxy hyx
          subst this
          simp only [hxy, if_false] at h1 h2
          rw [ih t h1 h2]


/-! ### canonical dictionaries: what `setHeader` builds -/

def SortedKeys (d : Dic) : Prop := d.Pairwise (fun a b => ltBytes a.1 b.1 = true)

theorem dicSet_keys {d : Dic} {k v : Bytes} {x : Bytes × Bytes} (h : x ∈ dicSet d k v) : x.1 = k ∨ x ∈ d := by
  rcases mem_dicSet h with h | h
  · subst h; exact Or.inl rfl
  · exact Or.inr h

theorem dicSet_sorted : ∀ (d : Dic) (k v : Bytes), SortedKeys d → SortedKeys (dicSet d k v) := by
  intro d
  induction d with
  | nil => intro k v _; simp [dicSet, SortedKeys]
  | cons kv t ih =>
    intro k v hs
    obtain ⟨k', v'⟩ := kv
    have hs' := List.pairwise_cons.mp hs
    unfold dicSet
    by_cases h1 : k' = k
    · subst h1
      simp only [if_true]
      exact List.pairwise_cons.mpr ⟨fun x hx => hs'.1 x hx, hs'.2⟩
    · simp only [h1, if_false]
      by_cases h2 : ltBytes k k' = true
      · simp only [h2, if_true]
        refine List.pairwise_cons.mpr ⟨?_, hs⟩
        intro x hx
        rcases List.mem_cons.mp hx with hx | hx
        · subst hx; exact h2
        · exact ltBytes_trans _ _ _ h2 (hs'.1 x hx)
      · simp only [h2, Bool.false_eq_true, if_false]
        have h3 : ltBytes k' k = true := by
          cases h4 : ltBytes k' k with
          | true => rfl
          | false => exact absurd (ltBytes_total k' k h4 (by simpa using h2)) h1
        refine List.pairwise_cons.mpr ⟨?_, ih k v hs'.2⟩
        intro x hx
        rcases dicSet_keys hx with hx | hx
        · rw [hx]; exact h3
        · exact hs'.1 x hx

theorem dicSet_append_last : ∀ (l : Dic) (k v : Bytes), (∀ x ∈ l, ltBytes x.1 k = true) → dicSet l k v = l ++ [(k, v)] := by
  intro l
  induction l with
  | nil => intro k v _; rfl
  | cons kv t ih =>
    intro k v h
    obtain ⟨k', v'⟩ := kv
    have h0 := h (k', v') List.mem_cons_self
    have h1 : ¬ k' = k := by
      intro e; subst e; rw [ltBytes_irrefl] at h0; exact absurd h0 (by simp)
    have h2 : ltBytes k k' = false := ltBytes_asymm _ _ h0
    unfold dicSet
    simp only [h1, if_false, h2, Bool.false_eq_true, List.cons_append]
    rw [ih k v (fun x hx => h x (List.mem_cons_of_mem _ hx))]

theorem capLoop_idem (b : Bool) (n : Bytes) : capLoop b (capLoop b n) = capLoop b n := by
  induction n generalizing b with
  | nil => rfl
  | cons c t ih =>
    have h := byte_case c
    cases b <;> simp [capLoop, h.2.1, h.2.2.1] <;> exact ih _

theorem capitalized_idem (n : Bytes) : capitalized (capitalized n) = capitalized n := capLoop_idem true n

theorem capLoop_length (b : Bool) (n : Bytes) : (capLoop b n).length = n.length := by
  induction n generalizing b with
  | nil => rfl
  | cons c t ih => simp [capLoop, ih]

theorem byte_name_facts : ∀ n, n < 256 → (UInt8.ofNat n ≠ 58 ∧ cIsSpace (UInt8.ofNat n) = false ∧ 32 < UInt8.ofNat n ∧ UInt8.ofNat n ≠ 127) →
    (toUpper (UInt8.ofNat n) ≠ 58 ∧ cIsSpace (toUpper (UInt8.ofNat n)) = false ∧ 32 < toUpper (UInt8.ofNat n) ∧ toUpper (UInt8.ofNat n) ≠ 127) ∧
    (toLower (UInt8.ofNat n) ≠ 58 ∧ cIsSpace (toLower (UInt8.ofNat n)) = false ∧ 32 < toLower (UInt8.ofNat n) ∧ toLower (UInt8.ofNat n) ≠ 127) := by
  decide +kernel

theorem byte_name (c : UInt8) (h : c ≠ 58 ∧ cIsSpace c = false ∧ 32 < c ∧ c ≠ 127) :
    (toUpper c ≠ 58 ∧ cIsSpace (toUpper c) = false ∧ 32 < toUpper c ∧ toUpper c ≠ 127) ∧ (toLower c ≠ 58 ∧ cIsSpace (toLower c) = false ∧ 32 < toLower c ∧ toLower c ≠ 127) := by
  have := byte_name_facts c.toNat (UInt8.toNat_lt c)
  simp only [UInt8.ofNat_toNat] at this
  exact this h

theorem capLoop_wf (b : Bool) (n : Bytes) (h : ∀ c ∈ n, c ≠ 58 ∧ cIsSpace c = false ∧ 32 < c ∧ c ≠ 127) :
    ∀ c ∈ capLoop b n, c ≠ 58 ∧ cIsSpace c = false ∧ 32 < c ∧ c ≠ 127 := by
  induction n generalizing b with
  | nil => intro c hc; simp [capLoop] at hc
  | cons x t ih =>
    intro c hc
    have hx := byte_name x (h x List.mem_cons_self)
    simp only [capLoop, List.mem_cons] at hc
    rcases hc with hc | hc
    · subst hc; cases b
      · simpa using hx.2
      · simpa using hx.1
    · exact ih _ (fun c hc => h c (List.mem_cons_of_mem _ hc)) c hc

theorem wfname_capitalized {n : Bytes} (h : WFName n) : WFName (capitalized n) := by
  refine ⟨?_, capLoop_wf true n h.2⟩
  intro h0
  have := capLoop_length true n
  unfold capitalized at h0
  rw [h0] at this
  exact h.1 (List.eq_nil_of_length_eq_zero this.symm)

/-- a header dictionary as `setHeader` builds it: sorted by name, names in capitalized form, well-formed lines -/
structure Canon (d : Dic) : Prop where
  sorted : SortedKeys d
  caps : ∀ x ∈ d, capitalized x.1 = x.1
  wf : WFHeaders d

theorem canon_nil : Canon [] := ⟨List.Pairwise.nil, by simp, by intro x hx; simp at hx⟩

theorem canon_setHeader {d : Dic} {n v : Bytes} (hd : Canon d) (hn : WFName n) (hv : WFValue v) (hfit : FitsLine n v) :
    Canon (setHeader d n v) := by
  rw [setHeader_of_value hv.1]
  refine ⟨dicSet_sorted d _ v hd.sorted, ?_, ?_⟩
  · intro x hx
    rcases mem_dicSet hx with hx | hx
    · subst hx; exact capitalized_idem n
    · exact hd.caps x hx
  · intro x hx
    rcases mem_dicSet hx with hx | hx
    · subst hx
      refine ⟨wfname_capitalized hn, hv, ?_⟩
      unfold FitsLine at hfit ⊢
      have := capLoop_length true n
      unfold capitalized
      rw [this]; exact hfit
    · exact hd.wf x hx

theorem canon_foldl : ∀ (hs : List (Bytes × Bytes)) (d : Dic), Canon d → WFHeaders hs →
    Canon (hs.foldl (fun d nv => setHeader d nv.1 nv.2) d) := by
  intro hs
  induction hs with
  | nil => intro d hd _; exact hd
  | cons x t ih =>
    intro d hd hw
    have h0 := hw x List.mem_cons_self
    exact ih _ (canon_setHeader hd h0.1 h0.2.1 h0.2.2) (fun y hy => hw y (List.mem_cons_of_mem _ hy))

theorem foldl_canon_append : ∀ (suf pre : Dic), Canon (pre ++ suf) →
    suf.foldl (fun d nv => setHeader d nv.1 nv.2) pre = pre ++ suf := by
  intro suf
  induction suf with
  | nil => intro pre _; simp
  | cons x t ih =>
    intro pre hc
    simp only [List.foldl_cons]
    have hx : x ∈ pre ++ x :: t := by simp
    have hv := (hc.wf x hx).2.1.1
    rw [setHeader_of_value hv, hc.caps x hx]
    have hlt : ∀ y ∈ pre, ltBytes y.1 x.1 = true := by
      intro y hy
      have := List.pairwise_append.mp hc.sorted
      exact this.2.2 y hy x List.mem_cons_self
    rw [dicSet_append_last pre x.1 x.2 hlt]
    have : pre ++ [(x.1, x.2)] ++ t = pre ++ x :: t := by simp
    rw [ih (pre ++ [(x.1, x.2)]) (by rw [this]; exact hc), this]

/-- **what the reader stores for a canonical dictionary is that dictionary** -/
theorem norm_canon {d : Dic} (h : Canon d) : norm d = d := by
  unfold norm
  have := foldl_canon_append d [] (by simpa using h)
  simpa using this

/-- looking a name up in a canonical dictionary is what `header` does -/
theorem noframing_setHeader {d : Dic} {n v : Bytes} (hv : v ≠ []) (hd : NoFraming d)
    (hn : capitalized n ≠ sContentLength ∧ capitalized n ≠ sTransferEncoding) : NoFraming (setHeader d n v) := by
  rw [setHeader_of_value hv]
  intro x hx
  rcases mem_dicSet hx with hx | hx
  · subst hx; simp only [capitalized_idem]; exact hn
  · exact hd x hx

theorem noframing_foldl : ∀ (hs : List (Bytes × Bytes)) (d : Dic), NoFraming d → NoFraming hs → (∀ x ∈ hs, x.2 ≠ []) →
    NoFraming (hs.foldl (fun d nv => setHeader d nv.1 nv.2) d) := by
  intro hs
  induction hs with
  | nil => intro d hd _ _; exact hd
  | cons x t ih =>
    intro d hd hn hv
    exact ih _ (noframing_setHeader (hv x List.mem_cons_self) hd (hn x List.mem_cons_self))
      (fun y hy => hn y (List.mem_cons_of_mem _ hy)) (fun y hy => hv y (List.mem_cons_of_mem _ hy))




/-! ### `HttpServer::serve` around the handler, in closed form -/

def respProto (q : Request) : Bytes := if q.proto = sHttp10 then sHttp10 else sHttp11
def connValue (q : Request) : Bytes := lowerAscii (header q.headers sConnection)
def baseHeaders (q : Request) : Dic := if connValue q = sKeepAlive then setHeader [] sConnection sKeepAlive else []
def handlerHeaders (q : Request) (p : Plan) : Dic := p.headers.foldl (fun d nv => setHeader d nv.1 nv.2) (baseHeaders q)
def withAllow (code : Nat) (h : Dic) : Dic := if code = 405 then setHeader h sAllow sMethods else h
/-- `serve(Socket)` reads the connection again unless HTTP/1.0 without keep-alive, or `Connection: close` -/
def keepOf (q : Request) : Bool := !((q.proto = sHttp10 && connValue q != sKeepAlive) || connValue q = sClose)

/-- the answers after which the server itself ends the connection: a response written in pieces that names no framing, with
a status that can have a body, to an HTTP/1.0 request (687f097: the end of the connection ends the message) -/
def closesAfter (q : Request) (p : Plan) : Bool :=
  match p.kind with
  | .streamAuto _ => endByClose (respProto q) p.code (handlerHeaders q p)
  | .streamFile _ _ => endByClose (respProto q) p.code (handlerHeaders q p)
  | _ => false

theorem endByClose_11 (code : Nat) (h : Dic) : endByClose sHttp11 code h = false := by
  unfold endByClose
  have : (sHttp11 == sHttp10) = false := by decide
  simp [this]

/-- the connection is kept exactly when the request allows it and the answer is not one that ends with the connection -/
theorem serveOne_keep (blk rblk : Nat) (opt : Bool) (q : Request) (p : Plan) (js base : Bytes)
    (hopt : ¬ (q.method = sOPTIONS ∧ opt = true)) :
    (serveOne blk rblk opt q p js base).keep = (keepOf q && !closesAfter q p) := by
  unfold serveOne keepOf closesAfter respProto handlerHeaders baseHeaders connValue
  simp only [hopt, if_false]
  cases hk : p.kind with
  | streamAuto parts => simp only []
  | streamFile pre content => simp only []
  | _ => simp only [Bool.not_false, Bool.and_true] <;> (repeat' split) <;> simp

theorem serveOne_keep_options (blk rblk : Nat) (q : Request) (p : Plan) (js base : Bytes) (hm : q.method = sOPTIONS) :
    (serveOne blk rblk true q p js base).keep = keepOf q := by
  unfold serveOne keepOf connValue
  simp [hm]

theorem serveOne_called (blk rblk : Nat) (opt : Bool) (q : Request) (p : Plan) (js base : Bytes) :
    (serveOne blk rblk opt q p js base).called = !(decide (q.method = sOPTIONS) && opt) := by
  unfold serveOne
  simp only []
  by_cases h : q.method = sOPTIONS ∧ opt = true
  · simp [h]
  · simp only [h, if_false]
    have : (decide (q.method = sOPTIONS) && opt) = false := by
      cases opt <;> simp_all
    rw [this]
    cases p.kind <;> simp only [] <;> (repeat' split) <;> rfl

theorem serveOne_bytes (blk rblk : Nat) (opt : Bool) (q : Request) (p : Plan) (js base b : Bytes)
    (hopt : ¬ (q.method = sOPTIONS ∧ opt = true)) (hk : p.kind = .bytes b) :
    (serveOne blk rblk opt q p js base).wire =
      serializeWith blk ⟨statusLine (respProto q) p.code,
        withAllow p.code (setHeader (handlerHeaders q p) sContentLength (utoa b.length)), b⟩ := by
  unfold serveOne
  simp only [hopt, if_false, hk]
  rfl

theorem serveOne_none (blk rblk : Nat) (opt : Bool) (q : Request) (p : Plan) (js base : Bytes)
    (hopt : ¬ (q.method = sOPTIONS ∧ opt = true)) (hk : p.kind = .none) :
    (serveOne blk rblk opt q p js base).wire =
      serializeWith blk ⟨statusLine (respProto q) p.code,
        withAllow p.code (setHeader (handlerHeaders q p) sContentLength [48]), []⟩ := by
  unfold serveOne
  simp only [hopt, if_false, hk]
  rfl

theorem serveOne_stream (blk rblk : Nat) (opt : Bool) (q : Request) (p : Plan) (js base : Bytes) (parts : List Bytes) (fin : Bool)
    (hopt : ¬ (q.method = sOPTIONS ∧ opt = true)) (hk : p.kind = .stream parts fin) (hne : parts.isEmpty = false) :
    (serveOne blk rblk opt q p js base).wire =
      serializeStream blk (respProto q) p.code (setHeader (handlerHeaders q p) sTransferEncoding sChunked) parts fin := by
  unfold serveOne
  simp only [hopt, if_false, hk, hne, Bool.false_eq_true]
  rfl

theorem serveOne_streamAuto (blk rblk : Nat) (opt : Bool) (q : Request) (p : Plan) (js base : Bytes) (parts : List Bytes)
    (hopt : ¬ (q.method = sOPTIONS ∧ opt = true)) (hk : p.kind = .streamAuto parts) :
    (serveOne blk rblk opt q p js base).wire =
      serializeStream blk (respProto q) p.code (handlerHeaders q p) parts false := by
  unfold serveOne
  simp only [hopt, if_false, hk]
  rfl

theorem interimOf_none {h : Dic} (hx : header h sExpect ≠ s100continue) : interimOf h = [] := by
  unfold interimOf; simp [hx]



theorem dicGet_setHeader_same (d : Dic) (n v : Bytes) (hv : v ≠ []) : dicGet (setHeader d n v) (capitalized n) = some v := by
  rw [setHeader_of_value hv]; exact dicGet_dicSet_same _ _ _

theorem dicGet_setHeader_other (d : Dic) (n v K : Bytes) (hv : v ≠ []) (hK : K ≠ capitalized n) :
    dicGet (setHeader d n v) K = dicGet d K := by
  rw [setHeader_of_value hv]; exact dicGet_dicSet_other _ _ _ _ hK

theorem dicGet_none_of_keys {d : Dic} {K : Bytes} (h : ∀ x ∈ d, x.1 ≠ K) : dicGet d K = none := by
  cases hg : dicGet d K with
  | none => rfl
  | some v => exact absurd rfl (h _ (dicGet_mem hg))

theorem canon_key_ne {d : Dic} (hc : Canon d) {K : Bytes} (h : ∀ x ∈ d, capitalized x.1 ≠ K) : ∀ x ∈ d, x.1 ≠ K := by
  intro x hx e; exact h x hx (by rw [hc.caps x hx]; exact e)

theorem writeFile_plain (blk rblk : Nat) (hb : 0 < blk) (hr : 0 < rblk) (content : Bytes) :
    writeFile false blk rblk content = content :=
  writeFileLoop_plain blk rblk hb hr content.length content (Nat.le_refl _)

theorem header_of_dicGet {d : Dic} {K v : Bytes} (hK : capitalized K = K) (h : dicGet d K = some v) :
    header d K = v ∧ hasHeader d K = true := by
  unfold header hasHeader; rw [hK, h]; exact ⟨rfl, rfl⟩

theorem header_of_dicGet_none {d : Dic} {K : Bytes} (hK : capitalized K = K) (h : dicGet d K = none) :
    header d K = [] ∧ hasHeader d K = false := by
  unfold header hasHeader; rw [hK, h]; exact ⟨rfl, rfl⟩

/-- a canonical dictionary announcing `Content-Length: |body|` (and no chunked coding) frames `body` by its length -/
theorem framed_len_canon (blk : Nat) {D : Dic} (hD : Canon D) (body : Bytes)
    (hcl : dicGet D sContentLength = some (utoa body.length)) (hte : dicGet D sTransferEncoding = none)
    (hfits : body.length < 2147483648) : Framed blk (norm D) body body ∧ isChunked D = false := by
  rw [norm_canon hD]
  obtain ⟨h1, h2⟩ := header_of_dicGet cap_cl hcl
  obtain ⟨h3, _⟩ := header_of_dicGet_none cap_te hte
  refine ⟨Framed.len body h2 h1 (by rw [h3]; decide) hfits, ?_⟩
  unfold isChunked; rw [h1]
  have := utoa_ne_nil body.length
  cases hu : utoa body.length with
  | nil => exact absurd hu this
  | cons a t => rfl

/-- the client's reader on a response whose headers are the canonical dictionary `D` (with Content-Length): it returns
exactly the status, the protocol, the dictionary `D` itself and the body -/
theorem readResponse_dict (proto : Bytes) (code : Nat) (D : Dic) (w body rest : Bytes) (hp : IsProto proto) (hcode : code < 2147483648)
    (hfinal : code ≠ 100) (hD : Canon D) (hcl : dicGet D sContentLength = some (utoa body.length))
    (hte : dicGet D sTransferEncoding = none) (hfits : body.length < 2147483648) (hw : w = body)
    (i : Inp) (hi : Live i) (hd : i.data = headerBlock (statusLine proto code) D ++ w ++ rest) :
    ∃ i' : Inp, readResponse i = ({ code := code, proto := proto, headers := D, body := body, sockError := [] }, i') ∧
      i'.data = rest ∧ Live i' := by
  subst hw
  obtain ⟨hfr, _⟩ := framed_len_canon sendBlock hD w hcl hte hfits
  obtain ⟨hp0, hpsp, hplen⟩ := proto_ok hp
  have hcm := codeMsg_ok code
  have hwire : i.data = proto ++ [32] ++ utoa code ++ [32] ++ codeMsg code ++ crlf ++ headerLines D ++ crlf ++ w ++ rest := by
    rw [hd]; simp [headerBlock, statusLine_eq, List.append_assoc]
  obtain ⟨i', hread, hdat, hlive⟩ := readResponse_wire proto (codeMsg code) code D w w rest hp0 hpsp hcm.1 hfinal
    (by have := utoa_length code hcode; omega) hD.wf (framed_reads sendBlock sendBlock_pos sendBlock_lt hfr) i hi hwire
  rw [norm_canon hD] at hread
  exact ⟨i', hread, hdat, hlive⟩

/-- the same for a chunked body: `D` announces `Transfer-Encoding: chunked` and no length -/
theorem readResponse_dict_chunked (proto : Bytes) (code : Nat) (D : Dic) (parts : List Bytes) (rest : Bytes) (hp : IsProto proto)
    (hcode : code < 2147483648) (hfinal : code ≠ 100) (hD : Canon D) (hcl : dicGet D sContentLength = none)
    (hte : dicGet D sTransferEncoding = some sChunked)
    (i : Inp) (hi : Live i)
    (hd : i.data = headerBlock (statusLine proto code) D ++ ((parts.map (writeBody true sendBlock)).flatten ++ lastChunk) ++ rest) :
    ∃ i' : Inp, readResponse i = ({ code := code, proto := proto, headers := D, body := parts.flatten, sockError := [] }, i') ∧
      i'.data = rest ∧ Live i' := by
  obtain ⟨h1, h2⟩ := header_of_dicGet_none cap_cl hcl
  obtain ⟨h3, _⟩ := header_of_dicGet cap_te hte
  have hfr : Framed sendBlock (norm D) ((parts.map (writeBody true sendBlock)).flatten ++ lastChunk) parts.flatten := by
    rw [norm_canon hD]; exact Framed.chunked parts h2 (by rw [h3]; decide)
  obtain ⟨hp0, hpsp, hplen⟩ := proto_ok hp
  have hcm := codeMsg_ok code
  have hwire : i.data = proto ++ [32] ++ utoa code ++ [32] ++ codeMsg code ++ crlf ++ headerLines D ++ crlf ++
      ((parts.map (writeBody true sendBlock)).flatten ++ lastChunk) ++ rest := by
    rw [hd]; simp [headerBlock, statusLine_eq, List.append_assoc]
  obtain ⟨i', hread, hdat, hlive⟩ := readResponse_wire proto (codeMsg code) code D _ _ rest hp0 hpsp hcm.1 hfinal
    (by have := utoa_length code hcode; omega) hD.wf (framed_reads sendBlock sendBlock_pos sendBlock_lt hfr) i hi hwire
  rw [norm_canon hD] at hread
  exact ⟨i', hread, hdat, hlive⟩



/-! ### keep-alive, ranges -/

theorem keepOf_http11 (q : Request) (hp : q.proto = sHttp11) (hc : lowerAscii (header q.headers sConnection) ≠ sClose) :
    keepOf q = true := by
  unfold keepOf connValue
  have h1 : (q.proto = sHttp10) = False := by rw [hp]; simp [sHttp11, sHttp10]
  simp [h1, hc]

theorem keepOf_keepalive (q : Request) (hc : lowerAscii (header q.headers sConnection) = sKeepAlive) : keepOf q = true := by
  unfold keepOf connValue
  have : (sKeepAlive = sClose) = False := by simp [sKeepAlive, sClose]
  simp [hc, this]

/-- what an accepted range looks like: inside the file; and `(0, 0)` (which `writeFile` reads as "the whole file") is
only ever returned for a one-byte file -/
theorem rangeOf_some {n : Nat} {b e : Int} {b' e' : Nat} (h : rangeOf n b e = some (b', e')) :
    b' ≤ e' ∧ e' < n ∧ (e' = 0 → n = 1) := by
  by_cases hez : e = 0 ∨ e ≥ (n : Int)
  · simp only [rangeOf, hez, if_true] at h
    split at h
    · exact absurd h (by simp)
    · simp only [Option.some.injEq, Prod.mk.injEq] at h
      omega
  · simp only [rangeOf, hez, if_false] at h
    split at h
    · exact absurd h (by simp)
    · simp only [Option.some.injEq, Prod.mk.injEq] at h
      omega

/-- the decimal text of a range announcement is a well-formed header value -/
theorem contentRange_wf (b e n : Nat) : WFValue (contentRangeText b e n) ∧ (contentRangeText b e n).length ≤ 8 + (utoa b).length + (utoa e).length + (utoa n).length := by
  have hd : ∀ k, ∀ c ∈ utoa k, c ≠ 10 ∧ isSpace c = false := fun k c hc =>
    ⟨(digit_not_space (utoa_digits k c hc)).2, (digit_not_space (utoa_digits k c hc)).1⟩
  refine ⟨⟨by simp [contentRangeText], ?_, ?_, ?_⟩, by simp [contentRangeText]; omega⟩
  · intro c hc
    simp only [contentRangeText, List.mem_append, List.mem_cons, List.not_mem_nil, or_false] at hc
    rcases hc with ((((h | h) | h) | h) | h) | h
    · rcases h with h | h | h | h | h | h <;> subst h <;> decide
    · exact (hd b c h).1
    · subst h; decide
    · exact (hd e c h).1
    · subst h; decide
    · exact (hd n c h).1
  · intro c hc
    simp [contentRangeText] at hc
    subst hc; decide
  · intro c hc
    have hne := utoa_ne_nil n
    have : (contentRangeText b e n).getLast? = (utoa n).getLast? := by
      unfold contentRangeText
      exact getLast?_append_ne hne
    rw [this] at hc
    exact (hd n c (List.mem_of_getLast? hc)).2



/-! ### Expect: 100-continue -/


def interimLine : Bytes := [72, 84, 84, 80, 47, 49, 46, 49, 32, 49, 48, 48, 32, 67, 111, 110, 116, 105, 110, 117, 101, 13]

/-- the interim `HTTP/1.1 100 Continue` + blank line is read as status 100 with no headers -/
theorem readResponseHead_interim (i : Inp) (hi : Live i) (rest : Bytes) (hd : i.data = sInterim100 ++ rest) :
    readResponseHead i = some (100, sHttp11, [], i.advance 25) ∧ (i.advance 25).data = rest := by
  have hd' : i.data = interimLine ++ 10 :: ([13, 10] ++ rest) := by
    rw [hd]; simp [sInterim100, interimLine]
  obtain ⟨hrl, hrest⟩ := readLine_line hi interimLine ([13, 10] ++ rest) (by decide) (by decide) hd'
  have h23 : interimLine.length + 1 = 23 := by decide
  rw [h23] at hrl hrest
  have hi1 : Live (i.advance 23) := hi
  obtain ⟨hh, hdat⟩ := readHeaders_end ((i.advance 23).data.length) (i.advance 23) [] [] [] rest hi1 (by rw [hrest]; rfl)
  rw [advance_advance] at hh hdat
  constructor
  · unfold readResponseHead
    rw [hrl]
    have hs : splitWs interimLine = [sHttp11, [49, 48, 48], [67, 111, 110, 116, 105, 110, 117, 101]] := by decide
    have ha : atoi [49, 48, 48] = 100 := by decide
    have he : interimLine.isEmpty = false := by decide
    simp only [he, Bool.false_eq_true, if_false, hs]
    unfold readHeaders
    rw [hh, ha]
  · exact hdat

/-- **the client skips the interim response**: a final response that follows `100 Continue` on the connection is read
exactly as if it stood alone -/
theorem readResponse_after_continue (i : Inp) (hi : Live i) (rest : Bytes) (hd : i.data = sInterim100 ++ rest)
    (c : Nat) (p : Bytes) (h : Dic) (i2 : Inp) (hhead : readResponseHead (i.advance 25) = some (c, p, h, i2)) (hc : c ≠ 100) :
    readResponse i = readResponse (i.advance 25) := by
  obtain ⟨h1, h2⟩ := readResponseHead_interim i hi rest hd
  -- what the head reader did on the final response
  have hstep : skipContinue ((i.advance 25).data.length + 1) (100, sHttp11, [], i.advance 25) = some (c, p, h, i2) := by
    rw [skipContinue]
    simp only [if_true]
    unfold readResponseHead at hhead
    cases hrl : readLine (i.advance 25) with
    | mk ol i1 =>
      rw [hrl] at hhead
      cases ol with
      | none => simp at hhead
      | some line =>
        simp only [] at hhead ⊢
        by_cases hle : line.isEmpty = true
        · simp [hle] at hhead
        · simp only [hle, Bool.false_eq_true, if_false] at hhead
          cases hsp : splitWs line with
          | nil => rw [hsp] at hhead; simp at hhead
          | cons a t =>
            cases t with
            | nil => rw [hsp] at hhead; simp at hhead
            | cons b u =>
              rw [hsp] at hhead
              simp only [Option.some.injEq, Prod.mk.injEq] at hhead
              obtain ⟨e1, e2, e3, e4⟩ := hhead
              simp only []
              rw [e1, e2, e3, e4]
              split
              · rfl
              · exact skipContinue_final _ _ _ _ _ hc
  have hl25 : (i.advance 25).closed = false := (live_advance hi 25).1
  conv => lhs; unfold readResponse
  rw [h1]
  simp only [hl25, Bool.false_eq_true, if_false]
  rw [hstep]
  conv => rhs; unfold readResponse
  rw [hhead]
  simp only []
  by_cases hcl : i2.closed = true
  · simp only [hcl, if_true]
  · simp only [hcl, if_false]
    rw [skipContinue_final _ _ _ _ _ hc]
    simp [hcl]



/-! ### headers with an empty value -/


theorem trimEnd_sp (s : Bytes) : trimEnd (s ++ [32]) = trimEnd s := by
  unfold trimEnd
  rw [List.reverse_append]
  simp only [List.reverse_cons, List.reverse_nil, List.nil_append, List.singleton_append]
  rw [List.dropWhile_cons_of_pos (by decide)]

/-- a header line with an empty value (`name: ` CRLF) is stored with the empty value -/
theorem readHeaders_step_empty (f : Nat) (i : Inp) (h : Dic) (ln lv n tail : Bytes) (hi : Live i)
    (hn : WFName n) (hfit : n.length + 3 ≤ 16001)
    (hd : i.data = n ++ [58, 32] ++ crlf ++ tail) :
    readHeadersLoop (f + 1) i h ln lv = readHeadersLoop f (i.advance (n.length + 4)) (storeHeader h n []) n [] ∧
    (i.advance (n.length + 4)).data = tail := by
  obtain ⟨hn0, hnc⟩ := hn
  obtain ⟨a, n', hna⟩ := List.exists_cons_of_ne_nil hn0
  have ha := hnc a (by rw [hna]; exact List.mem_cons_self)
  have hd' : i.data = (n ++ [58, 32, 13]) ++ 10 :: tail := by rw [hd]; simp [crlf]
  have hnolf : ∀ c ∈ n ++ [58, 32, 13], c ≠ 10 := by
    intro c hc
    rcases List.mem_append.mp hc with h1 | h1
    · exact (cIsSpace_isSpace (hnc c h1).2.1).2.1
    · simp only [List.mem_cons, List.not_mem_nil, or_false] at h1
      rcases h1 with h1 | h1 | h1 <;> subst h1 <;> decide
  have hll : (n ++ [58, 32, 13]).length + 1 = n.length + 4 := by simp
  obtain ⟨hrl, hrest⟩ := readLine_line hi _ tail hnolf (by simp; omega) hd'
  rw [hll] at hrl hrest
  have htrim : trimmed (n ++ [58, 32, 13]) = n ++ [58] := by
    unfold trimmed
    have h1 : trimStart (n ++ [58, 32, 13]) = n ++ [58, 32, 13] := by
      apply trimStart_id
      intro c hc
      rw [hna] at hc
      simp only [List.cons_append, List.head?_cons, Option.some.injEq] at hc
      subst hc; exact (cIsSpace_isSpace ha.2.1).1
    rw [h1, show n ++ [58, 32, 13] = (n ++ [58, 32]) ++ [13] by simp, trimEnd_cr,
      show n ++ [58, 32] = (n ++ [58]) ++ [32] by simp, trimEnd_sp]
    apply trimEnd_id
    intro c hc
    rw [getLast?_append_ne (by decide)] at hc
    simp at hc; subst hc; decide
  have hne : (n ++ [58, 32, 13]) ≠ [13] := by rw [hna]; simp
  have hhead : cIsSpace ((n ++ [58, 32, 13]).headD 0) = false := by
    rw [hna]; simp only [List.cons_append, List.headD_cons]; exact ha.2.1
  have hidx : indexOfByte 58 (n ++ [58]) = some n.length := indexOfByte_append 58 n [] (fun x hx => (hnc x hx).1)
  constructor
  · rw [readHeadersLoop, hrl]
    simp only [hne, if_false, hhead, Bool.false_eq_true, htrim, hidx]
    have h1 : (n ++ [58]).take n.length = n := by simp
    have h2 : trimmed ((n ++ [58]).drop (n.length + 1)) = [] := by
      have : (n ++ [58]).drop (n.length + 1) = [] := by
        rw [show n.length + 1 = (n ++ [58]).length by simp, List.drop_length]
      rw [this]; rfl
    rw [h1, h2, if_neg (wfname_token ⟨hn0, hnc⟩)]
  · exact hrest



/-! ### suffix ranges, chunked client requests -/


theorem suffix_range (n k : Nat) :
    rangeOf n (suffixRange n k).1 (suffixRange n k).2 = if k = 0 ∨ n = 0 then none else some (n - min k n, n - 1) := by
  unfold suffixRange rangeOf
  by_cases hk : k = 0 ∨ n = 0
  · simp only [hk, if_true]
    have h1 : ¬ ((-1 : Int) = 0 ∨ (-1 : Int) ≥ (n : Int)) := by omega
    simp only [h1, if_false]
    have h : ((-1 : Int) < (if k ≥ n then (0 : Int) else (n : Int) - k) ∨ (if k ≥ n then (0 : Int) else (n : Int) - k) < 0) := by
      left; split <;> omega
    simp only [h, if_true]
  · simp only [hk, if_false, ite_self]
    have hk' : 0 < k ∧ 0 < n := by omega
    by_cases hkn : k ≥ n
    · simp only [hkn, if_true]
      have hc : ¬ ((n : Int) - 1 < 0 ∨ (0 : Int) < 0) := by omega
      simp only [hc, if_false, Int.toNat_zero]
      congr 2 <;> omega
    · simp only [hkn, if_false]
      have hc : ¬ ((n : Int) - 1 < (n : Int) - k ∨ (n : Int) - k < 0) := by omega
      simp only [hc, if_false]
      congr 2 <;> omega




theorem dicRemove_absent {d : Dic} {K : Bytes} (h : ∀ x ∈ d, x.1 ≠ K) : dicRemove d K = d := by
  induction d with
  | nil => rfl
  | cons kv t ih =>
    obtain ⟨k', v'⟩ := kv
    have h0 : ¬ k' = K := h (k', v') List.mem_cons_self
    simp only [dicRemove, h0, if_false]
    rw [ih (fun x hx => h x (List.mem_cons_of_mem _ hx))]

/-- the request headers of a client asked to send chunked (`Transfer-Encoding: chunked` set on a canonical dictionary
without framing headers): nothing to remove, chunk framing chosen, and the reader will see the chunked framing -/
theorem client_chunked_framed (hs0 : Dic) (hh : Canon hs0) (hnf : NoFraming hs0) (hostport body : Bytes) (hhp : hostport ≠ []) :
    teChunked (header (setHeader hs0 sTransferEncoding sChunked) sTransferEncoding) = true ∧
    clientChunkedHeaders (setHeader hs0 sTransferEncoding sChunked) = setHeader hs0 sTransferEncoding sChunked ∧
    isChunked (setHeader hs0 sTransferEncoding sChunked) = true ∧
    Canon (setHeader hs0 sTransferEncoding sChunked) ∧
    (Framed sendBlock (norm ((sHostName, hostport) :: setHeader hs0 sTransferEncoding sChunked))
      (writeBody true sendBlock body ++ lastChunk) body ∧
     CodingOk (norm ((sHostName, hostport) :: setHeader hs0 sTransferEncoding sChunked))) := by
  have hD : Canon (setHeader hs0 sTransferEncoding sChunked) :=
    canon_setHeader hh wf_name_te wf_value_chunked (by unfold FitsLine; decide)
  have hte : dicGet (setHeader hs0 sTransferEncoding sChunked) sTransferEncoding = some sChunked := by
    have := dicGet_setHeader_same hs0 sTransferEncoding sChunked (by decide)
    rwa [cap_te] at this
  have hkeys : ∀ x ∈ setHeader hs0 sTransferEncoding sChunked, x.1 ≠ sContentLength := by
    intro x hx
    rw [setHeader_of_value (by decide), cap_te] at hx
    rcases mem_dicSet hx with h | h
    · subst h; decide
    · exact canon_key_ne hh (fun y hy => (hnf y hy).1) x h
  have hcl : dicGet (setHeader hs0 sTransferEncoding sChunked) sContentLength = none := dicGet_none_of_keys hkeys
  refine ⟨?_, ?_, ?_, hD, ?_⟩
  · rw [(header_of_dicGet cap_te hte).1]; decide
  · unfold clientChunkedHeaders setHeader
    simp only [List.isEmpty_nil, if_true, cap_cl]
    exact dicRemove_absent hkeys
  · unfold isChunked; rw [(header_of_dicGet_none cap_cl hcl).1]; rfl
  · obtain ⟨l1, l2, he, hl1, hl2⟩ := dicSet_split hs0 sTransferEncoding sChunked
    have hlist : (sHostName, hostport) :: setHeader hs0 sTransferEncoding sChunked =
        ((sHostName, hostport) :: l1) ++ (sTransferEncoding, sChunked) :: l2 := by
      rw [setHeader_of_value (by decide), cap_te, he]; rfl
    have f1 := header_norm_found sTransferEncoding cap_te ((sHostName, hostport) :: l1) l2 sTransferEncoding sChunked (by decide) cap_te
      (fun x hx => ⟨(hh.wf x (hl2 x hx)).2.1.1, (hnf x (hl2 x hx)).2⟩)
    have f2 := header_norm_absent sContentLength cap_cl (((sHostName, hostport) :: l1) ++ (sTransferEncoding, sChunked) :: l2) (by
      intro x hx
      rcases List.mem_append.mp hx with h | h
      · rcases List.mem_cons.mp h with h | h
        · subst h; exact ⟨hhp, cap_host_ne.1⟩
        · exact ⟨(hh.wf x (hl1 x h)).2.1.1, (hnf x (hl1 x h)).1⟩
      · rcases List.mem_cons.mp h with h | h
        · subst h; exact ⟨by decide, by decide⟩
        · exact ⟨(hh.wf x (hl2 x h)).2.1.1, (hnf x (hl2 x h)).1⟩)
    rw [hlist]
    have := Framed.chunked (blk := sendBlock) [body] f2.1 (by rw [f1.2]; decide)
    exact ⟨by simpa using this, fun _ => by rw [f1.2]; decide⟩





/-! ### what `sendHeaders` and the end of a whole message do to a message that is not chunked / has no length -/

theorem keys_of_dicGet_none {d : Dic} {K : Bytes} (h : dicGet d K = none) : ∀ x ∈ d, x.1 ≠ K := by
  induction d with
  | nil => intro x hx; cases hx
  | cons kv t ih =>
    obtain ⟨k', v'⟩ := kv
    by_cases hk : k' = K
    · simp [dicGet, hk] at h
    · simp only [dicGet, hk, if_false] at h
      intro x hx
      rcases List.mem_cons.mp hx with hx | hx
      · subst hx; exact hk
      · exact ih h x hx

theorem teChunked_of_no_te {h : Dic} (hte : dicGet h sTransferEncoding = none) :
    teChunked (header h sTransferEncoding) = false := by
  rw [(header_of_dicGet_none cap_te hte).1]; decide

theorem sentHeaders_plain {h : Dic} (hte : teChunked (header h sTransferEncoding) = false) : sentHeaders h = h := by
  unfold sentHeaders; simp [hte]

theorem endOf_plain {h : Dic} (hte : teChunked (header h sTransferEncoding) = false) : endOf h = [] := by
  unfold endOf; simp [hte]

/-- a message without a chunked coding is written as before: its headers as they are, its body, nothing after it -/
theorem serializeWith_plain (blk : Nat) (m : Msg) (hte : teChunked (header m.headers sTransferEncoding) = false) :
    serializeWith blk m = headerBlock m.command m.headers ++ writeBody (isChunked m.headers) blk m.body := by
  unfold serializeWith; rw [sentHeaders_plain hte, endOf_plain hte, List.append_nil]

theorem serializeFile_plain (blk rblk : Nat) (command : Bytes) (h : Dic) (content : Bytes)
    (hte : teChunked (header h sTransferEncoding) = false) :
    serializeFile blk rblk command h content = headerBlock command h ++ writeFile (isChunked h) blk rblk content := by
  unfold serializeFile; rw [sentHeaders_plain hte, endOf_plain hte, List.append_nil]

/-- a dictionary without Content-Length goes out as it is, chunked or not -/
theorem sentHeaders_no_cl {h : Dic} (hcl : dicGet h sContentLength = none) : sentHeaders h = h := by
  unfold sentHeaders
  split
  · unfold setHeader
    simp only [List.isEmpty_nil, if_true, cap_cl]
    exact dicRemove_absent (keys_of_dicGet_none hcl)
  · rfl

/-- a chunked message written as a whole: no Content-Length, every block a chunk, then the last chunk -/
theorem serializeWith_chunked (blk : Nat) (m : Msg) (hcl : dicGet m.headers sContentLength = none)
    (hte : teChunked (header m.headers sTransferEncoding) = true) :
    serializeWith blk m = headerBlock m.command m.headers ++ writeBody true blk m.body ++ lastChunk := by
  have hch : isChunked m.headers = true := by unfold isChunked; rw [(header_of_dicGet_none cap_cl hcl).1]; rfl
  unfold serializeWith endOf
  rw [sentHeaders_no_cl hcl, hch, hte]; rfl

/-- header lines none of which is a Transfer-Encoding: no coding is named -/
theorem codingOk_of_absent (hs : List (Bytes × Bytes)) (h : ∀ x ∈ hs, x.2 ≠ [] ∧ capitalized x.1 ≠ sTransferEncoding) :
    CodingOk (norm hs) := by
  intro hh; rw [(header_norm_absent sTransferEncoding cap_te hs h).1] at hh; cases hh

/-- `NoFraming` headers (raw list of a request object): no Transfer-Encoding entry -/
theorem dicGet_te_of_noFraming {hs : Dic} (hnf : NoFraming hs) : dicGet hs sTransferEncoding = none :=
  dicGet_none_of_keys (fun x hx e => (hnf x hx).2 (by rw [e]; exact cap_te))

theorem dicRemove_dicSet_absent {d : Dic} {K : Bytes} (v : Bytes) (h : ∀ x ∈ d, x.1 ≠ K) : dicRemove (dicSet d K v) K = d := by
  induction d with
  | nil => simp [dicSet, dicRemove]
  | cons kv t ih =>
    obtain ⟨k', v'⟩ := kv
    have h0 : ¬ k' = K := h (k', v') List.mem_cons_self
    simp only [dicSet, h0, if_false]
    split
    · simp [dicRemove]
    · simp only [dicRemove, h0, if_false]
      rw [ih (fun x hx => h x (List.mem_cons_of_mem _ hx))]

/-- `put()` on a message whose owner asked for the chunked coding: the Content-Length that `put` sets does not go out -/
theorem sentHeaders_put_chunked {D : Dic} (len : Bytes) (hlen : len ≠ []) (hcl : dicGet D sContentLength = none)
    (hte : dicGet D sTransferEncoding = some sChunked) :
    sentHeaders (setHeader D sContentLength len) = D ∧ endOf (setHeader D sContentLength len) = lastChunk := by
  have hte' : teChunked (header (setHeader D sContentLength len) sTransferEncoding) = true := by
    have : dicGet (setHeader D sContentLength len) sTransferEncoding = some sChunked := by
      rw [dicGet_setHeader_other _ _ _ _ hlen (by rw [cap_cl]; decide)]; exact hte
    rw [(header_of_dicGet cap_te this).1]; decide
  constructor
  · unfold sentHeaders
    rw [hte']
    simp only [if_true]
    rw [setHeader_of_value hlen, cap_cl]
    unfold setHeader
    simp only [List.isEmpty_nil, if_true, cap_cl]
    exact dicRemove_dicSet_absent len (keys_of_dicGet_none hcl)
  · unfold endOf; rw [hte']; rfl

/-- a streamed response whose handler named the chunked coding itself goes out under its own headers, and is not ended by
the library -/
theorem streamHeaders_named {h : Dic} {v : Bytes} (proto : Bytes) (code : Nat) (hte : dicGet h sTransferEncoding = some v)
    (hcl : dicGet h sContentLength = none) :
    streamHeaders proto code h = h ∧ ownChunks proto code h = false ∧ endByClose proto code h = false := by
  have hu : unframed h = false := by
    unfold unframed hasHeader; rw [cap_te, hte]; simp
  have ho : ownChunks proto code h = false := by unfold ownChunks; rw [hu]; rfl
  have he : endByClose proto code h = false := by unfold endByClose; rw [hu]; rfl
  refine ⟨?_, ho, he⟩
  unfold streamHeaders; rw [ho, he]; simp only [Bool.false_eq_true, if_false]
  exact sentHeaders_no_cl hcl

/-- a streamed response that names neither a length nor a coding, with a status that can have a body, to an HTTP/1.1
request (75c75d0): the library announces the chunked coding and ends the stream — the same bytes as for a handler that names
the coding and ends the stream by hand -/
theorem serializeStream_own (blk : Nat) (code : Nat) (h : Dic) (parts : List Bytes) (hcode : bodyless code = false)
    (hcl : dicGet h sContentLength = none) (hte : dicGet h sTransferEncoding = none) :
    serializeStream blk sHttp11 code h parts false = serializeStream blk sHttp11 code (setHeader h sTransferEncoding sChunked) parts true := by
  have hu : unframed h = true := by
    unfold unframed hasHeader; rw [cap_te, cap_cl, hte, hcl]; rfl
  have h11 : (sHttp11 != sHttp10) = true := by decide
  have ho : ownChunks sHttp11 code h = true := by unfold ownChunks; rw [hu, hcode, h11]; rfl
  have he : endByClose sHttp11 code h = false := endByClose_11 code h
  have hte' : dicGet (setHeader h sTransferEncoding sChunked) sTransferEncoding = some sChunked := by
    have := dicGet_setHeader_same h sTransferEncoding sChunked (by decide)
    rwa [cap_te] at this
  have hcl' : dicGet (setHeader h sTransferEncoding sChunked) sContentLength = none := by
    rw [dicGet_setHeader_other h sTransferEncoding _ sContentLength (by decide) (by rw [cap_te]; decide)]; exact hcl
  obtain ⟨h1, h2, h3⟩ := streamHeaders_named sHttp11 code hte' hcl'
  unfold serializeStream
  simp only [h1, h2, h3, he]
  unfold streamHeaders
  rw [ho]
  simp

/-- setting a key twice is setting it once (no order or sortedness needed: the second `dicSet` finds the entry of the first) -/
theorem dicSet_dicSet_same (d : Dic) (k v w : Bytes) : dicSet (dicSet d k v) k w = dicSet d k w := by
  induction d with
  | nil => simp [dicSet]
  | cons kv t ih =>
    obtain ⟨k', v'⟩ := kv
    by_cases h1 : k' = k
    · simp [dicSet, h1]
    · by_cases h2 : ltBytes k k' = true
      · simp [dicSet, h1, h2]
      · simp [dicSet, h1, h2, ih]

end AslProofs.HttpFrame
